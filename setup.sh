#!/bin/bash
# MANIFEST.setup_cmd: build the Lean library, proofs and the driver executable (offline).
set -e
HERE="$(cd "$(dirname "$0")" && pwd)"
cd "$HERE"
export PYTHONPATH="$HERE/harness/shim:${GRIST_REPO:-/repo}/sandbox/grist:$HERE/harness"
export PYTHONDONTWRITEBYTECODE=1 TZ=UTC PYTHONHASHSEED=0
mkdir -p lean/Generated evidence replays
/venv/bin/python -m gx.translate all 2>&1 | grep -v condarc || true
cd lean
lake build 2>&1 | tail -5
test -x .lake/build/bin/gristdrv
