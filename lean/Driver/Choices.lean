import Lean.Data.Json
import GristModel.Choices
open Lean

/-
Driver for the Choices model (dispatch key "choices").
  cell value : null | ["s", str] | ["l", [str…]] | ["o", token]
  element    : ["s", str] | ["o", token]
  key value  : ["a", [element…]] | ["s", str] | ["k", [str…]] | ["x", token]
  filter     : ["e"] (empty text) | ["x"] (invalid JSON) | ["o", [[key, keyvalue]…]] | ["n", token]
op: {"m":"choices","kind":"Choice"|"ChoiceList"|other,"formula":b,"renames":[[k,v]…],
     "data":[cell…],"live":[n…],"colRef":n,"filters":[[id,colRef,filter]…]}
answer: {"cells":[[row,cell]…],"filters":[[id,filter]…]} | {"error": class}
-/
namespace Grist.Driver.ChoicesD
open Grist.Choices

def arr2 (j : Json) : Except String (Json × Json) := do
  let a ← j.getArr?
  if h : a.size = 2 then pure (a[0], a[1]) else throw "expected pair"

def tagged (j : Json) : Except String (String × Option Json) := do
  let a ← j.getArr?
  if h : a.size = 2 then pure (← a[0].getStr?, some a[1])
  else if h : a.size = 1 then pure (← a[0].getStr?, none)
  else throw "expected tagged value"

def getS (j : Json) : Except String Str := do pure (← j.getStr?).toList
def getSL (j : Json) : Except String (List Str) := do (← j.getArr?).toList.mapM getS

def decVal (j : Json) : Except String Val := do
  if j.isNull then pure .none else
  match ← tagged j with
  | ("s", some x) => pure (.str (← getS x))
  | ("l", some x) => pure (.strs (← getSL x))
  | ("o", some x) => pure (.other (← getS x))
  | _ => throw "bad cell"

def encS (s : Str) : Json := Json.str (String.ofList s)
def encVal : Val → Json
  | .none => Json.null
  | .str s => Json.arr #[Json.str "s", encS s]
  | .strs l => Json.arr #[Json.str "l", Json.arr (l.map encS).toArray]
  | .other t => Json.arr #[Json.str "o", encS t]

def decElem (j : Json) : Except String Elem := do
  match ← tagged j with
  | ("s", some x) => pure (.str (← getS x))
  | ("o", some x) => pure (.other (← getS x))
  | _ => throw "bad element"

def encElem : Elem → Json
  | .str s => Json.arr #[Json.str "s", encS s]
  | .other t => Json.arr #[Json.str "o", encS t]

def decFVal (j : Json) : Except String FVal := do
  match ← tagged j with
  | ("a", some x) => pure (.arr (← (← x.getArr?).toList.mapM decElem))
  | ("s", some x) => pure (.str (← getS x))
  | ("k", some x) => pure (.keys (← getSL x))
  | ("x", some x) => pure (.scalar (← getS x))
  | _ => throw "bad key value"

def encFVal : FVal → Json
  | .arr l => Json.arr #[Json.str "a", Json.arr (l.map encElem).toArray]
  | .str s => Json.arr #[Json.str "s", encS s]
  | .keys ks => Json.arr #[Json.str "k", Json.arr (ks.map encS).toArray]
  | .scalar t => Json.arr #[Json.str "x", encS t]

def decFText (j : Json) : Except String FText := do
  match ← tagged j with
  | ("e", none) => pure .empty
  | ("x", none) => pure .invalid
  | ("n", some x) => pure (.json (.nonObj (← getS x)))
  | ("o", some x) =>
    let kvs ← (← x.getArr?).toList.mapM (fun p => do
      let (k, v) ← arr2 p
      pure ((← getS k), (← decFVal v)))
    pure (.json (.obj kvs))
  | _ => throw "bad filter"

def encFJ : FJ → Json
  | .obj kvs => Json.arr #[Json.str "o", Json.arr (kvs.map (fun p => Json.arr #[encS p.1, encFVal p.2])).toArray]
  | .nonObj t => Json.arr #[Json.str "n", encS t]

end Grist.Driver.ChoicesD

namespace Grist.Driver
open Grist.Choices Grist.Driver.ChoicesD

def handleChoices (j : Json) : Except String Json := do
  let kind := match ← j.getObjValAs? String "kind" with
    | "Choice" => Kind.choice
    | "ChoiceList" => Kind.choiceList
    | _ => Kind.other
  let isFormula ← j.getObjValAs? Bool "formula"
  let renames ← (← j.getObjValAs? (Array Json) "renames").toList.mapM (fun p => do
    let (k, v) ← arr2 p
    pure ((← getS k), (← getS v)))
  let data ← (← j.getObjValAs? (Array Json) "data").toList.mapM decVal
  let live ← j.getObjValAs? (List Nat) "live"
  let colRef ← j.getObjValAs? Nat "colRef"
  let filters ← (← j.getObjValAs? (Array Json) "filters").toList.mapM (fun p => do
    let a ← p.getArr?
    if h : a.size = 3 then
      pure (FilterRec.mk (← a[0].getNat?) (← a[1].getNat?) (← decFText a[2]))
    else throw "bad filter record")
  match renameChoices ⟨kind, isFormula, renames, data, live, colRef, filters⟩ with
  | .error e => pure <| Json.mkObj [("error", Json.str e.name)]
  | .ok r => pure <| Json.mkObj [
      ("cells", Json.arr (r.cells.map (fun p => Json.arr #[toJson p.1, encVal p.2])).toArray),
      ("filters", Json.arr (r.filters.map (fun p => Json.arr #[toJson p.1, encFJ p.2])).toArray)]

end Grist.Driver
