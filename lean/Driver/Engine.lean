import Lean.Data.Json
import GristModel.Doc
import GristModel.Engine
import GristModel.SchemaMeta
import GristModel.MetaRefs
open Lean
namespace Grist.Driver.Engine
open Grist.Doc

/-! JSON <-> model -/

def valOfJson (j : Json) : Except String Val :=
  match j with
  | .null => .ok .null
  | .bool b => .ok (.bool b)
  | .str s =>
    if s.startsWith "i" then
      match (s.drop 1).toString.toInt? with
      | some i => .ok (.int i)
      | none => .error s!"bad int token {s}"
    else if s.startsWith "f" then .ok (.flt (s.drop 1).toString)
    else if s.startsWith "s" then .ok (.str (s.drop 1).toString)
    else if s.startsWith "o" then .ok (.other (s.drop 1).toString)
    else .error s!"bad token {s}"
  | _ => .error "bad value token"

def valToJson : Val → Json
  | .null => .null
  | .bool b => .bool b
  | .int i => .str s!"i{i}"
  | .flt s => .str ("f" ++ s)
  | .str s => .str ("s" ++ s)
  | .other s => .str ("o" ++ s)

def optStr (j : Json) : Option String :=
  match j with
  | .str s => some s
  | _ => none

def boolish (j : Json) : Bool :=
  match j with
  | .bool b => b
  | .null => false
  | .num n => n != 0
  | .str s => s != ""
  | _ => true

def colInfoOfJson (j : Json) : Except String ColInfo := do
  let ty ← j.getObjValAs? String "type"
  let isF ← j.getObjVal? "isFormula"
  let f ← j.getObjValAs? String "formula"
  let rev := match j.getObjVal? "reverseColId" with
    | .ok v => optStr v
    | .error _ => none
  pure { type := ty, isFormula := boolish isF, formula := f, reverseColId := rev }

def colInfoToJson (ci : ColInfo) (id : Option String := none) : Json :=
  let base : List (String × Json) :=
    [("type", .str ci.type), ("isFormula", .bool ci.isFormula), ("formula", .str ci.formula)]
  let base := match ci.reverseColId with
    | some r => base ++ [("reverseColId", .str r)]
    | none => base
  let base := match id with
    | some i => base ++ [("id", .str i)]
    | none => base
  Json.mkObj base

def patchOfJson (j : Json) : Except String ColPatch := do
  let ty := match j.getObjVal? "type" with | .ok (.str s) => some s | _ => none
  let isF := match j.getObjVal? "isFormula" with | .ok v => some (boolish v) | _ => none
  let f := match j.getObjVal? "formula" with | .ok (.str s) => some s | _ => none
  let rev := match j.getObjVal? "reverseColId" with | .ok v => some (optStr v) | _ => none
  pure { type := ty, isFormula := isF, formula := f, reverseColId := rev }

def patchToJson (p : ColPatch) : Json :=
  let l : List (String × Json) := []
  let l := match p.type with | some s => l ++ [("type", .str s)] | none => l
  let l := match p.isFormula with | some b => l ++ [("isFormula", .bool b)] | none => l
  let l := match p.formula with | some s => l ++ [("formula", .str s)] | none => l
  let l := match p.reverseColId with
    | some (some s) => l ++ [("reverseColId", .str s)]
    | some none => l ++ [("reverseColId", .null)]
    | none => l
  Json.mkObj l

def natList (j : Json) : Except String (List Nat) := do
  let a ← j.getArr?
  a.toList.mapM (fun x => match x.getInt? with
    | .ok i => if i < 0 then .error "negative row id" else .ok i.toNat
    | .error e => .error e)

def bulkCols (j : Json) : Except String (List (String × List Val)) := do
  let o ← j.getObj?
  o.toList.mapM (fun (k, v) => do
    let a ← v.getArr?
    let vs ← a.toList.mapM valOfJson
    pure (k, vs))

def singleCols (j : Json) : Except String (List (String × List Val)) := do
  let o ← j.getObj?
  o.toList.mapM (fun (k, v) => do
    let x ← valOfJson v
    pure (k, [x]))

def actionOfJson (j : Json) : Except String DocAction := do
  let a ← j.getArr?
  let name ← (a[0]?.getD Json.null).getStr?
  let arg (i : Nat) : Json := a[i]?.getD Json.null
  match name with
  | "AddRecord" => do
    let r ← natList (Json.arr #[arg 2])
    pure (.bulkAdd (← (arg 1).getStr?) r (← singleCols (arg 3)))
  | "BulkAddRecord" => pure (.bulkAdd (← (arg 1).getStr?) (← natList (arg 2)) (← bulkCols (arg 3)))
  | "RemoveRecord" => do
    let r ← natList (Json.arr #[arg 2])
    pure (.bulkRemove (← (arg 1).getStr?) r)
  | "BulkRemoveRecord" => pure (.bulkRemove (← (arg 1).getStr?) (← natList (arg 2)))
  | "UpdateRecord" => do
    let r ← natList (Json.arr #[arg 2])
    pure (.bulkUpdate (← (arg 1).getStr?) r (← singleCols (arg 3)))
  | "BulkUpdateRecord" => pure (.bulkUpdate (← (arg 1).getStr?) (← natList (arg 2)) (← bulkCols (arg 3)))
  | "ReplaceTableData" => pure (.replaceData (← (arg 1).getStr?) (← natList (arg 2)) (← bulkCols (arg 3)))
  | "AddColumn" => pure (.addColumn (← (arg 1).getStr?) (← (arg 2).getStr?) (← colInfoOfJson (arg 3)))
  | "RemoveColumn" => pure (.removeColumn (← (arg 1).getStr?) (← (arg 2).getStr?))
  | "RenameColumn" => pure (.renameColumn (← (arg 1).getStr?) (← (arg 2).getStr?) (← (arg 3).getStr?))
  | "ModifyColumn" => pure (.modifyColumn (← (arg 1).getStr?) (← (arg 2).getStr?) (← patchOfJson (arg 3)))
  | "AddTable" => do
    let cols ← (arg 2).getArr?
    let cs ← cols.toList.mapM (fun (c : Json) => do
      let id ← c.getObjValAs? String "id"
      let ci ← colInfoOfJson c
      pure (id, ci))
    pure (.addTable (← (arg 1).getStr?) cs)
  | "RemoveTable" => pure (.removeTable (← (arg 1).getStr?))
  | "RenameTable" => pure (.renameTable (← (arg 1).getStr?) (← (arg 2).getStr?))
  | n => .error s!"unknown action {n}"

def colsToJson (cols : List (String × List Val)) (single : Bool) : Json :=
  Json.mkObj (cols.map (fun (k, vs) =>
    (k, if single then valToJson (vs.headD .null) else Json.arr (vs.map valToJson).toArray)))

def rowsJson (rows : List Nat) : Json := Json.arr (rows.map (fun r => toJson r)).toArray

/-- canonical rendering = what `simplify()` + `get_action_repr` give -/
def actionToJson : DocAction → Json
  | .bulkAdd t [r] cols => Json.arr #[.str "AddRecord", .str t, toJson r, colsToJson cols true]
  | .bulkAdd t rows cols => Json.arr #[.str "BulkAddRecord", .str t, rowsJson rows, colsToJson cols false]
  | .bulkRemove t [r] => Json.arr #[.str "RemoveRecord", .str t, toJson r]
  | .bulkRemove t rows => Json.arr #[.str "BulkRemoveRecord", .str t, rowsJson rows]
  | .bulkUpdate t [r] cols => Json.arr #[.str "UpdateRecord", .str t, toJson r, colsToJson cols true]
  | .bulkUpdate t rows cols => Json.arr #[.str "BulkUpdateRecord", .str t, rowsJson rows, colsToJson cols false]
  | .replaceData t rows cols => Json.arr #[.str "ReplaceTableData", .str t, rowsJson rows, colsToJson cols false]
  | .addColumn t c ci => Json.arr #[.str "AddColumn", .str t, .str c, colInfoToJson ci]
  | .removeColumn t c => Json.arr #[.str "RemoveColumn", .str t, .str c]
  | .renameColumn t o n => Json.arr #[.str "RenameColumn", .str t, .str o, .str n]
  | .modifyColumn t c p => Json.arr #[.str "ModifyColumn", .str t, .str c, patchToJson p]
  | .addTable t cols => Json.arr #[.str "AddTable", .str t,
      Json.arr (cols.map (fun (id, ci) => colInfoToJson ci (some id))).toArray]
  | .removeTable t => Json.arr #[.str "RemoveTable", .str t]
  | .renameTable o n => Json.arr #[.str "RenameTable", .str o, .str n]

def assocFun (m : List (Nat × Val)) (dflt : Val) : Nat → Val :=
  fun r => (m.lookup r).getD dflt

/-- {"T": {"ids":[..], "cols": {"c": {"info": {...}, "vals": [...]}}}} -/
def docOfJson (j : Json) : Except String Doc := do
  let o ← j.getObj?
  o.toList.mapM (fun (tid, tj) => do
    let rows ← natList (← tj.getObjVal? "ids")
    let colsJ ← (← tj.getObjVal? "cols").getObj?
    let cols ← colsJ.toList.mapM (fun (cid, cj) => do
      let info ← colInfoOfJson (← cj.getObjVal? "info")
      let vals ← (← (← cj.getObjVal? "vals").getArr?).toList.mapM valOfJson
      pure ({ id := cid, info := info, cells := assocFun (rows.zip vals) (typeDefault info.type) } : Col))
    pure ({ id := tid, cols := cols, rows := rows } : Table))

def docToJson (d : Doc) : Json :=
  Json.mkObj (d.map (fun tb =>
    (tb.id, Json.mkObj [
      ("ids", rowsJson tb.rows),
      ("cols", Json.mkObj (tb.cols.map (fun col =>
        (col.id, Json.mkObj [("info", colInfoToJson col.info),
                             ("vals", Json.arr (tb.rows.map (fun r => valToJson (col.cells r))).toArray)]))))])))

def changesOfJson (j : Json) : Except String (List (Nat × Val × Val)) := do
  let a ← j.getArr?
  a.toList.mapM (fun e => do
    let x ← e.getArr?
    let r ← (x[0]?.getD Json.null).getNat?
    let b ← valOfJson (x[1]?.getD Json.null)
    let af ← valOfJson (x[2]?.getD Json.null)
    pure (r, b, af))

/-- Rebuild every column's cell function from its values at existing rows (keeps look-ups O(rows)
    instead of O(number of writes so far)); cells outside `rows` read as the type default, which is
    what the engine's `unset` guarantees. -/
def compact (d : Doc) : Doc :=
  d.map (fun tb => { tb with cols := tb.cols.map (fun col =>
    { col with cells := assocFun (tb.rows.zip (tb.rows.map col.cells)) (typeDefault col.info.type) }) })

structure DState where
  sessions : List (String × Doc) := []

def DState.doc (ds : DState) (sid : String) : Doc := (ds.sessions.lookup sid).getD []
def DState.setDoc (ds : DState) (sid : String) (d : Doc) : DState :=
  { sessions := (ds.sessions.filter (·.1 != sid)) ++ [(sid, d)] }

/-- Replay one bundle's recorded step word.  Steps are JSON arrays as emitted by the recorder. -/
def replaySteps (st0 : EState) (steps : List Json) :
    EState × List String × Nat := Id.run do
  let mut st := st0
  let mut notes : List String := []
  let mut calcMis := 0
  -- rollback bookkeeping: lengths at the checkpoint while a rollback is in progress
  let mut rb : Option (Nat × Nat × List DocAction) := none
  let mut sawRaised := false
  for sj in steps do
    let a := sj.getArr?.toOption.getD #[]
    let kind := ((a[0]?.getD Json.null).getStr?).toOption.getD ""
    match kind with
    | "doc" =>
      let direct := boolish (a[2]?.getD Json.null)
      let status := ((a[3]?.getD Json.null).getStr?).toOption.getD "ok"
      if status == "fault-entry" then continue
      match actionOfJson (a[1]?.getD Json.null) with
      | .error e => notes := notes ++ [s!"unparsed doc step: {e}"]
      | .ok act =>
        if status == "raised" then
          -- the engine raised inside this doc action: `_do_doc_action` had appended it to
          -- stored/direct; how far the DocActions method got is not observable, so the model applies
          -- nothing and stops predicting the rollback list for this bundle (the document comparison
          -- after the rollback still applies)
          st := { st with stored := st.stored ++ [act], direct := st.direct ++ [direct] }
          sawRaised := true
        else
          -- during a rollback the recorded action must be the next predicted undo action
          match rb with
          | some (ls, lu, next :: rest) =>
            if !sawRaised && (actionToJson next).compress != (actionToJson act).compress then
              notes := notes ++ [s!"rollback replays a different action than undo[cp:] reversed: model {(actionToJson next).compress} engine {(actionToJson act).compress}"]
            rb := some (ls, lu, rest)
          | _ => pure ()
          match stepDoc st act direct with
          | .ok st' => st := st'
          | .error e =>
            notes := notes ++ [s!"model rejects doc step the engine accepted: {e}"]
            st := { st with stored := st.stored ++ [act], direct := st.direct ++ [direct] }
    | "calc" =>
      let t := ((a[1]?.getD Json.null).getStr?).toOption.getD ""
      let c := ((a[2]?.getD Json.null).getStr?).toOption.getD ""
      match changesOfJson (a[3]?.getD Json.null) with
      | .error e => notes := notes ++ [s!"unparsed calc step: {e}"]
      | .ok chs =>
        calcMis := calcMis + (calcMismatches st.doc t c chs).length
        st := stepCalc st t c chs
    | "flushcol" =>
      let t := ((a[1]?.getD Json.null).getStr?).toOption.getD ""
      let c := ((a[2]?.getD Json.null).getStr?).toOption.getD ""
      match stepFlushCol st t c with
      | .ok st' => st := st'
      | .error e => notes := notes ++ [s!"flushcol: {e}"]
    | "rollback" =>
      let ls := ((a[1]?.getD Json.null).getNat?).toOption.getD 0
      let lu := ((a[2]?.getD Json.null).getNat?).toOption.getD 0
      rb := some (ls, lu, (st.undo.drop lu).reverse)
    | "rollback-done" =>
      match rb with
      | some (ls, lu, pending) =>
        if !pending.isEmpty && !sawRaised then notes := notes ++ ["rollback stopped before replaying all undo actions"]
        st := { st with stored := st.stored.take ls, direct := st.direct.take ls, undo := st.undo.take lu }
        rb := none
      | none => notes := notes ++ ["rollback-done without rollback"]
    | "finish" => st := stepFinish st
    | k => notes := notes ++ [s!"unknown step {k}"]
  return (st, notes, calcMis)

def handle (ds : DState) (j : Json) : DState × Except String Json :=
  let sid := (j.getObjValAs? String "sid").toOption.getD "M"
  match j.getObjValAs? String "op" with
  | .error e => (ds, .error e)
  | .ok op =>
    match op with
    | "init" =>
      match j.getObjVal? "doc" >>= docOfJson with
      | .error e => (ds, .error e)
      | .ok d => (ds.setDoc sid d, .ok (Json.mkObj [("ok", .bool true), ("tables", toJson d.length)]))
    | "bundle" =>
      match j.getObjVal? "steps" >>= (·.getArr?) with
      | .error e => (ds, .error e)
      | .ok steps =>
        let st0 : EState := { doc := ds.doc sid }
        let (st, notes, calcMis) := replaySteps st0 steps.toList
        let out := Json.mkObj [
          ("stored", Json.arr (st.stored.map actionToJson).toArray),
          ("undo", Json.arr (st.undo.map actionToJson).toArray),
          ("direct", Json.arr (st.direct.map Json.bool).toArray),
          ("notes", Json.arr (notes.map Json.str).toArray),
          ("calc_before_mismatch", toJson calcMis)]
        (ds.setDoc sid (compact st.doc), .ok out)
    | "obs" =>
      let d := ds.doc sid
      match j.getObjValAs? (Array String) "tables" with
      | .ok ts => (ds, .ok (Json.mkObj [("partial", docToJson (d.filter (fun tb => ts.contains tb.id))),
                                        ("all_tables", toJson (d.map (·.id)))]))
      | .error _ => (ds, .ok (docToJson d))
    | "schema_consistent" =>
      -- C08: the model's decision procedure evaluated on this session's document
      (ds, .ok (Json.mkObj [("consistent", Json.bool (schemaConsistentB (ds.doc sid)))]))
    | "meta_refs" =>
      -- C09: the decidable predicate on this session's document; specs = [[table, col, target, isList]..]
      match j.getObjVal? "specs" >>= (·.getArr?) with
      | .error e => (ds, .error e)
      | .ok arr =>
        let specs := arr.toList.filterMap (fun sj =>
          match sj.getArr? with
          | .ok a =>
            match (a[0]?.getD Json.null).getStr?, (a[1]?.getD Json.null).getStr?, (a[2]?.getD Json.null).getStr? with
            | .ok t, .ok c, .ok tg => some ({ table := t, col := c, target := tg, isList := boolish (a[3]?.getD Json.null) } : RefSpec)
            | _, _, _ => none
          | .error _ => none)
        let d := ds.doc sid
        let dang := match firstDangling d specs with
          | some (t, c, r, k) => Json.arr #[Json.str t, Json.str c, toJson r, toJson k]
          | none => Json.null
        (ds, .ok (Json.mkObj [("refs", Json.bool (refsResolve d specs)), ("fields", Json.bool (fieldsMatchSection d)),
                              ("tables", Json.bool (userTablesHaveRecords d)), ("helpers", Json.bool (helpersUsed d)),
                              ("dangling", dang)]))
    | "apply" =>
      -- replica: apply a list of doc actions (stored of a bundle) with the data semantics only
      match j.getObjVal? "actions" >>= (·.getArr?) with
      | .error e => (ds, .error e)
      | .ok acts =>
        match acts.toList.mapM actionOfJson with
        | .error e => (ds, .error e)
        | .ok as =>
          match applyAll (ds.doc sid) as with
          | .error e => (ds, .ok (Json.mkObj [("error", .str e)]))
          | .ok d => (ds.setDoc sid (compact d), .ok (Json.mkObj [("ok", .bool true)]))
    | o => (ds, .error s!"unknown engine op {o}")

end Grist.Driver.Engine
