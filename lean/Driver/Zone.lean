import Lean.Data.Json
import GristModel.Zone
open Lean

namespace Grist.Driver
open Grist.Zone

private def zErrJ : Grist.Zone.Err → Json
  | .indexError => Json.mkObj [("error", Json.str "IndexError")]

private def zExJ {α : Type} (f : α → Json) : Except Grist.Zone.Err α → Json
  | .ok a => f a
  | .error e => zErrJ e

private def zOptJ : Option Int → Json
  | some v => toJson v
  | none => Json.null

private def zArgInt (a : Array Json) (i : Nat) : Except String Int :=
  match a[i]? with
  | some j => j.getInt?
  | none => throw "missing argument"

private def zArgOptInt (a : Array Json) (i : Nat) : Except String (Option Int) :=
  match a[i]? with
  | some j => if j.isNull then pure none else some <$> j.getInt?
  | none => throw "missing argument"

private def civilJ (c : Civil) : Json := toJson [c.y, c.m, c.d]

/-- One query against a zone record. -/
def zoneQuery (z : Grist.Zone.Zone) (q : Json) : Except String Json := do
  let a ← q.getArr?
  let op ← match a[0]? with
    | some j => j.getStr?
    | none => throw "empty query"
  match op with
  | "idx" => do
    let t ← zArgInt a 1
    pure (toJson (index z t))
  | "offset" => do
    let t ← zArgInt a 1
    pure (zExJ (fun (e : Int) => toJson e) (offset z t))
  | "idxdt" => do
    let w ← zArgInt a 1
    let f ← zArgOptInt a 2
    pure (zExJ (fun (i : Nat) => toJson i) (indexDt z w f))
  | "dtoffset" => do
    let w ← zArgInt a 1
    let f ← zArgOptInt a 2
    pure (zExJ (fun (e : Int) => toJson e) (dtOffset z w f))
  | "ts2dt" => do
    let t ← zArgInt a 1
    pure (zExJ (fun (d : LocalDt) => Json.arr #[toJson d.wall, zOptJ d.favor]) (tsToDt z t))
  | "dt2ts" => do
    let w ← zArgInt a 1
    let f ← zArgOptInt a 2
    pure (zExJ (fun (e : Int) => toJson e) (dtToTs z w f))
  | "tsq" => do
    -- ts -> dt -> ts in one answer: [wall, favor, back]
    let t ← zArgInt a 1
    pure (zExJ (fun (p : LocalDt × Int) => Json.arr #[toJson p.1.wall, zOptJ p.1.favor, toJson p.2])
      (do let d ← tsToDt z t; let b ← dtToTs' z d; pure (d, b)))
  | "wq" => do
    -- local wall clock + favor -> [utcoffset, ts]
    let w ← zArgInt a 1
    let f ← zArgOptInt a 2
    pure (zExJ (fun (p : Int × Int) => Json.arr #[toJson p.1, toJson p.2])
      (do let e ← dtOffset z w f; let t ← dtToTs z w f; pure (e, t)))
  | "rt" => do
    -- ts -> dt -> ts in one go
    let t ← zArgInt a 1
    pure (zExJ (fun (e : Int) => toJson e) (do let d ← tsToDt z t; dtToTs' z d))
  | "day2ts" => do
    let d ← zArgInt a 1
    pure (zExJ (fun (e : Int) => toJson e) (dayToTs z d))
  | "localday" => do
    let t ← zArgInt a 1
    pure (zExJ (fun (e : Int) => toJson e) (localDay z t))
  | "ts2day" => do
    let t ← zArgInt a 1
    pure (toJson (tsToDay t))
  | "day2tsutc" => do
    let d ← zArgInt a 1
    pure (toJson (dayToTsUtc d))
  | "fromdays" => do
    let n ← zArgInt a 1
    pure (civilJ (civilFromDays n))
  | "todays" => do
    let y ← zArgInt a 1
    let m ← zArgInt a 2
    let d ← zArgInt a 3
    pure (toJson (daysFromCivil ⟨y, m, d⟩))
  | "valid" => do
    let y ← zArgInt a 1
    let m ← zArgInt a 2
    let d ← zArgInt a 3
    pure (toJson (decide (Civil.Valid ⟨y, m, d⟩)))
  | "wf" => pure (toJson (zoneWFb z))
  | "ou" => pure (toJson (offsetUntils z))
  | _ => throw s!"unknown zone query {op}"

/-- `{"m":"zone","untils":[ms..],"offsets":[sec west..],"q":[[op,args..],..]}` → `{"r":[..]}` -/
def handleZone (j : Json) : Except String Json := do
  let untils ← match j.getObjVal? "untils" with
    | .ok v => do
      let arr ← v.getArr?
      arr.toList.mapM (fun x => x.getInt?)
    | .error _ => pure []
  let offsets ← match j.getObjVal? "offsets" with
    | .ok v => do
      let arr ← v.getArr?
      arr.toList.mapM (fun x => x.getInt?)
    | .error _ => pure [0]
  let qs ← j.getObjValAs? (Array Json) "q"
  let z : Grist.Zone.Zone := { untils := untils, offsets := offsets }
  let rs ← qs.toList.mapM (zoneQuery z)
  pure (Json.mkObj [("r", Json.arr rs.toArray)])

end Grist.Driver
