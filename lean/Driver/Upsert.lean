import Lean.Data.Json
import GristModel.Upsert
open Lean

/-
Driver for the Upsert model (dispatch key "upsert").  Column ids and cell tokens are strings.
  {"m":"upsert","op":"bulk"|"single",
   "schema":[["i","data"],["f","formula"],…], "table":[[rowId,[["i","n1"],…]],…], "next":7,
   "defaults":[["i","n0"],…],
   "require":   bulk: [["i",[["raw","conv"],…]],…]     single: [["i",["raw","conv"]],…]
                a require cell may be a triple ["raw","conv","store"] (pair: store = conv)
   "col_values":bulk: [["t",["sX",…]],…]               single: [["t","sX"],…]
   "options":{"update":true,"add":true,"on_many":"first"|"none"|"all"|"bad","allow_empty_require":false},
   optional "conv_add":[["e","s"],…], "conv_upd":[…] : empty columns (schema kind "empty") converted by
   the BulkAddRecord / the BulkUpdateRecord, with the new type's default}
Answer: {"impl": OUT, "spec": OUT} (single: only "impl"), "impl" = upsertImplConv / addOrUpdateImplConv,
  "spec" = upsertSpec (knows no conversions); OUT = {"error": class, "tag": which} or
  {"table":[[rowId,[[col,tok],…]],…], "recordIds":…, "addRecordIds":…, "updateRecordIds":…}
  (single: "recordIds": [..], "action": "ADD"|"UPDATE"|"NONE").
-/
namespace Grist.Driver.Ups
open Grist.Upsert

abbrev K := String
abbrev V := String

def pair (j : Json) : Except String (Json × Json) := do
  let a ← j.getArr?
  if h : a.size = 2 then pure (a[0], a[1]) else throw "expected a pair"

def assoc {β : Type} (f : Json → Except String β) (j : Json) : Except String (List (String × β)) := do
  let a ← j.getArr?
  a.toList.mapM (fun p => do
    let (k, v) ← pair p
    pure ((← k.getStr?), (← f v)))

def str (j : Json) : Except String String := j.getStr?

def cellOf (j : Json) : Except String (Cell V) := do
  let a ← j.getArr?
  if h : a.size = 2 then
    let c ← a[1].getStr?
    pure ⟨← a[0].getStr?, c, c⟩
  else if h : a.size = 3 then pure ⟨← a[0].getStr?, ← a[1].getStr?, ← a[2].getStr?⟩
  else throw "expected a require cell [raw, conv] or [raw, conv, store]"

def listOf {β : Type} (f : Json → Except String β) (j : Json) : Except String (List β) := do
  let a ← j.getArr?
  a.toList.mapM f

def kindOf (j : Json) : Except String ColKind := do
  match (← j.getStr?) with
  | "data" => pure .data
  | "formula" => pure .formula
  | "empty" => pure .empty
  | s => throw s!"bad column kind {s}"

def tableOf (j : Json) : Except String (Table K V) := do
  let a ← j.getArr?
  a.toList.mapM (fun p => do
    let (r, rc) ← pair p
    pure ((← r.getNat?), (← assoc str rc)))

def optionsOf (j : Json) : Except String Upsert.Options := do
  let om ← j.getObjValAs? String "on_many"
  pure { update := (← j.getObjValAs? Bool "update"), add := (← j.getObjValAs? Bool "add"),
         allowEmptyRequire := (← j.getObjValAs? Bool "allow_empty_require"),
         onMany := match om with
           | "first" => .first | "none" => .skip | "all" => .all | _ => .bad }

def errOut (e : Err) : Json :=
  let (cls, tag) := match e with
    | .badOnMany => ("ValueError", "on_many")
    | .emptyRequire => ("ValueError", "empty_require")
    | .lengths => ("ValueError", "lengths")
    | .notUnique => ("ValueError", "not_unique")
    | .unknownColumn => ("KeyError", "unknown_column")
    | .formulaColumn => ("ValueError", "formula_column")
  Json.mkObj [("error", Json.str cls), ("tag", Json.str tag)]

def tableOut (t : Table K V) : Json :=
  toJson (t.map (fun p => Json.arr #[toJson p.1, toJson (p.2.map (fun c => [c.1, c.2]))]))

def bulkOut : Except Err (Table K V × Result) → Json
  | .error e => errOut e
  | .ok (t, r) => Json.mkObj [("table", tableOut t), ("recordIds", toJson r.recordIds),
      ("addRecordIds", toJson r.addRecordIds), ("updateRecordIds", toJson r.updateRecordIds)]

def singleOut : Except Err (Table K V × SingleResult) → Json
  | .error e => errOut e
  | .ok (t, r) => Json.mkObj [("table", tableOut t), ("recordIds", toJson r.recordIds),
      ("action", Json.str (match r.action with | .none => "NONE" | .add => "ADD" | .update => "UPDATE"))]

end Grist.Driver.Ups

namespace Grist.Driver
open Grist.Upsert Grist.Driver.Ups

def handleUpsert (j : Json) : Except String Json := do
  let op ← j.getObjValAs? String "op"
  let sch ← assoc kindOf (← j.getObjVal? "schema")
  let t0 ← tableOf (← j.getObjVal? "table")
  let next ← j.getObjValAs? Nat "next"
  let dflt ← assoc str (← j.getObjVal? "defaults")
  let opt ← optionsOf (← j.getObjVal? "options")
  let cvAdd ← match j.getObjVal? "conv_add" with
    | .ok x => assoc str x
    | .error _ => pure []
  let cvUpd ← match j.getObjVal? "conv_upd" with
    | .ok x => assoc str x
    | .error _ => pure []
  match op with
  | "bulk" =>
    let req ← assoc (listOf cellOf) (← j.getObjVal? "require")
    let cv ← assoc (listOf str) (← j.getObjVal? "col_values")
    let rq : Request K V := { require := req, colValues := cv }
    pure <| Json.mkObj [("impl", bulkOut (upsertImplConv sch t0 next dflt rq opt cvAdd cvUpd)),
                        ("spec", bulkOut (upsertSpec sch t0 next dflt rq opt)),
                        ("targets", toJson (updTargets sch t0 rq opt))]
  | "single" =>
    let req ← assoc cellOf (← j.getObjVal? "require")
    let cv ← assoc str (← j.getObjVal? "col_values")
    pure <| Json.mkObj [("impl", singleOut (addOrUpdateImplConv sch t0 next dflt req cv opt cvAdd cvUpd))]
  | _ => throw s!"unknown upsert op {op}"

end Grist.Driver
