import Lean.Data.Json
import GristModel.FetchQuery
open Lean

/-
Driver for the FetchQuery model (dispatch key "fetchquery").
  value : null | true | false | "text" | ["i", n] | ["f", n] (integral float) | ["g", repr]
        | ["l", [value…]] | ["t", [value…]]
op: {"m":"fetchquery","ids":[int…] (the id column's _data),
     "cols":[{"id":s,"f":b,"p":b,"d":[value…],"def":value}…],
     "formulas":b,"private":b,"query":null | [[colId,[value…]]…]}
answer: {"rows":[n…],"cols":[[colId,[value…]]…]} | {"error":"KeyError"}
-/
namespace Grist.Driver.FetchQueryD
open Grist.FetchQuery

partial def decVal (j : Json) : Except String Val := do
  match j with
  | .null => pure .none
  | .bool b => pure (.bool b)
  | .str s => pure (.str s.toList)
  | .arr a =>
    if h : a.size = 2 then
      match ← a[0].getStr? with
      | "i" => pure (.int (← a[1].getInt?))
      | "f" => pure (.flt (← a[1].getInt?))
      | "g" => pure (.fother (← a[1].getStr?).toList)
      | "l" => pure (.list (← (← a[1].getArr?).toList.mapM decVal))
      | "t" => pure (.tuple (← (← a[1].getArr?).toList.mapM decVal))
      | _ => throw "bad value tag"
    else throw "bad value"
  | _ => throw "bad value"

partial def encVal : Val → Json
  | .none => Json.null
  | .bool b => Json.bool b
  | .int n => Json.arr #[Json.str "i", toJson n]
  | .flt n => Json.arr #[Json.str "f", toJson n]
  | .fother t => Json.arr #[Json.str "g", Json.str (String.ofList t)]
  | .str s => Json.str (String.ofList s)
  | .list l => Json.arr #[Json.str "l", Json.arr (l.map encVal).toArray]
  | .tuple l => Json.arr #[Json.str "t", Json.arr (l.map encVal).toArray]

def decCol (j : Json) : Except String Col := do
  let id ← j.getObjValAs? String "id"
  let f ← j.getObjValAs? Bool "f"
  let p ← j.getObjValAs? Bool "p"
  let d ← (← j.getObjValAs? (Array Json) "d").toList.mapM decVal
  let df ← decVal (← j.getObjVal? "def")
  pure ⟨id.toList, f, p, d, df⟩

end Grist.Driver.FetchQueryD

namespace Grist.Driver
open Grist.FetchQuery Grist.Driver.FetchQueryD

def handleFetchQuery (j : Json) : Except String Json := do
  let ids ← j.getObjValAs? (List Int) "ids"
  let cols ← (← j.getObjValAs? (Array Json) "cols").toList.mapM decCol
  let formulas ← j.getObjValAs? Bool "formulas"
  let priv ← j.getObjValAs? Bool "private"
  let qj ← j.getObjVal? "query"
  let query ← if qj.isNull then pure none else do
    let q ← (← qj.getArr?).toList.mapM (fun p => do
      let a ← p.getArr?
      if h : a.size = 2 then
        pure ((← a[0].getStr?).toList, (← (← a[1].getArr?).toList.mapM decVal))
      else throw "bad query item")
    pure (some q)
  match fetchTable ids cols formulas priv query with
  | none => pure <| Json.mkObj [("error", Json.str "KeyError")]
  | some r => pure <| Json.mkObj [
      ("rows", toJson r.rows),
      ("cols", Json.arr (r.cols.map (fun p =>
        Json.arr #[Json.str (String.ofList p.1), Json.arr (p.2.map encVal).toArray])).toArray)]

end Grist.Driver
