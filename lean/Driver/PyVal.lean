import Lean.Data.Json
import GristModel.PyVal
open Lean

/-!
Driver for GristModel/PyVal.lean  (dispatch key "pyval").
ops:  "convert"        {tau, v, prim}  -> {r, exc, r2, exc2, right, right2}
      "encode"         {v, prim}       -> {e, safe}
      "decode_encode"  {v, prim}       -> {e, d, e2}
      "decode"         {e, prim}       -> {d, e2}
Values travel as tagged JSON objects (see harness/gx/pyval.py).  `prim` holds finite tables for the
`Prim` parameter functions; an absent entry means "the primitive raises" for the partial ones and
a visible marker string for the total ones.
-/
namespace Grist.Driver.PyValD
open Grist.PyVal

def strOf (j : Json) : Except String Str := do let s ← j.getStr?; pure s.toList
def jstr (s : Str) : Json := Json.str (String.ofList s)

def optOf {α} (f : Json → Except String α) (j : Json) : Except String (Option α) :=
  if j.isNull then pure none else do let x ← f j; pure (some x)

def fOf (j : Json) : Except String F := do
  let k ← j.getObjValAs? String "k"
  match k with
  | "nan" => do let b ← j.getObjValAs? Nat "bits"; pure (.nan b)
  | "inf" => do let b ← j.getObjValAs? Bool "neg"; pure (.inf b)
  | "nz" => pure .negZero
  | "int" => do let n ← j.getObjValAs? Int "n"; pure (.int n)
  | "frac" => do
    let b ← j.getObjValAs? Nat "bits"
    let t ← j.getObjValAs? Int "trunc"
    pure (.frac b t)
  | _ => throw s!"bad float kind {k}"

def fJson : F → Json
  | .nan b => Json.mkObj [("k", "nan"), ("bits", toJson b)]
  | .inf n => Json.mkObj [("k", "inf"), ("neg", toJson n)]
  | .negZero => Json.mkObj [("k", "nz")]
  | .int n => Json.mkObj [("k", "int"), ("n", toJson n)]
  | .frac b t => Json.mkObj [("k", "frac"), ("bits", toJson b), ("trunc", toJson t)]

def metaOf (j : Json) : Except String Meta := do
  let s ← optOf strOf (j.getObjValD "s")
  let r ← optOf strOf (j.getObjValD "r")
  let n ← strOf (← j.getObjVal? "n")
  pure { str := s, repr := r, tname := n }

def optStrJson : Option Str → Json
  | some s => jstr s
  | none => Json.null

def metaJson (m : Meta) : Json :=
  Json.mkObj [("s", optStrJson m.str), ("r", optStrJson m.repr), ("n", jstr m.tname)]

partial def encOf (j : Json) : Except String Enc := do
  let t ← j.getObjValAs? String "t"
  match t with
  | "none" => pure .none
  | "bool" => do pure (.bool (← j.getObjValAs? Bool "b"))
  | "int" => do pure (.int (← j.getObjValAs? Int "n"))
  | "float" => do pure (.float (← fOf (← j.getObjVal? "f")))
  | "str" => do pure (.str (← strOf (← j.getObjVal? "s")))
  | "list" => do
    let xs ← j.getObjValAs? (Array Json) "xs"
    pure (.list (← xs.toList.mapM encOf))
  | "tuple" => do
    let xs ← j.getObjValAs? (Array Json) "xs"
    pure (.tuple (← xs.toList.mapM encOf))
  | "dict" => do
    let ks ← j.getObjValAs? (Array Json) "ks"
    let vs ← j.getObjValAs? (Array Json) "vs"
    let ks' ← ks.toList.mapM (fun k => do
      let a ← k.getArr?
      if h : a.size = 2 then
        let s ← strOf a[0]
        let b ← a[1].getBool?
        pure (s, b)
      else throw "bad key")
    pure (.dict ks' (← vs.toList.mapM encOf))
  | _ => throw s!"bad enc tag {t}"

partial def encJson : Enc → Json
  | .none => Json.mkObj [("t", "none")]
  | .bool b => Json.mkObj [("t", "bool"), ("b", toJson b)]
  | .int n => Json.mkObj [("t", "int"), ("n", toJson n)]
  | .float f => Json.mkObj [("t", "float"), ("f", fJson f)]
  | .str s => Json.mkObj [("t", "str"), ("s", jstr s)]
  | .list xs => Json.mkObj [("t", "list"), ("xs", Json.arr (xs.map encJson).toArray)]
  | .tuple xs => Json.mkObj [("t", "tuple"), ("xs", Json.arr (xs.map encJson).toArray)]
  | .dict ks vs => Json.mkObj [("t", "dict"),
      ("ks", Json.arr (ks.map (fun k => Json.arr #[jstr k.1, toJson k.2])).toArray),
      ("vs", Json.arr (vs.map encJson).toArray)]

def intsOf (j : Json) : Except String (List Int) := do
  let a ← j.getArr?
  a.toList.mapM (fun x => x.getInt?)

partial def valOf (j : Json) : Except String PyVal := do
  let t ← j.getObjValAs? String "t"
  let m : Except String Meta := do metaOf (← j.getObjVal? "m")
  let vals (k : String) : Except String (List PyVal) := do
    let xs ← j.getObjValAs? (Array Json) k
    xs.toList.mapM valOf
  let str (k : String) : Except String Str := do strOf (← j.getObjVal? k)
  let enc (k : String) : Except String Enc := do encOf (← j.getObjVal? k)
  match t with
  | "none" => pure .none
  | "bool" => do pure (.bool (← j.getObjValAs? Bool "b"))
  | "int" => do pure (.int (← j.getObjValAs? Int "n") (← j.getObjValAs? Bool "sub"))
  | "float" => do pure (.float (← fOf (← j.getObjVal? "f")) (← j.getObjValAs? Bool "sub"))
  | "str" => do pure (.str (← str "s") (← j.getObjValAs? Bool "sub"))
  | "bytes" => do
    let items ← j.getObjValAs? (Array Nat) "items"
    let u ← optOf strOf (j.getObjValD "utf8")
    let af ← optOf fOf (j.getObjValD "af")
    pure (.bytes (← m) items.toList u af)
  | "list" => do pure (.list (← m) (← vals "xs"))
  | "tuple" => do pure (.tuple (← m) (← vals "xs"))
  | "set" => do pure (.set (← m) (← vals "xs"))
  | "dict" => do pure (.dict (← m) (← vals "ks") (← vals "vs"))
  | "date" => do pure (.date (← m) (← j.getObjValAs? Int "days") (← fOf (← j.getObjVal? "zts")))
  | "datetime" => do
    let zts ← optOf fOf (j.getObjValD "zts")
    let ets ← optOf fOf (j.getObjValD "ets")
    let z ← optOf strOf (j.getObjValD "zone")
    pure (.datetime (← m) (← j.getObjValAs? Int "ld") zts ets z)
  | "record" => do pure (.record (← str "table") (← j.getObjValAs? Int "row"))
  | "recordSet" => do
    pure (.recordSet (← str "table") (← intsOf (← j.getObjVal? "rows")) (← j.getObjValAs? Bool "tup")
            (← intsOf (← j.getObjVal? "ids")) (← str "gb") (← str "sb"))
  | "recordList" => do
    pure (.recordList (← intsOf (← j.getObjVal? "rows")) (← str "gb") (← str "sb"))
  | "altText" => do pure (.altText (← str "s"))
  | "raised" => do pure (.raised (← m) (← enc "name") (← enc "msg") (← enc "details") (← vals "ui"))
  | "recordStub" => do pure (.recordStub (← m) (← enc "a") (← enc "b"))
  | "recordSetStub" => do pure (.recordSetStub (← m) (← enc "a") (← enc "b"))
  | "unmarshallable" => do pure (.unmarshallable (← m) (← enc "r"))
  | "pending" => do pure (.pending (← m))
  | "censored" => do pure (.censored (← m))
  | "opaque" => do pure (.opaque (← m) (← optOf (fun x => x.getBool?) (j.getObjValD "truthy")))
  | _ => throw s!"bad value tag {t}"

def intsJson (xs : List Int) : Json := Json.arr (xs.map (fun (x : Int) => toJson x)).toArray

partial def valJson : PyVal → Json
  | .none => Json.mkObj [("t", "none")]
  | .bool b => Json.mkObj [("t", "bool"), ("b", toJson b)]
  | .int n s => Json.mkObj [("t", "int"), ("n", toJson n), ("sub", toJson s)]
  | .float f s => Json.mkObj [("t", "float"), ("f", fJson f), ("sub", toJson s)]
  | .str x s => Json.mkObj [("t", "str"), ("s", jstr x), ("sub", toJson s)]
  | .bytes m items u af => Json.mkObj [("t", "bytes"), ("m", metaJson m), ("items", toJson items),
      ("utf8", optStrJson u), ("af", match af with | some f => fJson f | none => Json.null)]
  | .list m xs => Json.mkObj [("t", "list"), ("m", metaJson m), ("xs", Json.arr (xs.map valJson).toArray)]
  | .tuple m xs => Json.mkObj [("t", "tuple"), ("m", metaJson m), ("xs", Json.arr (xs.map valJson).toArray)]
  | .set m xs => Json.mkObj [("t", "set"), ("m", metaJson m), ("xs", Json.arr (xs.map valJson).toArray)]
  | .dict m ks vs => Json.mkObj [("t", "dict"), ("m", metaJson m),
      ("ks", Json.arr (ks.map valJson).toArray), ("vs", Json.arr (vs.map valJson).toArray)]
  | .date m d z => Json.mkObj [("t", "date"), ("m", metaJson m), ("days", toJson d), ("zts", fJson z)]
  | .datetime m ld zts ets z => Json.mkObj [("t", "datetime"), ("m", metaJson m), ("ld", toJson ld),
      ("zts", match zts with | some f => fJson f | none => Json.null),
      ("ets", match ets with | some f => fJson f | none => Json.null),
      ("zone", optStrJson z)]
  | .record t r => Json.mkObj [("t", "record"), ("table", jstr t), ("row", toJson r)]
  | .recordSet t rows tup ids gb sb => Json.mkObj [("t", "recordSet"), ("table", jstr t),
      ("rows", intsJson rows), ("tup", toJson tup), ("ids", intsJson ids), ("gb", jstr gb), ("sb", jstr sb)]
  | .recordList rows gb sb => Json.mkObj [("t", "recordList"), ("rows", intsJson rows),
      ("gb", jstr gb), ("sb", jstr sb)]
  | .altText s => Json.mkObj [("t", "altText"), ("s", jstr s)]
  | .raised m n ms d ui => Json.mkObj [("t", "raised"), ("m", metaJson m), ("name", encJson n),
      ("msg", encJson ms), ("details", encJson d), ("ui", Json.arr (ui.map valJson).toArray)]
  | .recordStub m a b => Json.mkObj [("t", "recordStub"), ("m", metaJson m), ("a", encJson a), ("b", encJson b)]
  | .recordSetStub m a b => Json.mkObj [("t", "recordSetStub"), ("m", metaJson m), ("a", encJson a), ("b", encJson b)]
  | .unmarshallable m r => Json.mkObj [("t", "unmarshallable"), ("m", metaJson m), ("r", encJson r)]
  | .pending m => Json.mkObj [("t", "pending"), ("m", metaJson m)]
  | .censored m => Json.mkObj [("t", "censored"), ("m", metaJson m)]
  | .opaque m t => Json.mkObj [("t", "opaque"), ("m", metaJson m),
      ("truthy", match t with | some b => toJson b | none => Json.null)]

def tauOf (j : Json) : Except String ColType := do
  match j with
  | .str s =>
    match s with
    | "Text" => pure .text | "Blob" => pure .blob | "Any" => pure .any | "Bool" => pure .bool
    | "Int" => pure .int | "Numeric" => pure .numeric | "Date" => pure .date
    | "DateTime" => pure .dateTime | "Choice" => pure .choice | "ChoiceList" => pure .choiceList
    | "PositionNumber" => pure .positionNumber | "ManualSortPos" => pure .manualSortPos
    | "Id" => pure .id | "Ref" => pure .ref | "Attachments" => pure .attachments
    | _ => throw s!"bad type {s}"
  | _ => do
    let t ← strOf (← j.getObjVal? "refList")
    pure (.refList t)

def missing : Str := "?missing-parameter".toList
def missingMeta : Meta := { str := some missing, repr := some missing, tname := missing }

/-- rows of a table given as a JSON array of arrays -/
def rowsOf (j : Json) (k : String) : Except String (List (Array Json)) := do
  match j.getObjVal? k with
  | .error _ => pure []
  | .ok a => do
    let xs ← a.getArr?
    xs.toList.mapM (fun r => r.getArr?)


/-- instantiation of the `listMeta` parameter for the lists the engine itself builds from ints and
    bools (`[n]` in ReferenceListColumn.convert): Python's repr of such a list -/
def simpleListMeta (xs : List PyVal) : Meta :=
  let item : PyVal → Option Str
    | .int n _ => some (decInt n)
    | .bool true => some "True".toList
    | .bool false => some "False".toList
    | _ => none
  match xs.mapM item with
  | some ss => let r := ['['] ++ joinComma ss ++ [']']; { str := some r, repr := some r, tname := "list".toList }
  | none => missingMeta

def resOf (j : Json) : Except String (Except Str PyVal) := do
  match j.getObjVal? "ok" with
  | .ok v => do pure (.ok (← valOf v))
  | .error _ => do pure (.error (← strOf (← j.getObjVal? "err")))

def primOf (j : Json) : Except String Prim := do
  let get2 {α β} (k : String) (fa : Json → Except String α) (fb : Json → Except String β) :
      Except String (List (α × β)) := do
    let rows ← rowsOf j k
    rows.mapM (fun r => do
      if h : r.size = 2 then
        let a ← fa r[0]
        let b ← fb r[1]
        pure (a, b)
      else throw s!"bad row in {k}")
  let fs ← get2 "fs" strOf (optOf fOf)
  let fb ← get2 "fb" (fun x => x.getInt?) (optOf fOf)
  let rf ← get2 "rf" fOf strOf
  let g15 ← get2 "g15" fOf strOf
  let js ← get2 "js" strOf (optOf valOf)
  let idate ← get2 "idate" strOf (optOf fOf)
  let idt ← get2 "idt" strOf (optOf fOf)
  let rl ← get2 "rl" strOf (optOf intsOf)
  let dfrac ← get2 "dfrac" fOf resOf
  let dn ← get2 "dn" (fun x => x.getInt?) valOf
  let dtRows ← rowsOf j "dt"
  let dt ← dtRows.mapM (fun r => do
    if h : r.size = 3 then
      let a ← encOf r[0]
      let b ← encOf r[1]
      let c ← resOf r[2]
      pure (((encJson a).compress, (encJson b).compress), c)
    else throw "bad row in dt")
  let rlkRows ← rowsOf j "rlk"
  let rlk ← rlkRows.mapM (fun r => do
    if h : r.size = 2 then
      let a ← (← r[0].getArr?).toList.mapM encOf
      let c ← resOf r[1]
      pure ((Json.arr (a.map encJson).toArray).compress, c)
    else throw "bad row in rlk")
  let look {α β} [BEq α] (t : List (α × β)) (a : α) : Option β := t.lookup a
  pure {
    floatOfStr := fun s => (look fs s).join
    floatOfBig := fun n => (look fb n).join
    reprF := fun f => (look rf f).getD missing
    g15 := fun f => (look g15 f).getD missing
    jsonLoads := fun s => (look js s).join
    isoDate := fun s => (look idate s).join
    isoDateTime := fun s => (look idt s).join
    recListRepr := fun s => (look rl s).join
    tsToDt := fun a b => (look dt ((encJson a).compress, (encJson b).compress)).getD (.error missing)
    tsToDateFrac := fun f => (look dfrac f).getD (.error missing)
    dateNode := fun d => (look dn d).getD (.date missingMeta d (.int 0))
    refLookup := fun a => (look rlk (Json.arr (a.map encJson).toArray).compress).getD (.error missing)
    listMeta := simpleListMeta
    tupleMeta := fun _ => missingMeta
    dictMeta := fun _ _ => missingMeta
    stubMeta := fun _ _ => missingMeta
    raisedMeta := fun _ _ _ _ => missingMeta
  }

def excJson : Except Str PyVal → Json
  | .ok _ => Json.null
  | .error e => jstr e

def handlePyVal (j : Json) : Except String Json := do
  let op ← j.getObjValAs? String "op"
  let P ← primOf (j.getObjValD "prim")
  match op with
  | "convert" => do
    let τ ← tauOf (← j.getObjVal? "tau")
    let v ← valOf (← j.getObjVal? "v")
    let r := convert P τ v
    let r2 := convert P τ r
    pure <| Json.mkObj [
      ("r", valJson r), ("exc", if v.isRaised then Json.null else excJson (doConvert P τ v)),
      ("r2", valJson r2), ("exc2", if r.isRaised then Json.null else excJson (doConvert P τ r)),
      ("right", toJson (isRightType τ r)), ("right2", toJson (isRightType τ r2))]
  | "encode" => do
    let v ← valOf (← j.getObjVal? "v")
    let e := encode P v
    pure <| Json.mkObj [("e", encJson e), ("safe", toJson (MarshalSafe e))]
  | "decode_encode" => do
    let v ← valOf (← j.getObjVal? "v")
    let e := encode P v
    let d := decode P e
    pure <| Json.mkObj [("e", encJson e), ("safe", toJson (MarshalSafe e)), ("d", valJson d),
                        ("e2", encJson (encode P d))]
  | "decode" => do
    let e ← encOf (← j.getObjVal? "e")
    let d := decode P e
    pure <| Json.mkObj [("d", valJson d), ("e2", encJson (encode P d))]
  | "modify" => do
    -- C23: one cell through docactions.ModifyColumn + useractions.doModifyColumn
    let τ ← tauOf (← j.getObjVal? "tau")
    let v ← valOf (← j.getObjVal? "v")
    let conv := colConvert P τ v
    pure <| Json.mkObj [
      ("conv", valJson conv),
      ("cell", match modifyCell P τ v with | .ok c => valJson c | .error e => Json.mkObj [("error", jstr e)]),
      ("enc", match modifyCell P τ v with | .ok c => encJson (encode P c) | .error _ => Json.null),
      ("expect", match colSet P τ conv with | .ok c => encJson (encode P c) | .error _ => Json.null),
      ("right", match modifyCell P τ v with | .ok c => toJson (isRightType τ c) | .error _ => Json.null)]
  | "reload" => do
    -- C07: a formula result v in a column of type tau: stored cell, its reloaded form, comparison
    let τ ← tauOf (← j.getObjVal? "tau")
    let v ← valOf (← j.getObjVal? "v")
    let c := colConvert P τ v
    match colSet P τ c with
    | .error e => pure <| Json.mkObj [("error", jstr e)]
    | .ok s =>
      let e := encode P s
      match reloadCell P τ s with
      | .error e2 => pure <| Json.mkObj [("error", jstr e2)]
      | .ok x =>
        pure <| Json.mkObj [("c", valJson c), ("s", valJson s), ("e", encJson e), ("x", valJson x),
          ("ex", encJson (encode P x)), ("eq", toJson (equalEncoding P x c)), ("eqs", toJson (equalEncoding P s c))]
  | _ => throw s!"unknown pyval op {op}"

end Grist.Driver.PyValD
