import Lean.Data.Json
import GristModel.Lenient
import Generated.Migrations
import Driver.Engine
open Lean
namespace Grist.Driver.LenientD
open Grist.Doc Grist.Driver.Engine

/-! JSON <-> `LDoc` / `LAction`.  Dict order is significant, so dicts travel as arrays of pairs:
  {"tables": [[tid, {"ids": [1, null, ..], "cols": [[cid, [tok..]], ..]}], ..],
   "schema": [[tid, [[cid, {"type":..,"isFormula":..,"formula":..}], ..]], ..]}
Cell tokens as in Driver/Engine.lean ("i5", "f2.5", "sText", "o<json>", true, null). -/

def rowIdOfJson (j : Json) : Except String RowId :=
  match j with
  | .null => .ok none
  | _ => match j.getInt? with
    | .ok i => .ok (some i)
    | .error e => .error s!"bad row id: {e}"

def rowIdToJson : RowId → Json
  | none => .null
  | some i => toJson i

def rowIdsOfJson (j : Json) : Except String (List RowId) := do
  let a ← j.getArr?
  a.toList.mapM rowIdOfJson

def pairOfJson (j : Json) : Except String (String × Json) := do
  let a ← j.getArr?
  let k ← (a[0]?.getD Json.null).getStr?
  pure (k, a[1]?.getD Json.null)

def tdataOfJson (j : Json) : Except String TData := do
  let ids ← rowIdsOfJson (← j.getObjVal? "ids")
  let cols ← (← (← j.getObjVal? "cols").getArr?).toList.mapM (fun cj => do
    let (c, vj) ← pairOfJson cj
    let vals ← (← vj.getArr?).toList.mapM valOfJson
    pure (c, vals))
  pure { rowIds := ids, columns := cols }

def schemaOfJson (j : Json) : Except String SDoc := do
  (← j.getArr?).toList.mapM (fun tj => do
    let (t, cj) ← pairOfJson tj
    let cols ← (← cj.getArr?).toList.mapM (fun x => do
      let (c, ij) ← pairOfJson x
      pure (c, ← colInfoOfJson ij))
    pure (t, cols))

def ldocOfJson (j : Json) : Except String LDoc := do
  let tables ← (← (← j.getObjVal? "tables").getArr?).toList.mapM (fun tj => do
    let (t, dj) ← pairOfJson tj
    pure (t, ← tdataOfJson dj))
  let sch ← schemaOfJson (← j.getObjVal? "schema")
  pure { allTables := tables, schema := sch }

def schemaToJson (s : SDoc) : Json :=
  Json.arr (s.map (fun (t, cols) => Json.arr #[.str t,
    Json.arr (cols.map (fun (c, ci) => Json.arr #[.str c, colInfoToJson ci])).toArray])).toArray

def ldocToJson (d : LDoc) : Json :=
  Json.mkObj [
    ("tables", Json.arr (d.allTables.map (fun (t, td) => Json.arr #[.str t, Json.mkObj [
      ("ids", Json.arr (td.rowIds.map rowIdToJson).toArray),
      ("cols", Json.arr (td.columns.map (fun (c, vals) =>
        Json.arr #[.str c, Json.arr (vals.map valToJson).toArray])).toArray)]])).toArray),
    ("schema", schemaToJson d.schema)]

/-- action reprs as `actions.get_action_repr` gives them (values tokenised); row ids may be null -/
def lactionOfJson (j : Json) : Except String LAction := do
  let a ← j.getArr?
  let name ← (a[0]?.getD Json.null).getStr?
  let arg (i : Nat) : Json := a[i]?.getD Json.null
  match name with
  | "AddRecord" => pure (.bulkAdd (← (arg 1).getStr?) [← rowIdOfJson (arg 2)] (← singleCols (arg 3)))
  | "BulkAddRecord" => pure (.bulkAdd (← (arg 1).getStr?) (← rowIdsOfJson (arg 2)) (← bulkCols (arg 3)))
  | "RemoveRecord" => pure (.bulkRemove (← (arg 1).getStr?) [← rowIdOfJson (arg 2)])
  | "BulkRemoveRecord" => pure (.bulkRemove (← (arg 1).getStr?) (← rowIdsOfJson (arg 2)))
  | "UpdateRecord" => pure (.bulkUpdate (← (arg 1).getStr?) [← rowIdOfJson (arg 2)] (← singleCols (arg 3)))
  | "BulkUpdateRecord" => pure (.bulkUpdate (← (arg 1).getStr?) (← rowIdsOfJson (arg 2)) (← bulkCols (arg 3)))
  | "ReplaceTableData" => pure (.replaceData (← (arg 1).getStr?) (← rowIdsOfJson (arg 2)) (← bulkCols (arg 3)))
  | "AddColumn" => pure (.addColumn (← (arg 1).getStr?) (← (arg 2).getStr?) (← colInfoOfJson (arg 3)))
  | "RemoveColumn" => pure (.removeColumn (← (arg 1).getStr?) (← (arg 2).getStr?))
  | "RenameColumn" => pure (.renameColumn (← (arg 1).getStr?) (← (arg 2).getStr?) (← (arg 3).getStr?))
  | "ModifyColumn" => pure (.modifyColumn (← (arg 1).getStr?) (← (arg 2).getStr?) (← patchOfJson (arg 3)))
  | "AddTable" => do
    let cs ← (← (arg 2).getArr?).toList.mapM (fun (c : Json) => do
      pure (← c.getObjValAs? String "id", ← colInfoOfJson c))
    pure (.addTable (← (arg 1).getStr?) cs)
  | "RemoveTable" => pure (.removeTable (← (arg 1).getStr?))
  | "RenameTable" => pure (.renameTable (← (arg 1).getStr?) (← (arg 2).getStr?))
  | n => .error s!"unknown action {n}"

def lcolsToJson (cols : Dict (List Val)) : Json :=
  Json.mkObj (cols.map (fun (k, vs) => (k, Json.arr (vs.map valToJson).toArray)))

def lactionToJson : LAction → Json
  | .bulkAdd t rows cols => Json.arr #[.str "BulkAddRecord", .str t, Json.arr (rows.map rowIdToJson).toArray, lcolsToJson cols]
  | .bulkRemove t rows => Json.arr #[.str "BulkRemoveRecord", .str t, Json.arr (rows.map rowIdToJson).toArray]
  | .bulkUpdate t rows cols => Json.arr #[.str "BulkUpdateRecord", .str t, Json.arr (rows.map rowIdToJson).toArray, lcolsToJson cols]
  | .replaceData t rows cols => Json.arr #[.str "ReplaceTableData", .str t, Json.arr (rows.map rowIdToJson).toArray, lcolsToJson cols]
  | .addColumn t c ci => Json.arr #[.str "AddColumn", .str t, .str c, colInfoToJson ci]
  | .removeColumn t c => Json.arr #[.str "RemoveColumn", .str t, .str c]
  | .renameColumn t o n => Json.arr #[.str "RenameColumn", .str t, .str o, .str n]
  | .modifyColumn t c p => Json.arr #[.str "ModifyColumn", .str t, .str c, patchToJson p]
  | .addTable t cols => Json.arr #[.str "AddTable", .str t,
      Json.arr (cols.map (fun (id, ci) => colInfoToJson ci (some id))).toArray]
  | .removeTable t => Json.arr #[.str "RemoveTable", .str t]
  | .renameTable o n => Json.arr #[.str "RenameTable", .str o, .str n]

/-- `runL` that also reports the index of the failing action -/
def runLAt (d : LDoc) : List LAction → Nat → Except (String × Nat) LDoc
  | [], _ => .ok d
  | a :: rest, i =>
    match applyL d a with
    | .error e => .error (e, i)
    | .ok d' => runLAt d' rest (i + 1)

/-- ops:
  {"m":"lenient","op":"run","doc":<ldoc>,"actions":[..]} -> {"doc":<ldoc>} | {"error":cls,"at":i}
     plus "schemaOnly": the schema reached by `runSchema` on the schema alone, and "metaActs": the
     indices of the metadata schema actions (the classification the theorems use)
  {"m":"lenient","op":"generated"} -> the content of Generated/Migrations.lean as JSON -/
def handleLenient (j : Json) : Except String Json := do
  let op ← j.getObjValAs? String "op"
  match op with
  | "run" =>
    let d ← ldocOfJson (← j.getObjVal? "doc")
    let acts ← (← (← j.getObjVal? "actions").getArr?).toList.mapM lactionOfJson
    let schemaOnly : Json := match runSchema d.schema (acts.filter LAction.isSchema) with
      | .ok s => schemaToJson s
      | .error e => Json.mkObj [("error", .str e)]
    let cls : Json := Json.arr (acts.map (fun a =>
      Json.str (if a.targetsMeta then (if a.isSchema then "meta-schema" else "meta-record")
                else if a.targetsUser then (if a.isSchema then "user-schema" else "user-record")
                else "mixed"))).toArray
    match runLAt d acts 0 with
    | .ok d' => pure (Json.mkObj [("doc", ldocToJson d'), ("schemaOnly", schemaOnly), ("classes", cls)])
    | .error (e, i) => pure (Json.mkObj [("error", .str e), ("at", toJson i), ("classes", cls)])
  | "generated" =>
    pure (Json.mkObj [
      ("version", toJson Grist.Generated.Migrations.schemaVersion),
      ("current", schemaToJson Grist.Generated.Migrations.currentSchema),
      ("start", Json.arr (Grist.Generated.Migrations.startSchemas.map schemaToJson).toArray),
      ("acts", Json.arr (Grist.Generated.Migrations.schemaActs.map
        (fun as => Json.arr (as.map lactionToJson).toArray)).toArray),
      ("currentActs", Json.arr (Grist.Generated.Migrations.currentActs.map lactionToJson).toArray)])
  | o => .error s!"unknown lenient op {o}"

end Grist.Driver.LenientD
