import Lean.Data.Json
import GristModel.FormulaRename
open Lean

/-
Driver for the FormulaRename model (dispatch key "formularename").
One op = one document + one rename + a list of formulas (tree, trivia, rows, discovered occurrences):
answers, per formula, the checked type, the rendered text and its occurrence list, the values per
row, the same for the renamed formula in the renamed document, and what
`_prepare_formula_renames` produces from the occurrences handed in.
Strings are ASCII/Unicode JSON strings (names are identifiers; trivia may contain anything).
-/
namespace Grist.Driver.FR
open Grist.FormulaRename

def s2n (s : String) : FormulaRename.Name := s.toList
def n2j (n : FormulaRename.Name) : Json := Json.str (String.ofList n)

def getStr (j : Json) : Except String FormulaRename.Name := do
  let s ← j.getStr?
  pure (s2n s)

def decColType (j : Json) : Except String ColType := do
  let a ← j.getArr?
  let k ← (a[0]?.getD Json.null).getStr?
  match k with
  | "int" => pure .int
  | "text" => pure .text
  | "ref" => pure (.ref (← getStr (a[1]?.getD Json.null)))
  | "reflist" => pure (.refList (← getStr (a[1]?.getD Json.null)))
  | _ => throw s!"bad col type {k}"

def decCell (j : Json) : Except String Cell :=
  match j with
  | .num _ => do pure (.int (← j.getInt?))
  | .str s => pure (.text (s2n s))
  | _ =>
    match j.getObjValAs? Nat "r" with
    | .ok r => pure (.ref r)
    | .error _ =>
      match j.getObjValAs? (Array Nat) "l" with
      | .ok l => pure (.refs l.toList)
      | .error _ => throw "bad cell"

def decCol (j : Json) : Except String Col := do
  let name ← j.getObjValAs? String "name"
  let ty ← decColType (← j.getObjVal? "ty")
  let data ← (← j.getObjValAs? (Array Json) "data").toList.mapM decCell
  pure ⟨s2n name, ty, data⟩

def decTable (j : Json) : Except String Table := do
  let name ← j.getObjValAs? String "name"
  let ids ← j.getObjValAs? (Array Nat) "ids"
  let cols ← (← j.getObjValAs? (Array Json) "cols").toList.mapM decCol
  pure ⟨s2n name, ids.toList, cols⟩

def decRen (j : Json) : Except String Ren := do
  let a ← j.getArr?
  let k ← (a[0]?.getD Json.null).getStr?
  match k with
  | "col" => pure (.col (← getStr (a[1]?.getD Json.null)) (← getStr (a[2]?.getD Json.null)) (← getStr (a[3]?.getD Json.null)))
  | "tab" => pure (.tab (← getStr (a[1]?.getD Json.null)) (← getStr (a[2]?.getD Json.null)))
  | _ => throw "bad ren"

def decOB (j : Json) : Except String OrderBy := do
  let items ← j.getObjValAs? (Array Json) "items"
  let its ← items.toList.mapM (fun it => do
    let a ← it.getArr?
    let d ← (a[0]?.getD Json.null).getBool?
    let c ← getStr (a[1]?.getD Json.null)
    pure (d, c))
  pure ⟨its, ← j.getObjValAs? Bool "tuple", ← j.getObjValAs? Bool "sq"⟩

def decOBOpt (j : Json) : Except String (Option OrderBy) :=
  match j with
  | .null => pure none
  | _ => do pure (some (← decOB j))

def decOp (s : String) : Except String Op :=
  match s with
  | "+" => pure .add | "-" => pure .sub | "*" => pure .mul | "==" => pure .eq | "!=" => pure .ne
  | "<" => pure .lt | "<=" => pure .le
  | _ => throw s!"bad op {s}"

partial def decExpr (j : Json) : Except String FExpr := do
  let a ← j.getArr?
  let g (i : Nat) : Json := a[i]?.getD Json.null
  let k ← (g 0).getStr?
  match k with
  | "lit" => pure (.lit (← (g 1).getNat?))
  | "str" => pure (.str (← getStr (g 1)) (← (g 2).getBool?))
  | "binop" => pure (.binop (← decOp (← (g 1).getStr?)) (← decExpr (g 2)) (← decExpr (g 3)))
  | "rec" => pure .recv
  | "var" => pure (.var (← getStr (g 1)))
  | "dollar" => pure (.dollar (← getStr (g 1)) (← getStr (g 2)))
  | "attr" => pure (.attr (← decExpr (g 1)) (← getStr (g 2)) (← getStr (g 3)))
  | "kwEnd" => pure (.kwEnd (← getStr (g 1)) (← decOBOpt (g 2)))
  | "kw" => pure (.kw (← getStr (g 1)) (← getStr (g 2)) (← decExpr (g 3)) (← decExpr (g 4)))
  | "lookup" => pure (.lookup (← (g 1).getBool?) (← getStr (g 2)) (← decExpr (g 3)))
  | "all" => pure (.all (← getStr (g 1)))
  | "compr" => pure (.compr (← decExpr (g 1)) (← getStr (g 2)) (← decExpr (g 3)))
  | "len" => pure (.len (← decExpr (g 1)))
  | "sum" => pure (.sum (← decExpr (g 1)))
  | "max" => pure (.max (← decExpr (g 1)))
  | "pn" =>
    let f ← match (← (g 1).getStr?) with
      | "PREVIOUS" => pure PN.prev | "NEXT" => pure PN.next | "RANK" => pure PN.rank
      | x => throw s!"bad pn {x}"
    pure (.prevNext f (← decExpr (g 2)) (← getStr (g 3)) (← decOBOpt (g 4)) (← decOB (g 5)))
  | "if" => pure (.ifE (← decExpr (g 1)) (← decExpr (g 2)) (← decExpr (g 3)))
  | _ => throw s!"bad expr {k}"

def atomJ : Atom → Json
  | .int n => toJson n
  | .str s => n2j s
  | .bool b => Json.bool b
  | .rcd t id => Json.mkObj [("R", Json.arr #[n2j t, toJson id])]

def errName : Err → String
  | .typeError => "TypeError" | .valueError => "ValueError" | .attributeError => "AttributeError"
  | .nameError => "NameError" | .keyError => "KeyError"

def valJ : Val → Json
  | .atom a => atomJ a
  | .recs t ids => Json.mkObj [("RS", Json.arr #[n2j t, toJson ids])]
  | .list as => Json.arr (as.map atomJ).toArray
  | .kws _ _ _ => Json.mkObj [("K", Json.null)]
  | .err e => Json.mkObj [("E", Json.str (errName e))]

def atyS : ATy → String
  | .int => "int" | .text => "text" | .bool => "bool" | .rcd t => "rec:" ++ String.ofList t

def tyJ : Option Ty → Json
  | none => Json.null
  | some (.atom a) => Json.str (atyS a)
  | some (.recs t) => Json.str ("recs:" ++ String.ofList t)
  | some (.list a) => Json.str ("list:" ++ atyS a)
  | some (.kws t) => Json.str ("kws:" ++ String.ofList t)

def occJ (o : Occ) : Json :=
  Json.arr #[toJson o.1, n2j o.2.1, match o.2.2 with | some c => n2j c | none => Json.null]

def decOcc (j : Json) : Except String Occ := do
  let a ← j.getArr?
  let pos ← (a[0]?.getD Json.null).getNat?
  let t ← getStr (a[1]?.getD Json.null)
  let c ← match a[2]?.getD Json.null with
    | .null => pure none
    | x => do pure (some (← getStr x))
  pure (pos, t, c)

def freshB (ρ : Ren) (d : Doc) : Bool :=
  match ρ with
  | .col T _ n => d.all (fun tb => tb.name != T || tb.cols.all (fun c => c.name != n))
  | .tab _ n => d.all (fun tb => tb.name != n)

def safeB (ρ : Ren) : Bool :=
  match ρ with
  | .col _ _ n => !reservedKw n
  | .tab o n => !(funcNames.contains o) && !(funcNames.contains n)

def handleForm (d : Doc) (ρ : Ren) (j : Json) : Except String Json := do
  let cur := s2n (← j.getObjValAs? String "cur")
  let e ← decExpr (← j.getObjVal? "e")
  let triv := (← j.getObjValAs? (Array String) "triv").toList.map s2n
  let rows ← j.getObjValAs? (Array Nat) "rows"
  let toks := print e
  let text := render triv toks
  let os := occs 0 triv toks
  let given ← match j.getObjVal? "occs" with
    | .ok (.arr a) => a.toList.mapM decOcc
    | _ => pure os
  let e2 := rename ρ e
  let d2 := renameDoc ρ d
  let patched : Json := match prepareFormula ρ text given with
    | .ok (some t) => n2j t
    | .ok none => Json.null
    | .error _ => Json.mkObj [("error", Json.str "ValueError")]
  pure <| Json.mkObj [
    ("ty", tyJ (check d cur [] e)),
    ("ty2", tyJ (check d2 (ρ.tabOf cur) [] e2)),
    ("text", n2j text),
    ("occs", Json.arr (os.map occJ).toArray),
    ("vals", Json.arr (rows.map (fun r => valJ (eval d cur r [] e)))),
    ("text2", n2j (render triv (print e2))),
    ("patched", patched),
    ("vals2", Json.arr (rows.map (fun r => valJ (eval d2 (ρ.tabOf cur) r [] e2)))),
    ("vals1r", Json.arr (rows.map (fun r => valJ (renameVal ρ (eval d cur r [] e)))))]

end Grist.Driver.FR

namespace Grist.Driver
open Grist.Driver.FR Grist.FormulaRename

def safeB (ρ : Ren) : Bool :=
  match ρ with
  | .col _ _ n => !reservedKw n
  | .tab o n => !(funcNames.contains o) && !(funcNames.contains n)

def handleFormulaRename (j : Json) : Except String Json := do
  let d ← (← j.getObjValAs? (Array Json) "doc").toList.mapM decTable
  let ρ ← decRen (← j.getObjVal? "ren")
  let forms ← (← j.getObjValAs? (Array Json) "forms").toList.mapM (handleForm d ρ)
  pure <| Json.mkObj [("fresh", Json.bool (freshB ρ d)), ("safe", Json.bool (safeB ρ)),
    ("forms", Json.arr forms.toArray)]

end Grist.Driver
