import Lean.Data.Json
import GristModel.Schedule
open Lean

namespace Grist.Driver
open Grist.Schedule

/-- `[y, m, d, H, M, S, us]` -> microseconds since 1970-01-01 -/
def dtOfFields (a : Array Json) : Except String Int := do
  if h : a.size = 7 then
    let y ← a[0].getInt?
    let m ← a[1].getInt?
    let d ← a[2].getInt?
    let hh ← a[3].getInt?
    let mm ← a[4].getInt?
    let ss ← a[5].getInt?
    let us ← a[6].getInt?
    pure (daysFromCivil y m d * usDay + hh * usHour + mm * usMinute + ss * usSecond + us)
  else throw "bad datetime"

def fieldsOfDt (t : Int) : Json :=
  let c := civilFromDays (dayOf t)
  let r := todOf t
  toJson [c.1, c.2.1, c.2.2, r / usHour, r % usHour / usMinute, r % usMinute / usSecond, r % usSecond]

def deltaJson (d : Delta) : Json := toJson [toString d.months, toString d.us]

def handleSchedule (j : Json) : Except String Json := do
  let op := (j.getObjValAs? String "op").toOption.getD "run"
  match op with
  | "civil" =>
    -- {"z": day number} -> civil fields;  {"ymd": [y,m,d]} -> day number
    match j.getObjVal? "z" with
    | .ok zj =>
      let z ← zj.getInt?
      let c := civilFromDays z
      pure <| Json.mkObj [("ymd", toJson [c.1, c.2.1, c.2.2]), ("wd", toJson ((z + 4) % 7))]
    | .error _ =>
      let a ← j.getObjValAs? (Array Int) "ymd"
      if h : a.size = 3 then pure <| Json.mkObj [("z", toJson (daysFromCivil a[0] a[1] a[2]))]
      else throw "bad ymd"
  | _ =>
    let s ← j.getObjValAs? String "s"
    match parse s.toList with
    | .error e => pure <| Json.mkObj [("error", Json.str e.name)]
    | .ok sch =>
      let base : List (String × Json) :=
        [("unit", Json.str sch.unit.name), ("interval", deltaJson sch.interval),
         ("slots", Json.arr (sch.slots.map deltaJson).toArray)]
      match j.getObjVal? "start" with
      | .error _ => pure <| Json.mkObj base
      | .ok sj =>
        let start ← dtOfFields (← sj.getArr?)
        let stop ← match j.getObjVal? "end" with
          | .ok Json.null => pure none
          | .error _ => pure none
          | .ok ej => do pure (some (← dtOfFields (← ej.getArr?)))
        let count ← j.getObjValAs? Int "count"
        let fuel := count.toNat + 4
        let out := match series sch start stop count fuel with
          | none => Json.str "diverges"
          | some l => Json.arr (l.map fieldsOfDt).toArray
        pure <| Json.mkObj (base ++ [("out", out),
          ("boundary", fieldsOfDt (roundDown start sch.unit))])

end Grist.Driver
