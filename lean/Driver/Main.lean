import Lean.Data.Json
import GristModel
import Driver.Treeview
import Driver.Engine
import Driver.SummaryModel
import Driver.Refs
import Driver.FormulaRename
import Driver.PredRename
import Driver.Codebuilder
import Driver.Lookup
import Driver.LookupRel
import Driver.Lenient
import Driver.Trigger
import Driver.Upsert
import Driver.Zone
import Driver.FetchQuery
import Driver.Choices
import Driver.RowIds
import Driver.PyVal
import Driver.Recalc
import Driver.SchemaGen
import Driver.CsvPost
import Driver.Relabel
import Driver.Textbuilder
import Driver.JsonImport
import Driver.Predicate
import Driver.SortedFind
import Driver.Schedule
import Driver.Identifiers
open Lean

namespace Grist.Driver

/-- Stateless models: one op in, one answer out. -/
def handleStateless (m : String) (j : Json) : Except String Json :=
  match m with
  | "treeview" => handleTreeview j
  | "identifiers" => handleIdentifiers j
  | "schedule" => handleSchedule j
  | "sortedfind" => handleSortedFind j
  | "predicate" => Grist.Driver.Pred.handlePredicate j
  | "jsonimport" => Grist.Driver.JsonImport.handleJsonImport j
  | "textbuilder" => handleTextbuilder j
  | "relabel" => Relabel.handleRelabel j
  | "csvpost" => handleCsvPost j
  | "schemagen" => handleSchemaGen j
  | "recalc" => Grist.Driver.Recalc.handleRecalc j
  | "pyval" => Grist.Driver.PyValD.handlePyVal j
  | "rowids" => handleRowIds j
  | "choices" => handleChoices j
  | "fetchquery" => handleFetchQuery j
  | "zone" => handleZone j
  | "upsert" => handleUpsert j
  | "trigger" => handleTrigger j
  | "lenient" => LenientD.handleLenient j
  | "lookup" => Grist.Driver.LookupD.handleLookup j
  | "lookuprel" => Grist.Driver.LookupRelD.handleLookupRel j
  | "codebuilder" => handleCodebuilder j
  | "predrename" => Grist.Driver.PredRename.handlePredRename j
  | "formularename" => handleFormulaRename j
  | "refs" => handleRefs j
  | "summarymodel" => handleSummaryModel j
  | _ => throw s!"unknown model {m}"

structure AllState where
  engine : Engine.DState := {}

def handle (st : AllState) (j : Json) : AllState × Json :=
  match j.getObjValAs? String "m" with
  | .error e => (st, Json.mkObj [("error", Json.str e)])
  | .ok "engine" =>
    let (es, r) := Engine.handle st.engine j
    ({ st with engine := es }, match r with
      | .ok v => v
      | .error e => Json.mkObj [("error", Json.str e)])
  | .ok m =>
    (st, match handleStateless m j with
      | .ok v => v
      | .error e => Json.mkObj [("error", Json.str e)])

partial def loop (hin hout : IO.FS.Stream) (st : AllState) : IO Unit := do
  let line ← hin.getLine
  if line.isEmpty then return ()
  let (st', out) := match Json.parse line with
    | .error e => (st, Json.mkObj [("error", Json.str s!"parse: {e}")])
    | .ok j => handle st j
  hout.putStrLn out.compress
  loop hin hout st'

end Grist.Driver

def main : IO Unit := do
  let hin ← IO.getStdin
  let hout ← IO.getStdout
  Grist.Driver.loop hin hout {}
  hout.flush
