import Lean.Data.Json
import GristModel
open Lean

namespace Grist.Driver

def jNat? (j : Json) : Option Nat := match j.getNat? with | .ok n => some n | _ => none

def handleTreeview (j : Json) : Except String Json := do
  let items ← j.getObjValAs? (Array Json) "items"
  let dels ← j.getObjValAs? (Array Nat) "deleted"
  let its ← items.toList.mapM (fun p => do
    let a ← p.getArr?
    if h : a.size = 2 then
      let i ← a[0].getNat?
      let n ← a[1].getNat?
      pure (Grist.Treeview.Item.mk i n)
    else throw "bad item")
  let del := fun k => dels.contains k
  let adj := Grist.Treeview.fixIndents its del
  let fin := Grist.Treeview.applyFixes its del adj
  pure <| Json.mkObj [("adj", toJson (adj.map (fun p => [p.1, p.2]))), ("final", toJson fin)]

def handle (j : Json) : Except String Json := do
  let m ← j.getObjValAs? String "m"
  match m with
  | "treeview" => handleTreeview j
  | _ => throw s!"unknown model {m}"

partial def loop (hin : IO.FS.Stream) (hout : IO.FS.Stream) : IO Unit := do
  let line ← hin.getLine
  if line.isEmpty then return ()
  let out := match Json.parse line with
    | .error e => Json.mkObj [("error", Json.str s!"parse: {e}")]
    | .ok j => match handle j with
      | .ok r => r
      | .error e => Json.mkObj [("error", Json.str e)]
  hout.putStrLn out.compress
  loop hin hout

end Grist.Driver

def main : IO Unit := do
  let hin ← IO.getStdin
  let hout ← IO.getStdout
  Grist.Driver.loop hin hout
  hout.flush
