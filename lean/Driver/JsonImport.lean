import Lean.Data.Json
import GristModel.JsonImport
open Lean

/-!
Driver for the `JsonImport` model (C33).

op:  {"m":"jsonimport","name":CPS,"inc":CPS,"exc":CPS,"data":JV}
  CPS = list of unicode code points (strings never travel as JSON strings, so that neither side's
        escaping of non-ASCII text matters)
  JV  = ["z"] | ["b",bool] | ["n","<number token>"] | ["s",CPS] | ["a",[JV..]] | ["o",[[CPS,JV]..]]
answer: {"tables":[{"name":CPS,"cols":[{"id":CPS,"type":CPS,"data":[DV..]}..]}..],
         "rows":{..per table row count..}, "literal_agrees":bool}
  DV  = null | ["b",bool] | ["n",tok] | ["s",CPS] | ["i",rowid]
or {"error": "..."}.
-/
namespace Grist.Driver.JsonImport
open Grist.JsonImport

def cpsToString (j : Json) : Except String String := do
  let a ← j.getArr?
  let cs ← a.toList.mapM (fun c => do
    let n ← c.getNat?
    if h : n.isValidChar then pure (Char.ofNatAux n h) else throw s!"bad code point {n}")
  pure (String.ofList cs)

def stringToCps (s : String) : Json := toJson (s.toList.map (fun c => c.toNat))

partial def decodeJ (j : Json) : Except String J := do
  let a ← j.getArr?
  if a.size = 0 then throw "bad JV"
  let tag ← a[0]!.getStr?
  match tag with
  | "z" => pure (.sc .null)
  | "b" => do let b ← a[1]!.getBool?; pure (.sc (.bool b))
  | "n" => do let s ← a[1]!.getStr?; pure (.sc (.num s))
  | "s" => do let s ← cpsToString a[1]!; pure (.sc (.str s))
  | "a" => do
    let xs ← a[1]!.getArr?
    let ys ← xs.toList.mapM decodeJ
    pure (.arr ys)
  | "o" => do
    let xs ← a[1]!.getArr?
    let ys ← xs.toList.mapM (fun p => do
      let q ← p.getArr?
      if q.size ≠ 2 then throw "bad pair"
      let k ← cpsToString q[0]!
      let v ← decodeJ q[1]!
      pure (k, v))
    pure (.obj ys)
  | t => throw s!"bad tag {t}"

def encodeDVal : DVal → Json
  | .none => Json.null
  | .val .null => Json.null
  | .val (.bool b) => Json.arr #[Json.str "b", Json.bool b]
  | .val (.num t) => Json.arr #[Json.str "n", Json.str t]
  | .val (.str s) => Json.arr #[Json.str "s", stringToCps s]
  | .id n => Json.arr #[Json.str "i", toJson n]

def encodeTable (t : DTable) : Json :=
  Json.mkObj [("name", stringToCps t.name),
    ("cols", Json.arr (t.cols.map (fun c =>
      Json.mkObj [("id", stringToCps c.id), ("type", stringToCps c.type),
                  ("data", Json.arr (c.data.map encodeDVal).toArray)])).toArray)]

def handleJsonImport (j : Json) : Except String Json := do
  let name ← cpsToString (← j.getObjVal? "name")
  let inc ← cpsToString (← j.getObjVal? "inc")
  let exc ← cpsToString (← j.getObjVal? "exc")
  let data ← decodeJ (← j.getObjVal? "data")
  let o := parseOpts inc exc
  let st := build o name data
  let lit := buildPy o name data
  match dumpAll st with
  | .error e => pure (Json.mkObj [("error", Json.str e)])
  | .ok ts =>
    pure (Json.mkObj [
      ("tables", Json.arr (ts.map encodeTable).toArray),
      ("nrows", Json.arr (st.map (fun p => Json.arr #[stringToCps p.1, toJson p.2.length])).toArray),
      ("literal_agrees", Json.bool (decide (st = lit)))])

end Grist.Driver.JsonImport
