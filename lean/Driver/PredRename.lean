import Lean.Data.Json
import GristModel.PredRename
import Driver.Predicate
open Lean
open Grist.Predicate Grist.PredRename Grist.Textbuilder

namespace Grist.Driver.PredRename
open Grist.Driver.Pred

def optStr (j : Json) (k : String) : Option String :=
  match j.getObjValAs? String k with | .ok s => some s | _ => none

def decLex (j : Json) : Except String Lex := do
  let a ← j.getArr?
  if h : a.size = 2 then
    let k ← a[0].getStr?
    let t ← a[1].getStr?
    match k with
    | "a" => pure (.attr t.toList)
    | "d" => pure (.dollar t.toList)
    | _ => pure (.other t.toList)
  else throw "bad lexeme"

def decKind : String → Except String Kind
  | "acl" => pure .acl | "dc" => pure .dc | "trigger" => pure .trigger
  | s => throw s!"bad kind {s}"

def decCtx (j : Json) : Except String Ctx := do
  let kind ← decKind (← str? j "kind")
  let table ← str? j "table"
  let attrs ← (match j.getObjValAs? (Array Json) "attrs" with
    | .ok a => a.toList.mapM (fun p => do
        let q ← p.getArr?
        if h : q.size = 2 then
          pure ((← q[0].getStr?), (match q[1].getStr? with | .ok s => some s | _ => none))
        else throw "bad attr")
    | _ => pure [] : Except String (List (String × Option String)))
  let renames ← (← arr? j "renames").mapM (fun p => do
    let q ← p.getArr?
    if h : q.size = 3 then
      pure (((← q[0].getStr?), (← q[1].getStr?)), (← q[2].getStr?))
    else throw "bad rename")
  pure { kind := kind, table := table, refTable := optStr j "ref", attrs := attrs, renames := renames }

def encEntity (e : Entity) : Json :=
  Json.arr #[Json.str e.type.name, toJson e.pos, Json.str e.name,
    match e.extra with | some x => Json.str x | none => Json.null]

def encOutcome : Outcome → Json
  | .ok t => Json.mkObj [("ok", Json.str (String.ofList t))]
  | .syntaxError => Json.mkObj [("syntax", Json.bool true)]
  | .err e => Json.mkObj [("err", Json.str (match e with
      | .valueError => "ValueError" | .assertionError => "AssertionError"
      | .attributeError => "AttributeError" | .indexError => "IndexError"))]

def handlePredRename (j : Json) : Except String Json := do
  let op ← str? j "op"
  match op with
  | "rename" => do
    let lex ← (← arr? j "lex").mapM decLex
    let ctx ← decCtx j
    let dparse := match j.getObjValAs? Bool "dparse" with | .ok b => b | _ => true
    let ixs := match j.getObjValAs? (Array Nat) "ixs" with | .ok a => a.toList | _ => []
    let expr : Option PExpr ← (match j.getObjVal? "expr" with
      | .ok (.null) => pure none
      | .ok ej => do pure (some (← decExpr ej))
      | _ => pure none : Except String (Option PExpr))
    let D : Str → Option (List Nat) := fun _ => if dparse then some (dollarsFrom 0 lex) else none
    let P : Str → Option (PExpr × List Nat) := fun s =>
      match expr with
      | some e => if s == printN lex then some (e, ixs.map (namePosN lex)) else none
      | none => none
    let out := processRenames D P ctx (printO lex)
    let extra : List (String × Json) := match expr with
      | none => []
      | some e =>
        let ents := match collect ctx.kind e (ixs.map (namePosN lex)) with
          | some es => Json.arr (es.map encEntity).toArray
          | none => Json.null
        let sel := selFrom ctx (nodes ctx.kind e) ixs
        let predicted := String.ofList (printO (renameLexFrom sel 0 lex))
        let t1 : Json := match convert (renameExpr ctx e) with
          | .ok t => encTree t | .error _ => Json.null
        let t2 : Json := match convert e with
          | .ok t => encTree (renameJson ctx t) | .error _ => Json.null
        [("entities", ents), ("predicted", Json.str predicted), ("tree_of_renamed", t1),
         ("renamed_tree", t2)]
    pure <| Json.mkObj ([("out", encOutcome out)] ++ extra)
  | "colids" => do
    let ctx ← decCtx j
    let cols ← j.getObjValAs? (Array String) "cols"
    let r := resourceUpdate ctx.renames ctx.table cols.toList
    pure <| Json.mkObj [("update", match r with | some l => toJson l | none => Json.null)]
  | "lookup" => do
    let ctx ← decCtx j
    let r := lookupColUpdate ctx.renames (optStr j "tableId") (optStr j "lookupColId")
    pure <| Json.mkObj [("update", match r with | some s => Json.str s | none => Json.null)]
  | _ => throw s!"unknown predrename op {op}"

end Grist.Driver.PredRename
