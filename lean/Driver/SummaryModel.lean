import Lean.Data.Json
import GristModel.SummaryModel
open Lean

/-!
Driver for GristModel/SummaryModel.lean.  Ops (all with "m":"summarymodel"):
  {"op":"maintain","guard":bool,"helper":[[rid,[sid..]]..],"sum":[[id,[val..],[rid..]]..],
   "src":[[rid,[cell..]]..],"dirty":[rid..]}
     -> {"helper":[[rid,[sid..]]..],"sum":[[id,[val..],[rid..]]..],"exact":bool}
        (exact = checkExact src (new sum))
  {"op":"exact","src":[..],"sum":[..]} -> {"exact":bool}
  {"op":"keys","cells":[cell..]} -> {"keysOf":[[val..]..],"code":[[val..]..] | null,"simple":bool}
val  = ["n",int] | ["t",str] | ["k",str]
cell = ["s",val] | ["c",[val..]] | ["r",[val..]] | ["o"]
-/
namespace Grist.Driver
open Grist.SummaryModel

def smVal (j : Json) : Except String Val := do
  let a ← j.getArr?
  if h : a.size = 2 then
    let tag ← a[0].getStr?
    match tag with
    | "n" => pure (.num (← a[1].getInt?))
    | "t" => pure (.txt (← a[1].getStr?))
    | "k" => pure (.tok (← a[1].getStr?))
    | _ => throw "bad val tag"
  else throw "bad val"

def smVals (j : Json) : Except String (List Val) := do
  (← j.getArr?).toList.mapM smVal

def smNats (j : Json) : Except String (List Nat) := do
  (← j.getArr?).toList.mapM (fun x => x.getNat?)

def smCell (j : Json) : Except String Cell := do
  let a ← j.getArr?
  if h : 0 < a.size then
    let tag ← a[0].getStr?
    match tag, a.size with
    | "o", 1 => pure .other
    | "s", 2 => pure (.scalar (← smVal a[1]!))
    | "c", 2 => pure (.choices (← smVals a[1]!))
    | "r", 2 => pure (.refs (← smVals a[1]!))
    | _, _ => throw "bad cell"
  else throw "bad cell"

def smSrcRow (j : Json) : Except String SrcRow := do
  let a ← j.getArr?
  if h : a.size = 2 then
    pure ⟨← a[0].getNat?, ← (← a[1].getArr?).toList.mapM smCell⟩
  else throw "bad source row"

def smSumRow (j : Json) : Except String SumRow := do
  let a ← j.getArr?
  if h : a.size = 3 then
    pure ⟨← a[0].getNat?, ← smVals a[1], ← smNats a[2]⟩
  else throw "bad summary row"

def smHelper (j : Json) : Except String (Nat × List Nat) := do
  let a ← j.getArr?
  if h : a.size = 2 then
    pure (← a[0].getNat?, ← smNats a[1])
  else throw "bad helper entry"

def valJ : Val → Json
  | .num n => Json.arr #[Json.str "n", toJson n]
  | .txt s => Json.arr #[Json.str "t", Json.str s]
  | .tok s => Json.arr #[Json.str "k", Json.str s]

def keyJ (k : Key) : Json := Json.arr (k.map valJ).toArray

def sumJ (sum : List SumRow) : Json :=
  Json.arr (sum.map (fun s => Json.arr #[toJson s.id, keyJ s.key, toJson s.group])).toArray

def helperJ (h : List (Nat × List Nat)) : Json :=
  Json.arr (h.map (fun e => Json.arr #[toJson e.1, toJson e.2])).toArray

def getList (j : Json) (k : String) : Except String (List Json) := do
  pure (← j.getObjValAs? (Array Json) k).toList

def handleSummaryModel (j : Json) : Except String Json := do
  let op ← j.getObjValAs? String "op"
  match op with
  | "maintain" =>
    let guard ← j.getObjValAs? Bool "guard"
    let helper ← (← getList j "helper").mapM smHelper
    let sum ← (← getList j "sum").mapM smSumRow
    let src ← (← getList j "src").mapM smSrcRow
    let dirty ← smNats (← j.getObjVal? "dirty")
    let st := maintain guard ⟨helper, sum⟩ src dirty
    -- helper entries in source row order (the model appends re-evaluated rows at the end)
    let hs := st.helper.mergeSort (fun a b => decide (a.1 ≤ b.1))
    pure <| Json.mkObj [("helper", helperJ hs), ("sum", sumJ st.sum),
                        ("exact", Json.bool (checkExact src st.sum))]
  | "exact" =>
    let sum ← (← getList j "sum").mapM smSumRow
    let src ← (← getList j "src").mapM smSrcRow
    pure <| Json.mkObj [("exact", Json.bool (checkExact src sum))]
  | "keys" =>
    let cells ← (← getList j "cells").mapM smCell
    let code := match allLookupValues cells with
      | none => Json.null
      | some lvs => Json.arr ((sortedProduct lvs).map keyJ).toArray
    pure <| Json.mkObj [("keysOf", Json.arr ((keysOf cells).map keyJ).toArray), ("code", code),
                        ("simple", Json.bool (rowSimple cells))]
  | _ => throw s!"unknown op {op}"

end Grist.Driver
