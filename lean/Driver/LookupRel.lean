import Lean.Data.Json
import GristModel.LookupRel
open Lean

/-!
Driver for GristModel/LookupRel.lean.

{"m":"lookuprel","op":"trace","init_map":[[row,key]..],"init_cache":[key..],
 "ops":[["add",row,key] | ["add_raise",row] | ["reset",[row..]] | ["reset_allrows"] | ["reset_all"]
        | ["inv",[key..]] | ["query",[key..]] | ["begin",row] | ["settled",[row..]] ..]}
answer {"handed":[null | [row..] per "inv" op, in order],      (sorted; null = engine not called)
        "queries":[[row..] per "query" op, in order],
        "map":[[row,key]..], "cache":[key..],                   (final state, sorted)
        "settled_ok":bool, "first_unsettled":null | index of the first violated "settled" op,
        "adds_on_empty_cache":bool,
        "variant_differs":bool}      (would the variant without the cache clear in _add_lookup hand
                                      over different rows somewhere on this trace, or end elsewhere?)
-/
namespace Grist.Driver.LookupRelD
open Grist.LookupRel

def natList (j : Json) : Except String (List Nat) := do
  let a ← j.getArr?
  a.toList.mapM (fun x => x.getNat?)

def pairList (j : Json) : Except String (List (Nat × Nat)) := do
  let a ← j.getArr?
  a.toList.mapM (fun x => do
    let p ← x.getArr?
    let r ← (p[0]?.getD Json.null).getNat?
    let k ← (p[1]?.getD Json.null).getNat?
    pure (r, k))

def opOfJson (j : Json) : Except String Op := do
  let a ← j.getArr?
  let tag ← (a[0]?.getD Json.null).getStr?
  let arg1 := a[1]?.getD Json.null
  let arg2 := a[2]?.getD Json.null
  match tag with
  | "add" => do pure (.add (← arg1.getNat?) (← arg2.getNat?))
  | "add_raise" => do pure (.addRaise (← arg1.getNat?))
  | "reset" => do pure (.resetRows (← natList arg1))
  | "reset_allrows" => pure .resetAllRows
  | "reset_all" => pure .resetAll
  | "inv" => do pure (.invalidate (← natList arg1))
  | "query" => do pure (.query (← natList arg1))
  | "begin" => do pure (.beginEval (← arg1.getNat?))
  | "settled" => do pure (.settled (← natList arg1))
  | t => throw s!"bad lookuprel op {t}"

def sortNat (l : List Nat) : List Nat := l.mergeSort (fun a b => a ≤ b)

def sortPairs (l : List (Nat × Nat)) : List (Nat × Nat) :=
  l.mergeSort (fun a b => a.1 < b.1 || (a.1 == b.1 && a.2 ≤ b.2))

def rowsJson (l : List Nat) : Json := toJson (sortNat l)

def isInv : Op → Bool
  | .invalidate _ => true
  | _ => false

def isQuery : Op → Bool
  | .query _ => true
  | _ => false

def handleLookupRel (j : Json) : Except String Json := do
  let op ← j.getObjValAs? String "op"
  if op != "trace" then throw s!"unknown lookuprel op {op}"
  let initMap ← match j.getObjVal? "init_map" with
    | .ok v => pairList v
    | .error _ => pure []
  let initCache ← match j.getObjVal? "init_cache" with
    | .ok v => natList v
    | .error _ => pure []
  let opsJ ← (← j.getObjVal? "ops").getArr?
  let ops ← opsJ.toList.mapM opOfJson
  let st0 := St.ofSnapshot initMap initCache
  let outs := outputs true st0 ops
  let fin := run true st0 ops
  let zipped := ops.zip outs
  let handed := (zipped.filter (fun p => isInv p.1)).map (fun p =>
    match p.2 with
    | none => Json.null
    | some rows => rowsJson rows)
  let queries := (zipped.filter (fun p => isQuery p.1)).map (fun p => rowsJson (p.2.getD []))
  let outsV := outputs false st0 ops
  let finV := run false st0 ops
  let normOut (o : List (Option (List Nat))) := o.map (fun x => x.map sortNat)
  let variantDiffers := normOut outs != normOut outsV
    || sortPairs fin.rel.map != sortPairs finV.rel.map || sortNat fin.rel.cache != sortNat finV.rel.cache
  pure (Json.mkObj [
    ("handed", Json.arr handed.toArray),
    ("queries", Json.arr queries.toArray),
    ("map", Json.arr ((sortPairs fin.rel.map).map (fun p => toJson [p.1, p.2])).toArray),
    ("cache", toJson (sortNat fin.rel.cache)),
    ("settled_ok", Json.bool (engineSettled true st0 ops)),
    ("first_unsettled", match firstUnsettled true st0 ops 0 with
      | none => Json.null
      | some i => toJson i),
    ("adds_on_empty_cache", Json.bool (addsOnEmptyCache true st0 ops)),
    ("variant_differs", Json.bool variantDiffers)])

end Grist.Driver.LookupRelD
