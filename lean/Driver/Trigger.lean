import Lean.Data.Json
import GristModel.Trigger
open Lean

/-!
Driver for GristModel/Trigger.lean.  One op = one bundle for one trigger column:
  {"m":"trigger","c":ref,"ups":[[formulaRef,[dataRef..]]..],
   "cfg":[when,[deps..]],            -- when: 0 DEFAULT, 1 NEVER, 2 MANUAL_UPDATES
   "edges":[refs..],"alive":[rows..],"dirty":[rows..],   -- dirty: recompute entries at the start (normally [])
   "bundle":[ua..]}
  ua = ["add",[rows],[supplied cols]] | ["update",[rows],[cols],[[row,col]..]] | ["remove",[rows]]
     | ["setConfig",when,[deps]] | ["schema",col]
     | ["doc",[ ["add",[rows]] | ["update",[rows],[cols]] | ["remove",[rows]] .. ]]
answer: {"evaluated":[rows sorted],"spec":[rows sorted],"inDomain":bool,"edges":[..],"alive":[rows sorted]}
     or {"error":"AssertionError"}
-/
namespace Grist.Driver
open Grist.Trigger

def tgNats (j : Json) : Except String (List Nat) := do
  let a ← j.getArr?
  a.toList.mapM (fun x => x.getNat?)

def tgWhen (n : Nat) : Except String RecalcWhen :=
  match n with
  | 0 => pure .dflt
  | 1 => pure .never
  | 2 => pure .manual
  | _ => throw "bad recalcWhen"

def tgPair (j : Json) : Except String (Nat × Nat) := do
  let a ← j.getArr?
  if h : a.size = 2 then
    pure (← a[0].getNat?, ← a[1].getNat?)
  else throw "bad pair"

def tgDocStep (j : Json) : Except String DocStep := do
  let a ← j.getArr?
  if h : a.size ≥ 2 then
    let k ← a[0].getStr?
    match k with
    | "add" => pure (.add (← tgNats a[1]))
    | "remove" => pure (.remove (← tgNats a[1]))
    | "update" =>
      if h3 : a.size = 3 then pure (.update (← tgNats a[1]) (← tgNats a[2])) else throw "bad doc update"
    | _ => throw "bad doc step"
  else throw "bad doc step"

def tgUA (j : Json) : Except String UA := do
  let a ← j.getArr?
  if h : a.size ≥ 2 then
    let k ← a[0].getStr?
    match k with
    | "add" =>
      if h3 : a.size = 3 then pure (.add (← tgNats a[1]) (← tgNats a[2])) else throw "bad add"
    | "update" =>
      if h4 : a.size = 4 then
        let d ← a[3].getArr?
        pure (.update (← tgNats a[1]) (← tgNats a[2]) (← d.toList.mapM tgPair))
      else throw "bad update"
    | "remove" => pure (.remove (← tgNats a[1]))
    | "setConfig" =>
      if h3 : a.size = 3 then pure (.setConfig ⟨← tgWhen (← a[1].getNat?), ← tgNats a[2]⟩) else throw "bad setConfig"
    | "schema" => pure (.schema (← a[1].getNat?))
    | "doc" =>
      let d ← a[1].getArr?
      pure (.doc (← d.toList.mapM tgDocStep))
    | _ => throw "bad user action"
  else throw "bad user action"

def tgSorted (l : List Nat) : List Nat := (l.eraseDups.toArray.qsort (· < ·)).toList

def handleTrigger (j : Json) : Except String Json := do
  let c ← j.getObjValAs? Nat "c"
  let upsJ ← j.getObjValAs? (Array Json) "ups"
  let ups ← upsJ.toList.mapM (fun p => do
    let a ← p.getArr?
    if h : a.size = 2 then pure (← a[0].getNat?, ← tgNats a[1]) else throw "bad ups")
  let cfgJ ← j.getObjValAs? (Array Json) "cfg"
  let cfg ← if h : cfgJ.size = 2 then
      pure (Config.mk (← tgWhen (← cfgJ[0].getNat?)) (← tgNats cfgJ[1]))
    else throw "bad cfg"
  let edges ← tgNats (← j.getObjVal? "edges")
  let alive ← tgNats (← j.getObjVal? "alive")
  let dirty0 ← tgNats (← j.getObjVal? "dirty")
  let bJ ← j.getObjValAs? (Array Json) "bundle"
  let b ← bJ.toList.mapM tgUA
  let env : Env := { c := c, ups := ups }
  match runBundle env cfg edges alive dirty0 b with
  | .error e => pure (Json.mkObj [("error", Json.str e)])
  | .ok res =>
    let spec := (tgSorted res.next.alive).filter (fun r => recalcB env cfg alive b r)
    pure (Json.mkObj [
      ("evaluated", toJson (tgSorted res.evaluated)),
      ("spec", toJson spec),
      ("inDomain", toJson (inDomain env cfg edges b)),
      ("edges", toJson res.next.edges),
      ("alive", toJson (tgSorted res.next.alive))])

end Grist.Driver
