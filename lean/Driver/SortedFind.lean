import Lean.Data.Json
import GristModel.SortedFind
open Lean

/-!
Driver for GristModel/SortedFind.lean.  One op:
  {"m":"sortedfind","spec":[bool..],            -- true = '-' (descending) component
   "rows":[[id,[cells..],[group..]],..],        -- the table (sort-spec cells, group_by cells)
   "key":[vals..] | null,                       -- group key of the lookup the find.* ops run on (null = no key columns)
   "probes":[[vals..],..],                      -- search values for lt/le/gt/ge/eq
   "orders":["asc","desc",..]}                  -- `order=` arguments for RANK
answer:
  {"order":[ids of lookupRecords(key)],
   "find":[[lt,le,gt,ge,eq] per probe]          -- row id (0 = empty record) or {"error":cls}
   "pnr":[[id,[group order ids],prev,next,[rank per order]] per row]}
Values: null / true,false / integer / string.
-/
namespace Grist.Driver
open Grist.SortedFind

def sfVal (j : Json) : Except String Val :=
  match j with
  | .null => pure .none
  | .bool b => pure (.bool b)
  | .str s => pure (.str s)
  | .num _ => match j.getInt? with
    | .ok i => pure (.int i)
    | .error _ => throw "non-integer number"
  | _ => throw "bad value"

def sfVals (j : Json) : Except String (List Val) := do
  let a ← j.getArr?
  a.toList.mapM sfVal

def sfRow (j : Json) : Except String Row := do
  let a ← j.getArr?
  if h : a.size = 3 then
    let i ← a[0].getNat?
    let c ← sfVals a[1]
    let g ← sfVals a[2]
    pure ⟨i, c, g⟩
  else throw "bad row"

def sfRec (r : Except String (Option Row)) : Json :=
  match r with
  | .ok x => toJson (recId x)
  | .error e => Json.mkObj [("error", Json.str e)]

def sfInt (r : Except String Int) : Json :=
  match r with
  | .ok x => toJson x
  | .error e => Json.mkObj [("error", Json.str e)]

def handleSortedFind (j : Json) : Except String Json := do
  let specJ ← j.getObjValAs? (Array Bool) "spec"
  let spec := specJ.toList
  let rowsJ ← j.getObjValAs? (Array Json) "rows"
  let tbl ← rowsJ.toList.mapM sfRow
  let keyJ ← j.getObjVal? "key"
  let gkey ← if keyJ.isNull then pure [] else sfVals keyJ
  let probesJ ← j.getObjValAs? (Array Json) "probes"
  let probes ← probesJ.toList.mapM sfVals
  let orders ← j.getObjValAs? (Array String) "orders"
  -- "key": null = lookup without key columns (all rows)
  let rs := if keyJ.isNull then lookupRecords spec (tbl.map (fun r => { r with group := [] })) []
            else lookupRecords spec tbl gkey
  let find := probes.map (fun vs => Json.arr #[
    sfRec (findLt spec rs vs), sfRec (findLe spec rs vs), sfRec (findGt spec rs vs),
    sfRec (findGe spec rs vs), sfRec (findEq spec rs vs)])
  let pnr := tbl.map (fun r => Json.arr #[
    toJson r.id,
    toJson ((sortedLookup spec tbl r).map (·.id)),
    sfRec (PREVIOUS spec tbl r), sfRec (NEXT spec tbl r),
    Json.arr (orders.map (fun o => sfInt (RANK spec tbl r o)))])
  pure <| Json.mkObj [
    ("order", toJson (rs.map (·.id))),
    ("find", Json.arr find.toArray),
    ("pnr", Json.arr pnr.toArray)]

end Grist.Driver
