import Lean.Data.Json
import GristModel.Relabel
open Lean

/-
Driver for the `Relabel` model (C20).  Floats travel as their IEEE-754 bit patterns (unsigned
64-bit integers, Python `struct.unpack('<Q', struct.pack('<d', x))`), so the comparison with
relabeling.py is bit-for-bit.
-/
namespace Grist.Driver.Relabel
open Grist.Relabel

def bitsOf (x : Float) : Json := if x.isNaN then Json.str "nan" else toJson x.toBits.toNat

def floatOfJson (j : Json) : Except String Float := do
  let n ← j.getNat?
  if n < 2 ^ 64 then pure (Float.ofBits (UInt64.ofNat n)) else throw "bits out of range"

def floatsOf (j : Json) (k : String) : Except String (List Float) := do
  let a ← j.getObjValAs? (Array Json) k
  a.toList.mapM floatOfJson

def adjOf (j : Json) (k : String) : Except String (List (Nat × Float)) := do
  let a ← j.getObjValAs? (Array Json) k
  a.toList.mapM (fun p => do
    let q ← p.getArr?
    if h : q.size = 2 then
      let i ← q[0].getNat?
      let x ← floatOfJson q[1]
      pure (i, x)
    else throw "bad adjustment")

def adjJson (l : List (Nat × Float)) : Json :=
  Json.arr (l.map (fun p => Json.arr #[toJson p.1, bitsOf p.2])).toArray

def floatsJson (l : List Float) : Json := Json.arr (l.map bitsOf).toArray

def handleRelabel (j : Json) : Except String Json := do
  let op ← j.getObjValAs? String "op"
  match op with
  | "prepare" =>
    let ex ← floatsOf j "existing"
    let ks ← floatsOf j "keys"
    match prepareInserts Flt.floatOps ex ks with
    | .ok r => pure <| Json.mkObj [("adj", adjJson r.adj), ("new", floatsJson r.newKeys),
        ("relabels", toJson r.relabels), ("renumbers", toJson r.renumbers)]
    | .error e => pure <| Json.mkObj [("error", Json.str e.name)]
  | "check" =>
    let ex ← floatsOf j "existing"
    let ks ← floatsOf j "keys"
    let adj ← adjOf j "adj"
    let nk ← floatsOf j "new"
    pure <| Json.mkObj [("valid", toJson (validOutcome Float.isFinite ex ks adj nk))]
  | "group" =>
    let ex ← floatsOf j "existing"
    let ks ← floatsOf j "keys"
    pure <| Json.mkObj [
      ("groups", toJson ((insGroups ex ks).map (fun g => [g.1, g.2]))),
      ("indices", toJson (indices ks))]
  | "ungroup" =>
    let idx ← j.getObjValAs? (List Nat) "indices"
    let nk ← floatsOf j "new"
    pure <| Json.mkObj [("out", floatsJson (ungroup idx nk))]
  | "get_range" =>
    let s ← floatOfJson (← j.getObjVal? "s")
    let e ← floatOfJson (← j.getObjVal? "e")
    let c ← j.getObjValAs? Nat "count"
    pure <| Json.mkObj [("out", floatsJson (Flt.getRange s e c))]
  | "range_around" =>
    let x ← floatOfJson (← j.getObjVal? "x")
    let i ← j.getObjValAs? Nat "i"
    match Flt.rangeAround x i with
    | some (a, b) => pure <| Json.mkObj [("out", floatsJson [a, b])]
    | none => pure <| Json.mkObj [("error", Json.str "OverflowError")]
  | "nextprev" =>
    let x ← floatOfJson (← j.getObjVal? "x")
    pure <| Json.mkObj [("out", floatsJson [Flt.nextfloat x, Flt.prevfloat x])]
  | "sparse" =>
    let f ← j.getObjValAs? Nat "frac"
    let i ← j.getObjValAs? Nat "i"
    let c ← j.getObjValAs? Nat "count"
    pure <| Json.mkObj [("out", toJson (Flt.sparse f i c))]
  | _ => throw s!"unknown relabel op {op}"

end Grist.Driver.Relabel
