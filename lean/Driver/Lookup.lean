import Lean.Data.Json
import GristModel.Lookup
import Driver.SortedFind
open Lean

/-!
Driver for GristModel/Lookup.lean.  Ops (all with "m":"lookup"):

* {"op":"twm","left":B,"right":B,"ops":[["insert",l,r],["remove",l,r],["remove_left",l],
                                          ["remove_right",r],["clear"]]}
  B in single|strict|set|list|lookupset; values: integer, string, or array of integers (unhashable).
  answer {"steps":[{"err":null|cls,"fwd":[[k,[items..]]..],"bwd":[[k,[items..]]..]} per op]}
  (dict entries and set items in the model's order; the harness canonicalises)

* {"op":"machine","kinds":["p" | ["c"] | ["c",pv] ..],"sortCols":[..],"events":[ev..]}
  ev: ["setKey",row,[cell..]] ["setSort",row,[[col,val]..]] ["deliverKey",row]
      ["deliverSort",row,[spec..]] ["unset",row] ["lookup",[cell..],[spec..]] ["dump"]
  pv: null | bool | integer | string | {"f":repr} | {"a":alt text};  cell: pv | [pv..]
  answer {"results":[null | {"keys":[..]} | {"rows":[..]} | {"error":cls} | {"fwd":..,"bwd":..}]}

* {"op":"sortspec","order_by":{"k":"tuple","v":[..]}|{"k":"str","v":s}|{"k":"none"}|{"k":"other"},
   "sort_by":{"k":"none"}|{"k":"str","v":s}|{"k":"other"},"manual":bool,"rows":[ids]}
  answer {"spec":[..] | {"error":cls},"parsed":[[col,desc]..],"one":id}
-/
namespace Grist.Driver.LookupD
open Grist.Lookup

/-- test values for the TwoWayMap stream -/
inductive TV where
  | int (i : Int)
  | str (s : String)
  | lst (l : List Int)
deriving DecidableEq

def TV.hashable : TV → Bool
  | .lst _ => false
  | _ => true

def tvOfJson (j : Json) : Except String TV :=
  match j with
  | .str s => pure (.str s)
  | .num _ => match j.getInt? with
    | .ok i => pure (.int i)
    | .error _ => throw "non-integer number"
  | .arr a => do
    let l ← a.toList.mapM (fun x => x.getInt?)
    pure (.lst l)
  | _ => throw "bad twm value"

def tvToJson : TV → Json
  | .int i => toJson i
  | .str s => Json.str s
  | .lst l => toJson l

def errJson (e : Option Err) : Json :=
  match e with
  | none => Json.null
  | some e => Json.str e.name

def dumpDict {σ : Type} (B : BinOps TV TV σ) (d : Dict TV σ) : Json :=
  Json.arr (d.map (fun p => Json.arr #[tvToJson p.1, Json.arr ((B.items p.2).map tvToJson).toArray])).toArray

def twmOp (j : Json) : Except String (Op TV TV) := do
  let a ← j.getArr?
  let name ← (a[0]?.getD Json.null).getStr?
  let arg (i : Nat) : Except String TV := tvOfJson (a[i]?.getD Json.null)
  match name with
  | "insert" => pure (.insert (← arg 1) (← arg 2))
  | "remove" => pure (.remove (← arg 1) (← arg 2))
  | "remove_left" => pure (.removeLeft (← arg 1))
  | "remove_right" => pure (.removeRight (← arg 1))
  | "clear" => pure .clear
  | _ => throw s!"bad twm op {name}"

def runTwm {σL σR : Type} (L : BinOps TV TV σL) (R : BinOps TV TV σR) :
    TwoWayMap TV TV σL σR → List (Op TV TV) → List Json
  | _, [] => []
  | m, op :: ops =>
    let (m1, e) := m.apply L R op
    Json.mkObj [("err", errJson e), ("fwd", dumpDict R m1.fwd), ("bwd", dumpDict L m1.bwd)]
      :: runTwm L R m1 ops

def withBin (name : String) (f : {σ : Type} → BinOps TV TV σ → Except String Json) :
    Except String Json :=
  match name with
  | "single" => f (singleOps (γ := TV) TV.hashable)
  | "strict" => f (strictOps (γ := TV) TV.hashable)
  | "set" => f (containerOps (setC (γ := TV)) TV.hashable TV.hashable)
  | "list" => f (containerOps (listC (γ := TV)) TV.hashable TV.hashable)
  | "lookupset" => f (containerOps (lookupSetC (γ := TV)) TV.hashable TV.hashable)
  | _ => throw s!"bad bin type {name}"

def handleTwm (j : Json) : Except String Json := do
  let left ← j.getObjValAs? String "left"
  let right ← j.getObjValAs? String "right"
  let opsJ ← j.getObjValAs? (Array Json) "ops"
  let ops ← opsJ.toList.mapM twmOp
  withBin left (fun {σL} L => withBin right (fun {σR} R =>
    pure (Json.mkObj [("steps", Json.arr (runTwm (σL := σL) (σR := σR) L R {} ops).toArray)])))

/-! machine -/

def pvOfJson (j : Json) : Except String PV :=
  match j with
  | .null => pure .none
  | .bool b => pure (.bool b)
  | .str s => pure (.str s)
  | .num _ => match j.getInt? with
    | .ok i => pure (.int i)
    | .error _ => throw "non-integer number"
  | .obj _ =>
    match j.getObjValAs? String "f" with
    | .ok r => pure (.flt r)
    | .error _ => match j.getObjValAs? String "a" with
      | .ok t => pure (.alt t)
      | .error _ => throw "bad pv object"
  | _ => throw "bad pv"

def pvToJson : PV → Json
  | .none => Json.null
  | .bool b => Json.bool b
  | .int i => toJson i
  | .flt r => Json.mkObj [("f", Json.str r)]
  | .str s => Json.str s
  | .alt t => Json.mkObj [("a", Json.str t)]

def cellOfJson (j : Json) : Except String Cell :=
  match j with
  | .arr a => do
    let l ← a.toList.mapM pvOfJson
    pure (.lst l)
  | _ => do pure (.v (← pvOfJson j))

def cellToJson : Cell → Json
  | .v x => pvToJson x
  | .lst xs => Json.arr (xs.map pvToJson).toArray

def cellsOfJson (j : Json) : Except String (List Cell) := do
  let a ← j.getArr?
  a.toList.mapM cellOfJson

def keyToJson (k : LKey) : Json := Json.arr (k.map cellToJson).toArray

def kindOfJson (j : Json) : Except String ColKind :=
  match j with
  | .str "p" => pure .plain
  | .arr a =>
    if a.size == 1 then pure (.contains none)
    else if a.size == 2 then do pure (.contains (some (← pvOfJson a[1]!)))
    else throw "bad kind"
  | _ => throw "bad kind"

def specOfJson (j : Json) : Except String SortSpec := do
  let a ← j.getArr?
  a.toList.mapM (fun x => x.getStr?)

inductive MEv where
  | ev (e : Ev)
  | dump

def evOfJson (j : Json) : Except String MEv := do
  let a ← j.getArr?
  let name ← (a[0]?.getD Json.null).getStr?
  let arg (i : Nat) : Json := a[i]?.getD Json.null
  match name with
  | "setKey" => pure (.ev (.setKey (← (arg 1).getNat?) (← cellsOfJson (arg 2))))
  | "setSort" => do
    let ps ← (arg 2).getArr?
    let cells ← ps.toList.mapM (fun p => do
      let q ← p.getArr?
      let c ← (q[0]?.getD Json.null).getStr?
      let v ← sfVal (q[1]?.getD Json.null)
      pure (c, v))
    pure (.ev (.setSort (← (arg 1).getNat?) cells))
  | "deliverKey" => pure (.ev (.deliverKey (← (arg 1).getNat?)))
  | "deliverSort" => pure (.ev (.deliverSort (← (arg 1).getNat?) (← specOfJson (arg 2))))
  | "unset" => pure (.ev (.unset (← (arg 1).getNat?)))
  | "lookup" => pure (.ev (.lookup (← cellsOfJson (arg 1)) (← specOfJson (arg 2))))
  | "dump" => pure .dump
  | _ => throw s!"bad event {name}"

def resToJson : Res → Json
  | .unit => Json.null
  | .keys ks => Json.mkObj [("keys", Json.arr (ks.map keyToJson).toArray)]
  | .rows rs => Json.mkObj [("rows", toJson rs)]
  | .err e => Json.mkObj [("error", Json.str e.name)]

def dumpIndex {σR : Type} (M : Mapping σR) (ix : Index σR) : Json :=
  Json.mkObj [
    ("fwd", Json.arr (ix.fwd.map (fun p => Json.arr #[toJson p.1,
        Json.arr ((M.right.items p.2).map keyToJson).toArray])).toArray),
    ("bwd", Json.arr (ix.bwd.map (fun p => Json.arr #[keyToJson p.1, toJson p.2.elems,
        Json.arr (p.2.sorted.map (fun c => Json.arr #[toJson c.1, toJson c.2])).toArray])).toArray)]

def runMachine {σR : Type} (M : Mapping σR) (sortCols : List String) : St σR → List MEv → List Json
  | _, [] => []
  | st, .dump :: es => dumpIndex M st.index :: runMachine M sortCols st es
  | st, .ev e :: es =>
    let (st1, r) := step M sortCols st e
    resToJson r :: runMachine M sortCols st1 es

def handleMachine (j : Json) : Except String Json := do
  let kindsJ ← j.getObjValAs? (Array Json) "kinds"
  let kinds ← kindsJ.toList.mapM kindOfJson
  let sortCols ← j.getObjValAs? (Array String) "sortCols"
  let evsJ ← j.getObjValAs? (Array Json) "events"
  let evs ← evsJ.toList.mapM evOfJson
  -- LookupMapColumn.__init__: ContainsLookupMapping iff any col id is a _Contains
  let res := if kinds.all (· == .plain) then runMachine simpleMapping sortCols.toList {} evs
             else runMachine (containsMapping kinds) sortCols.toList {} evs
  pure (Json.mkObj [("results", Json.arr res.toArray)])

/-! make_sort_spec / parse / get_one -/

def handleSortSpec (j : Json) : Except String Json := do
  let ob ← j.getObjVal? "order_by"
  let obk ← ob.getObjValAs? String "k"
  let orderBy : OrderBy ← match obk with
    | "tuple" => do pure (.tuple (← ob.getObjValAs? (Array String) "v").toList)
    | "str" => do pure (.str (← ob.getObjValAs? String "v"))
    | "none" => pure .none
    | "other" => pure .other
    | _ => throw "bad order_by"
  let sb ← j.getObjVal? "sort_by"
  let sbk ← sb.getObjValAs? String "k"
  let sortBy : SortBy ← match sbk with
    | "none" => pure .none
    | "str" => do pure (.str (← sb.getObjValAs? String "v"))
    | "other" => pure .other
    | _ => throw "bad sort_by"
  let manual ← j.getObjValAs? Bool "manual"
  let rows ← j.getObjValAs? (Array Nat) "rows"
  let spec := makeSortSpec orderBy sortBy manual
  let specJ := match spec with
    | .ok s => toJson s
    | .error e => Json.mkObj [("error", Json.str e.name)]
  let parsed := match spec with
    | .ok s => s.map (fun c => Json.arr #[Json.str (parseColSpec c).1, Json.bool (parseColSpec c).2])
    | .error _ => []
  pure (Json.mkObj [("spec", specJ), ("parsed", Json.arr parsed.toArray), ("one", toJson (getOne rows.toList))])

def handleLookup (j : Json) : Except String Json := do
  let op ← j.getObjValAs? String "op"
  match op with
  | "twm" => handleTwm j
  | "machine" => handleMachine j
  | "sortspec" => handleSortSpec j
  | _ => throw s!"unknown lookup op {op}"

end Grist.Driver.LookupD
