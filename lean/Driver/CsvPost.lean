import Lean.Data.Json
import GristModel.CsvPost
open Lean

namespace Grist.Driver

/-- cells travel as arrays of code points (the JSON string escapes of the transport are not
    trusted with astral characters) -/
def cellOfJson (j : Json) : Except String Grist.CsvPost.Cell := do
  let a ← j.getArr?
  a.toList.mapM (fun x => do
    let n ← x.getNat?
    pure (Char.ofNat n))

def cellToJson (c : Grist.CsvPost.Cell) : Json :=
  Json.arr (c.map (fun ch => toJson ch.toNat)).toArray

/-- op {"m":"csvpost","cells":[[cp..]..],"rows":[[cellIndex..]..],"include":b,"numeric":[cellIndex..]}
    or  {"m":"csvpost","ws":true}  (the model's whitespace set) -/
def handleCsvPost (j : Json) : Except String Json := do
  if (j.getObjVal? "ws").isOk then
    let l : Array Nat := Id.run do
      let mut acc : Array Nat := #[]
      for n in [0:0x110000] do
        if Grist.CsvPost.isSpace (Char.ofNat n) then acc := acc.push n
      return acc
    return Json.mkObj [("ws", toJson l)]
  let cellsJ ← j.getObjValAs? (Array Json) "cells"
  let cells ← cellsJ.mapM cellOfJson
  let rowsJ ← j.getObjValAs? (Array (Array Nat)) "rows"
  let rows ← rowsJ.toList.mapM (fun r => r.toList.mapM (fun i =>
    match cells[i]? with
    | some c => pure c
    | none => throw "bad cell index"))
  let incl ← j.getObjValAs? Bool "include"
  let numIdx ← j.getObjValAs? (Array Nat) "numeric"
  let nums ← numIdx.toList.mapM (fun i =>
    match cells[i]? with
    | some c => pure c
    | none => throw "bad numeric index")
  let isNum := fun (c : Grist.CsvPost.Cell) => nums.contains c
  let p := Grist.CsvPost.plan isNum incl rows
  let cols := Grist.CsvPost.parse isNum incl rows
  pure <| Json.mkObj [
    ("off", toJson p.1),
    ("width", toJson p.2.length),
    ("cols", Json.arr (cols.map (fun c => Json.mkObj [
        ("id", cellToJson c.id),
        ("data", Json.arr (c.data.map cellToJson).toArray)])).toArray)]

end Grist.Driver
