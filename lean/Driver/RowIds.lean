import Lean.Data.Json
import GristModel.RowIds
open Lean
namespace Grist.Driver
open Grist.RowIds

/-! JSON front end of GristModel/RowIds.lean (dispatch key "rowids").
    ops: fill | add | bundle — see harness/gx/props/c27.py, c26.py. -/

private def optInt (j : Json) : Except String (Option Int) :=
  match j with
  | .null => pure none
  | _ => do let i ← j.getInt?; pure (some i)

private def reqOf (j : Json) (key : String) : Except String (List (Option Int)) := do
  let a ← j.getObjValAs? (Array Json) key
  a.toList.mapM optInt

private def natsOf (j : Json) (key : String) : Except String (List Nat) := do
  let a ← j.getObjValAs? (Array Json) key
  a.toList.mapM (fun x => x.getNat?)

private def intsOf (j : Json) (key : String) : Except String (List Int) := do
  let a ← j.getObjValAs? (Array Json) key
  a.toList.mapM (fun x => x.getInt?)

private def cellOf (j : Json) : Except String Cell :=
  match j with
  | .arr a => do let l ← a.toList.mapM (fun x => x.getInt?); pure (.refs l)
  | .num _ => do let i ← j.getInt?; pure (.ref i)
  | _ => pure .other

private def cellJson : Cell → Json
  | .ref i => toJson i
  | .refs l => toJson l
  | .other => Json.null

private def sortNat (l : List Nat) : List Nat := (l.toArray.qsort (· < ·)).toList

/-- live content of the dict: first pair per key, sorted by key -/
private def mapJson (m : TempMap) : Json :=
  let keys := (m.map (·.1)).eraseDups
  let ks := (keys.toArray.qsort (· < ·)).toList
  toJson (ks.map (fun k => [k, translate1 m k]))

private def colOf (j : Json) : Except String RefCol := do
  let c ← j.getObjValAs? String "c"
  let to ← j.getObjValAs? String "to"
  let kind ← j.getObjValAs? String "kind"
  let vs ← j.getObjValAs? (Array Json) "v"
  let cells ← vs.toList.mapM cellOf
  let k ← match kind with
    | "ref" => pure ColKind.ref
    | "reflist" => pure ColKind.refList
    | _ => throw s!"bad kind {kind}"
  pure { col := c, target := to, kind := k, values := cells }

private def colsOf (j : Json) : Except String (List RefCol) :=
  match j.getObjValAs? (Array Json) "cols" with
  | .ok a => a.toList.mapM colOf
  | .error _ => pure []

private def stepOf (j : Json) : Except String Step := do
  let k ← j.getObjValAs? String "k"
  let t ← j.getObjValAs? String "t"
  match k with
  | "add" => do pure (.add t (← reqOf j "req") (← colsOf j))
  | "replace" => do pure (.replace t (← reqOf j "req") (← colsOf j))
  | "update" => do pure (.update t (← intsOf j "rows") (← colsOf j))
  | "remove" => do pure (.remove t (← intsOf j "rows"))
  | _ => throw s!"bad step {k}"

private def outJson (o : StepOut) : Json :=
  Json.mkObj [("ids", toJson o.ids),
              ("cols", Json.mkObj (o.cols.map (fun p => (p.1, Json.arr (p.2.map cellJson).toArray))))]

/-- run the steps, remembering the index of the failing one -/
private def runIdx (d : DocSt) : Nat → List Step → List Json → Json
  | _, [], acc =>
    Json.mkObj [("steps", Json.arr acc.reverse.toArray),
                ("tables", Json.mkObj (d.map (fun p => (p.1, toJson (sortNat p.2.rows))))),
                ("maps", Json.mkObj (d.map (fun p => (p.1, mapJson p.2.map))))]
  | i, st :: rest, acc =>
    match runStep d st with
    | .error e => Json.mkObj [("error", Json.str e), ("at", toJson i)]
    | .ok (d1, o) => runIdx d1 (i + 1) rest (outJson o :: acc)

def handleRowIds (j : Json) : Except String Json := do
  let op ← j.getObjValAs? String "op"
  match op with
  | "fill" => do
    let next ← j.getObjValAs? Nat "next"
    let req ← reqOf j "req"
    match fillIds next req with
    | .ok ids => pure (Json.mkObj [("ids", toJson ids)])
    | .error e => pure (Json.mkObj [("error", Json.str e)])
  | "add" => do
    let rows ← natsOf j "rows"
    let req ← reqOf j "req"
    let replace := (j.getObjValAs? Bool "replace").toOption.getD false
    let r := if replace then replaceRequest [] req else addRequest rows [] req
    match r with
    | .ok res => pure (Json.mkObj [("ids", toJson res.ids), ("rows", toJson (sortNat res.rows)),
                                   ("map", mapJson res.map)])
    | .error e => pure (Json.mkObj [("error", Json.str e)])
  | "bundle" => do
    let tabs ← j.getObjValAs? (Array Json) "tables"
    let d ← tabs.toList.mapM (fun (p : Json) => do
      let name ← p.getObjValAs? String "t"
      let rows ← natsOf p "rows"
      pure (name, ({ rows := rows, map := [] } : TableSt)))
    let stepsJ ← j.getObjValAs? (Array Json) "steps"
    let steps ← stepsJ.toList.mapM stepOf
    pure (runIdx d 0 steps [])
  | _ => throw s!"unknown rowids op {op}"

end Grist.Driver
