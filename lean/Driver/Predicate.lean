import Lean.Data.Json
import GristModel.Predicate
open Lean
open Grist.Predicate

namespace Grist.Driver.Pred

def str? (j : Json) (k : String) : Except String String := j.getObjValAs? String k
def arr? (j : Json) (k : String) : Except String (List Json) := do
  let a ← j.getObjValAs? (Array Json) k
  pure a.toList

def parseInt (s : String) : Except String Int :=
  match s.toInt? with | some i => pure i | none => throw s!"bad int {s}"
def parseBits (s : String) : Except String UInt64 :=
  match s.toNat? with | some n => pure n.toUInt64 | none => throw s!"bad bits {s}"

def decConst (j : Json) : Except String Const := do
  let t ← str? j "t"
  match t with
  | "none" => pure .none
  | "bool" => do pure (.bool (← j.getObjValAs? Bool "v"))
  | "int" => do pure (.int (← parseInt (← str? j "v")))
  | "float" => do pure (.float (← parseBits (← str? j "v")))
  | "str" => do pure (.str (← str? j "v"))
  | "other" => do pure (.other (← str? j "v"))
  | _ => throw s!"bad const kind {t}"

def decBinOp : String → BinOp
  | "Add" => .add | "Sub" => .sub | "Mult" => .mult | "Div" => .div | "Mod" => .mod
  | s => .other s

def decCmpOp : String → Except String CmpOp
  | "Eq" => pure .eq | "NotEq" => pure .notEq | "Lt" => pure .lt | "LtE" => pure .ltE
  | "Gt" => pure .gt | "GtE" => pure .gtE | "Is" => pure .is | "IsNot" => pure .isNot
  | "In" => pure .in | "NotIn" => pure .notIn
  | s => throw s!"bad cmpop {s}"

partial def decExpr (j : Json) : Except String PExpr := do
  let k ← str? j "k"
  match k with
  | "BoolOp" => do
    let op ← str? j "op"
    let vs ← (← arr? j "values").mapM decExpr
    match op with
    | "And" => pure (.boolOp .and vs)
    | "Or" => pure (.boolOp .or vs)
    | _ => throw "bad boolop"
  | "BinOp" => do
    pure (.binOp (decBinOp (← str? j "op")) (← decExpr (← j.getObjVal? "left"))
      (← decExpr (← j.getObjVal? "right")))
  | "UnaryOp" => do
    let op ← str? j "op"
    let e ← decExpr (← j.getObjVal? "operand")
    pure (.unaryOp (if op == "Not" then .not else .other op) e)
  | "Compare" => do
    let ops ← (← arr? j "ops").mapM (fun o => do decCmpOp (← o.getStr?))
    let cs ← (← arr? j "comparators").mapM decExpr
    pure (.compare (← decExpr (← j.getObjVal? "left")) ops cs)
  | "Name" => do pure (.name (← str? j "id"))
  | "Dollar" => do pure (.dollar (← str? j "name"))
  | "Constant" => do pure (.const (← decConst j))
  | "Attribute" => do pure (.attr (← decExpr (← j.getObjVal? "value")) (← str? j "attr"))
  | "List" => do pure (.list (← (← arr? j "elts").mapM decExpr))
  | "Tuple" => do pure (.tuple (← (← arr? j "elts").mapM decExpr))
  | "Call" => do
    let f ← decExpr (← j.getObjVal? "func")
    let args ← (← arr? j "args").mapM decExpr
    let kws ← (← arr? j "keywords").mapM (fun kw => do
      let a ← kw.getArr?
      if h : a.size = 2 then
        let name := match a[0].getStr? with | .ok s => some s | _ => none
        let v ← decExpr a[1]
        pure (Keyword.mk name v)
      else throw "bad keyword")
    pure (.call f args kws)
  | "Unsupported" => do
    pure (.unsupported (← str? j "kind") (← (← arr? j "children").mapM decExpr))
  | _ => throw s!"bad expr kind {k}"

def encBits (b : UInt64) : Json :=
  if (Float.ofBits b).isNaN then Json.str "nan" else Json.str (toString b.toNat)

partial def encTree : PTree → Json
  | .null => Json.null
  | .bool b => Json.bool b
  | .int i => Json.mkObj [("i", Json.str (toString i))]
  | .float b => Json.mkObj [("f", encBits b)]
  | .str s => Json.str s
  | .opaque k => Json.mkObj [("o", Json.str k)]
  | .list xs => Json.arr (xs.map encTree).toArray

partial def decTree (j : Json) : Except String PTree :=
  match j with
  | .null => pure .null
  | .bool b => pure (.bool b)
  | .str s => pure (.str s)
  | .arr a => do pure (.list (← a.toList.mapM decTree))
  | .obj _ =>
    match j.getObjValAs? String "i" with
    | .ok s => do pure (.int (← parseInt s))
    | _ => match j.getObjValAs? String "f" with
      | .ok s => do pure (.float (← parseBits s))
      | _ => match j.getObjValAs? String "o" with
        | .ok s => pure (.opaque s)
        | _ => throw "bad tree scalar"
  | _ => throw "bad tree"

partial def decValue (j : Json) : Except String Value :=
  match j with
  | .null => pure .none
  | .bool b => pure (.bool b)
  | .obj _ =>
    match j.getObjValAs? String "i" with
    | .ok s => do pure (.int (← parseInt s))
    | _ => match j.getObjValAs? String "f" with
    | .ok s => do pure (.float (← parseBits s))
    | _ => match j.getObjValAs? String "s" with
    | .ok s => pure (.str s)
    | _ => match j.getObjValAs? (Array Json) "l" with
    | .ok a => do pure (.list (← a.toList.mapM decValue))
    | _ => match j.getObjValAs? String "b" with
    | .ok s => pure (.builtin s)
    | _ => match j.getObjValAs? Nat "r" with
    | .ok id => do
      let fs ← (← arr? j "fields").mapM (fun p => do
        let a ← p.getArr?
        if h : a.size = 2 then
          pure ((← a[0].getStr?), (← decValue a[1]))
        else throw "bad field")
      pure (.record id fs)
    | _ => throw "bad value"
  | _ => throw "bad value"

partial def encValue : Value → Json
  | .none => Json.null
  | .bool b => Json.bool b
  | .int i => Json.mkObj [("i", Json.str (toString i))]
  | .float b => Json.mkObj [("f", encBits b)]
  | .str s => Json.mkObj [("s", Json.str s)]
  | .list xs => Json.mkObj [("l", Json.arr (xs.map encValue).toArray)]
  | .record id _ => Json.mkObj [("r", toJson id)]
  | .builtin n => Json.mkObj [("b", Json.str n)]
  | .method r n => Json.mkObj [("m", Json.arr #[Json.str r, Json.str n])]

def encRes : Res → Json
  | .ok v => Json.mkObj [("ok", encValue v)]
  | .error e => Json.mkObj [("error", Json.str e)]

def decEnv (j : Json) : Except String Env := do
  let vs ← (← j.getArr?).toList.mapM (fun p => do
    let a ← p.getArr?
    if h : a.size = 2 then
      pure ((← a[0].getStr?), (← decValue a[1]))
    else throw "bad var")
  pure ⟨vs⟩

def optComment (j : Json) : Option String :=
  match j.getObjValAs? String "comment" with | .ok s => some s | _ => none

def handlePredicate (j : Json) : Except String Json := do
  let op ← str? j "op"
  match op with
  | "parse" => do
    let e ← decExpr (← j.getObjVal? "expr")
    let sup := supported e
    match parseFormula e (optComment j) with
    | .ok t => pure <| Json.mkObj [("tree", encTree t), ("supported", Json.bool sup),
        ("jsonsafe", Json.bool (jsonSafe t)), ("constsok", Json.bool (constsOk e))]
    | .error m => pure <| Json.mkObj [("error", Json.str "SyntaxError"), ("msg", Json.str m),
        ("supported", Json.bool sup)]
  | "eval" => do
    let e ← decExpr (← j.getObjVal? "expr")
    let ρ ← decEnv (← j.getObjVal? "env")
    let re := evalExpr ρ e
    let rt : Json := match parseFormula e (optComment j) with
      | .ok t => encRes (evalTree ρ t)
      | .error _ => Json.null
    let rg : Json ← (match j.getObjVal? "tree" with
      | .ok tj => do let t ← decTree tj; pure (encRes (evalTree ρ t))
      | _ => pure Json.null : Except String Json)
    pure <| Json.mkObj [("expr", encRes re), ("tree", rt), ("given", rg)]
  | _ => throw s!"unknown predicate op {op}"

end Grist.Driver.Pred
