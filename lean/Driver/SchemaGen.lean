import Lean.Data.Json
import GristModel.SchemaGen
open Lean

/-!
Driver for GristModel/SchemaGen.lean (C38).  One op per JSON line, `"m": "schemagen"`, `"op"`:
  agree    {py, ts}                       -> {agree, expectedSchema, expectedIface}
  render   {py}                           -> {text}
  tstype   {types: [..]}                  -> {pure: [..], ts: [..]}
  defaults {py: [[k, dv]..], ts: [[k, dv]..], extra: [..], probe: [..]}
                                          -> {agree, tsDefault: [..], pyDefault: [..]}
JSON shapes are those of harness/gx/translate.py (`collect()`).
-/
namespace Grist.Driver
open Grist.SchemaGen

def sgCol (j : Json) : Except String ColSchema := do
  pure ⟨← j.getObjValAs? String "id", ← j.getObjValAs? String "type",
        ← j.getObjValAs? Bool "isFormula", ← j.getObjValAs? String "formula"⟩

def sgPy (j : Json) : Except String PySchema := do
  let v ← (← j.getObjVal? "version").getInt?
  let ts ← j.getObjValAs? (Array Json) "tables"
  let tables ← ts.toList.mapM fun t => do
    let cols ← t.getObjValAs? (Array Json) "columns"
    pure (⟨← t.getObjValAs? String "tableId", ← cols.toList.mapM sgCol⟩ : TableSchema)
  pure ⟨v, tables⟩

def sgTsTables (a : Array Json) : Except String (List TsTable) :=
  a.toList.mapM fun t => do
    let es ← t.getObjValAs? (Array Json) "entries"
    let entries ← es.toList.mapM fun e => do
      let p ← e.getArr?
      if h : p.size = 2 then
        pure (⟨← p[0].getStr?, ← p[1].getStr?⟩ : TsEntry)
      else throw "bad entry"
    pure (⟨← t.getObjValAs? String "tableId", entries⟩ : TsTable)

def sgTs (j : Json) : Except String TsSchema := do
  let v ← (← j.getObjVal? "version").getInt?
  pure ⟨v, ← sgTsTables (← j.getObjValAs? (Array Json) "schema"),
           ← sgTsTables (← j.getObjValAs? (Array Json) "iface")⟩

def sgTablesJson (ts : List TsTable) : Json :=
  toJson (ts.map fun t => Json.mkObj [("tableId", t.tableId),
    ("entries", toJson (t.entries.map fun e => [e.id, e.ty]))])

def sgDefVal (j : Json) : Except String DefVal := do
  let k ← j.getObjValAs? String "k"
  match k with
  | "null" => pure .null
  | "posInf" => pure .posInf
  | "negInf" => pure .negInf
  | "nan" => pure .nan
  | "bool" => pure (.bool (← j.getObjValAs? Bool "v"))
  | "num" =>
    let s ← j.getObjValAs? String "v"
    match s.toInt? with
    | some n => pure (.num n)
    | none => throw "bad num"
  | "frac" => pure (.frac (← j.getObjValAs? String "v"))
  | "str" => pure (.str (← j.getObjValAs? String "v"))
  | "other" => pure (.other (← j.getObjValAs? String "v"))
  | "list" => pure (.list (← j.getObjValAs? (List String) "v"))
  | _ => throw s!"bad default value kind {k}"

def sgDefValJson : DefVal → Json
  | .null => Json.mkObj [("k", "null")]
  | .posInf => Json.mkObj [("k", "posInf")]
  | .negInf => Json.mkObj [("k", "negInf")]
  | .nan => Json.mkObj [("k", "nan")]
  | .bool b => Json.mkObj [("k", "bool"), ("v", b)]
  | .num n => Json.mkObj [("k", "num"), ("v", toString n)]
  | .frac s => Json.mkObj [("k", "frac"), ("v", s)]
  | .str s => Json.mkObj [("k", "str"), ("v", s)]
  | .other s => Json.mkObj [("k", "other"), ("v", s)]
  | .list xs => Json.mkObj [("k", "list"), ("v", toJson xs)]

def sgTable (a : Array Json) : Except String DefaultTable :=
  a.toList.mapM fun e => do
    let p ← e.getArr?
    if h : p.size = 2 then
      pure (← p[0].getStr?, ← sgDefVal p[1])
    else throw "bad default entry"

def handleSchemaGen (j : Json) : Except String Json := do
  let op ← j.getObjValAs? String "op"
  match op with
  | "agree" =>
    let p ← sgPy (← j.getObjVal? "py")
    let t ← sgTs (← j.getObjVal? "ts")
    pure <| Json.mkObj [("agree", agree p t),
      ("expectedSchema", sgTablesJson (expectedSchema p)),
      ("expectedIface", sgTablesJson (expectedIface p))]
  | "render" =>
    let p ← sgPy (← j.getObjVal? "py")
    pure <| Json.mkObj [("text", render p)]
  | "tstype" =>
    let ts ← j.getObjValAs? (List String) "types"
    pure <| Json.mkObj [("pure", toJson (ts.map pureType)), ("ts", toJson (ts.map tsTypeOf))]
  | "defaults" =>
    let py ← sgTable (← j.getObjValAs? (Array Json) "py")
    let ts ← sgTable (← j.getObjValAs? (Array Json) "ts")
    let extra ← j.getObjValAs? (List String) "extra"
    let probe ← j.getObjValAs? (List String) "probe"
    pure <| Json.mkObj [("agree", defaultsAgree py ts extra),
      ("tsDefault", toJson (probe.map fun ty => match tsDefault ts ty with
        | some v => sgDefValJson v
        | none => Json.mkObj [("error", "TypeError")])),
      ("pyDefault", toJson (probe.map fun ty => sgDefValJson (pyDefault py ty)))]
  | _ => throw s!"unknown schemagen op {op}"

end Grist.Driver
