import Lean.Data.Json
import GristModel.Textbuilder
open Lean

namespace Grist.Driver
open Grist.Textbuilder

/-
op: {"m":"textbuilder","tree":T,"patches":[[start,end,old,new],...],"offsets":[int,...]}
    ("offsets": arguments for root.map_back_offset; answered in "offs", int or {"error":cls})
T = {"k":"text","s":str,"v":nat} | {"k":"raw","s":str,"bytes":bool} | {"k":"repl","in":T,"ps":[patch,...]}
  | {"k":"comb","parts":[T,...]}
answer: {"text": str | {"error":cls},
         "tables": pre-order list, one entry per node (null | [inOffs,outOffs] | offsets),
         "maps": [ {"error":cls} | null | [text, value, [start,end,old,new]] , ... ]}
-/

private def tbStr (j : Json) : Except String Str := do
  let s ← j.getStr?
  pure s.toList

private def tbPatch (j : Json) : Except String Patch := do
  let a ← j.getArr?
  if h : a.size = 4 then
    let s ← a[0].getInt?
    let e ← a[1].getInt?
    let o ← tbStr a[2]
    let n ← tbStr a[3]
    pure ⟨s, e, o, n⟩
  else throw "bad patch"

private partial def tbTree (j : Json) : Except String Builder := do
  let k ← j.getObjValAs? String "k"
  match k with
  | "text" =>
    let s ← tbStr (← j.getObjVal? "s")
    let v ← j.getObjValAs? Nat "v"
    pure (.text s v)
  | "raw" =>
    let s ← tbStr (← j.getObjVal? "s")
    let b ← j.getObjValAs? Bool "bytes"
    pure (.raw s b)
  | "repl" =>
    let inner ← tbTree (← j.getObjVal? "in")
    let ps ← (← j.getObjValAs? (Array Json) "ps").toList.mapM tbPatch
    pure (.replacer inner ps)
  | "comb" =>
    let parts ← (← j.getObjValAs? (Array Json) "parts").toList.mapM tbTree
    pure (.combiner parts)
  | _ => throw s!"bad node kind {k}"

private def errName : Err → String
  | .valueError => "ValueError"
  | .assertionError => "AssertionError"
  | .attributeError => "AttributeError"
  | .indexError => "IndexError"

private def errJson (e : Err) : Json := Json.mkObj [("error", Json.str (errName e))]

private def strJson (s : Str) : Json := Json.str (String.ofList s)

private def patchJson (p : Patch) : Json :=
  Json.arr #[toJson p.start, toJson p.end_, strJson p.oldText, strJson p.newText]

/-- Offset tables of every node, pre-order (only called when construction succeeded). -/
private partial def tbTables : Builder → List Json
  | .text _ _ => [Json.null]
  | .raw _ _ => [Json.null]
  | .replacer inner ps =>
    let me := match getText inner with
      | .ok t => match replacerBuild t ps with
        | .ok tb => Json.arr #[toJson tb.inOffs, toJson tb.outOffs]
        | .error e => errJson e
      | .error e => errJson e
    me :: tbTables inner
  | .combiner parts =>
    let me := match getTexts parts with
      | .ok ts => toJson (combOffsets 0 ts)
      | .error e => errJson e
    me :: (parts.map tbTables).flatten

def handleTextbuilder (j : Json) : Except String Json := do
  let tree ← tbTree (← j.getObjVal? "tree")
  match tree with
  | .raw _ _ => throw "root must be a Builder"
  | _ => pure ()
  let ps ← (← j.getObjValAs? (Array Json) "patches").toList.mapM tbPatch
  match getText tree with
  | .error e => pure <| Json.mkObj [("text", errJson e)]
  | .ok t =>
    let maps := ps.map (fun p => match buildAndMapBack tree p with
      | .error e => errJson e
      | .ok none => Json.null
      | .ok (some (s, v, q)) => Json.arr #[strJson s, toJson v, patchJson q])
    let offs : List Int := match j.getObjValAs? (Array Int) "offsets" with
      | .ok a => a.toList
      | .error _ => []
    let offRes := offs.map (fun x => match mapBackOffset tree x with
      | .error e => errJson e
      | .ok v => toJson v)
    pure <| Json.mkObj [("text", strJson t), ("tables", Json.arr (tbTables tree).toArray),
                        ("maps", Json.arr maps.toArray), ("offs", Json.arr offRes.toArray)]

end Grist.Driver
