import Lean.Data.Json
import GristModel.Codebuilder
open Lean

namespace Grist.Driver
open Grist.Textbuilder Grist.Codebuilder

/-
op: {"m":"codebuilder","formula":str,"assoc":nat,"indent":str,"patches":[[start,end,old,new],...],
     "facts":{"reprDefault":str,
              "parse1":{"error":E} | {"ok":{"names":[int],"lazy":[[s,e]],"last":["none"]|["expr",pos]|["other",hasReturn,isAssign],"ml":bool}},
              "parse2":"ok" | {"error":E},  "lineReprs":[str],  "parse3":{"ok":[[s,e]]} | "error"}}
   E = {"type":str,"msg":str (repr of the message),"lineno":int|null,"offset":int|null}
answer: {"text": str | {"error":cls}, "tmp": str | null (the text handed to the first parse),
         "maps":[ {"error":cls} | null | [text, value, [start,end,old,new]] ]}
-/

private def cbStr (j : Json) : Except String Str := do
  let s ← j.getStr?
  pure s.toList

private def cbPatch (j : Json) : Except String Patch := do
  let a ← j.getArr?
  if h : a.size = 4 then
    pure ⟨← a[0].getInt?, ← a[1].getInt?, ← cbStr a[2], ← cbStr a[3]⟩
  else throw "bad patch"

private def cbOptInt (j : Json) : Except String (Option Int) :=
  if j.isNull then pure none else do pure (some (← j.getInt?))

private def cbErr (j : Json) : Except String SynErr := do
  pure ⟨← cbStr (← j.getObjVal? "type"), ← cbStr (← j.getObjVal? "msg"),
        ← cbOptInt (← j.getObjVal? "lineno"), ← cbOptInt (← j.getObjVal? "offset")⟩

private def cbPair (j : Json) : Except String (Int × Int) := do
  let a ← j.getArr?
  if h : a.size = 2 then pure (← a[0].getInt?, ← a[1].getInt?) else throw "bad pair"

private def cbLast (j : Json) : Except String LastStmt := do
  let a ← j.getArr?
  if h : 0 < a.size then
    match ← a[0].getStr? with
    | "none" => pure .none
    | "expr" => if h2 : 1 < a.size then pure (.expr (← a[1].getInt?)) else throw "bad last"
    | "other" =>
      if h2 : 2 < a.size then pure (.other (← a[1].getBool?) (← a[2].getBool?)) else throw "bad last"
    | _ => throw "bad last"
  else throw "bad last"

private def cbFacts (j : Json) : Except String Facts := do
  let rd ← cbStr (← j.getObjVal? "reprDefault")
  let p1j ← j.getObjVal? "parse1"
  let p1 ← match p1j.getObjVal? "error" with
    | .ok e => do pure (Parse1.error (← cbErr e))
    | .error _ => do
      let o ← p1j.getObjVal? "ok"
      let names ← (← o.getObjValAs? (Array Json) "names").toList.mapM (·.getInt?)
      let lz ← (← o.getObjValAs? (Array Json) "lazy").toList.mapM cbPair
      pure (Parse1.ok ⟨names, lz, ← cbLast (← o.getObjVal? "last"), ← o.getObjValAs? Bool "ml"⟩)
  let p2j ← j.getObjVal? "parse2"
  let p2 ← match p2j.getObjVal? "error" with
    | .ok e => do pure (Parse2.error (← cbErr e))
    | .error _ => pure Parse2.ok
  let lrs ← (← j.getObjValAs? (Array Json) "lineReprs").toList.mapM cbStr
  let p3j ← j.getObjVal? "parse3"
  let p3 ← match p3j.getObjVal? "ok" with
    | .ok r => do pure (Parse3.ok (← (← r.getArr?).toList.mapM cbPair))
    | .error _ => pure Parse3.error
  pure ⟨rd, p1, p2, lrs, p3⟩

private def tbErrName : Err → String
  | .valueError => "ValueError"
  | .assertionError => "AssertionError"
  | .attributeError => "AttributeError"
  | .indexError => "IndexError"

private def cErrName : CErr → String
  | .tb e => tbErrName e
  | .typeError => "TypeError"
  | .indexError => "IndexError"
  | .syntaxError => "SyntaxError"

private def cbErrJson (s : String) : Json := Json.mkObj [("error", Json.str s)]
private def cbStrJson (s : Str) : Json := Json.str (String.ofList s)

/-- The text `_do_make_formula_body` hands to the first parse (dedented, `$` → `DOLLAR`). -/
private def tmpTextOf (formula0 : Str) : Option Str :=
  if (strip formula0).isEmpty then none else
  match getText (dedent (.text formula0 1) formula0) with
  | .error _ => none
  | .ok formula =>
    match getText (.replacer (.text formula 0)
        ((dollarPositionsFrom 0 formula).map (fun (i : Nat) => (⟨(i : Int), (i : Int) + 1, ['$'], lit "DOLLAR"⟩ : Patch)))) with
    | .ok t => some t
    | .error _ => none

def handleCodebuilder (j : Json) : Except String Json := do
  let formula ← cbStr (← j.getObjVal? "formula")
  let assoc ← j.getObjValAs? Nat "assoc"
  let indent ← cbStr (← j.getObjVal? "indent")
  let facts ← cbFacts (← j.getObjVal? "facts")
  let ps ← (← j.getObjValAs? (Array Json) "patches").toList.mapM cbPatch
  let tmp := match tmpTextOf formula with | some t => cbStrJson t | none => Json.null
  match makeFormulaBody facts formula assoc indent with
  | .error e => pure <| Json.mkObj [("text", cbErrJson (cErrName e)), ("tmp", tmp)]
  | .ok b =>
    match getText b with
    | .error e => pure <| Json.mkObj [("text", cbErrJson (tbErrName e)), ("tmp", tmp)]
    | .ok t =>
      let maps := ps.map (fun p => match mapBack b p with
        | .error e => cbErrJson (tbErrName e)
        | .ok none => Json.null
        | .ok (some (s, v, q)) => Json.arr #[cbStrJson s, toJson v,
            Json.arr #[toJson q.start, toJson q.end_, cbStrJson q.oldText, cbStrJson q.newText]])
      pure <| Json.mkObj [("text", cbStrJson t), ("tmp", tmp), ("maps", Json.arr maps.toArray)]

end Grist.Driver
