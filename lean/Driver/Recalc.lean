import Lean.Data.Json
import GristModel.Recalc
open Lean
namespace Grist.Driver.Recalc
open Grist.Recalc

def vToJson : V → Json
  | .num i => toJson i
  | .circ => Json.str "circ"

def evToJson : Ev → Json
  | .write c _ => Json.arr #[Json.str "write", toJson c]
  | .eval c => Json.arr #[Json.str "eval", toJson c]
  | .circ c => Json.arr #[Json.str "circ", toJson c]

def natArr (j : Json) : Except String (List Nat) := do
  let a ← j.getArr?
  a.toList.mapM (fun x => x.getNat?)

def intArr (j : Json) : Except String (List Int) := do
  let a ← j.getArr?
  a.toList.mapM (fun x => x.getInt?)

/-- {"m":"recalc","op":"graph","n":N,"formula":[bool..],"deps":[[..]..],"konst":[..],"order":[..],
     "trace":[["eval",c]|["circ",c]..]?}  All formula cells start dirty, data cells hold `konst`. -/
def handleRecalc (j : Json) : Except String Json := do
  let n ← j.getObjValAs? Nat "n"
  let formulaL ← j.getObjValAs? (List Bool) "formula"
  let depsJ ← (← j.getObjVal? "deps").getArr?
  let depsL ← depsJ.toList.mapM natArr
  let konstL ← intArr (← j.getObjVal? "konst")
  let order ← natArr (← j.getObjVal? "order")
  let formula := fun c => formulaL.getD c false
  let deps := fun c => depsL.getD c []
  let konst := fun c => konstL.getD c 0
  let p := sumProg formula deps konst
  let st0 : State := { σ := fun c => V.num (konst c), dirty := (List.range n).filter formula }
  let (evs, fin) := schedule p n order (n + 1) st0
  let vals := (List.range n).map (fun c => vToJson (fin.σ c))
  let rc := (List.range n).map (fun c => reachesCycle p n c)
  let base := [("values", Json.arr vals.toArray), ("dirty_left", toJson fin.dirty),
               ("events", Json.arr (evs.map evToJson).toArray), ("reaches_cycle", toJson rc)]
  -- optional: validate an engine trace (order in which the engine finished cells)
  match j.getObjVal? "trace" with
  | .error _ => pure (Json.mkObj base)
  | .ok tj => do
    let ta ← tj.getArr?
    let evs' ← ta.toList.mapM (fun e => do
      let a ← e.getArr?
      let k ← (a[0]?.getD Json.null).getStr?
      let c ← (a[1]?.getD Json.null).getNat?
      if k == "eval" then pure (Ev.eval c) else if k == "circ" then pure (Ev.circ c) else throw "bad trace event")
    let res := run p n st0 evs'
    let tr := match res with
      | none => Json.mkObj [("accepted", Json.bool false)]
      | some s => Json.mkObj [("accepted", Json.bool true),
                              ("values", Json.arr ((List.range n).map (fun c => vToJson (s.σ c))).toArray),
                              ("dirty_left", toJson s.dirty)]
    pure (Json.mkObj (base ++ [("trace", tr)]))

end Grist.Driver.Recalc
