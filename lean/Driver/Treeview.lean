import Lean.Data.Json
import GristModel.Treeview
open Lean
namespace Grist.Driver

def handleTreeview (j : Json) : Except String Json := do
  let items ← j.getObjValAs? (Array Json) "items"
  let dels ← j.getObjValAs? (Array Nat) "deleted"
  let its ← items.toList.mapM (fun p => do
    let a ← p.getArr?
    if h : a.size = 2 then
      let i ← a[0].getNat?
      let n ← a[1].getNat?
      pure (Grist.Treeview.Item.mk i n)
    else throw "bad item")
  let del := fun k => dels.contains k
  let adj := Grist.Treeview.fixIndents its del
  let fin := Grist.Treeview.applyFixes its del adj
  pure <| Json.mkObj [("adj", toJson (adj.map (fun p => [p.1, p.2]))), ("final", toJson fin)]

end Grist.Driver
