import Lean.Data.Json
import GristModel.Identifiers
import Generated.Keywords
open Lean

/-
Driver for the Identifiers model (dispatch key "identifiers").
Strings travel as arrays of code points (so that lone surrogates and any other code point can be
sent; a code point that is not a Unicode scalar value is mapped to U+0000 by `Char.ofNat`, which is
— like every surrogate — outside `[a-zA-Z0-9_]`, the only thing the model asks of such a character).
Results are ASCII and travel as JSON strings.  `none` (out of fuel) is `{"error":"fuel"}`.
-/
namespace Grist.Driver.Ident
open Grist.Identifiers

def toStr (a : Array Nat) : Str := a.toList.map Char.ofNat
def outStr (s : Str) : Json := Json.str (String.ofList s)
def outOpt : Option Str → Json
  | some s => Json.mkObj [("r", outStr s)]
  | none => Json.mkObj [("error", Json.str "fuel")]

def kws : List Str := Grist.Generated.pyKeywordChars

end Grist.Driver.Ident

namespace Grist.Driver
open Grist.Identifiers Grist.Driver.Ident

def handleIdentifiers (j : Json) : Except String Json := do
  let op ← j.getObjValAs? String "op"
  match op with
  | "keywords" =>
    pure <| Json.mkObj [("strings", toJson Grist.Generated.pyKeywords),
                        ("chars", toJson (Grist.Generated.pyKeywordChars.map String.ofList))]
  | "letters" =>
    let n ← j.getObjValAs? Nat "n"
    pure <| Json.mkObj [("r", toJson ((List.range n).map (fun i => String.ofList (letters i))))]
  | _ =>
  let avoid := ((← j.getObjValAs? (Array (Array Nat)) "avoid").toList.map toStr)
  match op with
  | "table" =>
    let s ← j.getObjValAs? (Array Nat) "s"
    pure <| outOpt (pickTableIdent kws (toStr s) avoid)
  | "col" =>
    let s ← j.getObjValAs? (Array Nat) "s"
    pure <| outOpt (pickColIdent kws (toStr s) avoid)
  | "list" =>
    let l ← j.getObjValAs? (Array (Array Nat)) "l"
    match pickColIdentList kws (l.toList.map toStr) avoid with
    | some r => pure <| Json.mkObj [("r", toJson (r.map String.ofList))]
    | none => pure <| Json.mkObj [("error", Json.str "fuel")]
  | "sanitize" =>
    let s ← j.getObjValAs? (Array Nat) "s"
    let pre ← j.getObjValAs? (Array Nat) "prefix"
    let cap ← j.getObjValAs? Bool "capitalize"
    pure <| outOpt (sanitizeIdent kws (toStr s) (toStr pre) cap)
  | "add_suffix" =>
    let s ← j.getObjValAs? (Array Nat) "s"
    let n ← j.getObjValAs? Nat "next"
    pure <| outOpt (addSuffix (toStr s) avoid n)
  | "maybe_add_suffix" =>
    let s ← j.getObjValAs? (Array Nat) "s"
    pure <| outOpt (maybeAddSuffix (toStr s) avoid)
  | "gen" => pure <| outOpt (genIdent avoid)
  | _ => throw s!"unknown identifiers op {op}"

end Grist.Driver
