import Lean.Data.Json
import GristModel.Refs
open Lean

/-!
Driver for GristModel/Refs.lean (dispatch key "refs").  Cells: integer = python int, array of
integers = python list, null = None, "a" = anything else.  Kinds: "Ref" / "RefList".

ops (field "op"):
  run      {"kind","ops":[["set",r,cell]|["unset",r]|["copy",[cells]]|["clear"]]}   from a fresh column
           -> {"data":[cells],"inv":[[target,[rows sorted]],..in insertion order]}
  removed  {"kind","data":[cells],"rows":[ids]}            get_updates_for_removed_target_rows on colOf data
           -> {"updates":[[row,cell],..],"after":[cells]}
  adjust   {"kind","rkind","data":[cells],"rows":[ids],"values":[cells]}   prepare_new_values on colOf data
           -> {"adj":[[target,[rows]],..],"vals":[[target,cell],..] | {"error":cls}}
  update   {"x":{"kind","data"},"y":{"kind","data"},"rowsX","rowsY","rows","values"}  updateX
  add      {"x","y","rowsX","rowsY","rows","values"}                                   addX (BulkAddRecord)
  remove   {"x","y","rowsX","rowsY","rows"}                                            removeX
  rebuild  {"x","y","rowsX","rowsY"}                                                   rebuildY
           -> {"x":[cells],"y":[cells],"rowsX":[..],"rowsY":[..]} | {"error":cls}
errors: {"error":"KeyError"|"TypeError"|"UniqueReferenceError"|"AssertionError"}
-/
namespace Grist.Driver
open Grist.Refs

def rfKind (s : String) : Except String Kind :=
  match s with
  | "Ref" => pure .ref
  | "RefList" => pure .refList
  | _ => throw s!"bad kind {s}"

def rfCell (j : Json) : Except String Cell :=
  match j with
  | .null => pure .none
  | .str _ => pure .alt
  | .num _ => do let n ← j.getNat?; pure (.ref n)
  | .arr a => do let l ← a.toList.mapM (fun x => x.getNat?); pure (.refList l)
  | _ => throw "bad cell"

def rfCellJ : Cell → Json
  | .none => .null
  | .alt => .str "a"
  | .ref n => toJson n
  | .refList l => toJson l

def rfCells (j : Json) : Except String (List Cell) := do
  let a ← j.getArr?
  a.toList.mapM rfCell

def rfErr : Err → Json
  | .keyError => Json.mkObj [("error", "KeyError")]
  | .typeError => Json.mkObj [("error", "TypeError")]
  | .uniqueReference => Json.mkObj [("error", "UniqueReferenceError")]
  | .assertion => Json.mkObj [("error", "AssertionError")]

def rfOp (j : Json) : Except String Op := do
  let a ← j.getArr?
  let name ← (a[0]?.getD Json.null).getStr?
  match name with
  | "set" => do
    let r ← (a[1]?.getD Json.null).getNat?
    let v ← rfCell (a[2]?.getD Json.null)
    pure (.set r v)
  | "unset" => do
    let r ← (a[1]?.getD Json.null).getNat?
    pure (.unset r)
  | "copy" => do
    let d ← rfCells (a[1]?.getD Json.null)
    pure (.copyFrom d)
  | "clear" => pure .clear
  | _ => throw s!"bad op {name}"

def rfInvJ (m : Inv) : Json :=
  Json.arr (m.map (fun e => Json.arr #[toJson e.1, toJson (sortDedup e.2)])).toArray

def rfUpsJ (l : List (Nat × Cell)) : Json :=
  Json.arr (l.map (fun e => Json.arr #[toJson e.1, rfCellJ e.2])).toArray

def rfCol (j : Json) : Except String Col := do
  let k ← rfKind (← j.getObjValAs? String "kind")
  let d ← rfCells (← j.getObjVal? "data")
  pure (colOf k d)

def rfPair (j : Json) : Except String Pair := do
  let x ← rfCol (← j.getObjVal? "x")
  let y ← rfCol (← j.getObjVal? "y")
  let rx ← j.getObjValAs? (List Nat) "rowsX"
  let ry ← j.getObjValAs? (List Nat) "rowsY"
  pure { x := x, y := y, rowsX := rx, rowsY := ry }

def rfPairJ (r : Except Err Pair) : Json :=
  match r with
  | .error e => rfErr e
  | .ok p => Json.mkObj [
      ("x", toJson (p.x.data.map rfCellJ)), ("y", toJson (p.y.data.map rfCellJ)),
      ("rowsX", toJson p.rowsX), ("rowsY", toJson p.rowsY),
      ("invX", rfInvJ p.x.inv), ("invY", rfInvJ p.y.inv)]

def handleRefs (j : Json) : Except String Json := do
  let op ← j.getObjValAs? String "op"
  match op with
  | "run" => do
    let k ← rfKind (← j.getObjValAs? String "kind")
    let opsJ ← j.getObjValAs? (Array Json) "ops"
    let ops ← opsJ.toList.mapM rfOp
    match run (newCol k) ops with
    | .error e => pure (rfErr e)
    | .ok c => pure <| Json.mkObj [("data", toJson (c.data.map rfCellJ)), ("inv", rfInvJ c.inv)]
  | "removed" => do
    let c ← rfCol j
    let rows ← j.getObjValAs? (List Nat) "rows"
    match updatesForRemovedTargets c rows with
    | .error e => pure (rfErr e)
    | .ok ups =>
      match applyCells c ups with
      | .error e => pure (rfErr e)
      | .ok c' => pure <| Json.mkObj [("updates", rfUpsJ ups), ("after", toJson (c'.data.map rfCellJ))]
  | "adjust" => do
    let c ← rfCol j
    let rk ← rfKind (← j.getObjValAs? String "rkind")
    let rows ← j.getObjValAs? (List Nat) "rows"
    let vals ← rfCells (← j.getObjVal? "values")
    let adj := reverseAdjustments c.kind c.inv rows (rows.map (rawGet c)) vals
    let adjJ := Json.arr (adj.map (fun e => Json.arr #[toJson e.1, toJson e.2])).toArray
    pure <| Json.mkObj [("adj", adjJ),
      ("vals", match toValues rk adj with
        | .ok vs => rfUpsJ vs
        | .error e => rfErr e)]
  | "update" => do
    let p ← rfPair j
    let rows ← j.getObjValAs? (List Nat) "rows"
    let vals ← rfCells (← j.getObjVal? "values")
    pure (rfPairJ (updateX p rows vals))
  | "add" => do
    let p ← rfPair j
    let rows ← j.getObjValAs? (List Nat) "rows"
    let vals ← rfCells (← j.getObjVal? "values")
    pure (rfPairJ (addX p rows vals))
  | "remove" => do
    let p ← rfPair j
    let rows ← j.getObjValAs? (List Nat) "rows"
    pure (rfPairJ (removeX p rows))
  | "rebuild" => do
    let p ← rfPair j
    pure (rfPairJ (rebuildY p))
  | _ => throw s!"unknown refs op {op}"

end Grist.Driver
