import GristModel.Treeview
