import GristModel.Treeview
import GristModel.Doc
import GristModel.Engine
import GristModel.DocSpec
import GristModel.Identifiers
import GristModel.Schedule
import GristModel.SortedFind
