/-
Recalc: a program satisfying `Respects` and `Strict` for which a circ-marked cell is NOT a fixpoint
of its formula in the final quiescent state (`Respects` does not fix the ORDER of reads, so the
first dirty read need not be the read that decides what else is read).
-/
import GristProofs.RecalcBase
namespace Grist.Recalc

/-- cells: `0` reads `2`, and `1` too when `σ 2 = 0` (listed first); `1 = $0`; `2 = $3`; `3` data -/
def cexProg : Prog where
  formula := fun c => decide (c < 3)
  deps := fun c => match c with | 0 => [1, 2] | 1 => [0] | 2 => [3] | _ => []
  reads := fun c σ => match c with
    | 0 => if σ 2 = .num 0 then [1, 2] else [2]
    | 1 => [0]
    | 2 => [3]
    | _ => []
  f := fun c σ => match c with
    | 0 => if σ 2 = .num 0 then σ 1 else if σ 2 = .circ then .circ else .num 7
    | 1 => σ 0
    | 2 => σ 3
    | _ => .num 0

theorem cexProg_respects : cexProg.Respects := by
  constructor
  · intro c σ d hd
    match c with
    | 0 =>
      simp only [cexProg] at hd ⊢
      split at hd <;> simp_all
    | 1 => exact hd
    | 2 => exact hd
    | _ + 3 => simp [cexProg] at hd
  · intro c σ σ' h
    match c with
    | 0 =>
      simp only [cexProg] at h ⊢
      by_cases h2 : σ 2 = .num 0
      · simp only [h2, ↓reduceIte, List.mem_cons, List.not_mem_nil, or_false, forall_eq_or_imp,
          forall_eq] at h
        simp [h2, ← h.2, ← h.1]
      · simp only [h2, ↓reduceIte, List.mem_singleton, forall_eq] at h
        simp [h2, ← h]
    | 1 => simp only [cexProg, List.mem_singleton, forall_eq] at h ⊢; simp [h]
    | 2 => simp only [cexProg, List.mem_singleton, forall_eq] at h ⊢; simp [h]
    | _ + 3 => simp [cexProg]

theorem cexProg_strict : cexProg.Strict := by
  intro c σ h
  match c with
  | 0 =>
    simp only [cexProg] at h ⊢
    by_cases h2 : σ 2 = .num 0
    · simp only [h2, ↓reduceIte, List.mem_cons, List.not_mem_nil, or_false, exists_eq_or_imp,
        exists_eq_left, reduceCtorEq] at h
      simp [h2, h]
    · simp only [h2, ↓reduceIte, List.mem_singleton, exists_eq_left] at h
      simp [h]
  | 1 => simpa [cexProg] using h
  | 2 => simpa [cexProg] using h
  | _ + 3 => simp [cexProg] at h

def cexSt : State := { σ := fun c => if c = 3 then .num 5 else .num 0, dirty := [0, 1, 2] }

end Grist.Recalc
