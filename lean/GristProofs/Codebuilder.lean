/-
Proof development for C19 (codebuilder on top of textbuilder).
-/
import GristModel.Codebuilder
import GristProofs.Textbuilder
namespace Grist.Codebuilder
open Grist.Textbuilder

/-! ## Specification vocabulary -/

/-- Lines joined with '\n' (inverse of `splitNl`). -/
def joinNl : List Str → Str
  | [] => []
  | [l] => l
  | l :: l2 :: ls => l ++ '\n' :: joinNl (l2 :: ls)

/-- A line "contains a non-whitespace character" (`(?=.*\S)`). -/
def nonBlank (l : Str) : Bool := l.any (fun c => !pyIsSpace c)

/-- What `_indent` is documented to do with one line. -/
def indentLine (indent l : Str) : Str := if nonBlank l then indent ++ l else l

/-- Python's physical lines: the text split at '\n', '\r\n' and lone '\r' (what the tokenizer
    treats as line ends).  `afterCR`: the previous character was a '\r' (which already closed its
    line, so a '\n' right after it does not start another one). -/
def physLinesGo : Bool → Str → List Str
  | _, [] => [[]]
  | afterCR, c :: cs =>
    if c = '\n' then (if afterCR then physLinesGo false cs else [] :: physLinesGo false cs)
    else if c = '\r' then [] :: physLinesGo true cs
    else
      match physLinesGo false cs with
      | l :: ls => (c :: l) :: ls
      | [] => [[c]]

def physLines (s : Str) : List Str := physLinesGo false s

/-! ## splitNl / joinNl -/

theorem splitNl_ne_nil : ∀ (s : Str), splitNl s ≠ [] := by
  intro s
  cases s with
  | nil => simp [splitNl]
  | cons c cs =>
    simp only [splitNl]
    split
    · simp
    · split <;> simp

theorem joinNl_cons_ne (l : Str) (ls : List Str) (h : ls ≠ []) :
    joinNl (l :: ls) = l ++ '\n' :: joinNl ls := by
  cases ls with
  | nil => exact absurd rfl h
  | cons a b => rfl

theorem joinNl_splitNl : ∀ (s : Str), joinNl (splitNl s) = s := by
  intro s
  induction s with
  | nil => rfl
  | cons c cs ih =>
    simp only [splitNl]
    have hne := splitNl_ne_nil cs
    cases h : splitNl cs with
    | nil => exact absurd h hne
    | cons l ls =>
      rw [h] at ih
      simp only
      by_cases hc : c = '\n'
      · simp only [hc, if_true]
        rw [joinNl_cons_ne [] (l :: ls) (by simp), ih]
        simp
      · simp only [hc, if_false]
        cases ls with
        | nil => simp only [joinNl] at ih ⊢; rw [ih]
        | cons a b =>
          simp only [joinNl] at ih ⊢
          rw [← ih]; simp

theorem splitNl_no_nl : ∀ (s : Str), ∀ l ∈ splitNl s, '\n' ∉ l := by
  intro s
  induction s with
  | nil => intro l hl; simp [splitNl] at hl; simp [hl]
  | cons c cs ih =>
    intro l hl
    simp only [splitNl] at hl
    have hne := splitNl_ne_nil cs
    cases h : splitNl cs with
    | nil => exact absurd h hne
    | cons a b =>
      rw [h] at hl ih
      simp only at hl
      by_cases hc : c = '\n'
      · simp only [hc, if_true, List.mem_cons] at hl
        rcases hl with rfl | hl
        · simp
        · exact ih l (by simpa using hl)
      · simp only [hc, if_false, List.mem_cons] at hl
        rcases hl with rfl | hl
        · have := ih a (by simp)
          simp only [List.mem_cons, not_or]
          exact ⟨fun h => hc h.symm, this⟩
        · exact ih l (by simp [hl])

/-! ## `_indent` -/

theorem slice_self (t : Str) (a : Nat) : slice t a a = [] := by
  rw [slice_nat]
  apply List.drop_eq_nil_of_le
  simp; omega

/-- Copy the input up to `b` when no patch starts before `b`. -/
theorem buildFrom_skip (t : Str) (a b : Nat) (hab : a ≤ b) (ps : List Patch)
    (h : ∀ q ∈ ps, (b : Int) ≤ q.start) :
    buildFrom t a ps = slice t a b ++ buildFrom t b ps := by
  cases ps with
  | nil => simp only [buildFrom]; rw [slice_glue_from t a b hab]
  | cons q rest =>
    have hq := h q (by simp)
    obtain ⟨s, hs⟩ := Int.eq_ofNat_of_zero_le (by omega : 0 ≤ q.start)
    simp only [buildFrom, hs]
    rw [← slice_glue t a b s hab (by omega)]
    simp [List.append_assoc]

theorem linePatches_ge (indent : Str) : ∀ (lines : List Str) (off : Nat),
    ∀ q ∈ linePatches indent off lines, (off : Int) ≤ q.start ∧ q.end_ = q.start ∧ q.oldText = [] ∧
      q.newText = indent := by
  intro lines
  induction lines with
  | nil => intro off q hq; simp [linePatches] at hq
  | cons l ls ih =>
    intro off q hq
    simp only [linePatches, List.mem_append] at hq
    rcases hq with hq | hq
    · split at hq
      · simp only [List.mem_singleton] at hq; subst hq; simp
      · simp at hq
    · obtain ⟨h1, h2⟩ := ih _ q hq
      exact ⟨by omega, h2⟩

theorem linePatches_cons (indent : Str) (off : Nat) (l : Str) (ls : List Str) :
    linePatches indent off (l :: ls) =
      (if nonBlank l = true then [(⟨off, off, [], indent⟩ : Patch)] else []) ++
        linePatches indent (off + l.length + 1) ls := rfl

/-- Text produced by the Replacer loop from position `|pre|` on, for the indentation patches of the
    lines that follow `pre`. -/
theorem buildFrom_linePatches (indent : Str) : ∀ (lines : List Str) (pre : Str), lines ≠ [] →
    buildFrom (pre ++ joinNl lines) (pre.length : Nat) (linePatches indent pre.length lines)
      = joinNl (lines.map (indentLine indent)) := by
  intro lines
  induction lines with
  | nil => intro pre h; exact absurd rfl h
  | cons l ls ih =>
    intro pre _
    cases ls with
    | nil =>
      have hfrom : sliceFrom (pre ++ l) (pre.length : Nat) = l := by
        rw [sliceFrom_nat]; simp
      rw [linePatches_cons]
      simp only [joinNl, List.map, indentLine, linePatches, List.append_nil]
      by_cases hb : nonBlank l = true
      · simp only [hb, if_true, buildFrom]
        rw [slice_self, hfrom]; simp
      · have hb' : nonBlank l = false := by simpa using hb
        simp only [hb', Bool.false_eq_true, if_false, buildFrom]
        exact hfrom
    | cons l2 rest =>
      have hjoin : joinNl (l :: l2 :: rest) = l ++ '\n' :: joinNl (l2 :: rest) := rfl
      have hmap : joinNl ((l :: l2 :: rest).map (indentLine indent))
          = indentLine indent l ++ '\n' :: joinNl ((l2 :: rest).map (indentLine indent)) := rfl
      rw [hjoin, hmap]
      have ih' := ih (pre ++ l ++ ['\n']) (by simp)
      have hlen : (pre ++ l ++ ['\n']).length = pre.length + l.length + 1 := by simp; omega
      have htext : pre ++ l ++ ['\n'] ++ joinNl (l2 :: rest) = pre ++ (l ++ '\n' :: joinNl (l2 :: rest)) := by simp
      rw [hlen, htext] at ih'
      have hslice : slice (pre ++ (l ++ '\n' :: joinNl (l2 :: rest))) (pre.length : Nat) ((pre.length + l.length + 1 : Nat) : Int)
          = l ++ ['\n'] := by
        have := slice_middle pre (l ++ ['\n']) (joinNl (l2 :: rest)) 0 (l.length + 1) (by simp)
        have e1 : pre ++ (l ++ ['\n']) ++ joinNl (l2 :: rest) = pre ++ (l ++ '\n' :: joinNl (l2 :: rest)) := by simp
        rw [e1] at this
        have e2 : pre.length + 0 = pre.length := rfl
        have e3 : pre.length + (l.length + 1) = pre.length + l.length + 1 := by omega
        rw [e2, e3] at this
        rw [this, slice_nat, List.take_of_length_le (by simp)]; simp
      have hskip := buildFrom_skip (pre ++ (l ++ '\n' :: joinNl (l2 :: rest))) pre.length (pre.length + l.length + 1)
        (by omega) (linePatches indent (pre.length + l.length + 1) (l2 :: rest))
        (fun q hq => (linePatches_ge indent _ _ q hq).1)
      rw [linePatches_cons]
      simp only [indentLine]
      by_cases hb : nonBlank l = true
      · simp only [hb, if_true, List.singleton_append, buildFrom]
        rw [slice_self, hskip, hslice, ih']
        simp [List.append_assoc]
      · have hb' : nonBlank l = false := by simpa using hb
        simp only [hb', Bool.false_eq_true, if_false, List.nil_append]
        rw [hskip, hslice, ih']
        simp [List.append_assoc]

theorem linePatches_sorted (indent : Str) : ∀ (lines : List Str) (off : Nat),
    (linePatches indent off lines).Pairwise (fun p q => p.start < q.start) := by
  intro lines
  induction lines with
  | nil => intro off; simp [linePatches]
  | cons l ls ih =>
    intro off
    simp only [linePatches]
    apply List.pairwise_append.mpr
    refine ⟨?_, ih _, ?_⟩
    · split <;> simp
    · intro p hp q hq
      split at hp
      · simp only [List.mem_singleton] at hp; subst hp
        have := (linePatches_ge indent ls _ q hq).1
        simp only; omega
      · simp at hp

theorem le_of_start_lt (p q : Patch) (h : p.start < q.start) : Patch.le p q = true :=
  (Patch.le_iff p q).mpr (Or.inl h)

/-- **`_indent` builds, and its text is the per-line indentation.** -/
theorem indent_text (text indent : Str) :
    replacerBuild text (indentPatches text indent) = .ok (tablesOf text (indentPatches text indent)) ∧
    (tablesOf text (indentPatches text indent)).outText
      = joinNl ((splitNl text).map (indentLine indent)) := by
  have hsorted : sortPatches (indentPatches text indent) = indentPatches text indent :=
    sortPatches_of_sorted _ ((linePatches_sorted indent _ 0).imp (fun {p q} h => le_of_start_lt p q h))
  have hvalid : ∀ p ∈ indentPatches text indent, slice text p.start p.end_ = p.oldText := by
    intro p hp
    obtain ⟨h0, h1, h2, _⟩ := linePatches_ge indent _ 0 p hp
    obtain ⟨s, hs⟩ := Int.eq_ofNat_of_zero_le (by omega : 0 ≤ p.start)
    rw [h1, h2, hs, slice_self]
  refine ⟨by rw [replacerBuild_ok text _ hvalid, hsorted], ?_⟩
  unfold tablesOf
  simp only
  rw [rLoop_out]
  have h := buildFrom_linePatches indent (splitNl text) [] (splitNl_ne_nil text)
  simp only [List.nil_append, List.length_nil, joinNl_splitNl] at h
  simpa [RState.init, indentPatches] using h

/-! ## Physical lines and the comment stub -/

/-- No line terminator (of Python's tokenizer) occurs in the text. -/
def NoTerm (s : Str) : Prop := ∀ c ∈ s, c ≠ '\n' ∧ c ≠ '\r'

/-- The line starts with "# ". -/
def StartsHash (l : Str) : Prop := ∃ t, l = '#' :: ' ' :: t

theorem physLinesGo_ne_nil : ∀ (s : Str) (b : Bool), physLinesGo b s ≠ [] := by
  intro s
  induction s with
  | nil => intro b; simp [physLinesGo]
  | cons c cs ih =>
    intro b
    simp only [physLinesGo]
    split
    · split
      · exact ih false
      · simp
    · split
      · simp
      · split <;> simp

theorem physLinesGo_plain (b : Bool) (c : Char) (hn : c ≠ '\n') (hr : c ≠ '\r') (X f : Str) (r : List Str)
    (h : physLinesGo false X = f :: r) : physLinesGo b (c :: X) = (c :: f) :: r := by
  simp only [physLinesGo, hn, hr, if_false, h]

theorem physLinesGo_noTerm : ∀ (T : Str), NoTerm T → ∀ b, physLinesGo b T = [T] := by
  intro T
  induction T with
  | nil => intro _ b; simp [physLinesGo]
  | cons c cs ih =>
    intro h b
    have hc := h c (by simp)
    have := ih (fun x hx => h x (by simp [hx])) false
    exact physLinesGo_plain b c hc.1 hc.2 cs cs [] this

theorem physLinesGo_nl_false (X : Str) : physLinesGo false ('\n' :: X) = [] :: physLinesGo false X := by
  simp [physLinesGo]
theorem physLinesGo_nl_true (X : Str) : physLinesGo true ('\n' :: X) = physLinesGo false X := by
  simp [physLinesGo]
theorem physLinesGo_cr (b : Bool) (X : Str) : physLinesGo b ('\r' :: X) = [] :: physLinesGo true X := by
  simp [physLinesGo]
theorem commentizeGo_nl (cs : Str) : commentizeGo ('\n' :: cs) = '\n' :: '#' :: ' ' :: commentizeGo cs := by
  simp [commentizeGo]
theorem commentizeGo_crnl (ds : Str) : commentizeGo ('\r' :: '\n' :: ds) = '\r' :: commentizeGo ('\n' :: ds) := by
  simp [commentizeGo]
theorem commentizeGo_cr_nil : commentizeGo ['\r'] = ['\r', '#', ' '] := by
  simp [commentizeGo]
theorem commentizeGo_cr_other (d : Char) (ds : Str) (hd : d ≠ '\n') :
    commentizeGo ('\r' :: d :: ds) = '\r' :: '#' :: ' ' :: commentizeGo (d :: ds) := by
  rw [commentizeGo]
  case x_2 => intro tail h; cases h; exact hd rfl
  simp
theorem commentizeGo_plain (c : Char) (cs : Str) (hn : c ≠ '\n') (hr : c ≠ '\r') :
    commentizeGo (c :: cs) = c :: commentizeGo cs := by
  simp [commentizeGo, hn, hr]

/-- Lines of the commented text: the first one continues the current line, all later ones start
    with "# ". -/
theorem commentizeGo_lines : ∀ (s : Str), ∃ f r, physLinesGo false (commentizeGo s) = f :: r ∧
    ∀ l ∈ r, StartsHash l := by
  intro s
  induction s with
  | nil => exact ⟨[], [], by simp [commentizeGo, physLinesGo], by simp⟩
  | cons c cs ih =>
    obtain ⟨f, r, hfr, hr⟩ := ih
    have hhash : ∀ (b : Bool), physLinesGo b ('#' :: ' ' :: commentizeGo cs) = ('#' :: ' ' :: f) :: r := by
      intro b
      have h1 := physLinesGo_plain false ' ' (by decide) (by decide) _ f r hfr
      exact physLinesGo_plain b '#' (by decide) (by decide) _ _ r h1
    have hmem : ∀ l ∈ ('#' :: ' ' :: f) :: r, StartsHash l := by
      intro l hl
      rcases List.mem_cons.mp hl with rfl | hl
      · exact ⟨f, rfl⟩
      · exact hr l hl
    by_cases hn : c = '\n'
    · subst hn
      exact ⟨[], ('#' :: ' ' :: f) :: r, by rw [commentizeGo_nl, physLinesGo_nl_false, hhash false], hmem⟩
    · by_cases hcr : c = '\r'
      · subst hcr
        cases cs with
        | nil =>
          refine ⟨[], [['#', ' ']], ?_, ?_⟩
          · rw [commentizeGo_cr_nil, physLinesGo_cr]
            have : physLinesGo true ['#', ' '] = [['#', ' ']] :=
              physLinesGo_noTerm _ (by intro x hx; simp at hx; rcases hx with rfl | rfl <;> decide) true
            rw [this]
          · intro l hl; simp at hl; exact ⟨[], hl⟩
        | cons d ds =>
          by_cases hd : d = '\n'
          · subst hd
            rw [commentizeGo_nl, physLinesGo_nl_false] at hfr
            refine ⟨[], r, ?_, hr⟩
            rw [commentizeGo_crnl, commentizeGo_nl, physLinesGo_cr, physLinesGo_nl_true]
            have := List.cons.inj hfr
            rw [this.2]
          · exact ⟨[], ('#' :: ' ' :: f) :: r,
              by rw [commentizeGo_cr_other d ds hd, physLinesGo_cr, hhash true], hmem⟩
      · exact ⟨c :: f, r, by rw [commentizeGo_plain c cs hn hcr]; exact physLinesGo_plain false c hn hcr _ f r hfr, hr⟩

/-- **Every physical line of the commented text starts with "# "** — for ANY text. -/
theorem commentize_lines (s : Str) : ∀ l ∈ physLines (commentize s), StartsHash l := by
  obtain ⟨f, r, hfr, hr⟩ := commentizeGo_lines s
  have h1 := physLinesGo_plain false ' ' (by decide) (by decide) _ f r hfr
  have h2 := physLinesGo_plain false '#' (by decide) (by decide) _ _ r h1
  intro l hl
  unfold physLines commentize at hl
  rw [h2] at hl
  rcases List.mem_cons.mp hl with rfl | hl
  · exact ⟨f, rfl⟩
  · exact hr l hl

/-- Appending "\n" + a terminator-free last line: the earlier lines are lines of the first part. -/
theorem physLinesGo_append_line (T : Str) (hT : NoTerm T) : ∀ (A : Str) (b : Bool),
    ∃ ls, physLinesGo b (A ++ '\n' :: T) = ls ++ [T] ∧ ls <+: physLinesGo b A ∧ (b = false → ls ≠ []) := by
  intro A
  induction A with
  | nil =>
    intro b
    have hT' := physLinesGo_noTerm T hT false
    cases b with
    | true => exact ⟨[], by rw [List.nil_append, physLinesGo_nl_true, hT']; rfl, by simp, by simp⟩
    | false =>
      exact ⟨[[]], by rw [List.nil_append, physLinesGo_nl_false, hT']; rfl, by simp [physLinesGo], by simp⟩
  | cons c cs ih =>
    intro b
    by_cases hn : c = '\n'
    · subst hn
      cases b with
      | true =>
        obtain ⟨ls, h1, h2, h3⟩ := ih false
        exact ⟨ls, by rw [List.cons_append, physLinesGo_nl_true, h1], by rw [physLinesGo_nl_true]; exact h2, by simp⟩
      | false =>
        obtain ⟨ls, h1, h2, _⟩ := ih false
        refine ⟨[] :: ls, by rw [List.cons_append, physLinesGo_nl_false, h1]; rfl, ?_, by simp⟩
        rw [physLinesGo_nl_false]
        exact List.cons_prefix_cons.mpr ⟨rfl, h2⟩
    · by_cases hcr : c = '\r'
      · subst hcr
        obtain ⟨ls, h1, h2, _⟩ := ih true
        refine ⟨[] :: ls, by rw [List.cons_append, physLinesGo_cr, h1]; rfl, ?_, by simp⟩
        rw [physLinesGo_cr]
        exact List.cons_prefix_cons.mpr ⟨rfl, h2⟩
      · obtain ⟨ls, h1, h2, h3⟩ := ih false
        have hne := h3 rfl
        cases ls with
        | nil => exact absurd rfl hne
        | cons l0 ls' =>
          obtain ⟨t, ht⟩ := h2
          have hcs : physLinesGo false cs = l0 :: (ls' ++ t) := by rw [← ht]; simp
          refine ⟨(c :: l0) :: ls', ?_, ?_, by simp⟩
          · have hx : physLinesGo false (cs ++ '\n' :: T) = l0 :: (ls' ++ [T]) := by rw [h1]; simp
            rw [List.cons_append, physLinesGo_plain b c hn hcr (cs ++ '\n' :: T) l0 (ls' ++ [T]) hx]
            simp
          · rw [physLinesGo_plain b c hn hcr cs l0 (ls' ++ t) hcs]
            exact ⟨t, by simp⟩

/-! ## Decimal rendering has no line terminators -/

theorem isDigit_noTerm (c : Char) (h : c.isDigit = true) : c ≠ '\n' ∧ c ≠ '\r' := by
  constructor <;> (intro hc; subst hc; revert h; decide)

theorem digitsGo_chars : ∀ (fuel n : Nat) (acc : Str), ∀ c ∈ digitsGo fuel n acc, c ∈ acc ∨ c.isDigit = true := by
  intro fuel
  induction fuel with
  | zero => intro n acc c hc; exact Or.inl hc
  | succ f ih =>
    intro n acc c hc
    simp only [digitsGo] at hc
    have hd : ((n % 10).digitChar).isDigit = true := by
      rw [Nat.isDigit_digitChar]; simp; omega
    split at hc
    · rcases List.mem_cons.mp hc with rfl | h
      · exact Or.inr hd
      · exact Or.inl h
    · rcases ih _ _ c hc with h | h
      · rcases List.mem_cons.mp h with rfl | h'
        · exact Or.inr hd
        · exact Or.inl h'
      · exact Or.inr h

theorem intRepr_noTerm (i : Int) : NoTerm (intRepr i) := by
  intro c hc
  unfold intRepr natRepr at hc
  split at hc
  · rcases List.mem_cons.mp hc with rfl | h
    · decide
    · rcases digitsGo_chars _ _ [] c h with h' | h'
      · cases h'
      · exact isDigit_noTerm c h'
  · rcases digitsGo_chars _ _ [] c hc with h' | h'
    · cases h'
    · exact isDigit_noTerm c h'

theorem NoTerm_append {a b : Str} (ha : NoTerm a) (hb : NoTerm b) : NoTerm (a ++ b) := by
  intro c hc
  rcases List.mem_append.mp hc with h | h
  · exact ha c h
  · exact hb c h

/-! ## The syntax-error stub -/

/-- The `raise` statement of the stub. -/
def raiseLine (err : SynErr) (line col : Int) (lineRepr : Str) : Str :=
  lit "raise " ++ err.typeName ++ lit "(" ++ err.reprMessage ++
    lit ", ('usercode', " ++ intRepr line ++ lit ", " ++ intRepr col ++ lit ", " ++ lineRepr ++ lit "))"

theorem createSyntaxErrorCode_shape (mapOff : Int → Except CErr Int) (bt input : Str) (lr : List Str)
    (err : SynErr) (code : Str) (h : createSyntaxErrorCode mapOff bt input lr err = .ok code) :
    ∃ line col lineRepr, lineRepr ∈ lr ∧
      code = commentize (rstrip input) ++ '\n' :: raiseLine err line col lineRepr := by
  unfold createSyntaxErrorCode at h
  cases hl : err.lineno with
  | none => simp only [hl] at h; cases h
  | some lineno =>
    simp only [hl] at h
    cases hm : mapOff (lineToOffset bt lineno (errCol err)) with
    | error e => simp only [hm] at h; cases h
    | ok inputOffset =>
      simp only [hm] at h
      cases hg : lr[((offsetToLine input inputOffset).1 - 1).toNat]? with
      | none => simp only [hg] at h; cases h
      | some lineRepr =>
        simp only [hg] at h
        refine ⟨(offsetToLine input inputOffset).1, (offsetToLine input inputOffset).2 + 1, lineRepr,
          List.mem_of_getElem? hg, ?_⟩
        cases h
        have e : lit "\nraise " = '\n' :: lit "raise " := by decide
        simp only [raiseLine, e, List.append_assoc, List.cons_append]

/-- **The stub is comment lines plus one `raise` statement** — for ANY formula text: every physical
    line (split at '\n', '\r\n' and lone '\r') of the generated stub except the last starts with
    "# "; the last one is the `raise` statement.  Hypothesis: the class name and the `repr`s handed
    in by Python contain no line terminators (repr escapes them). -/
theorem stub_lines (mapOff : Int → Except CErr Int) (bt input : Str) (lr : List Str)
    (err : SynErr) (code : Str) (h : createSyntaxErrorCode mapOff bt input lr err = .ok code)
    (h1 : NoTerm err.typeName) (h2 : NoTerm err.reprMessage) (h3 : ∀ r ∈ lr, NoTerm r) :
    ∃ ls last, physLines code = ls ++ [last] ∧ (∀ l ∈ ls, StartsHash l) ∧ lit "raise " <+: last ∧ ls ≠ [] := by
  obtain ⟨line, col, lineRepr, hmem, hcode⟩ := createSyntaxErrorCode_shape mapOff bt input lr err code h
  have hT : NoTerm (raiseLine err line col lineRepr) := by
    unfold raiseLine
    have l1 : NoTerm (lit "raise ") := by unfold NoTerm lit; decide
    have l2 : NoTerm (lit "(") := by unfold NoTerm lit; decide
    have l3 : NoTerm (lit ", ('usercode', ") := by unfold NoTerm lit; decide
    have l4 : NoTerm (lit ", ") := by unfold NoTerm lit; decide
    have l5 : NoTerm (lit "))") := by unfold NoTerm lit; decide
    exact NoTerm_append (NoTerm_append (NoTerm_append (NoTerm_append (NoTerm_append (NoTerm_append
      (NoTerm_append (NoTerm_append (NoTerm_append (NoTerm_append l1 h1) l2) h2) l3) (intRepr_noTerm _)) l4)
      (intRepr_noTerm _)) l4) (h3 _ hmem)) l5
  obtain ⟨ls, e1, e2, e3⟩ := physLinesGo_append_line _ hT (commentize (rstrip input)) false
  refine ⟨ls, raiseLine err line col lineRepr, by rw [hcode]; exact e1, ?_, ?_, e3 rfl⟩
  · intro l hl
    exact commentize_lines (rstrip input) l (e2.subset hl)
  · unfold raiseLine
    simp only [List.append_assoc]
    exact List.prefix_append _ _

/-- The stub is produced whenever the error carries a line number and the reported line exists. -/
theorem createSyntaxErrorCode_ok (mapOff : Int → Except CErr Int) (bt input : Str) (lr : List Str)
    (err : SynErr) (lineno : Int) (hl : err.lineno = some lineno) (off : Int)
    (hoff : mapOff (lineToOffset bt lineno (errCol err)) = .ok off)
    (hidx : ((offsetToLine input off).1 - 1).toNat < lr.length) :
    ∃ code, createSyntaxErrorCode mapOff bt input lr err = .ok code := by
  unfold createSyntaxErrorCode
  simp only [hl, hoff, List.getElem?_eq_getElem hidx]
  exact ⟨_, rfl⟩

theorem createSyntaxErrorCode_no_lineno (mapOff : Int → Except CErr Int) (bt input : Str) (lr : List Str)
    (err : SynErr) (hl : err.lineno = none) :
    createSyntaxErrorCode mapOff bt input lr err = .error .typeError := by
  unfold createSyntaxErrorCode
  simp only [hl]

/-! ## The documented edits of a valid formula -/

/-- The only kinds of patches `_do_make_formula_body` applies to the (dedented) formula. -/
inductive Documented (formula : Str) : Patch → Prop
  | dollar (i : Int) : dollarMatchAt formula i = true →
      Documented formula (patchAt formula i (i + 1) (lit "rec."))
  | lazyOpen (i : Int) : Documented formula (patchAt formula i i (lit "lambda: ("))
  | lazyClose (i : Int) : Documented formula (patchAt formula i i (lit ")"))
  | ret (i : Int) : Documented formula (patchAt formula i i (lit "return "))
  | pass : Documented formula (patchAt formula formula.length formula.length (lit "\npass"))

theorem dollarPatches_documented (tmpOff : Int → Except CErr Int) (formula : Str) :
    ∀ (names : List Int) (ps : List Patch), dollarPatches tmpOff formula names = .ok ps →
      ∀ q ∈ ps, Documented formula q := by
  intro names
  induction names with
  | nil => intro ps h q hq; simp only [dollarPatches] at h; cases h; cases hq
  | cons n rest ih =>
    intro ps h q hq
    simp only [dollarPatches] at h
    cases ho : tmpOff n with
    | error e => simp only [ho] at h; cases h
    | ok inputPos =>
      simp only [ho] at h
      cases hr : dollarPatches tmpOff formula rest with
      | error e => simp only [hr] at h; cases h
      | ok ps' =>
        simp only [hr] at h
        by_cases hm : dollarMatchAt formula inputPos = true
        · simp only [hm, if_true] at h
          cases h
          rcases List.mem_cons.mp hq with rfl | hq'
          · exact Documented.dollar inputPos hm
          · exact ih ps' hr q hq'
        · have hm' : dollarMatchAt formula inputPos = false := by simpa using hm
          simp only [hm', Bool.false_eq_true, if_false] at h
          cases h
          exact ih _ hr q hq

theorem lazyPatches_documented (tmpOff : Int → Except CErr Int) (formula : Str) :
    ∀ (args : List (Int × Int)) (ps : List Patch), lazyPatches tmpOff formula args = .ok ps →
      ∀ q ∈ ps, Documented formula q := by
  intro args
  induction args with
  | nil => intro ps h q hq; simp only [lazyPatches] at h; cases h; cases hq
  | cons a rest ih =>
    intro ps h q hq
    obtain ⟨s, e⟩ := a
    simp only [lazyPatches] at h
    cases hs : tmpOff s with
    | error er => simp only [hs] at h; cases h
    | ok start =>
      simp only [hs] at h
      cases he : tmpOff e with
      | error er => simp only [he] at h; cases h
      | ok end_ =>
        simp only [he] at h
        cases hr : lazyPatches tmpOff formula rest with
        | error er => simp only [hr] at h; cases h
        | ok ps' =>
          simp only [hr] at h
          cases h
          rcases List.mem_cons.mp hq with rfl | hq'
          · exact Documented.lazyOpen start
          · rcases List.mem_cons.mp hq' with rfl | hq''
            · exact Documented.lazyClose end_
            · exact ih ps' hr q hq''

/-- What `_do_make_formula_body` can return. -/
inductive BodyShape (facts : Facts) (f : Str) (assoc : Nat) : Body → Prop
  | blank : (strip f).isEmpty = true → BodyShape facts f assoc ⟨.text (lit "return " ++ facts.reprDefault) assoc, false⟩
  | stub (code : Str) (mapOff : Int → Except CErr Int) (bt formula : Str) (err : SynErr) :
      getText (dedent (.text f assoc) f) = .ok formula →
      createSyntaxErrorCode mapOff bt formula facts.lineReprs err = .ok code →
      BodyShape facts f assoc ⟨.text code 0, false⟩
  | edited (formula : Str) (patches : List Patch) (ml : Bool) :
      getText (dedent (.text f assoc) f) = .ok formula →
      (∀ q ∈ patches, Documented formula q) →
      BodyShape facts f assoc ⟨.replacer (dedent (.text f assoc) f) patches, ml⟩

theorem stubBody_shape (facts : Facts) (f : Str) (assoc : Nat) (mapOff : Int → Except CErr Int)
    (bt formula : Str) (err : SynErr) (body : Body)
    (hf : getText (dedent (.text f assoc) f) = .ok formula)
    (h : stubBody mapOff bt formula facts err = .ok body) : BodyShape facts f assoc body := by
  unfold stubBody at h
  split at h
  · cases h
  · rename_i code hc
    cases h
    exact BodyShape.stub code mapOff bt formula err hf hc

theorem liftTb_ok {α : Type} (x : Except Err α) (a : α) (h : liftTb x = .ok a) : x = .ok a := by
  cases x with
  | ok b => simp only [liftTb] at h; cases h; rfl
  | error e => simp only [liftTb] at h; cases h

theorem finish_shape (facts : Facts) (f : Str) (assoc : Nat) (formula : Str) (ml : Bool) (body : Body)
    (hf : getText (dedent (.text f assoc) f) = .ok formula)
    (patches : List Patch) (hp : ∀ q ∈ patches, Documented formula q)
    (hh : (match liftTb (getText (.replacer (dedent (.text f assoc) f) patches)) with
        | .error e => (Except.error e : Except CErr Body)
        | .ok finalText =>
          match facts.parse2 with
          | .error err => stubBody (fun x => liftTb (mapBackOffset (.replacer (dedent (.text f assoc) f) patches) x))
              finalText formula facts err
          | .ok => .ok ⟨.replacer (dedent (.text f assoc) f) patches, ml⟩) = .ok body) :
    BodyShape facts f assoc body := by
  cases hg : liftTb (getText (.replacer (dedent (.text f assoc) f) patches)) with
  | error e => simp only [hg] at hh; cases hh
  | ok finalText =>
    simp only [hg] at hh
    cases hp2 : facts.parse2 with
    | error err => simp only [hp2] at hh; exact stubBody_shape facts f assoc _ _ formula _ body hf hh
    | ok => simp only [hp2] at hh; cases hh; exact BodyShape.edited formula patches _ hf hp

theorem doMakeFormulaBody_shape (facts : Facts) (f : Str) (assoc : Nat) (body : Body)
    (h : doMakeFormulaBody facts f assoc = .ok body) : BodyShape facts f assoc body := by
  unfold doMakeFormulaBody at h
  by_cases hb : (strip f).isEmpty = true
  · simp only [hb, if_true] at h; cases h; exact BodyShape.blank hb
  · have hb' : (strip f).isEmpty = false := by simpa using hb
    simp only [hb', Bool.false_eq_true, if_false] at h
    cases hform : liftTb (getText (dedent (.text f assoc) f)) with
    | error e => simp only [hform] at h; cases h
    | ok formula =>
      simp only [hform] at h
      have hf := liftTb_ok _ _ hform
      generalize List.map (fun (i : Nat) => ({ start := (i : Int), end_ := (i : Int) + 1, oldText := ['$'], newText := lit "DOLLAR" } : Patch))
        (dollarPositionsFrom 0 formula) = tmpPatches at h
      cases htb : liftTb (replacerBuild formula tmpPatches) with
      | error e => simp only [htb] at h; cases h
      | ok tmpTb =>
        simp only [htb] at h
        cases hp1 : facts.parse1 with
        | error err => simp only [hp1] at h; exact stubBody_shape facts f assoc _ _ formula _ body hf h
        | ok p =>
          simp only [hp1] at h
          cases hdps : dollarPatches (fun x => liftTb (getInputPos tmpTb x)) formula p.dollarNames with
          | error e => simp only [hdps] at h; cases h
          | ok dps =>
            simp only [hdps] at h
            have hd := dollarPatches_documented _ formula _ dps hdps
            cases hlps : lazyPatches (fun x => liftTb (getInputPos tmpTb x)) formula p.lazyArgs with
            | error e => simp only [hlps] at h; cases h
            | ok lps =>
              simp only [hlps] at h
              have hl := lazyPatches_documented _ formula _ lps hlps
              have hdl : ∀ q ∈ dps ++ lps, Documented formula q := by
                intro q hq
                rcases List.mem_append.mp hq with hq | hq
                · exact hd q hq
                · exact hl q hq
              cases hlast : p.last with
              | expr sp =>
                simp only [hlast] at h
                cases hoff : liftTb (getInputPos tmpTb sp) with
                | error e => simp only [hoff] at h; cases h
                | ok inputPos =>
                  simp only [hoff] at h
                  apply finish_shape facts f assoc formula p.haveMultiline body hf _ _ h
                  intro q hq
                  rcases List.mem_append.mp hq with hq | hq
                  · exact hdl q hq
                  · simp only [List.mem_singleton] at hq; subst hq; exact Documented.ret inputPos
              | none =>
                simp only [hlast] at h
                apply finish_shape facts f assoc formula p.haveMultiline body hf _ _ h
                intro q hq
                rcases List.mem_append.mp hq with hq | hq
                · exact hdl q hq
                · simp only [List.mem_singleton] at hq; subst hq; exact Documented.pass
              | other hasReturn isAssign =>
                simp only [hlast] at h
                cases hasReturn with
                | true =>
                  simp only [if_true] at h
                  exact finish_shape facts f assoc formula p.haveMultiline body hf _ hdl h
                | false =>
                  simp only [Bool.false_eq_true, if_false] at h
                  exact stubBody_shape facts f assoc _ _ formula _ body hf h

/-! ## The stub after `_indent` -/

/-- The line is a comment: optional spaces, then '#'. -/
def IsCommentLine (l : Str) : Prop := ∃ (k : Nat) (t : Str), l = List.replicate k ' ' ++ '#' :: t

/-- `commentize` followed by `_indent`, written directly: after '\n' the indentation and "# ", after
    a lone '\r' just "# " (`_indent` does not know about '\r'). -/
def commentizeIndGo (ind : Str) : Str → Str
  | [] => []
  | c :: cs =>
    if c = '\n' then c :: (ind ++ '#' :: ' ' :: commentizeIndGo ind cs)
    else if c = '\r' then
      match cs with
      | '\n' :: _ => c :: commentizeIndGo ind cs
      | _ => c :: '#' :: ' ' :: commentizeIndGo ind cs
    else c :: commentizeIndGo ind cs

theorem commentizeIndGo_nl (ind cs : Str) :
    commentizeIndGo ind ('\n' :: cs) = '\n' :: (ind ++ '#' :: ' ' :: commentizeIndGo ind cs) := by
  simp [commentizeIndGo]
theorem commentizeIndGo_crnl (ind ds : Str) :
    commentizeIndGo ind ('\r' :: '\n' :: ds) = '\r' :: commentizeIndGo ind ('\n' :: ds) := by
  simp [commentizeIndGo]
theorem commentizeIndGo_cr_nil (ind : Str) : commentizeIndGo ind ['\r'] = ['\r', '#', ' '] := by
  simp [commentizeIndGo]
theorem commentizeIndGo_cr_other (ind : Str) (d : Char) (ds : Str) (hd : d ≠ '\n') :
    commentizeIndGo ind ('\r' :: d :: ds) = '\r' :: '#' :: ' ' :: commentizeIndGo ind (d :: ds) := by
  rw [commentizeIndGo]
  case x_2 => intro tail h; cases h; exact hd rfl
  simp
theorem commentizeIndGo_plain (ind : Str) (c : Char) (cs : Str) (hn : c ≠ '\n') (hr : c ≠ '\r') :
    commentizeIndGo ind (c :: cs) = c :: commentizeIndGo ind cs := by
  simp [commentizeIndGo, hn, hr]

theorem splitNl_cons_nl (cs : Str) : splitNl ('\n' :: cs) = [] :: splitNl cs := by
  simp only [splitNl]
  cases h : splitNl cs with
  | nil => exact absurd h (splitNl_ne_nil cs)
  | cons l ls => simp

theorem splitNl_cons_plain (c : Char) (hc : c ≠ '\n') (cs l : Str) (ls : List Str)
    (h : splitNl cs = l :: ls) : splitNl (c :: cs) = (c :: l) :: ls := by
  simp only [splitNl, h, hc, if_false]

theorem splitNl_append_nl : ∀ (pre Y : Str), '\n' ∉ pre → splitNl (pre ++ '\n' :: Y) = pre :: splitNl Y := by
  intro pre
  induction pre with
  | nil => intro Y _; exact splitNl_cons_nl Y
  | cons c cs ih =>
    intro Y h
    have hc : c ≠ '\n' := fun e => h (by simp [e])
    have := ih Y (fun e => h (by simp [e]))
    exact splitNl_cons_plain c hc _ cs (splitNl Y) this

theorem splitNl_no_nl_self : ∀ (R : Str), '\n' ∉ R → splitNl R = [R] := by
  intro R
  induction R with
  | nil => intro _; rfl
  | cons c cs ih =>
    intro h
    have hc : c ≠ '\n' := fun e => h (by simp [e])
    exact splitNl_cons_plain c hc cs cs [] (ih (fun e => h (by simp [e])))

theorem nonBlank_append_left (a b : Str) (h : nonBlank a = true) : nonBlank (a ++ b) = true := by
  unfold nonBlank at *
  rw [List.any_append, h]; rfl

/-- Indenting the stub text, line by line. -/
theorem indent_commentize (ind R : Str) (hR : '\n' ∉ R) (hRb : nonBlank R = true) :
    ∀ (s pre : Str), '\n' ∉ pre → nonBlank pre = true →
    joinNl ((splitNl (pre ++ commentizeGo s ++ '\n' :: R)).map (indentLine ind))
      = ind ++ pre ++ commentizeIndGo ind s ++ '\n' :: (ind ++ R) := by
  intro s
  induction s with
  | nil =>
    intro pre hp hb
    simp only [commentizeGo, commentizeIndGo, List.append_nil]
    rw [splitNl_append_nl pre R hp, splitNl_no_nl_self R hR]
    simp [joinNl, indentLine, hb, hRb]
  | cons c cs ih =>
    intro pre hp hb
    by_cases hn : c = '\n'
    · subst hn
      rw [commentizeGo_nl, commentizeIndGo_nl]
      have e : pre ++ '\n' :: '#' :: ' ' :: commentizeGo cs ++ '\n' :: R
          = pre ++ '\n' :: (['#', ' '] ++ commentizeGo cs ++ '\n' :: R) := by simp
      rw [e, splitNl_append_nl pre _ hp]
      have ih' := ih ['#', ' '] (by decide) (by decide)
      simp only [List.map_cons]
      rw [joinNl_cons_ne _ _ (by simp; exact splitNl_ne_nil _), ih']
      simp [indentLine, hb, List.append_assoc]
    · by_cases hcr : c = '\r'
      · subst hcr
        cases cs with
        | nil =>
          rw [commentizeGo_cr_nil, commentizeIndGo_cr_nil]
          have := ih (pre ++ ['\r', '#', ' ']) (by simp; exact hp) (nonBlank_append_left _ _ hb)
          simp only [commentizeGo, commentizeIndGo, List.append_nil] at this
          simpa [List.append_assoc] using this
        | cons d ds =>
          by_cases hd : d = '\n'
          · subst hd
            rw [commentizeGo_crnl, commentizeIndGo_crnl]
            have := ih (pre ++ ['\r']) (by simp; exact hp) (nonBlank_append_left _ _ hb)
            simpa [List.append_assoc] using this
          · rw [commentizeGo_cr_other d ds hd, commentizeIndGo_cr_other ind d ds hd]
            have := ih (pre ++ ['\r', '#', ' ']) (by simp; exact hp) (nonBlank_append_left _ _ hb)
            simpa [List.append_assoc] using this
      · rw [commentizeGo_plain c cs hn hcr, commentizeIndGo_plain ind c cs hn hcr]
        have := ih (pre ++ [c]) (by simp; exact ⟨hp, fun e => hn e.symm⟩) (nonBlank_append_left _ _ hb)
        simpa [List.append_assoc] using this

theorem physLinesGo_prefix (ind : Str) (hind : NoTerm ind) : ∀ (X f : Str) (r : List Str),
    physLinesGo false X = f :: r → physLinesGo false (ind ++ X) = (ind ++ f) :: r := by
  induction ind with
  | nil => intro X f r h; simpa using h
  | cons c cs ih =>
    intro X f r h
    have hc := hind c (by simp)
    have := ih (fun x hx => hind x (by simp [hx])) X f r h
    exact physLinesGo_plain false c hc.1 hc.2 _ _ r this

/-- Same with any flag, for a non-empty prefix. -/
theorem physLinesGo_prefix' (c : Char) (cs : Str) (hind : NoTerm (c :: cs)) (b : Bool) (X f : Str) (r : List Str)
    (h : physLinesGo false X = f :: r) : physLinesGo b ((c :: cs) ++ X) = ((c :: cs) ++ f) :: r := by
  have hc := hind c (by simp)
  have := physLinesGo_prefix cs (fun x hx => hind x (by simp [hx])) X f r h
  exact physLinesGo_plain b c hc.1 hc.2 _ _ r this

theorem NoTerm_replicate (k : Nat) : NoTerm (List.replicate k ' ') := by
  intro c hc
  have := (List.mem_replicate.mp hc).2
  subst this
  decide

theorem commentizeIndGo_lines (k : Nat) : ∀ (s : Str), ∃ f r,
    physLinesGo false (commentizeIndGo (List.replicate k ' ') s) = f :: r ∧ ∀ l ∈ r, IsCommentLine l := by
  intro s
  induction s with
  | nil => exact ⟨[], [], by simp [commentizeIndGo, physLinesGo], by simp⟩
  | cons c cs ih =>
    obtain ⟨f, r, hfr, hr⟩ := ih
    have hh0 : physLinesGo false ('#' :: ' ' :: commentizeIndGo (List.replicate k ' ') cs) = ('#' :: ' ' :: f) :: r := by
      have h1 := physLinesGo_plain false ' ' (by decide) (by decide) _ f r hfr
      exact physLinesGo_plain false '#' (by decide) (by decide) _ _ r h1
    have hhash : ∀ (b : Bool), physLinesGo b ('#' :: ' ' :: commentizeIndGo (List.replicate k ' ') cs) = ('#' :: ' ' :: f) :: r := by
      intro b
      have h1 := physLinesGo_plain false ' ' (by decide) (by decide) _ f r hfr
      exact physLinesGo_plain b '#' (by decide) (by decide) _ _ r h1
    have hmem : ∀ l ∈ ('#' :: ' ' :: f) :: r, IsCommentLine l := by
      intro l hl
      rcases List.mem_cons.mp hl with rfl | hl
      · exact ⟨0, ' ' :: f, rfl⟩
      · exact hr l hl
    by_cases hn : c = '\n'
    · subst hn
      refine ⟨[], (List.replicate k ' ' ++ '#' :: ' ' :: f) :: r, ?_, ?_⟩
      · rw [commentizeIndGo_nl, physLinesGo_nl_false,
          physLinesGo_prefix _ (NoTerm_replicate k) _ _ r hh0]
      · intro l hl
        rcases List.mem_cons.mp hl with rfl | hl
        · exact ⟨k, ' ' :: f, rfl⟩
        · exact hr l hl
    · by_cases hcr : c = '\r'
      · subst hcr
        cases cs with
        | nil =>
          refine ⟨[], [['#', ' ']], ?_, ?_⟩
          · rw [commentizeIndGo_cr_nil, physLinesGo_cr]
            have : physLinesGo true ['#', ' '] = [['#', ' ']] :=
              physLinesGo_noTerm _ (by intro x hx; simp at hx; rcases hx with rfl | rfl <;> decide) true
            rw [this]
          · intro l hl; simp at hl; exact ⟨0, [' '], by simp [hl]⟩
        | cons d ds =>
          by_cases hd : d = '\n'
          · subst hd
            rw [commentizeIndGo_nl, physLinesGo_nl_false] at hfr
            refine ⟨[], r, ?_, hr⟩
            rw [commentizeIndGo_crnl, commentizeIndGo_nl, physLinesGo_cr, physLinesGo_nl_true]
            have := List.cons.inj hfr
            rw [this.2]
          · exact ⟨[], ('#' :: ' ' :: f) :: r,
              by rw [commentizeIndGo_cr_other _ d ds hd, physLinesGo_cr, hhash true], hmem⟩
      · exact ⟨c :: f, r, by rw [commentizeIndGo_plain _ c cs hn hcr]; exact physLinesGo_plain false c hn hcr _ f r hfr, hr⟩

/-- **The stub after `_indent`** (indentation = `k` spaces): every physical line except the last is
    a comment (optional spaces, then '#'); the last is the indented `raise` statement. -/
theorem indented_stub_lines (mapOff : Int → Except CErr Int) (bt input : Str) (lr : List Str)
    (err : SynErr) (code : Str) (k : Nat)
    (h : createSyntaxErrorCode mapOff bt input lr err = .ok code)
    (h1 : NoTerm err.typeName) (h2 : NoTerm err.reprMessage) (h3 : ∀ r ∈ lr, NoTerm r) :
    ∃ ls rest, physLines (tablesOf code (indentPatches code (List.replicate k ' '))).outText
        = ls ++ [List.replicate k ' ' ++ lit "raise " ++ rest] ∧
      (∀ l ∈ ls, IsCommentLine l) ∧ ls ≠ [] := by
  obtain ⟨line, col, lineRepr, hmem, hcode⟩ := createSyntaxErrorCode_shape mapOff bt input lr err code h
  have hT : NoTerm (raiseLine err line col lineRepr) := by
    unfold raiseLine
    have l1 : NoTerm (lit "raise ") := by unfold NoTerm lit; decide
    have l2 : NoTerm (lit "(") := by unfold NoTerm lit; decide
    have l3 : NoTerm (lit ", ('usercode', ") := by unfold NoTerm lit; decide
    have l4 : NoTerm (lit ", ") := by unfold NoTerm lit; decide
    have l5 : NoTerm (lit "))") := by unfold NoTerm lit; decide
    exact NoTerm_append (NoTerm_append (NoTerm_append (NoTerm_append (NoTerm_append (NoTerm_append
      (NoTerm_append (NoTerm_append (NoTerm_append (NoTerm_append l1 h1) l2) h2) l3) (intRepr_noTerm _)) l4)
      (intRepr_noTerm _)) l4) (h3 _ hmem)) l5
  have hshape : ∃ rest, raiseLine err line col lineRepr = lit "raise " ++ rest := by
    unfold raiseLine; simp only [List.append_assoc]; exact ⟨_, rfl⟩
  obtain ⟨rest, hrest⟩ := hshape
  have hRn : '\n' ∉ raiseLine err line col lineRepr := fun hm => (hT _ hm).1 rfl
  have hRb : nonBlank (raiseLine err line col lineRepr) = true := by
    rw [hrest]; exact nonBlank_append_left _ _ (by decide)
  have hbody := (indent_text code (List.replicate k ' ')).2
  have hcode' : code = ['#', ' '] ++ commentizeGo (rstrip input) ++ '\n' :: raiseLine err line col lineRepr := by
    rw [hcode]; simp [commentize]
  have hind := indent_commentize (List.replicate k ' ') _ hRn hRb (rstrip input) ['#', ' '] (by decide) (by decide)
  rw [← hcode'] at hind
  rw [hbody, hind]
  -- physical lines
  obtain ⟨f, r, hfr, hr⟩ := commentizeIndGo_lines k (rstrip input)
  have hTT : NoTerm (List.replicate k ' ' ++ raiseLine err line col lineRepr) :=
    NoTerm_append (NoTerm_replicate k) hT
  obtain ⟨ls, e1, e2, e3⟩ := physLinesGo_append_line _ hTT
    (List.replicate k ' ' ++ ['#', ' '] ++ commentizeIndGo (List.replicate k ' ') (rstrip input)) false
  have hA : physLinesGo false (List.replicate k ' ' ++ ['#', ' '] ++ commentizeIndGo (List.replicate k ' ') (rstrip input))
      = (List.replicate k ' ' ++ '#' :: ' ' :: f) :: r := by
    have h1 := physLinesGo_plain false ' ' (by decide) (by decide) _ f r hfr
    have h2' := physLinesGo_plain false '#' (by decide) (by decide) _ _ r h1
    have := physLinesGo_prefix _ (NoTerm_replicate k) _ _ r h2'
    simpa [List.append_assoc] using this
  refine ⟨ls, rest, ?_, ?_, e3 rfl⟩
  · unfold physLines
    rw [e1, hrest]; simp [List.append_assoc]
  · intro l hl
    have := e2.subset hl
    rw [hA] at this
    rcases List.mem_cons.mp this with rfl | hl'
    · exact ⟨k, ' ' :: f, rfl⟩
    · exact hr l hl'

/-! ## Module assembly (Combiner of per-column bodies) -/

theorem getTexts_append_of_ok : ∀ (a b : List Builder) (ta tb : List Str),
    getTexts a = .ok ta → getTexts b = .ok tb → getTexts (a ++ b) = .ok (ta ++ tb) := by
  intro a
  induction a with
  | nil => intro b ta tb h1 h2; simp only [getTexts, Except.ok.injEq] at h1; subst h1; simpa using h2
  | cons x xs ih =>
    intro b ta tb h1 h2
    obtain ⟨t, ts', ht, hts', rfl⟩ := getTexts_cons_ok x xs ta h1
    have := ih b ts' tb hts' h2
    simp only [List.cons_append]
    rw [getTexts, ht, this]

/-- **Module isolation (text).**  In a module assembled by a Combiner, the part `b` occupies exactly
    the range `[off, off + len)` of the module text, `off` = total length of the parts before it. -/
theorem combiner_part_range (bpre : List Builder) (b : Builder) (bpost : List Builder)
    (tpre : List Str) (tb : Str) (tpost : List Str)
    (h1 : getTexts bpre = .ok tpre) (h2 : getText b = .ok tb) (h3 : getTexts bpost = .ok tpost) :
    ∃ T, getText (.combiner (bpre ++ b :: bpost)) = .ok T ∧
      T = joinStrs tpre ++ tb ++ joinStrs tpost ∧
      slice T ((joinStrs tpre).length : Nat) (((joinStrs tpre).length + tb.length : Nat) : Int) = tb := by
  have hb : getTexts (b :: bpost) = .ok (tb :: tpost) := by rw [getTexts, h2, h3]
  have hall := getTexts_append_of_ok bpre (b :: bpost) tpre (tb :: tpost) h1 hb
  refine ⟨joinStrs tpre ++ tb ++ joinStrs tpost, ?_, rfl, ?_⟩
  · rw [getText]; simp only [hall]
    rw [joinStrs_append, joinStrs_cons]; simp [List.append_assoc]
  · have := slice_middle (joinStrs tpre) tb (joinStrs tpost) 0 tb.length (Nat.le_refl _)
    rw [Nat.add_zero] at this
    rw [this, slice_nat]; simp

/-- **Module isolation (map-back).**  A patch of the module text lying inside the part `b` is handed
    to `b` (shifted by the part's offset): it can only land in that part's sources. -/
theorem combiner_mapBack_inside (bpre : List Builder) (b : Builder) (bpost : List Builder)
    (tpre : List Str) (tb : Str) (tpost : List Str) (p : Patch)
    (h1 : getTexts bpre = .ok tpre) (h2 : getText b = .ok tb) (h3 : getTexts bpost = .ok tpost)
    (r1 : ((joinStrs tpre).length : Int) ≤ p.start) (r2 : p.end_ ≤ (joinStrs tpre).length + tb.length)
    (r3 : ((joinStrs tpre).length : Int) < p.end_) (r4 : p.start < (joinStrs tpre).length + tb.length)
    (hold : slice (joinStrs tpre ++ tb ++ joinStrs tpost) p.start p.end_ = p.oldText) :
    mapBack (.combiner (bpre ++ b :: bpost)) p =
      mapBack b ⟨p.start - (joinStrs tpre).length, p.end_ - (joinStrs tpre).length, p.oldText, p.newText⟩ := by
  have hb : getTexts (b :: bpost) = .ok (tb :: tpost) := by rw [getTexts, h2, h3]
  have hall := getTexts_append_of_ok bpre (b :: bpost) tpre (tb :: tpost) h1 hb
  have hassoc : tpre ++ tb :: tpost = tpre ++ [tb] ++ tpost := by simp
  rw [hassoc] at hall
  have hjoin : joinStrs (tpre ++ [tb] ++ tpost) = joinStrs tpre ++ tb ++ joinStrs tpost := by
    rw [joinStrs_append, joinStrs_append]; simp [joinStrs]
  have hloc := combLocate_inside tpre tb tpost p r1 r2 r3 r4 (by rw [hjoin]; exact hold)
  have hlen : tpre.length = bpre.length := by
    obtain ⟨ta2, _, ha2, _, _, hl2⟩ := getTexts_append_ok bpre [] tpre (by simpa using h1)
    have : ta2 = tpre := by rw [h1] at ha2; cases ha2; rfl
    rw [← this]; exact hl2
  rw [mapBack_combiner_eq _ p _ _ _ hall hloc, hlen, mapBackNth_append]

end Grist.Codebuilder
