/-
C08 pairs, part 4: RenameColumn / AddColumn with their column-record actions.
-/
import GristProofs.SchemaMetaPairs3
namespace Grist.Doc

/-- `tr0` is the table record of user table `T` -/
def TableRec (d : Doc) (tr0 : Nat) (T : String) : Prop :=
  ∃ mt, findTable? d "_grist_Tables" = some mt ∧ tr0 ∈ mt.rows ∧ tid mt tr0 = T

/-- `r` is the column record of column `c` of the table with record `tr0` -/
def ColRec (d : Doc) (r tr0 : Nat) (c : String) : Prop :=
  ∃ mc, findTable? d "_grist_Tables_column" = some mc ∧ r ∈ mc.rows ∧ par mc r = tr0 ∧ cid mc r = c

abbrev swapCols (tb : Table) (c : String) (col' : Col) : Table :=
  { tb with cols := tb.cols.filter (fun x => x.id != c) ++ [col'] }

theorem ColInfo.ext' {a b : ColInfo} (h1 : a.type = b.type) (h2 : a.isFormula = b.isFormula)
    (h3 : a.formula = b.formula) (h4 : a.reverseColId = b.reverseColId) : a = b := by
  cases a; cases b; simp_all

theorem find_after_T_MC {d : Doc} {T : String} {tb tb1 mc mc' : Table}
    (hfT : findTable? d T = some tb) (hmc : findTable? d "_grist_Tables_column" = some mc)
    (hne : T ≠ "_grist_Tables_column") (hid1 : tb1.id = T) (hid2 : mc'.id = "_grist_Tables_column") :
    findTable? (replaceTable (replaceTable d T tb1) "_grist_Tables_column" mc') T = some tb1 ∧
    findTable? (replaceTable (replaceTable d T tb1) "_grist_Tables_column" mc')
      "_grist_Tables_column" = some mc' ∧
    ∀ t, t ≠ T → t ≠ "_grist_Tables_column" →
      findTable? (replaceTable (replaceTable d T tb1) "_grist_Tables_column" mc') t =
        findTable? d t := by
  have h1 : findTable? (replaceTable d T tb1) "_grist_Tables_column" = some mc := by
    rw [findTable?_replaceTable_ne hid1 (Ne.symm hne)]; exact hmc
  refine ⟨?_, findTable?_replaceTable_self hid2 h1, ?_⟩
  · rw [findTable?_replaceTable_ne hid2 hne]
    exact findTable?_replaceTable_self hid1 hfT
  · intro t h1 h2
    rw [findTable?_replaceTable_ne hid2 h2, findTable?_replaceTable_ne hid1 h1]

theorem find_after_MC_T {d : Doc} {T : String} {tb tb1 mc mc' : Table}
    (hfT : findTable? d T = some tb) (hmc : findTable? d "_grist_Tables_column" = some mc)
    (hne : T ≠ "_grist_Tables_column") (hid1 : tb1.id = T) (hid2 : mc'.id = "_grist_Tables_column") :
    findTable? (replaceTable (replaceTable d "_grist_Tables_column" mc') T tb1) T = some tb1 ∧
    findTable? (replaceTable (replaceTable d "_grist_Tables_column" mc') T tb1)
      "_grist_Tables_column" = some mc' ∧
    ∀ t, t ≠ T → t ≠ "_grist_Tables_column" →
      findTable? (replaceTable (replaceTable d "_grist_Tables_column" mc') T tb1) t =
        findTable? d t := by
  have h1 : findTable? (replaceTable d "_grist_Tables_column" mc') T = some tb := by
    rw [findTable?_replaceTable_ne hid2 hne]; exact hfT
  refine ⟨findTable?_replaceTable_self hid1 h1, ?_, ?_⟩
  · rw [findTable?_replaceTable_ne hid1 (Ne.symm hne)]
    exact findTable?_replaceTable_self hid2 hmc
  · intro t h1 h2
    rw [findTable?_replaceTable_ne hid1 h1, findTable?_replaceTable_ne hid2 h2]

theorem ne_MC_of_user {T : String} (h : isMetaId T = false) : T ≠ "_grist_Tables_column" := by
  intro h'; rw [h', isMetaId_MC] at h; cases h

theorem userTable_of_user {d : Doc} {T : String} {tb : Table} (h : isMetaId T = false)
    (hf : findTable? d T = some tb) : userTable? d T = some tb := by
  unfold userTable?; simp [h, hf]

/-- the column record of an existing column carries that column's info -/
theorem colRec_info {d : Doc} {mt mc tb : Table} {T c : String} {tr0 r : Nat}
    (hs : Spec d mt mc) (htr0 : tr0 ∈ mt.rows) (htid : tid mt tr0 = T)
    (hT : userTable? d T = some tb) (hr : r ∈ mc.rows) (hp : par mc r = tr0) (hcid : cid mc r = c) :
    tb.infoOf? c = some (colRecInfo mc r).2 := by
  apply (hs.cols tr0 htr0 tb (by rw [htid]; exact hT) c _).2
  exact ⟨r, hr, hp, Prod.ext hcid rfl⟩

theorem pair_renameColumn_core {d d' : Doc} {u : List DocAction} {T old new : String} {tr0 r : Nat}
    (hwf : WF d) (hc : SchemaConsistent d) (hu : MetaUnique d) (hT : isMetaId T = false)
    (htr : TableRec d tr0 T) (hrec : ColRec d r tr0 old) (hnr : NoReverseRefTo d r)
    (h : runActs d [.renameColumn T old new,
      .bulkUpdate "_grist_Tables_column" [r] [("colId", [.str new])]] = .ok (d', u)) :
    SchemaConsistent d' ∧ MetaUnique d' := by
  obtain ⟨mt, mc, hmt, hmc, htu, hcu⟩ := hu
  obtain ⟨mt', hmt', htr0, htid⟩ := htr
  rw [hmt] at hmt'; cases hmt'
  obtain ⟨mc0, hmc0, hr, hpar, hcid⟩ := hrec
  rw [hmc] at hmc0; cases hmc0
  obtain ⟨D1, U1, U2, hp1, hp2⟩ := runActs_two h
  obtain ⟨tb, col, hfT, hcol, hnew, rfl, _⟩ := hp1
  obtain ⟨mcx, mc', hfx, _, hkeys, hw, rfl, _⟩ := hp2
  have hne := ne_MC_of_user hT
  have hidT := (findTable?_some hfT).1
  have hidC := (findTable?_some hmc).1
  rw [findTable?_replaceTable_ne (by exact hidT) (Ne.symm hne), hmc] at hfx
  cases hfx
  rw [writeCols_ok_iff (hwf.table hmc).1] at hw
  obtain ⟨_, rfl⟩ := hw
  obtain ⟨h2T, h2C, h2o⟩ := find_after_T_MC (tb1 := swapCols tb old { col with id := new })
    (mc' := mc.written [r] [("colId", [.str new])]) hfT hmc hne hidT hidC
  have hnr' := hnr mc hmc
  have hrows : ∀ x, x ≠ r → (x ∈ (mc.written [r] [("colId", [Val.str new])]).rows ↔ x ∈ mc.rows) :=
    fun _ _ => Iff.rfl
  have hcells : ∀ f x, x ≠ r → x ∈ mc.rows →
      (mc.written [r] [("colId", [Val.str new])]).cell f x = mc.cell f x :=
    fun f x hx _ => cell_written_other mc _ f (by simpa using hx)
  have hnk : ∀ f, f ≠ "colId" → (mc.written [r] [("colId", [Val.str new])]).cell f r = mc.cell f r := by
    intro f hf
    apply cell_written_nokey
    intro cv hcv
    simp only [List.mem_singleton] at hcv
    subst hcv
    exact fun h => hf h.symm
  obtain ⟨ccol, hccol⟩ := hasCol_eq_true.1 (hkeys ("colId", [.str new]) (by simp))
  have hcidnew : (mc.written [r] [("colId", [Val.str new])]).cell "colId" r = .str new := by
    rw [cell_written_key hccol (v := .str new)]
    · exact colSet_str _ _
    · intro cv hcv _; simp only [List.mem_singleton] at hcv; subst hcv; rfl
    · exact ⟨_, List.mem_singleton.2 rfl, rfl⟩
  have hs := spec_of_consistent hmt hmc htu hcu hc
  have hUT := userTable_of_user hT hfT
  have hinfo := colRec_info hs htr0 htid hUT hr hpar hcid
  have hcolinfo : (colRecInfo mc r).2 = col.info := by
    have : tb.infoOf? old = some col.info := by simp [Table.infoOf?, hcol]
    rw [this] at hinfo
    exact (Option.some.inj hinfo).symm
  have hnone := hasCol_eq_false.1 hnew
  have hne' : new ≠ old := by
    intro h'; subst h'; rw [hcol] at hnone; cases hnone
  have hci' : colRecInfo (mc.written [r] [("colId", [Val.str new])]) r = (new, col.info) := by
    apply Prod.ext
    · show valStr ((mc.written [r] [("colId", [Val.str new])]).cell "colId" r) = new
      rw [hcidnew]; rfl
    · rw [← hcolinfo]
      apply ColInfo.ext'
      · show valStr _ = valStr _
        rw [hnk "type" (by decide)]
      · show valBool _ = valBool _
        rw [hnk "isFormula" (by decide)]
      · show valStr _ = valStr _
        rw [hnk "formula" (by decide)]
      · exact colRecInfo_r hr hrows hcells hnr' (hnk "reverseCol" (by decide))
  refine pair_core hc hmt hmc htu hcu hT hfT h2T h2C h2o htr0 htid
    (P_of_cells hrows hcells hnr') (fun _ => hpar) (fun _ => ?_) ?_ ?_
  · show valNat _ = tr0
    rw [hnk "parentId" (by decide)]; exact hpar
  · intro c i
    rw [hci']
    have hr' : r ∈ (mc.written [r] [("colId", [Val.str new])]).rows := hr
    simp only [swapCols, Table.infoOf?, findCol?_swap, hr', hr, true_and, hcid, Prod.mk.injEq, forall_const]
    by_cases hcn : c = new
    · subst hcn
      simp only [hne', ↓reduceIte, hnone, Option.none_or, Option.map_some, Option.some.injEq,
        true_and, Option.map_none, reduceCtorEq, false_and, or_false]
    · have hcn' : ¬ new = c := fun h => hcn h.symm
      by_cases hco : c = old
      · subst hco
        simp [hcn']
      · have hco' : ¬ old = c := fun h => hco h.symm
        simp [hcn', hco, hco']
  · intro _
    left
    rw [hci']
    simp [Table.infoOf?, hnone]

end Grist.Doc
