import GristModel.Schedule
namespace Grist.Schedule

/-! ## civil calendar lemmas -/

/-- arithmetic core of `civilFromDays`, on named intermediate values -/
theorem cfd_parts (n era doe c r2 q r3 a doy yoe : Int)
    (h1 : era = n / 146097) (h2 : doe = n % 146097) (h3 : c = min (doe / 36524) 3)
    (h4 : r2 = doe - c * 36524) (h5 : q = r2 / 1461) (h6 : r3 = r2 % 1461)
    (h7 : a = min (r3 / 365) 3) (h8 : doy = r3 - a * 365) (h9 : yoe = c * 100 + q * 4 + a) :
    0 ≤ yoe ∧ yoe ≤ 399 ∧ 0 ≤ doy ∧ doy ≤ 365 ∧
    (doy = 365 → yoe % 4 = 3 ∧ (yoe % 100 = 99 → yoe = 399)) ∧
    n = era * 146097 + yoe * 365 + yoe / 4 - yoe / 100 + doy := by
  have hc : 0 ≤ c ∧ c ≤ 3 := by omega
  have hr2 : 0 ≤ r2 ∧ r2 ≤ 36524 ∧ (r2 = 36524 → c = 3) := by omega
  have hq : 0 ≤ q ∧ q ≤ 24 := by omega
  have ha : 0 ≤ a ∧ a ≤ 3 := by omega
  have hqa : 0 ≤ q * 4 + a ∧ q * 4 + a ≤ 99 := by omega
  have hy100 : yoe / 100 = c := by omega
  have hy4 : yoe / 4 = 25 * c + q := by omega
  have hdoy : 0 ≤ doy ∧ doy ≤ 365 ∧ (doy = 365 → a = 3) := by omega
  have hlast : doy = 365 → q = 24 → c = 3 := by omega
  refine ⟨by omega, by omega, by omega, by omega, ?_, by omega⟩
  intro h365
  constructor
  · omega
  · intro h99; omega

theorem step_era (n era0 doe0 : Int) (h : n = era0 * 146097 + doe0) (h0 : 0 ≤ doe0)
    (h1 : doe0 ≤ 146096) : n / 146097 = era0 ∧ n % 146097 = doe0 := by omega

theorem step_century (doe C rest : Int) (hC : 0 ≤ C ∧ C ≤ 3) (h : doe = 36524 * C + rest)
    (hr : 0 ≤ rest ∧ rest ≤ 36524) (hr' : rest = 36524 → C = 3) :
    min (doe / 36524) 3 = C := by omega

theorem step_cycle (r2 Q rest : Int) (h : r2 = 1461 * Q + rest)
    (hr : 0 ≤ rest ∧ rest ≤ 1460) : r2 / 1461 = Q ∧ r2 % 1461 = rest := by omega

theorem step_year (r3 A doy0 : Int) (hA : 0 ≤ A ∧ A ≤ 3) (h : r3 = 365 * A + doy0)
    (hd : 0 ≤ doy0 ∧ doy0 ≤ 365) (hl : doy0 = 365 → A = 3) :
    min (r3 / 365) 3 = A := by omega

/-- the converse: the decomposition of a day number into era / year of era / day of year is
    unique, so `civilFromDays` finds it. -/
theorem cfd_parts_unique (n era doe c r2 q r3 a doy yoe era0 yoe0 doy0 : Int)
    (h1 : era = n / 146097) (h2 : doe = n % 146097) (h3 : c = min (doe / 36524) 3)
    (h4 : r2 = doe - c * 36524) (h5 : q = r2 / 1461) (h6 : r3 = r2 % 1461)
    (h7 : a = min (r3 / 365) 3) (h8 : doy = r3 - a * 365) (h9 : yoe = c * 100 + q * 4 + a)
    (hy : 0 ≤ yoe0 ∧ yoe0 ≤ 399) (hd : 0 ≤ doy0 ∧ doy0 ≤ 365)
    (hl : doy0 = 365 → yoe0 % 4 = 3 ∧ (yoe0 % 100 = 99 → yoe0 = 399))
    (hn : n = era0 * 146097 + yoe0 * 365 + yoe0 / 4 - yoe0 / 100 + doy0) :
    era = era0 ∧ yoe = yoe0 ∧ doy = doy0 := by
  -- name the digits of yoe0
  obtain ⟨C, hCd⟩ : ∃ C, C = yoe0 / 100 := ⟨_, rfl⟩
  obtain ⟨Q, hQd⟩ : ∃ Q, Q = yoe0 % 100 / 4 := ⟨_, rfl⟩
  obtain ⟨A, hAd⟩ : ∃ A, A = yoe0 % 4 := ⟨_, rfl⟩
  have hC : 0 ≤ C ∧ C ≤ 3 := by omega
  have hQ : 0 ≤ Q ∧ Q ≤ 24 := by omega
  have hA : 0 ≤ A ∧ A ≤ 3 := by omega
  have hy0 : yoe0 = C * 100 + Q * 4 + A := by omega
  have hl' : doy0 = 365 → A = 3 ∧ (Q = 24 → C = 3) := by omega
  have hdoe0 : n = era0 * 146097 + (36524 * C + 1461 * Q + 365 * A + doy0) := by omega
  clear hAd hQd hCd hl hn
  have hb : 0 ≤ 36524 * C + 1461 * Q + 365 * A + doy0 ∧
      36524 * C + 1461 * Q + 365 * A + doy0 ≤ 146096 := by omega
  obtain ⟨e1, e2⟩ := step_era n era0 _ hdoe0 hb.1 hb.2
  have hera : era = era0 := by omega
  have hdoe : doe = 36524 * C + (1461 * Q + 365 * A + doy0) := by omega
  have hc : c = C := by
    rw [h3]; exact step_century doe C _ hC hdoe (by omega) (by omega)
  have hr2 : r2 = 1461 * Q + (365 * A + doy0) := by rw [h4, hc, hdoe]; omega
  obtain ⟨e3, e4⟩ := step_cycle r2 Q _ hr2 (by omega)
  have hq : q = Q := by omega
  have hr3 : r3 = 365 * A + doy0 := by omega
  have ha : a = A := by
    rw [h7]; exact step_year r3 A doy0 hA hr3 hd (by omega)
  refine ⟨hera, ?_, ?_⟩
  · rw [h9, hc, hq, ha, hy0]
  · rw [h8, hr3, ha]; omega

/-- civil fields from (era, year of era, March-based day of year) -/
def civilOfParts (era yoe doy : Int) : Int × Int × Int :=
  let mp := (5 * doy + 2) / 153
  let d := doy - (153 * mp + 2) / 5 + 1
  let m := if mp < 10 then mp + 3 else mp - 9
  (yoe + era * 400 + (if m ≤ 2 then 1 else 0), m, d)

/-- number of days before March-based year `yoe` of an era -/
def yearStart (yoe : Int) : Int := yoe * 365 + yoe / 4 - yoe / 100

def PartsOk (yoe doy : Int) : Prop :=
  0 ≤ yoe ∧ yoe ≤ 399 ∧ 0 ≤ doy ∧ doy ≤ 365 ∧
    (doy = 365 → yoe % 4 = 3 ∧ (yoe % 100 = 99 → yoe = 399))

theorem cfd_spec (z : Int) : ∃ era yoe doy : Int, PartsOk yoe doy ∧
    z + 719468 = era * 146097 + yearStart yoe + doy ∧
    civilFromDays z = civilOfParts era yoe doy := by
  refine ⟨(z + 719468) / 146097, _, _, ?_, ?_, rfl⟩
  · have := cfd_parts (z + 719468) _ _ _ _ _ _ _ _ _ rfl rfl rfl rfl rfl rfl rfl rfl rfl
    exact ⟨this.1, this.2.1, this.2.2.1, this.2.2.2.1, this.2.2.2.2.1⟩
  · have := cfd_parts (z + 719468) _ _ _ _ _ _ _ _ _ rfl rfl rfl rfl rfl rfl rfl rfl rfl
    simp only [yearStart]; omega

theorem cfd_of_parts (z era yoe doy : Int) (hok : PartsOk yoe doy)
    (hz : z + 719468 = era * 146097 + yearStart yoe + doy) :
    civilFromDays z = civilOfParts era yoe doy := by
  have := cfd_parts_unique (z + 719468) _ _ _ _ _ _ _ _ _ era yoe doy
    rfl rfl rfl rfl rfl rfl rfl rfl rfl ⟨hok.1, hok.2.1⟩ ⟨hok.2.2.1, hok.2.2.2.1⟩ hok.2.2.2.2
    (by simp only [yearStart] at hz; omega)
  obtain ⟨h1, h2, h3⟩ := this
  show civilOfParts _ _ _ = _
  rw [h1, h2, h3]

/-- `daysFromCivil` in "flat" form: March-based year `Y`, March-based month `mp`. -/
theorem dfc_flat (y m d Y mp : Int)
    (hY : Y = if m ≤ 2 then y - 1 else y) (hmp : mp = if m > 2 then m - 3 else m + 9) :
    daysFromCivil y m d =
      365 * Y + Y / 4 - Y / 100 + Y / 400 + (153 * mp + 2) / 5 + d - 1 - 719468 := by
  simp only [daysFromCivil, ← hY, ← hmp]
  omega

theorem dfc_day (y m d : Int) : daysFromCivil y m d = daysFromCivil y m 1 + (d - 1) := by
  simp only [daysFromCivil]; omega

/-- day number of (era, yoe, doy) in flat form -/
theorem parts_flat (era yoe doy Y : Int) (hy : 0 ≤ yoe ∧ yoe ≤ 399) (hY : Y = yoe + era * 400) :
    era * 146097 + yearStart yoe + doy = 365 * Y + Y / 4 - Y / 100 + Y / 400 + doy := by
  simp only [yearStart]; omega

theorem mp_of_doy (doy mp : Int) (hd : 0 ≤ doy ∧ doy ≤ 365) (hmp : mp = (5 * doy + 2) / 153) :
    0 ≤ mp ∧ mp ≤ 11 ∧ (153 * mp + 2) / 5 ≤ doy ∧ (mp < 11 → doy < (153 * (mp + 1) + 2) / 5) := by
  omega

/-- day number of the first day of the month with index `i = 12 * year + (month - 1)` -/
def fom (i : Int) : Int := daysFromCivil (i / 12) (i % 12 + 1) 1

theorem fom_flat (i Y mp : Int) (hY : Y = (i - 2) / 12) (hmp : mp = (i - 2) % 12) :
    fom i = 365 * Y + Y / 4 - Y / 100 + Y / 400 + (153 * mp + 2) / 5 - 719468 := by
  unfold fom
  rw [dfc_flat (i / 12) (i % 12 + 1) 1 Y mp (by omega) (by omega)]
  omega

/-- number of leap days gained going from March-based year `Y` to `Y + 1` is 0 or 1 -/
theorem leap_inc (Y : Int) :
    0 ≤ ((Y + 1) / 4 - (Y + 1) / 100 + (Y + 1) / 400) - (Y / 4 - Y / 100 + Y / 400) ∧
    ((Y + 1) / 4 - (Y + 1) / 100 + (Y + 1) / 400) - (Y / 4 - Y / 100 + Y / 400) ≤ 1 := by
  have h4 : (Y + 1) / 4 - Y / 4 = if (Y + 1) % 4 = 0 then 1 else 0 := by omega
  have h100 : (Y + 1) / 100 - Y / 100 = if (Y + 1) % 100 = 0 then 1 else 0 := by omega
  have h400 : (Y + 1) / 400 - Y / 400 = if (Y + 1) % 400 = 0 then 1 else 0 := by omega
  have i1 : (Y + 1) % 100 = 0 → (Y + 1) % 4 = 0 := by omega
  have i2 : (Y + 1) % 400 = 0 → (Y + 1) % 100 = 0 := by omega
  by_cases c4 : (Y + 1) % 4 = 0 <;> by_cases c100 : (Y + 1) % 100 = 0 <;>
    by_cases c400 : (Y + 1) % 400 = 0 <;> simp only [c4, c100, c400, if_true, if_false] at h4 h100 h400 <;>
    omega

/-- a month has 28 to 31 days -/
theorem fom_step (i : Int) : 28 ≤ fom (i + 1) - fom i ∧ fom (i + 1) - fom i ≤ 31 := by
  rw [fom_flat i _ _ rfl rfl, fom_flat (i + 1) _ _ rfl rfl]
  by_cases hw : (i - 2) % 12 = 11
  · have e1 : (i + 1 - 2) / 12 = (i - 2) / 12 + 1 := by omega
    have e2 : (i + 1 - 2) % 12 = 0 := by omega
    rw [e1, e2, hw]
    have := leap_inc ((i - 2) / 12)
    omega
  · have e1 : (i + 1 - 2) / 12 = (i - 2) / 12 := by omega
    have e2 : (i + 1 - 2) % 12 = (i - 2) % 12 + 1 := by omega
    rw [e1, e2]
    have : 0 ≤ (i - 2) % 12 ∧ (i - 2) % 12 ≤ 10 := by omega
    omega

theorem fom_add (i : Int) (k : Nat) : fom i + 28 * (k : Int) ≤ fom (i + k) := by
  induction k with
  | zero => simp
  | succ k ih =>
    have := (fom_step (i + k)).1
    have e : i + ((k + 1 : Nat) : Int) = i + k + 1 := by omega
    rw [e]; omega

theorem fom_mono {i j : Int} (h : i ≤ j) : fom i ≤ fom j := by
  have := fom_add i (j - i).toNat
  have e : i + ((j - i).toNat : Int) = j := by omega
  rw [e] at this; omega

theorem fom_strictMono {i j : Int} (h : i < j) : fom i < fom j := by
  have := fom_add i (j - i).toNat
  have e : i + ((j - i).toNat : Int) = j := by omega
  rw [e] at this; omega

theorem leap_inc_of (Y : Int) (h4 : (Y + 1) % 4 = 0) (h : (Y + 1) % 100 = 0 → (Y + 1) % 400 = 0) :
    ((Y + 1) / 4 - (Y + 1) / 100 + (Y + 1) / 400) - (Y / 4 - Y / 100 + Y / 400) = 1 := by
  have e4 : (Y + 1) / 4 - Y / 4 = 1 := by omega
  have h100 : (Y + 1) / 100 - Y / 100 = if (Y + 1) % 100 = 0 then 1 else 0 := by omega
  have h400 : (Y + 1) / 400 - Y / 400 = if (Y + 1) % 400 = 0 then 1 else 0 := by omega
  have i2 : (Y + 1) % 400 = 0 → (Y + 1) % 100 = 0 := by omega
  by_cases c100 : (Y + 1) % 100 = 0 <;> by_cases c400 : (Y + 1) % 400 = 0 <;>
    simp only [c100, c400, if_true, if_false] at h100 h400 <;> omega

/-- month index `12 * year + (month - 1)` of a day number -/
def monthIdx (z : Int) : Int := (civilFromDays z).1 * 12 + ((civilFromDays z).2.1 - 1)

/-- every day lies in its month: `fom idx ≤ z < fom (idx + 1)`, and the day-of-month field is the
    offset from the first of the month. -/
theorem month_window (z : Int) :
    z = fom (monthIdx z) + ((civilFromDays z).2.2 - 1) ∧ 1 ≤ (civilFromDays z).2.2 ∧
    z < fom (monthIdx z + 1) ∧ 1 ≤ (civilFromDays z).2.1 ∧ (civilFromDays z).2.1 ≤ 12 := by
  obtain ⟨era, yoe, doy, hok, hz, hc⟩ := cfd_spec z
  obtain ⟨hy0, hy1, hd0, hd1, hl⟩ := hok
  obtain ⟨mp, hmp⟩ : ∃ mp, mp = (5 * doy + 2) / 153 := ⟨_, rfl⟩
  obtain ⟨m0, m1, m2, m3⟩ := mp_of_doy doy mp ⟨hd0, hd1⟩ hmp
  obtain ⟨Y, hY⟩ : ∃ Y, Y = yoe + era * 400 := ⟨_, rfl⟩
  have hflat := parts_flat era yoe doy Y ⟨hy0, hy1⟩ hY
  have c1 : (civilFromDays z).1 = Y + (if (if mp < 10 then mp + 3 else mp - 9) ≤ 2 then 1 else 0) := by
    rw [hc, hY, hmp]; rfl
  have c2 : (civilFromDays z).2.1 = if mp < 10 then mp + 3 else mp - 9 := by
    rw [hc, hmp]; rfl
  have c3 : (civilFromDays z).2.2 = doy - (153 * mp + 2) / 5 + 1 := by
    rw [hc, hmp]; rfl
  have hidx : monthIdx z = 12 * Y + mp + 2 := by
    unfold monthIdx; rw [c1, c2]; split <;> omega
  have f0 := fom_flat (monthIdx z) Y mp (by omega) (by omega)
  refine ⟨by rw [c3]; omega, by rw [c3]; omega, ?_, by rw [c2]; split <;> omega,
    by rw [c2]; split <;> omega⟩
  by_cases hw : mp = 11
  · have f1 := fom_flat (monthIdx z + 1) (Y + 1) 0 (by omega) (by omega)
    have li := leap_inc Y
    by_cases h365 : doy = 365
    · obtain ⟨l1, l2⟩ := hl h365
      have := leap_inc_of Y (by omega) (by omega)
      omega
    · omega
  · have f1 := fom_flat (monthIdx z + 1) Y (mp + 1) (by omega) (by omega)
    have := m3 (by omega)
    omega

theorem mp_roundtrip (mp : Int) (h : 0 ≤ mp ∧ mp ≤ 11) :
    (5 * ((153 * mp + 2) / 5) + 2) / 153 = mp := by
  have : mp = 0 ∨ mp = 1 ∨ mp = 2 ∨ mp = 3 ∨ mp = 4 ∨ mp = 5 ∨ mp = 6 ∨ mp = 7 ∨ mp = 8 ∨
      mp = 9 ∨ mp = 10 ∨ mp = 11 := by omega
  rcases this with h | h | h | h | h | h | h | h | h | h | h | h <;> subst h <;> decide

/-- the civil fields of the first day of month index `i` -/
theorem cfd_fom (i : Int) : civilFromDays (fom i) = (i / 12, i % 12 + 1, 1) := by
  obtain ⟨Y, hY⟩ : ∃ Y, Y = (i - 2) / 12 := ⟨_, rfl⟩
  obtain ⟨mp, hmp⟩ : ∃ mp, mp = (i - 2) % 12 := ⟨_, rfl⟩
  have hmpr : 0 ≤ mp ∧ mp ≤ 11 := by omega
  have f0 := fom_flat i Y mp hY hmp
  have hdoy : 0 ≤ (153 * mp + 2) / 5 ∧ (153 * mp + 2) / 5 ≤ 337 := by omega
  have hflat := parts_flat (Y / 400) (Y % 400) ((153 * mp + 2) / 5) Y (by omega) (by omega)
  rw [cfd_of_parts (fom i) (Y / 400) (Y % 400) ((153 * mp + 2) / 5)
    ⟨by omega, by omega, by omega, by omega, by omega⟩ (by omega)]
  simp only [civilOfParts, mp_roundtrip mp hmpr]
  simp only [Prod.mk.injEq]
  clear hflat f0
  refine ⟨?_, ?_, ?_⟩
  · split <;> split at * <;> omega
  · split <;> omega
  · omega

theorem monthIdx_fom (i : Int) : monthIdx (fom i) = i := by
  unfold monthIdx; rw [cfd_fom]; show i / 12 * 12 + (i % 12 + 1 - 1) = i; omega

/-- `daysFromCivil ∘ civilFromDays = id` -/
theorem dfc_cfd (z : Int) :
    daysFromCivil (civilFromDays z).1 (civilFromDays z).2.1 (civilFromDays z).2.2 = z := by
  obtain ⟨h1, _, _, h4, h5⟩ := month_window z
  rw [dfc_day]
  have : daysFromCivil (civilFromDays z).1 (civilFromDays z).2.1 1 = fom (monthIdx z) := by
    unfold fom monthIdx
    congr 1 <;> omega
  omega

/-- day number of 1900-01-01 -/
def day1900 : Int := -25567

theorem fom_1900 : fom (1900 * 12) = day1900 := by decide

/-- days from 1900-01-01 on have `year ≥ 1900` (so `DATE` does not add 1900) -/
theorem year_ge_1900 (z : Int) (h : day1900 ≤ z) : 1900 ≤ (civilFromDays z).1 := by
  obtain ⟨_, _, h3, h4, h5⟩ := month_window z
  -- otherwise the month index is below 1900-01, whose successor month starts by 1900-01-01
  false_or_by_contra
  rename_i hlt
  have hidx : monthIdx z + 1 ≤ 1900 * 12 := by unfold monthIdx; omega
  have := fom_mono hidx
  rw [fom_1900] at this
  omega

/-! ## `Delta.addTo` and `roundDown` in closed form (dates from 1900-01-01 on) -/

theorem day_tod (t : Int) : dayOf t * usDay + todOf t = t := by
  unfold dayOf todOf usDay; omega

theorem tod_range (t : Int) : 0 ≤ todOf t ∧ todOf t < usDay := by
  unfold todOf usDay; omega

/-- `add_to` adds `months` to the month index, keeps day-of-month and time, adds the timedelta. -/
theorem addTo_eq (δ : Delta) (t : Int) (h : day1900 ≤ dayOf t) :
    δ.addTo t = (fom (monthIdx (dayOf t) + δ.months) + ((civilFromDays (dayOf t)).2.2 - 1)) * usDay
      + todOf t + δ.us := by
  have hy := year_ge_1900 _ h
  obtain ⟨_, _, _, hm1, hm2⟩ := month_window (dayOf t)
  unfold Delta.addTo dateNorm
  simp only
  rw [if_neg (by omega)]
  have : daysFromCivil ((civilFromDays (dayOf t)).1 + ((civilFromDays (dayOf t)).2.1 + δ.months - 1) / 12)
      (((civilFromDays (dayOf t)).2.1 + δ.months - 1) % 12 + 1) 1
      = fom (monthIdx (dayOf t) + δ.months) := by
    unfold fom monthIdx
    congr 1 <;> omega
  rw [this]

/-- without a month component `add_to` is plain addition -/
theorem addTo_fixed (δ : Delta) (t : Int) (hm : δ.months = 0) (h : day1900 ≤ dayOf t) :
    δ.addTo t = t + δ.us := by
  rw [addTo_eq δ t h, hm, Int.add_zero]
  have h1 := (month_window (dayOf t)).1
  have h2 := day_tod t
  have h3 : (fom (monthIdx (dayOf t)) + ((civilFromDays (dayOf t)).2.2 - 1)) = dayOf t := by omega
  rw [h3]; omega

theorem dayOf_fom (i : Int) : dayOf (fom i * usDay) = fom i := by
  unfold dayOf usDay; omega

theorem todOf_fom (i : Int) : todOf (fom i * usDay) = 0 := by
  unfold todOf usDay; omega

/-- from the first of a month at midnight -/
theorem addTo_fom (δ : Delta) (i : Int) (h : day1900 ≤ fom i) :
    δ.addTo (fom i * usDay) = fom (i + δ.months) * usDay + δ.us := by
  rw [addTo_eq δ _ (by rw [dayOf_fom]; exact h), dayOf_fom, todOf_fom, monthIdx_fom, cfd_fom]
  simp

theorem roundDown_months (t : Int) : roundDown t .months = fom (monthIdx (dayOf t)) * usDay := by
  obtain ⟨_, _, _, hm1, hm2⟩ := month_window (dayOf t)
  show daysFromCivil _ _ 1 * usDay = _
  congr 1
  unfold fom monthIdx
  congr 1 <;> omega

theorem roundDown_years (t : Int) :
    roundDown t .years = fom ((civilFromDays (dayOf t)).1 * 12) * usDay := by
  show daysFromCivil _ 1 1 * usDay = _
  congr 1
  unfold fom
  congr 1 <;> omega

/-- `start` lies in the month that begins at its month boundary -/
theorem months_window (t : Int) :
    fom (monthIdx (dayOf t)) * usDay ≤ t ∧ t < fom (monthIdx (dayOf t) + 1) * usDay := by
  obtain ⟨h1, h2, h3, _, _⟩ := month_window (dayOf t)
  have := day_tod t
  have := tod_range t
  unfold usDay at *
  omega

/-- `start` lies in the year that begins at its year boundary -/
theorem years_window (t : Int) :
    fom ((civilFromDays (dayOf t)).1 * 12) * usDay ≤ t ∧
    t < fom ((civilFromDays (dayOf t)).1 * 12 + 12) * usDay := by
  obtain ⟨_, _, _, hm1, hm2⟩ := month_window (dayOf t)
  obtain ⟨w1, w2⟩ := months_window t
  have a := @fom_mono ((civilFromDays (dayOf t)).1 * 12) (monthIdx (dayOf t)) (by unfold monthIdx; omega)
  have b := @fom_mono (monthIdx (dayOf t) + 1) ((civilFromDays (dayOf t)).1 * 12 + 12)
    (by unfold monthIdx; omega)
  unfold usDay at *
  omega

end Grist.Schedule
