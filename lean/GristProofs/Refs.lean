/-
Helper lemmas about GristModel/Refs.lean used by GristProps/C10.lean and GristProps/C11.lean.
-/
import GristModel.Refs
namespace Grist.Refs

/-! ### dict / set -/

theorem aGet_aUpd {β : Type} (d : β) (m : List (Nat × β)) (t t' : Nat) (f : β → β) :
    aGet d (aUpd d m t f) t' = if t' = t then f (aGet d m t) else aGet d m t' := by
  induction m with
  | nil => simp only [aUpd, aGet]; split <;> split <;> simp_all
  | cons e rest ih =>
    obtain ⟨k, v⟩ := e
    simp only [aUpd]
    by_cases hk : k = t
    · subst hk
      simp only [if_true, aGet]
      by_cases h2 : t' = k
      · subst h2; simp
      · have : ¬ k = t' := fun h => h2 h.symm
        simp [this, h2]
    · simp only [hk, if_false, aGet]
      by_cases h2 : k = t'
      · subst h2; simp [hk]
      · simp only [h2, if_false]; exact ih

theorem aHas_aUpd {β : Type} (d : β) (m : List (Nat × β)) (t t' : Nat) (f : β → β) :
    aHas (aUpd d m t f) t' = (aHas m t' || decide (t' = t)) := by
  induction m with
  | nil => simp only [aUpd, aHas]; by_cases h : t = t' <;> simp [h, eq_comm]
  | cons e rest ih =>
    obtain ⟨k, v⟩ := e
    simp only [aUpd]
    by_cases hk : k = t
    · subst hk
      simp only [if_true, aHas]
      by_cases h2 : k = t'
      · simp [h2]
      · have : ¬ t' = k := fun h => h2 h.symm
        simp [h2, this]
    · simp only [hk, if_false, aHas]
      by_cases h2 : k = t'
      · simp [h2]
      · simp only [h2, if_false]; exact ih

theorem aHas_of_aGet_ne {β : Type} (d : β) (m : List (Nat × β)) (t : Nat) (h : aGet d m t ≠ d) :
    aHas m t = true := by
  induction m with
  | nil => simp [aGet] at h
  | cons e rest ih =>
    obtain ⟨k, v⟩ := e
    simp only [aGet] at h
    simp only [aHas]
    by_cases hk : k = t
    · simp [hk]
    · simp only [hk, if_false] at h ⊢; exact ih h

theorem mem_setAdd (s : List Nat) (r x : Nat) : x ∈ setAdd s r ↔ x ∈ s ∨ x = r := by
  unfold setAdd
  split
  · constructor
    · intro h; exact Or.inl h
    · rintro (h | h)
      · exact h
      · subst h; assumption
  · simp

theorem mem_setDiscard (s : List Nat) (r x : Nat) : x ∈ setDiscard s r ↔ x ∈ s ∧ x ≠ r := by
  simp [setDiscard]

theorem mem_foldl_setAdd (add : List Nat) : ∀ (s : List Nat) (x : Nat),
    x ∈ add.foldl setAdd s ↔ x ∈ s ∨ x ∈ add := by
  induction add with
  | nil => simp
  | cons a rest ih =>
    intro s x
    simp only [List.foldl_cons, ih, mem_setAdd, List.mem_cons]
    constructor
    · rintro ((h | h) | h) <;> simp [h]
    · rintro (h | h | h) <;> simp [h]

theorem mem_foldl_setDiscard (rem : List Nat) : ∀ (s : List Nat) (x : Nat),
    x ∈ rem.foldl setDiscard s ↔ x ∈ s ∧ x ∉ rem := by
  induction rem with
  | nil => simp
  | cons a rest ih =>
    intro s x
    simp only [List.foldl_cons, ih, mem_setDiscard, List.mem_cons, not_or]
    constructor
    · rintro ⟨⟨h1, h2⟩, h3⟩; exact ⟨h1, h2, h3⟩
    · rintro ⟨h1, h2, h3⟩; exact ⟨⟨h1, h2⟩, h3⟩

/-! ### sorted(set) -/

theorem mem_insertSorted (x y : Nat) (l : List Nat) : y ∈ insertSorted x l ↔ y = x ∨ y ∈ l := by
  induction l with
  | nil => simp [insertSorted]
  | cons a rest ih =>
    simp only [insertSorted]
    split
    · simp
    · split
      · rename_i h; subst h; simp
      · simp only [List.mem_cons, ih]
        constructor
        · rintro (h | h | h) <;> simp [h]
        · rintro (h | h | h) <;> simp [h]

theorem mem_sortDedup (l : List Nat) (y : Nat) : y ∈ sortDedup l ↔ y ∈ l := by
  induction l with
  | nil => simp [sortDedup]
  | cons a rest ih =>
    have : sortDedup (a :: rest) = insertSorted a (sortDedup rest) := rfl
    rw [this, mem_insertSorted, ih]; simp

/-- strictly increasing -/
def StrictSorted : List Nat → Prop
  | [] => True
  | [_] => True
  | a :: b :: rest => a < b ∧ StrictSorted (b :: rest)

theorem strictSorted_tail {a : Nat} {l : List Nat} (h : StrictSorted (a :: l)) : StrictSorted l := by
  cases l with
  | nil => trivial
  | cons b rest => exact h.2

theorem strictSorted_insert (x : Nat) (l : List Nat) (h : StrictSorted l) :
    StrictSorted (insertSorted x l) := by
  induction l with
  | nil => simp [insertSorted, StrictSorted]
  | cons a rest ih =>
    simp only [insertSorted]
    split
    · exact ⟨by assumption, h⟩
    · split
      · exact h
      · rename_i h1 h2
        have hax : a < x := by omega
        have ih' := ih (strictSorted_tail h)
        cases rest with
        | nil => simp [insertSorted, StrictSorted]; exact hax
        | cons b rest' =>
          simp only [insertSorted] at ih' ⊢
          split
          · exact ⟨hax, by simpa [insertSorted, *] using ih'⟩
          · split
            · exact h
            · rename_i h3 h4
              simp only [h3, h4, if_false] at ih'
              exact ⟨h.1, ih'⟩

theorem strictSorted_sortDedup (l : List Nat) : StrictSorted (sortDedup l) := by
  induction l with
  | nil => simp [sortDedup, StrictSorted]
  | cons a rest ih => exact strictSorted_insert a _ ih

theorem strictSorted_lt_head {a : Nat} {l : List Nat} (h : StrictSorted (a :: l)) :
    ∀ x ∈ l, a < x := by
  induction l generalizing a with
  | nil => simp
  | cons b rest ih =>
    intro x hx
    rcases List.mem_cons.mp hx with hx | hx
    · subst hx; exact h.1
    · exact Nat.lt_trans h.1 (ih h.2 x hx)

/-- a strictly sorted list with at most one element is determined by its members. -/
theorem strictSorted_two {l : List Nat} (h : StrictSorted l) (hl : l.length > 1) :
    ∃ a b, a ≠ b ∧ a ∈ l ∧ b ∈ l := by
  match l, h, hl with
  | a :: b :: rest, h, _ => exact ⟨a, b, by have := h.1; omega, by simp, by simp⟩

theorem strictSorted_le_one {l : List Nat} (h : StrictSorted l)
    (huniq : ∀ a b, a ∈ l → b ∈ l → a = b) : l.length ≤ 1 := by
  match l, h with
  | [], _ => simp
  | [_], _ => simp
  | a :: b :: rest, h =>
    have := huniq a b (by simp) (by simp)
    have := h.1
    omega

/-! ### relation -/

theorem mem_addReference (m : Inv) (r t r' t' : Nat) :
    r' ∈ invGet (addReference m r t) t' ↔ r' ∈ invGet m t' ∨ (r' = r ∧ t' = t) := by
  unfold invGet addReference
  rw [aGet_aUpd]
  split
  · rename_i h; subst h; rw [mem_setAdd]; simp
  · rename_i h; simp [h]

theorem has_addReference (m : Inv) (r t t' : Nat) :
    aHas (addReference m r t) t' = (aHas m t' || decide (t' = t)) := by
  unfold addReference; exact aHas_aUpd _ _ _ _ _

theorem removeReference_ok {m m' : Inv} {r t : Nat} (h : removeReference m r t = .ok m') :
    aHas m t = true ∧ m' = aUpd [] m t (fun s => setDiscard s r) := by
  unfold removeReference at h
  split at h
  · rename_i hh; injection h with h; exact ⟨hh, h.symm⟩
  · cases h

theorem mem_removeReference {m m' : Inv} {r t : Nat} (h : removeReference m r t = .ok m')
    (r' t' : Nat) : r' ∈ invGet m' t' ↔ r' ∈ invGet m t' ∧ ¬ (r' = r ∧ t' = t) := by
  obtain ⟨_, rfl⟩ := removeReference_ok h
  unfold invGet
  rw [aGet_aUpd]
  split
  · rename_i h; subst h; rw [mem_setDiscard]; simp
  · rename_i h; simp [h]

theorem has_removeReference {m m' : Inv} {r t : Nat} (h : removeReference m r t = .ok m')
    (t' : Nat) : aHas m' t' = aHas m t' := by
  obtain ⟨hh, rfl⟩ := removeReference_ok h
  rw [aHas_aUpd]
  by_cases h2 : t' = t
  · subst h2; simp [hh]
  · simp [h2]

theorem removeRefs_spec (r : Nat) : ∀ (ts : List Nat) (m : Inv), (∀ t ∈ ts, aHas m t = true) →
    ∃ m', removeRefs m r ts = .ok m' ∧ (∀ t', aHas m' t' = aHas m t') ∧
      ∀ r' t', r' ∈ invGet m' t' ↔ r' ∈ invGet m t' ∧ ¬ (r' = r ∧ t' ∈ ts) := by
  intro ts
  induction ts with
  | nil => intro m _; exact ⟨m, rfl, fun _ => rfl, by simp⟩
  | cons t rest ih =>
    intro m hm
    have h1 : aHas m t = true := hm t (by simp)
    have hrr : removeReference m r t = .ok (aUpd [] m t (fun s => setDiscard s r)) := by
      simp [removeReference, h1]
    have hhas := has_removeReference hrr
    obtain ⟨m', hm', hk, hmem⟩ := ih _ (fun t' ht' => by rw [hhas]; exact hm t' (by simp [ht']))
    refine ⟨m', ?_, ?_, ?_⟩
    · simp only [removeRefs, hrr]; exact hm'
    · intro t'; rw [hk, hhas]
    · intro r' t'
      rw [hmem, mem_removeReference hrr]
      simp only [List.mem_cons]
      constructor
      · rintro ⟨⟨h1, h2⟩, h3⟩
        refine ⟨h1, ?_⟩
        rintro ⟨ha, hb | hb⟩
        · exact h2 ⟨ha, hb⟩
        · exact h3 ⟨ha, hb⟩
      · rintro ⟨h1, h2⟩
        exact ⟨⟨h1, fun ⟨ha, hb⟩ => h2 ⟨ha, Or.inl hb⟩⟩, fun ⟨ha, hb⟩ => h2 ⟨ha, Or.inr hb⟩⟩

theorem removeRefs_ok {m m' : Inv} {r : Nat} : ∀ {ts : List Nat}, removeRefs m r ts = .ok m' →
    ∀ t ∈ ts, aHas m t = true := by
  intro ts
  induction ts generalizing m with
  | nil => simp
  | cons t rest ih =>
    intro h t' ht'
    simp only [removeRefs] at h
    split at h
    · rename_i m1 h1
      rcases List.mem_cons.mp ht' with h2 | h2
      · subst h2; exact (removeReference_ok h1).1
      · rw [← has_removeReference h1]; exact ih h t' h2
    · cases h

theorem mem_addRefs (r : Nat) : ∀ (ts : List Nat) (m : Inv) (r' t' : Nat),
    r' ∈ invGet (addRefs m r ts) t' ↔ r' ∈ invGet m t' ∨ (r' = r ∧ t' ∈ ts) := by
  intro ts
  induction ts with
  | nil => simp [addRefs]
  | cons t rest ih =>
    intro m r' t'
    simp only [addRefs, ih, mem_addReference, List.mem_cons]
    constructor
    · rintro ((h | ⟨h1, h2⟩) | ⟨h1, h2⟩)
      · exact Or.inl h
      · exact Or.inr ⟨h1, Or.inl h2⟩
      · exact Or.inr ⟨h1, Or.inr h2⟩
    · rintro (h | ⟨h1, h2 | h2⟩)
      · exact Or.inl (Or.inl h)
      · exact Or.inl (Or.inr ⟨h1, h2⟩)
      · exact Or.inr ⟨h1, h2⟩

/-! ### columns -/

/-- "the reverse index is exact": `r ∈ inverse_map[t]` iff row `r`'s cell refers to `t`. -/
def Exact (c : Col) : Prop := ∀ t r, r ∈ invGet c.inv t ↔ t ∈ refs c.kind (rawGet c r)

theorem getD_growSet (d : Cell) : ∀ (l : List Cell) (r : Nat) (v : Cell) (j : Nat),
    (growSet d l r v).getD j d = if j = r then v else l.getD j d := by
  intro l
  induction l with
  | nil =>
    intro r
    induction r with
    | zero => intro v j; cases j <;> simp [growSet]
    | succ n ih =>
      intro v j
      cases j with
      | zero => simp [growSet]
      | succ j => simp only [growSet, List.getD_cons_succ, ih]; simp
  | cons x xs ih =>
    intro r v j
    cases r with
    | zero => cases j <;> simp [growSet]
    | succ n =>
      cases j with
      | zero => simp [growSet]
      | succ j => simp only [growSet, List.getD_cons_succ, ih]; simp

theorem refs_dflt (k : Kind) : refs k (dflt k) = [] := by cases k <;> simp [dflt, refs]

theorem refs_of_not_rightType {k : Kind} {v : Cell} (h : rightType k v = false) : refs k v = [] := by
  cases k <;> cases v <;> simp_all [rightType, refs]

theorem refs_safeGet (c : Col) (r : Nat) : refs c.kind (safeGet c r) = refs c.kind (rawGet c r) := by
  unfold safeGet
  simp only
  split
  · rfl
  · rename_i h
    rw [refs_dflt, refs_of_not_rightType (by simpa using h)]

theorem has_of_mem {m : Inv} {t r : Nat} (h : r ∈ invGet m t) : aHas m t = true := by
  apply aHas_of_aGet_ne ([] : List Nat)
  intro h2
  unfold invGet at h
  rw [h2] at h
  cases h

/-- `set` keeps the index exact and never raises on an exact column. -/
theorem setCell_spec {c : Col} (hc : Exact c) (r : Nat) (v : Cell) :
    ∃ c', setCell c r v = .ok c' ∧ Exact c' ∧ c'.kind = c.kind ∧
      ∀ j, rawGet c' j = if j = r then v else rawGet c j := by
  obtain ⟨k, data, inv⟩ := c
  have hraw : ∀ (m : Inv) j, rawGet ⟨k, growSet (dflt k) data r v, m⟩ j
      = if j = r then v else rawGet ⟨k, data, inv⟩ j := by
    intro m j; unfold rawGet; exact getD_growSet _ _ _ _ _
  have hold : ∀ t ∈ refs k (safeGet ⟨k, data, inv⟩ r), aHas inv t = true := by
    intro t ht
    have := refs_safeGet ⟨k, data, inv⟩ r
    simp only at this
    rw [this] at ht
    exact has_of_mem ((hc t r).mpr ht)
  obtain ⟨m1, hm1, _, hmem1⟩ := removeRefs_spec r _ inv hold
  refine ⟨⟨k, growSet (dflt k) data r v,
      addRefs m1 r (refs k (safeGet ⟨k, growSet (dflt k) data r v, inv⟩ r))⟩, ?_, ?_, rfl, ?_⟩
  · simp only [setCell, updateReferences, hm1]
  · intro t r'
    simp only
    rw [mem_addRefs, hmem1]
    have e0 := hc t r'
    simp only at e0
    rw [e0]
    have e2 := refs_safeGet ⟨k, growSet (dflt k) data r v, inv⟩ r
    have e3 := refs_safeGet ⟨k, data, inv⟩ r
    simp only at e2 e3
    rw [e2, e3, hraw, hraw]
    by_cases h : r' = r
    · subst h
      simp only [if_true, true_and]
      constructor
      · rintro (⟨h1, h2⟩ | h)
        · exact absurd h1 h2
        · exact h
      · intro h; exact Or.inr h
    · simp [h]
  · intro j; exact hraw _ j

theorem newCol_exact (k : Kind) : Exact (newCol k) := by
  intro t r
  simp only [newCol, invGet, aGet, rawGet]
  cases r with
  | zero => simp [refs_dflt]
  | succ n => simp [refs_dflt]

/-! ### copy_from_column / clear -/

theorem mem_addAll (k : Kind) : ∀ (vs : List Cell) (m : Inv) (i r t : Nat),
    r ∈ invGet (addAll k m i vs) t ↔
      r ∈ invGet m t ∨ ∃ j, r = i + j ∧ j < vs.length ∧ t ∈ refs k (vs.getD j (dflt k)) := by
  intro vs
  induction vs with
  | nil => intro m i r t; simp [addAll]
  | cons v rest ih =>
    intro m i r t
    simp only [addAll]
    rw [ih]
    have hstep : r ∈ invGet (if rightType k v = true then addRefs m i (refs k v) else m) t ↔
        r ∈ invGet m t ∨ (r = i ∧ t ∈ refs k v) := by
      split
      · exact mem_addRefs _ _ _ _ _
      · rename_i h
        rw [refs_of_not_rightType (by simpa using h)]; simp
    rw [hstep]
    constructor
    · rintro ((h | ⟨h1, h2⟩) | ⟨j, h1, h2, h3⟩)
      · exact Or.inl h
      · exact Or.inr ⟨0, by omega, by simp, by simpa using h2⟩
      · exact Or.inr ⟨j + 1, by omega, by simp; omega, by simpa using h3⟩
    · rintro (h | ⟨j, h1, h2, h3⟩)
      · exact Or.inl (Or.inl h)
      · cases j with
        | zero => exact Or.inl (Or.inr ⟨by omega, by simpa using h3⟩)
        | succ j =>
          refine Or.inr ⟨j, by omega, by simpa using h2, by simpa using h3⟩

theorem copyFrom_exact (c : Col) (d : List Cell) : Exact (copyFrom c d) := by
  intro t r
  simp only [copyFrom, rawGet]
  rw [mem_addAll]
  simp only [invGet, aGet, List.not_mem_nil, false_or, Nat.zero_add]
  constructor
  · rintro ⟨j, rfl, _, h⟩; exact h
  · intro h
    by_cases hr : r < d.length
    · exact ⟨r, rfl, hr, h⟩
    · have hd : d.getD r (dflt c.kind) = dflt c.kind := by
        simp [List.getD, List.getElem?_eq_none (Nat.le_of_not_lt hr)]
      rw [hd, refs_dflt] at h; cases h

theorem clearData_exact {c : Col} (hc : Exact c) (h : ∀ r, refs c.kind (rawGet c r) = []) :
    Exact (clearData c) := by
  intro t r
  have h1 : ¬ r ∈ invGet c.inv t := by rw [hc, h]; simp
  have h2 : refs c.kind (rawGet (clearData c) r) = [] := by
    simp only [clearData, rawGet]
    cases r with
    | zero => simp [refs_dflt]
    | succ n => simp [refs_dflt]
  simp only [clearData] at h2 ⊢
  rw [h2]
  simp only [List.not_mem_nil, iff_false]
  exact h1

/-! ### doc actions on one column -/

/-- the value written last to row `b` by a list of `(row, value)` writes. -/
def lastVal : List (Nat × Cell) → Nat → Option Cell
  | [], _ => none
  | (r, v) :: rest, b => match lastVal rest b with
    | some w => some w
    | none => if r = b then some v else none

theorem applyCells_spec : ∀ (ups : List (Nat × Cell)) {c : Col}, Exact c →
    ∃ c', applyCells c ups = .ok c' ∧ Exact c' ∧ c'.kind = c.kind ∧
      ∀ j, rawGet c' j = (lastVal ups j).getD (rawGet c j) := by
  intro ups
  induction ups with
  | nil => intro c hc; exact ⟨c, rfl, hc, rfl, by simp [lastVal]⟩
  | cons e rest ih =>
    intro c hc
    obtain ⟨r, v⟩ := e
    obtain ⟨c1, h1, hc1, hk1, hg1⟩ := setCell_spec hc r v
    obtain ⟨c2, h2, hc2, hk2, hg2⟩ := ih hc1
    refine ⟨c2, by simp only [applyCells, h1]; exact h2, hc2, by rw [hk2, hk1], ?_⟩
    intro j
    rw [hg2, hg1]
    simp only [lastVal]
    cases lastVal rest j with
    | some w => simp
    | none =>
      by_cases h : r = j
      · subst h; simp
      · have : ¬ j = r := fun hh => h hh.symm
        simp [h, this]

theorem lastVal_map (g : Nat → Cell) : ∀ (l : List Nat) (j : Nat),
    lastVal (l.map (fun r => (r, g r))) j = if j ∈ l then some (g j) else none := by
  intro l
  induction l with
  | nil => simp [lastVal]
  | cons a rest ih =>
    intro j
    simp only [List.map_cons, lastVal, ih]
    by_cases h : j ∈ rest
    · simp [h]
    · simp only [h, if_false, List.mem_cons, or_false]
      by_cases h2 : a = j
      · subst h2; simp
      · have : ¬ j = a := fun hh => h2 hh.symm
        simp [h2, this]

theorem unsetRows_spec : ∀ (rs : List Nat) {c : Col}, Exact c →
    ∃ c', unsetRows c rs = .ok c' ∧ Exact c' ∧ c'.kind = c.kind ∧
      ∀ j, rawGet c' j = if j ∈ rs then dflt c.kind else rawGet c j := by
  intro rs
  induction rs with
  | nil => intro c hc; exact ⟨c, rfl, hc, rfl, by simp⟩
  | cons r rest ih =>
    intro c hc
    obtain ⟨c1, h1, hc1, hk1, hg1⟩ := setCell_spec hc r (dflt c.kind)
    obtain ⟨c2, h2, hc2, hk2, hg2⟩ := ih hc1
    refine ⟨c2, by simp only [unsetRows, unsetCell, h1]; exact h2, hc2, by rw [hk2, hk1], ?_⟩
    intro j
    rw [hg2, hg1, hk1]
    by_cases h : j ∈ rest
    · simp [h]
    · by_cases h2 : j = r <;> simp [h, h2]

/-! ### C10: clean-up of references to removed rows -/

/-- does the cell refer to one of `rows`? -/
def hits (k : Kind) (rows : List Nat) (v : Cell) : Bool := (refs k v).any (fun x => rows.contains x)

/-- What the clean-up is specified to do with one cell (the property's clauses as a function):
    a Ref pointing into `rows` becomes 0; a RefList loses the ids in `rows`, keeps the order of the
    others and becomes None when nothing remains; every other cell stays as it is. -/
def cleanCell (k : Kind) (rows : List Nat) (v : Cell) : Cell :=
  if hits k rows v then
    match k, v with
    | .ref, _ => .ref 0
    | .refList, .refList l =>
      let l' := l.filter (fun x => !(rows.contains x))
      if l'.isEmpty then .none else .refList l'
    | _, v => v
  else v

theorem rawGetWithout_of_hits {c : Col} {r : Nat} {rows : List Nat}
    (h : hits c.kind rows (rawGet c r) = true) :
    rawGetWithout c r rows = .ok (cleanCell c.kind rows (rawGet c r)) := by
  unfold rawGetWithout cleanCell
  rw [h]
  cases hk : c.kind with
  | ref => simp [dflt]
  | refList =>
    rw [hk] at h
    cases hv : rawGet c r with
    | refList l => simp
    | none => rw [hv] at h; simp [hits, refs] at h
    | ref n => simp
    | alt => simp

theorem withoutAll_spec {c : Col} {rows : List Nat} : ∀ (aff : List Nat),
    (∀ r ∈ aff, hits c.kind rows (rawGet c r) = true) →
    withoutAll c rows aff = .ok (aff.map (fun r => (r, cleanCell c.kind rows (rawGet c r)))) := by
  intro aff
  induction aff with
  | nil => intro _; rfl
  | cons r rest ih =>
    intro h
    simp only [withoutAll, rawGetWithout_of_hits (h r (by simp)),
      ih (fun r' hr' => h r' (by simp [hr'])), List.map_cons]

theorem mem_affected {c : Col} (hc : Exact c) (rows : List Nat) (r : Nat) :
    r ∈ sortDedup (affectedRows c.inv rows) ↔ hits c.kind rows (rawGet c r) = true := by
  rw [mem_sortDedup]
  simp only [affectedRows, List.mem_flatMap, hits, List.any_eq_true, List.contains_iff_mem]
  constructor
  · rintro ⟨t, ht, hr⟩; exact ⟨t, (hc t r).mp hr, ht⟩
  · rintro ⟨t, ht, hr⟩; exact ⟨t, hr, (hc t r).mpr ht⟩

theorem cleanCell_of_not_hits {k : Kind} {rows : List Nat} {v : Cell} (h : hits k rows v = false) :
    cleanCell k rows v = v := by
  simp [cleanCell, h]

/-- On a column whose index is exact, the clean-up never raises and rewrites every cell to
    `cleanCell` of its old value (the rows found through the index are exactly the ones to change). -/
theorem cleanRemoved_spec {c : Col} (hc : Exact c) (rows : List Nat) :
    ∃ c', cleanRemoved c rows = .ok c' ∧ Exact c' ∧ c'.kind = c.kind ∧
      ∀ j, rawGet c' j = cleanCell c.kind rows (rawGet c j) := by
  have hups := withoutAll_spec (c := c) (rows := rows) (sortDedup (affectedRows c.inv rows))
    (fun r hr => (mem_affected hc rows r).mp hr)
  obtain ⟨c', h1, h2, h3, h4⟩ := applyCells_spec
    ((sortDedup (affectedRows c.inv rows)).map (fun r => (r, cleanCell c.kind rows (rawGet c r)))) hc
  refine ⟨c', ?_, h2, h3, ?_⟩
  · simp only [cleanRemoved, updatesForRemovedTargets, hups]; exact h1
  · intro j
    rw [h4, lastVal_map]
    by_cases hj : j ∈ sortDedup (affectedRows c.inv rows)
    · simp [hj]
    · simp only [hj, if_false, Option.getD_none]
      rw [mem_affected hc] at hj
      exact (cleanCell_of_not_hits (by simpa using hj)).symm

theorem refs_cleanCell (k : Kind) (rows : List Nat) (v : Cell) (t : Nat) :
    t ∈ refs k (cleanCell k rows v) ↔ t ∈ refs k v ∧ t ∉ rows := by
  unfold cleanCell
  by_cases hh : hits k rows v = true
  · rw [if_pos hh]
    cases k with
    | ref =>
      cases v with
      | ref n =>
        simp only [hits, refs, List.any_eq_true, List.contains_iff_mem] at hh ⊢
        obtain ⟨x, hx, hr⟩ := hh
        by_cases hn : n = 0
        · simp [hn] at hx
        · simp only [hn, if_false, List.mem_singleton] at hx ⊢
          subst hx
          simp only [if_true, List.not_mem_nil, false_iff, not_and, Classical.not_not]
          intro h; subst h; exact hr
      | refList l => simp [hits, refs] at hh
      | none => simp [hits, refs] at hh
      | alt => simp [hits, refs] at hh
    | refList =>
      cases v with
      | refList l =>
        simp only
        split
        · rename_i he
          simp only [refs, List.not_mem_nil, false_iff, not_and, Classical.not_not]
          intro ht
          simp only [List.isEmpty_iff, List.filter_eq_nil_iff] at he
          have := he t ht
          simpa using this
        · simp [refs, List.mem_filter]
      | ref n => simp [hits, refs] at hh
      | none => simp [hits, refs] at hh
      | alt => simp [hits, refs] at hh
  · rw [if_neg hh]
    simp only [hits, List.any_eq_true, List.contains_iff_mem, not_exists, not_and] at hh
    constructor
    · intro h; exact ⟨h, hh t h⟩
    · intro h; exact h.1

end Grist.Refs
