/-
Recalc: the strong fixpoint form for recalculation runs, under prefix-determinism of reads:
a circ-marked cell is *doomed* — its reads reach, through clean prefixes, a clean `circ` cell or a
dirty doomed cell — so by strictness its formula evaluates to `circ` once everything is clean.
-/
import GristProofs.RecalcInv
namespace Grist.Recalc

/-- the evaluation reads cell after cell: having read the same values so far, it reads the same
    cell next (what a deterministic program does; `Respects` alone does not fix the order) -/
def Prog.PrefixDet (p : Prog) : Prop :=
  ∀ c σ σ' pre d post, p.reads c σ = pre ++ d :: post → (∀ x ∈ pre, σ x = σ' x) →
    ∃ post', p.reads c σ' = pre ++ d :: post'

/-- `c` is doomed to evaluate to `circ` -/
inductive Doom (p : Prog) (st : State) : Nat → Prop
  | base {c : Nat} {pre : List Nat} {d : Nat} {post : List Nat} :
      p.reads c st.σ = pre ++ d :: post → (∀ x ∈ pre, x ∉ st.dirty) → d ∉ st.dirty →
      st.σ d = V.circ → Doom p st c
  | link {c : Nat} {pre : List Nat} {d : Nat} {post : List Nat} :
      p.reads c st.σ = pre ++ d :: post → (∀ x ∈ pre, x ∉ st.dirty) → d ∈ st.dirty →
      Doom p st d → Doom p st c

/-- the strengthened invariant: a clean formula cell is good, or holds `circ` and is doomed -/
def Inv2 (p : Prog) (n : Nat) (st : State) : Prop :=
  ∀ c, c < n → p.formula c = true → c ∉ st.dirty →
    Good p st c ∨ (st.σ c = V.circ ∧ Doom p st c)

theorem Inv2.of_all_dirty {p : Prog} {n : Nat} {st : State}
    (h : ∀ c, c < n → p.formula c = true → c ∈ st.dirty) : Inv2 p n st :=
  fun c hc hf hnd => absurd (h c hc hf) hnd

theorem Doom.f_circ {p : Prog} (hs : p.Strict) {st : State} {c : Nat} (h : Doom p st c)
    (hb : blocker p st c = none) : p.f c st.σ = V.circ := by
  have hb' := blocker_eq_none.mp hb
  cases h with
  | base hr _ _ hc => exact hs c st.σ ⟨_, by rw [hr]; simp, hc⟩
  | link hr _ hd _ => exact absurd hd (hb' _ (by rw [hr]; simp))

theorem Doom.step {p : Prog} (hp : p.PrefixDet) {st : State} {c0 : Nat} {v : V}
    (hc0 : c0 ∈ st.dirty) (hv : Doom p st c0 → v = V.circ) {c : Nat} (h : Doom p st c) :
    Doom p { σ := upd st.σ c0 v, dirty := st.dirty.filter (· != c0) } c := by
  induction h with
  | @base c pre d post hr hpre hd hc =>
    have hnp : c0 ∉ pre := fun hm => hpre c0 hm hc0
    obtain ⟨post', hr'⟩ := hp c st.σ (upd st.σ c0 v) pre d post hr (upd_agree_of_not_mem hnp)
    refine .base hr' (fun x hx hm => hpre x hx (mem_filter_ne.mp hm).1)
      (fun hm => hd (mem_filter_ne.mp hm).1) ?_
    have : d ≠ c0 := fun e => hd (e ▸ hc0)
    show upd st.σ c0 v d = V.circ
    simp [upd, this, hc]
  | @link c pre d post hr hpre hd hdoom ih =>
    have hnp : c0 ∉ pre := fun hm => hpre c0 hm hc0
    obtain ⟨post', hr'⟩ := hp c st.σ (upd st.σ c0 v) pre d post hr (upd_agree_of_not_mem hnp)
    have hpre' : ∀ x ∈ pre, x ∉ st.dirty.filter (· != c0) :=
      fun x hx hm => hpre x hx (mem_filter_ne.mp hm).1
    by_cases hdc : d = c0
    · subst hdc
      refine .base hr' hpre' (fun hm => (mem_filter_ne.mp hm).2 rfl) ?_
      show upd st.σ d v d = V.circ
      simp [upd, hv hdoom]
    · exact .link hr' hpre' (mem_filter_ne.mpr ⟨hd, hdc⟩) ih

theorem doom_of_blockCycle {p : Prog} (hp : p.PrefixDet) {st : State} {c0 : Nat}
    (hc0 : c0 ∈ st.dirty) : ∀ (fuel cur : Nat), blockCycle p st c0 fuel cur = true →
      Doom p { σ := upd st.σ c0 V.circ, dirty := st.dirty.filter (· != c0) } cur := by
  intro fuel
  induction fuel with
  | zero => intro cur h; simp [blockCycle] at h
  | succ fuel ih =>
    intro cur h
    simp only [blockCycle] at h
    split at h
    · cases h
    · rename_i d hd
      have hdd := (blocker_eq_some hd).2
      unfold blocker at hd
      obtain ⟨_, pre, post, hr, hpre⟩ := List.find?_eq_some_iff_append.mp hd
      have hpre0 : ∀ x ∈ pre, x ∉ st.dirty := by
        intro x hx; simpa using hpre x hx
      have hnp : c0 ∉ pre := fun hm => hpre0 c0 hm hc0
      obtain ⟨post', hr'⟩ := hp cur st.σ (upd st.σ c0 V.circ) pre d post hr
        (upd_agree_of_not_mem hnp)
      have hpre' : ∀ x ∈ pre, x ∉ st.dirty.filter (· != c0) :=
        fun x hx hm => hpre0 x hx (mem_filter_ne.mp hm).1
      by_cases hdc : d = c0
      · subst hdc
        refine .base hr' hpre' (fun hm => (mem_filter_ne.mp hm).2 rfl) ?_
        show upd st.σ d V.circ d = V.circ
        simp [upd]
      · have hne : (d == c0) = false := by simpa using hdc
        simp only [hne, Bool.false_or, Bool.and_eq_true] at h
        exact .link hr' hpre' (mem_filter_ne.mpr ⟨hdd, hdc⟩) (ih d h.2)

/-- eval / circ preserve the strengthened invariant -/
theorem inv2_calc_step {p : Prog} (hr : p.Respects) (hs : p.Strict) (hp : p.PrefixDet) {n : Nat}
    {st st' : State} {e : Ev} (he : e.isCalc = true) (hi : Inv2 p n st)
    (h : step p n st e = some st') : Inv2 p n st' := by
  -- common part: the clean cells other than the one handled
  have common : ∀ (c0 : Nat) (v : V), c0 ∈ st.dirty → (Doom p st c0 → v = V.circ) →
      ∀ k, k ≠ c0 → k < n → p.formula k = true → k ∉ st.dirty.filter (· != c0) →
        Good p { σ := upd st.σ c0 v, dirty := st.dirty.filter (· != c0) } k ∨
        (upd st.σ c0 v k = V.circ ∧
          Doom p { σ := upd st.σ c0 v, dirty := st.dirty.filter (· != c0) } k) := by
    intro c0 v hc0 hv k hkc hk hf hnd
    have hnd' : k ∉ st.dirty := fun h => hnd (mem_filter_ne.mpr ⟨h, hkc⟩)
    rcases hi k hk hf hnd' with hg | ⟨h1, h2⟩
    · refine .inl (hg.upd hr hkc (fun h => hg.1 c0 h hc0) ?_)
      intro d hd hm; exact hg.1 d hd (mem_filter_ne.mp hm).1
    · exact .inr ⟨by simp [upd, hkc, h1], h2.step hp hc0 hv⟩
  cases e with
  | write c v => cases he
  | eval c0 =>
    obtain ⟨⟨hlt, hf, hd, hb⟩, rfl⟩ := step_eval_iff.mp h
    intro k hk hfk hnd
    by_cases hkc : k = c0
    · subst hkc
      have hb' := blocker_eq_none.mp hb
      have hnr : k ∉ p.reads k st.σ := fun hm => hb' k hm hd
      obtain ⟨e1, e2⟩ := hr.2 k st.σ (upd st.σ k (p.f k st.σ)) (upd_agree_of_not_mem hnr)
      refine .inl ⟨?_, ?_⟩
      · show ∀ d ∈ p.reads k (upd st.σ k (p.f k st.σ)), d ∉ st.dirty.filter (· != k)
        rw [e1]; intro d hd' hm; exact hb' d hd' (mem_filter_ne.mp hm).1
      · show upd st.σ k (p.f k st.σ) k = p.f k (upd st.σ k (p.f k st.σ))
        rw [e2]; simp [upd]
    · exact common c0 _ hd (fun hdoom => hdoom.f_circ hs hb) k hkc hk hfk hnd
  | circ c0 =>
    obtain ⟨⟨hlt, hf, hd, hb⟩, rfl⟩ := step_circ_iff.mp h
    intro k hk hfk hnd
    by_cases hkc : k = c0
    · subst hkc
      exact .inr ⟨by simp [upd], doom_of_blockCycle hp hd n k hb⟩
    · exact common c0 _ hd (fun _ => rfl) k hkc hk hfk hnd

theorem inv2_calc_run {p : Prog} (hr : p.Respects) (hs : p.Strict) (hp : p.PrefixDet) {n : Nat} :
    ∀ (es : List Ev) {st st' : State}, (∀ e ∈ es, e.isCalc = true) → Inv2 p n st →
      run p n st es = some st' → Inv2 p n st' := by
  intro es
  induction es with
  | nil => intro st st' _ hi h; simp only [run, Option.some.injEq] at h; subst h; exact hi
  | cons e es ih =>
    intro st st' hc hi h
    obtain ⟨st1, h1, h2⟩ := run_cons_some h
    exact ih (fun e he => hc e (List.mem_cons_of_mem _ he))
      (inv2_calc_step hr hs hp (hc e (by simp)) hi h1) h2

theorem inv2_quiescent {p : Prog} (hs : p.Strict) {n : Nat} {st : State} (hi : Inv2 p n st)
    (hq : st.dirty = []) : ∀ c, c < n → p.formula c = true → st.σ c = p.f c st.σ := by
  intro c hc hf
  rcases hi c hc hf (by simp [hq]) with hg | ⟨h1, h2⟩
  · exact hg.2
  · rw [h1]
    cases h2 with
    | base hr _ _ hcirc => exact (hs c st.σ ⟨_, by rw [hr]; simp, hcirc⟩).symm
    | link _ _ hd _ => rw [hq] at hd; cases hd

/-! ### writes preserve the strengthened invariant too -/

theorem Doom.write {p : Prog} (hr : p.Respects) {n : Nat} {st : State} (hw : WFState p n st)
    {c0 : Nat} {v : V} {D' : List Nat}
    (hD : ∀ k, k ∈ D' ↔ k < n ∧ (k ∈ st.dirty ∨ (k ≠ c0 ∧ k ∈ closure p n [c0])))
    (hc0 : c0 ∈ closure p n [c0]) {c : Nat} (h : Doom p st c) :
    c < n → p.formula c = true → c ∉ closure p n [c0] →
    Doom p { σ := upd st.σ c0 v, dirty := D' } c := by
  induction h with
  | @base c pre d post hrd hpre hd hcirc =>
    intro hc hf hncl
    have hout : ∀ x ∈ p.reads c st.σ, x ∉ closure p n [c0] :=
      fun x hx hm => hncl (closure_closed p n [c0] hm hc hf (hr.1 _ _ _ hx))
    have hnr : c0 ∉ p.reads c st.σ := fun hm => hout c0 hm hc0
    have e1 := (hr.2 c st.σ (upd st.σ c0 v) (upd_agree_of_not_mem hnr)).1
    have hclean : ∀ x ∈ p.reads c st.σ, x ∉ st.dirty → x ∉ D' := by
      intro x hx hnd hm
      rcases ((hD x).mp hm).2 with h' | ⟨_, h'⟩
      · exact hnd h'
      · exact hout x hx h'
    have hdm : d ∈ p.reads c st.σ := by rw [hrd]; simp
    refine .base (e1.trans hrd) (fun x hx => hclean x (by rw [hrd]; simp [hx]) (hpre x hx))
      (hclean d hdm hd) ?_
    have : d ≠ c0 := fun e => hnr (e ▸ hdm)
    show upd st.σ c0 v d = V.circ
    simp [upd, this, hcirc]
  | @link c pre d post hrd hpre hd _ ih =>
    intro hc hf hncl
    have hout : ∀ x ∈ p.reads c st.σ, x ∉ closure p n [c0] :=
      fun x hx hm => hncl (closure_closed p n [c0] hm hc hf (hr.1 _ _ _ hx))
    have hnr : c0 ∉ p.reads c st.σ := fun hm => hout c0 hm hc0
    have e1 := (hr.2 c st.σ (upd st.σ c0 v) (upd_agree_of_not_mem hnr)).1
    have hdm : d ∈ p.reads c st.σ := by rw [hrd]; simp
    obtain ⟨hfd, hdn⟩ := hw.dirty_formula d hd
    refine .link (e1.trans hrd) ?_ ((hD d).mpr ⟨hdn, .inl hd⟩) (ih hdn hfd (hout d hdm))
    intro x hx hm
    rcases ((hD x).mp hm).2 with h' | ⟨_, h'⟩
    · exact hpre x hx h'
    · exact hout x (by rw [hrd]; simp [hx]) h'

/-- every transition preserves `Inv2` (given well-formedness) -/
theorem inv2_step {p : Prog} (hr : p.Respects) (hs : p.Strict) (hp : p.PrefixDet) {n : Nat}
    {st st' : State} {e : Ev} (hw : WFState p n st) (hi : Inv2 p n st)
    (h : step p n st e = some st') : Inv2 p n st' := by
  cases e with
  | eval c => exact inv2_calc_step hr hs hp rfl hi h
  | circ c => exact inv2_calc_step hr hs hp rfl hi h
  | write c0 v =>
    obtain ⟨⟨hnf, hlt⟩, rfl⟩ := step_write_iff.mp h
    have hmem : ∀ k, k ∈ (List.range n).filter (fun k => st.dirty.contains k ||
        (k != c0 && (closure p n [c0]).contains k)) ↔
        k < n ∧ (k ∈ st.dirty ∨ (k ≠ c0 ∧ k ∈ closure p n [c0])) := by
      intro k; simp [List.mem_filter]
    have hc0cl : c0 ∈ closure p n [c0] := closure_seed p n [c0] (by simp) hlt
    intro k hk hf hnd
    have hkc : k ≠ c0 := fun e => by rw [e, hnf] at hf; cases hf
    have hnd0 : k ∉ st.dirty := fun hm => hnd ((hmem k).mpr ⟨hk, .inl hm⟩)
    have hncl : k ∉ closure p n [c0] := fun hm => hnd ((hmem k).mpr ⟨hk, .inr ⟨hkc, hm⟩⟩)
    rcases hi k hk hf hnd0 with hg | ⟨h1, h2⟩
    · refine .inl (hg.upd hr hkc ?_ ?_)
      · intro hm
        exact hncl (closure_closed p n [c0] hc0cl hk hf (hr.1 _ _ _ hm))
      · intro d hd hm
        rcases ((hmem d).mp hm).2 with h' | ⟨_, h'⟩
        · exact hg.1 d hd h'
        · exact hncl (closure_closed p n [c0] h' hk hf (hr.1 _ _ _ hd))
    · exact .inr ⟨by simp [upd, hkc, h1], h2.write hr hw hmem hc0cl hk hf hncl⟩

/-- … hence every accepted run (writes included) from a state with both invariants does -/
theorem inv2_run {p : Prog} (hr : p.Respects) (hs : p.Strict) (hp : p.PrefixDet) {n : Nat} :
    ∀ (es : List Ev) {st st' : State}, WFState p n st → Inv p n st → Inv2 p n st →
      run p n st es = some st' → Inv2 p n st' := by
  intro es
  induction es with
  | nil => intro st st' _ _ hi h; simp only [run, Option.some.injEq] at h; subst h; exact hi
  | cons e es ih =>
    intro st st' hw hi hi2 h
    obtain ⟨st1, h1, h2⟩ := run_cons_some h
    obtain ⟨hi1, hw1⟩ := inv_step hr hw hi h1
    exact ih hw1 hi1 (inv2_step hr hs hp hw hi2 h1) h2

/-! ### `sumProg` is prefix-deterministic -/

theorem sumReads_go_prefix (σ σ' : Nat → V) : ∀ (l pre : List Nat) (d : Nat) (post : List Nat),
    sumReads.go σ l = pre ++ d :: post → (∀ x ∈ pre, σ x = σ' x) →
    ∃ post', sumReads.go σ' l = pre ++ d :: post' := by
  intro l
  induction l with
  | nil => intro pre d post h _; simp [sumReads.go] at h
  | cons x xs ih =>
    intro pre d post h hag
    cases pre with
    | nil =>
      have hx : x = d := by
        simp only [sumReads.go] at h
        split at h <;> simp_all
      subst hx
      simp only [sumReads.go]
      split
      · exact ⟨[], rfl⟩
      · exact ⟨_, rfl⟩
    | cons y pre' =>
      simp only [sumReads.go] at h
      split at h
      · simp at h
      · rename_i hc
        simp only [List.cons_append, List.cons.injEq] at h
        obtain ⟨rfl, h⟩ := h
        have hx : σ x = σ' x := hag x (by simp)
        obtain ⟨post', hp⟩ := ih pre' d post h (fun z hz => hag z (by simp [hz]))
        refine ⟨post', ?_⟩
        simp only [sumReads.go]
        rw [← hx]
        simp [hc, hp]

theorem sumProg_prefixDet (formula : Nat → Bool) (deps : Nat → List Nat) (konst : Nat → Int) :
    (sumProg formula deps konst).PrefixDet := by
  intro c σ σ' pre d post h hag
  exact sumReads_go_prefix σ σ' (deps c) pre d post h hag

end Grist.Recalc
