/-
Helper lemmas for GristProps/C20.lean (model: GristModel/Relabel.lean).
Everything is about an arbitrary lawful linear order `K`; `Float` is never mentioned.
-/
import GristModel.Relabel
set_option linter.unusedSectionVars false
set_option linter.unusedSimpArgs false
set_option linter.unnecessarySimpa false
namespace Grist.Relabel
open Std

section Order
variable {K : Type} [LT K] [LE K] [DecidableLT K] [DecidableLE K] [IsLinearOrder K] [LawfulOrderLT K]

/-! ### keq / kne -/

theorem keq_iff (a b : K) : keq a b = true ↔ a = b := by
  unfold keq; simp only [Bool.and_eq_true, Bool.not_eq_true', decide_eq_false_iff_not]; grind

theorem kne_iff (a b : K) : kne a b = true ↔ a ≠ b := by
  unfold kne; simp only [Bool.or_eq_true, decide_eq_true_eq]; grind

/-! ### bisectLeft -/

theorem bisectLeft_le_length (xs : List K) (k : K) : bisectLeft xs k ≤ xs.length := by
  induction xs with
  | nil => simp [bisectLeft]
  | cons x xs ih => simp only [bisectLeft]; split <;> simp <;> omega

/-- everything before the bisection point is `< k` (no sortedness needed). -/
theorem bisectLeft_lt (xs : List K) (k : K) : ∀ i x, xs[i]? = some x → i < bisectLeft xs k → x < k := by
  induction xs with
  | nil => intro i x h; simp at h
  | cons y ys ih =>
    intro i x h hi
    simp only [bisectLeft] at hi
    split at hi
    · cases i with
      | zero => simp at h; subst h; assumption
      | succ j => simp at h; exact ih j x h (by omega)
    · omega

/-- on a sorted list everything from the bisection point on is `≥ k`. -/
theorem bisectLeft_ge (xs : List K) (k : K) (hs : xs.Pairwise (· ≤ ·)) :
    ∀ i x, xs[i]? = some x → bisectLeft xs k ≤ i → k ≤ x := by
  induction xs with
  | nil => intro i x h; simp at h
  | cons y ys ih =>
    intro i x h hi
    simp only [bisectLeft] at hi
    rw [List.pairwise_cons] at hs
    split at hi
    · cases i with
      | zero => omega
      | succ j => simp at h; exact ih hs.2 j x h (by omega)
    · rename_i hy
      cases i with
      | zero => simp at h; subst h; grind
      | succ j =>
        simp at h
        have := hs.1 x (List.mem_of_getElem? h)
        grind

theorem bisectLeft_mono (xs : List K) (k k' : K) (h : k ≤ k') : bisectLeft xs k ≤ bisectLeft xs k' := by
  induction xs with
  | nil => simp [bisectLeft]
  | cons y ys ih =>
    simp only [bisectLeft]
    split
    · have : y < k' := by grind
      simp [this]; exact ih
    · omega

/-! ### strictlyInc / Pairwise -/

theorem strictlyInc_iff (l : List K) : strictlyInc l = true ↔ l.Pairwise (· < ·) := by
  induction l with
  | nil => simp [strictlyInc]
  | cons a t ih =>
    cases t with
    | nil => simp [strictlyInc]
    | cons b t' =>
      simp only [strictlyInc, Bool.and_eq_true, decide_eq_true_eq, ih]
      constructor
      · rintro ⟨hab, ht⟩
        rw [List.pairwise_cons]
        refine ⟨?_, ht⟩
        intro c hc
        rw [List.pairwise_cons] at ht
        rcases List.mem_cons.mp hc with rfl | hc'
        · exact hab
        · have := ht.1 c hc'; grind
      · intro h
        rw [List.pairwise_cons] at h
        exact ⟨h.1 b (by simp), h.2⟩

theorem pairwise_lt_getElem? {l : List K} (h : l.Pairwise (· < ·)) :
    ∀ (i j : Nat) (x y : K), i < j → l[i]? = some x → l[j]? = some y → x < y := by
  intro i j x y hij hx hy
  rw [List.pairwise_iff_getElem] at h
  obtain ⟨hi, rfl⟩ := List.getElem?_eq_some_iff.mp hx
  obtain ⟨hj, rfl⟩ := List.getElem?_eq_some_iff.mp hy
  exact h i j hi hj hij

theorem pairwise_le_getElem? {l : List K} (h : l.Pairwise (· ≤ ·)) :
    ∀ (i j : Nat) (x y : K), i ≤ j → l[i]? = some x → l[j]? = some y → x ≤ y := by
  intro i j x y hij hx hy
  rw [List.pairwise_iff_getElem] at h
  obtain ⟨hi, rfl⟩ := List.getElem?_eq_some_iff.mp hx
  obtain ⟨hj, rfl⟩ := List.getElem?_eq_some_iff.mp hy
  rcases Nat.lt_or_eq_of_le hij with h' | rfl
  · exact h i j hi hj h'
  · grind

/-! ### slots -/

/-- `Slot final b s`: key `s` lies strictly between `final[b-1]` and `final[b]` (where they exist). -/
def Slot (final : List K) (b : Nat) (s : K) : Prop :=
  b ≤ final.length ∧ (∀ x, 0 < b → final[b - 1]? = some x → x < s) ∧ (∀ y, final[b]? = some y → s < y)

theorem slotOK_iff (final : List K) (b : Nat) (s : K) : slotOK final b s = true ↔ Slot final b s := by
  unfold slotOK Slot
  constructor
  · intro h
    simp only [Bool.and_eq_true] at h
    obtain ⟨h1, h2⟩ := h
    refine ⟨?_, ?_, ?_⟩
    · cases hb : final[b]? with
      | none => rw [hb] at h2; simp at h2; omega
      | some y => have := (List.getElem?_eq_some_iff.mp hb).1; omega
    · intro x hb hx
      cases b with
      | zero => omega
      | succ b' =>
        simp only [Nat.add_sub_cancel] at hx
        simp only [hx, decide_eq_true_eq] at h1
        exact h1
    · intro y hy
      simp only [hy, decide_eq_true_eq] at h2
      exact h2
  · rintro ⟨h0, h1, h2⟩
    simp only [Bool.and_eq_true]
    constructor
    · cases b with
      | zero => rfl
      | succ b' =>
        have hb' : b' < final.length := by omega
        have : final[b']? = some final[b'] := List.getElem?_eq_getElem hb'
        simp only [this, decide_eq_true_eq]
        exact h1 _ (by omega) (by simpa using this)
    · cases hb : final[b]? with
      | none =>
        simp
        have := List.getElem?_eq_none_iff.mp hb
        omega
      | some y => simp; exact h2 y hb

/-- The transitivity extension used by `apply_adjustments_order` and `checker_sound`: in a strictly
    increasing `final`, a key in slot `b` is above every row before `b` and below every row from `b` on. -/
theorem slot_global {final : List K} (hf : final.Pairwise (· < ·)) {b : Nat} {s : K}
    (hs : Slot final b s) :
    ∀ i x, final[i]? = some x → (i < b → x < s) ∧ (b ≤ i → s < x) := by
  intro i x hx
  obtain ⟨h0, h1, h2⟩ := hs
  constructor
  · intro hib
    have hb1 : b - 1 < final.length := by omega
    have hy : final[b - 1]? = some final[b - 1] := List.getElem?_eq_getElem hb1
    have hlt := h1 _ (by omega) hy
    rcases Nat.lt_or_eq_of_le (show i ≤ b - 1 by omega) with h | h
    · have := pairwise_lt_getElem? hf i (b - 1) x _ h hx hy
      grind
    · subst h; rw [hy] at hx; cases hx; exact hlt
  · intro hbi
    have hil := (List.getElem?_eq_some_iff.mp hx).1
    have hb : b < final.length := by omega
    have hy : final[b]? = some final[b] := List.getElem?_eq_getElem hb
    have hlt := h2 _ hy
    rcases Nat.lt_or_eq_of_le hbi with h | h
    · have := pairwise_lt_getElem? hf b i _ x h hy hx
      grind
    · subst h; rw [hy] at hx; cases hx; exact hlt

end Order

/-! ### groupRuns (pure Nat) -/

theorem groupRuns_expand (l : List Nat) :
    (groupRuns l).flatMap (fun g => List.replicate g.2 g.1) = l := by
  induction l with
  | nil => simp [groupRuns]
  | cons x xs ih =>
    simp only [groupRuns]
    split
    · rename_i y c rest heq
      rw [heq] at ih
      split
      · rename_i hxy
        subst hxy
        simp only [List.flatMap_cons] at ih ⊢
        rw [List.replicate_succ, List.cons_append, ih]
      · simp only [List.flatMap_cons] at ih ⊢
        simp [ih]
    · rename_i heq
      rw [heq] at ih
      simp at ih
      simp [← ih]

theorem groupRuns_head (l : List Nat) : (groupRuns l).head?.map (·.1) = l.head? := by
  cases l with
  | nil => simp [groupRuns]
  | cons x xs =>
    simp only [groupRuns]
    split
    · split
      · rename_i h; simp [h]
      · simp
    · simp

theorem groupRuns_pos (l : List Nat) : ∀ g ∈ groupRuns l, 0 < g.2 := by
  induction l with
  | nil => simp [groupRuns]
  | cons x xs ih =>
    simp only [groupRuns]
    split
    · rename_i y c rest heq
      rw [heq] at ih
      split
      · intro g hg
        rcases List.mem_cons.mp hg with rfl | hg'
        · simp
        · exact ih g (by simp [hg'])
      · intro g hg
        rcases List.mem_cons.mp hg with rfl | hg'
        · simp
        · exact ih g hg'
    · simp

/-- on a weakly increasing list the group values are strictly increasing. -/
theorem groupRuns_sorted (l : List Nat) (hs : l.Pairwise (· ≤ ·)) :
    ((groupRuns l).map (·.1)).Pairwise (· < ·) := by
  induction l with
  | nil => simp [groupRuns]
  | cons x xs ih =>
    rw [List.pairwise_cons] at hs
    have ih' := ih hs.2
    have hhead := groupRuns_head xs
    -- every group value of the tail is an element of the tail
    have hmem : ∀ g ∈ groupRuns xs, g.1 ∈ xs := by
      intro g hg
      have hx := groupRuns_expand xs
      have hp := groupRuns_pos xs g hg
      rw [← hx]
      simp only [List.mem_flatMap, List.mem_replicate]
      exact ⟨g, hg, by omega, rfl⟩
    simp only [groupRuns]
    split
    · rename_i y c rest heq
      rw [heq] at ih' hmem
      split
      · simpa using ih'
      · rename_i hne
        simp only [List.map_cons, List.pairwise_cons] at ih' ⊢
        refine ⟨?_, ih'⟩
        have hy : y ∈ xs := hmem (y, c) (by simp)
        have hxy : x ≤ y := hs.1 y hy
        intro z hz
        rcases List.mem_cons.mp hz with rfl | hz'
        · omega
        · have := ih'.1 z hz'; omega
    · simp

/-- the run length recorded for value `s` is the number of occurrences of `s`. -/
theorem groupRuns_count (l : List Nat) (hs : l.Pairwise (· ≤ ·)) (s : Nat) :
    ((groupRuns l).lookup s).getD 0 = l.count s := by
  induction l with
  | nil => simp [groupRuns]
  | cons x xs ih =>
    rw [List.pairwise_cons] at hs
    have ih' := ih hs.2
    have hsorted := groupRuns_sorted xs hs.2
    simp only [groupRuns]
    split
    · rename_i y c rest heq
      rw [heq] at ih' hsorted
      have hy : y ∈ xs := by
        have hx := groupRuns_expand xs
        have hp := groupRuns_pos xs (y, c) (by simp [heq])
        rw [← hx, heq]
        have hr : y ∈ List.replicate c y := by simp; omega
        simp only [List.flatMap_cons, List.mem_append]
        left; exact hr
      split
      · rename_i hxy
        subst hxy
        simp only [List.lookup_cons, List.count_cons] at ih' ⊢
        by_cases hsx : s = x
        · subst hsx; simp at ih' ⊢; omega
        · have : (s == x) = false := by simpa using hsx
          have h2 : (x == s) = false := by simpa using (Ne.symm hsx)
          simp only [this, h2] at ih' ⊢
          simpa using ih'
      · rename_i hne
        have hxy : x ≤ y := hs.1 y hy
        simp only [List.lookup_cons, List.count_cons] at ih' ⊢
        by_cases hsx : s = x
        · subst hsx
          simp
          -- s does not occur in xs, since s < y ≤ everything in xs … via ih'
          have hsy : (s == y) = false := by simpa using hne
          simp only [hsy] at ih'
          -- lookup in rest is none because all values of rest are > y > s
          have hnone : rest.lookup s = none := by
            rw [List.lookup_eq_none_iff]
            intro p hp
            simp only [List.map_cons, List.pairwise_cons] at hsorted
            have := hsorted.1 p.1 (List.mem_map_of_mem hp)
            simp; omega
          rw [hnone] at ih'
          simp at ih'
          omega
        · have : (s == x) = false := by simpa using hsx
          have h2 : (x == s) = false := by simpa using (Ne.symm hsx)
          simp only [this, h2]
          simpa using ih'
    · rename_i heq
      have hnil : xs = [] := by
        have := groupRuns_expand xs
        rw [heq] at this; simpa using this.symm
      subst hnil
      simp [List.lookup_cons, List.count_cons]
      by_cases hsx : s = x
      · subst hsx; simp
      · have : (s == x) = false := by simpa using hsx
        have h2 : (x == s) = false := by simpa using (Ne.symm hsx)
        simp [this, h2]
        omega

/-! ### generic list facts -/

theorem pairwise_cases {α : Type} {R : α → α → Prop} {l : List α} (h : l.Pairwise R) {a b : α}
    (ha : a ∈ l) (hb : b ∈ l) : a = b ∨ R a b ∨ R b a := by
  induction h with
  | nil => simp at ha
  | cons hx _ ih =>
    rcases List.mem_cons.mp ha with rfl | ha'
    · rcases List.mem_cons.mp hb with rfl | hb'
      · left; rfl
      · right; left; exact hx _ hb'
    · rcases List.mem_cons.mp hb with rfl | hb'
      · right; right; exact hx _ ha'
      · exact ih ha' hb'

/-! ### insertion sort -/

theorem insertBy_perm {α : Type} (le : α → α → Bool) (a : α) (l : List α) :
    (insertBy le a l).Perm (a :: l) := by
  induction l with
  | nil => exact List.Perm.refl _
  | cons b t ih =>
    simp only [insertBy]
    split
    · exact List.Perm.refl _
    · exact (List.Perm.cons b ih).trans (List.Perm.swap a b t)

theorem isort_perm {α : Type} (le : α → α → Bool) (l : List α) : (isort le l).Perm l := by
  induction l with
  | nil => exact List.Perm.refl _
  | cons a t ih => exact (insertBy_perm le a _).trans (List.Perm.cons a ih)

theorem insertBy_sorted {α : Type} {le : α → α → Bool}
    (htrans : ∀ a b c, le a b = true → le b c = true → le a c = true)
    (htotal : ∀ a b, (le a b || le b a) = true) (a : α) (l : List α)
    (h : l.Pairwise (fun x y => le x y = true)) :
    (insertBy le a l).Pairwise (fun x y => le x y = true) := by
  induction l with
  | nil => simp [insertBy]
  | cons b t ih =>
    rw [List.pairwise_cons] at h
    simp only [insertBy]
    split
    · rename_i hab
      rw [List.pairwise_cons]
      refine ⟨?_, List.pairwise_cons.mpr h⟩
      intro c hc
      rcases List.mem_cons.mp hc with rfl | hc'
      · exact hab
      · exact htrans _ _ _ hab (h.1 c hc')
    · rename_i hab
      have hba : le b a = true := by
        have := htotal a b
        simp only [Bool.or_eq_true] at this
        rcases this with h1 | h1
        · exact absurd h1 hab
        · exact h1
      rw [List.pairwise_cons]
      refine ⟨?_, ih h.2⟩
      intro c hc
      have := (insertBy_perm le a t).mem_iff.mp hc
      rcases List.mem_cons.mp this with rfl | hc'
      · exact hba
      · exact h.1 c hc'

theorem isort_sorted {α : Type} {le : α → α → Bool}
    (htrans : ∀ a b c, le a b = true → le b c = true → le a c = true)
    (htotal : ∀ a b, (le a b || le b a) = true) (l : List α) :
    (isort le l).Pairwise (fun x y => le x y = true) := by
  induction l with
  | nil => simp [isort]
  | cons a t ih => exact insertBy_sorted htrans htotal a _ ih

section Sorting
variable {K : Type} [LT K] [LE K] [DecidableLT K] [DecidableLE K] [IsLinearOrder K] [LawfulOrderLT K]

/-! ### `sorted((key, i) …)` -/

theorem leKI_trans (a b c : K × Nat) (h1 : leKI a b = true) (h2 : leKI b c = true) :
    leKI a c = true := by
  unfold leKI at *
  simp only [Bool.or_eq_true, Bool.and_eq_true, Bool.not_eq_true', decide_eq_true_eq,
    decide_eq_false_iff_not] at *
  grind

theorem leKI_total (a b : K × Nat) : (leKI a b || leKI b a) = true := by
  unfold leKI
  simp only [Bool.or_eq_true, Bool.and_eq_true, Bool.not_eq_true', decide_eq_true_eq,
    decide_eq_false_iff_not]
  grind

/-- strict tuple order `(key_a, a) < (key_b, b)` -/
def LexLt (a b : K × Nat) : Prop := a.1 < b.1 ∨ (a.1 = b.1 ∧ a.2 < b.2)

theorem not_leKI_of_lexLt {a b : K × Nat} (h : LexLt a b) : ¬ (leKI b a = true) := by
  unfold LexLt at h
  unfold leKI
  simp only [Bool.or_eq_true, Bool.and_eq_true, Bool.not_eq_true', decide_eq_true_eq,
    decide_eq_false_iff_not]
  grind

theorem insKeys_perm (keys : List K) : (insKeys keys).Perm keys.zipIdx :=
  isort_perm _ _

theorem insKeys_sorted (keys : List K) : (insKeys keys).Pairwise (fun a b => leKI a b = true) :=
  isort_sorted leKI_trans leKI_total _

theorem mem_insKeys {keys : List K} {p : K × Nat} : p ∈ insKeys keys ↔ keys[p.2]? = some p.1 := by
  rw [(insKeys_perm keys).mem_iff]; exact List.mem_zipIdx_iff_getElem?

theorem insKeys_length (keys : List K) : (insKeys keys).length = keys.length := by
  rw [(insKeys_perm keys).length_eq]; simp

theorem indices_perm (keys : List K) : (indices keys).Perm (List.range keys.length) := by
  unfold indices
  have := (insKeys_perm keys).map Prod.snd
  rw [List.zipIdx_map_snd] at this
  simpa [List.range_eq_range'] using this

theorem indices_length (keys : List K) : (indices keys).length = keys.length := by
  simp [indices, insKeys_length]

/-- the sorted requests have weakly increasing keys -/
theorem insKeys_keys_sorted (keys : List K) : ((insKeys keys).map (·.1)).Pairwise (· ≤ ·) := by
  rw [List.pairwise_map]
  refine (insKeys_sorted keys).imp ?_
  intro a b h
  unfold leKI at h
  simp only [Bool.or_eq_true, Bool.and_eq_true, Bool.not_eq_true', decide_eq_true_eq,
    decide_eq_false_iff_not] at h
  grind

/-- … hence weakly increasing bisection points -/
theorem insKeys_bisect_sorted (existing keys : List K) :
    ((insKeys keys).map (fun p => bisectLeft existing p.1)).Pairwise (· ≤ ·) := by
  have := insKeys_keys_sorted keys
  rw [List.pairwise_map] at this ⊢
  exact this.imp (fun h => bisectLeft_mono existing _ _ h)

/-! ### ungroup -/

theorem ungroup_spec (idx : List Nat) (slots : List K) (n : Nat)
    (hp : idx.Perm (List.range n)) (hl : slots.length = n) :
    (ungroup idx slots).length = n ∧
    ∀ (p i : Nat) (s : K), idx[p]? = some i → slots[p]? = some s → (ungroup idx slots)[i]? = some s := by
  have hidx : idx.length = n := by rw [hp.length_eq]; simp
  let le1 : Nat × K → Nat × K → Bool := fun a b => decide (a.1 ≤ b.1)
  have hL : ungroup idx slots = (isort le1 (idx.zip slots)).map (·.2) := rfl
  have hperm : (isort le1 (idx.zip slots)).Perm (idx.zip slots) := isort_perm _ _
  have hfst : ((isort le1 (idx.zip slots)).map Prod.fst).Perm (List.range n) := by
    have := hperm.map Prod.fst
    rw [List.map_fst_zip (by omega)] at this
    exact this.trans hp
  have hsorted : (isort le1 (idx.zip slots)).Pairwise (fun a b => le1 a b = true) := by
    apply isort_sorted
    · intro a b c; simp only [le1, decide_eq_true_eq]; omega
    · intro a b; simp only [le1, Bool.or_eq_true, decide_eq_true_eq]; omega
  have hs2 : ((isort le1 (idx.zip slots)).map Prod.fst).Pairwise (· ≤ ·) := by
    rw [List.pairwise_map]
    exact hsorted.imp (fun h => by simpa [le1] using h)
  have hr : (List.range n).Pairwise (· ≤ ·) :=
    (List.pairwise_lt_range (n := n)).imp (fun h => Nat.le_of_lt h)
  have heq : (isort le1 (idx.zip slots)).map Prod.fst = List.range n :=
    List.Perm.eq_of_pairwise (fun a b _ _ h1 h2 => Nat.le_antisymm h1 h2) hs2 hr hfst
  constructor
  · rw [hL, List.length_map, hperm.length_eq, List.length_zip]; omega
  · intro p i s hi hs
    have hmem : (i, s) ∈ idx.zip slots := by
      rw [List.mem_iff_getElem?]
      exact ⟨p, List.getElem?_zip_eq_some.mpr ⟨hi, hs⟩⟩
    have hmemL : (i, s) ∈ isort le1 (idx.zip slots) := hperm.mem_iff.mpr hmem
    obtain ⟨j, hj⟩ := List.mem_iff_getElem?.mp hmemL
    have h1 : ((isort le1 (idx.zip slots)).map Prod.fst)[j]? = some i := by
      rw [List.getElem?_map, hj]; rfl
    rw [heq] at h1
    have hji : j = i := by
      have := List.getElem?_eq_some_iff.mp h1
      obtain ⟨_, h2⟩ := this
      simpa using h2
    subst hji
    rw [hL, List.getElem?_map, hj]; rfl

/-- each sorted request (rank `p`, original request index `a`) receives the `p`-th slot -/
theorem ungroup_insKeys (keys slots : List K) (hl : slots.length = keys.length) :
    (ungroup (indices keys) slots).length = keys.length ∧
    ∀ (p : Nat) (q : K × Nat) (s : K), (insKeys keys)[p]? = some q → slots[p]? = some s →
      (ungroup (indices keys) slots)[q.2]? = some s := by
  obtain ⟨h1, h2⟩ := ungroup_spec (indices keys) slots keys.length (indices_perm keys) hl
  refine ⟨h1, ?_⟩
  intro p q s hq hs
  apply h2 p q.2 s _ hs
  unfold indices
  rw [List.getElem?_map, hq]; rfl

end Sorting

/-! ### from slots to the property's clauses -/

section Assembly
variable {K : Type} [LT K] [LE K] [DecidableLT K] [DecidableLE K] [IsLinearOrder K] [LawfulOrderLT K]

theorem applyAdj_length (existing : List K) (adj : List (Nat × K)) :
    (applyAdj existing adj).length = existing.length := by
  unfold applyAdj
  induction adj generalizing existing with
  | nil => rfl
  | cons p t ih => simp only [List.foldl_cons]; rw [ih]; simp

theorem nodupNat_iff (l : List Nat) : nodupNat l = true ↔ l.Nodup := by
  induction l with
  | nil => simp [nodupNat]
  | cons x xs ih => simp [nodupNat, ih]

/-- Placement of one new key from its slot: in slot `bisectLeft existing q` of a strictly increasing
    `final` the key is above every row whose OLD key is `< q` and below every row whose OLD key is `≥ q`. -/
theorem placement_of_slot {existing final : List K} (hs : existing.Pairwise (· ≤ ·))
    (hf : final.Pairwise (· < ·)) {q s : K} (hslot : Slot final (bisectLeft existing q) s) :
    ∀ (i : Nat) (x f : K), existing[i]? = some x → final[i]? = some f →
      (x < q → f < s) ∧ (q ≤ x → s < f) := by
  intro i x f hx hfi
  have hg := slot_global hf hslot i f hfi
  constructor
  · intro hxq
    apply hg.1
    apply Classical.byContradiction
    intro hnb
    have := bisectLeft_ge existing q hs i x hx (by omega)
    grind
  · intro hqx
    apply hg.2
    apply Classical.byContradiction
    intro hnb
    have := bisectLeft_lt existing q i x hx (by omega)
    grind

/-- Assembly: if along the sorted requests `insKeys keys` the new keys (H2) increase strictly and (H3)
    each sits in the slot of `final` given by `bisectLeft existing`, then placement, request order and
    distinctness hold. -/
theorem clauses_of_slots {existing final keys newKeys : List K}
    (hs : existing.Pairwise (· ≤ ·)) (hf : final.Pairwise (· < ·))
    (hfl : final.length = existing.length) (hlen : newKeys.length = keys.length)
    (H2 : (insKeys keys).Pairwise (fun p q => ∀ sp sq : K, newKeys[p.2]? = some sp →
        newKeys[q.2]? = some sq → sp < sq))
    (H3 : ∀ p ∈ insKeys keys, ∀ s : K, newKeys[p.2]? = some s →
        Slot final (bisectLeft existing p.1) s) :
    (∀ (a i : Nat) (q x fi s : K), keys[a]? = some q → existing[i]? = some x → final[i]? = some fi →
        newKeys[a]? = some s → (x < q → fi < s) ∧ (q ≤ x → s < fi)) ∧
    (∀ (a b : Nat) (qa qb sa sb : K), keys[a]? = some qa → keys[b]? = some qb →
        newKeys[a]? = some sa → newKeys[b]? = some sb → (qa < qb ∨ (qa = qb ∧ a < b)) → sa < sb) ∧
    (final ++ newKeys).Nodup := by
  have hplace : ∀ (a i : Nat) (q x fi s : K), keys[a]? = some q → existing[i]? = some x →
      final[i]? = some fi → newKeys[a]? = some s → (x < q → fi < s) ∧ (q ≤ x → s < fi) := by
    intro a i q x fi s hq hx hfi hsa
    have hp : (q, a) ∈ insKeys keys := mem_insKeys.mpr hq
    have h3 := H3 _ hp s hsa
    exact placement_of_slot hs hf h3 i x fi hx hfi
  have horder : ∀ (a b : Nat) (qa qb sa sb : K), keys[a]? = some qa → keys[b]? = some qb →
      newKeys[a]? = some sa → newKeys[b]? = some sb → (qa < qb ∨ (qa = qb ∧ a < b)) → sa < sb := by
    intro a b qa qb sa sb hqa hqb hsa hsb hlt
    have hpa : (qa, a) ∈ insKeys keys := mem_insKeys.mpr hqa
    have hpb : (qb, b) ∈ insKeys keys := mem_insKeys.mpr hqb
    have hpw := (insKeys_sorted keys).and H2
    have hlex : LexLt (qa, a) (qb, b) := hlt
    rcases pairwise_cases hpw hpa hpb with heq | h | h
    · have h1 := congrArg Prod.fst heq
      have h2 := congrArg Prod.snd heq
      simp only at h1 h2
      subst h1; subst h2
      rcases hlt with h | h
      · grind
      · omega
    · exact h.2 sa sb hsa hsb
    · exact absurd h.1 (not_leKI_of_lexLt hlex)
  refine ⟨hplace, horder, ?_⟩
  rw [List.nodup_append]
  refine ⟨?_, ?_, ?_⟩
  · rw [List.nodup_iff_pairwise_ne]
    exact hf.imp (fun h => by grind)
  · rw [List.nodup_iff_pairwise_ne, List.pairwise_iff_getElem]
    intro i j hi hj hij
    have hki : i < keys.length := by omega
    have hkj : j < keys.length := by omega
    have h1 := horder i j keys[i] keys[j] newKeys[i] newKeys[j] (List.getElem?_eq_getElem hki)
      (List.getElem?_eq_getElem hkj) (List.getElem?_eq_getElem hi) (List.getElem?_eq_getElem hj)
    have h2 := horder j i keys[j] keys[i] newKeys[j] newKeys[i] (List.getElem?_eq_getElem hkj)
      (List.getElem?_eq_getElem hki) (List.getElem?_eq_getElem hj) (List.getElem?_eq_getElem hi)
    grind
  · intro x hx y hy
    obtain ⟨i, hi⟩ := List.mem_iff_getElem?.mp hx
    obtain ⟨a, ha⟩ := List.mem_iff_getElem?.mp hy
    have hil := (List.getElem?_eq_some_iff.mp hi).1
    have hal := (List.getElem?_eq_some_iff.mp ha).1
    have hie : i < existing.length := by omega
    have hak : a < keys.length := by omega
    have := hplace a i keys[a] existing[i] x y (List.getElem?_eq_getElem hak)
      (List.getElem?_eq_getElem hie) hi ha
    grind

end Assembly

/-! ### the plain path of `prepare_inserts` (no `_adjust_range`, no `_adjust_all`) -/

section Plain
variable {K : Type} [LT K] [LE K] [DecidableLT K] [DecidableLE K] [IsLinearOrder K] [LawfulOrderLT K]

/-- The facts about the numeric primitives that the plain path relies on (all are validated on the
    real `get_range` / float arithmetic by the Python check):
    `get_range(s, e, c)` returns `c` keys, weakly increasing, and for `s < e` all in `[s, e)`
    (monotone rounding of `s + step*k`, clipping to `prevfloat(e)`); `begin + count + 1 ≥ begin`;
    non-infinite values are an interval; `0.0` is not infinite. -/
structure Laws (F : FloatLike K) : Prop where
  range_length : ∀ s e c, (F.getRange s e c).length = c
  range_mono : ∀ s e c, (F.getRange s e c).Pairwise (· ≤ ·)
  range_bounds : ∀ s e c, s < e → ∀ k ∈ F.getRange s e c, s ≤ k ∧ k < e
  endAfter_ge : ∀ b c, b ≤ F.endAfter b c
  isInf_convex : ∀ a k b, a ≤ k → k ≤ b → F.isInf a = false → F.isInf b = false → F.isInf k = false
  zero_fin : F.isInf F.zero = false

theorem insertRight_append (xs : List K) (x : K) (h : ∀ y ∈ xs, ¬ x < y) :
    insertRight xs x = xs ++ [x] := by
  induction xs with
  | nil => rfl
  | cons y ys ih =>
    simp only [insertRight]
    have hy : ¬ x < y := h y (by simp)
    rw [if_neg hy, ih (fun z hz => h z (by simp [hz]))]
    rfl

theorem insertMany_append (xs vs : List K) (hv : vs.Pairwise (· ≤ ·))
    (h : ∀ y ∈ xs, ∀ v ∈ vs, ¬ v < y) : insertMany xs vs = xs ++ vs := by
  unfold insertMany
  induction vs generalizing xs with
  | nil => simp
  | cons v t ih =>
    rw [List.pairwise_cons] at hv
    simp only [List.foldl_cons]
    rw [insertRight_append xs v (fun y hy => h y hy v (by simp))]
    rw [ih (xs ++ [v]) hv.2]
    · simp
    · intro y hy v' hv'
      rcases List.mem_append.mp hy with hy | hy
      · exact h y hy v' (by simp [hv'])
      · simp at hy; subst hy
        have := hv.1 v' hv'
        grind

theorem irange_append (xs ks : List K) (b e : K) (hx : ∀ y ∈ xs, y < b)
    (hk : ∀ k ∈ ks, b ≤ k ∧ k ≤ e) : irange (xs ++ ks) b e = ks := by
  unfold irange
  rw [List.filter_append]
  have h1 : xs.filter (fun v => decide (b ≤ v) && decide (v ≤ e)) = [] := by
    rw [List.filter_eq_nil_iff]
    intro y hy
    have := hx y hy
    simp only [Bool.and_eq_true, decide_eq_true_eq]
    grind
  have h2 : ks.filter (fun v => decide (b ≤ v) && decide (v ≤ e)) = ks := by
    rw [List.filter_eq_self]
    intro k hk'
    have := hk k hk'
    simp only [Bool.and_eq_true, decide_eq_true_eq]
    exact this
  rw [h1, h2]; rfl

/-- on a weakly increasing list "no two consecutive items equal" means strictly increasing -/
theorem allDistinct_sorted (l : List K) (hs : l.Pairwise (· ≤ ·)) (h : allDistinct l = true) :
    l.Pairwise (· < ·) := by
  induction l with
  | nil => simp
  | cons a t ih =>
    cases t with
    | nil => simp
    | cons b t' =>
      simp only [allDistinct, Bool.and_eq_true] at h
      rw [List.pairwise_cons] at hs
      have ih' := ih hs.2 h.2
      have hab : a < b := by
        have h1 := (kne_iff a b).mp h.1
        have h2 := hs.1 b (by simp)
        grind
      rw [List.pairwise_cons]
      refine ⟨?_, ih'⟩
      intro c hc
      rcases List.mem_cons.mp hc with rfl | hc'
      · exact hab
      · rw [List.pairwise_cons] at ih'
        have := ih'.1 c hc'
        grind

theorem allDistinct_same (b : K) (mid : List K) (hm : ∀ m ∈ mid, m = b) :
    allDistinct (b :: mid ++ [b]) = false := by
  have hbb : kne b b = false := by
    cases h : kne b b with
    | false => rfl
    | true => exact absurd rfl ((kne_iff b b).mp h)
  cases mid with
  | nil => simp [allDistinct, hbb]
  | cons m t =>
    have : m = b := hm m (by simp)
    subst this
    simp [allDistinct, hbb]

theorem except_map_ok {ε α β : Type} {x : Except ε α} {f : α → β} {y : β}
    (h : x.map f = .ok y) : ∃ a, x = .ok a ∧ y = f a := by
  cases x with
  | error e => simp [Except.map] at h
  | ok a => simp only [Except.map, Except.ok.injEq] at h; exact ⟨a, rfl, h.symm⟩

variable (F : FloatLike K)

theorem adjGetKey_nil (w : Work K) (h : w.adj = []) (i : Nat) (k : K) (hk : w.orig[i]? = some k) :
    adjGetKey F w i = .ok k := by
  unfold adjGetKey
  rw [h]
  simp [bsearchIdx, hk, pure, Except.pure]

/-- the ghost counters never decrease -/
theorem prepAt_mono {w w' : Work K} {idx count : Nat} (h : prepAt F w idx count = .ok w') :
    w.relabels ≤ w'.relabels ∧ w.renumbers ≤ w'.renumbers := by
  unfold prepAt at h
  split at h
  · cases h
  · split at h
    · cases h
    · split at h
      · cases h
      · split at h
        · obtain ⟨a, _, rfl⟩ := except_map_ok h
          simp
        · dsimp only at h
          split at h
          · cases h; simp
          · obtain ⟨a, _, rfl⟩ := except_map_ok h
            simp

theorem foldlM_prepAt_mono (gs : List (Nat × Nat)) {w w' : Work K}
    (h : gs.foldlM (fun w g => prepAt F w g.1 g.2) w = .ok w') :
    w.relabels ≤ w'.relabels ∧ w.renumbers ≤ w'.renumbers := by
  induction gs generalizing w with
  | nil => simp [pure, Except.pure] at h; subst h; simp
  | cons g t ih =>
    rw [List.foldlM_cons] at h
    cases h1 : prepAt F w g.1 g.2 with
    | error e => rw [h1] at h; simp [bind, Except.bind] at h
    | ok w1 =>
      rw [h1] at h
      simp only [bind, Except.bind] at h
      have := prepAt_mono F h1
      have := ih h
      omega

/-- invariant of the plain path: nothing adjusted; the insertions so far are strictly increasing,
    not infinite, and the `p`-th of them sits in the slot `tags[p]` of the existing rows. -/
structure PlainInv (existing : List K) (w : Work K) (tags : List Nat) : Prop where
  orig : w.orig = existing
  adj : w.adj = []
  rel : w.relabels = 0
  ren : w.renumbers = 0
  len : tags.length = w.ins.length
  inc : w.ins.Pairwise (· < ·)
  slot : ∀ tk ∈ tags.zip w.ins, Slot existing tk.1 tk.2
  fin : ∀ k ∈ w.ins, F.isInf k = false

theorem prepAt_plain (L : Laws F) {existing : List K} (hs : existing.Pairwise (· ≤ ·))
    {w w' : Work K} {tags : List Nat} {idx count : Nat}
    (hinv : PlainInv F existing w tags) (htags : ∀ t ∈ tags, t < idx)
    (hidx : idx ≤ existing.length) (hc : 0 < count)
    (h : prepAt F w idx count = .ok w') (h0 : w'.relabels = 0 ∧ w'.renumbers = 0) :
    PlainInv F existing w' (tags ++ List.replicate count idx) := by
  obtain ⟨horig, hadj, hrel, hren, hlen, hinc, hslot, hfin⟩ := hinv
  unfold prepAt at h
  rw [if_neg (by omega)] at h
  -- begin
  have hbk : ∃ b, beginKey F w idx = .ok b ∧ (idx = 0 → b = F.zero) ∧
      (0 < idx → existing[idx - 1]? = some b) := by
    unfold beginKey
    by_cases hi : idx > 0
    · have hl : idx - 1 < existing.length := by omega
      refine ⟨existing[idx - 1], ?_, by omega, fun _ => List.getElem?_eq_getElem hl⟩
      rw [if_pos hi]
      exact adjGetKey_nil F w hadj _ _ (by rw [horig]; exact List.getElem?_eq_getElem hl)
    · refine ⟨F.zero, ?_, fun _ => rfl, by omega⟩
      rw [if_neg hi]; rfl
  obtain ⟨b, hb, hb0, hb1⟩ := hbk
  rw [hb] at h
  simp only at h
  -- end
  have hek : ∃ e, endKey F w idx count b = .ok e ∧ (idx < existing.length → existing[idx]? = some e) ∧
      (¬ idx < existing.length → e = F.endAfter b count) := by
    unfold endKey
    rw [horig]
    by_cases hi : idx < existing.length
    · refine ⟨existing[idx], ?_, fun _ => List.getElem?_eq_getElem hi, by omega⟩
      rw [if_pos hi]
      exact adjGetKey_nil F w hadj _ _ (by rw [horig]; exact List.getElem?_eq_getElem hi)
    · refine ⟨F.endAfter b count, ?_, by omega, fun _ => rfl⟩
      rw [if_neg hi]; rfl
  obtain ⟨e, he, he1, he2⟩ := hek
  rw [he] at h
  simp only at h
  split at h
  · -- renumber branch: the counter would be positive
    obtain ⟨a, _, rfl⟩ := except_map_ok h
    simp at h0
  · rename_i hvalidEnds
    try dsimp only at h
    split at h
    · rename_i hvalid
      cases h
      try dsimp only at hvalid ⊢
      -- b ≤ e
      have hbe : b ≤ e := by
        by_cases hi : idx < existing.length
        · have hee := he1 hi
          by_cases hi0 : 0 < idx
          · exact pairwise_le_getElem? hs (idx - 1) idx b e (by omega) (hb1 hi0) hee
          · have : b = F.zero := hb0 (by omega)
            subst this
            unfold invalidEnds at hvalidEnds
            simp only [Bool.or_eq_true, decide_eq_true_eq, not_or] at hvalidEnds
            grind
        · rw [he2 hi]; exact L.endAfter_ge b count
      -- earlier insertions are below b
      have hlow : ∀ y ∈ w.ins, y < b := by
        intro y hy
        obtain ⟨p, hp⟩ := List.mem_iff_getElem?.mp hy
        have hpl := (List.getElem?_eq_some_iff.mp hp).1
        have hpt : p < tags.length := by omega
        have hmem : (tags[p], y) ∈ tags.zip w.ins := by
          rw [List.mem_iff_getElem?]
          exact ⟨p, List.getElem?_zip_eq_some.mpr ⟨List.getElem?_eq_getElem hpt, hp⟩⟩
        have hsl := hslot _ hmem
        have ht := htags tags[p] (List.getElem_mem hpt)
        simp only at hsl
        have htl : tags[p] < existing.length := by omega
        have h2 := hsl.2.2 existing[tags[p]] (List.getElem?_eq_getElem htl)
        have h3 := pairwise_le_getElem? hs tags[p] (idx - 1) existing[tags[p]] b (by omega)
          (List.getElem?_eq_getElem htl) (hb1 (by omega))
        grind
      -- b < e, otherwise the range check fails
      have hblt : b < e := by
        apply Classical.byContradiction
        intro hnlt
        have hbeq : b = e := by grind
        subst hbeq
        have hall : ∀ m ∈ irange (insertMany w.ins (F.getRange b b count)) b b, m = b := by
          intro m hm
          unfold irange at hm
          simp only [List.mem_filter, Bool.and_eq_true, decide_eq_true_eq] at hm
          grind
        have := allDistinct_same b _ hall
        unfold isValidRange at hvalid
        rw [this] at hvalid
        cases hvalid
      have hks := L.range_bounds b e count hblt
      have hmono := L.range_mono b e count
      have hklen := L.range_length b e count
      have hins : insertMany w.ins (F.getRange b e count) = w.ins ++ F.getRange b e count := by
        apply insertMany_append _ _ hmono
        intro y hy v hv
        have := hlow y hy
        have := (hks v hv).1
        grind
      rw [hins] at hvalid ⊢
      rw [irange_append _ _ b e hlow (fun k hk => ⟨(hks k hk).1, by have := (hks k hk).2; grind⟩)] at hvalid
      -- the chain begin, keys…, end is weakly increasing, hence strictly
      have hchain : (b :: F.getRange b e count ++ [e]).Pairwise (· ≤ ·) := by
        rw [List.cons_append, List.pairwise_cons, List.pairwise_append]
        refine ⟨?_, hmono, by simp, ?_⟩
        · intro c hc
          rcases List.mem_append.mp hc with hc | hc
          · exact (hks c hc).1
          · simp at hc; subst hc; exact hbe
        · intro a ha c hc
          simp at hc; subst hc
          have := (hks a ha).2; grind
      have hstrict := allDistinct_sorted _ hchain hvalid
      rw [List.cons_append, List.pairwise_cons, List.pairwise_append] at hstrict
      obtain ⟨hbk', hkk, _, _⟩ := hstrict
      -- finiteness of b and e
      have hfe : F.isInf e = false ∧ F.isInf b = false := by
        unfold invalidEnds at hvalidEnds
        simp only [Bool.or_eq_true, decide_eq_true_eq, not_or, Bool.not_eq_true] at hvalidEnds
        have hmax : pyMax b e = e := by unfold pyMax; rw [if_pos hblt]
        rw [hmax] at hvalidEnds
        refine ⟨hvalidEnds.2, ?_⟩
        apply L.isInf_convex F.zero b e _ hbe L.zero_fin hvalidEnds.2
        grind
      refine ⟨horig, hadj, hrel, hren, ?_, ?_, ?_, ?_⟩
      · simp [hlen, hklen]
      · rw [List.pairwise_append]
        refine ⟨hinc, hkk, ?_⟩
        intro y hy k hk
        have := hlow y hy
        have := hbk' k (by simp [hk])
        grind
      · rw [List.zip_append hlen]
        intro tk htk
        rcases List.mem_append.mp htk with h1 | h1
        · exact hslot tk h1
        · have ht : tk.1 = idx := by
            have := (List.of_mem_zip h1).1
            exact (List.mem_replicate.mp this).2
          have hk := (List.of_mem_zip h1).2
          rw [ht]
          refine ⟨hidx, ?_, ?_⟩
          · intro x hpos hx
            have := hb1 hpos
            rw [this] at hx; cases hx
            exact hbk' tk.2 (by simp [hk])
          · intro y hy
            have hi : idx < existing.length := (List.getElem?_eq_some_iff.mp hy).1
            have := he1 hi
            rw [this] at hy; cases hy
            exact (hks tk.2 hk).2
      · intro k hk
        rcases List.mem_append.mp hk with h1 | h1
        · exact hfin k h1
        · have := hks k h1
          exact L.isInf_convex b k e this.1 (by grind) hfe.2 hfe.1
    · -- relabel branch: the counter would be positive
      obtain ⟨a, _, rfl⟩ := except_map_ok h
      simp at h0

theorem foldlM_plain (L : Laws F) {existing : List K} (hs : existing.Pairwise (· ≤ ·))
    (gs : List (Nat × Nat)) {w w' : Work K} {tags : List Nat}
    (hinv : PlainInv F existing w tags)
    (hgs : (gs.map (·.1)).Pairwise (· < ·))
    (htags : ∀ t ∈ tags, ∀ g ∈ gs, t < g.1)
    (hg : ∀ g ∈ gs, 0 < g.2 ∧ g.1 ≤ existing.length)
    (h : gs.foldlM (fun w g => prepAt F w g.1 g.2) w = .ok w')
    (h0 : w'.relabels = 0 ∧ w'.renumbers = 0) :
    PlainInv F existing w' (tags ++ gs.flatMap (fun g => List.replicate g.2 g.1)) := by
  induction gs generalizing w tags with
  | nil =>
    simp [pure, Except.pure] at h; subst h; simpa using hinv
  | cons g t ih =>
    rw [List.foldlM_cons] at h
    cases h1 : prepAt F w g.1 g.2 with
    | error e => rw [h1] at h; simp [bind, Except.bind] at h
    | ok w1 =>
      rw [h1] at h
      simp only [bind, Except.bind] at h
      have hm := foldlM_prepAt_mono F t h
      have h01 : w1.relabels = 0 ∧ w1.renumbers = 0 := by omega
      have hstep := prepAt_plain F L hs hinv (fun t' ht' => htags t' ht' g (by simp))
        (hg g (by simp)).2 (hg g (by simp)).1 h1 h01
      simp only [List.map_cons, List.pairwise_cons] at hgs
      have := ih hstep hgs.2 ?_ (fun g' hg' => hg g' (by simp [hg'])) h
      · simpa [List.flatMap_cons, List.append_assoc] using this
      · intro t' ht' g' hg'
        have hlt := hgs.1 g'.1 (List.mem_map_of_mem hg')
        rcases List.mem_append.mp ht' with h2 | h2
        · have := htags t' h2 g (by simp); omega
        · have := (List.mem_replicate.mp h2).2; omega

end Plain

end Grist.Relabel
