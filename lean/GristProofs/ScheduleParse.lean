/-
Helper development for C35: the error class of the parser of GristModel/Schedule.lean.
-/
import GristModel.Schedule
namespace Grist.Schedule

/-- bound on the numeric fields of a schedule string under which no timedelta can overflow -/
def numBound : Int := 10000000

def unitBound (u : TUnit) : Int := numBound * u.us

/-- total of the per-unit bounds of the units already used in a slot -/
def seenBound (seen : List TUnit) : Int :=
  (if TUnit.weeks ∈ seen then unitBound .weeks else 0) +
  (if TUnit.days ∈ seen then unitBound .days else 0) +
  (if TUnit.hours ∈ seen then unitBound .hours else 0) +
  (if TUnit.minutes ∈ seen then unitBound .minutes else 0) +
  (if TUnit.seconds ∈ seen then unitBound .seconds else 0)

theorem ite_bounds (c : Prop) [Decidable c] (x : Int) (hx : 0 ≤ x) :
    0 ≤ (if c then x else 0) ∧ (if c then x else 0) ≤ x := by
  split <;> omega

theorem seenBound_le (seen : List TUnit) : 0 ≤ seenBound seen ∧ seenBound seen ≤ 6948610000000000000 := by
  have h1 := ite_bounds (TUnit.weeks ∈ seen) (unitBound .weeks) (by decide)
  have h2 := ite_bounds (TUnit.days ∈ seen) (unitBound .days) (by decide)
  have h3 := ite_bounds (TUnit.hours ∈ seen) (unitBound .hours) (by decide)
  have h4 := ite_bounds (TUnit.minutes ∈ seen) (unitBound .minutes) (by decide)
  have h5 := ite_bounds (TUnit.seconds ∈ seen) (unitBound .seconds) (by decide)
  have e1 : unitBound .weeks = 6048000000000000000 := by decide
  have e2 : unitBound .days = 864000000000000000 := by decide
  have e3 : unitBound .hours = 36000000000000000 := by decide
  have e4 : unitBound .minutes = 600000000000000 := by decide
  have e5 : unitBound .seconds = 10000000000000 := by decide
  unfold seenBound
  omega

theorem seenBound_cons (seen : List TUnit) (u : TUnit) (h : u ∉ seen) :
    seenBound (u :: seen) = seenBound seen + unitBound u := by
  cases u <;> simp [seenBound, h, unitBound, TUnit.us]
  all_goals omega

theorem tdOk_of_small (t : Int) (h : -20000000000000000000 ≤ t ∧ t ≤ 20000000000000000000) : tdOk t = true := by
  unfold tdOk usDay
  simp only [Bool.and_eq_true, decide_eq_true_eq]
  omega

theorem addInterval_ok (δ : Delta) (n : Int) (u : TUnit) (hu : u ≠ .years ∧ u ≠ .months)
    (h1 : tdOk (n * u.us) = true) (h2 : tdOk (δ.us + n * u.us) = true) :
    δ.addInterval n u = .ok { δ with us := δ.us + n * u.us } := by
  obtain ⟨hy, hm⟩ := hu
  cases u
  · exact absurd rfl hy
  · exact absurd rfl hm
  all_goals simp only [Delta.addInterval, h1, h2, Bool.not_true, Bool.false_eq_true, if_false]

/-- a small count added to a small timedelta never overflows -/
theorem addInterval_small (δ : Delta) (n : Int) (u : TUnit)
    (hn : -numBound ≤ n ∧ n ≤ numBound)
    (hδ : -6948610000000000000 ≤ δ.us ∧ δ.us ≤ 6948610000000000000) :
    ∃ δ', δ.addInterval n u = .ok δ' ∧ δ'.us = δ.us + n * u.us := by
  simp only [numBound] at hn
  by_cases hu : u ≠ .years ∧ u ≠ .months
  · refine ⟨_, addInterval_ok δ n u hu (tdOk_of_small _ ?_) (tdOk_of_small _ ?_), rfl⟩ <;>
      cases u <;> simp only [TUnit.us, usWeek, usDay, usHour, usMinute, usSecond] <;> omega
  · cases u
    case years => exact ⟨_, rfl, by simp [TUnit.us]⟩
    case months => exact ⟨_, rfl, by simp [TUnit.us]⟩
    all_goals exact absurd ⟨by decide, by decide⟩ hu

/-- adding small items keeps the accumulated timedelta inside the per-unit bounds, so it cannot
    overflow; the only possible error is the duplicate-unit ValueError -/
theorem addItems_small : ∀ (items : List (Int × TUnit)) (δ : Delta) (seen : List TUnit),
    (∀ it ∈ items, -numBound ≤ it.1 ∧ it.1 ≤ numBound) →
    (-(seenBound seen) ≤ δ.us ∧ δ.us ≤ seenBound seen) →
    (∀ e, addItems items (δ, seen) = .error e → e = .value) ∧
    (∀ δ' seen', addItems items (δ, seen) = .ok (δ', seen') →
      -(seenBound seen') ≤ δ'.us ∧ δ'.us ≤ seenBound seen') := by
  intro items
  induction items with
  | nil =>
    intro δ seen _ hinv
    constructor
    · intro e h; simp [addItems] at h
    · intro δ' seen' h
      simp only [addItems, Except.ok.injEq, Prod.mk.injEq] at h
      rw [← h.1, ← h.2]; exact hinv
  | cons it rest ih =>
    intro δ seen hsmall hinv
    obtain ⟨n, u⟩ := it
    have hn := hsmall (n, u) (by simp)
    have hrest : ∀ it ∈ rest, -numBound ≤ it.1 ∧ it.1 ≤ numBound :=
      fun it h => hsmall it (by simp [h])
    have hsb := seenBound_le seen
    obtain ⟨δ', hδ', hus⟩ := addInterval_small δ n u hn (by omega)
    simp only [addItems, hδ']
    by_cases hc : seen.contains u = true
    · simp only [hc, if_true]
      exact ⟨fun e h => by cases h; rfl, fun _ _ h => by cases h⟩
    · have hc' : seen.contains u = false := by simpa using hc
      simp only [hc', Bool.false_eq_true, if_false]
      refine ih δ' (u :: seen) hrest ?_
      rw [seenBound_cons seen u (by simpa using hc'), hus]
      have : -(unitBound u) ≤ n * u.us ∧ n * u.us ≤ unitBound u := by
        simp only [numBound] at hn
        cases u <;> simp only [unitBound, numBound, TUnit.us, usWeek, usDay, usHour, usMinute, usSecond] <;> omega
      omega

theorem slotItems_error (m : SlotMatch) (e : Err) (h : slotItems m = .error e) : e = .value := by
  cases m <;> simp only [slotItems] at h
  all_goals first
    | cases h
    | (split at h <;> first | (cases h; done) | (cases h; rfl))

theorem classifyPart_error (unit : TUnit) (part : List Char) (e : Err)
    (h : classifyPart unit part = .error e) : e = .value := by
  unfold classifyPart at h
  split at h
  · cases h; rfl
  · split at h
    · exact slotItems_error _ _ h
    · cases h; rfl

/-- every numeric field the recognisers extract from the slot parts is at most `numBound` -/
def SmallParts (unit : TUnit) (parts : List (List Char)) : Prop :=
  ∀ part ∈ parts, ∀ items, classifyPart unit part = .ok items →
    ∀ it ∈ items, -numBound ≤ it.1 ∧ it.1 ≤ numBound

theorem parseParts_small (unit : TUnit) : ∀ (parts : List (List Char)) (δ : Delta)
    (seen : List TUnit), SmallParts unit parts →
    (-(seenBound seen) ≤ δ.us ∧ δ.us ≤ seenBound seen) →
    ∀ e, parseParts unit parts (δ, seen) = .error e → e = .value := by
  intro parts
  induction parts with
  | nil => intro δ seen _ _ e h; simp [parseParts] at h
  | cons part rest ih =>
    intro δ seen hsmall hinv e h
    simp only [parseParts] at h
    cases hc : classifyPart unit part with
    | error e' => rw [hc] at h; cases h; exact classifyPart_error _ _ _ hc
    | ok items =>
      rw [hc] at h
      simp only at h
      have hit := hsmall part (by simp) items hc
      obtain ⟨herr, hok⟩ := addItems_small items δ seen hit hinv
      cases ha : addItems items (δ, seen) with
      | error e' => rw [ha] at h; cases h; exact herr _ ha
      | ok st' =>
        rw [ha] at h
        obtain ⟨δ', seen'⟩ := st'
        exact ih δ' seen' (fun p hp => hsmall p (by simp [hp])) (hok δ' seen' ha) e h

theorem parseSlot_small (unit : TUnit) (slot : List Char) (hs : SmallParts unit (words slot))
    (e : Err) (h : parseSlot unit slot = .error e) : e = .value := by
  unfold parseSlot at h
  split at h
  · cases h; rfl
  · exact parseParts_small unit _ _ _ hs (by simp [seenBound]) e h

theorem parseSlots_small (unit : TUnit) : ∀ (slots : List (List Char)),
    (∀ slot ∈ slots, SmallParts unit (words slot)) →
    ∀ e, parseSlots unit slots = .error e → e = .value := by
  intro slots
  induction slots with
  | nil => intro _ e h; simp [parseSlots] at h
  | cons s rest ih =>
    intro hs e h
    simp only [parseSlots] at h
    cases h1 : parseSlot unit s with
    | error e' => rw [h1] at h; cases h; exact parseSlot_small unit s (hs s (by simp)) _ h1
    | ok d =>
      rw [h1] at h
      cases h2 : parseSlots unit rest with
      | error e' => rw [h2] at h; cases h; exact ih (fun x hx => hs x (by simp [hx])) _ h2
      | ok ds => rw [h2] at h; cases h

theorem parseInterval_error (s : List Char) (e : Err) (h : parseInterval s = .error e) :
    e = .value := by
  unfold parseInterval at h
  simp only at h
  repeat' split at h
  all_goals first | (cases h; done) | (cases h; rfl)

/-- the numeric fields of a schedule string, as the recognisers see them, are all small -/
def SmallNumbers (spec : List Char) : Prop :=
  ∀ a b, splitColon spec = some (a, b) → ∀ n unit, parseInterval (strip a) = .ok (n, unit) →
    (n : Int) ≤ numBound ∧ ∀ slot ∈ splitOn ',' b, SmallParts unit (words slot)

end Grist.Schedule
