/-
Proof development for C16, part 1: printing, renaming of the printed pieces, and the text patches
of `_prepare_formula_renames` (on top of the C37 development).
-/
import GristModel.FormulaRename
import GristProofs.Textbuilder
namespace Grist.FormulaRename
open Grist.Textbuilder (Str Patch applyPatches splice Ordered slice)

/-! ## Pieces -/

@[simp] theorem renTok_p (ρ : Ren) (s : String) : renTok ρ (p s) = p s := rfl
@[simp] theorem renTok_plain (ρ : Ren) (x : Str) : renTok ρ ⟨x, none⟩ = ⟨x, none⟩ := rfl
@[simp] theorem renTok_colTok (ρ : Ren) (t c : Name) :
    renTok ρ (colTok t c) = colTok (ρ.tabOf t) (ρ.colOf t c) := rfl
@[simp] theorem renTok_tabTok (ρ : Ren) (t : Name) : renTok ρ (tabTok t) = tabTok (ρ.tabOf t) := rfl
@[simp] theorem renTok_quote (ρ : Ren) (q : Bool) : renTok ρ (quote q) = quote q := by
  unfold quote; split <;> rfl
@[simp] theorem renTok_opTok (ρ : Ren) (op : Op) : renTok ρ (opTok op) = opTok op := by
  cases op <;> rfl
@[simp] theorem renTok_pnTok (ρ : Ren) (f : PN) : renTok ρ (pnTok f) = pnTok f := by
  cases f <;> rfl

theorem joinItems_map (ρ : Ren) : ∀ (l : List (List Tok)),
    joinItems (l.map (List.map (renTok ρ))) = (joinItems l).map (renTok ρ)
  | [] => rfl
  | [x] => rfl
  | x :: y :: rest => by
    have ih := joinItems_map ρ (y :: rest)
    simp only [List.map_cons] at ih ⊢
    simp only [joinItems, List.map_append, ih, List.map_cons, List.map_nil, renTok_p]

theorem printItem_ren (ρ : Ren) (q : Bool) (t : Name) (it : Bool × Name) :
    printItem q (ρ.tabOf t) (it.1, ρ.colOf t it.2) = (printItem q t it).map (renTok ρ) := by
  unfold printItem
  cases it.1 <;> simp

theorem printOB_ren (ρ : Ren) (t : Name) (ob : OrderBy) :
    printOB (ρ.tabOf t) (renOB ρ t ob) = (printOB t ob).map (renTok ρ) := by
  have hitems : (renOB ρ t ob).items.map (printItem ob.sq (ρ.tabOf t)) =
      (ob.items.map (printItem ob.sq t)).map (List.map (renTok ρ)) := by
    simp only [renOB, List.map_map]
    apply List.map_congr_left
    intro it _
    exact printItem_ren ρ ob.sq t it
  unfold printOB
  have h1 : (renOB ρ t ob).tuple = ob.tuple := rfl
  have h2 : (renOB ρ t ob).sq = ob.sq := rfl
  have h3 : (renOB ρ t ob).items.length = ob.items.length := by simp [renOB]
  rw [h1, h2, h3, hitems, joinItems_map]
  split
  · split <;> simp
  · rfl

theorem isEnd_rename (ρ : Ren) (e : FExpr) : isEnd (rename ρ e) = isEnd e := by
  cases e <;> try rfl
  case kwEnd t ob => cases ob <;> rfl

/-- Printing the renamed tree = renaming every piece of the printed tree. -/
theorem print_rename (ρ : Ren) : ∀ e : FExpr, print (rename ρ e) = (print e).map (renTok ρ) := by
  intro e
  induction e with
  | lit n => rfl
  | str s q => rfl
  | binop op a b iha ihb => simp [rename, print, iha, ihb]
  | recv => rfl
  | var x => rfl
  | dollar t c => rfl
  | attr e t c ih => simp [rename, print, ih]
  | kwEnd t ob =>
    cases ob with
    | none => rfl
    | some o => simp [rename, print, printOB_ren]
  | kw t k v rest ihv ihr =>
    simp only [rename, print, ihv, ihr, isEnd_rename, List.map_append, List.map_cons, List.map_nil,
      renTok_colTok, renTok_p]
    split <;> simp
  | lookup one t args ih => simp [rename, print, ih]
  | all t => rfl
  | compr body x src ihb ihs => simp [rename, print, ihb, ihs]
  | len e ih => simp [rename, print, ih]
  | sum e ih => simp [rename, print, ih]
  | max e ih => simp [rename, print, ih]
  | prevNext f e t gb ob ih =>
    cases gb with
    | none => simp [rename, print, ih, printOB_ren]
    | some g => simp [rename, print, ih, printOB_ren]
  | ifE c a b ihc iha ihb => simp [rename, print, ihc, iha, ihb]

/-! ## Invariant of printed pieces: a name occurrence is spelled with the name it denotes -/

def TokOk (tk : Tok) : Prop :=
  match tk.den with
  | some (t, some c) => tk.text = c
  | some (t, none) => tk.text = t
  | none => True

theorem tokOk_p (s : String) : TokOk (p s) := trivial
theorem tokOk_quote (q : Bool) : TokOk (quote q) := by unfold quote; split <;> trivial

theorem tokOk_joinItems : ∀ (l : List (List Tok)), (∀ x ∈ l, ∀ tk ∈ x, TokOk tk) →
    ∀ tk ∈ joinItems l, TokOk tk
  | [], _ => by intro tk h; cases h
  | [x], h => by intro tk htk; exact h x (by simp) tk htk
  | x :: y :: rest, h => by
    intro tk htk
    simp only [joinItems, List.mem_append, List.mem_singleton] at htk
    rcases htk with (h1 | h1) | h1
    · exact h x (by simp) tk h1
    · subst h1; trivial
    · exact tokOk_joinItems (y :: rest) (fun z hz => h z (by simp [hz])) tk h1

theorem tokOk_printOB (t : Name) (ob : OrderBy) : ∀ tk ∈ printOB t ob, TokOk tk := by
  have hitems : ∀ x ∈ ob.items.map (printItem ob.sq t), ∀ tk ∈ x, TokOk tk := by
    intro x hx tk htk
    simp only [List.mem_map] at hx
    obtain ⟨it, _, rfl⟩ := hx
    simp only [printItem, List.mem_append, List.mem_singleton, List.mem_cons, List.not_mem_nil,
      or_false] at htk
    rcases htk with (h | h) | h | h
    · subst h; exact tokOk_quote _
    · split at h
      · simp only [List.mem_singleton] at h; subst h; trivial
      · cases h
    · subst h; rfl
    · subst h; exact tokOk_quote _
  intro tk htk
  unfold printOB at htk
  split at htk
  · simp only [List.mem_append, List.mem_singleton] at htk
    rcases htk with ((h | h) | h) | h
    · subst h; trivial
    · exact tokOk_joinItems _ hitems tk h
    · split at h
      · simp only [List.mem_singleton] at h; subst h; trivial
      · cases h
    · subst h; trivial
  · exact tokOk_joinItems _ hitems tk htk

theorem tokOk_print : ∀ (e : FExpr), ∀ tk ∈ print e, TokOk tk := by
  intro e
  induction e with
  | lit n => intro tk h; simp only [print, List.mem_singleton] at h; subst h; trivial
  | str s q => intro tk h; simp only [print, List.mem_singleton] at h; subst h; trivial
  | binop op a b iha ihb =>
    intro tk h
    simp only [print, List.mem_append, List.mem_singleton] at h
    rcases h with (((h | h) | h) | h) | h
    · subst h; trivial
    · exact iha tk h
    · subst h; cases op <;> trivial
    · exact ihb tk h
    · subst h; trivial
  | recv => intro tk h; simp only [print, List.mem_singleton] at h; subst h; trivial
  | var x => intro tk h; simp only [print, List.mem_singleton] at h; subst h; trivial
  | dollar t c =>
    intro tk h
    simp only [print, List.mem_cons, List.not_mem_nil, or_false] at h
    rcases h with h | h <;> subst h
    · trivial
    · rfl
  | attr e t c ih =>
    intro tk h
    simp only [print, List.mem_append, List.mem_cons, List.not_mem_nil, or_false] at h
    rcases h with h | h | h
    · exact ih tk h
    · subst h; trivial
    · subst h; rfl
  | kwEnd t ob =>
    cases ob with
    | none => intro tk h; cases h
    | some o =>
      intro tk h
      simp only [print, List.mem_append, List.mem_cons, List.not_mem_nil, or_false] at h
      rcases h with (h | h) | h
      · subst h; trivial
      · subst h; trivial
      · exact tokOk_printOB t o tk h
  | kw t k v rest ihv ihr =>
    intro tk h
    simp only [print, List.mem_append, List.mem_cons, List.not_mem_nil, or_false] at h
    rcases h with (((h | h) | h) | h) | h
    · subst h; rfl
    · subst h; trivial
    · exact ihv tk h
    · split at h
      · cases h
      · simp only [List.mem_singleton] at h; subst h; trivial
    · exact ihr tk h
  | lookup one t args ih =>
    intro tk h
    simp only [print, List.mem_append, List.mem_cons, List.not_mem_nil, or_false] at h
    rcases h with ((h | h | h | h) | h) | h
    · subst h; rfl
    · subst h; trivial
    · subst h; trivial
    · subst h; trivial
    · exact ih tk h
    · subst h; trivial
  | all t =>
    intro tk h
    simp only [print, List.mem_cons, List.not_mem_nil, or_false] at h
    rcases h with h | h | h <;> subst h
    · rfl
    · trivial
    · trivial
  | compr body x src ihb ihs =>
    intro tk h
    simp only [print, List.mem_append, List.mem_cons, List.not_mem_nil, or_false] at h
    rcases h with (((h | h) | h | h | h) | h) | h
    · subst h; trivial
    · exact ihb tk h
    · subst h; trivial
    · subst h; trivial
    · subst h; trivial
    · exact ihs tk h
    · subst h; trivial
  | len e ih =>
    intro tk h
    simp only [print, List.mem_append, List.mem_cons, List.not_mem_nil, or_false] at h
    rcases h with ((h | h) | h) | h
    · subst h; trivial
    · subst h; trivial
    · exact ih tk h
    · subst h; trivial
  | sum e ih =>
    intro tk h
    simp only [print, List.mem_append, List.mem_cons, List.not_mem_nil, or_false] at h
    rcases h with ((h | h) | h) | h
    · subst h; trivial
    · subst h; trivial
    · exact ih tk h
    · subst h; trivial
  | max e ih =>
    intro tk h
    simp only [print, List.mem_append, List.mem_cons, List.not_mem_nil, or_false] at h
    rcases h with ((h | h) | h) | h
    · subst h; trivial
    · subst h; trivial
    · exact ih tk h
    · subst h; trivial
  | prevNext f e t gb ob ih =>
    intro tk h
    simp only [print, List.mem_append, List.mem_cons, List.not_mem_nil, or_false] at h
    rcases h with ((((((h | h) | h) | h) | h) | h | h) | h) | h
    · subst h; cases f <;> trivial
    · subst h; trivial
    · exact ih tk h
    · subst h; trivial
    · cases gb with
      | none => cases h
      | some g =>
        simp only [List.mem_append, List.mem_cons, List.not_mem_nil, or_false] at h
        rcases h with ((h | h) | h) | h
        · subst h; trivial
        · subst h; trivial
        · exact tokOk_printOB t g tk h
        · subst h; trivial
    · subst h; trivial
    · subst h; trivial
    · exact tokOk_printOB t ob tk h
    · subst h; trivial
  | ifE c a b ihc iha ihb =>
    intro tk h
    simp only [print, List.mem_append, List.mem_cons, List.not_mem_nil, or_false] at h
    rcases h with ((((((h | h) | h) | h) | h) | h) | h) | h
    · subst h; trivial
    · subst h; trivial
    · exact ihc tk h
    · subst h; trivial
    · exact iha tk h
    · subst h; trivial
    · exact ihb tk h
    · subst h; trivial

/-! ## Text level: the patches of `_prepare_formula_renames` applied to the rendered text -/

def Ren.new : Ren → Name
  | .col _ _ n => n
  | .tab _ n => n

/-- Name occurrences are not empty strings. -/
def NameNe (tk : Tok) : Prop := tk.den.isSome = true → tk.text ≠ []

instance : DecidablePred NameNe := fun tk => by unfold NameNe; infer_instance

/-- The patches contributed by one piece at position `pos`. -/
def tokPatch (ρ : Ren) (f : Str) (pos : Nat) (tk : Tok) : List Patch :=
  match tk.den with
  | some dn => makePatches ρ f [(pos, dn.1, dn.2)]
  | none => []

theorem makePatches_append (ρ : Ren) (f : Str) (a b : List Occ) :
    makePatches ρ f (a ++ b) = makePatches ρ f a ++ makePatches ρ f b := by
  unfold makePatches; rw [List.filterMap_append]

theorem makePatches_occs_cons (ρ : Ren) (f : Str) (off : Nat) (triv : List Str) (tk : Tok)
    (tks : List Tok) :
    makePatches ρ f (occs off triv (tk :: tks)) =
      tokPatch ρ f (off + (triv.headD []).length) tk ++
      makePatches ρ f (occs (off + (triv.headD []).length + tk.text.length) triv.tail tks) := by
  simp only [occs, makePatches_append, tokPatch]
  cases tk.den <;> rfl

theorem tokPatch_spec (ρ : Ren) (f : Str) (pos : Nat) (tk : Tok) (hok : TokOk tk) (hne : NameNe tk)
    (hnew : ρ.new ≠ []) :
    (tokPatch ρ f pos tk = [] ∧ (renTok ρ tk).text = tk.text) ∨
    (tokPatch ρ f pos tk = [⟨(pos : Int), (pos : Int) + tk.text.length,
        slice f pos ((pos : Int) + tk.text.length), (renTok ρ tk).text⟩] ∧ tk.text ≠ []) := by
  obtain ⟨text, den⟩ := tk
  cases den with
  | none => left; exact ⟨rfl, rfl⟩
  | some dn =>
    obtain ⟨t, c⟩ := dn
    have hne' : text ≠ [] := hne rfl
    cases c with
    | none =>
      have ht : text = t := hok
      subst ht
      cases ρ with
      | col T o n => left; exact ⟨rfl, rfl⟩
      | tab o n =>
        by_cases h : text = o
        · right
          have hn : n ≠ [] := hnew
          refine ⟨?_, hne'⟩
          simp [tokPatch, makePatches, renamesGet, h, hn, renTok, Ren.tabOf]
        · left
          simp [tokPatch, makePatches, renamesGet, h, renTok, Ren.tabOf]
    | some c =>
      have ht : text = c := hok
      subst ht
      cases ρ with
      | tab o n => left; exact ⟨rfl, rfl⟩
      | col T o n =>
        by_cases h : t = T ∧ text = o
        · right
          have hn : n ≠ [] := hnew
          refine ⟨?_, hne'⟩
          obtain ⟨rfl, rfl⟩ := h
          simp [tokPatch, makePatches, renamesGet, hn, renTok, Ren.colOf, hne']
        · left
          simp [tokPatch, makePatches, renamesGet, h, renTok, Ren.colOf]

theorem render_length_le (triv : List Str) (toks : List Tok) : 0 ≤ (render triv toks).length :=
  Nat.zero_le _

/-- The patches computed from the occurrence list of a rendered piece list: applying them yields
    the rendering of the renamed pieces; each one is in range, non-empty, fits the text; they are
    ascending and pairwise disjoint. -/
theorem patches_spec (ρ : Ren) (hnew : ρ.new ≠ []) : ∀ (toks : List Tok) (triv : List Str) (pre f : Str),
    (∀ tk ∈ toks, TokOk tk ∧ NameNe tk) → f = pre ++ render triv toks →
    applyPatches f (makePatches ρ f (occs pre.length triv toks)) =
        pre ++ render triv (toks.map (renTok ρ)) ∧
    (∀ q ∈ makePatches ρ f (occs pre.length triv toks),
        (pre.length : Int) ≤ q.start ∧ q.start < q.end_ ∧ q.end_ ≤ f.length ∧
        slice f q.start q.end_ = q.oldText) ∧
    Ordered (makePatches ρ f (occs pre.length triv toks)) := by
  intro toks
  induction toks with
  | nil =>
    intro triv pre f _ hf
    refine ⟨?_, ?_, ?_⟩
    · simp [occs, makePatches, applyPatches, render, hf]
    · intro q hq; simp [occs, makePatches] at hq
    · simp [occs, makePatches, Ordered]
  | cons tk tks ih =>
    intro triv pre f hok hf
    have hok' : ∀ x ∈ tks, TokOk x ∧ NameNe x := fun x hx => hok x (by simp [hx])
    obtain ⟨hk, hn⟩ := hok tk (by simp)
    have hf' : f = (pre ++ triv.headD [] ++ tk.text) ++ render triv.tail tks := by
      rw [hf]; simp [render, List.append_assoc]
    have hlen : (pre ++ triv.headD [] ++ tk.text).length =
        pre.length + (triv.headD []).length + tk.text.length := by
      simp only [List.length_append]
    obtain ⟨ih1, ih2, ih3⟩ := ih triv.tail (pre ++ triv.headD [] ++ tk.text) f hok' hf'
    rw [hlen] at ih1 ih2 ih3
    rw [makePatches_occs_cons]
    have hflen : pre.length + (triv.headD []).length + tk.text.length ≤ f.length := by
      rw [hf', List.length_append, hlen]; omega
    rcases tokPatch_spec ρ f (pre.length + (triv.headD []).length) tk hk hn hnew with ⟨h1, h2⟩ | ⟨h1, h2⟩
    · rw [h1, List.nil_append]
      refine ⟨?_, ?_, ih3⟩
      · rw [ih1]; simp [render, h2, List.append_assoc]
      · intro q hq
        obtain ⟨a, b, c, e⟩ := ih2 q hq
        exact ⟨by omega, b, c, e⟩
    · rw [h1]
      have hpos : 0 < tk.text.length := List.length_pos_iff.mpr h2
      refine ⟨?_, ?_, ?_⟩
      · rw [List.singleton_append]
        show splice (applyPatches f _) _ = _
        rw [ih1]
        unfold splice
        simp only [List.map_cons, render]
        have e1 : ((↑(pre.length + (triv.headD []).length) : Int)).toNat =
            (pre ++ triv.headD []).length := by
          rw [List.length_append]; omega
        have e2 : ((↑(pre.length + (triv.headD []).length) : Int) + ↑tk.text.length).toNat =
            (pre ++ triv.headD [] ++ tk.text).length := by
          rw [hlen]; omega
        rw [e1, e2]
        have t1 : List.take (pre ++ triv.headD []).length
            (pre ++ triv.headD [] ++ tk.text ++ render triv.tail (tks.map (renTok ρ))) =
            pre ++ triv.headD [] := by
          rw [List.append_assoc (pre ++ triv.headD [])]
          exact List.take_left' rfl
        rw [t1, List.drop_left' rfl]
        simp [List.append_assoc]
      · intro q hq
        simp only [List.singleton_append, List.mem_cons] at hq
        rcases hq with rfl | hq
        · refine ⟨by simp only; omega, by simp only; omega, ?_, rfl⟩
          simp only
          have : ((pre.length + (triv.headD []).length : Nat) : Int) + (tk.text.length : Int) ≤ f.length := by
            omega
          exact this
        · obtain ⟨a, b, c, e⟩ := ih2 q hq
          exact ⟨by omega, b, c, e⟩
      · unfold Ordered
        simp only [List.singleton_append]
        refine List.pairwise_cons.mpr ⟨?_, ih3⟩
        intro q hq
        have := (ih2 q hq).1
        simp only
        omega

theorem patches_sorted (ps : List Patch) (hord : Ordered ps) (hpos : ∀ q ∈ ps, q.start < q.end_) :
    ps.Pairwise (fun a b => Patch.le a b = true) := by
  unfold Ordered at hord
  refine hord.imp_of_mem ?_
  intro a b ha _ hab
  rw [Textbuilder.Patch.le_iff]
  left
  have := hpos a ha
  omega

theorem Patch.le_antisymm (a b : Patch) (h1 : Patch.le a b = true) (h2 : Patch.le b a = true) :
    a = b := by
  rw [Textbuilder.Patch.le_iff] at h1 h2
  obtain ⟨as, ae, ao, an⟩ := a
  obtain ⟨bs, be, bo, bn⟩ := b
  simp only at h1 h2
  rcases h1 with h1 | ⟨e1, h1⟩
  · rcases h2 with h2 | ⟨e2, _⟩ <;> omega
  · rcases h2 with h2 | ⟨_, h2⟩
    · omega
    · subst e1
      rcases h1 with h1 | ⟨f1, h1⟩
      · rcases h2 with h2 | ⟨f2, _⟩ <;> omega
      · rcases h2 with h2 | ⟨_, h2⟩
        · omega
        · subst f1
          rcases h1 with ⟨n1, l1⟩ | ⟨g1, l1⟩
          · rcases h2 with ⟨_, l2⟩ | ⟨g2, _⟩
            · exact absurd (List.le_antisymm l1 l2) n1
            · exact absurd g2.symm n1
          · subst g1
            rcases h2 with ⟨n2, _⟩ | ⟨_, l2⟩
            · exact absurd rfl n2
            · have := List.le_antisymm l1 l2
              subst this; rfl

end Grist.FormulaRename
