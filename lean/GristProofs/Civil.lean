/-
Helper development for C34: CPython's `_ymd2ord` / `_ord2ymd` (the arithmetic behind
`date - DATE_EPOCH` and `DATE_EPOCH + timedelta`) are mutually inverse on valid civil dates,
for every year (proleptic, no range limit).
-/
import GristModel.Zone
namespace Grist.Zone

/-- The leap flag computed by `_ord2ymd` from the divmod digits is `_is_leap(year)`. -/
theorem isLeap_digits (a b c d : Int) (hb0 : 0 ≤ b) (hb : b ≤ 3) (hc0 : 0 ≤ c) (hc : c ≤ 24)
    (hd0 : 0 ≤ d) (hd : d ≤ 3) :
    isLeap (a * 400 + 1 + (b * 100 + c * 4 + d)) = decide (d = 3 ∧ (c ≠ 24 ∨ b = 3)) := by
  unfold isLeap
  apply decide_eq_decide.2
  have e4 : (a * 400 + 1 + (b * 100 + c * 4 + d)) % 4 = 0 ↔ d = 3 := by omega
  have e100 : (a * 400 + 1 + (b * 100 + c * 4 + d)) % 100 = 0 ↔ (c = 24 ∧ d = 3) := by omega
  have e400 : (a * 400 + 1 + (b * 100 + c * 4 + d)) % 400 = 0 ↔ (b = 3 ∧ c = 24 ∧ d = 3) := by omega
  rw [e4, Ne, e100, e400]
  constructor
  · rintro ⟨h1, h2⟩
    refine ⟨h1, ?_⟩
    rcases h2 with h2 | h2
    · left; intro h; exact h2 ⟨h, h1⟩
    · right; exact h2.1
  · rintro ⟨h1, h2⟩
    refine ⟨h1, ?_⟩
    by_cases h : c = 24
    · rcases h2 with h2 | h2
      · exact absurd h h2
      · right; exact ⟨h2, h, h1⟩
    · left; intro hh; exact h hh.1

theorem daysBeforeYear_digits (a b c d : Int) (hb0 : 0 ≤ b) (hb : b ≤ 3) (hc0 : 0 ≤ c) (hc : c ≤ 24)
    (hd0 : 0 ≤ d) (hd : d ≤ 3) :
    daysBeforeYear (a * 400 + 1 + (b * 100 + c * 4 + d)) = a * 146097 + b * 36524 + c * 1461 + d * 365 := by
  unfold daysBeforeYear
  simp only
  have e4 : (a * 400 + 1 + (b * 100 + c * 4 + d) - 1) / 4 = a * 100 + b * 25 + c := by omega
  have e100 : (a * 400 + 1 + (b * 100 + c * 4 + d) - 1) / 100 = a * 4 + b := by omega
  have e400 : (a * 400 + 1 + (b * 100 + c * 4 + d) - 1) / 400 = a := by omega
  rw [e4, e100, e400]
  omega

theorem dbm_table (leap : Bool) :
    daysBeforeMonth leap 0 = 334 ∧
    daysBeforeMonth leap 1 = 0 ∧ daysBeforeMonth leap 2 = 31 ∧
    daysBeforeMonth leap 3 = 59 + (if leap then 1 else 0) ∧
    daysBeforeMonth leap 4 = 90 + (if leap then 1 else 0) ∧
    daysBeforeMonth leap 5 = 120 + (if leap then 1 else 0) ∧
    daysBeforeMonth leap 6 = 151 + (if leap then 1 else 0) ∧
    daysBeforeMonth leap 7 = 181 + (if leap then 1 else 0) ∧
    daysBeforeMonth leap 8 = 212 + (if leap then 1 else 0) ∧
    daysBeforeMonth leap 9 = 243 + (if leap then 1 else 0) ∧
    daysBeforeMonth leap 10 = 273 + (if leap then 1 else 0) ∧
    daysBeforeMonth leap 11 = 304 + (if leap then 1 else 0) ∧
    daysBeforeMonth leap 12 = 334 + (if leap then 1 else 0) := by
  cases leap <;> decide

theorem dim_table (leap : Bool) :
    daysInMonthL leap 0 = 31 ∧
    daysInMonthL leap 1 = 31 ∧ daysInMonthL leap 2 = 28 + (if leap then 1 else 0) ∧
    daysInMonthL leap 3 = 31 ∧ daysInMonthL leap 4 = 30 ∧ daysInMonthL leap 5 = 31 ∧
    daysInMonthL leap 6 = 30 ∧ daysInMonthL leap 7 = 31 ∧ daysInMonthL leap 8 = 31 ∧
    daysInMonthL leap 9 = 30 ∧ daysInMonthL leap 10 = 31 ∧ daysInMonthL leap 11 = 30 ∧
    daysInMonthL leap 12 = 31 := by
  cases leap <;> decide

theorem cases12 (m : Int) (h1 : 1 ≤ m) (h2 : m ≤ 12) :
    m = 1 ∨ m = 2 ∨ m = 3 ∨ m = 4 ∨ m = 5 ∨ m = 6 ∨ m = 7 ∨ m = 8 ∨ m = 9 ∨ m = 10 ∨ m = 11 ∨ m = 12 := by
  rcases (by omega : m = 1 ∨ 2 ≤ m) with e | h1
  · simp [e]
  rcases (by omega : m = 2 ∨ 3 ≤ m) with e | h1
  · simp [e]
  rcases (by omega : m = 3 ∨ 4 ≤ m) with e | h1
  · simp [e]
  rcases (by omega : m = 4 ∨ 5 ≤ m) with e | h1
  · simp [e]
  rcases (by omega : m = 5 ∨ 6 ≤ m) with e | h1
  · simp [e]
  rcases (by omega : m = 6 ∨ 7 ≤ m) with e | h1
  · simp [e]
  rcases (by omega : m = 7 ∨ 8 ≤ m) with e | h1
  · simp [e]
  rcases (by omega : m = 8 ∨ 9 ≤ m) with e | h1
  · simp [e]
  rcases (by omega : m = 9 ∨ 10 ≤ m) with e | h1
  · simp [e]
  rcases (by omega : m = 10 ∨ 11 ≤ m) with e | h1
  · simp [e]
  rcases (by omega : m = 11 ∨ 12 ≤ m) with e | h1
  · simp [e]
  have e : m = 12 := by omega
  simp [e]

theorem month_split (leap : Bool) (n : Int) (h0 : 0 ≤ n) (h1 : n < 365 + (if leap then 1 else 0)) :
    (daysBeforeMonth leap ((n + 50) / 32) > n →
      1 ≤ (n + 50) / 32 - 1 ∧ (n + 50) / 32 - 1 ≤ 12 ∧
      daysBeforeMonth leap ((n + 50) / 32) - daysInMonthL leap ((n + 50) / 32 - 1)
        = daysBeforeMonth leap ((n + 50) / 32 - 1) ∧
      1 ≤ n - daysBeforeMonth leap ((n + 50) / 32 - 1) + 1 ∧
      n - daysBeforeMonth leap ((n + 50) / 32 - 1) + 1 ≤ daysInMonthL leap ((n + 50) / 32 - 1)) ∧
    (¬ daysBeforeMonth leap ((n + 50) / 32) > n →
      1 ≤ (n + 50) / 32 ∧ (n + 50) / 32 ≤ 12 ∧
      1 ≤ n - daysBeforeMonth leap ((n + 50) / 32) + 1 ∧
      n - daysBeforeMonth leap ((n + 50) / 32) + 1 ≤ daysInMonthL leap ((n + 50) / 32)) := by
  have hL : (if leap = true then (1 : Int) else 0) = 0 ∨ (if leap = true then (1 : Int) else 0) = 1 := by
    cases leap <;> simp
  have hmm := cases12 ((n + 50) / 32) (by omega) (by omega)
  have hn : 32 * ((n + 50) / 32) ≤ n + 50 ∧ n + 50 < 32 * ((n + 50) / 32) + 32 := by omega
  obtain ⟨b0, b1, b2, b3, b4, b5, b6, b7, b8, b9, b10, b11, b12⟩ := dbm_table leap
  obtain ⟨d0, d1, d2, d3, d4, d5, d6, d7, d8, d9, d10, d11, d12⟩ := dim_table leap
  generalize (if leap = true then (1 : Int) else 0) = L at *
  generalize hm : (n + 50) / 32 = month at hmm hn ⊢
  rcases hmm with e | e | e | e | e | e | e | e | e | e | e | e <;> subst e <;>
    simp only [Int.reduceSub, b0, b1, b2, b3, b4, b5, b6, b7, b8, b9, b10, b11, b12,
      d0, d1, d2, d3, d4, d5, d6, d7, d8, d9, d10, d11, d12] <;>
    clear b0 b1 b2 b3 b4 b5 b6 b7 b8 b9 b10 b11 b12 d0 d1 d2 d3 d4 d5 d6 d7 d8 d9 d10 d11 d12 <;>
    refine ⟨fun hp => ⟨?_, ?_, ?_, ?_, ?_⟩, fun hp => ⟨?_, ?_, ?_, ?_⟩⟩ <;> first | trivial | omega

/-- Digits of `_ord2ymd`: the divmod chain recovers `a, b, c, d, r` from
    `N = a*146097 + b*36524 + c*1461 + d*365 + r` (mixed radix with the two irregular last slots). -/
theorem digit_chain (N : Int) :
    ∃ a b c d r : Int,
      N / 146097 = a ∧ N % 146097 / 36524 = b ∧ N % 146097 % 36524 / 1461 = c ∧
      N % 146097 % 36524 % 1461 / 365 = d ∧ N % 146097 % 36524 % 1461 % 365 = r ∧
      N = a * 146097 + b * 36524 + c * 1461 + d * 365 + r ∧
      0 ≤ b ∧ b ≤ 4 ∧ 0 ≤ c ∧ c ≤ 24 ∧ 0 ≤ d ∧ d ≤ 4 ∧ 0 ≤ r ∧ r ≤ 364 ∧
      (b = 4 → c = 0 ∧ d = 0 ∧ r = 0) ∧ (d = 4 → r = 0 ∧ c ≤ 23) := by
  refine ⟨_, _, _, _, _, rfl, rfl, rfl, rfl, rfl, ?_⟩
  generalize h1 : N % 146097 = r1
  generalize h2 : r1 % 36524 = r2
  generalize h3 : r2 % 1461 = r3
  have : 0 ≤ r1 ∧ r1 < 146097 := by omega
  have : 0 ≤ r2 ∧ r2 < 36524 := by omega
  have : 0 ≤ r3 ∧ r3 < 1461 := by omega
  refine ⟨by omega, by omega, by omega, by omega, by omega, by omega, by omega, by omega, by omega,
    by omega, by omega⟩

/-- **`_ymd2ord(_ord2ymd(n)) = n`** and `_ord2ymd(n)` is a valid civil date, for every integer `n`. -/
theorem ord2ymd_spec (n0 : Int) : (ord2ymd n0).Valid ∧ ymd2ord (ord2ymd n0) = n0 := by
  obtain ⟨a, b, c, d, r, ha, hb, hc, hd, hr, hN, b0, b4, c0, c24, d0, d4, r0, r364, hb4, hd4⟩ :=
    digit_chain (n0 - 1)
  unfold ord2ymd
  simp only [ha, hb, hc, hd, hr]
  by_cases early : d = 4 ∨ b = 4
  · simp only [early, if_true]
    -- last day of a leap year: year-1 has digits (b', c', 3)
    obtain ⟨b', c', hy, hb', hb'3, hc', hc'24, hleap, hdays⟩ :
        ∃ b' c' : Int, a * 400 + 1 + (b * 100 + c * 4 + d) - 1 = a * 400 + 1 + (b' * 100 + c' * 4 + 3) ∧
          0 ≤ b' ∧ b' ≤ 3 ∧ 0 ≤ c' ∧ c' ≤ 24 ∧ (c' ≠ 24 ∨ b' = 3) ∧
          b' * 36524 + c' * 1461 + 3 * 365 + 365 = b * 36524 + c * 1461 + d * 365 + r := by
      rcases early with e | e
      · have := hd4 e
        by_cases eb : b = 4
        · have := hb4 eb
          omega
        · exact ⟨b, c, by omega, by omega, by omega, by omega, by omega, by omega, by omega⟩
      · have := hb4 e
        exact ⟨3, 24, by omega, by omega, by omega, by omega, by omega, by omega, by omega⟩
    have hl := isLeap_digits a b' c' 3 hb' hb'3 hc' hc'24 (by omega) (by omega)
    have hl' : isLeap (a * 400 + 1 + (b' * 100 + c' * 4 + 3)) = true := by
      rw [hl]; exact decide_eq_true ⟨rfl, hleap⟩
    have hy' := daysBeforeYear_digits a b' c' 3 hb' hb'3 hc' hc'24 (by omega) (by omega)
    rw [hy]
    constructor
    · simp only [Civil.Valid, daysInMonth, hl']
      decide
    · simp only [ymd2ord, hl', hy']
      have : daysBeforeMonth true 12 = 335 := by decide
      rw [this]
      omega
  · simp only [early, if_false]
    have hb3 : b ≤ 3 := by omega
    have hd3 : d ≤ 3 := by omega
    have hl := isLeap_digits a b c d b0 hb3 c0 c24 d0 hd3
    have hy := daysBeforeYear_digits a b c d b0 hb3 c0 c24 d0 hd3
    generalize hleap : decide (d = 3 ∧ (c ≠ 24 ∨ b = 3)) = leap at *
    have hms := month_split leap r r0 (by cases leap <;> simp <;> omega)
    split
    · next hp =>
      obtain ⟨m1, m12, e, dd1, dd2⟩ := hms.1 hp
      constructor
      · simp only [Civil.Valid, daysInMonth, hl]
        rw [e]
        exact ⟨m1, m12, dd1, dd2⟩
      · simp only [ymd2ord, hl, hy]
        rw [e]
        omega
    · next hp =>
      obtain ⟨m1, m12, dd1, dd2⟩ := hms.2 hp
      constructor
      · simp only [Civil.Valid, daysInMonth, hl]
        exact ⟨m1, m12, dd1, dd2⟩
      · simp only [ymd2ord, hl, hy]
        omega

/-- The divmod chain applied to a number given by its digits. -/
theorem chain_of_digits (N a b c d r L : Int) (b0 : 0 ≤ b) (b3 : b ≤ 3) (c0 : 0 ≤ c) (c24 : c ≤ 24)
    (d0 : 0 ≤ d) (d3 : d ≤ 3) (hL : L = 0 ∨ (L = 1 ∧ d = 3 ∧ (c ≠ 24 ∨ b = 3)))
    (r0 : 0 ≤ r) (r1 : r ≤ 364 + L)
    (hN : N = a * 146097 + b * 36524 + c * 1461 + d * 365 + r) :
    (r ≤ 364 →
      N / 146097 = a ∧ N % 146097 / 36524 = b ∧ N % 146097 % 36524 / 1461 = c ∧
      N % 146097 % 36524 % 1461 / 365 = d ∧ N % 146097 % 36524 % 1461 % 365 = r) ∧
    (r = 365 →
      (N % 146097 % 36524 % 1461 / 365 = 4 ∨ N % 146097 / 36524 = 4) ∧
      N / 146097 * 400 + 1 + (N % 146097 / 36524 * 100 + N % 146097 % 36524 / 1461 * 4 +
        N % 146097 % 36524 % 1461 / 365) - 1 = a * 400 + 1 + (b * 100 + c * 4 + d)) := by
  have ea : N / 146097 = a := by omega
  have e1 : N % 146097 = b * 36524 + c * 1461 + d * 365 + r := by omega
  rw [ea, e1]
  constructor
  · intro hr
    have eb : (b * 36524 + c * 1461 + d * 365 + r) / 36524 = b := by omega
    have e2 : (b * 36524 + c * 1461 + d * 365 + r) % 36524 = c * 1461 + d * 365 + r := by omega
    rw [eb, e2]
    have ec : (c * 1461 + d * 365 + r) / 1461 = c := by omega
    have e3 : (c * 1461 + d * 365 + r) % 1461 = d * 365 + r := by omega
    rw [ec, e3]
    refine ⟨rfl, rfl, rfl, by omega, by omega⟩
  · intro hr
    subst hr
    have hd : d = 3 := by omega
    subst hd
    by_cases hc : c = 24
    · have hb : b = 3 := by omega
      subst hc hb
      have eb : ((3 : Int) * 36524 + 24 * 1461 + 3 * 365 + 365) / 36524 = 4 := by decide
      have e2 : ((3 : Int) * 36524 + 24 * 1461 + 3 * 365 + 365) % 36524 = 0 := by decide
      rw [eb, e2]
      refine ⟨Or.inr rfl, ?_⟩
      simp only [show (0 : Int) / 1461 = 0 by decide, show (0 : Int) % 1461 = 0 by decide,
        show (0 : Int) / 365 = 0 by decide]
      omega
    · have eb : (b * 36524 + c * 1461 + 3 * 365 + 365) / 36524 = b := by omega
      have e2 : (b * 36524 + c * 1461 + 3 * 365 + 365) % 36524 = c * 1461 + 3 * 365 + 365 := by omega
      rw [eb, e2]
      have ec : (c * 1461 + 3 * 365 + 365) / 1461 = c := by omega
      have e3 : (c * 1461 + 3 * 365 + 365) % 1461 = 1460 := by omega
      rw [ec, e3]
      refine ⟨Or.inl (by decide), ?_⟩
      simp only [show (1460 : Int) / 365 = 4 by decide]
      omega

/-- Month step, other direction: from a valid (month, day) the code's estimate-and-correct
    recovers exactly that month and day (statement `MonthJoinP`; a finite check over
    2 x 12 x 31 cases evaluated by the kernel, then lifted to `Int`). -/
def MonthJoinP (leap : Bool) (m dd : Int) : Prop :=
    (daysBeforeMonth leap ((daysBeforeMonth leap m + dd - 1 + 50) / 32) > daysBeforeMonth leap m + dd - 1 →
      (daysBeforeMonth leap m + dd - 1 + 50) / 32 - 1 = m ∧
      daysBeforeMonth leap m + dd - 1 -
        (daysBeforeMonth leap ((daysBeforeMonth leap m + dd - 1 + 50) / 32) -
          daysInMonthL leap ((daysBeforeMonth leap m + dd - 1 + 50) / 32 - 1)) + 1 = dd) ∧
    (¬ daysBeforeMonth leap ((daysBeforeMonth leap m + dd - 1 + 50) / 32) > daysBeforeMonth leap m + dd - 1 →
      (daysBeforeMonth leap m + dd - 1 + 50) / 32 = m ∧
      daysBeforeMonth leap m + dd - 1 - daysBeforeMonth leap ((daysBeforeMonth leap m + dd - 1 + 50) / 32) + 1 = dd)

instance (leap : Bool) (m dd : Int) : Decidable (MonthJoinP leap m dd) := by unfold MonthJoinP; infer_instance

theorem month_join_fin : ∀ leap : Bool, ∀ m : Fin 13, ∀ dd : Fin 32,
    1 ≤ m.val → 1 ≤ dd.val → (dd.val : Int) ≤ daysInMonthL leap (m.val : Int) →
    MonthJoinP leap (m.val : Int) (dd.val : Int) := by decide +kernel

theorem month_join (leap : Bool) (m dd : Int) (m1 : 1 ≤ m) (m12 : m ≤ 12) (dd1 : 1 ≤ dd)
    (dd2 : dd ≤ daysInMonthL leap m) : MonthJoinP leap m dd := by
  have hdd : dd ≤ 31 := by
    have : daysInMonthL leap m ≤ 31 := by
      unfold daysInMonthL
      cases leap <;> (repeat' split) <;> decide
    omega
  have hm : ((m.toNat : Nat) : Int) = m := Int.toNat_of_nonneg (by omega)
  have hd : ((dd.toNat : Nat) : Int) = dd := Int.toNat_of_nonneg (by omega)
  have := month_join_fin leap ⟨m.toNat, by omega⟩ ⟨dd.toNat, by omega⟩ (by simp only; omega) (by simp only; omega)
    (by simp only [hm, hd]; exact dd2)
  simpa only [hm, hd] using this

/-- **`_ord2ymd(_ymd2ord(y, m, d)) = (y, m, d)`** for every valid civil date of any year. -/
theorem ord2ymd_ymd2ord (c : Civil) (hv : c.Valid) : ord2ymd (ymd2ord c) = c := by
  obtain ⟨y, m, dd⟩ := c
  obtain ⟨m1, m12, dd1, dd2⟩ := hv
  simp only at m1 m12 dd1 dd2
  -- digits of y - 1
  obtain ⟨a, b, cc, d, hy, b0, b3, c0, c24, d0, d3⟩ :
      ∃ a b cc d : Int, y = a * 400 + 1 + (b * 100 + cc * 4 + d) ∧ 0 ≤ b ∧ b ≤ 3 ∧ 0 ≤ cc ∧ cc ≤ 24 ∧
        0 ≤ d ∧ d ≤ 3 :=
    ⟨(y - 1) / 400, (y - 1) % 400 / 100, (y - 1) % 400 % 100 / 4, (y - 1) % 400 % 100 % 4,
      by omega, by omega, by omega, by omega, by omega, by omega, by omega⟩
  subst hy
  have hl := isLeap_digits a b cc d b0 b3 c0 c24 d0 d3
  have hyy := daysBeforeYear_digits a b cc d b0 b3 c0 c24 d0 d3
  simp only [daysInMonth, hl] at dd2
  generalize hleap : decide (d = 3 ∧ (cc ≠ 24 ∨ b = 3)) = leap at *
  have hj := month_join leap m dd m1 m12 dd1 dd2
  -- day of year
  have hr0 : 0 ≤ daysBeforeMonth leap m + dd - 1 := by
    have : 0 ≤ daysBeforeMonth leap m := by
      obtain ⟨_, t1, t2, t3, t4, t5, t6, t7, t8, t9, t10, t11, t12⟩ := dbm_table leap
      rcases cases12 m m1 m12 with e | e | e | e | e | e | e | e | e | e | e | e <;> subst e <;>
        cases leap <;> simp_all
    omega
  obtain ⟨L, hL, hr1⟩ : ∃ L : Int, (L = 0 ∨ (L = 1 ∧ d = 3 ∧ (cc ≠ 24 ∨ b = 3))) ∧
      daysBeforeMonth leap m + dd - 1 ≤ 364 + L := by
    have hs : daysBeforeMonth leap m + daysInMonthL leap m ≤ 365 + (if leap = true then 1 else 0) := by
      obtain ⟨_, t1, t2, t3, t4, t5, t6, t7, t8, t9, t10, t11, t12⟩ := dbm_table leap
      obtain ⟨_, u1, u2, u3, u4, u5, u6, u7, u8, u9, u10, u11, u12⟩ := dim_table leap
      rcases cases12 m m1 m12 with e | e | e | e | e | e | e | e | e | e | e | e <;> subst e <;>
        cases leap <;> simp_all
    cases leap with
    | false => exact ⟨0, Or.inl rfl, by simp at hs; omega⟩
    | true =>
      have := of_decide_eq_true hleap
      exact ⟨1, Or.inr ⟨rfl, this.1, this.2⟩, by simp at hs; omega⟩
  generalize hr : daysBeforeMonth leap m + dd - 1 = r at *
  have hN : ymd2ord ⟨a * 400 + 1 + (b * 100 + cc * 4 + d), m, dd⟩ - 1
      = a * 146097 + b * 36524 + cc * 1461 + d * 365 + r := by
    simp only [ymd2ord, hl, hyy]
    omega
  obtain ⟨hA, hB⟩ := chain_of_digits _ a b cc d r L b0 b3 c0 c24 d0 d3 hL hr0 hr1 hN
  unfold ord2ymd
  simp only []
  by_cases h365 : r ≤ 364
  · obtain ⟨e1, e2, e3, e4, e5⟩ := hA h365
    simp only [e1, e2, e3, e4, e5]
    have hne : ¬ (d = 4 ∨ b = 4) := by omega
    simp only [hne, if_false, hleap]
    unfold MonthJoinP at hj
    rw [hr] at hj
    split
    · next hp =>
      obtain ⟨f1, f2⟩ := hj.1 hp
      rw [f2, f1]
    · next hp =>
      obtain ⟨f1, f2⟩ := hj.2 hp
      rw [f2, f1]
  · obtain ⟨e1, e2⟩ := hB (by omega)
    simp only [e1, if_true, e2]
    -- r = 365 forces December 31st
    have hr365 : r = 365 := by omega
    have hleapT : leap = true := by
      cases leap with
      | true => rfl
      | false =>
        exfalso
        rcases hL with h | h
        · omega
        · have h2 := h.2
          simp [h2] at hleap
    subst hleapT
    obtain ⟨_, t1, t2, t3, t4, t5, t6, t7, t8, t9, t10, t11, t12⟩ := dbm_table true
    obtain ⟨_, u1, u2, u3, u4, u5, u6, u7, u8, u9, u10, u11, u12⟩ := dim_table true
    have : m = 12 ∧ dd = 31 := by
      rcases cases12 m m1 m12 with e | e | e | e | e | e | e | e | e | e | e | e <;> subst e <;>
        simp_all <;> omega
    obtain ⟨rfl, rfl⟩ := this
    rfl

/-! ### in terms of day numbers since 1970-01-01 -/

theorem days_of_civil_of_days (n : Int) : daysFromCivil (civilFromDays n) = n := by
  unfold daysFromCivil civilFromDays
  rw [(ord2ymd_spec _).2]
  omega

theorem civilFromDays_valid (n : Int) : (civilFromDays n).Valid := (ord2ymd_spec _).1

theorem civil_of_days_of_civil (c : Civil) (hv : c.Valid) : civilFromDays (daysFromCivil c) = c := by
  unfold daysFromCivil civilFromDays
  rw [show ymd2ord c - 719163 + 719163 = ymd2ord c by omega]
  exact ord2ymd_ymd2ord c hv

end Grist.Zone
