/-
C08 pairs, part 3: cells of the column-record table after a record action; the document-level core.
-/
import GristProofs.SchemaMetaPairs2
import GristProofs.DocUndoList
namespace Grist.Doc

theorem valNat_typeDefault (t : String) : valNat (typeDefault t) = 0 := by
  unfold typeDefault
  generalize pureType t = p
  split <;> rfl

theorem cell_written_other (tb : Table) {rows : List Nat} (cols : List (String × List Val))
    (f : String) {x : Nat} (hx : x ∉ rows) : (tb.written rows cols).cell f x = tb.cell f x := by
  unfold Table.cell
  rw [Table.findCol?_written]
  cases tb.findCol? f with
  | none => rfl
  | some col => exact writeCells_not_mem _ _ _ hx _ _

theorem cell_written_nokey (tb : Table) (rows : List Nat) {cols : List (String × List Val)}
    {f : String} (h : ∀ cv ∈ cols, cv.1 ≠ f) (x : Nat) :
    (tb.written rows cols).cell f x = tb.cell f x := by
  unfold Table.cell
  rw [Table.findCol?_written]
  cases e : tb.findCol? f with
  | none => rfl
  | some col =>
    simp only [Option.map_some, Col.written]
    rw [writeCells_no_key]
    intro cv hcv hk
    exact h cv hcv (hk.trans (findCol?_some e).1)

theorem cell_written_key {tb : Table} {cols : List (String × List Val)} {f : String} {col : Col}
    {r : Nat} {v : Val} (hf : tb.findCol? f = some col)
    (hall : ∀ cv ∈ cols, cv.1 = f → cv.2 = [v]) (hex : ∃ cv ∈ cols, cv.1 = f) :
    (tb.written [r] cols).cell f r = colSet col.info.type v := by
  unfold Table.cell
  rw [Table.findCol?_written, hf]
  simp only [Option.map_some, Col.written]
  have hid := (findCol?_some hf).1
  rw [writeCells_const col.info.type [r] col.id (fun _ => v) (List.mem_singleton.2 rfl)]
  · intro cv hcv hk
    rw [hall cv hcv (hk.trans hid)]; rfl
  · left
    obtain ⟨cv, hcv, hk⟩ := hex
    exact ⟨cv, hcv, hk.trans hid.symm⟩

theorem cell_removeRows (tb : Table) (rows' : List Nat) (f : String) {x : Nat} (hx : x ∉ rows') :
    (tb.removeRows rows').cell f x = tb.cell f x := by
  unfold Table.cell
  have : (tb.removeRows rows').findCol? f = (tb.findCol? f).map (Col.unsetRows rows') :=
    find_key_map Col.id _ (fun _ => rfl)
  rw [this]
  cases tb.findCol? f with
  | none => rfl
  | some col => simp [Col.unsetRows, hx]

theorem colRecInfo_preserved {mc mc' : Table} {x : Nat}
    (hcell : ∀ f ∈ columnFields, mc'.cell f x = mc.cell f x)
    (hrows : valNat (mc.cell "reverseCol" x) ∈ mc'.rows ↔ valNat (mc.cell "reverseCol" x) ∈ mc.rows)
    (hrc : valNat (mc.cell "reverseCol" x) ∈ mc.rows →
      mc'.cell "colId" (valNat (mc.cell "reverseCol" x)) =
        mc.cell "colId" (valNat (mc.cell "reverseCol" x))) :
    colRecInfo mc' x = colRecInfo mc x := by
  have e1 := hcell "colId" (by simp [columnFields])
  have e2 := hcell "type" (by simp [columnFields])
  have e3 := hcell "isFormula" (by simp [columnFields])
  have e4 := hcell "formula" (by simp [columnFields])
  have e5 := hcell "reverseCol" (by simp [columnFields])
  simp only [colRecInfo, e1, e2, e3, e4, e5, List.contains_iff_mem]
  by_cases h : valNat (mc.cell "reverseCol" x) ∈ mc.rows
  · simp only [hrows.2 h, h, ↓reduceIte, hrc h]
  · have h' : ¬ valNat (mc.cell "reverseCol" x) ∈ mc'.rows := fun hh => h (hrows.1 hh)
    simp only [h, h', ↓reduceIte]

/-- all records except `r` are kept as they are -/
theorem P_of_cells {mc mc' : Table} {r : Nat}
    (hrows : ∀ x, x ≠ r → (x ∈ mc'.rows ↔ x ∈ mc.rows))
    (hcells : ∀ f x, x ≠ r → x ∈ mc.rows → mc'.cell f x = mc.cell f x)
    (hnr : ∀ x ∈ mc.rows, valNat (mc.cell "reverseCol" x) ≠ r) :
    ∀ x, x ≠ r → ((x ∈ mc'.rows ↔ x ∈ mc.rows) ∧
      (x ∈ mc.rows → par mc' x = par mc x ∧ colRecInfo mc' x = colRecInfo mc x)) := by
  intro x hxr
  refine ⟨hrows x hxr, fun hx => ⟨?_, ?_⟩⟩
  · unfold par; rw [hcells _ x hxr hx]
  · apply colRecInfo_preserved (fun f _ => hcells f x hxr hx) (hrows _ (hnr x hx))
    intro h
    exact hcells _ _ (hnr x hx) h

/-- the reverse-reference part of the record `r` itself when its `reverseCol` is kept -/
theorem colRecInfo_r {mc mc' : Table} {r : Nat} (hr : r ∈ mc.rows)
    (hrows : ∀ x, x ≠ r → (x ∈ mc'.rows ↔ x ∈ mc.rows))
    (hcells : ∀ f x, x ≠ r → x ∈ mc.rows → mc'.cell f x = mc.cell f x)
    (hnr : ∀ x ∈ mc.rows, valNat (mc.cell "reverseCol" x) ≠ r)
    (hrev : mc'.cell "reverseCol" r = mc.cell "reverseCol" r) :
    (colRecInfo mc' r).2.reverseColId = (colRecInfo mc r).2.reverseColId := by
  have hne := hnr r hr
  simp only [colRecInfo, hrev, List.contains_iff_mem]
  by_cases h : valNat (mc.cell "reverseCol" r) ∈ mc.rows
  · simp only [(hrows _ hne).2 h, h, ↓reduceIte, hcells _ _ hne h]
  · have h' : ¬ valNat (mc.cell "reverseCol" r) ∈ mc'.rows := fun hh => h ((hrows _ hne).1 hh)
    simp only [h, h', ↓reduceIte]

theorem isMetaId_MT : isMetaId "_grist_Tables" = true := by decide
theorem isMetaId_MC : isMetaId "_grist_Tables_column" = true := by decide

/-- document-level core of the column pairs -/
theorem pair_core {d d2 : Doc} {mt mc mc' tb tb' : Table} {T : String} {tr0 r : Nat}
    (hc : SchemaConsistent d)
    (hmt : findTable? d "_grist_Tables" = some mt)
    (hmc : findTable? d "_grist_Tables_column" = some mc) (htu : TUniq mt) (hcu : CUniq mc)
    (hTm : isMetaId T = false) (hfT : findTable? d T = some tb)
    (h2T : findTable? d2 T = some tb') (h2C : findTable? d2 "_grist_Tables_column" = some mc')
    (h2o : ∀ t, t ≠ T → t ≠ "_grist_Tables_column" → findTable? d2 t = findTable? d t)
    (htr0 : tr0 ∈ mt.rows) (htid : tid mt tr0 = T)
    (hP : ∀ x, x ≠ r → ((x ∈ mc'.rows ↔ x ∈ mc.rows) ∧
      (x ∈ mc.rows → par mc' x = par mc x ∧ colRecInfo mc' x = colRecInfo mc x)))
    (hRp : r ∈ mc.rows → par mc r = tr0) (hRp' : r ∈ mc'.rows → par mc' r = tr0)
    (hI : ∀ c i, tb'.infoOf? c = some i ↔
      (r ∈ mc'.rows ∧ colRecInfo mc' r = (c, i)) ∨
      (tb.infoOf? c = some i ∧ (r ∈ mc.rows → cid mc r ≠ c)))
    (hN : r ∈ mc'.rows → tb.infoOf? (colRecInfo mc' r).1 = none ∨
      (r ∈ mc.rows ∧ cid mc r = (colRecInfo mc' r).1)) :
    SchemaConsistent d2 ∧ MetaUnique d2 := by
  have hs := spec_of_consistent hmt hmc htu hcu hc
  have hTMT : T ≠ "_grist_Tables" := by intro h; rw [h, isMetaId_MT] at hTm; cases hTm
  have hTMC : T ≠ "_grist_Tables_column" := by intro h; rw [h, isMetaId_MC] at hTm; cases hTm
  have h2mt : findTable? d2 "_grist_Tables" = some mt := by
    rw [h2o _ (Ne.symm hTMT) (by decide)]; exact hmt
  have hU : ∀ t, userTable? d2 t = if t = T then some tb' else userTable? d t := by
    intro t
    unfold userTable?
    by_cases ht : t = T
    · subst ht; simp [hTm, h2T]
    · simp only [ht, ↓reduceIte]
      by_cases htc : t = "_grist_Tables_column"
      · subst htc; simp [isMetaId_MC]
      · rw [h2o t ht htc]
  have hT : userTable? d T = some tb := by unfold userTable?; simp [hTm, hfT]
  obtain ⟨hs2, hcu2⟩ := spec_record_change hs htu hcu htr0 htid hU hT hP hRp hRp' hI hN
  exact ⟨consistent_of_spec h2mt h2C htu hcu2 hs2, ⟨mt, mc', h2mt, h2C, htu, hcu2⟩⟩

theorem runActs_two {d d' : Doc} {a1 a2 : DocAction} {u : List DocAction}
    (h : runActs d [a1, a2] = .ok (d', u)) :
    ∃ D1 U1 U2, Post d a1 D1 U1 ∧ Post D1 a2 d' U2 := by
  obtain ⟨r1, u1, hr1, hrest, _⟩ := runActs_cons_ok h
  obtain ⟨r2, u2, hr2, hrest2, _⟩ := runActs_cons_ok hrest
  simp only [runActs, Except.ok.injEq, Prod.mk.injEq] at hrest2
  obtain ⟨rfl, _⟩ := hrest2
  exact ⟨r1.doc, r1.undo, r2.undo, post_of_ok hr1, post_of_ok hr2⟩

end Grist.Doc
