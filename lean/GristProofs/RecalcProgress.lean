/-
Recalc: progress (C18 T2) — while cells are dirty, some `eval` or `circ` event is enabled.
-/
import GristProofs.RecalcBase
namespace Grist.Recalc

/-- pigeonhole for sequences: `n+1` values below `n` contain a repetition -/
theorem pigeonhole : ∀ (n : Nat) (f : Nat → Nat), (∀ i, i ≤ n → f i < n) →
    ∃ i j, i < j ∧ j ≤ n ∧ f i = f j := by
  intro n
  induction n with
  | zero => intro f h; exact absurd (h 0 (Nat.le_refl _)) (Nat.not_lt_zero _)
  | succ n ih =>
    intro f h
    by_cases hex : ∃ i, i ≤ n ∧ f i = f (n + 1)
    · obtain ⟨i, hi, he⟩ := hex
      exact ⟨i, n + 1, by omega, Nat.le_refl _, he⟩
    · have hne : ∀ i, i ≤ n → f i ≠ f (n + 1) := fun i hi he => hex ⟨i, hi, he⟩
      let g : Nat → Nat := fun i => if f i > f (n + 1) then f i - 1 else f i
      have hg : ∀ i, i ≤ n → g i < n := by
        intro i hi
        have h1 := h i (by omega)
        have h2 := hne i hi
        have h3 := h (n + 1) (Nat.le_refl _)
        show (if f i > f (n + 1) then f i - 1 else f i) < n
        split <;> omega
      obtain ⟨i, j, hij, hj, he⟩ := ih g hg
      refine ⟨i, j, hij, by omega, ?_⟩
      have h2 := hne i (by omega)
      have h3 := hne j hj
      have he' : (if f i > f (n + 1) then f i - 1 else f i) =
          (if f j > f (n + 1) then f j - 1 else f j) := he
      split at he' <;> split at he' <;> omega

/-- follow the OrderError once (stay put if there is none) -/
def hop (p : Prog) (st : State) (c : Nat) : Nat := (blocker p st c).getD c

def hopN (p : Prog) (st : State) : Nat → Nat → Nat
  | 0, c => c
  | k + 1, c => hopN p st k (hop p st c)

theorem hopN_add (p : Prog) (st : State) : ∀ (i k c : Nat),
    hopN p st (i + k) c = hopN p st k (hopN p st i c) := by
  intro i
  induction i with
  | zero => intro k c; simp [hopN]
  | succ i ih =>
    intro k c
    rw [show i + 1 + k = (i + k) + 1 by omega]
    simp only [hopN]
    exact ih k _

theorem blockCycle_of_hopN {p : Prog} {st : State} {c : Nat}
    (H1 : ∀ x ∈ st.dirty, ∃ d, blocker p st x = some d)
    (H2 : ∀ x ∈ st.dirty, p.formula x = true) :
    ∀ (k fuel cur : Nat), cur ∈ st.dirty → 1 ≤ k → k ≤ fuel → hopN p st k cur = c →
      blockCycle p st c fuel cur = true := by
  intro k
  induction k with
  | zero => intro fuel cur _ h; omega
  | succ k ih =>
    intro fuel cur hcur _ hk he
    obtain ⟨fuel, rfl⟩ : ∃ f, fuel = f + 1 := ⟨fuel - 1, by omega⟩
    obtain ⟨d, hd⟩ := H1 cur hcur
    have hd' := (blocker_eq_some hd).2
    have hhop : hop p st cur = d := by simp [hop, hd]
    simp only [hopN, hhop] at he
    simp only [blockCycle, hd, Bool.or_eq_true, beq_iff_eq, Bool.and_eq_true]
    by_cases hk0 : k = 0
    · subst hk0; simp only [hopN] at he; exact .inl he
    · exact .inr ⟨H2 d hd', ih fuel d hd' (by omega) (by omega) he⟩

/-- (T2) progress: with dirty cells left, an `eval` or a `circ` event is enabled -/
theorem progress_exists {p : Prog} {n : Nat} {st : State} (hw : WFState p n st)
    (hne : st.dirty ≠ []) :
    ∃ c, (step p n st (.eval c)).isSome = true ∨ (step p n st (.circ c)).isSome = true := by
  by_cases hev : ∃ c ∈ st.dirty, blocker p st c = none
  · obtain ⟨c, hc, hb⟩ := hev
    obtain ⟨hf, hlt⟩ := hw.dirty_formula c hc
    exact ⟨c, .inl (by rw [step_eval_iff.mpr ⟨⟨hlt, hf, hc, hb⟩, rfl⟩]; rfl)⟩
  · have H1 : ∀ x ∈ st.dirty, ∃ d, blocker p st x = some d := by
      intro x hx
      cases hb : blocker p st x with
      | none => exact absurd ⟨x, hx, hb⟩ hev
      | some d => exact ⟨d, rfl⟩
    have H2 : ∀ x ∈ st.dirty, p.formula x = true := fun x hx => (hw.dirty_formula x hx).1
    obtain ⟨c0, hc0⟩ := List.exists_mem_of_ne_nil _ hne
    have hall : ∀ k, hopN p st k c0 ∈ st.dirty := by
      intro k
      induction k with
      | zero => exact hc0
      | succ k ih =>
        rw [hopN_add p st k 1 c0]
        simp only [hopN]
        obtain ⟨d, hd⟩ := H1 _ ih
        have : hop p st (hopN p st k c0) = d := by simp [hop, hd]
        rw [this]; exact (blocker_eq_some hd).2
    obtain ⟨i, j, hij, hj, he⟩ := pigeonhole n (fun k => hopN p st k c0)
      (fun k _ => (hw.dirty_formula _ (hall k)).2)
    have hc := hall i
    have hcyc : hopN p st (j - i) (hopN p st i c0) = hopN p st i c0 := by
      rw [← hopN_add, show i + (j - i) = j by omega]; exact he.symm
    have hb := blockCycle_of_hopN H1 H2 (j - i) n _ hc (by omega) (by omega) hcyc
    obtain ⟨hf, hlt⟩ := hw.dirty_formula _ hc
    exact ⟨_, .inr (by rw [step_circ_iff.mpr ⟨⟨hlt, hf, hc, hb⟩, rfl⟩]; rfl)⟩

end Grist.Recalc
