/-
C30: the calc flush (`flushAll` = `ActionSummary.convert_deltas_to_actions`) does not depend on the
insertion order of the dicts of the action summary (the association lists of the model).
-/
import GristModel.Engine
namespace Grist.Doc

/-! ### sorting a permutation -/

theorem sorted_perm_eq {α : Type} {le : α → α → Prop}
    (anti : ∀ a b, le a b → le b a → a = b) :
    ∀ {l1 l2 : List α}, l1.Pairwise le → l2.Pairwise le → l1.Perm l2 → l1 = l2 := by
  intro l1
  induction l1 with
  | nil => intro l2 _ _ h; exact h.nil_eq
  | cons a t1 ih =>
    intro l2 h1 h2 hp
    cases l2 with
    | nil => exact absurd hp.symm.nil_eq (by simp)
    | cons b t2 =>
      have hab : a = b := by
        have ha : a ∈ b :: t2 := hp.subset (by simp)
        have hb : b ∈ a :: t1 := hp.symm.subset (by simp)
        rcases List.mem_cons.mp ha with h | h
        · exact h
        · rcases List.mem_cons.mp hb with h' | h'
          · exact h'.symm
          · exact anti a b ((List.pairwise_cons.mp h1).1 b h') ((List.pairwise_cons.mp h2).1 a h)
      subst hab
      rw [ih (List.pairwise_cons.mp h1).2 (List.pairwise_cons.mp h2).2 hp.cons_inv]

theorem mergeSort_string_perm {l1 l2 : List String} (h : l1.Perm l2) :
    l1.mergeSort (· ≤ ·) = l2.mergeSort (· ≤ ·) := by
  have tr : ∀ a b c : String, decide (a ≤ b) = true → decide (b ≤ c) = true →
      decide (a ≤ c) = true := by
    intro a b c h1 h2; simp only [decide_eq_true_eq] at *; exact String.le_trans h1 h2
  have tot : ∀ a b : String, (decide (a ≤ b) || decide (b ≤ a)) = true := by
    intro a b; simp only [Bool.or_eq_true, decide_eq_true_eq]; exact String.le_total a b
  refine sorted_perm_eq (le := fun a b : String => decide (a ≤ b) = true) ?_
    (List.pairwise_mergeSort tr tot l1) (List.pairwise_mergeSort tr tot l2)
    ((List.mergeSort_perm l1 _).trans (h.trans (List.mergeSort_perm l2 _).symm))
  intro a b h1 h2; simp only [decide_eq_true_eq] at *; exact String.le_antisymm h1 h2

theorem mergeSort_nat_perm {l1 l2 : List Nat} (h : l1.Perm l2) :
    l1.mergeSort (· ≤ ·) = l2.mergeSort (· ≤ ·) := by
  have tr : ∀ a b c : Nat, decide (a ≤ b) = true → decide (b ≤ c) = true →
      decide (a ≤ c) = true := by
    intro a b c h1 h2; simp only [decide_eq_true_eq] at *; omega
  have tot : ∀ a b : Nat, (decide (a ≤ b) || decide (b ≤ a)) = true := by
    intro a b; simp only [Bool.or_eq_true, decide_eq_true_eq]; omega
  refine sorted_perm_eq (le := fun a b : Nat => decide (a ≤ b) = true) ?_
    (List.pairwise_mergeSort tr tot l1) (List.pairwise_mergeSort tr tot l2)
    ((List.mergeSort_perm l1 _).trans (h.trans (List.mergeSort_perm l2 _).symm))
  intro a b h1 h2; simp only [decide_eq_true_eq] at *; omega

/-! ### lookups in permuted association lists -/

theorem lookup_perm {α β : Type} [DecidableEq α] {a b : List (α × β)} (h : a.Perm b)
    (hn : (a.map (·.1)).Nodup) (k : α) : a.lookup k = b.lookup k := by
  induction h with
  | nil => rfl
  | cons x _ ih =>
    obtain ⟨x1, x2⟩ := x
    simp only [List.map_cons, List.nodup_cons] at hn
    simp only [List.lookup_cons, ih hn.2]
  | swap x y l =>
    obtain ⟨x1, x2⟩ := x
    obtain ⟨y1, y2⟩ := y
    simp only [List.map_cons, List.nodup_cons, List.mem_cons, not_or] at hn
    have hne : y1 ≠ x1 := hn.1.1
    simp only [List.lookup_cons]
    by_cases h1 : k = x1
    · subst h1
      have : (k == y1) = false := by simpa using fun e => hne e.symm
      simp [this]
    · have : (k == x1) = false := by simpa using h1
      simp [this]
  | trans h1 _ ih1 ih2 =>
    rw [ih1 hn, ih2 ((h1.map _).nodup_iff.mp hn)]

/-- pointwise relation of two lists -/
inductive Rel2 {α : Type} (R : α → α → Prop) : List α → List α → Prop
  | nil : Rel2 R [] []
  | cons {a b : α} {l m : List α} : R a b → Rel2 R l m → Rel2 R (a :: l) (b :: m)

/-- `b` is a permutation of `a` up to `R` on the entries -/
def PermUpTo {α : Type} (R : α → α → Prop) (a b : List α) : Prop :=
  ∃ m, a.Perm m ∧ Rel2 R m b

/-- entries with the same key and `R`-related values -/
def KeyRel {κ β : Type} (R : β → β → Prop) (x y : κ × β) : Prop := x.1 = y.1 ∧ R x.2 y.2

inductive OptRel {β : Type} (R : β → β → Prop) : Option β → Option β → Prop
  | none : OptRel R none none
  | some {x y : β} : R x y → OptRel R (some x) (some y)

theorem OptRel.none_left {β : Type} {R : β → β → Prop} {y : Option β}
    (h : OptRel R Option.none y) : y = Option.none := by cases h; rfl

theorem OptRel.some_left {β : Type} {R : β → β → Prop} {x : β} {y : Option β}
    (h : OptRel R (Option.some x) y) : ∃ y', y = Option.some y' ∧ R x y' := by
  cases h with
  | some hr => exact ⟨_, rfl, hr⟩

theorem Rel2.keys {κ β : Type} {R : β → β → Prop} {m b : List (κ × β)}
    (h : Rel2 (KeyRel R) m b) : m.map (·.1) = b.map (·.1) := by
  induction h with
  | nil => rfl
  | cons hr _ ih => simp [hr.1, ih]

theorem Rel2.lookup {κ β : Type} [DecidableEq κ] {R : β → β → Prop} {m b : List (κ × β)}
    (h : Rel2 (KeyRel R) m b) (k : κ) : OptRel R (m.lookup k) (b.lookup k) := by
  induction h with
  | nil => exact .none
  | @cons x y l m' hr _ ih =>
    obtain ⟨x1, x2⟩ := x
    obtain ⟨y1, y2⟩ := y
    obtain ⟨h1, h2⟩ := hr
    simp only at h1 h2
    subst h1
    simp only [List.lookup_cons]
    by_cases hk : k = x1
    · subst hk; simpa using .some h2
    · have : (k == x1) = false := by simpa using hk
      simpa [this] using ih

theorem PermUpTo.keys_perm {κ β : Type} {R : β → β → Prop} {a b : List (κ × β)}
    (h : PermUpTo (KeyRel R) a b) : (a.map (·.1)).Perm (b.map (·.1)) := by
  obtain ⟨m, h1, h2⟩ := h
  rw [← h2.keys]; exact h1.map _

theorem PermUpTo.lookup {κ β : Type} [DecidableEq κ] {R : β → β → Prop} {a b : List (κ × β)}
    (h : PermUpTo (KeyRel R) a b) (hn : (a.map (·.1)).Nodup) (k : κ) :
    OptRel R (a.lookup k) (b.lookup k) := by
  obtain ⟨m, h1, h2⟩ := h
  rw [lookup_perm h1 hn k]; exact h2.lookup k

/-! ### order-insensitive equivalence of action summaries -/

/-- the dict-like association lists of a summary have distinct keys -/
structure TableDelta.KeysNodup (td : TableDelta) : Prop where
  before : (td.presentBefore.map (·.1)).Nodup
  after : (td.presentAfter.map (·.1)).Nodup
  renames : (td.colRenames.map (·.1)).Nodup
  cols : (td.colDeltas.map (·.1)).Nodup
  rows : ∀ cd ∈ td.colDeltas, (cd.2.map (·.1)).Nodup

structure Summary.KeysNodup (s : Summary) : Prop where
  tables : (s.tables.map (·.1)).Nodup
  renames : (s.tableRenames.map (·.1)).Nodup
  each : ∀ t ∈ s.tables, t.2.KeysNodup

/-- same table delta up to the order of its dicts (and of every column's row dict) -/
structure TableDelta.Equiv (a b : TableDelta) : Prop where
  before : a.presentBefore.Perm b.presentBefore
  after : a.presentAfter.Perm b.presentAfter
  renames : a.colRenames.Perm b.colRenames
  cols : PermUpTo (KeyRel List.Perm) a.colDeltas b.colDeltas

/-- same summary up to the order of all its dicts -/
structure Summary.Equiv (s s' : Summary) : Prop where
  renames : s.tableRenames.Perm s'.tableRenames
  tables : PermUpTo (KeyRel TableDelta.Equiv) s.tables s'.tables

/-! ### what the flush observes of a summary -/

theorem mem_of_lookup_some {κ β : Type} [DecidableEq κ] {m : List (κ × β)} {k : κ} {v : β}
    (h : m.lookup k = some v) : (k, v) ∈ m := by
  induction m with
  | nil => simp at h
  | cons p m ih =>
    obtain ⟨a, b⟩ := p
    rw [List.lookup_cons] at h
    by_cases hk : k = a
    · subst hk; simp at h; simp [h]
    · have : (k == a) = false := by simpa using hk
      rw [this] at h; exact List.mem_cons_of_mem _ (ih h)

/-- the related entries of table `t` in two equivalent summaries -/
theorem Summary.Equiv.table {s s' : Summary} (h : s.Equiv s') (hn : s.KeysNodup) (t : String) :
    (s.tables.lookup t = none ∧ s'.tables.lookup t = none) ∨
    ∃ td td', s.tables.lookup t = some td ∧ s'.tables.lookup t = some td' ∧
      td.Equiv td' ∧ td.KeysNodup := by
  have := h.tables.lookup hn.tables t
  cases h1 : s.tables.lookup t with
  | none => rw [h1] at this; exact .inl ⟨rfl, this.none_left⟩
  | some td =>
    rw [h1] at this
    obtain ⟨td', h2, hr⟩ := this.some_left
    exact .inr ⟨td, td', rfl, h2, hr, hn.each _ (mem_of_lookup_some h1)⟩

theorem Summary.Equiv.filterOutGoneRows {s s' : Summary} (h : s.Equiv s') (hn : s.KeysNodup)
    (t : String) (rows : List Nat) : s.filterOutGoneRows t rows = s'.filterOutGoneRows t rows := by
  unfold Summary.filterOutGoneRows
  rcases h.table hn t with ⟨h1, h2⟩ | ⟨td, td', h1, h2, he, hk⟩
  · rw [h1, h2]
  · rw [h1, h2]
    simp only [lookup_perm he.after hk.after]

theorem Summary.Equiv.filterOutNewRows {s s' : Summary} (h : s.Equiv s') (hn : s.KeysNodup)
    (t : String) (rows : List Nat) : s.filterOutNewRows t rows = s'.filterOutNewRows t rows := by
  unfold Summary.filterOutNewRows
  rcases h.table hn t with ⟨h1, h2⟩ | ⟨td, td', h1, h2, he, hk⟩
  · rw [h1, h2]
  · rw [h1, h2]
    simp only [lookup_perm he.before hk.before]

theorem Summary.Equiv.isCreated {s s' : Summary} (h : s.Equiv s') (hn : s.KeysNodup)
    (t c : String) : s.isCreated t c = s'.isCreated t c := by
  unfold Summary.isCreated Renames.isCreated Renames.get?
  rw [lookup_perm h.renames hn.renames]
  rcases h.table hn t with ⟨h1, h2⟩ | ⟨td, td', h1, h2, he, hk⟩
  · rw [h1, h2]
  · rw [h1, h2]
    simp only [lookup_perm he.renames hk.renames]

theorem Summary.Equiv.originalTable {s s' : Summary} (h : s.Equiv s') (hn : s.KeysNodup)
    (t : String) : s.tableRenames.originalName t = s'.tableRenames.originalName t := by
  unfold Renames.originalName Renames.get?
  rw [lookup_perm h.renames hn.renames]

theorem Summary.Equiv.originalCol {s s' : Summary} (h : s.Equiv s') (hn : s.KeysNodup)
    (t c : String) :
    (s.get t).colRenames.originalName c = (s'.get t).colRenames.originalName c := by
  unfold Summary.get Renames.originalName Renames.get?
  rcases h.table hn t with ⟨h1, h2⟩ | ⟨td, td', h1, h2, he, hk⟩
  · rw [h1, h2]
  · rw [h1, h2]
    simp only [Option.getD_some, lookup_perm he.renames hk.renames]

/-- `_changes_to_actions` sees the summary and the row dict only through lookups and sorted keys -/
theorem changesToActions_perm_invariant {s s' : Summary} (h : s.Equiv s') (hn : s.KeysNodup)
    (tk ck : String) {delta delta' : List (Nat × Val × Val)} (hd : delta.Perm delta')
    (hdn : (delta.map (·.1)).Nodup) :
    s.changesToActions tk ck delta = s'.changesToActions tk ck delta' := by
  have e1 : delta.isEmpty = delta'.isEmpty := hd.isEmpty_eq
  have e2 : ((delta.filter (fun e => !equalEncoding e.2.1 e.2.2)).map (·.1)).mergeSort (· ≤ ·) =
      ((delta'.filter (fun e => !equalEncoding e.2.1 e.2.2)).map (·.1)).mergeSort (· ≤ ·) :=
    mergeSort_nat_perm ((hd.filter _).map _)
  have e3 : ∀ r, delta.lookup r = delta'.lookup r := lookup_perm hd hdn
  have e4 := h.filterOutGoneRows hn
  have e5 := h.filterOutNewRows hn
  have e6 := h.isCreated hn
  have e7 := h.originalTable hn tk
  have e8 := h.originalCol hn tk ck
  unfold Summary.changesToActions
  simp only [e1, e2, e3, e4, e5, e6, e7, e8]

/-! ### the flush -/

theorem flushAll_perm_invariant {s s' : Summary} (hn : s.KeysNodup) (h : s.Equiv s')
    (stored undo : List DocAction) : flushAll s stored undo = flushAll s' stored undo := by
  unfold flushAll
  rw [mergeSort_string_perm h.tables.keys_perm]
  generalize ((s'.tables.map (·.1)).mergeSort (· ≤ ·)) = tkeys
  generalize (stored, undo) = acc
  induction tkeys generalizing acc with
  | nil => rfl
  | cons tk tkeys ih =>
    simp only [List.foldl_cons]
    have hstep : ∀ acc : List DocAction × List DocAction,
        (((s.get tk).colDeltas.map (·.1)).mergeSort (· ≤ ·)).foldl (fun acc ck =>
          let delta := ((s.get tk).colDeltas.lookup ck).getD []
          let (sto, ua, uf) := s.changesToActions tk ck delta
          (acc.1 ++ sto, insertFront acc.2 uf ++ ua)) acc =
        (((s'.get tk).colDeltas.map (·.1)).mergeSort (· ≤ ·)).foldl (fun acc ck =>
          let delta := ((s'.get tk).colDeltas.lookup ck).getD []
          let (sto, ua, uf) := s'.changesToActions tk ck delta
          (acc.1 ++ sto, insertFront acc.2 uf ++ ua)) acc := by
      intro acc
      unfold Summary.get
      rcases h.table hn tk with ⟨h1, h2⟩ | ⟨td, td', h1, h2, he, hk⟩
      · rw [h1, h2]; rfl
      · rw [h1, h2]
        simp only [Option.getD_some]
        rw [mergeSort_string_perm he.cols.keys_perm]
        generalize ((td'.colDeltas.map (·.1)).mergeSort (· ≤ ·)) = ckeys
        induction ckeys generalizing acc with
        | nil => rfl
        | cons ck ckeys ih2 =>
          simp only [List.foldl_cons]
          have hl := he.cols.lookup hk.cols ck
          have hc : s.changesToActions tk ck ((td.colDeltas.lookup ck).getD []) =
              s'.changesToActions tk ck ((td'.colDeltas.lookup ck).getD []) := by
            cases hl1 : td.colDeltas.lookup ck with
            | none =>
              rw [hl1] at hl
              rw [hl.none_left]
              exact changesToActions_perm_invariant h hn tk ck (List.Perm.refl _) (by simp)
            | some δ =>
              rw [hl1] at hl
              obtain ⟨δ', hl2, hp⟩ := hl.some_left
              rw [hl2]
              exact changesToActions_perm_invariant h hn tk ck hp
                (hk.rows _ (mem_of_lookup_some hl1))
          rw [hc]
          exact ih2 _
    rw [hstep]
    exact ih _

end Grist.Doc
