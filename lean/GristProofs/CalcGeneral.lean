/-
Helper lemmas for C02 (B3, general form): bulk record actions on other tables interleaved with
`calc` steps on one column, followed by `finish`.
-/
import GristProofs.CalcFlush
namespace Grist.Doc

/-! ### the summary kept by such a word -/

/-- Summary invariant: no renames; one entry per table; only table `t` has column deltas, namely
    (once a calc step happened, `acc = some chs`) the merged delta of column `c`. -/
structure SumInv (S : Summary) (t c : String) (acc : Option (List (Nat × Val × Val))) : Prop where
  renames : S.tableRenames = []
  nodup : (S.tables.map (·.1)).Nodup
  others : ∀ u td, (u, td) ∈ S.tables → u ≠ t → td.colDeltas = []
  calcT : S.tables.lookup t =
    acc.map (fun chs => ({ colDeltas := [(c, addChangesFold [] chs)] } : TableDelta))

theorem SumInv.empty (t c : String) : SumInv {} t c none :=
  ⟨rfl, by simp, by intro u td h; simp at h, rfl⟩

theorem SumInv.get_other {S : Summary} {t c : String} {acc} (h : SumInv S t c acc) {u : String}
    (hu : u ≠ t) : (S.get u).colDeltas = [] := by
  unfold Summary.get
  cases hl : S.tables.lookup u with
  | none => rfl
  | some td => exact h.others u td (mem_of_lookup_eq_some hl) hu

theorem mem_filter_ne_append {α β : Type} [DecidableEq α] {m : List (α × β)} {k : α} {v : β}
    {p : α × β} (h : p ∈ (m.filter (·.1 != k)) ++ [(k, v)]) : (p ∈ m ∧ p.1 ≠ k) ∨ p = (k, v) := by
  simp only [List.mem_append, List.mem_filter, List.mem_singleton] at h
  rcases h with ⟨h1, h2⟩ | h
  · exact .inl ⟨h1, by simpa using h2⟩
  · exact .inr h

theorem SumInv.calc {S : Summary} {t c : String} {acc} (h : SumInv S t c acc)
    (chs : List (Nat × Val × Val)) :
    SumInv (S.addChanges t c chs) t c (some (acc.getD [] ++ chs)) := by
  refine ⟨h.renames, keys_filter_ne_append_nodup _ _ _ h.nodup, ?_, ?_⟩
  · intro u td hm hu
    rcases mem_filter_ne_append hm with ⟨h1, _⟩ | h1
    · exact h.others u td h1 hu
    · cases h1; exact absurd rfl hu
  · show List.lookup t (S.tables.filter (·.1 != t) ++ [(t, _)]) = _
    rw [lookup_filter_ne_append]
    simp only [↓reduceIte, Option.map_some, Option.some.injEq]
    unfold Summary.get
    rw [h.calcT]
    cases acc with
    | none => simp [addChangesFold]
    | some a =>
      simp [addChangesFold, List.foldl_append]

theorem SumInv.presence {S : Summary} {t c : String} {acc} (h : SumInv S t c acc) {u : String}
    (hu : u ≠ t) (bv av : Bool) (rows : List Nat) :
    SumInv (S.put u (presenceFold bv av (S.get u) rows)) t c acc := by
  refine ⟨h.renames, keys_filter_ne_append_nodup _ _ _ h.nodup, ?_, ?_⟩
  · intro u' td hm hu'
    rcases mem_filter_ne_append hm with ⟨h1, _⟩ | h1
    · exact h.others u' td h1 hu'
    · cases h1
      rw [(presenceFold_colDeltas bv av rows _).1]
      exact h.get_other hu
  · show List.lookup t (S.tables.filter (·.1 != u) ++ [(u, _)]) = _
    rw [lookup_filter_ne_append, if_neg (fun e => hu e.symm)]
    exact h.calcT

/-! ### the flush under the invariant -/

theorem foldl_skip {α β : Type} (f : α → β → α) (l : List β) (a : α)
    (h : ∀ acc x, x ∈ l → f acc x = acc) : l.foldl f a = a := by
  induction l generalizing a with
  | nil => rfl
  | cons x xs ih =>
    rw [List.foldl_cons, h a x (by simp)]
    exact ih a (fun acc y hy => h acc y (List.mem_cons_of_mem _ hy))

def flushOfAcc (t c : String) : Option (List (Nat × Val × Val)) → List DocAction
  | none => []
  | some chs => flushAction t c (addChangesFold [] chs)

theorem flushAll_of_sumInv {S : Summary} {t c : String} {acc} (h : SumInv S t c acc)
    (ht : isDefunct t = false) (hc : isDefunct c = false) (stored undo : List DocAction) :
    (flushAll S stored undo).1 =
      stored ++ flushOfAcc t c acc := by
  unfold flushAll
  -- the step function does nothing at tables other than `t`
  have hskip : ∀ (a : List DocAction × List DocAction) (tk : String), tk ≠ t →
      ((S.get tk).colDeltas.map (·.1)).mergeSort (· ≤ ·) = [] := by
    intro a tk htk; rw [h.get_other htk]; simp
  cases acc with
  | none =>
    -- no entry for `t` at all
    have hnot : t ∉ (S.tables.map (·.1)).mergeSort (· ≤ ·) := by
      rw [List.mem_mergeSort]
      intro hm
      simp only [List.mem_map] at hm
      obtain ⟨p, hp, rfl⟩ := hm
      have := h.calcT
      simp only [Option.map_none, List.lookup_eq_none_iff] at this
      have := this p hp
      simp at this
    rw [foldl_skip]
    · simp [flushOfAcc]
    · intro a tk htk
      have : tk ≠ t := fun e => hnot (e ▸ htk)
      simp only [hskip a tk this, List.foldl_nil]
  | some chs =>
    have hl := h.calcT
    simp only [Option.map_some] at hl
    have hmem : t ∈ (S.tables.map (·.1)).mergeSort (· ≤ ·) := by
      rw [List.mem_mergeSort]
      exact List.mem_map.mpr ⟨_, mem_of_lookup_eq_some hl, rfl⟩
    have hnd : ((S.tables.map (·.1)).mergeSort (· ≤ ·)).Nodup :=
      (List.mergeSort_perm _ _).nodup_iff.mpr h.nodup
    obtain ⟨l1, l2, hsplit⟩ := List.append_of_mem hmem
    rw [hsplit] at hnd ⊢
    have hn1 : t ∉ l1 := by
      intro hm
      rw [List.nodup_append] at hnd
      exact hnd.2.2 t hm t (by simp) rfl
    have hn2 : t ∉ l2 := by
      rw [List.nodup_append, List.nodup_cons] at hnd
      exact hnd.2.1.1
    rw [List.foldl_append, List.foldl_cons, foldl_skip _ l1, foldl_skip _ l2]
    · have hget : S.get t = { colDeltas := [(c, addChangesFold [] chs)] } := by
        simp [Summary.get, hl]
      simp only [hget, List.map_cons, List.map_nil, List.mergeSort_singleton, List.foldl_cons,
        List.foldl_nil, lookup_cons_self', Option.getD_some]
      rw [changesToActions_stored _ _ _ _ ht hc]
      have : ∀ rows, S.filterOutGoneRows t rows = rows := by
        intro rows
        simp [Summary.filterOutGoneRows, hl]
      simp only [this, flushAction, flushOfAcc]
    · intro a tk htk
      have : tk ≠ t := fun e => hn2 (e ▸ htk)
      simp only [hskip a tk this, List.foldl_nil]
    · intro a tk htk
      have : tk ≠ t := fun e => hn1 (e ▸ htk)
      simp only [hskip a tk this, List.foldl_nil]

/-! ### bulk record actions are local to their table -/

/-- the table a bulk record action names (none for the other actions) -/
def bulkTable : DocAction → Option String
  | .bulkAdd u _ _ => some u
  | .bulkRemove u _ => some u
  | .bulkUpdate u _ _ => some u
  | _ => none

/-- what a bulk record action does to its table: error, no change (`none`), or a new table -/
def bulkLocal : DocAction → Table → Except String (Option Table)
  | .bulkAdd _ rows cols, tb =>
    if rows.any (fun r => tb.rows.contains r) then .error "AssertionError" else
    match writeCols { tb with rows := insertRows (rows.filter (· != 0)) tb.rows } rows cols with
    | .error e => .error e
    | .ok tb2 => .ok (some tb2)
  | .bulkRemove _ rows, tb =>
    let rows' := rows.filter (fun r => tb.rows.contains r)
    if rows'.isEmpty then .ok none else
    .ok (some { tb with
      cols := tb.cols.map (fun col =>
        { col with cells := fun r => if rows'.contains r then typeDefault col.info.type else col.cells r }),
      rows := tb.rows.filter (fun r => !rows'.contains r) })
  | .bulkUpdate _ rows cols, tb =>
    if rows.any (fun r => !tb.rows.contains r) then .error "AssertionError" else
    if cols.any (fun cv => !tb.hasCol cv.1) then .error "KeyError" else
    match writeCols tb rows cols with
    | .error e => .error e
    | .ok tb' => .ok (some tb')
  | _, _ => .error "not a bulk action"

def applyLocal (d : Doc) (u : String) : Option Table → Doc
  | none => d
  | some tb' => replaceTable d u tb'

theorem docAction_bulk_doc {a : DocAction} {u : String} (ha : bulkTable a = some u)
    (d : Doc) (s : Summary) :
    (docAction d s a).map (·.doc) =
      match findTable? d u with
      | none => .error "KeyError"
      | some tb => (bulkLocal a tb).map (applyLocal d u) := by
  cases a <;> simp only [bulkTable, Option.some.injEq, reduceCtorEq] at ha <;> subst ha <;>
    simp only [docAction, bulkLocal] <;> cases hf : findTable? d _ <;> simp only [Except.map]
  case bulkAdd.some u rows cols tb =>
    by_cases hc : (rows.any fun r => tb.rows.contains r) = true
    · simp only [hc, ↓reduceIte]
    · simp only [hc, Bool.false_eq_true, ↓reduceIte]
      cases writeCols _ rows cols <;> simp [applyLocal]
  case bulkRemove.some u rows tb =>
    by_cases hc : (rows.filter fun r => tb.rows.contains r).isEmpty = true
    · simp only [hc, ↓reduceIte, applyLocal]
    · simp only [hc, Bool.false_eq_true, ↓reduceIte, applyLocal]
  case bulkUpdate.some u rows cols tb =>
    by_cases hc : (rows.any fun r => !tb.rows.contains r) = true
    · simp only [hc, ↓reduceIte]
    · simp only [hc, Bool.false_eq_true, ↓reduceIte]
      by_cases hc2 : (cols.any fun cv => !tb.hasCol cv.1) = true
      · simp only [hc2, ↓reduceIte]
      · simp only [hc2, Bool.false_eq_true, ↓reduceIte]
        cases writeCols _ rows cols <;> simp [applyLocal]

theorem writeCols_id : ∀ (cols : List (String × List Val)) (tb tb' : Table) (rows : List Nat),
    writeCols tb rows cols = .ok tb' → tb'.id = tb.id := by
  intro cols
  induction cols with
  | nil => intro tb tb' rows h; simp only [writeCols, Except.ok.injEq] at h; rw [h]
  | cons cv cols ih =>
    intro tb tb' rows h
    obtain ⟨c, vals⟩ := cv
    simp only [writeCols] at h
    split at h
    · cases h
    · exact (ih _ _ _ h).trans (replaceCol_id _ _ _)

theorem bulkLocal_id {a : DocAction} {tb tb' : Table} (h : bulkLocal a tb = .ok (some tb')) :
    tb'.id = tb.id := by
  cases a <;> simp only [bulkLocal] at h
  case bulkAdd u rows cols =>
    split at h
    · cases h
    · split at h
      · cases h
      · rename_i tb2 hw
        cases h
        exact writeCols_id _ _ _ _ hw |>.trans rfl
  case bulkRemove u rows =>
    split at h
    · cases h
    · cases h; rfl
  case bulkUpdate u rows cols =>
    split at h
    · cases h
    · split at h
      · cases h
      · split at h
        · cases h
        · rename_i tb2 hw
          cases h
          exact writeCols_id _ _ _ _ hw
  all_goals cases h

theorem docAction_bulk_summary {a : DocAction} {u : String} (ha : bulkTable a = some u)
    {d : Doc} {s : Summary} {r : DAResult} (hr : docAction d s a = .ok r) :
    r.summary = s ∨ ∃ bv av rows, r.summary = s.put u (presenceFold bv av (s.get u) rows) := by
  cases a <;> simp only [bulkTable, Option.some.injEq, reduceCtorEq] at ha <;> subst ha <;>
    simp only [docAction] at hr
  case bulkAdd u rows cols =>
    split at hr
    · cases hr
    · split at hr
      · cases hr
      · split at hr
        · cases hr
        · cases hr; exact .inr ⟨false, true, rows, rfl⟩
  case bulkRemove u rows =>
    split at hr
    · cases hr
    · split at hr
      · cases hr; exact .inl rfl
      · cases hr; exact .inr ⟨true, false, _, rfl⟩
  case bulkUpdate u rows cols =>
    split at hr
    · cases hr
    · split at hr
      · cases hr
      · split at hr
        · cases hr
        · split at hr
          · cases hr
          · cases hr; exact .inl rfl

/-! ### the engine document vs the replayed document along the word -/

theorem ColView.calc {D E : Doc} {t c : String} {tb : Table} {col : Col} {f : Nat → Val}
    (h : ColView D t c tb col E f) (chs : List (Nat × Val × Val)) :
    ColView D t c tb col (writeCalc E t c chs) (writeAfters f chs) := by
  obtain ⟨tbX, hX1, hX2, hX3, colX, hX4, hX5, hX6⟩ := h.tbl
  rw [writeCalc_eq hX1 hX4, hX6]
  have hid : (tbX.replaceCol c { colX with cells := writeAfters f chs }).id = t := by
    rw [replaceCol_id]; exact findTable?_id hX1
  have hcid : ({ colX with cells := writeAfters f chs } : Col).id = c := (findCol?_id hX4 : colX.id = c)
  refine ⟨fun t' ht' => (findTable?_replaceTable_ne E _ hid ht').trans (h.other t' ht'), _,
    findTable?_replaceTable _ hX1 hid, hX2,
    fun c' hc' => (findCol?_replaceCol_ne tbX _ hcid hc').trans (hX3 c' hc'),
    _, findCol?_replaceCol _ hX4 hcid, hX5, rfl⟩

theorem ColView.replaceOther {D E : Doc} {t c : String} {tb : Table} {col : Col} {f : Nat → Val}
    (h : ColView D t c tb col E f) {u : String} (hu : u ≠ t) {tbu tb' : Table}
    (hDu : findTable? D u = some tbu) (hid : tb'.id = u) :
    ColView (replaceTable D u tb') t c tb col (replaceTable E u tb') f := by
  have hEu : findTable? E u = some tbu := (h.other u hu).trans hDu
  obtain ⟨tbX, hX1, hX⟩ := h.tbl
  refine ⟨fun t' ht' => ?_, tbX, ?_, hX⟩
  · by_cases htu : t' = u
    · subst htu
      rw [findTable?_replaceTable _ hEu hid, findTable?_replaceTable _ hDu hid]
    · rw [findTable?_replaceTable_ne E _ hid htu, findTable?_replaceTable_ne D _ hid htu]
      exact h.other t' ht'
  · rw [findTable?_replaceTable_ne E _ hid (fun e => hu e.symm)]; exact hX1

theorem ColView.bulk {D E : Doc} {t c : String} {tb : Table} {col : Col} {f : Nat → Val}
    (h : ColView D t c tb col E f) (hT : findTable? D t = some tb) {a : DocAction} {u : String}
    (ha : bulkTable a = some u) (hu : u ≠ t) {s : Summary} {r : DAResult}
    (hr : docAction E s a = .ok r) :
    ∃ r0, docAction D {} a = .ok r0 ∧ ColView r0.doc t c tb col r.doc f ∧
      findTable? r0.doc t = some tb := by
  have e1 := docAction_bulk_doc ha E s
  have e2 := docAction_bulk_doc ha D {}
  rw [h.other u hu] at e1
  rw [hr] at e1
  cases hf : findTable? D u with
  | none => rw [hf] at e1; simp [Except.map] at e1
  | some tbu =>
    rw [hf] at e1 e2
    simp only at e1 e2
    cases hl : bulkLocal a tbu with
    | error e => rw [hl] at e1; simp [Except.map] at e1
    | ok o =>
      rw [hl] at e1 e2
      cases h0 : docAction D {} a with
      | error e => rw [h0] at e2; simp [Except.map] at e2
      | ok r0 =>
        rw [h0] at e2
        simp only [Except.map, Except.ok.injEq] at e1 e2
        refine ⟨r0, rfl, ?_⟩
        rw [e1, e2]
        cases o with
        | none => exact ⟨h, hT⟩
        | some tb' =>
          have hid : tb'.id = u := (bulkLocal_id hl).trans (findTable?_id hf)
          exact ⟨h.replaceOther hu hf hid,
            (findTable?_replaceTable_ne D _ hid (fun e => hu e.symm)).trans hT⟩

/-- the steps allowed in the word: bulk record actions on tables other than `t`, and calc steps on
    column `(t, c)` -/
def StepOK (t c : String) : Step → Prop
  | .doc a _ => ∃ u, bulkTable a = some u ∧ u ≠ t
  | .calc t' c' _ => t' = t ∧ c' = c
  | _ => False

/-- the doc actions of the `doc` steps of a word, in order -/
def docActs (w : List Step) : List DocAction :=
  w.filterMap (fun s => match s with | .doc a _ => some a | _ => none)

/-- the changes of the `calc` steps of a word, concatenated -/
def calcChs (w : List Step) : List (Nat × Val × Val) :=
  w.flatMap (fun s => match s with | .calc _ _ chs => chs | _ => [])

theorem run_bulk_calc {t c : String} {tb : Table} {col : Col} : ∀ (w : List Step)
    {st st1 : EState} {D : Doc} {f : Nat → Val} {acc : Option (List (Nat × Val × Val))},
    (∀ s ∈ w, StepOK t c s) → ColView D t c tb col st.doc f → findTable? D t = some tb →
    SumInv st.summary t c acc → run st w = .ok st1 →
    ∃ D1, applyAll D (docActs w) = .ok D1 ∧
      ColView D1 t c tb col st1.doc (writeAfters f (calcChs w)) ∧ findTable? D1 t = some tb ∧
      st1.stored = st.stored ++ docActs w ∧
      ∃ acc', SumInv st1.summary t c acc' ∧ acc'.getD [] = acc.getD [] ++ calcChs w := by
  intro w
  induction w with
  | nil =>
    intro st st1 D f acc _ hv hT hS h
    simp only [run, Except.ok.injEq] at h; subst h
    exact ⟨D, rfl, hv, hT, by simp [docActs], acc, hS, by simp [calcChs]⟩
  | cons s w ih =>
    intro st st1 D f acc hw hv hT hS h
    obtain ⟨st2, h1, h2⟩ := run_cons_ok h
    have hw' : ∀ s ∈ w, StepOK t c s := fun s hs => hw s (List.mem_cons_of_mem _ hs)
    have hs := hw s (by simp)
    cases s with
    | doc a b =>
      obtain ⟨u, ha, hu⟩ := hs
      obtain ⟨r, hr, rfl⟩ := stepDoc_ok_iff.mp (show stepDoc st a b = .ok st2 from h1)
      obtain ⟨r0, hr0, hv2, hT2⟩ := hv.bulk hT ha hu hr
      have hS2 : SumInv r.summary t c acc := by
        rcases docAction_bulk_summary ha hr with e | ⟨bv, av, rows, e⟩
        · rw [e]; exact hS
        · rw [e]; exact hS.presence hu bv av rows
      obtain ⟨D1, g1, g2, g3, g4, acc', g6, g7⟩ := ih hw' hv2 hT2 hS2 h2
      refine ⟨D1, ?_, ?_, g3, ?_, acc', g6, ?_⟩
      · show applyAll D (a :: docActs w) = _
        rw [applyAll_cons_ok hr0]; exact g1
      · simpa [calcChs] using g2
      · rw [g4]; simp [docActs]
      · rw [g7]; simp [calcChs]
    | «calc» t' c' chs =>
      obtain ⟨rfl, rfl⟩ := hs
      simp only [step, Except.ok.injEq] at h1; subst h1
      obtain ⟨D1, g1, g2, g3, g4, acc', g6, g7⟩ :=
        ih (st := stepCalc st t' c' chs) hw' (hv.calc chs) hT (hS.calc chs) h2
      refine ⟨D1, ?_, ?_, g3, ?_, acc', g6, ?_⟩
      · simpa [docActs] using g1
      · rw [writeAfters_append] at g2; simpa [calcChs] using g2
      · rw [g4]; simp [docActs, stepCalc]
      · rw [g7]; simp [calcChs]
    | flushcol t' c' => exact hs.elim
    | finish => exact hs.elim

theorem run_append_word : ∀ (w v : List Step) {st st' : EState}, run st (w ++ v) = .ok st' →
    ∃ st1, run st w = .ok st1 ∧ run st1 v = .ok st' := by
  intro w
  induction w with
  | nil => intro v st st' h; exact ⟨st, rfl, h⟩
  | cons s w ih =>
    intro v st st' h
    obtain ⟨st2, h1, h2⟩ := run_cons_ok (show run st (s :: (w ++ v)) = .ok st' from h)
    obtain ⟨st1, g1, g2⟩ := ih v h2
    exact ⟨st1, by simp only [run, h1, g1], g2⟩

theorem applyAll_append : ∀ (l1 l2 : List DocAction) {d d1 : Doc}, applyAll d l1 = .ok d1 →
    applyAll d (l1 ++ l2) = applyAll d1 l2 := by
  intro l1
  induction l1 with
  | nil => intro l2 d d1 h; simp only [applyAll, Except.ok.injEq] at h; subst h; rfl
  | cons a l1 ih =>
    intro l2 d d1 h
    simp only [applyAll, List.cons_append] at h ⊢
    split at h
    · cases h
    · exact ih l2 h

theorem applyAll_flushAction {d : Doc} {t c : String} {tb : Table} {col : Col}
    (hT : findTable? d t = some tb) (hC : tb.findCol? c = some col)
    (chs : List (Nat × Val × Val)) (hrows : ∀ ch ∈ chs, ch.1 ∈ tb.rows) :
    ∃ d', applyAll d (flushAction t c (addChangesFold [] chs)) = .ok d' ∧
      ColView d t c tb col d' (replayCells col chs) := by
  unfold flushAction
  by_cases he : (changedRows (addChangesFold [] chs)).isEmpty = true
  · rw [if_pos he]
    refine ⟨d, rfl, ?_⟩
    rw [replayCells_of_no_change col chs (by simpa using he)]
    exact ColView.self hT hC
  · rw [if_neg he]
    refine ⟨replaceTable d t (tb.replaceCol c { col with cells := replayCells col chs }),
      ?_, ColView.replace hT hC _⟩
    rw [applyAll_updateAction hT hC]
    · congr 4
      funext k
      simp only [setCells_map, replayCells]
    · intro r hr
      rw [mem_changedRows_merged] at hr
      obtain ⟨b, a, hl, _⟩ := hr
      obtain ⟨_, l, hl1, hl2, _⟩ := mergedChange_mem hl
      exact hl2 ▸ hrows l hl1

/-- main lemma (general form): stored actions and the two documents after `w ++ [finish]` -/
theorem bulk_calc_finish_views {st st' : EState} {t c : String} {tb : Table} {col : Col}
    (hs : st.summary = {}) (hsto : st.stored = [])
    (ht : isDefunct t = false) (hc : isDefunct c = false)
    (hT : findTable? st.doc t = some tb) (hC : tb.findCol? c = some col)
    (w : List Step) (hw : ∀ s ∈ w, StepOK t c s)
    (hrows : ∀ ch ∈ calcChs w, ch.1 ∈ tb.rows)
    (h : run st (w ++ [.finish]) = .ok st') :
    st'.stored = docActs w ++ flushAction t c (addChangesFold [] (calcChs w)) ∧
    ∃ D1 d', applyAll st.doc (docActs w) = .ok D1 ∧ applyAll st.doc st'.stored = .ok d' ∧
      ColView D1 t c tb col d' (replayCells col (calcChs w)) ∧
      ColView D1 t c tb col st'.doc (writeAfters col.cells (calcChs w)) := by
  obtain ⟨st1, h1, h2⟩ := run_append_word w [.finish] h
  simp only [run, step, Except.ok.injEq] at h2; subst h2
  obtain ⟨D1, g1, g2, g3, g4, acc', g6, g7⟩ :=
    run_bulk_calc w hw (ColView.self hT hC) hT (hs ▸ SumInv.empty t c) h1
  have hstored : (stepFinish st1).stored =
      docActs w ++ flushAction t c (addChangesFold [] (calcChs w)) := by
    rw [stepFinish_stored, flushAll_of_sumInv g6 ht hc, g4, hsto, List.nil_append]
    congr 1
    simp only [Option.getD_none, List.nil_append] at g7
    cases acc' with
    | none =>
      simp only [Option.getD_none] at g7
      rw [← g7]; simp [flushOfAcc, flushAction, addChangesFold, changedRows]
    | some chs => simp only [Option.getD_some] at g7; rw [g7]; rfl
  refine ⟨hstored, D1, ?_⟩
  obtain ⟨d', k1, k2⟩ := applyAll_flushAction g3 hC (calcChs w) hrows
  refine ⟨d', g1, ?_, k2, ?_⟩
  · rw [hstored, applyAll_append _ _ g1]; exact k1
  · rw [stepFinish_doc]; exact g2

end Grist.Doc
