/-
Recalc: `closure` is closed under readers; the invariant `Inv` and `WFState` are preserved by
every transition (C05 U1, U2; C18 T4).
-/
import GristProofs.RecalcBase
namespace Grist.Recalc

/-! ### `closure` -/

def iterN {α : Type} (g : α → α) : Nat → α → α
  | 0, a => a
  | k + 1, a => g (iterN g k a)

theorem iterN_comm {α : Type} (g : α → α) : ∀ (k : Nat) (a : α), iterN g k (g a) = g (iterN g k a) := by
  intro k
  induction k with
  | zero => intro a; rfl
  | succ k ih => intro a; simp only [iterN, ih]

theorem foldl_const_eq_iterN {α β : Type} (g : α → α) : ∀ (l : List β) (a : α),
    l.foldl (fun acc _ => g acc) a = iterN g l.length a := by
  intro l
  induction l with
  | nil => intro a; rfl
  | cons x xs ih =>
    intro a
    rw [List.foldl_cons, ih, List.length_cons]
    simp only [iterN, iterN_comm]

theorem closure_eq_iterN (p : Prog) (n : Nat) (s : List Nat) :
    closure p n s = iterN (readersStep p n) n (s.filter (· < n)) := by
  unfold closure
  rw [foldl_const_eq_iterN, List.length_range]

theorem mem_readersStep {p : Prog} {n : Nat} {s : List Nat} {c : Nat} :
    c ∈ readersStep p n s ↔
      c < n ∧ (c ∈ s ∨ (p.formula c = true ∧ ∃ d ∈ p.deps c, d ∈ s)) := by
  simp [readersStep, List.mem_filter]

/-- a set is closed under readers (among the cells `< n`) -/
def RClosed (p : Prog) (n : Nat) (s : List Nat) : Prop := ∀ x ∈ readersStep p n s, x ∈ s

theorem RClosed.step {p : Prog} {n : Nat} {s : List Nat} (h : RClosed p n s) :
    RClosed p n (readersStep p n s) := by
  intro x hx
  rw [mem_readersStep] at hx ⊢
  obtain ⟨hlt, hx⟩ := hx
  refine ⟨hlt, ?_⟩
  rcases hx with hx | ⟨hf, d, hd, hds⟩
  · rw [mem_readersStep] at hx; exact hx.2
  · exact .inr ⟨hf, d, hd, h d hds⟩

/-- number of cells `< n` in `s` -/
def cnt (n : Nat) (s : List Nat) : Nat := ((List.range n).filter (fun c => s.contains c)).length

theorem filter_length_lt {l : List Nat} {P Q : Nat → Bool} (hPQ : ∀ x ∈ l, P x = true → Q x = true)
    (hx : ∃ x ∈ l, Q x = true ∧ P x = false) : (l.filter P).length < (l.filter Q).length := by
  induction l with
  | nil => obtain ⟨x, hx, _⟩ := hx; cases hx
  | cons a l ih =>
    have hle : (l.filter P).length ≤ (l.filter Q).length := by
      clear ih hx
      induction l with
      | nil => simp
      | cons b l ih2 =>
        have := ih2 (fun x hx => hPQ x (by
          rcases List.mem_cons.mp hx with h | h
          · simp [h]
          · simp [h]))
        have hb := hPQ b (by simp)
        simp only [List.filter_cons]
        cases hP : P b <;> cases hQ : Q b <;> simp_all <;> omega
    obtain ⟨x, hxm, hq, hp⟩ := hx
    simp only [List.filter_cons]
    rcases List.mem_cons.mp hxm with rfl | hxl
    · simp only [hq, hp, ↓reduceIte, Bool.false_eq_true, List.length_cons]; omega
    · have := ih (fun y hy => hPQ y (List.mem_cons_of_mem _ hy)) ⟨x, hxl, hq, hp⟩
      have ha := hPQ a (by simp)
      cases hP : P a <;> cases hQ : Q a <;> simp_all <;> omega

theorem cnt_lt_of_not_closed {p : Prog} {n : Nat} {s : List Nat} (h : ¬ RClosed p n s) :
    cnt n s < cnt n (readersStep p n s) := by
  unfold cnt
  apply filter_length_lt
  · intro x hx hs
    simp only [List.contains_iff_mem] at hs ⊢
    rw [mem_readersStep]
    exact ⟨List.mem_range.mp hx, .inl hs⟩
  · have hex : ∃ x, x ∈ readersStep p n s ∧ x ∉ s :=
      Classical.byContradiction (fun hne => h (fun x hx =>
        Classical.byContradiction (fun hn => hne ⟨x, hx, hn⟩)))
    obtain ⟨x, hx, hn⟩ := hex
    refine ⟨x, List.mem_range.mpr (mem_readersStep.mp hx).1, ?_, ?_⟩
    · simpa using hx
    · simpa using hn

theorem cnt_le (n : Nat) (s : List Nat) : cnt n s ≤ n := by
  unfold cnt
  exact Nat.le_trans (List.length_filter_le _ _) (by simp)

theorem iterN_closed_or_cnt (p : Prog) (n : Nat) (s0 : List Nat) : ∀ i,
    RClosed p n (iterN (readersStep p n) i s0) ∨ i ≤ cnt n (iterN (readersStep p n) i s0) := by
  intro i
  induction i with
  | zero => exact .inr (Nat.zero_le _)
  | succ i ih =>
    by_cases hc : RClosed p n (iterN (readersStep p n) i s0)
    · exact .inl hc.step
    · rcases ih with h | h
      · exact absurd h hc
      · have := cnt_lt_of_not_closed hc
        exact .inr (by simp only [iterN]; omega)

theorem closure_rclosed (p : Prog) (n : Nat) (s : List Nat) : RClosed p n (closure p n s) := by
  rw [closure_eq_iterN]
  rcases iterN_closed_or_cnt p n (s.filter (· < n)) n with h | h
  · exact h
  · -- every cell `< n` is already in the set
    have heq : cnt n (iterN (readersStep p n) n (s.filter (· < n))) = n :=
      Nat.le_antisymm (cnt_le _ _) h
    unfold cnt at heq
    have hall := List.length_filter_eq_length_iff.mp (heq.trans (List.length_range).symm)
    intro x hx
    have := hall x (List.mem_range.mpr (mem_readersStep.mp hx).1)
    simpa using this

theorem iterN_readers_mono (p : Prog) (n : Nat) (s0 : List Nat) {x : Nat} (hx : x ∈ s0)
    (hlt : x < n) : ∀ i, x ∈ iterN (readersStep p n) i s0 := by
  intro i
  induction i with
  | zero => exact hx
  | succ i ih => simp only [iterN]; exact mem_readersStep.mpr ⟨hlt, .inl ih⟩

theorem iterN_readers_origin (p : Prog) (n : Nat) (s0 : List Nat) (h0 : ∀ x ∈ s0, x < n) :
    ∀ i, ∀ x ∈ iterN (readersStep p n) i s0, x < n ∧ (x ∈ s0 ∨ p.formula x = true) := by
  intro i
  induction i with
  | zero => intro x hx; exact ⟨h0 x hx, .inl hx⟩
  | succ i ih =>
    intro x hx
    simp only [iterN] at hx
    obtain ⟨hlt, hx⟩ := mem_readersStep.mp hx
    rcases hx with hx | ⟨hf, _⟩
    · exact ih x hx
    · exact ⟨hlt, .inr hf⟩

/-- `closure` contains the seed (cells `< n`) … -/
theorem closure_seed (p : Prog) (n : Nat) (s : List Nat) {x : Nat} (hx : x ∈ s) (hlt : x < n) :
    x ∈ closure p n s := by
  rw [closure_eq_iterN]
  exact iterN_readers_mono p n _ (by simp [hx, hlt]) hlt n

/-- … only cells `< n` that are seeds or formula cells … -/
theorem closure_origin (p : Prog) (n : Nat) (s : List Nat) {x : Nat} (hx : x ∈ closure p n s) :
    x < n ∧ (x ∈ s ∨ p.formula x = true) := by
  rw [closure_eq_iterN] at hx
  have := iterN_readers_origin p n (s.filter (· < n)) (by simp) n x hx
  refine ⟨this.1, ?_⟩
  rcases this.2 with h | h
  · exact .inl (List.mem_filter.mp h).1
  · exact .inr h

/-- … and is closed under readers: `n` rounds of `readersStep` reach a fixpoint. -/
theorem closure_closed (p : Prog) (n : Nat) (s : List Nat) {d k : Nat} (hd : d ∈ closure p n s)
    (hk : k < n) (hf : p.formula k = true) (hdep : d ∈ p.deps k) : k ∈ closure p n s :=
  closure_rclosed p n s k (mem_readersStep.mpr ⟨hk, .inr ⟨hf, d, hdep, hd⟩⟩)

/-! ### preservation of the invariants -/

theorem upd_agree_of_not_mem {σ : Nat → V} {c : Nat} {v : V} {l : List Nat} (h : c ∉ l) :
    ∀ d ∈ l, σ d = upd σ c v d := by
  intro d hd
  have : d ≠ c := fun e => h (e ▸ hd)
  simp [upd, this]

/-- a good cell stays good when a cell it does not read is overwritten and the dirty set changes
    without making any of its reads dirty -/
theorem Good.upd {p : Prog} (hr : p.Respects) {st : State} {k c0 : Nat} {v : V} {dirty' : List Nat}
    (hg : Good p st k) (hne : k ≠ c0) (hnr : c0 ∉ p.reads k st.σ)
    (hd : ∀ d ∈ p.reads k st.σ, d ∉ dirty') :
    Good p { σ := upd st.σ c0 v, dirty := dirty' } k := by
  obtain ⟨e1, e2⟩ := hr.2 k st.σ (Grist.Recalc.upd st.σ c0 v) (upd_agree_of_not_mem hnr)
  refine ⟨?_, ?_⟩
  · show ∀ d ∈ p.reads k (Grist.Recalc.upd st.σ c0 v), d ∉ dirty'
    rw [e1]; exact hd
  · show Grist.Recalc.upd st.σ c0 v k = p.f k (Grist.Recalc.upd st.σ c0 v)
    rw [e2, ← hg.2]; simp [Grist.Recalc.upd, hne]

theorem mem_filter_ne {l : List Nat} {c k : Nat} : k ∈ l.filter (· != c) ↔ k ∈ l ∧ k ≠ c := by
  simp [List.mem_filter]

theorem WFState.filter {p : Prog} {n : Nat} {st : State} (hw : WFState p n st) (c : Nat)
    (σ' : Nat → V) : WFState p n { σ := σ', dirty := st.dirty.filter (· != c) } :=
  ⟨fun k hk => hw.dirty_formula k (mem_filter_ne.mp hk).1,
   List.Nodup.sublist List.filter_sublist hw.dirty_nodup, hw.deps_lt⟩

/-- preservation by `eval c0` / `circ c0`, given what holds of `c0` itself afterwards -/
theorem inv_calc {p : Prog} (hr : p.Respects) {n : Nat} {st : State} (hi : Inv p n st) {c0 : Nat}
    {v : V} (hc0 : c0 ∈ st.dirty)
    (hself : Good p { σ := upd st.σ c0 v, dirty := st.dirty.filter (· != c0) } c0 ∨
      (v = V.circ ∧ DependsOnSelf p n c0)) :
    Inv p n { σ := upd st.σ c0 v, dirty := st.dirty.filter (· != c0) } := by
  intro k hk hf hnd
  by_cases hkc : k = c0
  · subst hkc
    rcases hself with h | ⟨h1, h2⟩
    · exact .inl h
    · exact .inr ⟨by simp [upd, h1], h2⟩
  · have hnd' : k ∉ st.dirty := fun h => hnd (mem_filter_ne.mpr ⟨h, hkc⟩)
    rcases hi k hk hf hnd' with hg | ⟨h1, h2⟩
    · refine .inl (hg.upd hr hkc (fun h => hg.1 c0 h hc0) ?_)
      intro d hd hm; exact hg.1 d hd (mem_filter_ne.mp hm).1
    · exact .inr ⟨by simp [upd, hkc, h1], h2⟩

/-- (U1) every transition preserves the invariant and well-formedness -/
theorem inv_step {p : Prog} (hr : p.Respects) {n : Nat} {st st' : State} {e : Ev}
    (hw : WFState p n st) (hi : Inv p n st) (h : step p n st e = some st') :
    Inv p n st' ∧ WFState p n st' := by
  cases e with
  | eval c0 =>
    obtain ⟨⟨hlt, hf, hd, hb⟩, rfl⟩ := step_eval_iff.mp h
    refine ⟨inv_calc hr hi hd (.inl ?_), hw.filter _ _⟩
    have hb' := blocker_eq_none.mp hb
    have hnr : c0 ∉ p.reads c0 st.σ := fun hm => hb' c0 hm hd
    obtain ⟨e1, e2⟩ := hr.2 c0 st.σ (upd st.σ c0 (p.f c0 st.σ)) (upd_agree_of_not_mem hnr)
    refine ⟨?_, ?_⟩
    · show ∀ d ∈ p.reads c0 (upd st.σ c0 (p.f c0 st.σ)), d ∉ st.dirty.filter (· != c0)
      rw [e1]; intro d hd' hm; exact hb' d hd' (mem_filter_ne.mp hm).1
    · show upd st.σ c0 (p.f c0 st.σ) c0 = p.f c0 (upd st.σ c0 (p.f c0 st.σ))
      rw [e2]; simp [upd]
  | circ c0 =>
    obtain ⟨⟨hlt, hf, hd, hb⟩, rfl⟩ := step_circ_iff.mp h
    exact ⟨inv_calc hr hi hd (.inr ⟨rfl, reaches_of_blockCycle hr n c0 hf hb⟩), hw.filter _ _⟩
  | write c0 v =>
    obtain ⟨⟨hnf, hlt⟩, rfl⟩ := step_write_iff.mp h
    have hmem : ∀ k, k ∈ (List.range n).filter (fun k => st.dirty.contains k ||
        (k != c0 && (closure p n [c0]).contains k)) ↔
        k < n ∧ (k ∈ st.dirty ∨ (k ≠ c0 ∧ k ∈ closure p n [c0])) := by
      intro k; simp [List.mem_filter]
    have hc0cl : c0 ∈ closure p n [c0] := closure_seed p n [c0] (by simp) hlt
    refine ⟨?_, ⟨?_, List.Nodup.sublist List.filter_sublist List.nodup_range, hw.deps_lt⟩⟩
    · intro k hk hf hnd
      have hkc : k ≠ c0 := fun e => by rw [e, hnf] at hf; cases hf
      have hnd0 : k ∉ st.dirty := fun hm => hnd ((hmem k).mpr ⟨hk, .inl hm⟩)
      have hncl : k ∉ closure p n [c0] := fun hm => hnd ((hmem k).mpr ⟨hk, .inr ⟨hkc, hm⟩⟩)
      rcases hi k hk hf hnd0 with hg | ⟨h1, h2⟩
      · refine .inl (hg.upd hr hkc ?_ ?_)
        · intro hm
          exact hncl (closure_closed p n [c0] hc0cl hk hf (hr.1 _ _ _ hm))
        · intro d hd hm
          rcases ((hmem d).mp hm).2 with h' | ⟨_, h'⟩
          · exact hg.1 d hd h'
          · exact hncl (closure_closed p n [c0] h' hk hf (hr.1 _ _ _ hd))
      · exact .inr ⟨by simp [upd, hkc, h1], h2⟩
    · intro k hk
      obtain ⟨hlt', hk⟩ := (hmem k).mp hk
      rcases hk with hk | ⟨hne, hk⟩
      · exact hw.dirty_formula k hk
      · rcases (closure_origin p n [c0] hk).2 with h' | h'
        · exact absurd (by simpa using h') hne
        · exact ⟨h', hlt'⟩

/-- (U2) … hence every accepted run does -/
theorem inv_run {p : Prog} (hr : p.Respects) {n : Nat} : ∀ (es : List Ev) {st st' : State},
    WFState p n st → Inv p n st → run p n st es = some st' → Inv p n st' ∧ WFState p n st' := by
  intro es
  induction es with
  | nil => intro st st' hw hi h; simp only [run, Option.some.injEq] at h; subst h; exact ⟨hi, hw⟩
  | cons e es ih =>
    intro st st' hw hi h
    obtain ⟨st1, h1, h2⟩ := run_cons_some h
    obtain ⟨hi1, hw1⟩ := inv_step hr hw hi h1
    exact ih hw1 hi1 h2

/-- in a quiescent state the invariant reads: every formula cell is a fixpoint of its formula, or
    holds `circ` and depends on itself -/
theorem inv_quiescent {p : Prog} {n : Nat} {st : State} (hi : Inv p n st) (hq : st.dirty = []) :
    ∀ c, c < n → p.formula c = true →
      st.σ c = p.f c st.σ ∨ (st.σ c = V.circ ∧ DependsOnSelf p n c) := by
  intro c hc hf
  rcases hi c hc hf (by simp [hq]) with hg | h
  · exact .inl hg.2
  · exact .inr h

end Grist.Recalc
