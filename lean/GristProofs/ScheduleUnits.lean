/-
Helper development for C35: the ordered-candidates hypothesis of GristProofs/Schedule.lean
discharged from syntactic conditions on the schedule, with the boundaries in closed form.
-/
import GristProofs.Schedule
import GristProofs.ScheduleCivil
namespace Grist.Schedule

attribute [local irreducible] Delta.addTo

theorem dayOf_mono {a b : Int} (h : a ≤ b) : dayOf a ≤ dayOf b := by
  unfold dayOf usDay; omega

theorem succ_mul (k : Nat) (P : Int) : ((k + 1 : Nat) : Int) * P = (k : Int) * P + P := by
  rw [Int.natCast_succ, Int.add_mul, Int.one_mul]

/-! ### week / day / hour / minute / second intervals -/

/-- The interval of `n-unit: ...` for a fixed-length unit and `n ≥ 1`. -/
structure FixedIv (sch : Sched) (n : Int) : Prop where
  unit_fixed : sch.unit ≠ .years ∧ sch.unit ≠ .months
  n_pos : 1 ≤ n
  interval_eq : sch.interval = { months := 0, us := n * sch.unit.us }

/-- A schedule `n-unit: slots` with a fixed-length unit, `n ≥ 1`, and slots that are plain
    offsets, strictly increasing, inside `[0, n units)`. -/
structure FixedWF (sch : Sched) (n : Int) : Prop extends FixedIv sch n where
  slots_ne : sch.slots ≠ []
  slots_months : ∀ s ∈ sch.slots, s.months = 0
  slots_window : ∀ s ∈ sch.slots, 0 ≤ s.us ∧ s.us < n * sch.unit.us
  slots_sorted : sch.slots.Pairwise (fun a b => a.us < b.us)

theorem unit_us_pos {u : TUnit} (h : u ≠ .years ∧ u ≠ .months) : 0 < u.us := by
  cases u <;> simp_all [TUnit.us, usWeek, usDay, usHour, usMinute, usSecond]

theorem FixedIv.period_ge {sch : Sched} {n : Int} (wf : FixedIv sch n) :
    sch.unit.us ≤ n * sch.unit.us := by
  have h := unit_us_pos wf.unit_fixed
  have := Int.mul_le_mul_of_nonneg_right wf.n_pos (Int.le_of_lt h)
  omega

theorem FixedIv.iterB_eq {sch : Sched} {n : Int} (wf : FixedIv sch n) (b : Int)
    (hb : day1900 ≤ dayOf b) (k : Nat) :
    iterB sch b k = b + (k : Int) * (n * sch.unit.us) := by
  have hP := wf.period_ge
  have hL := unit_us_pos wf.unit_fixed
  induction k with
  | zero => simp
  | succ k ih =>
    have hk : 0 ≤ (k : Int) * (n * sch.unit.us) := Int.mul_nonneg (by omega) (by omega)
    rw [iterB_succ', ih, succ_mul, wf.interval_eq,
      addTo_fixed _ _ rfl (Int.le_trans hb (dayOf_mono (by omega)))]
    show _ + n * sch.unit.us = _
    omega

theorem FixedWF.outs_eq {sch : Sched} {n : Int} (wf : FixedWF sch n) (b : Int)
    (hb : day1900 ≤ dayOf b) (k : Nat) :
    outsAt sch (iterB sch b k) =
      sch.slots.map (fun s => b + (k : Int) * (n * sch.unit.us) + s.us) := by
  have hP := wf.toFixedIv.period_ge
  have hL := unit_us_pos wf.unit_fixed
  have hk : 0 ≤ (k : Int) * (n * sch.unit.us) := Int.mul_nonneg (by omega) (by omega)
  rw [wf.toFixedIv.iterB_eq b hb k]
  apply List.map_congr_left
  intro s hs
  rw [addTo_fixed _ _ (wf.slots_months s hs) (Int.le_trans hb (dayOf_mono (by omega)))]

theorem FixedWF.inOrder {sch : Sched} {n : Int} (wf : FixedWF sch n) (b : Int)
    (hb : day1900 ≤ dayOf b) : InOrder sch b := by
  intro k
  rw [wf.outs_eq b hb k, wf.toFixedIv.iterB_eq b hb k, wf.toFixedIv.iterB_eq b hb (k + 1), succ_mul]
  constructor
  · rw [List.pairwise_map]
    exact wf.slots_sorted.imp (by intro a c h; omega)
  · intro x hx
    obtain ⟨s, hs, rfl⟩ := List.mem_map.mp hx
    have := wf.slots_window s hs
    omega

/-! ### month / year intervals -/

/-- An interval of `M ≥ 1` months (`n-month`: `M = n`; `n-year`: `M = 12 n`). -/
structure MonthIv (sch : Sched) (M : Int) : Prop where
  unit_month : sch.unit = .months ∨ (sch.unit = .years ∧ M % 12 = 0)
  m_pos : 1 ≤ M
  interval_eq : sch.interval = { months := M, us := 0 }

/-- A schedule whose interval is `M ≥ 1` months, with slots `(months, offset)` in
    lexicographically increasing order, `months < M`, and an offset of less than 28 days (so that
    it stays inside every month). -/
structure MonthWF (sch : Sched) (M : Int) : Prop extends MonthIv sch M where
  slots_ne : sch.slots ≠ []
  slots_window : ∀ s ∈ sch.slots, 0 ≤ s.months ∧ s.months < M ∧ 0 ≤ s.us ∧ s.us < 28 * usDay
  slots_sorted : sch.slots.Pairwise
    (fun a b => a.months < b.months ∨ (a.months = b.months ∧ a.us < b.us))

theorem MonthIv.iterB_eq {sch : Sched} {M : Int} (wf : MonthIv sch M) (i : Int)
    (hb : day1900 ≤ fom i) (k : Nat) :
    iterB sch (fom i * usDay) k = fom (i + (k : Int) * M) * usDay := by
  induction k with
  | zero => simp
  | succ k ih =>
    have hk : 0 ≤ (k : Int) * M := Int.mul_nonneg (by omega) (by have := wf.m_pos; omega)
    have hm := @fom_mono i (i + (k : Int) * M) (by omega)
    rw [iterB_succ', ih, succ_mul, wf.interval_eq, addTo_fom _ _ (by omega)]
    show fom (i + (k : Int) * M + M) * usDay + 0 = _
    rw [Int.add_zero, Int.add_assoc]

theorem MonthWF.outs_eq {sch : Sched} {M : Int} (wf : MonthWF sch M) (i : Int)
    (hb : day1900 ≤ fom i) (k : Nat) :
    outsAt sch (iterB sch (fom i * usDay) k) =
      sch.slots.map (fun s => fom (i + (k : Int) * M + s.months) * usDay + s.us) := by
  have hk : 0 ≤ (k : Int) * M := Int.mul_nonneg (by omega) (by have := wf.m_pos; omega)
  have hm := @fom_mono i (i + (k : Int) * M) (by omega)
  rw [wf.toMonthIv.iterB_eq i hb k]
  apply List.map_congr_left
  intro s hs
  rw [addTo_fom _ _ (by omega)]

theorem MonthWF.inOrder {sch : Sched} {M : Int} (wf : MonthWF sch M) (i : Int)
    (hb : day1900 ≤ fom i) : InOrder sch (fom i * usDay) := by
  intro k
  rw [wf.outs_eq i hb k, wf.toMonthIv.iterB_eq i hb k, wf.toMonthIv.iterB_eq i hb (k + 1), succ_mul,
    ← Int.add_assoc]
  generalize i + (k : Int) * M = j
  constructor
  · rw [List.pairwise_map]
    refine wf.slots_sorted.imp_of_mem ?_
    intro a c ha hc h
    have wa := wf.slots_window a ha
    have wc := wf.slots_window c hc
    rcases h with h | ⟨h1, h2⟩
    · have s1 := (fom_step (j + a.months)).1
      have s2 := @fom_mono (j + a.months + 1) (j + c.months) (by omega)
      unfold usDay at *
      omega
    · rw [h1]; omega
  · intro x hx
    obtain ⟨s, hs, rfl⟩ := List.mem_map.mp hx
    have w := wf.slots_window s hs
    have s0 := @fom_mono j (j + s.months) (by omega)
    have s1 := (fom_step (j + s.months)).1
    have s2 := @fom_mono (j + s.months + 1) (j + M) (by omega)
    unfold usDay at *
    constructor <;> omega

/-! ### the unit boundary at or before `start`, and termination without any order on the slots -/

/-- `_round_down_to_unit` for fixed-length units: the largest multiple of the unit (for weeks:
    Sunday 00:00) that is `≤ t`. -/
theorem roundDown_fixed (t : Int) (u : TUnit) (hu : u ≠ .years ∧ u ≠ .months) :
    roundDown t u ≤ t ∧ t < roundDown t u + u.us ∧
    (match u with
      | .weeks => roundDown t u % usDay = 0 ∧ (dayOf (roundDown t u) + 4) % 7 = 0
      | _ => roundDown t u % u.us = 0) := by
  obtain ⟨h1, h2⟩ := hu
  cases u
  · exact absurd rfl h1
  · exact absurd rfl h2
  all_goals
    simp only [roundDown, TUnit.us, dayOf, usWeek, usDay, usHour, usMinute, usSecond]
    omega

/-- for month-based units the boundary is the first of the month (of January) at 00:00 -/
theorem roundDown_monthly (sch : Sched) (M : Int) (iv : MonthIv sch M) (t : Int) :
    ∃ i, roundDown t sch.unit = fom i * usDay ∧ fom i * usDay ≤ t ∧ t < fom (i + M) * usDay ∧
      (sch.unit = .years → i % 12 = 0) := by
  rcases iv.unit_month with hu | ⟨hu, hM⟩
  · refine ⟨monthIdx (dayOf t), by rw [hu, roundDown_months], (months_window t).1, ?_, ?_⟩
    · have := (months_window t).2
      have := @fom_mono (monthIdx (dayOf t) + 1) (monthIdx (dayOf t) + M) (by have := iv.m_pos; omega)
      unfold usDay at *; omega
    · intro h; rw [hu] at h; cases h
  · refine ⟨(civilFromDays (dayOf t)).1 * 12, by rw [hu, roundDown_years], (years_window t).1, ?_, ?_⟩
    · have := (years_window t).2
      have := @fom_mono ((civilFromDays (dayOf t)).1 * 12 + 12) ((civilFromDays (dayOf t)).1 * 12 + M)
        (by have := iv.m_pos; omega)
      unfold usDay at *; omega
    · intro _; omega

theorem FixedIv.progress {sch : Sched} {n : Int} (iv : FixedIv sch n) (b start : Int)
    (hb : day1900 ≤ dayOf b) (hs : start ≤ b)
    (hslots : ∀ s ∈ sch.slots, s.months = 0 ∧ 0 ≤ s.us) : Progress sch start b := by
  intro k s hs'
  have hP := iv.period_ge
  have hL := unit_us_pos iv.unit_fixed
  have hk : 0 ≤ (k : Int) * (n * sch.unit.us) := Int.mul_nonneg (by omega) (by omega)
  rw [iv.iterB_eq b hb k,
    addTo_fixed _ _ (hslots s hs').1 (Int.le_trans hb (dayOf_mono (by omega)))]
  have := (hslots s hs').2
  omega

theorem MonthIv.progress {sch : Sched} {M : Int} (iv : MonthIv sch M) (i start : Int)
    (hb : day1900 ≤ fom i) (hs : start ≤ fom i * usDay)
    (hslots : ∀ s ∈ sch.slots, 0 ≤ s.months ∧ 0 ≤ s.us) : Progress sch start (fom i * usDay) := by
  intro k s hs'
  have hk : 0 ≤ (k : Int) * M := Int.mul_nonneg (by omega) (by have := iv.m_pos; omega)
  have hm := @fom_mono i (i + (k : Int) * M) (by omega)
  have w := hslots s hs'
  have hm2 := @fom_mono i (i + (k : Int) * M + s.months) (by omega)
  rw [iv.iterB_eq i hb k, addTo_fom _ _ (by omega)]
  unfold usDay at *
  omega

end Grist.Schedule
