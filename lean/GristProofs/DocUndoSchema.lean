/-
S2 continued: ReplaceTableData and the schema actions.
-/
import GristProofs.DocUndoSingle
namespace Grist.Doc

def Col.clear (col : Col) : Col := { col with cells := fun _ => typeDefault col.info.type }

theorem Col.written_of_no_key {rows : List Nat} {cols : List (String × List Val)} {x : Col}
    (h : ∀ cv ∈ cols, cv.1 ≠ x.id) : Col.written rows cols x = x := by
  cases x with
  | mk id info cells =>
    simp only [Col.written, Col.mk.injEq, true_and]
    exact writeCells_no_key _ _ _ _ _ h

theorem dataVals_key {tb : Table} (hnd : (tb.cols.map (·.id)).Nodup)
    {x : Col} (hx : x ∈ tb.cols) {cv : String × List Val} (hcv : cv ∈ tb.dataVals)
    (hk : cv.1 = x.id) : cv.2 = tb.rows.map x.cells ∧ x.info.isFormula = false := by
  simp only [Table.dataVals, List.mem_map, List.mem_filter] at hcv
  obtain ⟨y, ⟨hy, hnf⟩, rfl⟩ := hcv
  have : y = x := eq_of_mem_of_id_eq hnd hy hx hk
  subst this
  exact ⟨rfl, by simpa using hnf⟩

theorem undo_replaceData {d : Doc} {t : String} {rows : List Nat} {cols : List (String × List Val)}
    {D : Doc} {U : List DocAction} (hwf : WF d) (hn : Normal d) (hpos : ∀ r ∈ rows, 0 < r)
    (hex : (DocAction.replaceData t rows cols).undoExact d)
    (h : Post d (.replaceData t rows cols) D U) :
    ∃ d'', applyAll D U.reverse = .ok d'' ∧ Same d'' d := by
  obtain ⟨tb, tb2, hf, hw, rfl, rfl⟩ := h
  have htb := hwf.table hf
  have hntb := hn.table hf
  have hid := (findTable?_some hf).1
  rw [filter_ne_zero_of_pos hpos] at hw
  have h1 := Table.WF.cleared tb htb hpos
  rw [writeCols_ok_iff h1.1] at hw
  obtain ⟨_, rfl⟩ := hw
  generalize hknown : cols.filter (fun cv => tb.hasCol cv.1) = known
  have hid2 : ((tb.cleared (insertRows rows [])).written rows known).id = t := hid
  have hfD := findTable?_replaceTable_self (d := d) hid2 hf
  have hposr : ∀ r ∈ tb.rows, 0 < r := htb.2.2.1
  have h2 : ((tb.cleared (insertRows rows [])).written rows known).WF :=
    h1.written (fun r hr => mem_insertRows.2 (.inl hr))
  have h3 := Table.WF.cleared _ h2 hposr
  have hids : (((tb.cleared (insertRows rows [])).written rows known).cleared
      (insertRows tb.rows [])).cols.map (·.id) = tb.cols.map (·.id) := by
    simp [Table.cleared, Table.written, List.map_map, Function.comp_def]
  have hkeys : ∀ cv ∈ tb.dataVals, (((tb.cleared (insertRows rows [])).written rows known).cleared
      (insertRows tb.rows [])).hasCol cv.1 = true := by
    intro cv hcv
    rw [hasCol_of_map_id_eq hids]
    simp only [Table.dataVals, List.mem_map, List.mem_filter] at hcv
    obtain ⟨y, ⟨hy, _⟩, rfl⟩ := hcv
    exact hasCol_of_mem hy
  have hfilt : tb.dataVals.filter
      (fun cv => ((tb.cleared (insertRows rows [])).written rows known).hasCol cv.1) = tb.dataVals := by
    rw [List.filter_eq_self]
    intro cv hcv
    have := hkeys cv hcv
    rw [hasCol_of_map_id_eq hids] at this
    rw [hasCol_of_map_id_eq (tb := tb)
      (by simp [Table.cleared, Table.written, List.map_map, Function.comp_def])]
    exact this
  have hw2 := writeCols_eq_written tb.dataVals _ tb.rows h3.1 hkeys
  have hpost : Post (replaceTable d t ((tb.cleared (insertRows rows [])).written rows known))
      (.replaceData t tb.rows tb.dataVals) _ _ :=
    ⟨_, _, hfD, by rw [filter_ne_zero_of_pos hposr, hfilt]; exact hw2, rfl, rfl⟩
  refine ⟨_, applyAll_single_of_post hpost, ?_⟩
  rw [replaceTable_replaceTable hid2]
  refine same_replaceTable hf hid ?_
  apply tableSame_map
    (fun x => Col.written tb.rows tb.dataVals (Col.clear (Col.written rows known (Col.clear x))))
    (fun _ => rfl)
  · simp [Table.cleared, Table.written, List.map_map, Function.comp_def, Col.clear]
  · exact insertRows_nil_of_sorted htb.2.1
  · intro x hx
    refine ⟨rfl, fun r hr => ?_⟩
    simp only [Col.written, Col.clear]
    by_cases hform : x.info.isFormula = true
    · rw [writeCells_no_key]
      · exact (hex tb hf x hx hform r hr).symm
      · intro cv hcv hk
        have := (dataVals_key htb.1 hx hcv hk).2
        rw [hform] at this
        exact absurd this (by simp)
    · rw [writeCells_const _ _ _ x.cells hr]
      · exact hntb x hx r
      · intro cv hcv hk
        exact (dataVals_key htb.1 hx hcv hk).1
      · left
        refine ⟨(x.id, tb.rows.map x.cells), ?_, rfl⟩
        simp only [Table.dataVals, List.mem_map, List.mem_filter]
        exact ⟨x, ⟨hx, by simpa using hform⟩, rfl⟩

theorem undo_addColumn {d : Doc} {t c : String} {info : ColInfo}
    {D : Doc} {U : List DocAction} (h : Post d (.addColumn t c info) D U) :
    ∃ d'', applyAll D U.reverse = .ok d'' ∧ Same d'' d := by
  obtain ⟨tb, hf, h1, rfl, rfl⟩ := h
  have hid := (findTable?_some hf).1
  have hid1 : ({ tb with cols := tb.cols ++ [newCol c info] } : Table).id = t := hid
  have hfD := findTable?_replaceTable_self (d := d) hid1 hf
  have hnone := hasCol_eq_false.1 h1
  have hc1 : Table.findCol? { tb with cols := tb.cols ++ [newCol c info] } c = some (newCol c info) := by
    rw [findCol?_append_single]
    simp only [Table.findCol?] at hnone
    simp [hnone, newCol]
  have hpost : Post (replaceTable d t { tb with cols := tb.cols ++ [newCol c info] })
      (.removeColumn t c) _ _ := ⟨_, _, hfD, hc1, rfl, rfl⟩
  refine ⟨_, applyAll_single_of_post hpost, ?_⟩
  rw [replaceTable_replaceTable hid1]
  refine same_replaceTable hf hid ?_
  have : (tb.cols ++ [newCol c info]).filter (fun x => x.id != c) = tb.cols := by
    rw [filter_ne_append_single Col.id (y := newCol c info) (k := c) rfl, filter_ne_eq_self Col.id (findCol?_none.1 hnone)]
  show Table.Same { tb with cols := (tb.cols ++ [newCol c info]).filter (fun x => x.id != c) } tb
  rw [table_eta_cols this]
  exact Table.Same.refl tb

theorem undo_removeColumn {d : Doc} {t c : String}
    {D : Doc} {U : List DocAction} (hwf : WF d) (hn : Normal d)
    (hex : (DocAction.removeColumn t c).undoExact d)
    (h : Post d (.removeColumn t c) D U) :
    ∃ d'', applyAll D U.reverse = .ok d'' ∧ Same d'' d := by
  obtain ⟨tb, col, hf, hc, rfl, rfl⟩ := h
  have htb := hwf.table hf
  have hntb := hn.table hf
  have hid := (findTable?_some hf).1
  have hcol := findCol?_some hc
  have hidm : ({ tb with cols := tb.cols.filter (fun x => x.id != c) } : Table).id = t := hid
  have hfD := findTable?_replaceTable_self (d := d) hidm hf
  have hcm : Table.hasCol { tb with cols := tb.cols.filter (fun x => x.id != c) } c = false := by
    apply hasCol_eq_false.2
    rw [findCol?_filter_ne]
    simp
  have hpost1 : Post (replaceTable d t { tb with cols := tb.cols.filter (fun x => x.id != c) })
      (.addColumn t c col.info) _ _ := ⟨_, hfD, hcm, rfl, rfl⟩
  have hrev : (removeColUndoUpd t c tb col ++ [DocAction.addColumn t c col.info]).reverse =
      DocAction.addColumn t c col.info :: removeColUndoUpd t c tb col := by
    rw [List.reverse_append]
    simp only [List.reverse_cons, List.reverse_nil, List.nil_append, List.singleton_append,
      List.cons.injEq, true_and]
    simp only [removeColUndoUpd]
    by_cases h1 : (tb.rows.filter (fun r => col.cells r != typeDefault col.info.type)).isEmpty = true
    · simp [h1]
    · by_cases h2 : col.info.isFormula = true
      · simp [h1, h2]
      · simp [h1, h2]
  rw [hrev, applyAll_cons_of_post _ hpost1, replaceTable_replaceTable hidm]
  have hid1 : ({ tb with cols := tb.cols.filter (fun x => x.id != c) ++ [newCol c col.info] } : Table).id
      = t := hid
  have hwf1 : Table.WF { tb with cols := tb.cols.filter (fun x => x.id != c) ++ [newCol c col.info] } :=
    htb.swapCol c (col := newCol c col.info) (fun x _ hx => hx) (fun _ _ => rfl)
  -- the simple case: all cells of the column (at the rows) are default
  have hsimple : (∀ r ∈ tb.rows, col.cells r = typeDefault col.info.type) →
      Same (replaceTable d t
        { tb with cols := tb.cols.filter (fun x => x.id != c) ++ [newCol c col.info] }) d := by
    intro hall
    refine same_replaceTable hf hid1 ?_
    exact tableSame_swap hc rfl ⟨rfl, fun r hr => (hall r hr).symm⟩
  simp only [removeColUndoUpd]
  generalize hnd : tb.rows.filter (fun r => col.cells r != typeDefault col.info.type) = nd
  by_cases he : nd = []
  · subst he
    simp only [List.isEmpty_nil, ↓reduceIte]
    refine ⟨_, rfl, hsimple ?_⟩
    intro r hr
    rw [List.filter_eq_nil_iff] at hnd
    simpa using hnd r hr
  · have he' : nd.isEmpty = false := by simpa using he
    simp only [he', Bool.false_eq_true, ↓reduceIte]
    by_cases hform : col.info.isFormula = true
    · simp only [hform, ↓reduceIte]
      exact ⟨_, rfl, hsimple (hex tb col hf hc hform)⟩
    · simp only [hform, Bool.false_eq_true, ↓reduceIte]
      have hfD1 := findTable?_replaceTable_self (d := d) hid1 hf
      have hsub : ∀ r ∈ nd, r ∈ tb.rows := by
        intro r hr; rw [← hnd] at hr; exact (List.mem_filter.1 hr).1
      have hkeys : ∀ cv ∈ [(c, nd.map col.cells)],
          Table.hasCol { tb with cols := tb.cols.filter (fun x => x.id != c) ++ [newCol c col.info] }
            cv.1 = true := by
        intro cv hcv
        simp only [List.mem_singleton] at hcv
        subst hcv
        apply hasCol_eq_true.2
        rw [findCol?_swap]
        simp [newCol]
      have hw := writeCols_eq_written [(c, nd.map col.cells)] _ nd hwf1.1 hkeys
      have hpost2 : Post (replaceTable d t
          { tb with cols := tb.cols.filter (fun x => x.id != c) ++ [newCol c col.info] })
          (.bulkUpdate t nd [(c, nd.map col.cells)]) _ _ :=
        ⟨_, _, hfD1, hsub, hkeys, hw, rfl, rfl⟩
      refine ⟨_, applyAll_single_of_post hpost2, ?_⟩
      rw [replaceTable_replaceTable hid1]
      refine same_replaceTable hf hid ?_
      have heq : Table.written
          { tb with cols := tb.cols.filter (fun x => x.id != c) ++ [newCol c col.info] } nd
          [(c, nd.map col.cells)] =
          { tb with cols := tb.cols.filter (fun x => x.id != c) ++
            [Col.written nd [(c, nd.map col.cells)] (newCol c col.info)] } := by
        simp only [Table.written, List.map_append, List.map_cons, List.map_nil, Table.mk.injEq,
          true_and, and_true, List.append_cancel_right_eq]
        conv => rhs; rw [← List.map_id (tb.cols.filter (fun x => x.id != c))]
        apply List.map_congr_left
        intro x hx
        apply Col.written_of_no_key
        intro cv hcv
        simp only [List.mem_singleton] at hcv
        subst hcv
        have := (List.mem_filter.1 hx).2
        simp only [bne_iff_ne, ne_eq] at this
        exact fun h' => this h'.symm
      rw [heq]
      apply tableSame_swap hc rfl
      refine ⟨rfl, fun r hr => ?_⟩
      simp only [Col.written, newCol]
      by_cases hr' : r ∈ nd
      · rw [writeCells_const _ _ _ col.cells hr']
        · exact hntb col hcol.2 r
        · intro cv hcv _
          simp only [List.mem_singleton] at hcv
          subst hcv; rfl
        · left; exact ⟨_, List.mem_singleton.2 rfl, rfl⟩
      · rw [writeCells_not_mem _ _ _ hr']
        rw [← hnd] at hr'
        simp only [List.mem_filter, hr, true_and, bne_iff_ne, ne_eq, Decidable.not_not] at hr'
        exact hr'.symm

end Grist.Doc
