/-
Helper development for GristProps/C22.lean: per-type fixpoint lemmas for
`usertypes.<Type>.do_convert` as modelled in GristModel/PyVal.lean.
-/
import GristModel.PyVal
set_option linter.unusedSimpArgs false
namespace Grist.PyVal

/-! ### `convert` in terms of `doConvert` -/

theorem convert_raised (P : Prim) (τ : ColType) (v : PyVal) (h : v.isRaised = true) :
    convert P τ v = v := by
  simp [convert, h]

theorem convert_ok (P : Prim) (τ : ColType) (v r : PyVal) (hr : v.isRaised = false)
    (h : doConvert P τ v = .ok r) : convert P τ v = r := by
  simp [convert, hr, h]

theorem convert_error (P : Prim) (τ : ColType) (v : PyVal) (e : Str) (hr : v.isRaised = false)
    (h : doConvert P τ v = .error e) : convert P τ v = altOf P v := by
  simp [convert, hr, h]

/-- if `do_convert` maps `r` to itself then so does `convert` (also when `r` is an error object) -/
theorem convert_fix (P : Prim) (τ : ColType) (r : PyVal) (h : doConvert P τ r = .ok r) :
    convert P τ r = r := by
  unfold convert
  split
  · rfl
  · simp [h]

theorem altOf_isStr (P : Prim) (v : PyVal) : (altOf P v).isStr = true := by
  unfold altOf; split <;> rfl

theorem altOf_str (P : Prim) (s : Str) (b : Bool) : altOf P (.str s b) = .str s false := by
  simp [altOf, pyStr]

/-! ### Text / Choice -/

theorem doText_result (P : Prim) (v r : PyVal) (h : doText P v = .ok r) :
    r = .none ∨ ∃ s, r = .str s false := by
  unfold doText at h
  split at h
  · split at h <;> simp_all [exc] <;> (subst h; simp)
  · simp_all
  · split at h <;> (try split at h) <;> simp_all <;> (subst h; simp)
  · split at h <;> simp_all [exc] <;> (subst h; simp)

theorem doText_str (P : Prim) (s : Str) (b : Bool) : doText P (.str s b) = .ok (.str s false) := by
  simp [doText, pyStr]

theorem doText_fix (P : Prim) (v r : PyVal) (h : doText P v = .ok r) : doText P r = .ok r := by
  rcases doText_result P v r h with h1 | ⟨s, h1⟩
  · subst h1; simp [doText]
  · subst h1; exact doText_str P s false

/-! ### Bool -/

theorem doBool_result (v r : PyVal) (h : doBool v = .ok r) : ∃ b, r = .bool b := by
  unfold doBool at h
  repeat' split at h
  all_goals first
    | (simp [exc] at h; done)
    | (simp at h; exact ⟨_, h.symm⟩)

theorem doBool_bool (b : Bool) : doBool (.bool b) = .ok (.bool b) := by
  cases b <;> simp [doBool, truthy, isNumeric]

/-! ### Int -/

theorem short_le53 (n : Int) (h : isShort n = true) :
    (decide (-two53 ≤ n) && decide (n ≤ two53)) = true := by
  unfold isShort two31 at h
  unfold two53
  simp at h ⊢
  omega

theorem doInt_result (P : Prim) (v r : PyVal) (h : doInt P v = .ok r) :
    r = .none ∨ ∃ n, r = .int n false ∧ isShort n = true := by
  unfold doInt at h
  repeat' split at h
  all_goals first
    | (simp [exc] at h; done)
    | (simp at h; exact Or.inl h.symm)
    | (simp at h; exact Or.inr ⟨_, h.symm, by assumption⟩)

theorem doInt_int (P : Prim) (n : Int) (h : isShort n = true) :
    doInt P (.int n false) = .ok (.int n false) := by
  simp [doInt, isEmptyOrNone, pyFloat, floatOfInt, short_le53 n h, F.toInt, h]

theorem doInt_fix (P : Prim) (v r : PyVal) (h : doInt P v = .ok r) : doInt P r = .ok r := by
  rcases doInt_result P v r h with h1 | ⟨n, h1, hs⟩
  · subst h1; simp [doInt, isEmptyOrNone]
  · subst h1; exact doInt_int P n hs

/-! ### Numeric / PositionNumber / ManualSortPos -/

theorem doNumeric_result (P : Prim) (dflt v r : PyVal) (h : doNumeric P dflt v = .ok r) :
    r = dflt ∨ ∃ f, r = .float f false := by
  unfold doNumeric at h
  repeat' split at h
  all_goals first
    | (simp [exc] at h; done)
    | (simp at h; exact Or.inl h.symm)
    | (simp at h; exact Or.inr ⟨_, h.symm⟩)

theorem doNumeric_float (P : Prim) (dflt : PyVal) (f : F) (b : Bool) :
    doNumeric P dflt (.float f b) = .ok (.float f false) := by
  simp [doNumeric, isEmptyOrNone, pyFloat]

theorem doNumeric_fix_none (P : Prim) (v r : PyVal) (h : doNumeric P .none v = .ok r) :
    doNumeric P .none r = .ok r := by
  rcases doNumeric_result P _ v r h with h1 | ⟨f, h1⟩
  · subst h1; simp [doNumeric, isEmptyOrNone]
  · subst h1; exact doNumeric_float P _ f false

theorem doNumeric_fix_inf (P : Prim) (v r : PyVal)
    (h : doNumeric P (.float (.inf false) false) v = .ok r) :
    doNumeric P (.float (.inf false) false) r = .ok r := by
  rcases doNumeric_result P _ v r h with h1 | ⟨f, h1⟩
  · subst h1; exact doNumeric_float P _ _ false
  · subst h1; exact doNumeric_float P _ f false

/-! ### Date / DateTime -/

theorem doDate_result (P : Prim) (dt : Bool) (v r : PyVal) (h : doDate P dt v = .ok r) :
    r = .none ∨ ∃ f, r = .float f false := by
  unfold doDate at h
  repeat' split at h
  all_goals first
    | (simp [exc] at h; done)
    | (simp at h; exact Or.inl h.symm)
    | (simp at h; exact Or.inr ⟨_, h.symm⟩)

theorem doDate_float (P : Prim) (dt : Bool) (f : F) (b : Bool) :
    doDate P dt (.float f b) = .ok (.float f false) := by
  simp [doDate, isEmptyOrNone, isNumeric, pyFloat]

theorem doDate_fix (P : Prim) (dt : Bool) (v r : PyVal) (h : doDate P dt v = .ok r) :
    doDate P dt r = .ok r := by
  rcases doDate_result P dt v r h with h1 | ⟨f, h1⟩
  · subst h1; simp [doDate, isEmptyOrNone]
  · subst h1; exact doDate_float P dt f false

/-! ### Id / Ref -/

theorem doId_result (v r : PyVal) (h : doId v = .ok r) : ∃ n, r = .int n false ∧ isShort n = true := by
  unfold doId at h
  repeat' split at h
  all_goals first
    | (simp [exc] at h; done)
    | (simp at h; exact ⟨0, h.symm, by decide⟩)
    | (simp at h; exact ⟨_, h.symm, by assumption⟩)

theorem doId_int (n : Int) (h : isShort n = true) : doId (.int n false) = .ok (.int n false) := by
  unfold doId
  by_cases h0 : n = 0
  · subst h0; simp [truthy]
  · have hne : (n != 0) = true := by simp [h0]
    simp [truthy, hne, idInt, h]

theorem doId_fix (v r : PyVal) (h : doId v = .ok r) : doId r = .ok r := by
  obtain ⟨n, h1, hs⟩ := doId_result v r h
  subst h1; exact doId_int n hs

/-! ### ChoiceList -/

theorem strsOf_strs (P : Prim) (ss : List Str) :
    strsOf P (ss.map (fun x => PyVal.str x false)) = some ss := by
  induction ss with
  | nil => simp [strsOf]
  | cons x xs ih => simp [strsOf, pyStr, ih]

theorem strsOf_length (P : Prim) : ∀ (items : List PyVal) (ss : List Str),
    strsOf P items = some ss → ss.length = items.length := by
  intro items
  induction items with
  | nil => intro ss h; simp [strsOf] at h; subst h; rfl
  | cons x xs ih =>
    intro ss h
    simp only [strsOf] at h
    split at h
    · rename_i s ss' _ h2
      simp at h; subst h
      simp [ih ss' h2]
    · simp at h

theorem truthy_iter_nonempty (v : PyVal) (items : List PyVal) (ht : truthy v = some true)
    (hi : pyIter v = .ok items) : items ≠ [] := by
  intro hnil
  subst hnil
  cases v <;> simp_all [truthy, pyIter, exc]

/-- a tuple of exact strings, as ChoiceList builds it -/
def strTuple (P : Prim) (ss : List Str) : PyVal :=
  .tuple (P.tupleMeta (ss.map (fun x => PyVal.str x false))) (ss.map (fun x => PyVal.str x false))

theorem doChoiceList_tuple (P : Prim) (ss : List Str) (h : ss ≠ []) :
    doChoiceList P (strTuple P ss) = .ok (strTuple P ss) := by
  cases ss with
  | nil => exact absurd rfl h
  | cons x xs =>
    have := strsOf_strs P (x :: xs)
    simp only [List.map_cons] at this
    simp [doChoiceList, strTuple, truthy, pyIter, this]

/-- the one ChoiceList input whose result is an EMPTY tuple: text that parses as an empty JSON list -/
def EmptyJson (P : Prim) (v : PyVal) : Prop :=
  ∃ s sub parsed, v = .str s sub ∧ startsBracket s = true ∧ P.jsonLoads s = some parsed ∧
    pyIter parsed = .ok []

theorem doChoiceList_result (P : Prim) (v r : PyVal) (h : doChoiceList P v = .ok r) :
    r = .none ∨ (r = v ∧ v.isStr = true) ∨
    ∃ ss, r = strTuple P ss ∧ (ss = [] → EmptyJson P v) := by
  unfold doChoiceList at h
  split at h
  · simp [exc] at h
  · simp at h; exact Or.inl h.symm
  · rename_i ht
    split at h
    · -- str
      rename_i s sub
      split at h
      · rename_i hb
        split at h
        · rename_i parsed hp
          split at h
          · rename_i items hit
            split at h
            · rename_i ss hss
              simp at h
              refine Or.inr (Or.inr ⟨ss, h.symm, ?_⟩)
              intro hnil
              subst hnil
              have hl := strsOf_length P items [] hss
              have : items = [] := by
                cases items with
                | nil => rfl
                | cons a as => simp at hl
              subst this
              exact ⟨s, sub, parsed, rfl, hb, hp, hit⟩
            · simp at h; exact Or.inr (Or.inl ⟨h.symm, rfl⟩)
          · simp at h; exact Or.inr (Or.inl ⟨h.symm, rfl⟩)
        · simp at h; exact Or.inr (Or.inl ⟨h.symm, rfl⟩)
      · simp at h; exact Or.inr (Or.inl ⟨h.symm, rfl⟩)
    · -- anything else: iterate
      split at h
      · simp at h
      · rename_i items hit
        split at h
        · rename_i ss hss
          simp at h
          refine Or.inr (Or.inr ⟨ss, h.symm, ?_⟩)
          intro hnil
          subst hnil
          have hl := strsOf_length P items [] hss
          have hne' := truthy_iter_nonempty _ items ht hit
          cases items with
          | nil => exact absurd rfl hne'
          | cons a as => simp at hl
        · simp [exc] at h

theorem doChoiceList_fix (P : Prim) (v r : PyVal) (h : doChoiceList P v = .ok r)
    (hne : ¬ EmptyJson P v) : doChoiceList P r = .ok r := by
  rcases doChoiceList_result P v r h with h1 | ⟨h1, _⟩ | ⟨ss, h1, hss⟩
  · subst h1; simp [doChoiceList, truthy]
  · subst h1; exact h
  · subst h1; exact doChoiceList_tuple P ss (fun hnil => hne (hss hnil))

theorem allStr_strs (ss : List Str) : allStr (ss.map (fun x => PyVal.str x false)) = true := by
  induction ss with
  | nil => rfl
  | cons x xs ih => simp [allStr, PyVal.isStr, ih]

/-! ### RefList / Attachments -/

/-- a list of exact 32-bit ints -/
def IntList (rs : List PyVal) : Prop := ∀ r ∈ rs, ∃ n, r = PyVal.int n false ∧ isShort n = true

theorem idsOf_result : ∀ (items rs : List PyVal), idsOf items = .ok rs →
    IntList rs ∧ rs.length = items.length := by
  intro items
  induction items with
  | nil => intro rs h; simp [idsOf] at h; subst h; exact ⟨by intro r hr; simp at hr, rfl⟩
  | cons x xs ih =>
    intro rs h
    simp only [idsOf] at h
    split at h
    · rename_i r rs' h1 h2
      simp at h; subst h
      obtain ⟨hi, hl⟩ := ih rs' h2
      refine ⟨?_, by simp [hl]⟩
      intro y hy
      simp at hy
      rcases hy with hy | hy
      · subst hy; exact doId_result x y h1
      · exact hi y hy
    · simp at h
    · simp at h

theorem idsOf_fix : ∀ rs : List PyVal, IntList rs → idsOf rs = .ok rs := by
  intro rs
  induction rs with
  | nil => intro _; simp [idsOf]
  | cons x xs ih =>
    intro h
    obtain ⟨n, hx, hs⟩ := h x (by simp)
    subst hx
    have hxs : IntList xs := fun r hr => h r (by simp [hr])
    simp [idsOf, doId_int n hs, ih hxs]

theorem recordSetsIds_posint (tid : Str) (x : PyVal) (xs : List PyVal) (h : isPosInt x = true) :
    recordSetsIds tid (x :: xs) = none := by
  cases x <;> simp_all [isPosInt, recordSetsIds]

theorem recordSetsIds_int (tid : Str) (n : Int) (b : Bool) (xs : List PyVal) :
    recordSetsIds tid (.int n b :: xs) = none := by
  simp [recordSetsIds]

theorem refListPre_nonstr (P : Prim) (v : PyVal) (h : v.isStr = false) : refListPre P v = v := by
  cases v <;> simp_all [refListPre, PyVal.isStr]

theorem doRefListCore_intlist (P : Prim) (tid : Str) (rs : List PyVal) (hne : rs ≠ [])
    (h : IntList rs) :
    doRefListCore P tid (.list (P.listMeta rs) rs) = .ok (.list (P.listMeta rs) rs) := by
  cases rs with
  | nil => exact absurd rfl hne
  | cons x xs =>
    obtain ⟨n, hx, _⟩ := h x (by simp)
    subst hx
    have := idsOf_fix _ h
    simp [doRefListCore, truthy, flatIds, recordSetsIds_int, pyIter, this]

theorem doRefList_intlist (P : Prim) (tid : Str) (rs : List PyVal) (hne : rs ≠ []) (h : IntList rs) :
    doRefList P tid (.list (P.listMeta rs) rs) = .ok (.list (P.listMeta rs) rs) := by
  unfold doRefList
  rw [refListPre_nonstr P _ rfl]
  exact doRefListCore_intlist P tid rs hne h

theorem dedup_subset : ∀ (l : List Int) (x : Int), x ∈ dedup l → x ∈ l := by
  intro l
  induction l with
  | nil => intro x h; simp [dedup] at h
  | cons a as ih =>
    intro x h
    simp only [dedup, List.mem_cons, List.mem_filter] at h
    rcases h with h | h
    · simp [h]
    · simp [ih x h.1]

/-- what `refListPre` can produce -/
theorem refListPre_cases (P : Prim) (v : PyVal) :
    refListPre P v = v ∨
    (∃ m xs, refListPre P v = .list m xs ∧ xs.all isPosInt = true) ∨
    (∃ rows, refListPre P v = .recordList rows ['N','o','n','e'] ['N','o','n','e']) := by
  unfold refListPre
  split
  · split
    · split
      · split
        · rename_i m xs _ hall
          exact Or.inr (Or.inl ⟨m, xs, rfl, hall⟩)
        · exact Or.inl rfl
      · exact Or.inl rfl
    · split
      · rename_i rows _
        exact Or.inr (Or.inr ⟨rows, rfl⟩)
      · exact Or.inl rfl
  · exact Or.inl rfl

/-- RefList inputs on which re-conversion is not the identity: a RecordSet of the column's table
    (gives a RecordList, which is then read as a plain list, or None when empty), and a non-empty
    list of RecordSets of the table that contain no record at all (gives [], then None). -/
def RefDegenerate (tid : Str) (v : PyVal) : Prop :=
  (∃ rows tup ids gb sb, v = .recordSet tid rows tup ids gb sb) ∨
  (∃ m xs ids, v = .list m xs ∧ recordSetsIds tid xs = some ids ∧ dedup ids = [])

/-- the row ids (`rec.id`) of RecordSets inside a list are 32-bit (true of every real table) -/
def RowIdsShort (v : PyVal) : Prop :=
  ∀ m xs tid ids, v = .list m xs → recordSetsIds tid xs = some ids → ∀ i ∈ ids, isShort i = true

theorem doRefListCore_result (P : Prim) (tid : Str) (v v1 r : PyVal)
    (hv1 : v1 = v ∨ (∃ m xs, v1 = .list m xs ∧ xs.all isPosInt = true) ∨
           (∃ rows, v1 = .recordList rows ['N','o','n','e'] ['N','o','n','e']))
    (h : doRefListCore P tid v1 = .ok r) (hs : RowIdsShort v) :
    (∃ rows gb sb, r = .recordList rows gb sb ∧ RefDegenerate tid v) ∨ r = .none ∨
    ∃ rs, r = .list (P.listMeta rs) rs ∧ IntList rs ∧ (rs = [] → RefDegenerate tid v) := by
  unfold doRefListCore at h
  split at h
  · -- v1 is a RecordSet: then v1 = v
    rename_i t rows tup ids gb sb
    split at h
    · rename_i ht
      rcases hv1 with hv | ⟨m, xs, hv, _⟩ | ⟨rows', hv⟩
      · subst ht
        simp at h
        exact Or.inl ⟨rows, gb, sb, h.symm, Or.inl ⟨rows, tup, ids, gb, sb, hv.symm⟩⟩
      · simp at hv
      · simp at hv
    · simp [exc] at h
  · split at h
    · simp [exc] at h
    · simp at h; exact Or.inr (Or.inl h.symm)
    · rename_i ht
      split at h
      · -- flattened RecordSets
        rename_i ids hflat
        simp at h; subst h
        unfold flatIds at hflat
        split at hflat
        · rename_i m xs _
          rcases hv1 with hv | ⟨m', xs', hv, hall⟩ | ⟨rows', hv⟩
          · refine Or.inr (Or.inr ⟨_, rfl, ?_, ?_⟩)
            · intro r hr
              simp only [List.mem_map] at hr
              obtain ⟨i, hi, hri⟩ := hr
              exact ⟨i, hri.symm, hs m xs tid ids hv.symm hflat i (dedup_subset ids i hi)⟩
            · intro hnil
              exact Or.inr ⟨m, xs, ids, hv.symm, hflat, by simpa using hnil⟩
          · simp at hv
            obtain ⟨_, hxs⟩ := hv
            subst hxs
            cases xs with
            | nil => simp [truthy] at ht
            | cons a as =>
              simp only [List.all_cons, Bool.and_eq_true] at hall
              rw [recordSetsIds_posint tid a as hall.1] at hflat
              simp at hflat
          · simp at hv
        · simp at hflat
      · split at h
        · simp at h
        · rename_i items hit
          split at h
          · simp at h
          · rename_i rs hrs
            simp at h; subst h
            obtain ⟨hil, hlen⟩ := idsOf_result items rs hrs
            have hne := truthy_iter_nonempty _ items ht hit
            refine Or.inr (Or.inr ⟨rs, rfl, hil, ?_⟩)
            intro hnil; subst hnil
            cases items with
            | nil => exact absurd rfl hne
            | cons a as => simp at hlen

theorem doRefList_result (P : Prim) (tid : Str) (v r : PyVal) (h : doRefList P tid v = .ok r)
    (hs : RowIdsShort v) :
    (∃ rows gb sb, r = .recordList rows gb sb ∧ RefDegenerate tid v) ∨ r = .none ∨
    ∃ rs, r = .list (P.listMeta rs) rs ∧ IntList rs ∧ (rs = [] → RefDegenerate tid v) :=
  doRefListCore_result P tid v (refListPre P v) r (refListPre_cases P v) h hs

theorem doRefList_fix (P : Prim) (tid : Str) (v r : PyVal) (h : doRefList P tid v = .ok r)
    (hd : ¬ RefDegenerate tid v) (hs : RowIdsShort v) : doRefList P tid r = .ok r := by
  rcases doRefList_result P tid v r h hs with ⟨_, _, _, _, hdeg⟩ | h1 | ⟨rs, h1, hil, hne⟩
  · exact absurd hdeg hd
  · subst h1; simp [doRefList, refListPre, doRefListCore, truthy]
  · subst h1; exact doRefList_intlist P tid rs (fun hnil => hd (hne hnil)) hil

theorem all_isRefId (rs : List PyVal) (h : IntList rs) : rs.all isRefId = true := by
  rw [List.all_eq_true]
  intro r hr
  obtain ⟨n, hn, hs⟩ := h r hr
  subst hn; simpa [isRefId] using hs

/-! ### a `str` subclass instance fails exactly when the plain string fails -/

theorem doRefListCore_str (P : Prim) (tid : Str) (s : Str) (b : Bool) :
    doRefListCore P tid (.str s b) = doRefListCore P tid (.str s false) := by
  simp [doRefListCore, truthy, flatIds, pyIter]

theorem doRefList_str (P : Prim) (tid : Str) (s : Str) (b : Bool) :
    doRefList P tid (.str s b) = doRefList P tid (.str s false) := by
  simp only [doRefList, refListPre]
  split
  · split
    · split
      · rfl
      · exact doRefListCore_str P tid s b
    · exact doRefListCore_str P tid s b
  · split
    · rfl
    · exact doRefListCore_str P tid s b

theorem doChoiceList_str_ok (P : Prim) (s : Str) (b : Bool) : ∃ r, doChoiceList P (.str s b) = .ok r := by
  unfold doChoiceList
  split
  · rename_i h; simp [truthy] at h
  · exact ⟨_, rfl⟩
  · split
    · repeat' split
      all_goals exact ⟨_, rfl⟩
    · rename_i h; exact absurd rfl (h s b)

theorem doConvert_str_error (P : Prim) (τ : ColType) (s : Str) (b : Bool) (e : Str)
    (h : doConvert P τ (.str s b) = .error e) : doConvert P τ (.str s false) = .error e := by
  cases τ
  case text => simp [doConvert, doText_str] at h
  case choice => simp [doConvert, doText_str] at h
  case blob => simp [doConvert] at h
  case any => simp [doConvert] at h
  case bool =>
    have : doBool (.str s b) = doBool (.str s false) := by simp [doBool, truthy, isNumeric, boolText]
    simpa [doConvert, this] using h
  case int =>
    have : doInt P (.str s b) = doInt P (.str s false) := by simp [doInt, isEmptyOrNone, pyFloat]
    simpa [doConvert, this] using h
  case numeric =>
    have : ∀ d, doNumeric P d (.str s b) = doNumeric P d (.str s false) := by
      intro d; simp [doNumeric, isEmptyOrNone, pyFloat]
    simpa [doConvert, this] using h
  case positionNumber =>
    have : ∀ d, doNumeric P d (.str s b) = doNumeric P d (.str s false) := by
      intro d; simp [doNumeric, isEmptyOrNone, pyFloat]
    simpa [doConvert, this] using h
  case manualSortPos =>
    have : ∀ d, doNumeric P d (.str s b) = doNumeric P d (.str s false) := by
      intro d; simp [doNumeric, isEmptyOrNone, pyFloat]
    simpa [doConvert, this] using h
  case date =>
    have : doDate P false (.str s b) = doDate P false (.str s false) := by simp [doDate, isEmptyOrNone]
    simpa [doConvert, this] using h
  case dateTime =>
    have : doDate P true (.str s b) = doDate P true (.str s false) := by simp [doDate, isEmptyOrNone]
    simpa [doConvert, this] using h
  case choiceList =>
    obtain ⟨r, hr⟩ := doChoiceList_str_ok P s b
    simp [doConvert, hr] at h
  case id =>
    have : doId (.str s b) = doId (.str s false) := by simp [doId, truthy, idInt]
    simpa [doConvert, this] using h
  case ref =>
    have : doId (.str s b) = doId (.str s false) := by simp [doId, truthy, idInt]
    simpa [doConvert, this] using h
  case refList t => simpa [doConvert, doRefList_str P t s b] using h
  case attachments => simpa [doConvert, doRefList_str P _ s b] using h

end Grist.PyVal
