/-
Helper lemmas for GristProps/C12.lean (model: GristModel/SummaryModel.lean).
-/
import GristModel.SummaryModel
import GristProofs.SortedFind
namespace Grist.SummaryModel
open Grist.SortedFind (pySorted pySorted_perm pySorted_pairwise)

/-! ### Part A: keys -/

theorem mem_dedup {a : Val} : ∀ {l : List Val}, a ∈ dedup l ↔ a ∈ l := by
  intro l
  induction l with
  | nil => simp [dedup]
  | cons x xs ih =>
    simp only [dedup]
    split
    · rename_i h
      rw [ih, List.mem_cons]
      constructor
      · intro h'; exact Or.inr h'
      · intro h'
        rcases h' with h' | h'
        · subst h'; exact ih.mp h
        · exact h'
    · rw [List.mem_cons, List.mem_cons, ih]

theorem nodup_dedup : ∀ (l : List Val), (dedup l).Nodup := by
  intro l
  induction l with
  | nil => simp [dedup]
  | cons x xs ih =>
    simp only [dedup]
    split
    · exact ih
    · rename_i h
      exact List.nodup_cons.mpr ⟨h, ih⟩

theorem nodup_cellKeys (c : Cell) : (cellKeys c).Nodup := by
  cases c with
  | scalar v => simp [cellKeys]
  | choices vs => simp only [cellKeys]; split <;> simp [nodup_dedup]
  | refs vs => simp only [cellKeys]; split <;> simp [nodup_dedup]
  | other => simp [cellKeys]

/-- A key is in the product iff it picks one element from each factor, position by position. -/
def KeyIn : Key → List (List Val) → Prop
  | [], [] => True
  | v :: k, l :: ls => v ∈ l ∧ KeyIn k ls
  | _, _ => False

theorem mem_product : ∀ {ls : List (List Val)} {k : Key}, k ∈ product ls ↔ KeyIn k ls := by
  intro ls
  induction ls with
  | nil => intro k; cases k <;> simp [product, KeyIn]
  | cons l ls ih =>
    intro k
    simp only [product, List.mem_flatMap, List.mem_map]
    cases k with
    | nil => simp [KeyIn]
    | cons v k =>
      simp only [KeyIn]
      constructor
      · rintro ⟨x, hx, k', hk', heq⟩
        injection heq with h1 h2
        subst h1; subst h2
        exact ⟨hx, ih.mp hk'⟩
      · rintro ⟨hv, hk⟩
        exact ⟨v, hv, k, ih.mpr hk, rfl⟩

theorem nodup_product : ∀ {ls : List (List Val)}, (∀ l ∈ ls, l.Nodup) → (product ls).Nodup := by
  intro ls
  induction ls with
  | nil => intro _; simp [product]
  | cons l ls ih =>
    intro h
    have hl : l.Nodup := h l (by simp)
    have hr : (product ls).Nodup := ih (fun l' hl' => h l' (by simp [hl']))
    simp only [product]
    unfold List.Nodup
    rw [List.pairwise_flatMap]
    constructor
    · intro a _
      exact List.Pairwise.map _ (fun x y hxy heq => hxy (by injection heq)) hr
    · exact List.Pairwise.imp (fun {a b} hab x hx y hy heq => by
        simp only [List.mem_map] at hx hy
        obtain ⟨_, _, rfl⟩ := hx
        obtain ⟨_, _, rfl⟩ := hy
        injection heq with h1 _
        exact hab h1) hl

/-- `keysOf_distinct` -/
theorem nodup_keysOf (cells : List Cell) : (keysOf cells).Nodup := by
  unfold keysOf
  apply nodup_product
  intro l hl
  simp only [List.mem_map] at hl
  obtain ⟨c, _, rfl⟩ := hl
  exact nodup_cellKeys c

theorem product_nil_of_mem : ∀ {ls : List (List Val)}, [] ∈ ls → product ls = [] := by
  intro ls
  induction ls with
  | nil => intro h; simp at h
  | cons l ls ih =>
    intro h
    simp only [product]
    rcases List.mem_cons.mp h with h | h
    · subst h; simp
    · rw [ih h]; simp

theorem allLookupValues_some : ∀ {cells : List Cell} {lvs : List (List Val)},
    allLookupValues cells = some lvs → lvs = cells.map cellKeys := by
  intro cells
  induction cells with
  | nil => intro lvs h; simp [allLookupValues] at h; simp [h]
  | cons c cs ih =>
    intro lvs h
    simp only [allLookupValues] at h
    cases hc : lookupValues c with
    | none => simp [hc] at h
    | some l =>
      simp only [hc] at h
      cases hcs : allLookupValues cs with
      | none => simp [hcs] at h
      | some ls =>
        simp only [hcs, Option.map_some, Option.some.injEq] at h
        subst h
        have := ih hcs
        subst this
        simp only [List.map_cons, List.cons.injEq, and_true]
        cases c <;> simp_all [lookupValues, cellKeys]

theorem allLookupValues_none : ∀ {cells : List Cell},
    allLookupValues cells = none → keysOf cells = [] := by
  intro cells
  induction cells with
  | nil => intro h; simp [allLookupValues] at h
  | cons c cs ih =>
    intro h
    simp only [allLookupValues] at h
    unfold keysOf
    apply product_nil_of_mem
    cases hc : lookupValues c with
    | none =>
      cases c <;> simp_all [lookupValues, cellKeys]
    | some l =>
      simp only [hc] at h
      cases hcs : allLookupValues cs with
      | none =>
        have h2 := ih hcs
        -- some factor of the tail is empty
        have : ∃ c' ∈ cs, cellKeys c' = [] := by
          clear ih h h2 hc
          induction cs with
          | nil => simp [allLookupValues] at hcs
          | cons d ds ihd =>
            simp only [allLookupValues] at hcs
            cases hd : lookupValues d with
            | none => exact ⟨d, by simp, by cases d <;> simp_all [lookupValues, cellKeys]⟩
            | some l' =>
              simp only [hd] at hcs
              cases hds : allLookupValues ds with
              | none =>
                obtain ⟨c', hc', he⟩ := ihd hds
                exact ⟨c', by simp [hc'], he⟩
              | some ls' => simp [hds] at hcs
        obtain ⟨c', hc', he⟩ := this
        simp only [List.map_cons, List.mem_cons, List.mem_map]
        exact Or.inr ⟨c', hc', he⟩
      | some ls => simp [hcs] at h

/-- The keys the helper formula iterates over: `sorted(product(..))`, or nothing after `return []`. -/
def codeKeys (cells : List Cell) : List Key :=
  match allLookupValues cells with
  | none => []
  | some lvs => sortedProduct lvs

theorem codeKeys_perm (cells : List Cell) : (codeKeys cells).Perm (keysOf cells) := by
  unfold codeKeys
  cases h : allLookupValues cells with
  | none => simp [allLookupValues_none h]
  | some lvs =>
    have := allLookupValues_some h
    subst this
    simp only [sortedProduct, keysOf]
    exact pySorted_perm _ _

theorem mem_codeKeys {cells : List Cell} {k : Key} : k ∈ codeKeys cells ↔ k ∈ keysOf cells :=
  (codeKeys_perm cells).mem_iff

theorem nodup_codeKeys (cells : List Cell) : (codeKeys cells).Nodup :=
  (codeKeys_perm cells).nodup_iff.mpr (nodup_keysOf cells)

theorem keysOf_simple : ∀ {cells : List Cell}, rowSimple cells = true →
    keysOf cells = [simpleKey cells] := by
  intro cells
  induction cells with
  | nil => intro _; simp [keysOf, product, simpleKey]
  | cons c cs ih =>
    intro h
    simp only [rowSimple, List.all_cons, Bool.and_eq_true] at h
    have ih' := ih (by simpa [rowSimple] using h.2)
    cases c with
    | scalar v =>
      unfold keysOf at ih' ⊢
      simp [product, cellKeys, ih', simpleKey]
    | choices vs => simp at h
    | refs vs => simp at h
    | other => simp at h


/-! ### Part B: one evaluation of the helper formula -/

theorem le_maxId : ∀ {sum : List SumRow} {s : SumRow}, s ∈ sum → s.id ≤ maxId sum := by
  intro sum
  induction sum with
  | nil => intro s h; simp at h
  | cons x xs ih =>
    intro s h
    simp only [maxId]
    rcases List.mem_cons.mp h with h | h
    · subst h; exact Nat.le_max_left _ _
    · exact Nat.le_trans (ih h) (Nat.le_max_right _ _)

theorem maxId_append : ∀ (a b : List SumRow), maxId (a ++ b) = max (maxId a) (maxId b) := by
  intro a b
  induction a with
  | nil => simp [maxId]
  | cons x xs ih => simp only [List.cons_append, maxId, ih]; omega

theorem lookupOne_some {sum : List SumRow} {k : Key} {i : Nat} (h : lookupOne sum k = some i) :
    ∃ s ∈ sum, s.key = k ∧ s.id = i := by
  unfold lookupOne at h
  cases hf : sum.find? (fun s => decide (s.key = k)) with
  | none => simp [hf] at h
  | some s =>
    simp only [hf, Option.map_some, Option.some.injEq] at h
    exact ⟨s, List.mem_of_find?_eq_some hf, by simpa using List.find?_some hf, h⟩

theorem lookupOne_none {sum : List SumRow} {k : Key} :
    lookupOne sum k = none ↔ k ∉ sum.map (·.key) := by
  unfold lookupOne
  simp only [Option.map_eq_none_iff, List.find?_eq_none, decide_eq_true_eq, List.mem_map, not_exists,
    not_and]

theorem lookupOne_of_mem : ∀ {sum : List SumRow} {s : SumRow}, (sum.map (·.key)).Nodup → s ∈ sum →
    lookupOne sum s.key = some s.id := by
  intro sum
  induction sum with
  | nil => intro s _ h; simp at h
  | cons x xs ih =>
    intro s hn hs
    simp only [List.map_cons, List.nodup_cons] at hn
    unfold lookupOne
    simp only [List.find?_cons]
    by_cases hx : x.key = s.key
    · simp only [hx, decide_true, Option.map_some, Option.some.injEq]
      rcases List.mem_cons.mp hs with h | h
      · rw [h]
      · exfalso; apply hn.1; rw [hx]; exact List.mem_map.mpr ⟨s, h, rfl⟩
    · simp only [hx, decide_false]
      rcases List.mem_cons.mp hs with h | h
      · exfalso; apply hx; rw [h]
      · exact ih hn.2 h

theorem addRows_spec : ∀ (ks : List Key) (sum : List SumRow),
    ∃ add, (addRows sum ks).1 = sum ++ add ∧ add.map (·.key) = ks ∧
      add.map (·.id) = (addRows sum ks).2 ∧ (∀ a ∈ add, maxId sum < a.id) ∧
      (add.map (·.id)).Pairwise (· < ·) := by
  intro ks
  induction ks with
  | nil => intro sum; exact ⟨[], by simp [addRows]⟩
  | cons k ks ih =>
    intro sum
    obtain ⟨add', h1, h2, h3, h4, h5⟩ := ih (sum ++ [⟨maxId sum + 1, k, []⟩])
    have hmax : maxId (sum ++ [⟨maxId sum + 1, k, []⟩]) = maxId sum + 1 := by
      rw [maxId_append]; simp [maxId]
    refine ⟨⟨maxId sum + 1, k, []⟩ :: add', ?_, ?_, ?_, ?_, ?_⟩
    · simp only [addRows]; rw [h1]; simp
    · simp [h2]
    · simp only [addRows, List.map_cons]; rw [h3]
    · intro a ha
      rcases List.mem_cons.mp ha with ha | ha
      · subst ha; simp
      · have := h4 a ha; rw [hmax] at this; omega
    · simp only [List.map_cons, List.pairwise_cons]
      refine ⟨?_, h5⟩
      intro i hi
      obtain ⟨a, ha, rfl⟩ := List.mem_map.mp hi
      have := h4 a ha; rw [hmax] at this; exact this

/-- What one evaluation of `_updateSummary` for a source row with cells `cells` achieves. -/
structure UpdSpec (sum : List SumRow) (cells : List Cell) (sum' : List SumRow) (ids : List Nat) :
    Prop where
  added : ∃ add, sum' = sum ++ add ∧
    (∀ a ∈ add, a.key ∈ keysOf cells ∧ a.key ∉ sum.map (·.key) ∧ maxId sum < a.id) ∧
    (add.map (·.key)).Nodup ∧ (add.map (·.id)).Nodup
  covers : ∀ k ∈ keysOf cells, k ∈ sum'.map (·.key)
  ids_iff : ∀ sid, sid ∈ ids ↔ ∃ s ∈ sum', s.id = sid ∧ s.key ∈ keysOf cells

theorem updateSummarySimple_some {sum : List SumRow} {cells : List Cell} {i : Nat}
    (h : lookupOne sum (simpleKey cells) = some i) :
    updateSummarySimple false sum cells = (sum, [i]) := by
  simp [updateSummarySimple, h]

theorem updateSummarySimple_none {sum : List SumRow} {cells : List Cell}
    (h : lookupOne sum (simpleKey cells) = none) :
    updateSummarySimple false sum cells =
      (sum ++ [⟨maxId sum + 1, simpleKey cells, []⟩], [maxId sum + 1]) := by
  simp [updateSummarySimple, h]

theorem updateSummarySimple_spec {sum : List SumRow} {cells : List Cell}
    (hs : rowSimple cells = true) (hn : (sum.map (·.key)).Nodup) :
    UpdSpec sum cells (updateSummarySimple false sum cells).1 (updateSummarySimple false sum cells).2 := by
  have hk := keysOf_simple hs
  cases hl : lookupOne sum (simpleKey cells) with
  | some i =>
    rw [updateSummarySimple_some hl]
    obtain ⟨s, hs1, hs2, hs3⟩ := lookupOne_some hl
    refine ⟨⟨[], by simp⟩, ?_, ?_⟩
    · intro k hk'
      rw [hk] at hk'
      simp only [List.mem_singleton] at hk'
      subst hk'
      exact List.mem_map.mpr ⟨s, hs1, hs2⟩
    · intro sid
      simp only [List.mem_singleton, hk]
      constructor
      · intro h; subst h; exact ⟨s, hs1, hs3, hs2⟩
      · rintro ⟨s', h1, h2, h3⟩
        have := lookupOne_of_mem hn h1
        rw [h3, hl] at this
        injection this with this
        omega
  | none =>
    have hnot := lookupOne_none.mp hl
    rw [updateSummarySimple_none hl]
    refine ⟨⟨[⟨maxId sum + 1, simpleKey cells, []⟩], rfl, ?_, by simp, by simp⟩, ?_, ?_⟩
    · intro a ha
      simp only [List.mem_singleton] at ha
      subst ha
      exact ⟨by simp [hk], hnot, by simp⟩
    · intro k hk'
      rw [hk] at hk'
      simp only [List.mem_singleton] at hk'
      subst hk'
      simp
    · intro sid
      simp only [List.mem_singleton, hk, List.mem_append]
      constructor
      · intro h; subst h; exact ⟨_, Or.inr rfl, rfl, rfl⟩
      · rintro ⟨s', h1, h2, h3⟩
        rcases h1 with h1 | h1
        · exfalso; apply hnot; rw [← h3]; exact List.mem_map.mpr ⟨s', h1, rfl⟩
        · subst h1; exact h2.symm

theorem updateSummaryList_eq (sum : List SumRow) (cells : List Cell) :
    updateSummaryList false sum cells =
      ((addRows sum ((codeKeys cells).filter (fun k => (lookupOne sum k).isNone))).1,
       (codeKeys cells).filterMap (lookupOne sum) ++
         (addRows sum ((codeKeys cells).filter (fun k => (lookupOne sum k).isNone))).2) := by
  unfold updateSummaryList codeKeys
  cases h : allLookupValues cells with
  | none => simp [addRows]
  | some lvs =>
    simp only [Bool.or_false]
    split
    · rename_i he
      rw [List.isEmpty_iff] at he
      rw [he]; simp [addRows]
    · rfl

theorem updateSummaryList_spec {sum : List SumRow} {cells : List Cell}
    (hn : (sum.map (·.key)).Nodup) :
    UpdSpec sum cells (updateSummaryList false sum cells).1 (updateSummaryList false sum cells).2 := by
  rw [updateSummaryList_eq]
  obtain ⟨add, h1, h2, h3, h4, h5⟩ :=
    addRows_spec ((codeKeys cells).filter (fun k => (lookupOne sum k).isNone)) sum
  have hmem : ∀ a ∈ add, a.key ∈ keysOf cells ∧ a.key ∉ sum.map (·.key) := by
    intro a ha
    have : a.key ∈ (codeKeys cells).filter (fun k => (lookupOne sum k).isNone) := by
      rw [← h2]; exact List.mem_map.mpr ⟨a, ha, rfl⟩
    rw [List.mem_filter] at this
    exact ⟨mem_codeKeys.mp this.1, lookupOne_none.mp (by simpa using this.2)⟩
  refine ⟨⟨add, h1, ?_, ?_, ?_⟩, ?_, ?_⟩
  · intro a ha; exact ⟨(hmem a ha).1, (hmem a ha).2, h4 a ha⟩
  · rw [h2]; exact (nodup_codeKeys cells).filter _
  · exact List.Pairwise.imp (fun h => Nat.ne_of_lt h) h5
  · intro k hk
    simp only [h1, List.map_append, List.mem_append]
    by_cases hin : k ∈ sum.map (·.key)
    · exact Or.inl hin
    · right
      rw [h2, List.mem_filter]
      exact ⟨mem_codeKeys.mpr hk, by simpa using lookupOne_none.mpr hin⟩
  · intro sid
    simp only [List.mem_append, List.mem_filterMap, h1]
    constructor
    · rintro (⟨k, hk, hl⟩ | h)
      · obtain ⟨s, hs1, hs2, hs3⟩ := lookupOne_some hl
        exact ⟨s, Or.inl hs1, hs3, by rw [hs2]; exact mem_codeKeys.mp hk⟩
      · rw [← h3] at h
        obtain ⟨a, ha, rfl⟩ := List.mem_map.mp h
        exact ⟨a, Or.inr ha, rfl, (hmem a ha).1⟩
    · rintro ⟨s, hs | hs, rfl, hk⟩
      · exact Or.inl ⟨s.key, mem_codeKeys.mpr hk, lookupOne_of_mem hn hs⟩
      · right; rw [← h3]; exact List.mem_map.mpr ⟨s, hs, rfl⟩

theorem updateSummary_spec {sum : List SumRow} {cells : List Cell}
    (hn : (sum.map (·.key)).Nodup) :
    UpdSpec sum cells (updateSummary false sum cells).1 (updateSummary false sum cells).2 := by
  unfold updateSummary
  split
  · rename_i h; exact updateSummarySimple_spec h hn
  · exact updateSummaryList_spec hn


/-! ### Part C: the loop over the dirtied source rows -/

theorem nodup_keys_append {sum add : List SumRow} (h1 : (sum.map (·.key)).Nodup)
    (h2 : (add.map (·.key)).Nodup) (h3 : ∀ a ∈ add, a.key ∉ sum.map (·.key)) :
    ((sum ++ add).map (·.key)).Nodup := by
  rw [List.map_append, List.nodup_append]
  refine ⟨h1, h2, ?_⟩
  intro k hk k' hk' heq
  obtain ⟨a, ha, rfl⟩ := List.mem_map.mp hk'
  exact h3 a ha (heq ▸ hk)

theorem nodup_ids_append {sum add : List SumRow} (h1 : (sum.map (·.id)).Nodup)
    (h2 : (add.map (·.id)).Nodup) (h3 : ∀ a ∈ add, maxId sum < a.id) :
    ((sum ++ add).map (·.id)).Nodup := by
  rw [List.map_append, List.nodup_append]
  refine ⟨h1, h2, ?_⟩
  intro i hi i' hi' heq
  obtain ⟨s, hs, rfl⟩ := List.mem_map.mp hi
  obtain ⟨a, ha, rfl⟩ := List.mem_map.mp hi'
  have := le_maxId hs
  have := h3 a ha
  omega

/-- Result of evaluating the helper formula for the rows `todo` in order, starting from table `sum0`. -/
structure FoldSpec (todo : List SrcRow) (sum0 : List SumRow) (acc0 : List (Nat × List Nat))
    (r : List SumRow × List (Nat × List Nat)) : Prop where
  ex : ∃ add fresh, r.1 = sum0 ++ add ∧ r.2 = acc0 ++ fresh ∧
    (∀ a ∈ add, (∃ t ∈ todo, a.key ∈ keysOf t.cells) ∧ a.key ∉ sum0.map (·.key) ∧ maxId sum0 < a.id) ∧
    fresh.map (·.1) = todo.map (·.id) ∧
    (∀ e ∈ fresh, ∃ t ∈ todo, t.id = e.1 ∧
      ∀ sid, sid ∈ e.2 ↔ ∃ s ∈ r.1, s.id = sid ∧ s.key ∈ keysOf t.cells)
  keys : (r.1.map (·.key)).Nodup
  ids : (r.1.map (·.id)).Nodup
  covers : ∀ t ∈ todo, ∀ k ∈ keysOf t.cells, k ∈ r.1.map (·.key)

theorem foldl_helperStep_spec : ∀ (todo : List SrcRow) (sum0 : List SumRow)
    (acc0 : List (Nat × List Nat)), (sum0.map (·.key)).Nodup → (sum0.map (·.id)).Nodup →
    FoldSpec todo sum0 acc0 (todo.foldl (helperStep false) (sum0, acc0)) := by
  intro todo
  induction todo with
  | nil =>
    intro sum0 acc0 hk hi
    exact ⟨⟨[], [], by simp, by simp, by simp, by simp, by simp⟩, by simpa using hk, by simpa using hi,
      by simp⟩
  | cons t ts ih =>
    intro sum0 acc0 hk hi
    have U := updateSummary_spec (sum := sum0) (cells := t.cells) hk
    obtain ⟨add1, hs1, ha1, hk1, hi1⟩ := U.added
    have hk' : ((updateSummary false sum0 t.cells).1.map (·.key)).Nodup := by
      rw [hs1]; exact nodup_keys_append hk hk1 (fun a ha => (ha1 a ha).2.1)
    have hi' : ((updateSummary false sum0 t.cells).1.map (·.id)).Nodup := by
      rw [hs1]; exact nodup_ids_append hi hi1 (fun a ha => (ha1 a ha).2.2)
    have IH := ih (updateSummary false sum0 t.cells).1
      (acc0 ++ [(t.id, (updateSummary false sum0 t.cells).2)]) hk' hi'
    have hfold : (t :: ts).foldl (helperStep false) (sum0, acc0) =
        ts.foldl (helperStep false) ((updateSummary false sum0 t.cells).1,
          acc0 ++ [(t.id, (updateSummary false sum0 t.cells).2)]) := by
      simp [List.foldl_cons, helperStep]
    rw [hfold]
    generalize ts.foldl (helperStep false) ((updateSummary false sum0 t.cells).1,
          acc0 ++ [(t.id, (updateSummary false sum0 t.cells).2)]) = r at IH ⊢
    obtain ⟨⟨add2, fresh2, hr1, hr2, ha2, hf2, he2⟩, hkN, hiN, hcN⟩ := IH
    have hsub : ∀ k, k ∈ (updateSummary false sum0 t.cells).1.map (·.key) → k ∈ r.1.map (·.key) := by
      intro k hk0; rw [hr1, List.map_append, List.mem_append]; exact Or.inl hk0
    refine ⟨⟨add1 ++ add2, (t.id, (updateSummary false sum0 t.cells).2) :: fresh2, ?_, ?_, ?_, ?_, ?_⟩,
      hkN, hiN, ?_⟩
    · rw [hr1, hs1, List.append_assoc]
    · rw [hr2, List.append_assoc]; rfl
    · intro a ha
      rcases List.mem_append.mp ha with ha | ha
      · exact ⟨⟨t, by simp, (ha1 a ha).1⟩, (ha1 a ha).2.1, (ha1 a ha).2.2⟩
      · obtain ⟨⟨t', ht', hkt'⟩, hn2, hm2⟩ := ha2 a ha
        refine ⟨⟨t', by simp [ht'], hkt'⟩, ?_, ?_⟩
        · intro hin; apply hn2; rw [hs1, List.map_append, List.mem_append]; exact Or.inl hin
        · rw [hs1, maxId_append] at hm2; omega
    · simp [hf2]
    · intro e he
      rcases List.mem_cons.mp he with he | he
      · subst he
        refine ⟨t, by simp, rfl, ?_⟩
        intro sid
        rw [U.ids_iff sid]
        constructor
        · rintro ⟨s, hs, h1, h2⟩
          exact ⟨s, by rw [hr1]; exact List.mem_append.mpr (Or.inl hs), h1, h2⟩
        · rintro ⟨s, hs, h1, h2⟩
          rw [hr1] at hs
          rcases List.mem_append.mp hs with hs | hs
          · exact ⟨s, hs, h1, h2⟩
          · exfalso
            exact (ha2 s hs).2.1 (U.covers _ h2)
      · obtain ⟨t', ht', hid, hiff⟩ := he2 e he
        exact ⟨t', by simp [ht'], hid, hiff⟩
    · intro t' ht' k hk0
      rcases List.mem_cons.mp ht' with h | h
      · subst h; exact hsub k (U.covers k hk0)
      · exact hcN t' h k hk0


/-! ### Part D: `group`, auto-removal, the whole bundle -/

theorem eq_of_map_eq {α β : Type} (f : α → β) : ∀ {l : List α}, (l.map f).Nodup →
    ∀ {a b : α}, a ∈ l → b ∈ l → f a = f b → a = b := by
  intro l
  induction l with
  | nil => intro _ a b ha; simp at ha
  | cons x xs ih =>
    intro hn a b ha hb hab
    simp only [List.map_cons, List.nodup_cons] at hn
    rcases List.mem_cons.mp ha with ha | ha <;> rcases List.mem_cons.mp hb with hb | hb
    · rw [ha, hb]
    · exfalso; apply hn.1; rw [← ha, hab]; exact List.mem_map.mpr ⟨b, hb, rfl⟩
    · exfalso; apply hn.1; rw [← hb, ← hab]; exact List.mem_map.mpr ⟨a, ha, rfl⟩
    · exact ih hn.2 ha hb hab

theorem nodup_map_filter {α β : Type} (f : α → β) (p : α → Bool) {l : List α}
    (h : (l.map f).Nodup) : ((l.filter p).map f).Nodup :=
  List.Nodup.sublist (List.Sublist.map f List.filter_sublist) h

theorem mem_sortAsc {l : List Nat} {i : Nat} : i ∈ sortAsc l ↔ i ∈ l := by
  unfold sortAsc; exact (pySorted_perm _ l).mem_iff

theorem sortAsc_sorted {l : List Nat} (h : l.Nodup) : (sortAsc l).Pairwise (· < ·) := by
  have h1 : (sortAsc l).Pairwise (fun a b => decide (b < a) = false) := by
    unfold sortAsc
    apply pySorted_pairwise
    · intro a b c _ _ _ hab hbc; simp only [decide_eq_true_eq] at *; omega
    · intro a b _ _ hab; simp only [decide_eq_true_eq, decide_eq_false_iff_not] at *; omega
  have h2 : (sortAsc l).Nodup := by
    unfold sortAsc; exact (pySorted_perm _ l).nodup_iff.mpr h
  have h3 := List.Pairwise.and h1 h2
  exact List.Pairwise.imp (fun {a b} hab => by
    have := hab.1; simp only [decide_eq_false_iff_not] at this
    have := hab.2; omega) h3

theorem mem_lookupGroup {helper : List (Nat × List Nat)} {sid i : Nat} :
    i ∈ lookupGroup helper sid ↔ ∃ e ∈ helper, e.1 = i ∧ sid ∈ e.2 := by
  unfold lookupGroup
  rw [mem_sortAsc, List.mem_map]
  constructor
  · rintro ⟨e, he, rfl⟩
    rw [List.mem_filter] at he
    exact ⟨e, he.1, rfl, by simpa using he.2⟩
  · rintro ⟨e, he, rfl, hs⟩
    exact ⟨e, List.mem_filter.mpr ⟨he, by simpa using hs⟩, rfl⟩

/-- `group_sorted` -/
theorem lookupGroup_sorted {helper : List (Nat × List Nat)} (h : (helper.map (·.1)).Nodup)
    (sid : Nat) : (lookupGroup helper sid).Pairwise (· < ·) := by
  unfold lookupGroup
  exact sortAsc_sorted (nodup_map_filter _ _ h)

theorem regroup_id (T : List Nat) (H : List (Nat × List Nat)) (s : SumRow) :
    (regroup T H s).id = s.id := by
  unfold regroup; split <;> rfl

theorem regroup_key (T : List Nat) (H : List (Nat × List Nat)) (s : SumRow) :
    (regroup T H s).key = s.key := by
  unfold regroup; split <;> rfl

theorem groupExact_nonempty {src : List SrcRow} {s : SumRow} (h : GroupExact src s)
    {r : SrcRow} (hr : r ∈ src) (hk : s.key ∈ keysOf r.cells) : s.group ≠ [] := by
  intro he
  have := (h.2 r.id).mpr ⟨r, hr, rfl, hk⟩
  rw [he] at this
  simp at this


theorem maintain_core (src src' : List SrcRow) (st : State) (dirty : List Nat)
    (r : List SumRow × List (Nat × List Nat))
    (hsrc' : (src'.map (·.id)).Nodup)
    (hclean : ∀ r0 : SrcRow, r0.id ∉ dirty → (r0 ∈ src ↔ r0 ∈ src'))
    (hex : SummaryExact src st.sum) (hh : HelperOk src st)
    (F : FoldSpec (todoRows src' dirty) st.sum [] r) :
    let H := keptHelper st dirty ++ r.2
    let T := (goneHelper st dirty ++ r.2).flatMap (·.2)
    let st' : State := ⟨H, (r.1.map (regroup T H)).filter (fun s => !marked T s)⟩
    SummaryExact src' st'.sum ∧ HelperOk src' st' := by
  intro H T st'
  obtain ⟨hkeys, hkeyset, hgroups⟩ := hex
  obtain ⟨⟨add, fresh, hr1, hr2, hadd, hfresh, hfval⟩, hk1, hi1, hcov⟩ := F
  simp only [List.nil_append] at hr2
  -- membership characterisations
  have mem_kept : ∀ e, e ∈ keptHelper st dirty ↔ e ∈ st.helper ∧ e.1 ∉ dirty := by
    intro e; simp [keptHelper, List.mem_filter]
  have mem_gone : ∀ e, e ∈ goneHelper st dirty ↔ e ∈ st.helper ∧ e.1 ∈ dirty := by
    intro e; simp [goneHelper, List.mem_filter]
  have mem_todo : ∀ t, t ∈ todoRows src' dirty ↔ t ∈ src' ∧ t.id ∈ dirty := by
    intro t; simp [todoRows, List.mem_filter]
  have clean_id : ∀ i, i ∉ dirty → (i ∈ src.map (·.id) ↔ i ∈ src'.map (·.id)) := by
    intro i hi
    constructor
    · intro h; obtain ⟨r0, hr0, rfl⟩ := List.mem_map.mp h
      exact List.mem_map.mpr ⟨r0, (hclean r0 hi).mp hr0, rfl⟩
    · intro h; obtain ⟨r0, hr0, rfl⟩ := List.mem_map.mp h
      exact List.mem_map.mpr ⟨r0, (hclean r0 hi).mpr hr0, rfl⟩
  have sub1 : ∀ s, s ∈ st.sum → s ∈ r.1 := by
    intro s hs; rw [hr1]; exact List.mem_append.mpr (Or.inl hs)
  -- D4: domain of the new helper column
  have Hdom : ∀ i, i ∈ H.map (·.1) ↔ i ∈ src'.map (·.id) := by
    intro i
    show i ∈ (keptHelper st dirty ++ r.2).map (·.1) ↔ _
    rw [List.map_append, List.mem_append, hr2, hfresh]
    by_cases hd : i ∈ dirty
    · constructor
      · rintro (h | h)
        · obtain ⟨e, he, rfl⟩ := List.mem_map.mp h
          exact absurd hd ((mem_kept e).mp he).2
        · obtain ⟨t, ht, rfl⟩ := List.mem_map.mp h
          exact List.mem_map.mpr ⟨t, ((mem_todo t).mp ht).1, rfl⟩
      · intro h
        obtain ⟨t, ht, rfl⟩ := List.mem_map.mp h
        exact Or.inr (List.mem_map.mpr ⟨t, (mem_todo t).mpr ⟨ht, hd⟩, rfl⟩)
    · constructor
      · rintro (h | h)
        · obtain ⟨e, he, rfl⟩ := List.mem_map.mp h
          exact (clean_id _ hd).mp ((hh.dom _).mp (List.mem_map.mpr ⟨e, ((mem_kept e).mp he).1, rfl⟩))
        · obtain ⟨t, ht, rfl⟩ := List.mem_map.mp h
          exact absurd ((mem_todo t).mp ht).2 hd
      · intro h
        have := (hh.dom i).mpr ((clean_id i hd).mpr h)
        obtain ⟨e, he, rfl⟩ := List.mem_map.mp this
        exact Or.inl (List.mem_map.mpr ⟨e, (mem_kept e).mpr ⟨he, hd⟩, rfl⟩)
  -- D5
  have Hnodup : (H.map (·.1)).Nodup := by
    show ((keptHelper st dirty ++ r.2).map (·.1)).Nodup
    rw [List.map_append, List.nodup_append, hr2, hfresh]
    refine ⟨nodup_map_filter _ _ hh.nodup, nodup_map_filter _ _ hsrc', ?_⟩
    intro a ha b hb hab
    obtain ⟨e, he, rfl⟩ := List.mem_map.mp ha
    obtain ⟨t, ht, rfl⟩ := List.mem_map.mp hb
    exact ((mem_kept e).mp he).2 (hab ▸ ((mem_todo t).mp ht).2)
  -- D6: helper cells relative to the table after the loop
  have Hval1 : ∀ e ∈ H, ∀ r0 ∈ src', r0.id = e.1 →
      ∀ sid, sid ∈ e.2 ↔ ∃ s ∈ r.1, s.id = sid ∧ s.key ∈ keysOf r0.cells := by
    intro e he r0 hr0 hid sid
    rcases List.mem_append.mp he with he | he
    · have hk := (mem_kept e).mp he
      have hr0' : r0 ∈ src := (hclean r0 (by rw [hid]; exact hk.2)).mpr hr0
      rw [hh.val e hk.1 r0 hr0' hid sid]
      constructor
      · rintro ⟨s, hs, h1, h2⟩; exact ⟨s, sub1 s hs, h1, h2⟩
      · rintro ⟨s, hs, h1, h2⟩
        rw [hr1] at hs
        rcases List.mem_append.mp hs with hs | hs
        · exact ⟨s, hs, h1, h2⟩
        · exfalso
          exact (hadd s hs).2.1 ((hkeyset s.key).mpr ⟨r0, hr0', h2⟩)
    · rw [hr2] at he
      obtain ⟨t, ht, htid, hiff⟩ := hfval e he
      have : t = r0 := eq_of_map_eq (·.id) hsrc' ((mem_todo t).mp ht).1 hr0 (by rw [htid, hid])
      subst this
      exact hiff sid
  -- D7: what the lookup behind `group` returns
  have Hgroup : ∀ s ∈ r.1, ∀ i, i ∈ lookupGroup H s.id ↔
      ∃ r0 ∈ src', r0.id = i ∧ s.key ∈ keysOf r0.cells := by
    intro s hs i
    rw [mem_lookupGroup]
    constructor
    · rintro ⟨e, he, rfl, hin⟩
      have := (Hdom e.1).mp (List.mem_map.mpr ⟨e, he, rfl⟩)
      obtain ⟨r0, hr0, hid⟩ := List.mem_map.mp this
      obtain ⟨s', hs', h1, h2⟩ := (Hval1 e he r0 hr0 hid s.id).mp hin
      have : s' = s := eq_of_map_eq (·.id) hi1 hs' hs h1
      subst this
      exact ⟨r0, hr0, hid, h2⟩
    · rintro ⟨r0, hr0, rfl, hk⟩
      have := (Hdom r0.id).mpr (List.mem_map.mpr ⟨r0, hr0, rfl⟩)
      obtain ⟨e, he, hid⟩ := List.mem_map.mp this
      exact ⟨e, he, hid, (Hval1 e he r0 hr0 hid.symm s.id).mpr ⟨s, hs, rfl, hk⟩⟩
  -- D8
  have memT : ∀ sid, sid ∈ T ↔ (∃ e ∈ goneHelper st dirty, sid ∈ e.2) ∨ (∃ e ∈ fresh, sid ∈ e.2) := by
    intro sid
    show sid ∈ (goneHelper st dirty ++ r.2).flatMap (·.2) ↔ _
    rw [List.mem_flatMap, hr2]
    constructor
    · rintro ⟨e, he, hs⟩
      rcases List.mem_append.mp he with he | he
      · exact Or.inl ⟨e, he, hs⟩
      · exact Or.inr ⟨e, he, hs⟩
    · rintro (⟨e, he, hs⟩ | ⟨e, he, hs⟩)
      · exact ⟨e, List.mem_append.mpr (Or.inl he), hs⟩
      · exact ⟨e, List.mem_append.mpr (Or.inr he), hs⟩
  -- a dirtied row of the new source refers to every summary row having one of its keys
  have fresh_touch : ∀ s ∈ r.1, ∀ r0 ∈ src', r0.id ∈ dirty → s.key ∈ keysOf r0.cells → s.id ∈ T := by
    intro s hs r0 hr0 hd hk
    have : r0.id ∈ fresh.map (·.1) := by
      rw [hfresh]; exact List.mem_map.mpr ⟨r0, (mem_todo r0).mpr ⟨hr0, hd⟩, rfl⟩
    obtain ⟨e, he, hid⟩ := List.mem_map.mp this
    have heH : e ∈ H := List.mem_append.mpr (Or.inr (hr2 ▸ he))
    exact (memT s.id).mpr (Or.inr ⟨e, he, (Hval1 e heH r0 hr0 hid.symm s.id).mpr ⟨s, hs, rfl, hk⟩⟩)
  -- D9: rows whose lookup result did not change
  have untouched : ∀ s ∈ r.1, s.id ∉ T → s ∈ st.sum ∧ GroupExact src' s := by
    intro s hs hT
    have hs0 : s ∈ st.sum := by
      rw [hr1] at hs
      rcases List.mem_append.mp hs with h | h
      · exact h
      · exfalso
        obtain ⟨⟨t, ht, hk⟩, _, _⟩ := hadd s h
        have htm := (mem_todo t).mp ht
        exact hT (fresh_touch s (by rw [hr1]; exact List.mem_append.mpr (Or.inr h)) t htm.1 htm.2 hk)
    refine ⟨hs0, (hgroups s hs0).1, ?_⟩
    intro i
    rw [(hgroups s hs0).2 i]
    constructor
    · rintro ⟨r0, hr0, rfl, hk⟩
      by_cases hd : r0.id ∈ dirty
      · exfalso
        have := (hh.dom r0.id).mpr (List.mem_map.mpr ⟨r0, hr0, rfl⟩)
        obtain ⟨e, he, hid⟩ := List.mem_map.mp this
        have hin := (hh.val e he r0 hr0 hid.symm s.id).mpr ⟨s, hs0, rfl, hk⟩
        exact hT ((memT s.id).mpr (Or.inl ⟨e, (mem_gone e).mpr ⟨he, by rw [hid]; exact hd⟩, hin⟩))
      · exact ⟨r0, (hclean r0 hd).mp hr0, rfl, hk⟩
    · rintro ⟨r0, hr0, rfl, hk⟩
      by_cases hd : r0.id ∈ dirty
      · exact absurd (fresh_touch s hs r0 hr0 hd hk) hT
      · exact ⟨r0, (hclean r0 hd).mpr hr0, rfl, hk⟩
  -- D10
  have regroup_exact : ∀ s ∈ r.1, GroupExact src' (regroup T H s) := by
    intro s hs
    unfold regroup
    split
    · exact ⟨lookupGroup_sorted Hnodup s.id, fun i => Hgroup s hs i⟩
    · rename_i hc
      exact (untouched s hs (by simpa using hc)).2
  -- D11
  have survives : ∀ s ∈ r.1, ∀ r0 ∈ src', s.key ∈ keysOf r0.cells → regroup T H s ∈ st'.sum := by
    intro s hs r0 hr0 hk
    show regroup T H s ∈ (r.1.map (regroup T H)).filter (fun s => !marked T s)
    rw [List.mem_filter]
    refine ⟨List.mem_map.mpr ⟨s, hs, rfl⟩, ?_⟩
    have hne : (regroup T H s).group ≠ [] :=
      groupExact_nonempty (regroup_exact s hs) hr0 (by rw [regroup_key]; exact hk)
    simp only [marked, Bool.not_eq_true', Bool.and_eq_false_iff, List.isEmpty_eq_false_iff]
    exact Or.inr hne
  -- D12
  have origin : ∀ s3 ∈ st'.sum, ∃ s ∈ r.1, s3 = regroup T H s ∧ ∃ r0 ∈ src', s.key ∈ keysOf r0.cells := by
    intro s3 hs3
    have hs3' : s3 ∈ (r.1.map (regroup T H)).filter (fun s => !marked T s) := hs3
    rw [List.mem_filter] at hs3'
    obtain ⟨s, hs, rfl⟩ := List.mem_map.mp hs3'.1
    refine ⟨s, hs, rfl, ?_⟩
    have hge := regroup_exact s hs
    by_cases hT : s.id ∈ T
    · have hm := hs3'.2
      simp only [marked, regroup_id, Bool.not_eq_true', Bool.and_eq_false_iff] at hm
      rcases hm with hm | hm
      · exact absurd hT (by simpa using hm)
      · have hne : (regroup T H s).group ≠ [] := by simpa using hm
        obtain ⟨i, hi⟩ := List.exists_mem_of_ne_nil _ hne
        obtain ⟨r0, hr0, _, hk⟩ := (hge.2 i).mp hi
        rw [regroup_key] at hk
        exact ⟨r0, hr0, hk⟩
    · obtain ⟨hs0, hg⟩ := untouched s hs hT
      obtain ⟨r0, hr0, hk⟩ := (hkeyset s.key).mp (List.mem_map.mpr ⟨s, hs0, rfl⟩)
      have := (hg.2 r0.id).mp (((hgroups s hs0).2 r0.id).mpr ⟨r0, hr0, rfl, hk⟩)
      obtain ⟨r1, hr1', _, hk1'⟩ := this
      exact ⟨r1, hr1', hk1'⟩
  have map_key : (r.1.map (regroup T H)).map (·.key) = r.1.map (·.key) := by
    rw [List.map_map]; apply List.map_congr_left; intro s _; exact regroup_key T H s
  have map_id : (r.1.map (regroup T H)).map (·.id) = r.1.map (·.id) := by
    rw [List.map_map]; apply List.map_congr_left; intro s _; exact regroup_id T H s
  refine ⟨⟨?_, ?_, ?_⟩, ⟨Hdom, Hnodup, ?_, ?_⟩⟩
  · show (((r.1.map (regroup T H)).filter (fun s => !marked T s)).map (·.key)).Nodup
    exact nodup_map_filter _ _ (map_key ▸ hk1)
  · intro k
    constructor
    · intro hk
      obtain ⟨s3, hs3, rfl⟩ := List.mem_map.mp hk
      obtain ⟨s, hs, rfl, r0, hr0, hk0⟩ := origin s3 hs3
      exact ⟨r0, hr0, by rw [regroup_key]; exact hk0⟩
    · rintro ⟨r0, hr0, hk⟩
      have : k ∈ r.1.map (·.key) := by
        by_cases hd : r0.id ∈ dirty
        · exact hcov r0 ((mem_todo r0).mpr ⟨hr0, hd⟩) k hk
        · have := (hkeyset k).mpr ⟨r0, (hclean r0 hd).mpr hr0, hk⟩
          obtain ⟨s, hs, rfl⟩ := List.mem_map.mp this
          exact List.mem_map.mpr ⟨s, sub1 s hs, rfl⟩
      obtain ⟨s, hs, rfl⟩ := List.mem_map.mp this
      exact List.mem_map.mpr ⟨regroup T H s, survives s hs r0 hr0 hk, regroup_key T H s⟩
  · intro s3 hs3
    obtain ⟨s, hs, rfl, _⟩ := origin s3 hs3
    exact regroup_exact s hs
  · intro e he r0 hr0 hid sid
    rw [Hval1 e he r0 hr0 hid sid]
    constructor
    · rintro ⟨s, hs, h1, h2⟩
      exact ⟨regroup T H s, survives s hs r0 hr0 h2, by rw [regroup_id]; exact h1,
        by rw [regroup_key]; exact h2⟩
    · rintro ⟨s3, hs3, h1, h2⟩
      obtain ⟨s, hs, rfl, _⟩ := origin s3 hs3
      exact ⟨s, hs, by rw [regroup_id] at h1; exact h1, by rw [regroup_key] at h2; exact h2⟩
  · show (((r.1.map (regroup T H)).filter (fun s => !marked T s)).map (·.id)).Nodup
    exact nodup_map_filter _ _ (map_id ▸ hi1)


end Grist.SummaryModel
