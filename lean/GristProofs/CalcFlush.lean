/-
Helper lemmas for C02 (B3): a word of `calc` steps on one column followed by `finish`.
-/
import GristProofs.EngineLists
namespace Grist.Doc

/-! ### table / column lookup and replacement -/

theorem findTable?_id {d : Doc} {t : String} {tb : Table} (h : findTable? d t = some tb) :
    tb.id = t := by
  have := List.find?_some h
  simpa using this

theorem findCol?_id {tb : Table} {c : String} {col : Col} (h : tb.findCol? c = some col) :
    col.id = c := by
  have := List.find?_some h
  simpa using this

theorem findTable?_replaceTable {d : Doc} {t : String} {tb : Table} (tb' : Table)
    (h : findTable? d t = some tb) (hid : tb'.id = t) :
    findTable? (replaceTable d t tb') t = some tb' := by
  unfold findTable? replaceTable at *
  induction d with
  | nil => simp at h
  | cons x d ih =>
    rw [List.map_cons, List.find?_cons]
    rw [List.find?_cons] at h
    by_cases hx : x.id = t
    · simp [hx, hid]
    · have hx' : (x.id == t) = false := by simpa using hx
      simp only [hx', Bool.false_eq_true, ↓reduceIte] at h ⊢
      exact ih h

theorem findTable?_replaceTable_ne (d : Doc) {t t' : String} (tb' : Table)
    (hid : tb'.id = t) (hne : t' ≠ t) :
    findTable? (replaceTable d t tb') t' = findTable? d t' := by
  unfold findTable? replaceTable
  induction d with
  | nil => rfl
  | cons x d ih =>
    rw [List.map_cons, List.find?_cons, List.find?_cons]
    by_cases hx : x.id = t
    · have h1 : (tb'.id == t') = false := by simp [hid]; exact fun h => hne h.symm
      have h2 : (x.id == t') = false := by simp [hx]; exact fun h => hne h.symm
      simp only [hx, BEq.rfl, ↓reduceIte, h1, ih]
      rw [← hx, h2] 
    · have hx' : (x.id == t) = false := by simpa using hx
      simp only [hx', Bool.false_eq_true, ↓reduceIte, ih]

theorem findCol?_replaceCol {tb : Table} {c : String} {col : Col} (col' : Col)
    (h : tb.findCol? c = some col) (hid : col'.id = c) :
    (tb.replaceCol c col').findCol? c = some col' := by
  unfold Table.findCol? Table.replaceCol at *
  simp only
  generalize tb.cols = cols at h ⊢
  induction cols with
  | nil => simp at h
  | cons x d ih =>
    rw [List.map_cons, List.find?_cons]
    rw [List.find?_cons] at h
    by_cases hx : x.id = c
    · simp [hx, hid]
    · have hx' : (x.id == c) = false := by simpa using hx
      simp only [hx', Bool.false_eq_true, ↓reduceIte] at h ⊢
      exact ih h

theorem replaceTable_replaceTable (d : Doc) (t : String) (tb1 tb2 : Table) (hid : tb1.id = t) :
    replaceTable (replaceTable d t tb1) t tb2 = replaceTable d t tb2 := by
  unfold replaceTable
  rw [List.map_map]
  apply List.map_congr_left
  intro x _
  by_cases hx : x.id = t <;> simp [hx, hid]

theorem replaceCol_replaceCol (tb : Table) (c : String) (c1 c2 : Col) (hid : c1.id = c) :
    (tb.replaceCol c c1).replaceCol c c2 = tb.replaceCol c c2 := by
  unfold Table.replaceCol
  simp only [List.map_map, Table.mk.injEq, true_and, and_true]
  apply List.map_congr_left
  intro x _
  by_cases hx : x.id = c <;> simp [hx, hid]

theorem replaceCol_id (tb : Table) (c : String) (col : Col) : (tb.replaceCol c col).id = tb.id := rfl
theorem replaceCol_rows (tb : Table) (c : String) (col : Col) :
    (tb.replaceCol c col).rows = tb.rows := rfl

/-! ### cells -/

def writeAfters (f : Nat → Val) (chs : List (Nat × Val × Val)) : Nat → Val :=
  chs.foldl (fun f ch => setCell f ch.1 ch.2.2) f

/-- writing the `after` values in order leaves, at row `k`, the LAST `after` recorded for `k` -/
theorem writeAfters_apply (chs : List (Nat × Val × Val)) (f : Nat → Val) (k : Nat) :
    writeAfters f chs k =
      match (chs.filter (·.1 == k)).getLast? with
      | none => f k
      | some last => last.2.2 := by
  unfold writeAfters
  induction chs generalizing f with
  | nil => simp
  | cons ch chs ih =>
    rw [List.foldl_cons, ih, List.filter_cons]
    by_cases hk : ch.1 = k
    · subst hk
      simp only [BEq.rfl, ↓reduceIte, List.getLast?_cons]
      cases (chs.filter (fun x => x.1 == ch.1)).getLast? <;> simp [setCell]
    · have h1 : (ch.1 == k) = false := by simpa using hk
      have h2 : ¬ k = ch.1 := fun h => hk h.symm
      simp only [h1, Bool.false_eq_true, ↓reduceIte, setCell, h2]

theorem setCells_map (ty : String) (g : Nat → Val) (rows : List Nat) (f : Nat → Val) (k : Nat) :
    setCells ty f rows (rows.map g) k = if k ∈ rows then colSet ty (g k) else f k := by
  induction rows generalizing f with
  | nil => simp [setCells]
  | cons r rows ih =>
    rw [List.map_cons, setCells, ih]
    by_cases h1 : k ∈ rows
    · simp [h1]
    · by_cases h2 : k = r
      · subst h2; simp [h1, setCell]
      · simp [h1, h2, setCell]

theorem writeCalc_eq {d : Doc} {t c : String} {tb : Table} {col : Col}
    (hT : findTable? d t = some tb) (hC : tb.findCol? c = some col)
    (chs : List (Nat × Val × Val)) :
    writeCalc d t c chs =
      replaceTable d t (tb.replaceCol c { col with cells := writeAfters col.cells chs }) := by
  simp only [writeCalc, hT, hC, writeAfters]

theorem writeAfters_append (f : Nat → Val) (a b : List (Nat × Val × Val)) :
    writeAfters (writeAfters f a) b = writeAfters f (a ++ b) := by
  simp [writeAfters, List.foldl_append]

theorem writeCalc_writeCalc {d : Doc} {t c : String} {tb : Table} {col : Col}
    (hT : findTable? d t = some tb) (hC : tb.findCol? c = some col)
    (chs1 chs2 : List (Nat × Val × Val)) :
    writeCalc (writeCalc d t c chs1) t c chs2 = writeCalc d t c (chs1 ++ chs2) := by
  rw [writeCalc_eq hT hC chs1, writeCalc_eq hT hC (chs1 ++ chs2)]
  have hT1 := findTable?_replaceTable
    (tb.replaceCol c { col with cells := writeAfters col.cells chs1 }) hT
    (by rw [replaceCol_id]; exact findTable?_id hT)
  have hC1 := findCol?_replaceCol { col with cells := writeAfters col.cells chs1 } hC
    (show col.id = c from findCol?_id hC)
  rw [writeCalc_eq hT1 hC1 chs2, replaceTable_replaceTable _ _ _ _
    (by rw [replaceCol_id]; exact findTable?_id hT),
    replaceCol_replaceCol tb c { col with cells := writeAfters col.cells chs1 } _
      (show col.id = c from findCol?_id hC)]
  simp only [writeAfters_append]

/-! ### summary: consecutive `add_changes` on one column merge -/

theorem filter_ne_filter_ne_append {α β : Type} [DecidableEq α] (m : List (α × β)) (k : α) (v : β) :
    ((m.filter (·.1 != k)) ++ [(k, v)]).filter (·.1 != k) = m.filter (·.1 != k) := by
  simp [List.filter_append, List.filter_filter]

theorem Summary.put_put (s : Summary) (t : String) (a b : TableDelta) :
    (s.put t a).put t b = s.put t b := by
  simp only [Summary.put, filter_ne_filter_ne_append]

theorem Summary.addChanges_addChanges (s : Summary) (t c : String)
    (chs1 chs2 : List (Nat × Val × Val)) :
    (s.addChanges t c chs1).addChanges t c chs2 = s.addChanges t c (chs1 ++ chs2) := by
  unfold Summary.addChanges
  simp only [Summary.get_put, Summary.put_put, lookup_filter_ne_append, ↓reduceIte,
    Option.getD_some, filter_ne_filter_ne_append, List.foldl_append]

theorem stepCalc_stepCalc {st : EState} {t c : String} {tb : Table} {col : Col}
    (hT : findTable? st.doc t = some tb) (hC : tb.findCol? c = some col)
    (chs1 chs2 : List (Nat × Val × Val)) :
    stepCalc (stepCalc st t c chs1) t c chs2 = stepCalc st t c (chs1 ++ chs2) := by
  simp only [stepCalc, writeCalc_writeCalc hT hC, Summary.addChanges_addChanges]

theorem run_calcs {st : EState} {t c : String} {tb : Table} {col : Col}
    (hT : findTable? st.doc t = some tb) (hC : tb.findCol? c = some col) :
    ∀ (rest : List (List (Nat × Val × Val))) (chs0 : List (Nat × Val × Val)) (tail : List Step),
    run (stepCalc st t c chs0) (rest.map (Step.calc t c) ++ tail) =
      run (stepCalc st t c (chs0 ++ rest.flatten)) tail := by
  intro rest
  induction rest with
  | nil => intro chs0 tail; simp
  | cons chs rest ih =>
    intro chs0 tail
    rw [List.map_cons, List.cons_append, run]
    simp only [step]
    rw [stepCalc_stepCalc hT hC, ih, List.flatten_cons, List.append_assoc]

theorem rootName_of_not_defunct {n : String} (h : isDefunct n = false) : rootName n = n := by
  simp only [isDefunct] at h
  simp [rootName, h]

theorem filterOutGoneRows_nil (s : Summary) (t : String) : s.filterOutGoneRows t [] = [] := by
  unfold Summary.filterOutGoneRows; split <;> simp

def changedRows (delta : List (Nat × Val × Val)) : List Nat :=
  ((delta.filter (fun e => !equalEncoding e.2.1 e.2.2)).map (·.1)).mergeSort (· ≤ ·)

def afterOf (delta : List (Nat × Val × Val)) (r : Nat) : Val :=
  match delta.lookup r with
  | some (_, a) => a
  | none => .null

theorem changesToActions_stored (s : Summary) (t c : String) (delta : List (Nat × Val × Val))
    (ht : isDefunct t = false) (hc : isDefunct c = false) :
    (s.changesToActions t c delta).1 =
      if (s.filterOutGoneRows t (changedRows delta)).isEmpty then []
      else [updateAction t c (s.filterOutGoneRows t (changedRows delta))
              ((s.filterOutGoneRows t (changedRows delta)).map (afterOf delta))] := by
  unfold Summary.changesToActions
  split
  · rename_i h
    have : delta = [] := by simpa using h
    subst this
    simp [changedRows, filterOutGoneRows_nil]
  · simp only [ht, hc, rootName_of_not_defunct ht, rootName_of_not_defunct hc, Bool.or_self,
      Bool.not_false, Bool.and_true, Bool.false_eq_true, ↓reduceIte]
    split <;> rfl

theorem addChanges_empty (t c : String) (chs : List (Nat × Val × Val)) :
    ({} : Summary).addChanges t c chs =
      { tables := [(t, { colDeltas := [(c, addChangesFold [] chs)] })], tableRenames := [] } := by
  simp [Summary.addChanges, Summary.get, Summary.put, addChangesFold]

/-- the stored action a calc flush emits for a delta -/
def flushAction (t c : String) (delta : List (Nat × Val × Val)) : List DocAction :=
  if (changedRows delta).isEmpty then []
  else [updateAction t c (changedRows delta) ((changedRows delta).map (afterOf delta))]

theorem stepFinish_stepCalc_stored (st : EState) (hs : st.summary = {}) (t c : String)
    (chs : List (Nat × Val × Val)) (ht : isDefunct t = false) (hc : isDefunct c = false) :
    (stepFinish (stepCalc st t c chs)).stored =
      st.stored ++ flushAction t c (addChangesFold [] chs) := by
  rw [stepFinish_stored]
  simp only [stepCalc, hs, addChanges_empty]
  unfold flushAll
  simp only [List.map_cons, List.map_nil, List.mergeSort_singleton, List.foldl_cons, List.foldl_nil,
    Summary.get, lookup_cons_self', Option.getD_some]
  rw [changesToActions_stored _ _ _ _ ht hc]
  have : ∀ rows, Summary.filterOutGoneRows
      { tables := [(t, { colDeltas := [(c, addChangesFold [] chs)] })], tableRenames := [] } t rows
      = rows := by
    intro rows
    simp [Summary.filterOutGoneRows]
  simp only [this, flushAction]

theorem docAction_updateAction {d : Doc} {t c : String} {tb : Table} {col : Col} (s : Summary)
    (hT : findTable? d t = some tb) (hC : tb.findCol? c = some col)
    (rows : List Nat) (vals : List Val) (hrows : ∀ r ∈ rows, r ∈ tb.rows) :
    docAction d s (updateAction t c rows vals) =
      .ok { doc := replaceTable d t
              (tb.replaceCol c { col with cells := setCells col.info.type col.cells rows vals }),
            undo := [.bulkUpdate t rows [(c, rows.map col.cells)]],
            summary := s } := by
  simp only [updateAction, docAction, hT, Table.hasCol, hC, writeCols]
  have h2 : ¬ ∃ x, x ∈ rows ∧ ¬ x ∈ tb.rows := by
    rintro ⟨x, hx, hn⟩; exact hn (hrows x hx)
  simp [h2, hC]

theorem applyAll_updateAction {d : Doc} {t c : String} {tb : Table} {col : Col}
    (hT : findTable? d t = some tb) (hC : tb.findCol? c = some col)
    (rows : List Nat) (vals : List Val) (hrows : ∀ r ∈ rows, r ∈ tb.rows) :
    applyAll d [updateAction t c rows vals] =
      .ok (replaceTable d t
              (tb.replaceCol c { col with cells := setCells col.info.type col.cells rows vals })) := by
  simp [applyAll, docAction_updateAction {} hT hC rows vals hrows]


/-! ### which rows the flush emits, and with which value -/

theorem mem_of_lookup_eq_some {α β : Type} [DecidableEq α] {m : List (α × β)} {k : α} {v : β}
    (h : m.lookup k = some v) : (k, v) ∈ m := by
  induction m with
  | nil => simp at h
  | cons p m ih =>
    obtain ⟨a, b⟩ := p
    by_cases hk : k = a
    · subst hk; rw [lookup_cons_self'] at h; cases h; simp
    · rw [lookup_cons_ne _ _ _ _ hk] at h; exact List.mem_cons_of_mem _ (ih h)

theorem lookup_eq_some_of_mem_nodup {α β : Type} [DecidableEq α] {m : List (α × β)} {k : α} {v : β}
    (hn : (m.map (·.1)).Nodup) (h : (k, v) ∈ m) : m.lookup k = some v := by
  induction m with
  | nil => simp at h
  | cons p m ih =>
    obtain ⟨a, b⟩ := p
    simp only [List.map_cons, List.nodup_cons, List.mem_map, not_exists, not_and] at hn
    rcases List.mem_cons.mp h with h | h
    · cases h; exact lookup_cons_self' _ _ _
    · have hk : ¬ k = a := fun e => hn.1 (k, v) h (by simp [e])
      rw [lookup_cons_ne _ _ _ _ hk]; exact ih hn.2 h

theorem mem_changedRows {delta : List (Nat × Val × Val)} (hn : (delta.map (·.1)).Nodup) (k : Nat) :
    k ∈ changedRows delta ↔ ∃ b a, delta.lookup k = some (b, a) ∧ equalEncoding b a = false := by
  simp only [changedRows, List.mem_mergeSort, List.mem_map, List.mem_filter]
  constructor
  · rintro ⟨⟨k', b, a⟩, ⟨hm, he⟩, rfl⟩
    exact ⟨b, a, lookup_eq_some_of_mem_nodup hn hm, by simpa using he⟩
  · rintro ⟨b, a, hl, he⟩
    exact ⟨(k, b, a), ⟨mem_of_lookup_eq_some hl, by simpa using he⟩, rfl⟩

/-- the merged `(first before, last after)` recorded for row `k` by a sequence of changes -/
def mergedChange (chs : List (Nat × Val × Val)) (k : Nat) : Option (Val × Val) :=
  match (chs.filter (·.1 == k)).head?, (chs.filter (·.1 == k)).getLast? with
  | some f, some l => some (f.2.1, l.2.2)
  | _, _ => none

theorem addChangesFold_nil_lookup (chs : List (Nat × Val × Val)) (k : Nat) :
    (addChangesFold [] chs).lookup k = mergedChange chs k := by
  rw [addChangesFold_lookup, mergedChange]
  cases h : chs.filter (·.1 == k) with
  | nil => simp
  | cons x xs => simp [List.getLast?_cons]

theorem addChangesFold_nil_nodup (chs : List (Nat × Val × Val)) :
    ((addChangesFold [] chs).map (·.1)).Nodup :=
  addChangesFold_keys_nodup chs [] (by simp)

/-- the cells of the calc column after replaying the flush action on the start document -/
def replayCells (col : Col) (chs : List (Nat × Val × Val)) : Nat → Val := fun k =>
  if k ∈ changedRows (addChangesFold [] chs)
  then colSet col.info.type (afterOf (addChangesFold [] chs) k) else col.cells k

theorem writeAfters_eq_mergedChange (chs : List (Nat × Val × Val)) (f : Nat → Val) (k : Nat) :
    writeAfters f chs k = match mergedChange chs k with
      | none => f k
      | some (_, a) => a := by
  rw [writeAfters_apply, mergedChange]
  cases h : chs.filter (·.1 == k) with
  | nil => simp
  | cons x xs => simp [List.getLast?_cons]

theorem replayCells_eq (col : Col) (chs : List (Nat × Val × Val)) (k : Nat) :
    replayCells col chs k = match mergedChange chs k with
      | none => col.cells k
      | some (b, a) => if equalEncoding b a then col.cells k else colSet col.info.type a := by
  unfold replayCells
  have hm := mem_changedRows (addChangesFold_nil_nodup chs) k
  simp only [addChangesFold_nil_lookup] at hm
  simp only [afterOf, addChangesFold_nil_lookup]
  cases h : mergedChange chs k with
  | none =>
    have : ¬ k ∈ changedRows (addChangesFold [] chs) := by rw [hm, h]; simp
    simp [this]
  | some p =>
    obtain ⟨b, a⟩ := p
    cases he : equalEncoding b a with
    | false =>
      have : k ∈ changedRows (addChangesFold [] chs) := by rw [hm, h]; exact ⟨b, a, rfl, he⟩
      simp [this, he]
    | true =>
      have : ¬ k ∈ changedRows (addChangesFold [] chs) := by
        rw [hm, h]; rintro ⟨b', a', h1, h2⟩; cases h1; rw [he] at h2; cases h2
      simp [this, he]

theorem mergedChange_mem {chs : List (Nat × Val × Val)} {k : Nat} {b a : Val}
    (h : mergedChange chs k = some (b, a)) :
    (∃ f, (chs.filter (·.1 == k)).head? = some f ∧ f.2.1 = b) ∧ ∃ l ∈ chs, l.1 = k ∧ l.2.2 = a := by
  unfold mergedChange at h
  cases hh : (chs.filter (·.1 == k)).head? with
  | none => rw [hh] at h; simp at h
  | some f =>
    cases hl : (chs.filter (·.1 == k)).getLast? with
    | none => rw [hh, hl] at h; simp at h
    | some l =>
      rw [hh, hl] at h
      simp only [Option.some.injEq, Prod.mk.injEq] at h
      have := List.mem_of_getLast? hl
      rw [List.mem_filter] at this
      exact ⟨⟨f, rfl, h.1⟩, l, this.1, by simpa using this.2, h.2⟩

/-! ### observational comparison of documents up to a relation on cell values -/

def Col.RelOn (R : Val → Val → Prop) (rows : List Nat) (a b : Col) : Prop :=
  a.info = b.info ∧ ∀ r ∈ rows, R (a.cells r) (b.cells r)

def Table.SameRel (R : Val → Val → Prop) (a b : Table) : Prop :=
  a.rows = b.rows ∧
  ∀ c, match a.findCol? c, b.findCol? c with
    | none, none => True
    | some ca, some cb => Col.RelOn R a.rows ca cb
    | _, _ => False

/-- `Same` (DocSpec) with the equality of cell values replaced by `R` -/
def SameRel (R : Val → Val → Prop) (a b : Doc) : Prop :=
  ∀ t, match findTable? a t, findTable? b t with
    | none, none => True
    | some ta, some tb => Table.SameRel R ta tb
    | _, _ => False

theorem sameRel_eq_iff_same (a b : Doc) : SameRel Eq a b ↔ Same a b := Iff.rfl

/-- same tables, rows, columns; cell values equal as encoded values (`equal_encoding`) -/
def EncSame (a b : Doc) : Prop := SameRel (fun x y => equalEncoding x y = true) a b

theorem equalEncoding_refl (a : Val) : equalEncoding a a = true := by
  cases a <;> simp [equalEncoding]

theorem Table.SameRel.refl {R : Val → Val → Prop} (hR : ∀ v, R v v) (x : Table) :
    Table.SameRel R x x := by
  refine ⟨rfl, fun c => ?_⟩
  cases x.findCol? c with
  | none => trivial
  | some col => exact ⟨rfl, fun r _ => hR _⟩

theorem findCol?_replaceCol_ne (tb : Table) {c c' : String} (col' : Col)
    (hid : col'.id = c) (hne : c' ≠ c) :
    (tb.replaceCol c col').findCol? c' = tb.findCol? c' := by
  unfold Table.findCol? Table.replaceCol
  simp only
  generalize tb.cols = cols
  induction cols with
  | nil => rfl
  | cons x d ih =>
    rw [List.map_cons, List.find?_cons, List.find?_cons]
    by_cases hx : x.id = c
    · have h1 : (col'.id == c') = false := by simp [hid]; exact fun h => hne h.symm
      have h2 : (x.id == c') = false := by simp [hx]; exact fun h => hne h.symm
      simp only [hx, BEq.rfl, ↓reduceIte, h1, ih]
      rw [← hx, h2]
    · have hx' : (x.id == c) = false := by simpa using hx
      simp only [hx', Bool.false_eq_true, ↓reduceIte, ih]

/-- `X` looks like `d` with the cells of column `(t, c)` being `f` (seen through the lookups) -/
structure ColView (d : Doc) (t c : String) (tb : Table) (col : Col) (X : Doc) (f : Nat → Val) :
    Prop where
  other : ∀ t', t' ≠ t → findTable? X t' = findTable? d t'
  tbl : ∃ tbX, findTable? X t = some tbX ∧ tbX.rows = tb.rows ∧
    (∀ c', c' ≠ c → tbX.findCol? c' = tb.findCol? c') ∧
    ∃ colX, tbX.findCol? c = some colX ∧ colX.info = col.info ∧ colX.cells = f

theorem ColView.self {d : Doc} {t c : String} {tb : Table} {col : Col}
    (hT : findTable? d t = some tb) (hC : tb.findCol? c = some col) :
    ColView d t c tb col d col.cells :=
  ⟨fun _ _ => rfl, tb, hT, rfl, fun _ _ => rfl, col, hC, rfl, rfl⟩

theorem ColView.replace {d : Doc} {t c : String} {tb : Table} {col : Col}
    (hT : findTable? d t = some tb) (hC : tb.findCol? c = some col) (f : Nat → Val) :
    ColView d t c tb col (replaceTable d t (tb.replaceCol c { col with cells := f })) f := by
  have hid : (tb.replaceCol c { col with cells := f }).id = t := by
    rw [replaceCol_id]; exact findTable?_id hT
  have hcid : ({ col with cells := f } : Col).id = c := (findCol?_id hC : col.id = c)
  refine ⟨fun t' h => findTable?_replaceTable_ne d _ hid h, _,
    findTable?_replaceTable _ hT hid, rfl, fun c' h => findCol?_replaceCol_ne tb _ hcid h,
    _, findCol?_replaceCol _ hC hcid, rfl, rfl⟩

theorem ColView.sameRel {d : Doc} {t c : String} {tb : Table} {col : Col} {X Y : Doc}
    {f g : Nat → Val} {R : Val → Val → Prop} (hX : ColView d t c tb col X f)
    (hY : ColView d t c tb col Y g) (hR : ∀ v, R v v) (hfg : ∀ k ∈ tb.rows, R (f k) (g k)) :
    SameRel R X Y := by
  intro t'
  by_cases ht : t' = t
  · subst ht
    obtain ⟨tbX, hX1, hX2, hX3, colX, hX4, hX5, hX6⟩ := hX.tbl
    obtain ⟨tbY, hY1, hY2, hY3, colY, hY4, hY5, hY6⟩ := hY.tbl
    rw [hX1, hY1]
    refine ⟨hX2.trans hY2.symm, fun c' => ?_⟩
    by_cases hc : c' = c
    · subst hc
      rw [hX4, hY4]
      exact ⟨hX5.trans hY5.symm, fun r hr => by rw [hX6, hY6]; exact hfg r (hX2 ▸ hr)⟩
    · rw [hX3 c' hc, hY3 c' hc]
      cases tb.findCol? c' with
      | none => trivial
      | some cc => exact ⟨rfl, fun r _ => hR _⟩
  · rw [hX.other t' ht, hY.other t' ht]
    cases findTable? d t' with
    | none => trivial
    | some x => exact Table.SameRel.refl hR x

/-! ### the main lemma: calc steps on one column, then `finish` -/

theorem replayCells_of_no_change (col : Col) (chs : List (Nat × Val × Val))
    (h : changedRows (addChangesFold [] chs) = []) : replayCells col chs = col.cells := by
  funext k; simp [replayCells, h]

theorem calc_finish_views {st : EState} {t c : String} {tb : Table} {col : Col}
    (hs : st.summary = {}) (hsto : st.stored = [])
    (ht : isDefunct t = false) (hc : isDefunct c = false)
    (hT : findTable? st.doc t = some tb) (hC : tb.findCol? c = some col)
    (calcs : List (List (Nat × Val × Val)))
    (hrows : ∀ ch ∈ calcs.flatten, ch.1 ∈ tb.rows) {st' : EState}
    (h : run st (calcs.map (Step.calc t c) ++ [.finish]) = .ok st') :
    ∃ d', applyAll st.doc st'.stored = .ok d' ∧
      ColView st.doc t c tb col d' (replayCells col calcs.flatten) ∧
      ColView st.doc t c tb col st'.doc (writeAfters col.cells calcs.flatten) := by
  cases calcs with
  | nil =>
    simp only [List.map_nil, List.nil_append, run, step, Except.ok.injEq] at h
    subst h
    have h1 : (stepFinish st).stored = [] := by
      rw [stepFinish_stored, hs, hsto]; simp [flushAll]
    rw [h1, stepFinish_doc]
    refine ⟨st.doc, rfl, ?_, ColView.self hT hC⟩
    rw [List.flatten_nil, replayCells_of_no_change col [] (by simp [addChangesFold, changedRows])]
    exact ColView.self hT hC
  | cons chs0 rest =>
    rw [List.map_cons, List.cons_append, run] at h
    simp only [step] at h
    rw [run_calcs hT hC] at h
    simp only [run, step, Except.ok.injEq] at h
    subst h
    rw [← List.flatten_cons]
    generalize (chs0 :: rest).flatten = chs at hrows ⊢
    rw [stepFinish_stepCalc_stored st hs t c chs ht hc, hsto, List.nil_append, stepFinish_doc]
    have hE : ColView st.doc t c tb col (stepCalc st t c chs).doc (writeAfters col.cells chs) := by
      show ColView st.doc t c tb col (writeCalc st.doc t c chs) _
      rw [writeCalc_eq hT hC]
      exact ColView.replace hT hC _
    unfold flushAction
    by_cases he : (changedRows (addChangesFold [] chs)).isEmpty = true
    · rw [if_pos he]
      refine ⟨st.doc, rfl, ?_, hE⟩
      rw [replayCells_of_no_change col chs (by simpa using he)]
      exact ColView.self hT hC
    · rw [if_neg he]
      refine ⟨replaceTable st.doc t (tb.replaceCol c { col with cells := replayCells col chs }),
        ?_, ColView.replace hT hC _, hE⟩
      rw [applyAll_updateAction hT hC]
      · congr 4
        funext k
        simp only [setCells_map, replayCells]
      · intro r hr
        rw [mem_changedRows (addChangesFold_nil_nodup chs)] at hr
        obtain ⟨b, a, hl, _⟩ := hr
        rw [addChangesFold_nil_lookup] at hl
        obtain ⟨_, l, hl1, hl2, _⟩ := mergedChange_mem hl
        exact hl2 ▸ hrows l hl1

/-- what the word emits: nothing, or the single `BulkUpdateRecord` of `flushAction` -/
theorem calc_finish_stored {st : EState} {t c : String} {tb : Table} {col : Col}
    (hs : st.summary = {}) (hsto : st.stored = [])
    (ht : isDefunct t = false) (hc : isDefunct c = false)
    (hT : findTable? st.doc t = some tb) (hC : tb.findCol? c = some col)
    (calcs : List (List (Nat × Val × Val))) {st' : EState}
    (h : run st (calcs.map (Step.calc t c) ++ [.finish]) = .ok st') :
    st'.stored = flushAction t c (addChangesFold [] calcs.flatten) := by
  cases calcs with
  | nil =>
    simp only [List.map_nil, List.nil_append, run, step, Except.ok.injEq] at h
    subst h
    rw [stepFinish_stored, hs, hsto]; simp [flushAll, flushAction, addChangesFold, changedRows]
  | cons chs0 rest =>
    rw [List.map_cons, List.cons_append, run] at h
    simp only [step] at h
    rw [run_calcs hT hC] at h
    simp only [run, step, Except.ok.injEq] at h
    subst h
    rw [stepFinish_stepCalc_stored st hs t c _ ht hc, hsto, List.nil_append, List.flatten_cons]

theorem afterOf_merged {chs : List (Nat × Val × Val)} {k : Nat} {b a : Val}
    (h : mergedChange chs k = some (b, a)) : afterOf (addChangesFold [] chs) k = a := by
  simp [afterOf, addChangesFold_nil_lookup, h]

theorem mem_changedRows_merged (chs : List (Nat × Val × Val)) (k : Nat) :
    k ∈ changedRows (addChangesFold [] chs) ↔
      ∃ b a, mergedChange chs k = some (b, a) ∧ equalEncoding b a = false := by
  rw [mem_changedRows (addChangesFold_nil_nodup chs)]
  simp only [addChangesFold_nil_lookup]

theorem colSet_str (t s : String) : colSet t (.str s) = .str s := by
  unfold colSet
  split
  · rfl
  · rfl
  · split <;> rfl

/-- cell by cell: engine document vs replay of the flush action -/
theorem replay_vs_engine_cells (col : Col) (chs : List (Nat × Val × Val))
    (hnorm : ∀ ch ∈ chs, colSet col.info.type ch.2.2 = ch.2.2) (k : Nat) :
    match mergedChange chs k with
    | none => writeAfters col.cells chs k = col.cells k ∧ replayCells col chs k = col.cells k
    | some (b, a) => writeAfters col.cells chs k = a ∧
        replayCells col chs k = if equalEncoding b a then col.cells k else a := by
  have h1 := writeAfters_eq_mergedChange chs col.cells k
  have h2 := replayCells_eq col chs k
  cases h : mergedChange chs k with
  | none => rw [h] at h1 h2; exact ⟨h1, h2⟩
  | some p =>
    obtain ⟨b, a⟩ := p
    rw [h] at h1 h2
    obtain ⟨_, l, hl1, _, hl3⟩ := mergedChange_mem h
    have := hnorm l hl1
    rw [hl3] at this
    simp only at h1 h2
    rw [this] at h2
    exact ⟨h1, h2⟩

end Grist.Doc
