/-
Recalc: the acyclic case (a rank function on `deps`): no `circ`, unique fixpoint, so incremental
recalculation = recalculation from scratch (C05 U3) and the result is schedule independent (C06 V1).
Also: complete runs exist (progress + termination).
-/
import GristProofs.RecalcInv
import GristProofs.RecalcProgress
namespace Grist.Recalc

/-- a rank function: every formula cell `< n` ranks above everything it may read -/
def Ranked (p : Prog) (n : Nat) (rank : Nat → Nat) : Prop :=
  ∀ c, c < n → p.formula c = true → ∀ d ∈ p.deps c, rank d < rank c

theorem reaches_rank {p : Prog} {n : Nat} {rank : Nat → Nat}
    (hdl : ∀ c, c < n → ∀ d ∈ p.deps c, d < n) (hrk : Ranked p n rank) :
    ∀ (fuel c t : Nat), c < n → reaches p (fun _ => true) fuel c t = true → rank t < rank c := by
  intro fuel
  induction fuel with
  | zero => intro c t _ h; simp [reaches] at h
  | succ fuel ih =>
    intro c t hc h
    simp only [reaches, Bool.and_true, Bool.true_and, Bool.and_eq_true, List.any_eq_true,
      Bool.or_eq_true, beq_iff_eq] at h
    obtain ⟨hf, d, hd, h⟩ := h
    have h1 := hrk c hc hf d hd
    rcases h with rfl | h
    · exact h1
    · exact Nat.lt_trans (ih d t (hdl c hc d hd) h) h1

theorem not_dependsOnSelf_of_ranked {p : Prog} {n : Nat} {rank : Nat → Nat}
    (hdl : ∀ c, c < n → ∀ d ∈ p.deps c, d < n) (hrk : Ranked p n rank) {c : Nat} (hc : c < n) :
    ¬ DependsOnSelf p n c := by
  intro h
  exact Nat.lt_irrefl _ (reaches_rank hdl hrk n c c hc h)

/-- with a rank function the cycle branch is never enabled -/
theorem circ_disabled_of_ranked {p : Prog} (hr : p.Respects) {n : Nat} {rank : Nat → Nat}
    {st : State} (hw : WFState p n st) (hrk : Ranked p n rank) (c : Nat) :
    step p n st (.circ c) = none := by
  cases h : step p n st (.circ c) with
  | none => rfl
  | some st' =>
    obtain ⟨⟨hlt, hf, _, hb⟩, _⟩ := step_circ_iff.mp h
    exact absurd (reaches_of_blockCycle hr n c hf hb)
      (not_dependsOnSelf_of_ranked hw.deps_lt hrk hlt)

/-- (U3) with a rank function, the formula fixpoint over given data cells is unique -/
theorem fixpoint_unique {p : Prog} (hr : p.Respects) {n : Nat} {rank : Nat → Nat}
    (hdl : ∀ c, c < n → ∀ d ∈ p.deps c, d < n) (hrk : Ranked p n rank) {σ1 σ2 : Nat → V}
    (hdata : ∀ c, c < n → p.formula c = false → σ1 c = σ2 c)
    (h1 : ∀ c, c < n → p.formula c = true → σ1 c = p.f c σ1)
    (h2 : ∀ c, c < n → p.formula c = true → σ2 c = p.f c σ2) :
    ∀ c, c < n → σ1 c = σ2 c := by
  have key : ∀ r c, c < n → rank c < r → σ1 c = σ2 c := by
    intro r
    induction r with
    | zero => intro c _ h; omega
    | succ r ih =>
      intro c hc hrc
      cases hf : p.formula c with
      | false => exact hdata c hc hf
      | true =>
        have hag : ∀ d ∈ p.reads c σ1, σ1 d = σ2 d := by
          intro d hd
          have hdep := hr.1 c σ1 d hd
          exact ih d (hdl c hc d hdep) (by have := hrk c hc hf d hdep; omega)
        rw [h1 c hc hf, h2 c hc hf, (hr.2 c σ1 σ2 hag).2]
  intro c hc
  exact key (rank c + 1) c hc (Nat.lt_succ_self _)

/-- quiescent + invariant + rank function: every formula cell is a fixpoint -/
theorem quiescent_fixpoint_ranked {p : Prog} {n : Nat} {rank : Nat → Nat} {st : State}
    (hw : WFState p n st) (hi : Inv p n st) (hrk : Ranked p n rank) (hq : st.dirty = []) :
    ∀ c, c < n → p.formula c = true → st.σ c = p.f c st.σ := by
  intro c hc hf
  rcases inv_quiescent hi hq c hc hf with h | ⟨_, h⟩
  · exact h
  · exact absurd h (not_dependsOnSelf_of_ranked hw.deps_lt hrk hc)

/-! ### calc events touch only formula cells `< n` -/

theorem calc_step_untouched {p : Prog} {n : Nat} {st st' : State} {e : Ev}
    (he : e.isCalc = true) (h : step p n st e = some st') (c : Nat)
    (hc : p.formula c = false ∨ n ≤ c) : st'.σ c = st.σ c := by
  cases e with
  | write c0 v => cases he
  | eval c0 =>
    obtain ⟨⟨hlt, hf, _, _⟩, rfl⟩ := step_eval_iff.mp h
    have : c ≠ c0 := by
      rintro rfl; rcases hc with hc | hc
      · rw [hc] at hf; cases hf
      · omega
    simp [upd, this]
  | circ c0 =>
    obtain ⟨⟨hlt, hf, _, _⟩, rfl⟩ := step_circ_iff.mp h
    have : c ≠ c0 := by
      rintro rfl; rcases hc with hc | hc
      · rw [hc] at hf; cases hf
      · omega
    simp [upd, this]

theorem calc_run_untouched {p : Prog} {n : Nat} : ∀ (es : List Ev) {st st' : State},
    (∀ e ∈ es, e.isCalc = true) → run p n st es = some st' →
    ∀ c, (p.formula c = false ∨ n ≤ c) → st'.σ c = st.σ c := by
  intro es
  induction es with
  | nil => intro st st' _ h c _; simp only [run, Option.some.injEq] at h; subst h; rfl
  | cons e es ih =>
    intro st st' hc h c hcc
    obtain ⟨st1, h1, h2⟩ := run_cons_some h
    rw [ih (fun e he => hc e (List.mem_cons_of_mem _ he)) h2 c hcc,
      calc_step_untouched (hc e (by simp)) h1 c hcc]

/-! ### complete runs exist -/

theorem complete_run_exists {p : Prog} {n : Nat} : ∀ (m : Nat) (st : State),
    st.dirty.length ≤ m → WFState p n st →
    ∃ es st', (∀ e ∈ es, e.isCalc = true) ∧ run p n st es = some st' ∧ st'.dirty = [] := by
  intro m
  induction m with
  | zero =>
    intro st hm _
    exact ⟨[], st, by simp, rfl, List.eq_nil_of_length_eq_zero (by omega)⟩
  | succ m ih =>
    intro st hm hw
    by_cases hne : st.dirty = []
    · exact ⟨[], st, by simp, rfl, hne⟩
    · obtain ⟨c, hc⟩ := progress_exists hw hne
      have hstep : ∃ e st1, e.isCalc = true ∧ step p n st e = some st1 := by
        rcases hc with hc | hc
        · obtain ⟨st1, h1⟩ := Option.isSome_iff_exists.mp hc; exact ⟨.eval c, st1, rfl, h1⟩
        · obtain ⟨st1, h1⟩ := Option.isSome_iff_exists.mp hc; exact ⟨.circ c, st1, rfl, h1⟩
      obtain ⟨e, st1, he, h1⟩ := hstep
      have hlen := calc_step_dirty_decreases he h1
      obtain ⟨c1, _, hd1⟩ := calc_step_dirty he h1
      have hw1 : WFState p n st1 := by
        have := hw.filter c1 st1.σ
        rw [← hd1] at this; exact this
      obtain ⟨es, st', hes, hrun, hq⟩ := ih st1 (by omega) hw1
      refine ⟨e :: es, st', ?_, by simp only [run, h1, hrun], hq⟩
      intro e' he'
      rcases List.mem_cons.mp he' with rfl | he'
      · exact he
      · exact hes e' he'

end Grist.Recalc
