/-
S2: replaying the undo actions of one doc action (in reverse) restores the document (up to `Same`).
-/
import GristProofs.DocUndoSame
namespace Grist.Doc

/-- When the undo actions of `a` (applied in document `d`) restore the document exactly:
 * `ReplaceTableData` / `RemoveColumn`: formula columns are not restored by the undo actions
   (their values go to the calc summary), so they must be all-default;
 * `ModifyColumn`: the undo restores only the schema; the cells end as
   `colSet oldType (colSet newType v)`, which must be `v`. -/
def DocAction.undoExact : DocAction → Doc → Prop
  | .replaceData t _ _, d => ∀ tb, findTable? d t = some tb →
      ∀ col ∈ tb.cols, col.info.isFormula = true → ∀ r ∈ tb.rows, col.cells r = typeDefault col.info.type
  | .removeColumn t c, d => ∀ tb col, findTable? d t = some tb → tb.findCol? c = some col →
      col.info.isFormula = true → ∀ r ∈ tb.rows, col.cells r = typeDefault col.info.type
  | .modifyColumn t c p, d => ∀ tb col, findTable? d t = some tb → tb.findCol? c = some col →
      ∀ r ∈ tb.rows,
        colSet col.info.type (colSet (colInfoOfPatch col.info p).type (col.cells r)) = col.cells r
  | _, _ => True

def Col.unsetRows (rows' : List Nat) (col : Col) : Col :=
  { col with cells := fun r => if rows'.contains r then typeDefault col.info.type else col.cells r }

theorem hasCol_eq_contains (tb : Table) (c : String) :
    tb.hasCol c = (tb.cols.map (·.id)).contains c := by
  rw [Bool.eq_iff_iff]
  simp [Table.hasCol, Table.findCol?, List.find?_isSome]

theorem hasCol_of_map_id_eq {tb tb' : Table} (h : tb'.cols.map (·.id) = tb.cols.map (·.id))
    (c : String) : tb'.hasCol c = tb.hasCol c := by
  rw [hasCol_eq_contains, hasCol_eq_contains, h]

theorem hasCol_of_mem {tb : Table} {x : Col} (hx : x ∈ tb.cols) : tb.hasCol x.id = true := by
  rw [hasCol_eq_contains]
  simp only [List.contains_iff_mem]
  exact List.mem_map_of_mem hx

theorem mem_filter_not_contains {a : Nat} {l rows' : List Nat} :
    a ∈ l.filter (fun r => !rows'.contains r) ↔ a ∈ l ∧ a ∉ rows' := by
  simp

theorem applyAll_single_of_post {D D1 : Doc} {u : DocAction} {U1 : List DocAction}
    (h : Post D u D1 U1) : applyAll D [u] = .ok D1 := by
  rw [applyAll_cons_of_post [] h]; rfl

/-! ### record actions -/

theorem undo_bulkAdd {d : Doc} {t : String} {rows : List Nat} {cols : List (String × List Val)}
    {D : Doc} {U : List DocAction} (hwf : WF d) (hpos : ∀ r ∈ rows, 0 < r)
    (h : Post d (.bulkAdd t rows cols) D U) :
    ∃ d'', applyAll D U.reverse = .ok d'' ∧ Same d'' d := by
  obtain ⟨tb, tb2, hf, hno, hw, rfl, rfl⟩ := h
  have htb := hwf.table hf
  have hid := (findTable?_some hf).1
  rw [filter_ne_zero_of_pos hpos] at hw
  have h1 := htb.addRows hpos
  rw [writeCols_ok_iff h1.1] at hw
  obtain ⟨_, rfl⟩ := hw
  have hid2 : (Table.written { tb with rows := insertRows rows tb.rows } rows cols).id = t := hid
  have hfD := findTable?_replaceTable_self (d := d) hid2 hf
  have hrows' : rows.filter (fun r =>
      (Table.written { tb with rows := insertRows rows tb.rows } rows cols).rows.contains r) = rows := by
    rw [List.filter_eq_self]
    intro a ha
    simp only [Table.written_rows, List.contains_iff_mem]
    exact mem_insertRows.2 (.inl ha)
  -- cells at old rows are untouched
  have hcell : ∀ x ∈ tb.cols, ∀ r ∈ tb.rows,
      (Col.written rows cols x).cells r = x.cells r := by
    intro x _ r hr
    exact writeCells_not_mem _ _ _ (fun h' => hno r h' hr) _ _
  by_cases he : rows = []
  · subst he
    refine ⟨_, applyAll_single_of_post (U1 := []) ⟨_, hfD, .inl ⟨by simp, rfl, rfl⟩⟩, ?_⟩
    refine same_replaceTable hf hid2 ?_
    apply tableSame_map (Col.written [] cols) (fun _ => rfl) rfl (by simp [insertRows])
    intro x hx
    exact ⟨rfl, fun r hr => hcell x hx r hr⟩
  · refine ⟨_, applyAll_single_of_post ⟨_, hfD, .inr ⟨by rw [hrows']; exact he, rfl, rfl⟩⟩, ?_⟩
    rw [hrows', replaceTable_replaceTable hid2]
    refine same_replaceTable hf hid ?_
    apply tableSame_map (fun x => Col.unsetRows rows (Col.written rows cols x)) (fun _ => rfl)
    · simp [Table.removeRows, Table.written, List.map_map, Function.comp_def, Col.unsetRows]
    · simp only [Table.removeRows, Table.written_rows]
      apply sorted_ext (h1.2.1.filter _) htb.2.1
      intro a
      rw [mem_filter_not_contains, mem_insertRows]
      constructor
      · rintro ⟨h | h, h'⟩
        · exact absurd h h'
        · exact h
      · intro h
        exact ⟨.inr h, fun h' => hno a h' h⟩
    · intro x hx
      refine ⟨rfl, fun r hr => ?_⟩
      have : ¬ r ∈ rows := fun h' => hno r h' hr
      simp only [Col.unsetRows, List.contains_iff_mem, this, ↓reduceIte]
      exact hcell x hx r hr

theorem removeUndoVals_key {tb : Table} (hnd : (tb.cols.map (·.id)).Nodup) {rows' : List Nat}
    {x : Col} (hx : x ∈ tb.cols) {cv : String × List Val} (hcv : cv ∈ tb.removeUndoVals rows')
    (hk : cv.1 = x.id) : cv.2 = rows'.map x.cells ∧ allDefault x rows' = false := by
  simp only [Table.removeUndoVals, List.mem_map, List.mem_filter] at hcv
  obtain ⟨y, ⟨hy, hnd'⟩, rfl⟩ := hcv
  have : y = x := eq_of_mem_of_id_eq hnd hy hx hk
  subst this
  exact ⟨rfl, by simpa using hnd'⟩

theorem undo_bulkRemove {d : Doc} {t : String} {rows : List Nat}
    {D : Doc} {U : List DocAction} (hwf : WF d) (hn : Normal d)
    (h : Post d (.bulkRemove t rows) D U) :
    ∃ d'', applyAll D U.reverse = .ok d'' ∧ Same d'' d := by
  obtain ⟨tb, hf, ⟨_, rfl, rfl⟩ | ⟨hne, rfl, rfl⟩⟩ := h
  · exact ⟨_, rfl, Same.refl _⟩
  · generalize hrows' : rows.filter (fun r => tb.rows.contains r) = rows' at hne
    have htb := hwf.table hf
    have hntb := hn.table hf
    have hid := (findTable?_some hf).1
    have hsub : ∀ r ∈ rows', r ∈ tb.rows := by
      intro r hr
      rw [← hrows'] at hr
      simpa using (List.mem_filter.1 hr).2
    have hpos : ∀ r ∈ rows', 0 < r := fun r hr => htb.2.2.1 r (hsub r hr)
    have hidr : (tb.removeRows rows').id = t := hid
    have hfD := findTable?_replaceTable_self (d := d) hidr hf
    have hwr := htb.removeRows rows'
    have hwr1 := hwr.addRows hpos
    have hkeys : ∀ cv ∈ tb.removeUndoVals rows',
        Table.hasCol { tb.removeRows rows' with rows := insertRows rows' (tb.removeRows rows').rows }
          cv.1 = true := by
      intro cv hcv
      simp only [Table.removeUndoVals, List.mem_map, List.mem_filter] at hcv
      obtain ⟨y, ⟨hy, _⟩, rfl⟩ := hcv
      rw [hasCol_of_map_id_eq (tb := tb)
        (by simp [Table.removeRows, List.map_map, Function.comp_def])]
      exact hasCol_of_mem hy
    have hw := writeCols_eq_written (tb.removeUndoVals rows') _ rows' hwr1.1 hkeys
    have hpost : Post (replaceTable d t (tb.removeRows rows'))
        (.bulkAdd t rows' (tb.removeUndoVals rows')) _ _ :=
      ⟨_, _, hfD, ?_, by rw [filter_ne_zero_of_pos hpos]; exact hw, rfl, rfl⟩
    · refine ⟨_, applyAll_single_of_post hpost, ?_⟩
      rw [replaceTable_replaceTable hidr]
      refine same_replaceTable hf hid ?_
      apply tableSame_map
        (fun x => Col.written rows' (tb.removeUndoVals rows') (Col.unsetRows rows' x)) (fun _ => rfl)
      · simp [Table.removeRows, Table.written, List.map_map, Function.comp_def, Col.unsetRows]
      · simp only [Table.written_rows, Table.removeRows]
        apply sorted_ext hwr1.2.1 htb.2.1
        intro a
        show a ∈ insertRows rows' (tb.rows.filter (fun r => !rows'.contains r)) ↔ a ∈ tb.rows
        rw [mem_insertRows, mem_filter_not_contains]
        constructor
        · rintro (h | h)
          · exact hsub a h
          · exact h.1
        · intro h
          by_cases h' : a ∈ rows'
          · exact .inl h'
          · exact .inr ⟨h, h'⟩
      · intro x hx
        refine ⟨rfl, fun r hr => ?_⟩
        simp only [Col.written, Col.unsetRows]
        by_cases hr' : r ∈ rows'
        · by_cases hd : allDefault x rows' = true
          · rw [writeCells_no_key]
            · simp only [List.contains_iff_mem, hr', ↓reduceIte]
              simp only [allDefault, List.all_eq_true, beq_iff_eq] at hd
              exact (hd r hr').symm
            · intro cv hcv hk
              have := (removeUndoVals_key htb.1 hx hcv hk).2
              rw [hd] at this
              exact absurd this (by simp)
          · rw [writeCells_const _ _ _ x.cells hr']
            · exact hntb x hx r
            · intro cv hcv hk
              exact (removeUndoVals_key htb.1 hx hcv hk).1
            · left
              refine ⟨(x.id, rows'.map x.cells), ?_, rfl⟩
              simp only [Table.removeUndoVals, List.mem_map, List.mem_filter]
              exact ⟨x, ⟨hx, by simpa using hd⟩, rfl⟩
        · rw [writeCells_not_mem _ _ _ hr']
          simp [hr']
    · intro x hx hx'
      simp only [Table.removeRows, List.mem_filter] at hx'
      simp [hx] at hx'

theorem updUndoVals_key {tb : Table} (hnd : (tb.cols.map (·.id)).Nodup) {rows : List Nat}
    {cols : List (String × List Val)} {x : Col} (hx : x ∈ tb.cols) {cv : String × List Val}
    (hcv : cv ∈ tb.updUndoVals rows cols) (hk : cv.1 = x.id) : cv.2 = rows.map x.cells := by
  simp only [Table.updUndoVals, List.mem_map] at hcv
  obtain ⟨y, _, rfl⟩ := hcv
  simp only at hk
  simp only [hk, findCol?_of_mem hnd hx]

theorem undo_bulkUpdate {d : Doc} {t : String} {rows : List Nat} {cols : List (String × List Val)}
    {D : Doc} {U : List DocAction} (hwf : WF d) (hn : Normal d)
    (h : Post d (.bulkUpdate t rows cols) D U) :
    ∃ d'', applyAll D U.reverse = .ok d'' ∧ Same d'' d := by
  obtain ⟨tb, tb', hf, h1, h2, hw, rfl, rfl⟩ := h
  have htb := hwf.table hf
  have hntb := hn.table hf
  have hid := (findTable?_some hf).1
  rw [writeCols_ok_iff htb.1] at hw
  obtain ⟨_, rfl⟩ := hw
  have hid2 : (tb.written rows cols).id = t := hid
  have hfD := findTable?_replaceTable_self (d := d) hid2 hf
  have hwf2 := htb.written (cols := cols) h1
  have hkeys : ∀ cv ∈ tb.updUndoVals rows cols, (tb.written rows cols).hasCol cv.1 = true := by
    intro cv hcv
    simp only [Table.updUndoVals, List.mem_map] at hcv
    obtain ⟨y, hy, rfl⟩ := hcv
    rw [Table.hasCol_written]
    exact h2 y hy
  have hw := writeCols_eq_written (tb.updUndoVals rows cols) _ rows hwf2.1 hkeys
  have hpost : Post (replaceTable d t (tb.written rows cols))
      (.bulkUpdate t rows (tb.updUndoVals rows cols)) _ _ :=
    ⟨_, _, hfD, h1, hkeys, hw, rfl, rfl⟩
  refine ⟨_, applyAll_single_of_post hpost, ?_⟩
  rw [replaceTable_replaceTable hid2]
  refine same_replaceTable hf hid ?_
  apply tableSame_map
    (fun x => Col.written rows (tb.updUndoVals rows cols) (Col.written rows cols x)) (fun _ => rfl)
  · simp [Table.written, List.map_map, Function.comp_def]
  · rfl
  · intro x hx
    refine ⟨rfl, fun r _ => ?_⟩
    simp only [Col.written]
    by_cases hr' : r ∈ rows
    · by_cases hk : ∃ cv ∈ cols, cv.1 = x.id
      · rw [writeCells_const _ _ _ x.cells hr']
        · exact hntb x hx r
        · intro cv hcv hk
          exact updUndoVals_key htb.1 hx hcv hk
        · left
          obtain ⟨cv, hcv, hcvk⟩ := hk
          refine ⟨(cv.1, rows.map (fun r =>
            match tb.findCol? cv.1 with | some col => col.cells r | none => .null)), ?_, hcvk⟩
          simp only [Table.updUndoVals, List.mem_map]
          exact ⟨cv, hcv, rfl⟩
      · have hk' : ∀ cv ∈ cols, cv.1 ≠ x.id := fun cv hcv h' => hk ⟨cv, hcv, h'⟩
        rw [writeCells_no_key, writeCells_no_key _ _ _ _ _ hk']
        intro cv hcv
        simp only [Table.updUndoVals, List.mem_map] at hcv
        obtain ⟨y, hy, rfl⟩ := hcv
        exact hk' y hy
    · rw [writeCells_not_mem _ _ _ hr', writeCells_not_mem _ _ _ hr']

end Grist.Doc
