/-
C09 helpers, part 2 (R2): the clean-up updates of `doBulkRemoveRecord` clear every reference to the
rows going away; what the document looks like after them.
-/
import GristProofs.MetaRefs
import GristProofs.DocUndoList
namespace Grist.Doc

def isL (col : Col) : Bool := pureType col.info.type == "RefList"

/-- column `(tid, c)` is the column of a spec of `S` whose target is `t` -/
def proc (S : List RefSpec) (t tid c : String) : Bool :=
  S.any (fun sp => sp.table == tid && sp.col == c && sp.target == t)

def ColRel (gone rows : List Nat) (b : Bool) (col colk : Col) : Prop :=
  colk.info = col.info ∧ ∀ r ∈ rows, colk.cells r =
    if b then cleanedCell (isL col) gone (col.cells r) else col.cells r

def TblRel (S : List RefSpec) (t : String) (gone : List Nat) (tid : String) (tb tbk : Table) : Prop :=
  tbk.rows = tb.rows ∧
    ∀ c, ORel (ColRel gone tb.rows (proc S t tid c)) (tb.findCol? c) (tbk.findCol? c)

/-- `dk` is `d` with the columns of the specs `S` (with target `t`) cleaned of `gone` -/
def CleanRel (S : List RefSpec) (t : String) (gone : List Nat) (d dk : Doc) : Prop :=
  ∀ tid, ORel (TblRel S t gone tid) (findTable? d tid) (findTable? dk tid)

theorem proc_append (S : List RefSpec) (sp : RefSpec) (t tid c : String) :
    proc (S ++ [sp]) t tid c =
      (proc S t tid c || (sp.table == tid && sp.col == c && sp.target == t)) := by
  simp [proc, List.any_append]

theorem isL_of_typed {sp : RefSpec} {col : Col}
    (h : pureType col.info.type = if sp.isList then "RefList" else "Ref") : isL col = sp.isList := by
  unfold isL
  cases hs : sp.isList <;> simp [hs] at h <;> rw [h] <;> decide

theorem cleanRel_refl (t : String) (gone : List Nat) (d : Doc) : CleanRel [] t gone d d := by
  intro tid
  apply ORel.refl'
  intro tb _
  refine ⟨rfl, fun c => ORel.refl' _ (fun col _ => ⟨rfl, fun r _ => ?_⟩)⟩
  simp [proc]

/-- a spec that produces no update (other target, missing column, or nothing to clean) -/
theorem cleanRel_noop {S : List RefSpec} {sp : RefSpec} {t : String} {gone : List Nat} {d dk : Doc}
    (h : CleanRel S t gone d dk)
    (hno : sp.target = t → ∀ tb col, findTable? d sp.table = some tb → tb.findCol? sp.col = some col →
      ∀ r ∈ tb.rows, cleanedCell (isL col) gone (col.cells r) = col.cells r) :
    CleanRel (S ++ [sp]) t gone d dk := by
  intro tid
  have ht := h tid
  cases e1 : findTable? d tid <;> cases e1' : findTable? dk tid <;> rw [e1, e1'] at ht <;>
    simp only [ORel_none_none, ORel_some_some, ORel_none_some, ORel_some_none] at ht ⊢ <;>
    try exact ht
  rename_i tb tbk
  refine ⟨ht.1, fun c => ?_⟩
  have hc := ht.2 c
  cases e2 : tb.findCol? c <;> cases e2' : tbk.findCol? c <;> rw [e2, e2'] at hc <;>
    simp only [ORel_none_none, ORel_some_some, ORel_none_some, ORel_some_none] at hc ⊢ <;>
    try exact hc
  rename_i col colk
  refine ⟨hc.1, fun r hr => ?_⟩
  rw [hc.2 r hr, proc_append]
  by_cases hm : (sp.table == tid && sp.col == c && sp.target == t) = true
  · simp only [Bool.and_eq_true, beq_iff_eq] at hm
    obtain ⟨⟨h1, h2⟩, h3⟩ := hm
    subst h1; subst h2
    have := hno h3 tb col e1 e2 r hr
    simp [this]
  · have : (sp.table == tid && sp.col == c && sp.target == t) = false := by simpa using hm
    rw [this, Bool.or_false]

theorem cleanedCell_ref_or (gone : List Nat) (v : Val) :
    cleanedCell false gone v = v ∨ cleanedCell false gone v = .int 0 := by
  unfold cleanedCell
  cases cellRefs false v with
  | none => left; rfl
  | some l =>
    by_cases h : l.any (fun k => gone.contains k) = true
    · right; simp only [h, ↓reduceIte, Bool.false_eq_true]
    · have h' : l.any (fun k => gone.contains k) = false := by simpa using h
      left; simp only [h', Bool.false_eq_true, ↓reduceIte]

/-- the update for spec `sp` (computed in `d`) applied to the partially cleaned `dk` -/
theorem cleanRel_step {S : List RefSpec} {sp : RefSpec} {t : String} {gone : List Nat}
    {d dk D : Doc} {U : List DocAction} {tb : Table} {col : Col}
    (hrel : CleanRel S t gone d dk) (hwfk : WF dk)
    (hft : findTable? d sp.table = some tb) (hfc : tb.findCol? sp.col = some col)
    (htgt : sp.target = t)
    (hty : pureType col.info.type = if sp.isList then "RefList" else "Ref")
    (hp : Post dk (.bulkUpdate sp.table
      (tb.rows.filter (fun r => cleanedCell sp.isList gone (col.cells r) != col.cells r))
      [(sp.col, (tb.rows.filter (fun r => cleanedCell sp.isList gone (col.cells r) != col.cells r)).map
        (fun r => cleanedCell sp.isList gone (col.cells r)))]) D U) :
    CleanRel (S ++ [sp]) t gone d D ∧ WF D := by
  have hwfD := (post_WF_Normal hwfk (by exact trivial) (by exact trivial) hp).1
  refine ⟨?_, hwfD⟩
  generalize hrows : tb.rows.filter (fun r => cleanedCell sp.isList gone (col.cells r) != col.cells r)
    = rows at hp
  obtain ⟨tbk, tbk', hfk, _, _, hw, rfl, _⟩ := hp
  rw [writeCols_ok_iff (hwfk.table hfk).1] at hw
  obtain ⟨_, rfl⟩ := hw
  have hidk := (findTable?_some hfk).1
  have hisl := isL_of_typed hty
  have hrel_t := hrel sp.table
  rw [hft, hfk] at hrel_t
  simp only [ORel_some_some] at hrel_t
  intro tid
  by_cases htid : tid = sp.table
  · subst htid
    rw [hft, findTable?_replaceTable_self (tb := tbk.written rows _) hidk hfk]
    simp only [ORel_some_some]
    refine ⟨hrel_t.1, fun c => ?_⟩
    rw [Table.findCol?_written]
    have hc := hrel_t.2 c
    cases e2 : tb.findCol? c <;> cases e2' : tbk.findCol? c <;> rw [e2, e2'] at hc <;>
      simp only [ORel_none_none, ORel_some_some, ORel_none_some, ORel_some_none, Option.map_none,
        Option.map_some] at hc ⊢ <;> try exact hc
    rename_i colc colk
    refine ⟨hc.1, fun r hr => ?_⟩
    have hidc := (findCol?_some e2').1
    simp only [Col.written]
    by_cases hcc : c = sp.col
    · subst hcc
      rw [hfc] at e2; cases e2
      have hpt : proc (S ++ [sp]) t sp.table sp.col = true := by
        rw [proc_append]; simp [htgt]
      rw [hpt]
      simp only [↓reduceIte, hisl]
      by_cases hrr : r ∈ rows
      · rw [writeCells_const _ _ _ (fun r => cleanedCell sp.isList gone (col.cells r)) hrr]
        · -- `Column.set` keeps the cleaned value
          rw [hc.1]
          cases hs : sp.isList with
          | true =>
            rw [hs] at hty
            exact colSet_refList (by simpa using hty) _
          | false =>
            rw [hs] at hty
            have hne : cleanedCell false gone (col.cells r) ≠ col.cells r := by
              rw [← hrows, hs] at hrr
              simpa using (List.mem_filter.1 hrr).2
            rcases cleanedCell_ref_or gone (col.cells r) with h | h
            · exact absurd h hne
            · rw [h]; exact colSet_ref_zero (by simpa using hty)
        · intro cv hcv _
          simp only [List.mem_singleton] at hcv
          subst hcv; rfl
        · left; exact ⟨_, List.mem_singleton.2 rfl, hidc.symm⟩
      · rw [writeCells_not_mem _ _ _ hrr, hc.2 r hr]
        have heq : cleanedCell sp.isList gone (col.cells r) = col.cells r := by
          rw [← hrows] at hrr
          have : ¬ (cleanedCell sp.isList gone (col.cells r) != col.cells r) = true :=
            fun h => hrr (List.mem_filter.2 ⟨hr, h⟩)
          simpa using this
        rw [hisl, heq]
        simp
    · rw [writeCells_no_key]
      · rw [hc.2 r hr, proc_append]
        have : (sp.table == sp.table && sp.col == c && sp.target == t) = false := by
          have : ¬ sp.col = c := fun h => hcc h.symm
          simp [this]
        rw [this, Bool.or_false]
      · intro cv hcv hk
        simp only [List.mem_singleton] at hcv
        subst hcv
        exact hcc (hidc.symm.trans hk.symm)
  · rw [findTable?_replaceTable_ne (tb := tbk.written rows _) hidk htid]
    have hp : ∀ c, proc (S ++ [sp]) t tid c = proc S t tid c := by
      intro c
      rw [proc_append]
      have : ¬ sp.table = tid := fun h => htid h.symm
      simp [this]
    refine (hrel tid).mono ?_
    intro a b hab
    unfold TblRel at *
    simp only [hp]
    exact hab

end Grist.Doc
