/-
`setCells` and `writeCols`: a closed form for what `writeCols` does to every column.
-/
import GristProofs.DocUndoLookup
namespace Grist.Doc

/-! ### `setCells` -/

theorem setCells_not_mem (ty : String) {r : Nat} : ∀ (rows : List Nat) (vals : List Val)
    (f : Nat → Val), r ∉ rows → setCells ty f rows vals r = f r := by
  intro rows
  induction rows with
  | nil => intro vals f _; simp [setCells]
  | cons x xs ih =>
    intro vals f h
    cases vals with
    | nil => simp [setCells]
    | cons v vs =>
      simp only [setCells]
      rw [ih vs _ (fun h' => h (List.mem_cons_of_mem _ h'))]
      have : r ≠ x := fun h' => h (by simp [h'])
      simp [setCell, this]

theorem setCells_congr_at (ty : String) {r : Nat} : ∀ (rows : List Nat) (vals : List Val)
    (f g : Nat → Val), f r = g r → setCells ty f rows vals r = setCells ty g rows vals r := by
  intro rows
  induction rows with
  | nil => intro vals f g h; simpa [setCells]
  | cons x xs ih =>
    intro vals f g h
    cases vals with
    | nil => simpa [setCells]
    | cons v vs =>
      simp only [setCells]
      apply ih
      simp [setCell, h]

theorem setCells_map (ty : String) (g : Nat → Val) {r : Nat} : ∀ (rows : List Nat)
    (f : Nat → Val), r ∈ rows → setCells ty f rows (rows.map g) r = colSet ty (g r) := by
  intro rows
  induction rows with
  | nil => intro f h; simp at h
  | cons x xs ih =>
    intro f h
    simp only [List.map_cons, setCells]
    by_cases hx : r ∈ xs
    · exact ih _ hx
    · have : r = x := by simpa [hx] using h
      subst this
      rw [setCells_not_mem ty xs _ _ hx]
      simp [setCell]

/-- every value `setCells` leaves is either the old one or a `colSet` image -/
theorem setCells_pred (ty : String) (P : Val → Prop) (hP : ∀ v, P (colSet ty v)) :
    ∀ (rows : List Nat) (vals : List Val) (f : Nat → Val), (∀ r, P (f r)) →
      ∀ r, P (setCells ty f rows vals r) := by
  intro rows
  induction rows with
  | nil => intro vals f h r; simpa [setCells] using h r
  | cons x xs ih =>
    intro vals f h r
    cases vals with
    | nil => simpa [setCells] using h r
    | cons v vs =>
      simp only [setCells]
      apply ih
      intro k
      by_cases hk : k = x <;> simp [setCell, hk, hP, h]

/-! ### `writeCols` in closed form -/

/-- the cells of column `c` (of type `ty`) after `writeCols _ rows cols` -/
def writeCells (ty : String) (rows : List Nat) (c : String) :
    List (String × List Val) → (Nat → Val) → (Nat → Val)
  | [], f => f
  | (c', vals) :: rest, f =>
    writeCells ty rows c rest (if c' = c then setCells ty f rows vals else f)

def Col.written (rows : List Nat) (cols : List (String × List Val)) (col : Col) : Col :=
  { col with cells := writeCells col.info.type rows col.id cols col.cells }

def Table.written (tb : Table) (rows : List Nat) (cols : List (String × List Val)) : Table :=
  { tb with cols := tb.cols.map (Col.written rows cols) }

@[simp] theorem Col.written_id (rows : List Nat) (cols : List (String × List Val)) (col : Col) :
    (col.written rows cols).id = col.id := rfl
@[simp] theorem Col.written_info (rows : List Nat) (cols : List (String × List Val)) (col : Col) :
    (col.written rows cols).info = col.info := rfl
@[simp] theorem Table.written_id (tb : Table) (rows : List Nat) (cols : List (String × List Val)) :
    (tb.written rows cols).id = tb.id := rfl
@[simp] theorem Table.written_rows (tb : Table) (rows : List Nat) (cols : List (String × List Val)) :
    (tb.written rows cols).rows = tb.rows := rfl
@[simp] theorem Table.written_nil (tb : Table) (rows : List Nat) : tb.written rows [] = tb := by
  cases tb with
  | mk id cols rws =>
    simp only [Table.written, Table.mk.injEq, true_and, and_true]
    conv => rhs; rw [← List.map_id cols]
    apply List.map_congr_left
    intro x _; rfl

theorem Table.written_map_id (tb : Table) (rows : List Nat) (cols : List (String × List Val)) :
    (tb.written rows cols).cols.map (·.id) = tb.cols.map (·.id) := by
  simp [Table.written, List.map_map, Function.comp_def]

theorem Table.findCol?_written (tb : Table) (rows : List Nat) (cols : List (String × List Val))
    (c : String) : (tb.written rows cols).findCol? c = (tb.findCol? c).map (Col.written rows cols) :=
  find_key_map Col.id _ (fun _ => rfl)

theorem Table.hasCol_written (tb : Table) (rows : List Nat) (cols : List (String × List Val))
    (c : String) : (tb.written rows cols).hasCol c = tb.hasCol c := by
  simp [Table.hasCol, Table.findCol?_written]

theorem writeCols_eq_written : ∀ (cols : List (String × List Val)) (tb : Table) (rows : List Nat),
    (tb.cols.map (·.id)).Nodup → (∀ cv ∈ cols, tb.hasCol cv.1 = true) →
    writeCols tb rows cols = .ok (tb.written rows cols) := by
  intro cols
  induction cols with
  | nil => intro tb rows _ _; simp [writeCols]
  | cons cv rest ih =>
    intro tb rows hnd hall
    obtain ⟨c, vals⟩ := cv
    have hc : tb.hasCol c = true := hall (c, vals) (by simp)
    obtain ⟨col, hcol⟩ := hasCol_eq_true.1 hc
    simp only [writeCols, hcol]
    have hids : ((tb.replaceCol c { col with cells := setCells col.info.type col.cells rows vals }).cols.map
        (·.id)) = tb.cols.map (·.id) := by
      simp only [Table.replaceCol, List.map_map]
      apply List.map_congr_left
      intro x _
      by_cases hx : x.id = c
      · simp [hx, (findCol?_some hcol).1]
      · simp [hx]
    rw [ih _ rows (by rw [hids]; exact hnd)]
    · congr 1
      simp only [Table.written, Table.replaceCol, List.map_map]
      congr 1
      apply List.map_congr_left
      intro x hx
      by_cases hxc : x.id = c
      · have hxcol : x = col := by
          have := findCol?_of_mem hnd hx
          rw [hxc, hcol] at this
          exact (Option.some.inj this).symm
        subst hxcol
        simp [hxc, Col.written, writeCells]
      · have : ¬ c = x.id := fun h => hxc h.symm
        simp [hxc, Col.written, writeCells, this]
    · intro cv hcv
      have := hall cv (List.mem_cons_of_mem _ hcv)
      simp only [Table.hasCol, Table.findCol?] at this ⊢
      rw [show (tb.replaceCol c { col with cells := setCells col.info.type col.cells rows vals }).cols =
        tb.cols.map (fun x => if x.id == c then
          { col with cells := setCells col.info.type col.cells rows vals } else x) from rfl]
      rw [find_key_map Col.id]
      · simpa using this
      · intro x
        by_cases hx : x.id = c
        · simp [hx, (findCol?_some hcol).1]
        · simp [hx]

theorem writeCols_ok_hasCol : ∀ (cols : List (String × List Val)) (tb tb' : Table) (rows : List Nat),
    writeCols tb rows cols = .ok tb' → ∀ cv ∈ cols, tb.hasCol cv.1 = true := by
  intro cols
  induction cols with
  | nil => intro tb tb' rows _ cv h; simp at h
  | cons cv rest ih =>
    intro tb tb' rows h cv' hcv'
    obtain ⟨c, vals⟩ := cv
    simp only [writeCols] at h
    cases hcol : tb.findCol? c with
    | none => simp [hcol] at h
    | some col =>
      simp only [hcol] at h
      rcases List.mem_cons.1 hcv' with rfl | hm
      · exact hasCol_eq_true.2 ⟨col, hcol⟩
      · have := ih _ _ _ h cv' hm
        simp only [Table.hasCol, Table.findCol?] at this ⊢
        rw [show (tb.replaceCol c { col with cells := setCells col.info.type col.cells rows vals }).cols =
          tb.cols.map (fun x => if x.id == c then
            { col with cells := setCells col.info.type col.cells rows vals } else x) from rfl] at this
        rw [find_key_map Col.id] at this
        · simpa using this
        · intro x
          by_cases hx : x.id = c
          · simp [hx, (findCol?_some hcol).1]
          · simp [hx]

/-- `writeCols` succeeds exactly when every named column exists, and then equals `written`. -/
theorem writeCols_ok_iff {cols : List (String × List Val)} {tb tb' : Table} {rows : List Nat}
    (hnd : (tb.cols.map (·.id)).Nodup) :
    writeCols tb rows cols = .ok tb' ↔
      (∀ cv ∈ cols, tb.hasCol cv.1 = true) ∧ tb' = tb.written rows cols := by
  constructor
  · intro h
    have hall := writeCols_ok_hasCol cols tb tb' rows h
    rw [writeCols_eq_written cols tb rows hnd hall] at h
    exact ⟨hall, (Except.ok.inj h).symm⟩
  · rintro ⟨hall, rfl⟩
    exact writeCols_eq_written cols tb rows hnd hall

/-! ### facts about `writeCells` -/

theorem writeCells_not_mem (ty : String) (rows : List Nat) (c : String) {r : Nat} (hr : r ∉ rows) :
    ∀ (cols : List (String × List Val)) (f : Nat → Val), writeCells ty rows c cols f r = f r := by
  intro cols
  induction cols with
  | nil => intro f; rfl
  | cons cv rest ih =>
    intro f
    obtain ⟨c', vals⟩ := cv
    simp only [writeCells]
    rw [ih]
    split
    · exact setCells_not_mem ty rows vals f hr
    · rfl

theorem writeCells_no_key (ty : String) (rows : List Nat) (c : String) :
    ∀ (cols : List (String × List Val)) (f : Nat → Val), (∀ cv ∈ cols, cv.1 ≠ c) →
      writeCells ty rows c cols f = f := by
  intro cols
  induction cols with
  | nil => intro f _; rfl
  | cons cv rest ih =>
    intro f h
    obtain ⟨c', vals⟩ := cv
    have : ¬ c' = c := h (c', vals) (by simp)
    simp only [writeCells, this, ↓reduceIte]
    exact ih f (fun cv hcv => h cv (List.mem_cons_of_mem _ hcv))

theorem writeCells_congr_at (ty : String) (rows : List Nat) (c : String) {r : Nat} :
    ∀ (cols : List (String × List Val)) (f g : Nat → Val), f r = g r →
      writeCells ty rows c cols f r = writeCells ty rows c cols g r := by
  intro cols
  induction cols with
  | nil => intro f g h; exact h
  | cons cv rest ih =>
    intro f g h
    obtain ⟨c', vals⟩ := cv
    simp only [writeCells]
    apply ih
    split
    · exact setCells_congr_at ty rows vals f g h
    · exact h

theorem writeCells_pred (ty : String) (rows : List Nat) (c : String) (P : Val → Prop)
    (hP : ∀ v, P (colSet ty v)) :
    ∀ (cols : List (String × List Val)) (f : Nat → Val), (∀ r, P (f r)) →
      ∀ r, P (writeCells ty rows c cols f r) := by
  intro cols
  induction cols with
  | nil => intro f h; exact h
  | cons cv rest ih =>
    intro f h
    obtain ⟨c', vals⟩ := cv
    simp only [writeCells]
    apply ih
    split
    · exact setCells_pred ty P hP rows vals f h
    · exact h

/-- when every entry for column `c` carries the values `rows.map g`, the cells at `rows` end as
    `colSet ty (g r)` -/
theorem writeCells_const (ty : String) (rows : List Nat) (c : String) (g : Nat → Val) {r : Nat}
    (hr : r ∈ rows) :
    ∀ (cols : List (String × List Val)) (f : Nat → Val),
      (∀ cv ∈ cols, cv.1 = c → cv.2 = rows.map g) →
      ((∃ cv ∈ cols, cv.1 = c) ∨ f r = colSet ty (g r)) →
      writeCells ty rows c cols f r = colSet ty (g r) := by
  intro cols
  induction cols with
  | nil =>
    intro f _ h
    rcases h with ⟨cv, hcv, _⟩ | h
    · simp at hcv
    · exact h
  | cons cv rest ih =>
    intro f hall h
    obtain ⟨c', vals⟩ := cv
    simp only [writeCells]
    apply ih _ (fun cv hcv => hall cv (List.mem_cons_of_mem _ hcv))
    by_cases hc : c' = c
    · right
      have : vals = rows.map g := hall (c', vals) (by simp) hc
      simp only [hc, ↓reduceIte, this]
      exact setCells_map ty g rows f hr
    · simp only [hc, ↓reduceIte]
      rcases h with ⟨cv, hcv, hcvc⟩ | h
      · left
        rcases List.mem_cons.1 hcv with rfl | hm
        · exact absurd hcvc hc
        · exact ⟨cv, hm, hcvc⟩
      · right; exact h

end Grist.Doc
