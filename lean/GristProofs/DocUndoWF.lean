/-
S1: every doc action preserves well-formedness (`WF`) and normalisation of cells (`Normal`).
-/
import GristProofs.DocUndoPost
namespace Grist.Doc

/-- every stored cell is a fixed point of its column's `Column.set` normalisation (true of every
    cell the doc actions themselves write) -/
def Table.Normal (tb : Table) : Prop :=
  ∀ col ∈ tb.cols, ∀ r, colSet col.info.type (col.cells r) = col.cells r

def Normal (d : Doc) : Prop := ∀ tb ∈ d, tb.Normal

/-- `AddTable` names each column once. -/
def DocAction.colsDistinct : DocAction → Prop
  | .addTable _ cols => (cols.map (·.1)).Nodup
  | _ => True

theorem nodup_map_append_single {α : Type} (key : α → String) {l : List α} {x : α}
    (h : (l.map key).Nodup) (hx : ∀ y ∈ l, key y ≠ key x) : ((l ++ [x]).map key).Nodup := by
  rw [List.map_append, List.nodup_append]
  refine ⟨h, by simp, ?_⟩
  intro a ha b hb
  simp only [List.map_cons, List.map_nil, List.mem_singleton] at hb
  subst hb
  obtain ⟨y, hy, rfl⟩ := List.mem_map.1 ha
  exact hx y hy

theorem WF.table {d : Doc} (h : WF d) {t : String} {tb : Table} (hf : findTable? d t = some tb) :
    tb.WF := h.2 tb (findTable?_some hf).2

theorem Normal.table {d : Doc} (h : Normal d) {t : String} {tb : Table}
    (hf : findTable? d t = some tb) : tb.Normal := h tb (findTable?_some hf).2

theorem WF.replaceTable {d : Doc} (h : WF d) {t : String} {tb' : Table} (hid : tb'.id = t)
    (hwf : tb'.WF) : WF (replaceTable d t tb') := by
  refine ⟨by rw [map_id_replaceTable hid]; exact h.1, ?_⟩
  intro x hx
  rcases mem_replaceTable hx with rfl | hx
  · exact hwf
  · exact h.2 x hx

theorem Normal.replaceTable {d : Doc} (h : Normal d) {t : String} {tb' : Table}
    (hn : tb'.Normal) : Normal (replaceTable d t tb') := by
  intro x hx
  rcases mem_replaceTable hx with rfl | hx
  · exact hn
  · exact h x hx

/-! ### table-level preservation -/

theorem Table.Normal.of_cols {tb tb' : Table} (h : tb.Normal) (he : tb'.cols = tb.cols) :
    tb'.Normal := by
  intro col hcol r
  rw [he] at hcol
  exact h col hcol r

theorem Table.WF.written {tb : Table} (h : tb.WF) {rows : List Nat} {cols : List (String × List Val)}
    (hrows : ∀ r ∈ rows, r ∈ tb.rows) : (tb.written rows cols).WF := by
  obtain ⟨h1, h2, h3, h4⟩ := h
  refine ⟨by rw [Table.written_map_id]; exact h1, h2, h3, ?_⟩
  intro col hcol r hr
  obtain ⟨x, hx, rfl⟩ := List.mem_map.1 hcol
  simp only [Col.written]
  rw [writeCells_not_mem _ _ _ (fun h' => hr (hrows r h'))]
  exact h4 x hx r hr

theorem Table.Normal.written {tb : Table} (h : tb.Normal) (rows : List Nat)
    (cols : List (String × List Val)) : (tb.written rows cols).Normal := by
  intro col hcol r
  obtain ⟨x, hx, rfl⟩ := List.mem_map.1 hcol
  exact writeCells_pred x.info.type rows x.id (fun v => colSet x.info.type v = v)
    (colSet_idem _) cols x.cells (h x hx) r

theorem Table.WF.addRows {tb : Table} (h : tb.WF) {rows : List Nat} (hpos : ∀ r ∈ rows, 0 < r) :
    Table.WF { tb with rows := insertRows rows tb.rows } := by
  obtain ⟨h1, h2, h3, h4⟩ := h
  refine ⟨h1, pairwise_insertRows h2, ?_, ?_⟩
  · intro r hr
    rcases mem_insertRows.1 hr with hr | hr
    · exact hpos r hr
    · exact h3 r hr
  · intro col hcol r hr
    exact h4 col hcol r (fun h' => hr (mem_insertRows.2 (.inr h')))

theorem Table.WF.removeRows {tb : Table} (h : tb.WF) (rows' : List Nat) : (tb.removeRows rows').WF := by
  obtain ⟨h1, h2, h3, h4⟩ := h
  refine ⟨?_, h2.filter _, ?_, ?_⟩
  · simp only [Table.removeRows, List.map_map]
    exact h1
  · intro r hr
    exact h3 r (List.mem_filter.1 hr).1
  · intro col hcol r hr
    obtain ⟨x, hx, rfl⟩ := List.mem_map.1 hcol
    simp only [Table.removeRows, List.mem_filter, not_and] at hr
    by_cases hc : r ∈ rows'
    · simp [hc]
    · simp only [List.contains_iff_mem, hc, ↓reduceIte]
      apply h4 x hx r
      intro hmem
      exact hr hmem (by simpa using hc)

theorem Table.Normal.removeRows {tb : Table} (h : tb.Normal) (rows' : List Nat) :
    (tb.removeRows rows').Normal := by
  intro col hcol r
  obtain ⟨x, hx, rfl⟩ := List.mem_map.1 hcol
  by_cases hc : r ∈ rows'
  · simp [hc, colSet_typeDefault]
  · simp only [List.contains_iff_mem, hc, ↓reduceIte]
    exact h x hx r

theorem Table.WF.cleared (tb : Table) (h : tb.WF) {rows : List Nat} (hpos : ∀ r ∈ rows, 0 < r) :
    (tb.cleared (insertRows rows [])).WF := by
  obtain ⟨h1, h2, h3, h4⟩ := h
  refine ⟨?_, pairwise_insertRows List.Pairwise.nil, ?_, ?_⟩
  · simp only [Table.cleared, List.map_map]
    exact h1
  · intro r hr
    rcases mem_insertRows.1 hr with hr | hr
    · exact hpos r hr
    · simp at hr
  · intro col hcol r _
    obtain ⟨x, hx, rfl⟩ := List.mem_map.1 hcol
    rfl

theorem Table.Normal.cleared (tb : Table) (rows : List Nat) : (tb.cleared rows).Normal := by
  intro col hcol r
  obtain ⟨x, hx, rfl⟩ := List.mem_map.1 hcol
  exact colSet_typeDefault _

theorem Table.WF.addCol {tb : Table} (h : tb.WF) {col : Col} (hc : tb.hasCol col.id = false)
    (hd : ∀ r, r ∉ tb.rows → col.cells r = typeDefault col.info.type) :
    Table.WF { tb with cols := tb.cols ++ [col] } := by
  obtain ⟨h1, h2, h3, h4⟩ := h
  refine ⟨nodup_map_append_single Col.id h1 (findCol?_none.1 (hasCol_eq_false.1 hc)), h2, h3, ?_⟩
  intro x hx r hr
  rcases List.mem_append.1 hx with hx | hx
  · exact h4 x hx r hr
  · simp only [List.mem_singleton] at hx
    subst hx
    exact hd r hr

theorem Table.WF.dropCol {tb : Table} (h : tb.WF) (c : String) :
    Table.WF { tb with cols := tb.cols.filter (fun x => x.id != c) } := by
  obtain ⟨h1, h2, h3, h4⟩ := h
  refine ⟨map_key_filter_nodup Col.id _ h1, h2, h3, ?_⟩
  intro x hx r hr
  exact h4 x (List.mem_filter.1 hx).1 r hr

/-- drop column `c`, then append a column with an id not used by the remaining ones -/
theorem Table.WF.swapCol {tb : Table} (h : tb.WF) (c : String) {col : Col}
    (hc : ∀ x ∈ tb.cols, x.id ≠ c → x.id ≠ col.id)
    (hd : ∀ r, r ∉ tb.rows → col.cells r = typeDefault col.info.type) :
    Table.WF { tb with cols := tb.cols.filter (fun x => x.id != c) ++ [col] } := by
  have h' := h.dropCol c
  obtain ⟨h1, h2, h3, h4⟩ := h'
  refine ⟨nodup_map_append_single Col.id h1 ?_, h2, h3, ?_⟩
  · intro y hy
    have := List.mem_filter.1 hy
    exact hc y this.1 (by simpa using this.2)
  · intro x hx r hr
    rcases List.mem_append.1 hx with hx | hx
    · exact h4 x hx r hr
    · simp only [List.mem_singleton] at hx
      subst hx
      exact hd r hr

theorem Table.Normal.swapCol {tb : Table} (h : tb.Normal) (c : String) {col : Col}
    (hn : ∀ r, colSet col.info.type (col.cells r) = col.cells r) :
    Table.Normal { tb with cols := tb.cols.filter (fun x => x.id != c) ++ [col] } := by
  intro x hx r
  rcases List.mem_append.1 hx with hx | hx
  · exact h x (List.mem_filter.1 hx).1 r
  · simp only [List.mem_singleton] at hx
    subst hx
    exact hn r

theorem newCol_normal (c : String) (info : ColInfo) (r : Nat) :
    colSet (newCol c info).info.type ((newCol c info).cells r) = (newCol c info).cells r :=
  colSet_typeDefault _

theorem modCol_normal (tb : Table) (col : Col) (c : String) (p : ColPatch) (r : Nat) :
    colSet (modCol tb col c p).info.type ((modCol tb col c p).cells r) = (modCol tb col c p).cells r := by
  simp only [modCol]
  split
  · exact colSet_idem _ _
  · exact colSet_typeDefault _

theorem newTable_WF (t : String) {cols : List (String × ColInfo)} (h : (cols.map (·.1)).Nodup) :
    (newTable t cols).WF := by
  refine ⟨?_, List.Pairwise.nil, by simp [newTable], ?_⟩
  · simp only [newTable, List.map_map]
    exact h
  · intro col hcol r _
    obtain ⟨x, hx, rfl⟩ := List.mem_map.1 hcol
    rfl

theorem newTable_Normal (t : String) (cols : List (String × ColInfo)) : (newTable t cols).Normal := by
  intro col hcol r
  obtain ⟨x, hx, rfl⟩ := List.mem_map.1 hcol
  exact colSet_typeDefault _

/-! ### S1 -/

theorem post_WF_Normal {d : Doc} {a : DocAction} {D : Doc} {U : List DocAction} (hwf : WF d)
    (hpos : a.rowsPositive) (hcd : a.colsDistinct) (h : Post d a D U) :
    WF D ∧ (Normal d → Normal D) := by
  cases a with
  | bulkAdd t rows cols =>
    obtain ⟨tb, tb2, hf, hno, hw, rfl, rfl⟩ := h
    have htb := hwf.table hf
    have hid := (findTable?_some hf).1
    rw [filter_ne_zero_of_pos hpos] at hw
    have h1 := htb.addRows hpos
    rw [writeCols_ok_iff h1.1] at hw
    obtain ⟨_, rfl⟩ := hw
    refine ⟨hwf.replaceTable hid (h1.written (fun r hr => mem_insertRows.2 (.inl hr))), ?_⟩
    intro hn
    exact hn.replaceTable (Table.Normal.written (tb := { tb with rows := insertRows rows tb.rows })
      ((hn.table hf).of_cols rfl) rows cols)
  | bulkRemove t rows =>
    obtain ⟨tb, hf, ⟨_, rfl, rfl⟩ | ⟨_, rfl, rfl⟩⟩ := h
    · exact ⟨hwf, id⟩
    · have hid := (findTable?_some hf).1
      exact ⟨hwf.replaceTable hid ((hwf.table hf).removeRows _),
        fun hn => hn.replaceTable ((hn.table hf).removeRows _)⟩
  | bulkUpdate t rows cols =>
    obtain ⟨tb, tb', hf, h1, h2, hw, rfl, rfl⟩ := h
    have htb := hwf.table hf
    have hid := (findTable?_some hf).1
    rw [writeCols_ok_iff htb.1] at hw
    obtain ⟨_, rfl⟩ := hw
    exact ⟨hwf.replaceTable hid (htb.written h1), fun hn => hn.replaceTable ((hn.table hf).written _ _)⟩
  | replaceData t rows cols =>
    obtain ⟨tb, tb2, hf, hw, rfl, rfl⟩ := h
    have htb := hwf.table hf
    have hid := (findTable?_some hf).1
    rw [filter_ne_zero_of_pos hpos] at hw
    have h1 := Table.WF.cleared tb htb hpos
    rw [writeCols_ok_iff h1.1] at hw
    obtain ⟨_, rfl⟩ := hw
    exact ⟨hwf.replaceTable hid (h1.written (fun r hr => mem_insertRows.2 (.inl hr))),
      fun hn => hn.replaceTable ((Table.Normal.cleared tb _).written _ _)⟩
  | addColumn t c info =>
    obtain ⟨tb, hf, h1, rfl, rfl⟩ := h
    have htb := hwf.table hf
    have hid := (findTable?_some hf).1
    refine ⟨hwf.replaceTable hid (htb.addCol (col := newCol c info) h1 (fun _ _ => rfl)), ?_⟩
    intro hn
    apply hn.replaceTable
    intro x hx r
    rcases List.mem_append.1 hx with hx | hx
    · exact hn.table hf x hx r
    · simp only [List.mem_singleton] at hx
      subst hx
      exact newCol_normal c info r
  | removeColumn t c =>
    obtain ⟨tb, col, hf, hc, rfl, rfl⟩ := h
    have htb := hwf.table hf
    have hid := (findTable?_some hf).1
    refine ⟨hwf.replaceTable hid (htb.dropCol c), ?_⟩
    intro hn
    apply hn.replaceTable
    intro x hx r
    exact hn.table hf x (List.mem_filter.1 hx).1 r
  | renameColumn t old new =>
    obtain ⟨tb, col, hf, hc, h1, rfl, rfl⟩ := h
    have htb := hwf.table hf
    have hid := (findTable?_some hf).1
    have hcol := findCol?_some hc
    refine ⟨hwf.replaceTable hid (htb.swapCol old (col := { col with id := new }) ?_ ?_), ?_⟩
    · intro x hx _
      exact findCol?_none.1 (hasCol_eq_false.1 h1) x hx
    · intro r hr
      exact htb.2.2.2 col hcol.2 r hr
    · intro hn
      apply hn.replaceTable
      exact (hn.table hf).swapCol old (col := { col with id := new }) (hn.table hf col hcol.2)
  | modifyColumn t c p =>
    obtain ⟨tb, col, hf, hc, ⟨_, rfl, rfl⟩ | ⟨_, rfl, rfl⟩⟩ := h
    · exact ⟨hwf, id⟩
    · have htb := hwf.table hf
      have hid := (findTable?_some hf).1
      refine ⟨hwf.replaceTable hid (htb.swapCol c (col := modCol tb col c p) ?_ ?_), ?_⟩
      · intro x _ hx
        exact hx
      · intro r hr
        simp [modCol, hr]
      · intro hn
        apply hn.replaceTable
        exact (hn.table hf).swapCol c (modCol_normal tb col c p)
  | addTable t cols =>
    obtain ⟨hf, rfl, rfl⟩ := h
    refine ⟨⟨nodup_map_append_single Table.id hwf.1 (findTable?_none.1 hf), ?_⟩, ?_⟩
    · intro x hx
      rcases List.mem_append.1 hx with hx | hx
      · exact hwf.2 x hx
      · simp only [List.mem_singleton] at hx
        subst hx
        exact newTable_WF t hcd
    · intro hn x hx
      rcases List.mem_append.1 hx with hx | hx
      · exact hn x hx
      · simp only [List.mem_singleton] at hx
        subst hx
        exact newTable_Normal t cols
  | removeTable t =>
    obtain ⟨tb, hf, rfl, rfl⟩ := h
    exact ⟨⟨map_key_filter_nodup Table.id _ hwf.1, fun x hx => hwf.2 x (List.mem_filter.1 hx).1⟩,
      fun hn x hx => hn x (List.mem_filter.1 hx).1⟩
  | renameTable old new =>
    obtain ⟨tb, hf, hn, rfl, rfl⟩ := h
    have htb := hwf.table hf
    refine ⟨⟨nodup_map_append_single Table.id (map_key_filter_nodup Table.id _ hwf.1) ?_, ?_⟩, ?_⟩
    · intro y hy
      exact findTable?_none.1 hn y (List.mem_filter.1 hy).1
    · intro x hx
      rcases List.mem_append.1 hx with hx | hx
      · exact hwf.2 x (List.mem_filter.1 hx).1
      · simp only [List.mem_singleton] at hx
        subst hx
        exact htb
    · intro hnm x hx
      rcases List.mem_append.1 hx with hx | hx
      · exact hnm x (List.mem_filter.1 hx).1
      · simp only [List.mem_singleton] at hx
        subst hx
        exact (hnm.table hf).of_cols rfl

end Grist.Doc
