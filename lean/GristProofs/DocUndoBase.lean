/-
Base lemmas for the undo-correctness proofs of the document model (GristModel/Doc, Engine, DocSpec):
`colSet` normalisation, lookups, `insertRows`, `setCells`, `writeCols`, `Same` as an equivalence.
-/
import GristModel.DocSpec
namespace Grist.Doc

/-! ### `colSet` -/

def csBool (v : Val) : Val :=
    match v with
    | .int 1 => .bool true
    | .int 0 => .bool false
    | .flt "1.0" => .bool true
    | .flt "0.0" => .bool false
    | .flt "-0.0" => .bool false
    | v => v
def csRef (v : Val) : Val :=
    match v with
    | .flt s => match posIntegralFloat? s with | some k => .int k | none => v
    | v => v
def csNum (v : Val) : Val :=
      match v with
      | .int i => .flt (toString i ++ ".0")
      | v => v

theorem colSet_cases (t : String) : (∀ v, colSet t v = csBool v) ∨ (∀ v, colSet t v = csRef v) ∨
    (∀ v, colSet t v = csNum v) ∨ (∀ v, colSet t v = v) := by
  unfold colSet
  generalize pureType t = p
  split
  · exact .inl fun v => rfl
  · exact .inr (.inl fun v => rfl)
  · by_cases h : isNumericLike t = true
    · exact .inr (.inr (.inl fun v => by simp [h]; rfl))
    · exact .inr (.inr (.inr fun v => by simp [h]))

theorem csBool_or (v : Val) : csBool v = v ∨ ∃ b, csBool v = .bool b := by
  unfold csBool
  split <;> simp

theorem csBool_idem (v : Val) : csBool (csBool v) = csBool v := by
  rcases csBool_or v with h | ⟨b, h⟩
  · rw [h, h]
  · rw [h]; rfl
  
theorem csRef_idem (v : Val) : csRef (csRef v) = csRef v := by
  cases v <;> try rfl
  rename_i s
  simp only [csRef]
  cases h : posIntegralFloat? s with
  | none => simp [h]
  | some k => simp

theorem csNum_idem (v : Val) : csNum (csNum v) = csNum v := by
  cases v <;> rfl

theorem colSet_idem (t : String) (v : Val) : colSet t (colSet t v) = colSet t v := by
  rcases colSet_cases t with h | h | h | h <;> simp only [h]
  · exact csBool_idem v
  · exact csRef_idem v
  · exact csNum_idem v

theorem colSet_typeDefault (t : String) : colSet t (typeDefault t) = typeDefault t := by
  unfold colSet typeDefault isNumericLike
  generalize pureType t = p
  split
  · rfl
  · rfl
  · rename_i h1 h2
    split <;> (try rfl) <;> simp_all

theorem colSet_str (t s : String) : colSet t (.str s) = .str s := by
  rcases colSet_cases t with h | h | h | h <;> rw [h] <;> rfl

theorem colSet_bool (t : String) (b : Bool) : colSet t (.bool b) = .bool b := by
  rcases colSet_cases t with h | h | h | h <;> rw [h] <;> rfl

theorem colSet_null (t : String) : colSet t .null = .null := by
  rcases colSet_cases t with h | h | h | h <;> rw [h] <;> rfl

/-! ### relation on options -/

def ORel {α β : Type} (R : α → β → Prop) : Option α → Option β → Prop
  | none, none => True
  | some a, some b => R a b
  | _, _ => False

@[simp] theorem ORel_none_none {α β : Type} (R : α → β → Prop) : ORel R none none = True := rfl
@[simp] theorem ORel_some_some {α β : Type} (R : α → β → Prop) (a : α) (b : β) :
    ORel R (some a) (some b) = R a b := rfl
@[simp] theorem ORel_none_some {α β : Type} (R : α → β → Prop) (b : β) :
    ORel R none (some b) = False := rfl
@[simp] theorem ORel_some_none {α β : Type} (R : α → β → Prop) (a : α) :
    ORel R (some a) none = False := rfl

theorem ORel.left_some {α β : Type} {R : α → β → Prop} {a : α} {y : Option β}
    (h : ORel R (some a) y) : ∃ b, y = some b ∧ R a b := by
  cases y with
  | none => simp at h
  | some b => exact ⟨b, rfl, h⟩

theorem ORel.right_some {α β : Type} {R : α → β → Prop} {x : Option α} {b : β}
    (h : ORel R x (some b)) : ∃ a, x = some a ∧ R a b := by
  cases x with
  | none => simp at h
  | some a => exact ⟨a, rfl, h⟩

theorem ORel.left_none {α β : Type} {R : α → β → Prop} {y : Option β}
    (h : ORel R none y) : y = none := by
  cases y with
  | none => rfl
  | some b => simp at h

theorem ORel.right_none {α β : Type} {R : α → β → Prop} {x : Option α}
    (h : ORel R x none) : x = none := by
  cases x with
  | none => rfl
  | some b => simp at h

theorem ORel.mono {α β : Type} {R S : α → β → Prop} {x : Option α} {y : Option β}
    (h : ORel R x y) (hRS : ∀ a b, R a b → S a b) : ORel S x y := by
  cases x <;> cases y <;> simp_all

theorem ORel.refl' {α : Type} {R : α → α → Prop} (x : Option α) (h : ∀ a, x = some a → R a a) :
    ORel R x x := by
  cases x <;> simp_all

theorem ORel.symm' {α β : Type} {R : α → β → Prop} {S : β → α → Prop} {x : Option α} {y : Option β}
    (h : ORel R x y) (hRS : ∀ a b, R a b → S b a) : ORel S y x := by
  cases x <;> cases y <;> simp_all

theorem ORel.trans' {α β γ : Type} {R : α → β → Prop} {S : β → γ → Prop} {T : α → γ → Prop}
    {x : Option α} {y : Option β} {z : Option γ}
    (h1 : ORel R x y) (h2 : ORel S y z) (hT : ∀ a b c, R a b → S b c → T a c) : ORel T x z := by
  cases x <;> cases y <;> cases z <;> simp_all
  exact hT _ _ _ h1 h2

/-! ### `Same` through `ORel` -/

theorem tableSame_iff (a b : Table) : Table.Same a b ↔
    a.rows = b.rows ∧ ∀ c, ORel (Col.SameOn a.rows) (a.findCol? c) (b.findCol? c) := by
  unfold Table.Same
  constructor
  · rintro ⟨h1, h2⟩
    refine ⟨h1, fun c => ?_⟩
    have := h2 c
    cases hx : a.findCol? c <;> cases hy : b.findCol? c <;> simp_all
  · rintro ⟨h1, h2⟩
    refine ⟨h1, fun c => ?_⟩
    have := h2 c
    cases hx : a.findCol? c <;> cases hy : b.findCol? c <;> simp_all

theorem same_iff (a b : Doc) : Same a b ↔
    ∀ t, ORel Table.Same (findTable? a t) (findTable? b t) := by
  unfold Same
  constructor
  · intro h t
    have := h t
    cases hx : findTable? a t <;> cases hy : findTable? b t <;> simp_all
  · intro h t
    have := h t
    cases hx : findTable? a t <;> cases hy : findTable? b t <;> simp_all

theorem Col.SameOn.refl (rows : List Nat) (a : Col) : Col.SameOn rows a a := ⟨rfl, fun _ _ => rfl⟩
theorem Col.SameOn.symm {rows : List Nat} {a b : Col} (h : Col.SameOn rows a b) :
    Col.SameOn rows b a := ⟨h.1.symm, fun r hr => (h.2 r hr).symm⟩
theorem Col.SameOn.trans {rows : List Nat} {a b c : Col} (h1 : Col.SameOn rows a b)
    (h2 : Col.SameOn rows b c) : Col.SameOn rows a c :=
  ⟨h1.1.trans h2.1, fun r hr => (h1.2 r hr).trans (h2.2 r hr)⟩

theorem Table.Same.refl (a : Table) : Table.Same a a := by
  rw [tableSame_iff]
  exact ⟨rfl, fun c => ORel.refl' _ (fun x _ => Col.SameOn.refl _ x)⟩

theorem Table.Same.symm {a b : Table} (h : Table.Same a b) : Table.Same b a := by
  rw [tableSame_iff] at h ⊢
  refine ⟨h.1.symm, fun c => ?_⟩
  rw [← h.1]
  exact (h.2 c).symm' (fun _ _ => Col.SameOn.symm)

theorem Table.Same.trans {a b c : Table} (h1 : Table.Same a b) (h2 : Table.Same b c) :
    Table.Same a c := by
  rw [tableSame_iff] at h1 h2 ⊢
  refine ⟨h1.1.trans h2.1, fun k => ?_⟩
  have h2' := h2.2 k
  rw [← h1.1] at h2'
  exact (h1.2 k).trans' h2' (fun _ _ _ => Col.SameOn.trans)

theorem Same.refl (a : Doc) : Same a a := by
  rw [same_iff]; exact fun t => ORel.refl' _ (fun x _ => Table.Same.refl x)

theorem Same.symm {a b : Doc} (h : Same a b) : Same b a := by
  rw [same_iff] at h ⊢
  exact fun t => (h t).symm' (fun _ _ => Table.Same.symm)

theorem Same.trans {a b c : Doc} (h1 : Same a b) (h2 : Same b c) : Same a c := by
  rw [same_iff] at h1 h2 ⊢
  exact fun t => (h1 t).trans' (h2 t) (fun _ _ _ => Table.Same.trans)

end Grist.Doc
