/-
C09 helpers, part 4: the removal after the clean-up (R2), frame lemmas for record actions (R3).
-/
import GristProofs.MetaRefsCleanup2
namespace Grist.Doc

theorem all_congr' {α : Type} {l : List α} {f g : α → Bool} (h : ∀ x ∈ l, f x = g x) :
    l.all f = l.all g := by
  induction l with
  | nil => rfl
  | cons a rest ih =>
    simp only [List.all_cons, h a (by simp), ih (fun x hx => h x (List.mem_cons_of_mem _ hx))]

/-- what a table of the document looks like after `BulkRemoveRecord t gone` -/
theorem after_remove {d1 D : Doc} {U : List DocAction} {t : String} {gone : List Nat}
    (hp : Post d1 (.bulkRemove t gone) D U) {tid : String} {tbD : Table}
    (hfD : findTable? D tid = some tbD) :
    ∃ tb1, findTable? d1 tid = some tb1 ∧ (∀ r ∈ tbD.rows, r ∈ tb1.rows) ∧
      (∀ k ∈ tb1.rows, (tid = t → k ∉ gone) → k ∈ tbD.rows) ∧
      ∀ c colD, tbD.findCol? c = some colD → ∃ col1, tb1.findCol? c = some col1 ∧
        ∀ r ∈ tbD.rows, colD.cells r = col1.cells r := by
  obtain ⟨tbt, hft, ⟨_, rfl, _⟩ | ⟨_, rfl, _⟩⟩ := hp
  · exact ⟨tbD, hfD, fun _ h => h, fun _ h _ => h, fun c colD hc => ⟨colD, hc, fun _ _ => rfl⟩⟩
  · have hid := (findTable?_some hft).1
    by_cases htid : tid = t
    · subst htid
      rw [findTable?_replaceTable_self (tb := tbt.removeRows _) hid hft] at hfD
      cases hfD
      refine ⟨tbt, hft, fun r hr => (List.mem_filter.1 hr).1, ?_, ?_⟩
      · intro k hk hg
        show k ∈ tbt.rows.filter (fun r => !(gone.filter (fun r => tbt.rows.contains r)).contains r)
        rw [mem_filter_not_contains]
        exact ⟨hk, fun h => hg rfl (List.mem_filter.1 h).1⟩
      · intro c colD hc
        have hfc : (tbt.removeRows (gone.filter (fun r => tbt.rows.contains r))).findCol? c =
            (tbt.findCol? c).map (Col.unsetRows (gone.filter (fun r => tbt.rows.contains r))) :=
          find_key_map Col.id _ (fun _ => rfl)
        rw [hfc] at hc
        cases e : tbt.findCol? c with
        | none => rw [e] at hc; cases hc
        | some col1 =>
          rw [e] at hc
          simp only [Option.map_some, Option.some.injEq] at hc
          subst hc
          refine ⟨col1, rfl, fun r hr => ?_⟩
          have hr' : r ∉ gone.filter (fun r => tbt.rows.contains r) :=
            (mem_filter_not_contains.1 hr).2
          simp only [Col.unsetRows]
          have : (gone.filter (fun r => tbt.rows.contains r)).contains r = false := by
            rw [Bool.eq_false_iff]
            intro h
            exact hr' (List.contains_iff_mem.1 h)
          simp only [this, Bool.false_eq_true, ↓reduceIte]
    · rw [findTable?_replaceTable_ne (tb := tbt.removeRows _) hid htid] at hfD
      exact ⟨tbD, hfD, fun _ h => h, fun _ h _ => h, fun c colD hc => ⟨colD, hc, fun _ _ => rfl⟩⟩

theorem bulkRemove_resolves {d1 D : Doc} {U : List DocAction} {specs : List RefSpec} {t : String}
    {gone : List Nat} (hres : refsResolve d1 specs = true) (hno : NoRefsTo d1 specs t gone)
    (hp : Post d1 (.bulkRemove t gone) D U) :
    refsResolve D specs = true ∧ NoRefsTo D specs t gone := by
  rw [refsResolve_iff] at hres ⊢
  constructor
  · intro sp hsp
    rw [specHolds_iff]
    intro tbD ttD colD hfD hftD hcD r hr l hl k hk
    obtain ⟨tb1, hf1, hsub, _, hcols⟩ := after_remove hp hfD
    obtain ⟨tt1, hft1, _, hback, _⟩ := after_remove hp hftD
    obtain ⟨col1, hc1, hcells⟩ := hcols sp.col colD hcD
    rw [hcells r hr] at hl
    have hk1 := specHolds_iff.1 (hres sp hsp) tb1 tt1 col1 hf1 hft1 hc1 r (hsub r hr) l hl k hk
    exact hback k hk1 (fun htg => hno sp hsp htg tb1 col1 hf1 hc1 r (hsub r hr) l hl k hk)
  · intro sp hsp htg tbD colD hfD hcD r hr l hl k hk
    obtain ⟨tb1, hf1, hsub, _, hcols⟩ := after_remove hp hfD
    obtain ⟨col1, hc1, hcells⟩ := hcols sp.col colD hcD
    rw [hcells r hr] at hl
    exact hno sp hsp htg tb1 col1 hf1 hc1 r (hsub r hr) l hl k hk

/-- R2 -/
theorem cleanup_then_remove_full {d d1 D : Doc} {U : List DocAction} {specs : List RefSpec}
    {t : String} {gone : List Nat} (hrt : RefListRoundTrip ∨ ∀ sp ∈ specs, sp.isList = false)
    (hwf : WF d) (hty : SpecTyped d specs) (hres : refsResolve d specs = true)
    (h1 : applyAll d (cleanupUpdates d specs t gone) = .ok d1)
    (hp : Post d1 (.bulkRemove t gone) D U) :
    (refsResolve d1 specs = true ∧ NoRefsTo d1 specs t gone ∧ WF d1) ∧
    (refsResolve D specs = true ∧ NoRefsTo D specs t gone) := by
  obtain ⟨hrel, hwf1⟩ := cleanup_rel specs [] d d1 hty (cleanRel_refl t gone d) hwf h1
  rw [List.nil_append] at hrel
  obtain ⟨hr1, hn1⟩ := cleaned_resolves hrt hty hrel hres
  exact ⟨⟨hr1, hn1, hwf1⟩, bulkRemove_resolves hr1 hn1 hp⟩

/-! ### R3: frame -/

theorem specHolds_replace_other {d : Doc} {t0 : String} {tb' : Table} {sp : RefSpec}
    (hid : tb'.id = t0) (h1 : sp.table ≠ t0) (h2 : sp.target ≠ t0) :
    specHolds (replaceTable d t0 tb') sp = specHolds d sp := by
  unfold specHolds
  rw [findTable?_replaceTable_ne hid h1, findTable?_replaceTable_ne hid h2]

/-- the table a record action works on -/
def DocAction.recordTable : DocAction → Option String
  | .bulkAdd t _ _ => some t
  | .bulkRemove t _ => some t
  | .bulkUpdate t _ _ => some t
  | .replaceData t _ _ => some t
  | _ => none

theorem post_record_doc {d : Doc} {a : DocAction} {D : Doc} {U : List DocAction} {t0 : String}
    (hwf : WF d) (ha : a.recordTable = some t0) (hp : Post d a D U) :
    D = d ∨ ∃ tb tb', findTable? d t0 = some tb ∧ tb'.id = t0 ∧ D = replaceTable d t0 tb' := by
  cases a with
  | bulkAdd t rows cols =>
    cases ha
    obtain ⟨tb, tb2, hf, _, hw, rfl, _⟩ := hp
    rw [writeCols_ok_iff (tb := { tb with rows := insertRows (rows.filter (· != 0)) tb.rows })
      (hwf.table hf).1] at hw
    obtain ⟨_, rfl⟩ := hw
    exact .inr ⟨tb, _, hf, (by exact (findTable?_some hf).1), rfl⟩
  | bulkRemove t rows =>
    cases ha
    obtain ⟨tb, hf, ⟨_, rfl, _⟩ | ⟨_, rfl, _⟩⟩ := hp
    · exact .inl rfl
    · exact .inr ⟨tb, _, hf, (by exact (findTable?_some hf).1), rfl⟩
  | bulkUpdate t rows cols =>
    cases ha
    obtain ⟨tb, tb', hf, _, _, hw, rfl, _⟩ := hp
    rw [writeCols_ok_iff (hwf.table hf).1] at hw
    obtain ⟨_, rfl⟩ := hw
    exact .inr ⟨tb, _, hf, (by exact (findTable?_some hf).1), rfl⟩
  | replaceData t rows cols =>
    cases ha
    obtain ⟨tb, tb2, hf, hw, rfl, _⟩ := hp
    have hnd : ((tb.cleared (insertRows (rows.filter (· != 0)) [])).cols.map (·.id)).Nodup := by
      simp only [Table.cleared, List.map_map]
      exact (hwf.table hf).1
    rw [writeCols_ok_iff hnd] at hw
    obtain ⟨_, rfl⟩ := hw
    exact .inr ⟨tb, _, hf, (by exact (findTable?_some hf).1), rfl⟩
  | addColumn t c info => cases ha
  | removeColumn t c => cases ha
  | renameColumn t old new => cases ha
  | modifyColumn t c p => cases ha
  | addTable t cols => cases ha
  | removeTable t => cases ha
  | renameTable old new => cases ha

/-- record actions on a table that is neither `table` nor `target` of any spec -/
theorem frame_post {d : Doc} {a : DocAction} {D : Doc} {U : List DocAction} {t0 : String}
    {specs : List RefSpec} (hwf : WF d) (ha : a.recordTable = some t0)
    (hfr : ∀ sp ∈ specs, sp.table ≠ t0 ∧ sp.target ≠ t0) (hp : Post d a D U) :
    refsResolve D specs = refsResolve d specs := by
  rcases post_record_doc hwf ha hp with rfl | ⟨tb, tb', _, hid, rfl⟩
  · rfl
  · unfold refsResolve
    apply all_congr'
    intro sp hsp
    exact specHolds_replace_other hid (hfr sp hsp).1 (hfr sp hsp).2

/-- BulkUpdateRecord that names no listed column -/
theorem update_unlisted_post {d : Doc} {D : Doc} {U : List DocAction} {t0 : String}
    {rows : List Nat} {cols : List (String × List Val)} {specs : List RefSpec} (hwf : WF d)
    (hun : ∀ sp ∈ specs, sp.table = t0 → ∀ cv ∈ cols, cv.1 ≠ sp.col)
    (hp : Post d (.bulkUpdate t0 rows cols) D U) :
    refsResolve D specs = refsResolve d specs := by
  obtain ⟨tb, tb', hf, _, _, hw, rfl, _⟩ := hp
  rw [writeCols_ok_iff (hwf.table hf).1] at hw
  obtain ⟨_, rfl⟩ := hw
  have hid := (findTable?_some hf).1
  unfold refsResolve
  apply all_congr'
  intro sp hsp
  unfold specHolds
  rw [findTable?_replaceTable (t' := sp.table) (tb := tb.written rows cols) hid,
    findTable?_replaceTable (t' := sp.target) (tb := tb.written rows cols) hid]
  cases e1 : findTable? d sp.table with
  | none => rfl
  | some tb1 =>
    cases e2 : findTable? d sp.target with
    | none => rfl
    | some tt1 =>
      simp only [Option.map_some]
      have hid1 := (findTable?_some e1).1
      have hid2 := (findTable?_some e2).1
      have hrows2 : (if tt1.id == t0 then tb.written rows cols else tt1).rows = tt1.rows := by
        by_cases h : tt1.id = t0
        · simp only [h, beq_self_eq_true, ↓reduceIte, Table.written_rows]
          rw [hid2] at h
          rw [h, hf] at e2; cases e2; rfl
        · simp [h]
      rw [hrows2]
      by_cases h : tb1.id = t0
      · have htb : tb1 = tb := by
          rw [hid1] at h; rw [h, hf] at e1; cases e1; rfl
        subst htb
        simp only [h, beq_self_eq_true, ↓reduceIte, Table.written_rows, Table.findCol?_written]
        cases e3 : tb1.findCol? sp.col with
        | none => rfl
        | some col =>
          simp only [Option.map_some]
          have : (Col.written rows cols col).cells = col.cells := by
            simp only [Col.written]
            apply writeCells_no_key
            intro cv hcv hk
            exact hun sp hsp (hid1.symm.trans h) cv hcv (hk.trans (findCol?_some e3).1)
          rw [this]
      · simp [h]

/-- BulkAddRecord on a table that is not the `table` of any spec (it may be a target): the
    targets only grow -/
theorem bulkAdd_target_only_post {d : Doc} {D : Doc} {U : List DocAction} {t0 : String}
    {rows : List Nat} {cols : List (String × List Val)} {specs : List RefSpec} (hwf : WF d)
    (hnt : ∀ sp ∈ specs, sp.table ≠ t0) (hres : refsResolve d specs = true)
    (hp : Post d (.bulkAdd t0 rows cols) D U) : refsResolve D specs = true := by
  obtain ⟨tb, tb2, hf, _, hw, rfl, _⟩ := hp
  rw [writeCols_ok_iff (tb := { tb with rows := insertRows (rows.filter (· != 0)) tb.rows })
    (hwf.table hf).1] at hw
  obtain ⟨_, rfl⟩ := hw
  have hid : (Table.written { tb with rows := insertRows (rows.filter (· != 0)) tb.rows } rows
    cols).id = t0 := (findTable?_some hf).1
  rw [refsResolve_iff] at hres ⊢
  intro sp hsp
  rw [specHolds_iff]
  intro tbD ttD colD hfD hftD hcD r hr l hl k hk
  rw [findTable?_replaceTable_ne hid (hnt sp hsp)] at hfD
  by_cases htg : sp.target = t0
  · rw [htg, findTable?_replaceTable_self hid hf] at hftD
    cases hftD
    have := specHolds_iff.1 (hres sp hsp) tbD tb colD hfD (by rw [htg]; exact hf) hcD r hr l hl k hk
    show k ∈ insertRows _ tb.rows
    exact mem_insertRows.2 (.inr this)
  · rw [findTable?_replaceTable_ne hid htg] at hftD
    exact specHolds_iff.1 (hres sp hsp) tbD ttD colD hfD hftD hcD r hr l hl k hk

end Grist.Doc
