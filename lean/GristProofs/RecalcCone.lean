/-
Recalc: cells whose dependency cone is acyclic (bounded height `Hgt`) get the same value in any two
complete recalculations, also when other parts of the document are cyclic (C06 V2); a cell that does
not reach a cycle (`reachesCycle = false`) has an acyclic cone.
-/
import GristProofs.RecalcAcyclic
import GristProofs.RecalcProgress
namespace Grist.Recalc

/-- every `deps`-path from `c` has at most `k` edges (data cells have no outgoing edges) -/
inductive Hgt (p : Prog) : Nat → Nat → Prop
  | leaf {k c : Nat} : p.formula c = false → Hgt p k c
  | node {k c : Nat} : p.formula c = true → (∀ d ∈ p.deps c, Hgt p k d) → Hgt p (k + 1) c

theorem Hgt.mono {p : Prog} {k c : Nat} (h : Hgt p k c) : Hgt p (k + 1) c := by
  induction h with
  | leaf hf => exact .leaf hf
  | node hf _ ih => exact .node hf ih

theorem Hgt.of_reaches {p : Prog} : ∀ (fuel k c t : Nat), Hgt p k c →
    reaches p (fun _ => true) fuel c t = true → 1 ≤ k ∧ Hgt p (k - 1) t := by
  intro fuel
  induction fuel with
  | zero => intro k c t _ h; simp [reaches] at h
  | succ fuel ih =>
    intro k c t hh h
    simp only [reaches, Bool.and_true, Bool.true_and, Bool.and_eq_true, List.any_eq_true,
      Bool.or_eq_true, beq_iff_eq] at h
    obtain ⟨hf, d, hd, h⟩ := h
    cases hh with
    | leaf hf' => rw [hf'] at hf; cases hf
    | @node k' _ _ hall =>
      refine ⟨by omega, ?_⟩
      simp only [Nat.add_sub_cancel]
      rcases h with rfl | h
      · exact hall d hd
      · obtain ⟨h1, h2⟩ := ih k' d t (hall d hd) h
        have := h2.mono
        rwa [Nat.sub_add_cancel h1] at this

theorem Hgt.not_dependsOnSelf {p : Prog} {n : Nat} : ∀ (k c : Nat), Hgt p k c →
    ¬ DependsOnSelf p n c := by
  intro k
  induction k with
  | zero =>
    intro c hh h
    have := (Hgt.of_reaches n 0 c c hh h).1
    omega
  | succ k ih =>
    intro c hh h
    have := (Hgt.of_reaches n (k + 1) c c hh h).2
    exact ih c this h

/-- two stores that satisfy the formulas of all cells with an acyclic cone, and agree on data
    cells, agree on every cell with an acyclic cone -/
theorem cone_unique {p : Prog} (hr : p.Respects) {n : Nat}
    (hdl : ∀ c, c < n → ∀ d ∈ p.deps c, d < n) {σ1 σ2 : Nat → V}
    (hdata : ∀ c, c < n → p.formula c = false → σ1 c = σ2 c)
    (h1 : ∀ c k, c < n → p.formula c = true → Hgt p k c → σ1 c = p.f c σ1)
    (h2 : ∀ c k, c < n → p.formula c = true → Hgt p k c → σ2 c = p.f c σ2) :
    ∀ k c, Hgt p k c → c < n → σ1 c = σ2 c := by
  intro k c hh
  induction hh with
  | leaf hf => intro hc; exact hdata _ hc hf
  | @node k c hf hall ih =>
    intro hc
    have hag : ∀ d ∈ p.reads c σ1, σ1 d = σ2 d := by
      intro d hd
      have hdep := hr.1 c σ1 d hd
      exact ih d hdep (hdl c hc d hdep)
    rw [h1 c (k + 1) hc hf (.node hf hall), h2 c (k + 1) hc hf (.node hf hall),
      (hr.2 c σ1 σ2 hag).2]

/-! ### a cell that does not reach a cycle has an acyclic cone -/

theorem reaches_mono_succ {p : Prog} : ∀ (fuel c t : Nat),
    reaches p (fun _ => true) fuel c t = true → reaches p (fun _ => true) (fuel + 1) c t = true := by
  intro fuel
  induction fuel with
  | zero => intro c t h; simp [reaches] at h
  | succ fuel ih =>
    intro c t h
    rw [reaches] at h ⊢
    simp only [Bool.and_true, Bool.true_and, Bool.and_eq_true, List.any_eq_true,
      Bool.or_eq_true, beq_iff_eq] at h ⊢
    obtain ⟨hf, d, hd, h⟩ := h
    refine ⟨hf, d, hd, ?_⟩
    rcases h with h | h
    · exact .inl h
    · exact .inr (ih d t h)

theorem reaches_mono_le {p : Prog} {c t : Nat} : ∀ {f g : Nat}, f ≤ g →
    reaches p (fun _ => true) f c t = true → reaches p (fun _ => true) g c t = true := by
  intro f g hfg h
  induction hfg with
  | refl => exact h
  | step _ ih => exact reaches_mono_succ _ c t ih

theorem reaches_of_chain {p : Prog} (x : Nat → Nat) : ∀ (m i : Nat), 1 ≤ m →
    (∀ t, i ≤ t → t < i + m → p.formula (x t) = true ∧ x (t + 1) ∈ p.deps (x t)) →
    reaches p (fun _ => true) m (x i) (x (i + m)) = true := by
  intro m
  induction m with
  | zero => intro i h; omega
  | succ m ih =>
    intro i _ hch
    obtain ⟨hf, hd⟩ := hch i (Nat.le_refl _) (by omega)
    rw [reaches]
    simp only [hf, Bool.and_true, Bool.true_and, List.any_eq_true, Bool.or_eq_true, beq_iff_eq]
    refine ⟨x (i + 1), hd, ?_⟩
    by_cases hm : m = 0
    · subst hm; exact .inl rfl
    · refine .inr ?_
      have := ih (i + 1) (by omega) (fun t h1 h2 => hch t (by omega) (by omega))
      rwa [show i + 1 + m = i + (m + 1) by omega] at this

theorem not_hgt_succ {p : Prog} {k c : Nat} (h : ¬ Hgt p (k + 1) c) :
    p.formula c = true ∧ ∃ d, d ∈ p.deps c ∧ ¬ Hgt p k d := by
  cases hf : p.formula c with
  | false => exact absurd (.leaf hf) h
  | true =>
    refine ⟨rfl, Classical.byContradiction (fun hne => h (.node hf (fun d hd => ?_)))⟩
    exact Classical.byContradiction (fun hn => hne ⟨d, hd, hn⟩)

theorem not_hgt_formula {p : Prog} {k c : Nat} (h : ¬ Hgt p k c) : p.formula c = true := by
  cases hf : p.formula c with
  | false => exact absurd (.leaf hf) h
  | true => rfl

open Classical in
/-- a dependency of `c` whose cone is not of height `k`, if there is one -/
noncomputable def nextBad (p : Prog) (k c : Nat) : Nat :=
  if h : ∃ d, d ∈ p.deps c ∧ ¬ Hgt p k d then Classical.choose h else c

noncomputable def badSeq (p : Prog) (n c : Nat) : Nat → Nat
  | 0 => c
  | i + 1 => nextBad p (n - (i + 1)) (badSeq p n c i)

theorem badSeq_spec {p : Prog} {n c : Nat} (h : ¬ Hgt p n c) : ∀ i, i ≤ n →
    ¬ Hgt p (n - i) (badSeq p n c i) := by
  intro i
  induction i with
  | zero => intro _; exact h
  | succ i ih =>
    intro hi
    have hb := ih (by omega)
    rw [show n - i = (n - (i + 1)) + 1 by omega] at hb
    obtain ⟨_, hex⟩ := not_hgt_succ hb
    simp only [badSeq, nextBad, hex, ↓reduceDIte]
    exact (Classical.choose_spec hex).2

theorem badSeq_edge {p : Prog} {n c : Nat} (h : ¬ Hgt p n c) : ∀ i, i < n →
    p.formula (badSeq p n c i) = true ∧ badSeq p n c (i + 1) ∈ p.deps (badSeq p n c i) := by
  intro i hi
  have hb := badSeq_spec h i (by omega)
  rw [show n - i = (n - (i + 1)) + 1 by omega] at hb
  obtain ⟨hf, hex⟩ := not_hgt_succ hb
  refine ⟨hf, ?_⟩
  simp only [badSeq, nextBad, hex, ↓reduceDIte]
  exact (Classical.choose_spec hex).1

theorem hgt_of_not_reachesCycle {p : Prog} {n : Nat}
    (hdl : ∀ c, c < n → ∀ d ∈ p.deps c, d < n) {c : Nat} (hc : c < n)
    (h : reachesCycle p n c = false) : Hgt p n c := by
  apply Classical.byContradiction
  intro hn
  have hlt : ∀ i, i ≤ n → badSeq p n c i < n := by
    intro i
    induction i with
    | zero => intro _; exact hc
    | succ i ih =>
      intro hi
      exact hdl _ (ih (by omega)) _ (badSeq_edge hn i (by omega)).2
  obtain ⟨i, j, hij, hj, he⟩ := pigeonhole n (badSeq p n c) hlt
  have hcyc : reaches p (fun _ => true) (j - i) (badSeq p n c i) (badSeq p n c i) = true := by
    have := reaches_of_chain (badSeq p n c) (j - i) i (by omega)
      (fun t h1 h2 => badSeq_edge hn t (by omega))
    rw [show i + (j - i) = j by omega, ← he] at this
    exact this
  have hcyc' := reaches_mono_le (show j - i ≤ n by omega) hcyc
  have hreach : (badSeq p n c i == c) = true ∨
      reaches p (fun _ => true) n c (badSeq p n c i) = true := by
    by_cases hi0 : i = 0
    · subst hi0; exact .inl (by simp [badSeq])
    · have := reaches_of_chain (badSeq p n c) i 0 (by omega)
        (fun t _ h2 => badSeq_edge hn t (by omega))
      rw [Nat.zero_add] at this
      exact .inr (reaches_mono_le (by omega) this)
  have : reachesCycle p n c = true := by
    simp only [reachesCycle, onCycle, List.any_eq_true, List.mem_range, Bool.and_eq_true,
      Bool.or_eq_true]
    exact ⟨_, hlt i (by omega), hcyc', hreach⟩
  rw [h] at this; cases this

end Grist.Recalc
