/-
Helper development for C33 (GristProps/C33.lean): facts about the state operations of
GristModel/JsonImport.lean and the invariants of `addRow` / `addItems` / `addElems`.
-/
import GristModel.JsonImport
namespace Grist.JsonImport

/-! ### the table store -/

theorem rowsOf_nil (T : String) : rowsOf [] T = [] := rfl

theorem rowsOf_cons (a : String) (rs : List Row) (st : St) (T : String) :
    rowsOf ((a, rs) :: st) T = if T = a then rs else rowsOf st T := by
  unfold rowsOf
  by_cases h : T = a
  · subst h; simp [List.lookup]
  · have : (T == a) = false := by simpa using h
    simp [List.lookup, this, h]

theorem rowsOf_of_not_any (st : St) (t : String) (h : st.any (fun p => p.1 == t) = false) :
    rowsOf st t = [] := by
  induction st with
  | nil => rfl
  | cons p st ih =>
    obtain ⟨a, rs⟩ := p
    simp only [List.any_cons, Bool.or_eq_false_iff] at h
    have hne : t ≠ a := by
      intro e; subst e; simp at h
    rw [rowsOf_cons, if_neg hne]; exact ih h.2

theorem rowsOf_append_new (st : St) (t : String) (rs : List Row)
    (h : st.any (fun p => p.1 == t) = false) (T : String) :
    rowsOf (st ++ [(t, rs)]) T = if T = t then rs else rowsOf st T := by
  induction st with
  | nil => simp [rowsOf_cons, rowsOf_nil]
  | cons p st ih =>
    obtain ⟨a, xs⟩ := p
    simp only [List.any_cons, Bool.or_eq_false_iff] at h
    have hne : a ≠ t := by simpa using h.1
    simp only [List.cons_append, rowsOf_cons]
    by_cases hT : T = a
    · subst hT; simp [hne]
    · simp only [if_neg hT]; exact ih h.2

theorem rowsOf_ensure (st : St) (t T : String) : rowsOf (ensure st t) T = rowsOf st T := by
  unfold ensure
  split
  · rfl
  · rename_i h
    have h' : st.any (fun p => p.1 == t) = false := Bool.eq_false_iff.mpr h
    rw [rowsOf_append_new st t [] h' T]
    split
    · rename_i e; subst e; exact (rowsOf_of_not_any st T h').symm
    · rfl

theorem rowsOf_map_push (st : St) (t : String) (r : Row) (T : String) :
    rowsOf (st.map (fun p => if p.1 == t then (p.1, p.2 ++ [r]) else p)) T =
      if T = t ∧ st.any (fun p => p.1 == t) = true then rowsOf st T ++ [r] else rowsOf st T := by
  induction st with
  | nil => simp [rowsOf_nil]
  | cons p st ih =>
    obtain ⟨a, xs⟩ := p
    simp only [List.map_cons, List.any_cons]
    by_cases hat : a = t
    · subst hat
      simp only [beq_self_eq_true, if_true, rowsOf_cons, Bool.true_or, and_true]
      by_cases hT : T = a
      · simp [hT]
      · simp only [if_neg hT]; rw [ih]; simp [hT]
    · have hb : (a == t) = false := by simpa using hat
      simp only [hb, Bool.false_eq_true, if_false, rowsOf_cons, Bool.false_or]
      by_cases hT : T = a
      · subst hT; simp [hat]
      · simp only [if_neg hT]; exact ih

theorem rowsOf_push (st : St) (t : String) (r : Row) (T : String) :
    rowsOf (push st t r) T = if T = t then rowsOf st t ++ [r] else rowsOf st T := by
  unfold push
  split
  · rename_i h
    rw [rowsOf_map_push]
    by_cases hT : T = t
    · subst hT; simp [h]
    · simp [hT]
  · rename_i h
    have h' : st.any (fun p => p.1 == t) = false := Bool.eq_false_iff.mpr h
    rw [rowsOf_append_new st t [r] h' T]
    by_cases hT : T = t
    · subst hT; simp [rowsOf_of_not_any st T h']
    · simp [hT]

/-! ### one induction principle shaped like `addRow` / `addItems` / `addElems` -/

section Induction
set_option linter.unusedSectionVars false
variable {P : J → Prop} {Q : List J → Prop} {R : List (String × J) → Prop}
variable (hsc : ∀ s, P (.sc s)) (harr : ∀ xs, Q xs → P (.arr xs)) (hobj : ∀ kvs, R kvs → P (.obj kvs))
variable (hnilQ : Q []) (hconsQ : ∀ x xs, P x → Q xs → Q (x :: xs))
variable (hnilR : R [])
variable (hRsc : ∀ k s rest, R rest → R ((k, .sc s) :: rest))
variable (hRarr : ∀ k xs rest, Q xs → R rest → R ((k, .arr xs) :: rest))
variable (hRobj : ∀ k kvs rest, P (.obj kvs) → R rest → R ((k, .obj kvs) :: rest))
include hsc harr hobj hnilQ hconsQ hnilR hRsc hRarr hRobj

mutual
theorem J.indP : ∀ v, P v
  | .sc s => hsc s
  | .arr xs => harr xs (J.indQ xs)
  | .obj kvs => hobj kvs (J.indR kvs)
theorem J.indQ : ∀ xs, Q xs
  | [] => hnilQ
  | x :: xs => hconsQ x xs (J.indP x) (J.indQ xs)
theorem J.indR : ∀ kvs, R kvs
  | [] => hnilR
  | (k, .sc s) :: rest => hRsc k s rest (J.indR rest)
  | (k, .arr xs) :: rest => hRarr k xs rest (J.indQ xs) (J.indR rest)
  | (k, .obj kvs) :: rest => hRobj k kvs rest (hobj kvs (J.indR kvs)) (J.indR rest)
end

theorem J.induct3 : (∀ v, P v) ∧ (∀ xs, Q xs) ∧ (∀ kvs, R kvs) :=
  ⟨J.indP hsc harr hobj hnilQ hconsQ hnilR hRsc hRarr hRobj,
   J.indQ hsc harr hobj hnilQ hconsQ hnilR hRsc hRarr hRobj,
   J.indR hsc harr hobj hnilQ hconsQ hnilR hRsc hRarr hRobj⟩
end Induction

/-! ### `add_row` only appends, and only to tables whose name is at least as long as `table` -/

/-- every table's row list only grew at the end, and tables with a name shorter than `n` are
    untouched -/
def Ext (n : Nat) (st st' : St) : Prop :=
  ∀ T, (rowsOf st T <+: rowsOf st' T) ∧ (T.length < n → rowsOf st' T = rowsOf st T)

theorem Ext.refl (n : Nat) (st : St) : Ext n st st := fun _ => ⟨List.prefix_refl _, fun _ => rfl⟩

theorem Ext.trans {n : Nat} {a b c : St} (h1 : Ext n a b) (h2 : Ext n b c) : Ext n a c := fun T =>
  ⟨List.IsPrefix.trans (h1 T).1 (h2 T).1, fun h => by rw [(h2 T).2 h, (h1 T).2 h]⟩

theorem Ext.mono {n m : Nat} {a b : St} (h : Ext n a b) (hm : m ≤ n) : Ext m a b := fun T =>
  ⟨(h T).1, fun hT => (h T).2 (Nat.lt_of_lt_of_le hT hm)⟩

theorem Ext.ensure (n : Nat) (st : St) (t : String) : Ext n st (ensure st t) := fun T => by
  rw [rowsOf_ensure]; exact ⟨List.prefix_refl _, fun _ => rfl⟩

theorem Ext.push {n : Nat} (st : St) (t : String) (r : Row) (h : n ≤ t.length) :
    Ext n st (push st t r) := fun T => by
  rw [rowsOf_push]
  by_cases hT : T = t
  · subst hT
    simp only [if_true]
    exact ⟨List.prefix_append _ _, fun hl => absurd hl (by omega)⟩
  · rw [if_neg hT]; exact ⟨List.prefix_refl _, fun _ => rfl⟩

theorem sub_length (table k : String) : (sub table k).length = table.length + 1 + k.length := by
  unfold sub
  rw [String.length_append, String.length_append]
  rfl

theorem open_fst_ext (n : Nat) (o : Opts) (st : St) (table : String) : Ext n st (open_ o st table).1 := by
  unfold open_
  split
  · exact Ext.ensure n st table
  · exact Ext.refl n st

theorem open_snd_table (o : Opts) (st : St) (table : String) (r : Ref)
    (h : (open_ o st table).2 = some r) : r.table = table := by
  unfold open_ at h
  split at h
  · simp at h; rw [← h]
  · simp at h

theorem close_ext {n : Nat} (st : St) (me parent : Option Ref) (vals : List (String × Cell))
    (h : ∀ r, me = some r → n ≤ r.table.length) : Ext n st (close st me parent vals) := by
  unfold close
  cases me with
  | none => exact Ext.refl n st
  | some r => exact Ext.push st r.table _ (h r rfl)

theorem add_ext :
    (∀ v, ∀ o st table parent, Ext table.length st (addRow o st table parent v).1) ∧
    (∀ xs, ∀ o st table parent, Ext table.length st (addElems o st table parent xs)) ∧
    (∀ kvs, ∀ o st table me, Ext (table.length + 1) st (addItems o st table me kvs).1) := by
  apply J.induct3
  · -- sc
    intro s o st table parent
    simp only [addRow]
    refine Ext.trans (open_fst_ext _ o st table) (close_ext _ _ _ _ ?_)
    intro r hr; rw [open_snd_table o st table r hr]; exact Nat.le_refl _
  · -- arr
    intro xs ih o st table parent
    simp only [addRow]
    refine Ext.trans (open_fst_ext _ o st table) (Ext.trans ((ih o _ (sub table "") _).mono ?_) (close_ext _ _ _ _ ?_))
    · rw [sub_length]; omega
    · intro r hr; rw [open_snd_table o st table r hr]; exact Nat.le_refl _
  · -- obj
    intro kvs ih o st table parent
    simp only [addRow]
    refine Ext.trans (open_fst_ext _ o st table) (Ext.trans ((ih o _ table _).mono (by omega)) (close_ext _ _ _ _ ?_))
    intro r hr; rw [open_snd_table o st table r hr]; exact Nat.le_refl _
  · intro o st table parent; simp only [addElems]; exact Ext.refl _ _
  · intro x xs ihx ihxs o st table parent
    simp only [addElems]
    exact Ext.trans (ihx o st table parent) (ihxs o _ table parent)
  · intro o st table me; simp only [addItems]; exact Ext.refl _ _
  · intro k s rest ih o st table me
    simp only [addItems]
    exact ih o st table me
  · intro k xs rest ihxs ih o st table me
    simp only [addItems]
    refine Ext.trans ((ihxs o st (sub table k) me).mono ?_) (ih o _ table me)
    rw [sub_length]; omega
  · intro k kvs rest ihv ih o st table me
    simp only [addItems]
    refine Ext.trans ((ihv o st (sub table k) none).mono ?_) (ih o _ table me)
    rw [sub_length]; omega

/-! ### row ids: the i-th row of table T carries `Ref(T, i+1)` -/

def WF (st : St) : Prop :=
  ∀ (T : String) (i : Nat) (row : Row), (rowsOf st T)[i]? = some row → row.ref = ⟨T, i + 1⟩

theorem WF.nil : WF [] := by
  intro T i row h; simp [rowsOf_nil] at h

theorem WF.ensure {st : St} (h : WF st) (t : String) : WF (ensure st t) := by
  intro T i row hr; rw [rowsOf_ensure] at hr; exact h T i row hr

theorem WF.push {st : St} (h : WF st) (t : String) (r : Row)
    (hr : r.ref = ⟨t, (rowsOf st t).length + 1⟩) : WF (push st t r) := by
  intro T i row hrow
  rw [rowsOf_push] at hrow
  by_cases hT : T = t
  · subst hT
    simp only [if_true] at hrow
    by_cases hi : i < (rowsOf st T).length
    · rw [List.getElem?_append_left hi] at hrow; exact h T i row hrow
    · have hi' : (rowsOf st T).length ≤ i := Nat.le_of_not_lt hi
      rw [List.getElem?_append_right hi'] at hrow
      have : i - (rowsOf st T).length = 0 := by
        cases hk : i - (rowsOf st T).length with
        | zero => rfl
        | succ k => rw [hk] at hrow; simp at hrow
      rw [this] at hrow
      simp at hrow
      subst hrow
      rw [hr]
      have : i = (rowsOf st T).length := by omega
      rw [this]
  · rw [if_neg hT] at hrow; exact h T i row hrow

theorem open_wf {o : Opts} {st : St} (h : WF st) (table : String) : WF (open_ o st table).1 := by
  unfold open_
  split
  · exact h.ensure table
  · exact h

theorem close_open_wf (o : Opts) (st : St) (table : String) (parent : Option Ref)
    (vals : List (String × Cell)) (st2 : St)
    (hext : Ext (table.length + 1) (open_ o st table).1 st2) (hwf : WF st2) :
    WF (close st2 (open_ o st table).2 parent vals) := by
  unfold open_ at hext ⊢
  split
  · rename_i hinc
    simp only [hinc, if_true] at hext
    simp only [close]
    apply hwf.push
    simp only
    rw [(hext table).2 (Nat.lt_succ_self _)]
  · exact hwf

theorem add_wf :
    (∀ v, ∀ o st table parent, WF st → WF (addRow o st table parent v).1) ∧
    (∀ xs, ∀ o st table parent, WF st → WF (addElems o st table parent xs)) ∧
    (∀ kvs, ∀ o st table me, WF st → WF (addItems o st table me kvs).1) := by
  apply J.induct3
  · intro s o st table parent h
    simp only [addRow]
    exact close_open_wf o st table parent _ _ (Ext.refl _ _) (open_wf h table)
  · intro xs ih o st table parent h
    simp only [addRow]
    refine close_open_wf o st table parent _ _ ((add_ext.2.1 xs o _ (sub table "") _).mono ?_) (ih o _ _ _ (open_wf h table))
    rw [sub_length]; omega
  · intro kvs ih o st table parent h
    simp only [addRow]
    exact close_open_wf o st table parent _ _ (add_ext.2.2 kvs o _ table _) (ih o _ _ _ (open_wf h table))
  · intro o st table parent h; simpa only [addElems] using h
  · intro x xs ihx ihxs o st table parent h
    simp only [addElems]
    exact ihxs o _ table parent (ihx o st table parent h)
  · intro o st table me h; simpa only [addItems] using h
  · intro k s rest ih o st table me h
    simp only [addItems]; exact ih o st table me h
  · intro k xs rest ihxs ih o st table me h
    simp only [addItems]; exact ih o _ table me (ihxs o st _ me h)
  · intro k kvs rest ihv ih o st table me h
    simp only [addItems]; exact ih o _ table me (ihv o st _ none h)

/-! ### what `open_` ... `close` does to the row lists -/

theorem rowsOf_open (o : Opts) (st : St) (table T : String) :
    rowsOf (open_ o st table).1 T = rowsOf st T := by
  unfold open_; split
  · exact rowsOf_ensure st table T
  · rfl

theorem open_snd (o : Opts) (st : St) (table : String) :
    (open_ o st table).2 =
      if isIncluded o table then some ⟨table, (rowsOf st table).length + 1⟩ else none := by
  unfold open_; split
  · simp only [rowsOf_ensure]
  · rfl

/-- the row that `add_row` makes for a value at `table`, once its cells are known -/
def mkRow (st : St) (table : String) (parent : Option Ref) (vals : List (String × Cell)) : Row :=
  ⟨vals, parent, ⟨table, (rowsOf st table).length + 1⟩⟩

theorem rowsOf_close_open (o : Opts) (st : St) (table : String) (parent : Option Ref)
    (vals : List (String × Cell)) (st2 : St) (T : String) :
    rowsOf (close st2 (open_ o st table).2 parent vals) T =
      rowsOf st2 T ++ (if isIncluded o table = true ∧ T = table then [mkRow st table parent vals] else []) := by
  rw [open_snd]
  by_cases hinc : isIncluded o table = true
  · simp only [hinc, if_true, close, rowsOf_push, true_and]
    by_cases hT : T = table
    · subst hT; simp [mkRow]
    · simp [hT]
  · simp [hinc, close]

/-! ### table names are distinct (`_tables` is a dict) -/

def Uniq (st : St) : Prop := (st.map (·.1)).Nodup

theorem Uniq.nil : Uniq [] := by simp [Uniq]

theorem not_any_iff (st : St) (t : String) :
    st.any (fun p => p.1 == t) = false ↔ t ∉ st.map (·.1) := by
  induction st with
  | nil => simp
  | cons p st ih =>
    simp only [List.any_cons, Bool.or_eq_false_iff, List.map_cons, List.mem_cons, not_or, ih]
    constructor
    · intro ⟨h1, h2⟩; exact ⟨fun e => by simp [e] at h1, h2⟩
    · intro ⟨h1, h2⟩; exact ⟨by simpa using fun e => h1 e.symm, h2⟩

theorem Uniq.ensure {st : St} (h : Uniq st) (t : String) : Uniq (ensure st t) := by
  unfold JsonImport.ensure
  split
  · exact h
  · rename_i hn
    have hn' : st.any (fun p => p.1 == t) = false := Bool.eq_false_iff.mpr hn
    have := (not_any_iff st t).mp hn'
    unfold Uniq at h ⊢
    rw [List.map_append, List.nodup_append]
    refine ⟨h, by simp, ?_⟩
    intro a ha b hb
    simp at hb; subst hb
    intro e; subst e; exact this ha

theorem Uniq.push {st : St} (h : Uniq st) (t : String) (r : Row) : Uniq (push st t r) := by
  unfold JsonImport.push
  split
  · unfold Uniq at h ⊢
    have : (st.map (fun p => if p.1 == t then (p.1, p.2 ++ [r]) else p)).map (·.1) = st.map (·.1) := by
      rw [List.map_map]; apply List.map_congr_left; intro p _; simp only [Function.comp]; split <;> rfl
    rw [this]; exact h
  · rename_i hn
    have hn' : st.any (fun p => p.1 == t) = false := Bool.eq_false_iff.mpr hn
    have := (not_any_iff st t).mp hn'
    unfold Uniq at h ⊢
    rw [List.map_append, List.nodup_append]
    refine ⟨h, by simp, ?_⟩
    intro a ha b hb
    simp at hb; subst hb
    intro e; subst e; exact this ha

theorem rowsOf_of_mem {st : St} (h : Uniq st) (n : String) (rows : List Row) (hm : (n, rows) ∈ st) :
    rowsOf st n = rows := by
  induction st with
  | nil => simp at hm
  | cons p st ih =>
    obtain ⟨a, xs⟩ := p
    unfold Uniq at h
    simp only [List.map_cons, List.nodup_cons] at h
    rw [rowsOf_cons]
    rcases List.mem_cons.mp hm with e | hm'
    · cases e; simp
    · have hne : n ≠ a := by
        intro e; subst e
        exact h.1 (List.mem_map.mpr ⟨(n, rows), hm', rfl⟩)
      rw [if_neg hne]; exact ih h.2 hm'

theorem open_uniq {o : Opts} {st : St} (h : Uniq st) (table : String) : Uniq (open_ o st table).1 := by
  unfold open_; split
  · exact h.ensure table
  · exact h

theorem close_uniq {st : St} (h : Uniq st) (me parent : Option Ref) (vals : List (String × Cell)) :
    Uniq (close st me parent vals) := by
  unfold close; cases me with
  | none => exact h
  | some r => exact h.push _ _

theorem add_uniq :
    (∀ v, ∀ o st table parent, Uniq st → Uniq (addRow o st table parent v).1) ∧
    (∀ xs, ∀ o st table parent, Uniq st → Uniq (addElems o st table parent xs)) ∧
    (∀ kvs, ∀ o st table me, Uniq st → Uniq (addItems o st table me kvs).1) := by
  apply J.induct3
  · intro s o st table parent h
    simp only [addRow]; exact close_uniq (open_uniq h table) _ _ _
  · intro xs ih o st table parent h
    simp only [addRow]; exact close_uniq (ih o _ _ _ (open_uniq h table)) _ _ _
  · intro kvs ih o st table parent h
    simp only [addRow]; exact close_uniq (ih o _ _ _ (open_uniq h table)) _ _ _
  · intro o st table parent h; simpa only [addElems] using h
  · intro x xs ihx ihxs o st table parent h
    simp only [addElems]; exact ihxs o _ table parent (ihx o st table parent h)
  · intro o st table me h; simpa only [addItems] using h
  · intro k s rest ih o st table me h
    simp only [addItems]; exact ih o st table me h
  · intro k xs rest ihxs ih o st table me h
    simp only [addItems]; exact ih o _ table me (ihxs o st _ me h)
  · intro k kvs rest ihv ih o st table me h
    simp only [addItems]; exact ih o _ table me (ihv o st _ none h)

end Grist.JsonImport
