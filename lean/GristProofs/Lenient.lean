/-
Helper development for C25: facts about the insertion-ordered dicts of GristModel/Lenient.lean and
the per-action lemmas (schema projection, metadata filtering, frame) from which the theorems of
GristProps/C25.lean are assembled.
-/
import GristModel.Lenient
namespace Grist.Doc

/-! ### Dict facts -/
namespace Dict
variable {α : Type}

/-- keep the entries whose key satisfies `p` -/
def fk (p : String → Bool) (s : Dict α) : Dict α := s.filter (fun e => p e.1)

theorem get?_nil (k : String) : Dict.get? ([] : Dict α) k = none := rfl

theorem get?_cons (e : String × α) (s : Dict α) (k : String) :
    Dict.get? (e :: s) k = if k = e.1 then some e.2 else Dict.get? s k := by
  obtain ⟨a, b⟩ := e
  by_cases h : k = a
  · subst h; simp [Dict.get?, List.lookup]
  · have : (k == a) = false := by simpa using h
    simp [Dict.get?, List.lookup, this, h]

theorem has_cons (e : String × α) (s : Dict α) (k : String) :
    Dict.has (e :: s) k = (decide (e.1 = k) || Dict.has s k) := by
  simp only [Dict.has, List.any_cons]
  by_cases h : e.1 = k <;> simp [h]

theorem has_eq_false_get? {s : Dict α} {k : String} (h : s.has k = false) : s.get? k = none := by
  induction s with
  | nil => rfl
  | cons e s ih =>
    rw [has_cons] at h
    simp only [Bool.or_eq_false_iff, decide_eq_false_iff_not] at h
    rw [get?_cons, if_neg (fun hk => h.1 hk.symm)]
    exact ih h.2

theorem get?_isSome_has {s : Dict α} {k : String} {v : α} (h : s.get? k = some v) : s.has k = true := by
  cases hh : s.has k with
  | true => rfl
  | false => rw [has_eq_false_get? hh] at h; cases h

/-- the "key already present" branch of `set` -/
def replace (k : String) (v : α) (s : Dict α) : Dict α :=
  s.map (fun e => if e.1 == k then (k, v) else e)

theorem set_eq (s : Dict α) (k : String) (v : α) :
    s.set k v = if s.has k then replace k v s else s ++ [(k, v)] := rfl

theorem replace_cons (k : String) (v : α) (e : String × α) (s : Dict α) :
    replace k v (e :: s) = (if e.1 = k then (k, v) else e) :: replace k v s := by
  by_cases h : e.1 = k
  · simp [replace, h]
  · simp [replace, h]

theorem get?_replace_ne (s : Dict α) (k u : String) (v : α) (h : u ≠ k) :
    Dict.get? (replace k v s) u = Dict.get? s u := by
  induction s with
  | nil => rfl
  | cons e s ih =>
    rw [replace_cons, get?_cons, get?_cons, ih]
    by_cases he : e.1 = k
    · simp [he, h]
    · simp [he]

theorem get?_append_ne (s : Dict α) (k u : String) (v : α) (h : u ≠ k) :
    Dict.get? (s ++ [(k, v)]) u = Dict.get? s u := by
  induction s with
  | nil => simp [get?_cons, h, get?_nil]
  | cons e s ih => simp only [List.cons_append]; rw [get?_cons, get?_cons, ih]

/-- `(d[k] = v)[u]` for `u ≠ k` -/
theorem get?_set_ne (s : Dict α) (k u : String) (v : α) (h : u ≠ k) :
    Dict.get? (s.set k v) u = Dict.get? s u := by
  rw [set_eq]
  split
  · exact get?_replace_ne s k u v h
  · exact get?_append_ne s k u v h

theorem get?_replace_self (s : Dict α) (k : String) (v : α) (hh : s.has k = true) :
    Dict.get? (replace k v s) k = some v := by
  induction s with
  | nil => simp [Dict.has] at hh
  | cons e s ih =>
    rw [replace_cons, get?_cons]
    by_cases he : e.1 = k
    · simp [he]
    · rw [has_cons] at hh
      simp only [he, decide_false, Bool.false_or] at hh
      simp only [he, if_false]
      rw [if_neg (fun hk => he hk.symm)]
      exact ih hh

theorem get?_append_self (s : Dict α) (k : String) (v : α) (hh : s.has k = false) :
    Dict.get? (s ++ [(k, v)]) k = some v := by
  induction s with
  | nil => simp [get?_cons]
  | cons e s ih =>
    rw [has_cons] at hh
    simp only [Bool.or_eq_false_iff, decide_eq_false_iff_not] at hh
    simp only [List.cons_append]
    rw [get?_cons, if_neg (fun hk => hh.1 hk.symm)]
    exact ih hh.2

/-- `(d[k] = v)[k]` -/
theorem get?_set_self (s : Dict α) (k : String) (v : α) : Dict.get? (s.set k v) k = some v := by
  rw [set_eq]
  cases hh : s.has k with
  | true => simp only [if_true]; exact get?_replace_self s k v hh
  | false => simp only [Bool.false_eq_true, if_false]; exact get?_append_self s k v hh

theorem get?_erase_ne (s : Dict α) (k u : String) (h : u ≠ k) :
    Dict.get? (s.erase k) u = Dict.get? s u := by
  unfold Dict.erase
  induction s with
  | nil => rfl
  | cons e s ih =>
    by_cases he : e.1 = k
    · have : (e.1 == k) = true := by simpa using he
      simp only [List.filter_cons, this, Bool.not_true, Bool.false_eq_true, if_false]
      rw [ih, get?_cons, he, if_neg h]
    · have : (e.1 == k) = false := by simpa using he
      simp only [List.filter_cons, this, Bool.not_false, if_true]
      rw [get?_cons, get?_cons, ih]

/-! filtering by a predicate on keys -/

theorem fk_cons (p : String → Bool) (e : String × α) (s : Dict α) :
    fk p (e :: s) = if p e.1 = true then e :: fk p s else fk p s := by
  simp [fk, List.filter_cons]

theorem get?_fk_pos (p : String → Bool) (s : Dict α) (k : String) (h : p k = true) :
    Dict.get? (fk p s) k = Dict.get? s k := by
  induction s with
  | nil => rfl
  | cons e s ih =>
    rw [fk_cons]
    by_cases hp : p e.1 = true
    · rw [if_pos hp, get?_cons, get?_cons, ih]
    · rw [if_neg hp, ih, get?_cons]
      have : k ≠ e.1 := fun hk => hp (hk ▸ h)
      rw [if_neg this]

theorem has_fk_pos (p : String → Bool) (s : Dict α) (k : String) (h : p k = true) :
    Dict.has (fk p s) k = Dict.has s k := by
  induction s with
  | nil => rfl
  | cons e s ih =>
    rw [fk_cons]
    by_cases hp : p e.1 = true
    · rw [if_pos hp, has_cons, has_cons, ih]
    · rw [if_neg hp, ih, has_cons]
      have : e.1 ≠ k := fun hk => hp (hk ▸ h)
      simp [this]

theorem fk_append (p : String → Bool) (s t : Dict α) : fk p (s ++ t) = fk p s ++ fk p t := by
  simp [fk]

theorem fk_replace_pos (p : String → Bool) (s : Dict α) (k : String) (v : α) (h : p k = true) :
    fk p (replace k v s) = replace k v (fk p s) := by
  induction s with
  | nil => rfl
  | cons e s ih =>
    rw [replace_cons, fk_cons, fk_cons, ih]
    by_cases he : e.1 = k
    · have hpe : p e.1 = true := he ▸ h
      simp only [he, if_true, h]
      rw [replace_cons]; simp [he]
    · simp only [he, if_false]
      by_cases hp : p e.1 = true
      · rw [if_pos hp, if_pos hp, replace_cons]; simp [he]
      · rw [if_neg hp, if_neg hp]

theorem fk_replace_neg (p : String → Bool) (s : Dict α) (k : String) (v : α) (h : p k = false) :
    fk p (replace k v s) = fk p s := by
  induction s with
  | nil => rfl
  | cons e s ih =>
    rw [replace_cons, fk_cons, fk_cons, ih]
    by_cases he : e.1 = k
    · have hpe : p e.1 = false := he ▸ h
      simp [he, h]
    · simp [he]

theorem set_fk_pos (p : String → Bool) (s : Dict α) (k : String) (v : α) (h : p k = true) :
    fk p (s.set k v) = (fk p s).set k v := by
  rw [set_eq, set_eq, has_fk_pos p s k h]
  split
  · exact fk_replace_pos p s k v h
  · rw [fk_append]; simp [fk, h]

theorem set_fk_neg (p : String → Bool) (s : Dict α) (k : String) (v : α) (h : p k = false) :
    fk p (s.set k v) = fk p s := by
  rw [set_eq]
  split
  · exact fk_replace_neg p s k v h
  · rw [fk_append]; simp [fk, h]

theorem erase_fk (p : String → Bool) (s : Dict α) (k : String) :
    fk p (s.erase k) = (fk p s).erase k := by
  simp only [fk, Dict.erase, List.filter_filter]
  congr 1; funext e; exact Bool.and_comm _ _

theorem erase_fk_neg (p : String → Bool) (s : Dict α) (k : String) (h : p k = false) :
    fk p (s.erase k) = fk p s := by
  simp only [fk, Dict.erase, List.filter_filter]
  apply List.filter_congr
  intro e _
  by_cases he : e.1 = k
  · rw [he, h]; rfl
  · have : (e.1 == k) = false := by simpa using he
    simp [this]

end Dict

theorem metaOf_eq_fk (s : SDoc) : metaOf s = Dict.fk isMetaTable s := rfl

/-! ### record actions never touch `_schema` -/

theorem lBulkAdd_schema {d d' : LDoc} {t rows cols} (h : lBulkAdd d t rows cols = .ok d') :
    d'.schema = d.schema := by
  unfold lBulkAdd at h
  split at h
  · cases h
  · split at h
    · cases h
    · cases h; rfl

theorem lBulkRemove_schema {d d' : LDoc} {t rows} (h : lBulkRemove d t rows = .ok d') :
    d'.schema = d.schema := by
  unfold lBulkRemove at h
  split at h
  · cases h
  · cases h; rfl

theorem lBulkUpdate_schema {d d' : LDoc} {t rows cols} (h : lBulkUpdate d t rows cols = .ok d') :
    d'.schema = d.schema := by
  unfold lBulkUpdate at h
  split at h
  · cases h
  · split at h
    · cases h
    · split at h
      · cases h
      · cases h; rfl

theorem lReplaceData_schema {d d' : LDoc} {t rows cols} (h : lReplaceData d t rows cols = .ok d') :
    d'.schema = d.schema := by
  unfold lReplaceData at h
  split at h
  · cases h
  · have h2 := lBulkAdd_schema h
    simpa using h2

/-- The schema component of one step is computed by `applySchemaLenient` from the schema alone. -/
theorem applyL_schema {d d' : LDoc} {a : LAction} (h : applyL d a = .ok d') :
    applySchemaLenient d.schema a = .ok d'.schema := by
  cases a with
  | bulkAdd t rows cols => simp only [applyL] at h; simp [applySchemaLenient, lBulkAdd_schema h]
  | bulkRemove t rows => simp only [applyL] at h; simp [applySchemaLenient, lBulkRemove_schema h]
  | bulkUpdate t rows cols => simp only [applyL] at h; simp [applySchemaLenient, lBulkUpdate_schema h]
  | replaceData t rows cols => simp only [applyL] at h; simp [applySchemaLenient, lReplaceData_schema h]
  | addColumn t c info =>
    simp only [applyL] at h
    simp only [applySchemaLenient]
    split at h
    · cases h
    · rename_i sc hsc
      split at h
      · cases h
      · cases h; simp
  | removeColumn t c =>
    simp only [applyL] at h
    simp only [applySchemaLenient]
    split at h
    · cases h
    · rename_i sc hsc
      split at h
      · cases h
      · cases h; simp
  | renameColumn t old new =>
    simp only [applyL] at h
    simp only [applySchemaLenient]
    split at h
    · cases h
    · rename_i sc hsc
      split at h
      · cases h
      · rename_i ci hci
        split at h
        · cases h
        · split at h
          · cases h
          · cases h; simp
  | modifyColumn t c p =>
    simp only [applyL] at h
    simp only [applySchemaLenient]
    split at h
    · cases h
    · rename_i sc hsc
      split at h
      · cases h
      · rename_i ci hci
        cases h; simp
  | addTable t cols =>
    simp only [applyL] at h
    cases h; simp [applySchemaLenient]
  | removeTable t =>
    simp only [applyL] at h
    simp only [applySchemaLenient]
    split at h
    · split at h
      · rename_i h2; cases h; simp [h2]
      · cases h
    · cases h
  | renameTable old new =>
    simp only [applyL] at h
    simp only [applySchemaLenient]
    split at h
    · cases h
    · split at h
      · cases h
      · rename_i sc hsc
        cases h; simp

theorem runL_schema {d d' : LDoc} {as : List LAction} (h : runL d as = .ok d') :
    runSchema d.schema as = .ok d'.schema := by
  induction as generalizing d with
  | nil => simp only [runL] at h; cases h; rfl
  | cons a rest ih =>
    simp only [runL] at h
    split at h
    · cases h
    · rename_i d1 h1
      simp only [runSchema, applyL_schema h1]
      exact ih h

theorem applySchema_record {s : SDoc} {a : LAction} (h : a.isSchema = false) :
    applySchemaLenient s a = .ok s := by
  cases a <;> simp_all [LAction.isSchema, applySchemaLenient]

/-- record actions can be dropped: the schema run only sees the schema-action subsequence -/
theorem runSchema_filter (s : SDoc) (as : List LAction) :
    runSchema s as = runSchema s (as.filter LAction.isSchema) := by
  induction as generalizing s with
  | nil => rfl
  | cons a rest ih =>
    cases ha : a.isSchema with
    | false =>
      simp only [List.filter_cons, ha, Bool.false_eq_true, if_false, runSchema, applySchema_record ha]
      exact ih s
    | true =>
      simp only [List.filter_cons, ha, if_true, runSchema]
      split
      · rfl
      · exact ih _

/-! ### metadata tables vs user tables -/

theorem applySchema_meta {s s' : SDoc} {a : LAction} (hm : a.targetsMeta = true)
    (h : applySchemaLenient s a = .ok s') :
    applySchemaLenient (metaOf s) a = .ok (metaOf s') := by
  simp only [metaOf_eq_fk]
  cases a with
  | bulkAdd t rows cols => simp only [applySchemaLenient] at h ⊢; cases h; rfl
  | bulkRemove t rows => simp only [applySchemaLenient] at h ⊢; cases h; rfl
  | bulkUpdate t rows cols => simp only [applySchemaLenient] at h ⊢; cases h; rfl
  | replaceData t rows cols => simp only [applySchemaLenient] at h ⊢; cases h; rfl
  | addColumn t c info =>
    have ht : isMetaTable t = true := by simpa [LAction.targetsMeta, LAction.targets] using hm
    simp only [applySchemaLenient, Dict.get?_fk_pos _ _ _ ht] at h ⊢
    split at h
    · cases h
    · cases h; simp [Dict.set_fk_pos _ _ _ _ ht]
  | removeColumn t c =>
    have ht : isMetaTable t = true := by simpa [LAction.targetsMeta, LAction.targets] using hm
    simp only [applySchemaLenient, Dict.get?_fk_pos _ _ _ ht] at h ⊢
    split at h
    · cases h
    · cases h; simp [Dict.set_fk_pos _ _ _ _ ht]
  | renameColumn t old new =>
    have ht : isMetaTable t = true := by simpa [LAction.targetsMeta, LAction.targets] using hm
    simp only [applySchemaLenient, Dict.get?_fk_pos _ _ _ ht] at h ⊢
    split at h
    · cases h
    · split at h
      · cases h
      · cases h; simp [Dict.set_fk_pos _ _ _ _ ht]
  | modifyColumn t c p =>
    have ht : isMetaTable t = true := by simpa [LAction.targetsMeta, LAction.targets] using hm
    simp only [applySchemaLenient, Dict.get?_fk_pos _ _ _ ht] at h ⊢
    split at h
    · cases h
    · split at h
      · cases h
      · cases h; simp [Dict.set_fk_pos _ _ _ _ ht]
  | addTable t cols =>
    have ht : isMetaTable t = true := by simpa [LAction.targetsMeta, LAction.targets] using hm
    simp only [applySchemaLenient] at h ⊢
    cases h; simp [Dict.set_fk_pos _ _ _ _ ht]
  | removeTable t =>
    have ht : isMetaTable t = true := by simpa [LAction.targetsMeta, LAction.targets] using hm
    simp only [applySchemaLenient, Dict.has_fk_pos _ _ _ ht] at h ⊢
    split at h
    · cases h; simp [Dict.erase_fk, *]
    · cases h
  | renameTable old new =>
    have ht : isMetaTable old = true ∧ isMetaTable new = true := by
      simpa [LAction.targetsMeta, LAction.targets] using hm
    simp only [applySchemaLenient, Dict.get?_fk_pos _ _ _ ht.1] at h ⊢
    split at h
    · cases h
    · cases h; simp [Dict.set_fk_pos _ _ _ _ ht.2, Dict.erase_fk]

theorem applySchema_user {s s' : SDoc} {a : LAction} (hu : a.targetsUser = true)
    (h : applySchemaLenient s a = .ok s') : metaOf s' = metaOf s := by
  simp only [metaOf_eq_fk]
  cases a with
  | bulkAdd t rows cols => simp only [applySchemaLenient] at h; cases h; rfl
  | bulkRemove t rows => simp only [applySchemaLenient] at h; cases h; rfl
  | bulkUpdate t rows cols => simp only [applySchemaLenient] at h; cases h; rfl
  | replaceData t rows cols => simp only [applySchemaLenient] at h; cases h; rfl
  | addColumn t c info =>
    have ht : isMetaTable t = false := by simpa [LAction.targetsUser, LAction.targets] using hu
    simp only [applySchemaLenient] at h
    split at h
    · cases h
    · cases h; exact Dict.set_fk_neg _ _ _ _ ht
  | removeColumn t c =>
    have ht : isMetaTable t = false := by simpa [LAction.targetsUser, LAction.targets] using hu
    simp only [applySchemaLenient] at h
    split at h
    · cases h
    · cases h; exact Dict.set_fk_neg _ _ _ _ ht
  | renameColumn t old new =>
    have ht : isMetaTable t = false := by simpa [LAction.targetsUser, LAction.targets] using hu
    simp only [applySchemaLenient] at h
    split at h
    · cases h
    · split at h
      · cases h
      · cases h; exact Dict.set_fk_neg _ _ _ _ ht
  | modifyColumn t c p =>
    have ht : isMetaTable t = false := by simpa [LAction.targetsUser, LAction.targets] using hu
    simp only [applySchemaLenient] at h
    split at h
    · cases h
    · split at h
      · cases h
      · cases h; exact Dict.set_fk_neg _ _ _ _ ht
  | addTable t cols =>
    have ht : isMetaTable t = false := by simpa [LAction.targetsUser, LAction.targets] using hu
    simp only [applySchemaLenient] at h
    cases h; exact Dict.set_fk_neg _ _ _ _ ht
  | removeTable t =>
    have ht : isMetaTable t = false := by simpa [LAction.targetsUser, LAction.targets] using hu
    simp only [applySchemaLenient] at h
    split at h
    · cases h; exact Dict.erase_fk_neg _ _ _ ht
    · cases h
  | renameTable old new =>
    have ht : isMetaTable old = false ∧ isMetaTable new = false := by
      simpa [LAction.targetsUser, LAction.targets] using hu
    simp only [applySchemaLenient] at h
    split at h
    · cases h
    · cases h
      rw [Dict.set_fk_neg _ _ _ _ ht.2, Dict.erase_fk_neg _ _ _ ht.1]

/-- A run in which every action names only metadata tables or only user tables: the metadata part
    of the schema evolves by the metadata actions alone. -/
theorem runSchema_meta {s s' : SDoc} {as : List LAction}
    (hsep : ∀ a ∈ as, a.targetsMeta = true ∨ a.targetsUser = true)
    (h : runSchema s as = .ok s') :
    runSchema (metaOf s) (as.filter LAction.targetsMeta) = .ok (metaOf s') := by
  induction as generalizing s with
  | nil => simp only [runSchema] at h; cases h; rfl
  | cons a rest ih =>
    simp only [runSchema] at h
    split at h
    · cases h
    · rename_i s1 h1
      have hrest : ∀ a ∈ rest, a.targetsMeta = true ∨ a.targetsUser = true :=
        fun b hb => hsep b (List.mem_cons_of_mem _ hb)
      cases hm : a.targetsMeta with
      | true =>
        simp only [List.filter_cons, hm, if_true, runSchema, applySchema_meta hm h1]
        exact ih hrest h
      | false =>
        have hu : a.targetsUser = true := by
          rcases hsep a (List.mem_cons_self ..) with h' | h'
          · rw [hm] at h'; cases h'
          · exact h'
        simp only [List.filter_cons, hm, Bool.false_eq_true, if_false]
        rw [← applySchema_user hu h1]
        exact ih hrest h

/-! ### frame: tables an action does not name -/

theorem lBulkAdd_tables {d d' : LDoc} {t rows cols} (h : lBulkAdd d t rows cols = .ok d') :
    ∃ td, d'.allTables = d.allTables.set t td := by
  unfold lBulkAdd at h
  split at h
  · cases h
  · split at h
    · cases h
    · cases h; exact ⟨_, rfl⟩

theorem lBulkRemove_tables {d d' : LDoc} {t rows} (h : lBulkRemove d t rows = .ok d') :
    ∃ td, d'.allTables = d.allTables.set t td := by
  unfold lBulkRemove at h
  split at h
  · cases h
  · cases h; exact ⟨_, rfl⟩

theorem lBulkUpdate_tables {d d' : LDoc} {t rows cols} (h : lBulkUpdate d t rows cols = .ok d') :
    ∃ td, d'.allTables = d.allTables.set t td := by
  unfold lBulkUpdate at h
  split at h
  · cases h
  · split at h
    · cases h
    · split at h
      · cases h
      · cases h; exact ⟨_, rfl⟩

/-- One step leaves every table it does not name exactly as it was (data and schema). -/
theorem applyL_frame {d d' : LDoc} {a : LAction} {u : String} (h : applyL d a = .ok d')
    (hu : u ∉ a.targets) :
    d'.allTables.get? u = d.allTables.get? u ∧ d'.schema.get? u = d.schema.get? u := by
  cases a with
  | bulkAdd t rows cols =>
    have hne : u ≠ t := by simpa [LAction.targets] using hu
    simp only [applyL] at h
    obtain ⟨td, htd⟩ := lBulkAdd_tables h
    exact ⟨by rw [htd, Dict.get?_set_ne _ _ _ _ hne], by rw [lBulkAdd_schema h]⟩
  | bulkRemove t rows =>
    have hne : u ≠ t := by simpa [LAction.targets] using hu
    simp only [applyL] at h
    obtain ⟨td, htd⟩ := lBulkRemove_tables h
    exact ⟨by rw [htd, Dict.get?_set_ne _ _ _ _ hne], by rw [lBulkRemove_schema h]⟩
  | bulkUpdate t rows cols =>
    have hne : u ≠ t := by simpa [LAction.targets] using hu
    simp only [applyL] at h
    obtain ⟨td, htd⟩ := lBulkUpdate_tables h
    exact ⟨by rw [htd, Dict.get?_set_ne _ _ _ _ hne], by rw [lBulkUpdate_schema h]⟩
  | replaceData t rows cols =>
    have hne : u ≠ t := by simpa [LAction.targets] using hu
    simp only [applyL] at h
    refine ⟨?_, by rw [lReplaceData_schema h]⟩
    unfold lReplaceData at h
    split at h
    · cases h
    · obtain ⟨td, htd⟩ := lBulkAdd_tables h
      rw [htd]; simp only
      rw [Dict.get?_set_ne _ _ _ _ hne, Dict.get?_set_ne _ _ _ _ hne]
  | addColumn t c info =>
    have hne : u ≠ t := by simpa [LAction.targets] using hu
    simp only [applyL] at h
    split at h
    · cases h
    · split at h
      · cases h
      · cases h; exact ⟨Dict.get?_set_ne _ _ _ _ hne, Dict.get?_set_ne _ _ _ _ hne⟩
  | removeColumn t c =>
    have hne : u ≠ t := by simpa [LAction.targets] using hu
    simp only [applyL] at h
    split at h
    · cases h
    · split at h
      · cases h
      · cases h; exact ⟨Dict.get?_set_ne _ _ _ _ hne, Dict.get?_set_ne _ _ _ _ hne⟩
  | renameColumn t old new =>
    have hne : u ≠ t := by simpa [LAction.targets] using hu
    simp only [applyL] at h
    split at h
    · cases h
    · split at h
      · cases h
      · split at h
        · cases h
        · split at h
          · cases h
          · cases h; exact ⟨Dict.get?_set_ne _ _ _ _ hne, Dict.get?_set_ne _ _ _ _ hne⟩
  | modifyColumn t c p =>
    have hne : u ≠ t := by simpa [LAction.targets] using hu
    simp only [applyL] at h
    split at h
    · cases h
    · split at h
      · cases h
      · cases h; exact ⟨rfl, Dict.get?_set_ne _ _ _ _ hne⟩
  | addTable t cols =>
    have hne : u ≠ t := by simpa [LAction.targets] using hu
    simp only [applyL] at h
    cases h; exact ⟨Dict.get?_set_ne _ _ _ _ hne, Dict.get?_set_ne _ _ _ _ hne⟩
  | removeTable t =>
    have hne : u ≠ t := by simpa [LAction.targets] using hu
    simp only [applyL] at h
    split at h
    · split at h
      · cases h; exact ⟨Dict.get?_erase_ne _ _ _ hne, Dict.get?_erase_ne _ _ _ hne⟩
      · cases h
    · cases h
  | renameTable old new =>
    have hne : u ≠ old ∧ u ≠ new := by simpa [LAction.targets] using hu
    simp only [applyL] at h
    split at h
    · cases h
    · split at h
      · cases h
      · cases h
        exact ⟨by rw [Dict.get?_set_ne _ _ _ _ hne.2, Dict.get?_erase_ne _ _ _ hne.1],
               by rw [Dict.get?_set_ne _ _ _ _ hne.2, Dict.get?_erase_ne _ _ _ hne.1]⟩

end Grist.Doc
