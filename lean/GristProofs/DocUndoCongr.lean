/-
S3: doc actions respect observational equality: on `Same` (well-formed) documents the same action
succeeds on both and gives `Same` documents.
-/
import GristProofs.DocUndoSchema2
namespace Grist.Doc

theorem Same.find_some {d1 d2 : Doc} (h : Same d1 d2) {t : String} {tb1 : Table}
    (hf : findTable? d1 t = some tb1) : ∃ tb2, findTable? d2 t = some tb2 ∧ Table.Same tb1 tb2 := by
  have := (same_iff _ _).1 h t
  rw [hf] at this
  exact this.left_some

theorem Same.find_none {d1 d2 : Doc} (h : Same d1 d2) {t : String}
    (hf : findTable? d1 t = none) : findTable? d2 t = none := by
  have := (same_iff _ _).1 h t
  rw [hf] at this
  exact this.left_none

theorem Table.Same.col_some {tb1 tb2 : Table} (h : Table.Same tb1 tb2) {c : String} {c1 : Col}
    (hc : tb1.findCol? c = some c1) : ∃ c2, tb2.findCol? c = some c2 ∧ Col.SameOn tb1.rows c1 c2 := by
  have := ((tableSame_iff _ _).1 h).2 c
  rw [hc] at this
  exact this.left_some

theorem Table.Same.col_none {tb1 tb2 : Table} (h : Table.Same tb1 tb2) {c : String}
    (hc : tb1.findCol? c = none) : tb2.findCol? c = none := by
  have := ((tableSame_iff _ _).1 h).2 c
  rw [hc] at this
  exact this.left_none

theorem Table.Same.hasCol_eq {tb1 tb2 : Table} (h : Table.Same tb1 tb2) (c : String) :
    tb1.hasCol c = tb2.hasCol c := by
  have := ((tableSame_iff _ _).1 h).2 c
  unfold Table.hasCol
  cases h1 : tb1.findCol? c <;> cases h2 : tb2.findCol? c <;> simp [h1, h2] at this ⊢

theorem ORel.or {α β : Type} {R : α → β → Prop} {a a' : Option α} {b b' : Option β}
    (h : ORel R a b) (h' : ORel R a' b') : ORel R (a.or a') (b.or b') := by
  cases a <;> cases b <;> simp_all

theorem ORel.ite {α β : Type} {R : α → β → Prop} {a : Option α} {b : Option β} (p : Prop)
    [Decidable p] (h : ORel R a b) : ORel R (if p then none else a) (if p then none else b) := by
  by_cases hp : p <;> simp [hp, h]

theorem ORel.ite_some {α β : Type} {R : α → β → Prop} {a : α} {b : β} (p : Prop)
    [Decidable p] (h : R a b) : ORel R (if p then some a else none) (if p then some b else none) := by
  by_cases hp : p <;> simp [hp, h]

/-- columns mapped by id-preserving functions that respect `SameOn` -/
theorem tableSame_map2 {tb1 tb2 tb1' tb2' : Table} (hs : Table.Same tb1 tb2) (F1 F2 : Col → Col)
    (hid1 : ∀ x, (F1 x).id = x.id) (hid2 : ∀ x, (F2 x).id = x.id)
    (hc1 : tb1'.cols = tb1.cols.map F1) (hc2 : tb2'.cols = tb2.cols.map F2)
    (hr : tb1'.rows = tb2'.rows)
    (h : ∀ c x y, tb1.findCol? c = some x → tb2.findCol? c = some y → Col.SameOn tb1.rows x y →
      Col.SameOn tb1'.rows (F1 x) (F2 y)) :
    Table.Same tb1' tb2' := by
  rw [tableSame_iff]
  refine ⟨hr, fun c => ?_⟩
  have e1 : tb1'.findCol? c = (tb1.findCol? c).map F1 := by
    unfold Table.findCol?; rw [hc1]; exact find_key_map Col.id F1 hid1
  have e2 : tb2'.findCol? c = (tb2.findCol? c).map F2 := by
    unfold Table.findCol?; rw [hc2]; exact find_key_map Col.id F2 hid2
  rw [e1, e2]
  have := ((tableSame_iff _ _).1 hs).2 c
  cases h1 : tb1.findCol? c <;> cases h2 : tb2.findCol? c <;> simp [h1, h2] at this ⊢
  exact h c _ _ h1 h2 this

theorem Table.Same.written {tb1 tb2 : Table} (hs : Table.Same tb1 tb2) (rows : List Nat)
    (cols : List (String × List Val)) : Table.Same (tb1.written rows cols) (tb2.written rows cols) := by
  apply tableSame_map2 (tb1' := tb1.written rows cols) (tb2' := tb2.written rows cols) hs
    (Col.written rows cols) (Col.written rows cols) (fun _ => rfl) (fun _ => rfl) rfl rfl hs.1
  intro c x y hx hy hsame
  have hxy : x.id = y.id := (findCol?_some hx).1.trans (findCol?_some hy).1.symm
  refine ⟨hsame.1, fun r hr => ?_⟩
  simp only [Col.written, hxy, hsame.1]
  exact writeCells_congr_at _ _ _ _ _ _ (hsame.2 r hr)

theorem Table.Same.addRows {tb1 tb2 : Table} (hs : Table.Same tb1 tb2) (h1 : tb1.WF) (h2 : tb2.WF)
    (rows : List Nat) :
    Table.Same { tb1 with rows := insertRows rows tb1.rows }
      { tb2 with rows := insertRows rows tb2.rows } := by
  apply tableSame_map2 (tb1' := { tb1 with rows := insertRows rows tb1.rows })
    (tb2' := { tb2 with rows := insertRows rows tb2.rows }) hs (fun x => x) (fun x => x)
    (fun _ => rfl) (fun _ => rfl) (by simp) (by simp)
    (by show insertRows rows tb1.rows = insertRows rows tb2.rows; rw [hs.1])
  intro c x y hx hy hsame
  refine ⟨hsame.1, fun r _ => ?_⟩
  by_cases hr : r ∈ tb1.rows
  · exact hsame.2 r hr
  · have e1 := h1.2.2.2 x (findCol?_some hx).2 r hr
    have e2 := h2.2.2.2 y (findCol?_some hy).2 r (by rw [← hs.1]; exact hr)
    show x.cells r = y.cells r
    rw [e1, e2, hsame.1]

theorem Table.Same.congr_id {a b : Table} (h : Table.Same a b) (k k' : String) :
    Table.Same { a with id := k } { b with id := k' } := by
  rw [tableSame_iff] at h ⊢
  exact h

theorem Table.Same.removeRows {tb1 tb2 : Table} (hs : Table.Same tb1 tb2) (rows' : List Nat) :
    Table.Same (tb1.removeRows rows') (tb2.removeRows rows') := by
  apply tableSame_map2 (tb1' := tb1.removeRows rows') (tb2' := tb2.removeRows rows') hs
    (Col.unsetRows rows') (Col.unsetRows rows') (fun _ => rfl) (fun _ => rfl) rfl rfl
    (by simp only [Table.removeRows]; rw [hs.1])
  intro c x y _ _ hsame
  refine ⟨hsame.1, fun r hr => ?_⟩
  have hr1 : r ∈ tb1.rows := (List.mem_filter.1 hr).1
  simp only [Col.unsetRows, hsame.1, hsame.2 r hr1]

theorem Table.Same.cleared {tb1 tb2 : Table} (hs : Table.Same tb1 tb2) (rows : List Nat) :
    Table.Same (tb1.cleared rows) (tb2.cleared rows) := by
  apply tableSame_map2 (tb1' := tb1.cleared rows) (tb2' := tb2.cleared rows) hs
    Col.clear Col.clear (fun _ => rfl) (fun _ => rfl) rfl rfl rfl
  intro c x y _ _ hsame
  refine ⟨hsame.1, fun r _ => ?_⟩
  simp only [Col.clear, hsame.1]

theorem Table.Same.addCol {tb1 tb2 : Table} (hs : Table.Same tb1 tb2) (col : Col) :
    Table.Same { tb1 with cols := tb1.cols ++ [col] } { tb2 with cols := tb2.cols ++ [col] } := by
  rw [tableSame_iff] at hs ⊢
  refine ⟨hs.1, fun c => ?_⟩
  rw [findCol?_append_single, findCol?_append_single]
  exact ORel.or (hs.2 c) (ORel.ite_some _ (Col.SameOn.refl _ _))

theorem Table.Same.dropCol {tb1 tb2 : Table} (hs : Table.Same tb1 tb2) (c : String) :
    Table.Same { tb1 with cols := tb1.cols.filter (fun x => x.id != c) }
      { tb2 with cols := tb2.cols.filter (fun x => x.id != c) } := by
  rw [tableSame_iff] at hs ⊢
  refine ⟨hs.1, fun k => ?_⟩
  rw [findCol?_filter_ne, findCol?_filter_ne]
  exact ORel.ite _ (hs.2 k)

theorem Table.Same.swapCol {tb1 tb2 : Table} (hs : Table.Same tb1 tb2) (c : String) {col1 col2 : Col}
    (hid : col1.id = col2.id) (hso : Col.SameOn tb1.rows col1 col2) :
    Table.Same { tb1 with cols := tb1.cols.filter (fun x => x.id != c) ++ [col1] }
      { tb2 with cols := tb2.cols.filter (fun x => x.id != c) ++ [col2] } := by
  rw [tableSame_iff] at hs ⊢
  refine ⟨hs.1, fun k => ?_⟩
  rw [findCol?_swap, findCol?_swap, hid]
  exact ORel.or (ORel.ite _ (hs.2 k)) (ORel.ite_some _ hso)

theorem post_congr {d1 d2 : Doc} {a : DocAction} {D1 : Doc} {U1 : List DocAction}
    (hw1 : WF d1) (hw2 : WF d2) (hs : Same d1 d2) (hpos : a.rowsPositive) (h : Post d1 a D1 U1) :
    ∃ D2 U2, Post d2 a D2 U2 ∧ Same D1 D2 := by
  cases a with
  | bulkAdd t rows cols =>
    obtain ⟨tb1, tb12, hf1, hno, hw, rfl, rfl⟩ := h
    obtain ⟨tb2, hf2, hts⟩ := hs.find_some hf1
    have ht1 := hw1.table hf1
    have ht2 := hw2.table hf2
    have hid1 := (findTable?_some hf1).1
    have hid2 := (findTable?_some hf2).1
    rw [filter_ne_zero_of_pos hpos] at hw
    have hsa := hts.addRows ht1 ht2 rows
    have hwa1 := ht1.addRows hpos
    have hwa2 := ht2.addRows hpos
    rw [writeCols_ok_iff hwa1.1] at hw
    obtain ⟨hk, rfl⟩ := hw
    have hk2 : ∀ cv ∈ cols,
        Table.hasCol { tb2 with rows := insertRows rows tb2.rows } cv.1 = true := by
      intro cv hcv; rw [← hsa.hasCol_eq]; exact hk cv hcv
    refine ⟨_, _, ⟨tb2, _, hf2, by rw [← hts.1]; exact hno,
      by rw [filter_ne_zero_of_pos hpos]; exact writeCols_eq_written cols _ rows hwa2.1 hk2,
      rfl, rfl⟩, ?_⟩
    exact same_replaceTable_congr hs hf1 hf2 hid1 hid2 (hsa.written rows cols)
  | bulkRemove t rows =>
    obtain ⟨tb1, hf1, hcase⟩ := h
    obtain ⟨tb2, hf2, hts⟩ := hs.find_some hf1
    have hid1 := (findTable?_some hf1).1
    have hid2 := (findTable?_some hf2).1
    have hrw : rows.filter (fun r => tb2.rows.contains r) =
        rows.filter (fun r => tb1.rows.contains r) := by rw [hts.1]
    rcases hcase with ⟨he, rfl, rfl⟩ | ⟨he, rfl, rfl⟩
    · exact ⟨d2, [], ⟨tb2, hf2, .inl ⟨by rw [hrw]; exact he, rfl, rfl⟩⟩, hs⟩
    · refine ⟨_, _, ⟨tb2, hf2, .inr ⟨by rw [hrw]; exact he, rfl, rfl⟩⟩, ?_⟩
      rw [hrw]
      exact same_replaceTable_congr hs hf1 hf2 hid1 hid2 (hts.removeRows _)
  | bulkUpdate t rows cols =>
    obtain ⟨tb1, tb12, hf1, h1, h2, hw, rfl, rfl⟩ := h
    obtain ⟨tb2, hf2, hts⟩ := hs.find_some hf1
    have ht1 := hw1.table hf1
    have ht2 := hw2.table hf2
    have hid1 := (findTable?_some hf1).1
    have hid2 := (findTable?_some hf2).1
    rw [writeCols_ok_iff ht1.1] at hw
    obtain ⟨hk, rfl⟩ := hw
    have hk2 : ∀ cv ∈ cols, tb2.hasCol cv.1 = true := by
      intro cv hcv; rw [← hts.hasCol_eq]; exact hk cv hcv
    refine ⟨_, _, ⟨tb2, _, hf2, by rw [← hts.1]; exact h1, hk2,
      writeCols_eq_written cols _ rows ht2.1 hk2, rfl, rfl⟩, ?_⟩
    exact same_replaceTable_congr hs hf1 hf2 hid1 hid2 (hts.written rows cols)
  | replaceData t rows cols =>
    obtain ⟨tb1, tb12, hf1, hw, rfl, rfl⟩ := h
    obtain ⟨tb2, hf2, hts⟩ := hs.find_some hf1
    have ht1 := hw1.table hf1
    have ht2 := hw2.table hf2
    have hid1 := (findTable?_some hf1).1
    have hid2 := (findTable?_some hf2).1
    have hc1 := Table.WF.cleared tb1 ht1 hpos
    have hc2 := Table.WF.cleared tb2 ht2 hpos
    rw [filter_ne_zero_of_pos hpos] at hw
    rw [writeCols_ok_iff hc1.1] at hw
    obtain ⟨hk, rfl⟩ := hw
    have hsc := hts.cleared (insertRows rows [])
    have hkn : cols.filter (fun cv => tb2.hasCol cv.1) = cols.filter (fun cv => tb1.hasCol cv.1) := by
      congr 1; funext cv; rw [hts.hasCol_eq]
    have hk2 : ∀ cv ∈ cols.filter (fun cv => tb1.hasCol cv.1),
        (tb2.cleared (insertRows rows [])).hasCol cv.1 = true := by
      intro cv hcv; rw [← hsc.hasCol_eq]; exact hk cv hcv
    refine ⟨_, _, ⟨tb2, _, hf2,
      by rw [filter_ne_zero_of_pos hpos, hkn]; exact writeCols_eq_written _ _ rows hc2.1 hk2,
      rfl, rfl⟩, ?_⟩
    exact same_replaceTable_congr hs hf1 hf2 hid1 hid2 (hsc.written rows _)
  | addColumn t c info =>
    obtain ⟨tb1, hf1, h1, rfl, rfl⟩ := h
    obtain ⟨tb2, hf2, hts⟩ := hs.find_some hf1
    have hid1 := (findTable?_some hf1).1
    have hid2 := (findTable?_some hf2).1
    refine ⟨_, _, ⟨tb2, hf2, by rw [← hts.hasCol_eq]; exact h1, rfl, rfl⟩, ?_⟩
    exact same_replaceTable_congr hs hf1 hf2 hid1 hid2 (hts.addCol _)
  | removeColumn t c =>
    obtain ⟨tb1, col1, hf1, hc1, rfl, rfl⟩ := h
    obtain ⟨tb2, hf2, hts⟩ := hs.find_some hf1
    obtain ⟨col2, hc2, _⟩ := hts.col_some hc1
    have hid1 := (findTable?_some hf1).1
    have hid2 := (findTable?_some hf2).1
    refine ⟨_, _, ⟨tb2, col2, hf2, hc2, rfl, rfl⟩, ?_⟩
    exact same_replaceTable_congr hs hf1 hf2 hid1 hid2 (hts.dropCol c)
  | renameColumn t old new =>
    obtain ⟨tb1, col1, hf1, hc1, h1, rfl, rfl⟩ := h
    obtain ⟨tb2, hf2, hts⟩ := hs.find_some hf1
    obtain ⟨col2, hc2, hso⟩ := hts.col_some hc1
    have hid1 := (findTable?_some hf1).1
    have hid2 := (findTable?_some hf2).1
    refine ⟨_, _, ⟨tb2, col2, hf2, hc2, by rw [← hts.hasCol_eq]; exact h1, rfl, rfl⟩, ?_⟩
    exact same_replaceTable_congr hs hf1 hf2 hid1 hid2
      (hts.swapCol old (col1 := { col1 with id := new }) (col2 := { col2 with id := new }) rfl hso)
  | modifyColumn t c p =>
    obtain ⟨tb1, col1, hf1, hc1, hcase⟩ := h
    obtain ⟨tb2, hf2, hts⟩ := hs.find_some hf1
    obtain ⟨col2, hc2, hso⟩ := hts.col_some hc1
    have hid1 := (findTable?_some hf1).1
    have hid2 := (findTable?_some hf2).1
    rcases hcase with ⟨he, rfl, rfl⟩ | ⟨he, rfl, rfl⟩
    · exact ⟨d2, [], ⟨tb2, col2, hf2, hc2, .inl ⟨by rw [← hso.1]; exact he, rfl, rfl⟩⟩, hs⟩
    · refine ⟨_, _, ⟨tb2, col2, hf2, hc2, .inr ⟨by rw [← hso.1]; exact he, rfl, rfl⟩⟩, ?_⟩
      refine same_replaceTable_congr hs hf1 hf2 hid1 hid2
        (hts.swapCol c (col1 := modCol tb1 col1 c p) (col2 := modCol tb2 col2 c p) rfl ?_)
      refine ⟨by simp only [modCol, hso.1], fun r hr => ?_⟩
      simp only [modCol, ← hts.1, hso.1, hso.2 r hr]
  | addTable t cols =>
    obtain ⟨hf1, rfl, rfl⟩ := h
    have hf2 := hs.find_none hf1
    refine ⟨_, _, ⟨hf2, rfl, rfl⟩, ?_⟩
    rw [same_iff] at hs ⊢
    intro t'
    rw [findTable?_append_single, findTable?_append_single]
    exact ORel.or (hs t') (ORel.ite_some _ (Table.Same.refl _))
  | removeTable t =>
    obtain ⟨tb1, hf1, rfl, rfl⟩ := h
    obtain ⟨tb2, hf2, hts⟩ := hs.find_some hf1
    refine ⟨_, _, ⟨tb2, hf2, rfl, rfl⟩, ?_⟩
    rw [same_iff] at hs ⊢
    intro t'
    rw [findTable?_filter_ne, findTable?_filter_ne]
    exact ORel.ite _ (hs t')
  | renameTable old new =>
    obtain ⟨tb1, hf1, hn1, rfl, rfl⟩ := h
    obtain ⟨tb2, hf2, hts⟩ := hs.find_some hf1
    have hn2 := hs.find_none hn1
    refine ⟨_, _, ⟨tb2, hf2, hn2, rfl, rfl⟩, ?_⟩
    rw [same_iff] at hs ⊢
    intro t'
    rw [findTable?_append_single, findTable?_append_single, findTable?_filter_ne,
      findTable?_filter_ne]
    exact ORel.or (ORel.ite _ (hs t')) (ORel.ite_some (new = t') (hts.congr_id new new))

end Grist.Doc
