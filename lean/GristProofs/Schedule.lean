/-
Helper development for C35: the `series` loop of GristModel/Schedule.lean as list algebra.
No calendar facts here (those are in GristProofs/ScheduleCivil.lean).
-/
import GristModel.Schedule
namespace Grist.Schedule

/-- values produced by one pass over the slots at boundary `dtime` -/
def outsAt (sch : Sched) (dtime : Int) : List Int := sch.slots.map (·.addTo dtime)

attribute [local irreducible] Delta.addTo

/-- the `k`-th boundary: `dtime = self._interval.add_to(dtime)` applied `k` times -/
def iterB (sch : Sched) (b : Int) : Nat → Int
  | 0 => b
  | k + 1 => sch.interval.addTo (iterB sch b k)

/-- all candidate times of the first `K` passes, in generation order -/
def occFrom (sch : Sched) (b : Int) : Nat → List Int
  | 0 => []
  | K + 1 => outsAt sch b ++ occFrom sch (sch.interval.addTo b) K

/-- `out > end_dtime` is false -/
def upTo (stop : Option Int) (t : Int) : Bool := !pastEnd stop t

theorem upTo_none (t : Int) : upTo none t = true := rfl
theorem upTo_some (e t : Int) : upTo (some e) t = decide (t ≤ e) := by
  simp only [upTo, pastEnd]
  by_cases h : e < t <;> simp [h] <;> omega

@[simp] theorem iterB_zero (sch : Sched) (b : Int) : iterB sch b 0 = b := rfl
theorem iterB_succ' (sch : Sched) (b : Int) (k : Nat) :
    iterB sch b (k + 1) = sch.interval.addTo (iterB sch b k) := rfl
theorem iterB_one (sch : Sched) (b : Int) : iterB sch b 1 = sch.interval.addTo b := rfl

/-- shifting the start by one interval -/
theorem iterB_succ (sch : Sched) (b : Int) (k : Nat) :
    iterB sch b (k + 1) = iterB sch (sch.interval.addTo b) k := by
  induction k with
  | zero => rfl
  | succ k ih => rw [iterB_succ' sch b (k + 1), ih, ← iterB_succ']

/-- what the generator computes from the stream of candidates, without any assumption:
    skip those before `start`, stop at the first one after `end`, stop after `c` results. -/
def want (start : Int) (stop : Option Int) (c : Nat) (l : List Int) : List Int :=
  ((l.filter (fun t => decide (start ≤ t))).takeWhile (upTo stop)).take c

theorem occFrom_eq_flatMap (sch : Sched) (b : Int) (K : Nat) :
    occFrom sch b K = (List.range K).flatMap (fun k => outsAt sch (iterB sch b k)) := by
  induction K generalizing b with
  | zero => rfl
  | succ K ih =>
    rw [occFrom, ih, List.range_succ_eq_map, List.flatMap_cons, List.flatMap_map, iterB_zero]
    congr 1
    have : (fun k => outsAt sch (iterB sch (sch.interval.addTo b) k))
        = ((fun k => outsAt sch (iterB sch b k)) ∘ Nat.succ) := by
      funext k
      show outsAt sch (iterB sch (sch.interval.addTo b) k) = outsAt sch (iterB sch b (k + 1))
      rw [iterB_succ]
    rw [this]
    rfl

theorem mem_occFrom {sch : Sched} {b : Int} {K : Nat} {x : Int} :
    x ∈ occFrom sch b K ↔ ∃ k, k < K ∧ ∃ s ∈ sch.slots, x = s.addTo (iterB sch b k) := by
  rw [occFrom_eq_flatMap]
  simp only [List.mem_flatMap, List.mem_range, outsAt, List.mem_map]
  constructor
  · rintro ⟨k, hk, s, hs, rfl⟩; exact ⟨k, hk, s, hs, rfl⟩
  · rintro ⟨k, hk, s, hs, rfl⟩; exact ⟨k, hk, s, hs, rfl⟩

/-! ### one pass -/

theorem want_skip (start : Int) (stop : Option Int) (c : Nat) (x : Int) (l : List Int)
    (h : x < start) : want start stop c (x :: l) = want start stop c l := by
  simp only [want]
  rw [List.filter_cons_of_neg (by simpa using h)]

theorem want_stop (start : Int) (stop : Option Int) (c : Nat) (x : Int) (l : List Int)
    (h : start ≤ x) (h2 : pastEnd stop x = true) : want start stop c (x :: l) = [] := by
  simp only [want]
  rw [List.filter_cons_of_pos (by simpa using h), List.takeWhile_cons_of_neg (by simp [upTo, h2])]
  simp

theorem want_yield (start : Int) (stop : Option Int) (c : Nat) (x : Int) (l : List Int)
    (h : start ≤ x) (h2 : pastEnd stop x = false) :
    want start stop (c + 1) (x :: l) = x :: want start stop c l := by
  simp only [want]
  rw [List.filter_cons_of_pos (by simpa using h), List.takeWhile_cons_of_pos (by simp [upTo, h2])]
  simp

theorem pass_spec (start : Int) (stop : Option Int) (dtime : Int) (later : List Int) :
    ∀ (slots : List Delta) (c : Nat),
      ((pass start stop dtime slots c).2.2 = true →
        want start stop c (slots.map (·.addTo dtime) ++ later) = (pass start stop dtime slots c).1) ∧
      ((pass start stop dtime slots c).2.2 = false →
        want start stop c (slots.map (·.addTo dtime) ++ later)
          = (pass start stop dtime slots c).1
            ++ want start stop (pass start stop dtime slots c).2.1 later) := by
  intro slots
  induction slots with
  | nil => intro c; simp [pass]
  | cons s rest ih =>
    intro c
    simp only [pass, List.map_cons, List.cons_append]
    by_cases hc : c = 0
    · subst hc; simp [want]
    · rw [if_neg hc]
      by_cases h1 : s.addTo dtime < start
      · rw [if_pos h1, want_skip _ _ _ _ _ h1]; exact ih c
      · rw [if_neg h1]
        have hge : start ≤ s.addTo dtime := by omega
        by_cases h2 : pastEnd stop (s.addTo dtime) = true
        · rw [if_pos h2, want_stop _ _ _ _ _ hge h2]; simp
        · rw [if_neg h2]
          have h2' : pastEnd stop (s.addTo dtime) = false := by simpa using h2
          obtain ⟨c', rfl⟩ : ∃ c', c = c' + 1 := ⟨c - 1, by omega⟩
          rw [want_yield _ _ _ _ _ hge h2', Nat.add_sub_cancel]
          have := ih c'
          constructor
          · intro h; rw [this.1 h]
          · intro h; rw [this.2 h]; rfl

/-- the remaining count never grows -/
theorem pass_count_le (start : Int) (stop : Option Int) (dtime : Int) :
    ∀ (slots : List Delta) (c : Nat), (pass start stop dtime slots c).2.1 ≤ c := by
  intro slots
  induction slots with
  | nil => intro c; simp [pass]
  | cons s rest ih =>
    intro c
    simp only [pass]
    split
    · simp
    · split
      · exact ih c
      · split
        · simp
        · have := ih (c - 1); simp only; omega

/-- if no candidate of the pass lies before `start`, the pass either ends the generator or
    uses up at least one of the wanted results -/
theorem pass_progress (start : Int) (stop : Option Int) (dtime : Int) :
    ∀ (slots : List Delta) (c : Nat), slots ≠ [] →
      (∀ s ∈ slots, start ≤ s.addTo dtime) →
      (pass start stop dtime slots c).2.2 = true ∨ (pass start stop dtime slots c).2.1 < c := by
  intro slots
  induction slots with
  | nil => intro c h; exact absurd rfl h
  | cons s rest ih =>
    intro c _ hall
    simp only [pass]
    by_cases hc : c = 0
    · simp [hc]
    · rw [if_neg hc]
      have h1 : ¬ s.addTo dtime < start := by
        have := hall s (by simp); omega
      rw [if_neg h1]
      split
      · simp
      · right
        have := pass_count_le start stop dtime rest (c - 1)
        simp only; omega

/-! ### the loop -/

theorem seriesFuel_spec (sch : Sched) (start : Int) (stop : Option Int) :
    ∀ (f : Nat) (dtime : Int) (c : Nat) (r : List Int),
      seriesFuel sch start stop f dtime c = some r →
      ∀ K, f ≤ K → r = want start stop c (occFrom sch dtime K) := by
  intro f
  induction f with
  | zero => intro dtime c r h; simp [seriesFuel] at h
  | succ f ih =>
    intro dtime c r h K hK
    obtain ⟨K', rfl⟩ : ∃ K', K = K' + 1 := ⟨K - 1, by omega⟩
    simp only [seriesFuel] at h
    have ps := pass_spec start stop dtime (occFrom sch (sch.interval.addTo dtime) K') sch.slots c
    simp only [occFrom, outsAt]
    by_cases hs : (pass start stop dtime sch.slots c).2.2 = true
    · rw [if_pos hs] at h
      rw [ps.1 hs]; exact (Option.some.inj h).symm
    · have hs' : (pass start stop dtime sch.slots c).2.2 = false := by simpa using hs
      rw [if_neg hs] at h
      rw [ps.2 hs']
      cases hrec : seriesFuel sch start stop f (sch.interval.addTo dtime)
          (pass start stop dtime sch.slots c).2.1 with
      | none => rw [hrec] at h; simp at h
      | some r' =>
        rw [hrec] at h
        simp only [Option.map_some, Option.some.injEq] at h
        rw [← h, ih _ _ _ hrec K' (by omega)]

/-- more fuel does not change a finished run -/
theorem seriesFuel_mono (sch : Sched) (start : Int) (stop : Option Int) :
    ∀ (f : Nat) (dtime : Int) (c : Nat) (r : List Int),
      seriesFuel sch start stop f dtime c = some r →
      ∀ f', f ≤ f' → seriesFuel sch start stop f' dtime c = some r := by
  intro f
  induction f with
  | zero => intro dtime c r h; simp [seriesFuel] at h
  | succ f ih =>
    intro dtime c r h f' hf
    obtain ⟨g, rfl⟩ : ∃ g, f' = g + 1 := ⟨f' - 1, by omega⟩
    simp only [seriesFuel] at h ⊢
    split
    · rename_i hs; rw [if_pos hs] at h; exact h
    · rename_i hs
      rw [if_neg hs] at h
      cases hrec : seriesFuel sch start stop f (sch.interval.addTo dtime)
          (pass start stop dtime sch.slots c).2.1 with
      | none => rw [hrec] at h; simp at h
      | some r' =>
        rw [hrec] at h
        rw [ih _ _ _ hrec g (by omega)]
        exact h

/-- candidates of all passes from `b` on are at or after `start` -/
def Progress (sch : Sched) (start : Int) (b : Int) : Prop :=
  ∀ k, ∀ s ∈ sch.slots, start ≤ s.addTo (iterB sch b k)

theorem Progress.next {sch : Sched} {start b : Int} (h : Progress sch start b) :
    Progress sch start (sch.interval.addTo b) := fun k s hs => by
  have := h (k + 1) s hs; rwa [iterB_succ] at this

theorem seriesFuel_terminates_progress (sch : Sched) (start : Int) (stop : Option Int)
    (hne : sch.slots ≠ []) :
    ∀ (f : Nat) (dtime : Int) (c : Nat), c < f → Progress sch start dtime →
      (seriesFuel sch start stop f dtime c).isSome = true := by
  intro f
  induction f with
  | zero => intro dtime c h; omega
  | succ f ih =>
    intro dtime c hc hp
    simp only [seriesFuel]
    split
    · rfl
    · rename_i hs
      have := pass_progress start stop dtime sch.slots c hne (fun s hs => hp 0 s hs)
      rcases this with h | h
      · exact absurd h hs
      · have := ih (sch.interval.addTo dtime) (pass start stop dtime sch.slots c).2.1 (by omega) hp.next
        rw [Option.isSome_map]; exact this

/-- **termination**: if from the second pass on no candidate lies before `start`, `count + 2`
    passes are enough. -/
theorem seriesFuel_terminates (sch : Sched) (start : Int) (stop : Option Int)
    (hne : sch.slots ≠ []) (b : Int) (c : Nat) (hp : Progress sch start (sch.interval.addTo b)) :
    (seriesFuel sch start stop (c + 2) b c).isSome = true := by
  simp only [seriesFuel]
  split
  · rfl
  · have := pass_count_le start stop b sch.slots c
    rw [Option.isSome_map]
    exact seriesFuel_terminates_progress sch start stop hne (c + 1) _ _ (by omega) hp

/-! ### ordered candidates -/

/-- on a strictly increasing list "skip < start, stop at first > end" is a plain filter -/
theorem takeWhile_filter_sorted (start : Int) (stop : Option Int) :
    ∀ l : List Int, l.Pairwise (· < ·) →
      (l.filter (fun t => decide (start ≤ t))).takeWhile (upTo stop)
        = l.filter (fun t => decide (start ≤ t) && upTo stop t) := by
  intro l
  induction l with
  | nil => intro _; rfl
  | cons x xs ih =>
    intro hp
    rw [List.pairwise_cons] at hp
    by_cases h1 : start ≤ x
    · rw [List.filter_cons_of_pos (by simpa using h1)]
      by_cases h2 : upTo stop x = true
      · rw [List.takeWhile_cons_of_pos h2, List.filter_cons_of_pos (by simp [h1, h2]), ih hp.2]
      · rw [List.takeWhile_cons_of_neg h2, List.filter_cons_of_neg (by simp [h2])]
        symm
        rw [List.filter_eq_nil_iff]
        intro y hy
        have hxy := hp.1 y hy
        cases stop with
        | none => simp [upTo_none] at h2
        | some e =>
          rw [upTo_some] at h2 ⊢
          simp only [decide_eq_true_eq] at h2
          simp; omega
    · rw [List.filter_cons_of_neg (by simpa using h1), List.filter_cons_of_neg (by simp [h1])]
      exact ih hp.2

/-- "slots listed in increasing order and falling within one interval", read on the model: in
    every pass the candidates are strictly increasing and lie in `[boundary, next boundary)`. -/
def InOrder (sch : Sched) (b : Int) : Prop :=
  ∀ k, (outsAt sch (iterB sch b k)).Pairwise (· < ·) ∧
    ∀ x ∈ outsAt sch (iterB sch b k), iterB sch b k ≤ x ∧ x < iterB sch b (k + 1)

theorem InOrder.next {sch : Sched} {b : Int} (h : InOrder sch b) :
    InOrder sch (sch.interval.addTo b) := fun k => by
  have := h (k + 1); rwa [iterB_succ, iterB_succ sch b (k + 1)] at this

theorem occFrom_nil (sch : Sched) (hs : sch.slots = []) : ∀ (K : Nat) (b : Int), occFrom sch b K = [] := by
  intro K
  induction K with
  | zero => intro b; rfl
  | succ K ih => intro b; simp [occFrom, outsAt, hs, ih]

theorem occFrom_ge {sch : Sched} : ∀ (K : Nat) (b : Int), InOrder sch b →
    ∀ y ∈ occFrom sch b K, b ≤ y := by
  intro K
  induction K with
  | zero => intro b _ y hy; simp [occFrom] at hy
  | succ K ih =>
    intro b h y hy
    simp only [occFrom, List.mem_append] at hy
    rcases hy with hy | hy
    · have := ((h 0).2 y hy).1; rwa [iterB_zero] at this
    · have h2 := ih _ h.next y hy
      by_cases hs : sch.slots = []
      · rw [occFrom_nil sch hs] at hy; simp at hy
      · obtain ⟨s, rest, hsl⟩ := List.exists_cons_of_ne_nil hs
        have hm : s.addTo b ∈ outsAt sch b := by simp [outsAt, hsl]
        have := (h 0).2 _ hm
        rw [iterB_zero, iterB_one] at this
        omega

theorem occFrom_sorted {sch : Sched} : ∀ (K : Nat) (b : Int), InOrder sch b →
    (occFrom sch b K).Pairwise (· < ·) := by
  intro K
  induction K with
  | zero => intro b _; simp [occFrom]
  | succ K ih =>
    intro b h
    simp only [occFrom]
    rw [List.pairwise_append]
    refine ⟨(h 0).1, ih _ h.next, ?_⟩
    intro x hx y hy
    have h1 := ((h 0).2 x hx).2
    have h2 := occFrom_ge K _ h.next y hy
    rw [iterB_one] at h1
    omega

/-- with ordered candidates, everything from the second boundary on is after `start` as soon as
    the second boundary is -/
theorem InOrder.progress {sch : Sched} {b start : Int} (h : InOrder sch b) (hb : start ≤ b) :
    Progress sch start b := by
  intro k
  induction k generalizing b with
  | zero =>
    intro s hs
    have := ((h 0).2 (s.addTo b) (List.mem_map_of_mem hs)).1
    rw [iterB_zero] at this ⊢; omega
  | succ k ih =>
    intro s hs
    have hm : s.addTo b ∈ outsAt sch b := List.mem_map_of_mem hs
    have := (h 0).2 _ hm
    rw [iterB_zero, iterB_one] at this
    rw [iterB_succ]
    exact ih h.next (by omega) s hs

/-- **generic form of the property** on the model: ordered slots, second boundary after `start`
    ⇒ every run with at least `count + 2` passes of fuel returns exactly the first `count` of the
    candidates in `[start, end]`. -/
theorem seriesFuel_ordered (sch : Sched) (start : Int) (stop : Option Int) (b : Int) (c : Nat)
    (hne : sch.slots ≠ []) (hord : InOrder sch b) (hb : start ≤ sch.interval.addTo b)
    (fuel K : Nat) (hf : c + 2 ≤ fuel) (hK : c + 2 ≤ K) :
    seriesFuel sch start stop fuel b c =
      some (((occFrom sch b K).filter (fun t => decide (start ≤ t) && upTo stop t)).take c) := by
  have ht := seriesFuel_terminates sch start stop hne b c (hord.next.progress hb)
  obtain ⟨r, hr⟩ := Option.isSome_iff_exists.mp ht
  rw [seriesFuel_mono sch start stop _ _ _ _ hr fuel hf]
  rw [seriesFuel_spec sch start stop _ _ _ _ hr K hK]
  simp only [want]
  rw [takeWhile_filter_sorted start stop _ (occFrom_sorted K b hord)]

/-- first `c` elements of a strictly increasing list: anything left out is larger than all kept -/
theorem take_sorted_complete (l : List Int) (c : Nat) (hl : l.Pairwise (· < ·)) (x : Int)
    (hx : x ∈ l) : x ∈ l.take c ∨ ((l.take c).length = c ∧ ∀ y ∈ l.take c, y < x) := by
  rw [← List.take_append_drop c l] at hx hl
  rw [List.mem_append] at hx
  rcases hx with hx | hx
  · exact Or.inl hx
  · right
    constructor
    · rw [List.length_take]
      have : 0 < (l.drop c).length := List.length_pos_of_mem hx
      rw [List.length_drop] at this
      omega
    · intro y hy
      exact (List.pairwise_append.mp hl).2.2 y hy x hx

/-- the first `c` elements of the filter of a strictly increasing list, characterised as a set -/
theorem take_filter_exact (L : List Int) (P : Int → Bool) (c : Nat) (hL : L.Pairwise (· < ·)) :
    ((L.filter P).take c).Pairwise (· < ·) ∧ ((L.filter P).take c).length ≤ c ∧
    (∀ x ∈ (L.filter P).take c, x ∈ L ∧ P x = true) ∧
    (∀ x ∈ L, P x = true → x ∈ (L.filter P).take c ∨
      (((L.filter P).take c).length = c ∧ ∀ y ∈ (L.filter P).take c, y < x)) := by
  have hF : (L.filter P).Pairwise (· < ·) := hL.filter P
  refine ⟨hF.sublist (List.take_sublist c _), List.length_take_le c _, ?_, ?_⟩
  · intro x hx
    exact List.mem_filter.mp (List.mem_of_mem_take hx)
  · intro x hx hP
    exact take_sorted_complete _ c hF x (List.mem_filter.mpr ⟨hx, hP⟩)

/-- **generic form of the property, as a set**: the run returns a strictly increasing list `r`
    of at most `c` candidates inside `[start, end]`, and every candidate inside `[start, end]`
    that is missing from `r` is later than all of `r`, which then has exactly `c` elements. -/
theorem seriesFuel_exact (sch : Sched) (start : Int) (stop : Option Int) (b : Int) (c : Nat)
    (hne : sch.slots ≠ []) (hord : InOrder sch b) (hb : start ≤ sch.interval.addTo b) :
    ∃ r : List Int,
      (∀ fuel, c + 2 ≤ fuel → seriesFuel sch start stop fuel b c = some r) ∧
      r.Pairwise (· < ·) ∧ r.length ≤ c ∧
      (∀ x ∈ r, start ≤ x ∧ upTo stop x = true ∧
        ∃ k : Nat, ∃ s ∈ sch.slots, x = s.addTo (iterB sch b k)) ∧
      (∀ (k : Nat) (s : Delta), s ∈ sch.slots → start ≤ s.addTo (iterB sch b k) →
        upTo stop (s.addTo (iterB sch b k)) = true →
        s.addTo (iterB sch b k) ∈ r ∨ (r.length = c ∧ ∀ y ∈ r, y < s.addTo (iterB sch b k))) := by
  let P : Int → Bool := fun t => decide (start ≤ t) && upTo stop t
  have key : ∀ K, c + 2 ≤ K → ((occFrom sch b K).filter P).take c
      = ((occFrom sch b (c + 2)).filter P).take c := by
    intro K hK
    have h1 := seriesFuel_ordered sch start stop b c hne hord hb (c + 2) K (Nat.le_refl _) hK
    have h2 := seriesFuel_ordered sch start stop b c hne hord hb (c + 2) (c + 2) (Nat.le_refl _)
      (Nat.le_refl _)
    rw [h1] at h2
    exact Option.some.inj h2
  refine ⟨((occFrom sch b (c + 2)).filter P).take c, ?_, ?_, ?_, ?_, ?_⟩
  · intro fuel hf
    exact seriesFuel_ordered sch start stop b c hne hord hb fuel (c + 2) hf (Nat.le_refl _)
  · exact (take_filter_exact _ P c (occFrom_sorted _ b hord)).1
  · exact (take_filter_exact _ P c (occFrom_sorted _ b hord)).2.1
  · intro x hx
    obtain ⟨hm, hP⟩ := (take_filter_exact _ P c (occFrom_sorted _ b hord)).2.2.1 x hx
    simp only [P, Bool.and_eq_true, decide_eq_true_eq] at hP
    obtain ⟨k, _, s, hs, rfl⟩ := mem_occFrom.mp hm
    exact ⟨hP.1, hP.2, k, s, hs, rfl⟩
  · intro k s hs h1 h2
    have hK : c + 2 ≤ max (c + 2) (k + 1) := Nat.le_max_left _ _
    have hm : s.addTo (iterB sch b k) ∈ occFrom sch b (max (c + 2) (k + 1)) :=
      mem_occFrom.mpr ⟨k, by have := Nat.le_max_right (c + 2) (k + 1); omega, s, hs, rfl⟩
    have := (take_filter_exact _ P c (occFrom_sorted (max (c + 2) (k + 1)) b hord)).2.2.2 _ hm
      (by simp only [P, Bool.and_eq_true, decide_eq_true_eq]; exact ⟨h1, h2⟩)
    rw [key _ hK] at this
    exact this

/-- a pass in which every candidate lies before `start` yields nothing and does not stop -/
theorem pass_all_before (start : Int) (stop : Option Int) (dtime : Int) (c : Nat) (hc : c ≠ 0) :
    ∀ slots : List Delta, (∀ s ∈ slots, s.addTo dtime < start) →
      pass start stop dtime slots c = ([], c, false) := by
  intro slots
  induction slots with
  | nil => intro _; rfl
  | cons s rest ih =>
    intro h
    simp only [pass]
    rw [if_neg hc, if_pos (h s (by simp))]
    exact ih (fun s' hs' => h s' (by simp [hs']))

/-- an interval that does not move the boundary, all slots before `start`: the loop never ends -/
theorem seriesFuel_stuck (sch : Sched) (start : Int) (stop : Option Int) (b : Int) (c : Nat)
    (hc : c ≠ 0) (hfix : sch.interval.addTo b = b) (hall : ∀ s ∈ sch.slots, s.addTo b < start) :
    ∀ fuel, seriesFuel sch start stop fuel b c = none := by
  intro fuel
  induction fuel with
  | zero => rfl
  | succ f ih =>
    simp only [seriesFuel]
    rw [pass_all_before start stop b c hc sch.slots hall]
    simp only [Bool.false_eq_true, if_false, hfix, ih, Option.map_none]

end Grist.Schedule
