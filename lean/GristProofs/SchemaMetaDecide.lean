/-
C08: the Bool decision procedure `schemaConsistentB` decides `SchemaConsistent`.
-/
import GristProofs.SchemaMetaBase
namespace Grist.Doc

theorem tableAgreesB_iff (d : Doc) (t : String) : tableAgreesB d t = true ↔ TableAgrees d t := by
  unfold tableAgreesB TableAgrees
  cases userTable? d t with
  | none => cases lookupLast (metaSchema d) t <;> simp
  | some tb =>
    cases lookupLast (metaSchema d) t with
    | none => simp
    | some recs =>
      simp only [List.all_eq_true, beq_iff_eq]
      constructor
      · intro h c
        by_cases hc : c ∈ tb.cols.map (·.id) ++ recs.map (·.1)
        · exact h c hc
        · simp only [List.mem_append, List.mem_map, not_or, not_exists, not_and] at hc
          have h1 : tb.infoOf? c = none := by
            unfold Table.infoOf?
            rw [findCol?_none.2 (fun col hcol => hc.1 col hcol)]
            rfl
          have h2 : lookupLast recs c = none :=
            lookupLast_eq_none.2 (fun p hp => hc.2 p hp)
          rw [h1, h2]
      · intro h c _
        exact h c

theorem schemaConsistentB_iff (d : Doc) : schemaConsistentB d = true ↔ SchemaConsistent d := by
  unfold schemaConsistentB SchemaConsistent
  rw [Bool.and_eq_true, List.all_eq_true]
  constructor
  · rintro ⟨h1, h2⟩
    refine ⟨fun t => ?_, h2⟩
    by_cases ht : t ∈ (userSchema d).map (·.1) ++ (metaSchema d).map (·.1)
    · exact (tableAgreesB_iff d t).1 (h1 t ht)
    · simp only [List.mem_append, List.mem_map, not_or, not_exists, not_and] at ht
      have e1 : userTable? d t = none := by
        unfold userTable?
        by_cases hm : isMetaId t = true
        · simp [hm]
        · simp only [hm, Bool.false_eq_true, ↓reduceIte]
          rw [findTable?_none]
          intro tb htb hid
          apply ht.1 (tb.id, tb.cols.map (fun c => (c.id, c.info)))
          · simp only [userSchema, List.mem_map, List.mem_filter]
            exact ⟨tb, ⟨htb, by rw [hid]; simpa using hm⟩, rfl⟩
          · exact hid
      have e2 : lookupLast (metaSchema d) t = none :=
        lookupLast_eq_none.2 (fun p hp => ht.2 p hp)
      unfold TableAgrees
      rw [e1, e2]
      trivial
  · rintro ⟨h1, h2⟩
    exact ⟨fun t _ => (tableAgreesB_iff d t).2 (h1 t), h2⟩

end Grist.Doc
