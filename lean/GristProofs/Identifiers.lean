/-
Helper lemmas for GristProps/C21.lean (model: GristModel/Identifiers.lean).
-/
import GristModel.Identifiers
import Std.Data.String.ToNat
namespace Grist.Identifiers

/-! ### `firstIdx` : the shared "first n ≥ start with p n" loop -/

theorem firstIdx_some {p : Nat → Bool} : ∀ {fuel s i : Nat}, firstIdx p fuel s = some i →
    p i = true ∧ s ≤ i ∧ i < s + fuel ∧ ∀ j, s ≤ j → j < i → p j = false := by
  intro fuel
  induction fuel with
  | zero => intro s i h; simp [firstIdx] at h
  | succ f ih =>
    intro s i h
    simp only [firstIdx] at h
    by_cases hp : p s = true
    · simp only [hp, if_true, Option.some.injEq] at h
      subst h
      exact ⟨hp, Nat.le_refl _, by omega, fun j h1 h2 => by omega⟩
    · simp only [hp, Bool.false_eq_true, if_false] at h
      obtain ⟨h1, h2, h3, h4⟩ := ih h
      refine ⟨h1, by omega, by omega, fun j hj1 hj2 => ?_⟩
      by_cases hjs : j = s
      · subst hjs; simpa using hp
      · exact h4 j (by omega) hj2

theorem firstIdx_exists {p : Nat → Bool} : ∀ {fuel s : Nat},
    (∃ i, s ≤ i ∧ i < s + fuel ∧ p i = true) → ∃ i, firstIdx p fuel s = some i := by
  intro fuel
  induction fuel with
  | zero => intro s ⟨i, h1, h2, _⟩; omega
  | succ f ih =>
    intro s ⟨i, h1, h2, h3⟩
    simp only [firstIdx]
    by_cases hp : p s = true
    · exact ⟨s, by simp [hp]⟩
    · simp only [hp, Bool.false_eq_true, if_false]
      apply ih
      refine ⟨i, ?_, by omega, h3⟩
      by_cases his : i = s
      · subst his; exact absurd h3 hp
      · omega

/-! ### pigeonhole -/

theorem length_le_of_nodup_subset {α} [BEq α] [LawfulBEq α] : ∀ (m l : List α), m.Nodup →
    (∀ x ∈ m, x ∈ l) → m.length ≤ l.length := by
  intro m
  induction m with
  | nil => intro l _ _; simp
  | cons x xs ih =>
    intro l hnd hsub
    have hx : x ∈ l := hsub x (by simp)
    have hnd' := List.nodup_cons.mp hnd
    have h1 : xs.length ≤ (l.erase x).length := by
      apply ih _ hnd'.2
      intro y hy
      have hne : y ≠ x := fun e => hnd'.1 (e ▸ hy)
      exact (List.mem_erase_of_ne hne).mpr (hsub y (by simp [hy]))
    have h2 := List.length_erase_of_mem hx
    have h3 : 0 < l.length := List.length_pos_of_mem hx
    simp only [List.length_cons]
    omega

/-- Among `|l|+1` consecutive values of an injective sequence one is outside `l`. -/
theorem exists_not_mem_of_injective {α} [BEq α] [LawfulBEq α] (f : Nat → α)
    (hinj : ∀ a b, f a = f b → a = b) (l : List α) (s : Nat) :
    ∃ i, s ≤ i ∧ i < s + (l.length + 1) ∧ f i ∉ l := by
  apply Classical.byContradiction
  intro hno
  have hall : ∀ i, s ≤ i → i < s + (l.length + 1) → f i ∈ l := by
    intro i h1 h2
    apply Classical.byContradiction
    intro h; exact hno ⟨i, h1, h2, h⟩
  let m := (List.range (l.length + 1)).map (fun i => f (s + i))
  have hnd : m.Nodup := by
    refine List.Pairwise.map _ ?_ List.nodup_range
    intro a b hab heq
    exact hab (by have := hinj _ _ heq; omega)
  have hsub : ∀ x ∈ m, x ∈ l := by
    intro x hx
    obtain ⟨i, hi, rfl⟩ := List.mem_map.mp hx
    exact hall _ (by omega) (by have := List.mem_range.mp hi; omega)
  have := length_le_of_nodup_subset m l hnd hsub
  simp [m] at this
  omega

/-- The general termination fact: the loop `firstIdx` with fuel `|avoid|+1` over an injective
    sequence of candidates finds a candidate outside `avoid`. -/
theorem firstIdx_total {α} [BEq α] [LawfulBEq α] (f : Nat → α) (hinj : ∀ a b, f a = f b → a = b)
    (avoid : List α) (s : Nat) :
    ∃ i, firstIdx (fun n => !(avoid.contains (f n))) (avoid.length + 1) s = some i := by
  apply firstIdx_exists
  obtain ⟨i, h1, h2, h3⟩ := exists_not_mem_of_injective f hinj avoid s
  exact ⟨i, h1, h2, by simpa using h3⟩

/-! ### ASCII character classes (core `Char.isUpper` … `Char.toUpper`) via code points -/

theorem isUpper_iff {c : Char} : c.isUpper = true ↔ 65 ≤ c.toNat ∧ c.toNat ≤ 90 := by
  simp [Char.isUpper, UInt32.le_iff_toNat_le]
theorem isLower_iff {c : Char} : c.isLower = true ↔ 97 ≤ c.toNat ∧ c.toNat ≤ 122 := by
  simp [Char.isLower, UInt32.le_iff_toNat_le]
theorem isDigit_iff {c : Char} : c.isDigit = true ↔ 48 ≤ c.toNat ∧ c.toNat ≤ 57 := by
  simp [Char.isDigit, UInt32.le_iff_toNat_le]
theorem isAlpha_iff {c : Char} :
    c.isAlpha = true ↔ (65 ≤ c.toNat ∧ c.toNat ≤ 90) ∨ (97 ≤ c.toNat ∧ c.toNat ≤ 122) := by
  simp [Char.isAlpha, isUpper_iff, isLower_iff]
theorem eq_underscore_iff {c : Char} : c = '_' ↔ c.toNat = 95 := by
  rw [← Char.toNat_inj]; rfl

theorem toNat_toUpper (c : Char) :
    c.toUpper.toNat = if 97 ≤ c.toNat ∧ c.toNat ≤ 122 then c.toNat - 32 else c.toNat := by
  simp only [Char.toUpper]
  split
  · next h =>
    simp only [UInt32.le_iff_toNat_le, seval] at h
    have h' : 97 ≤ c.toNat ∧ c.toNat ≤ 122 := h
    simp only [h', and_self, Char.toNat_mk, UInt32.toNat_add, seval]
    show (c.toNat + 4294967264) % 4294967296 = _
    omega
  · next h =>
    simp only [UInt32.le_iff_toNat_le, seval] at h
    have h' : ¬ (97 ≤ c.toNat ∧ c.toNat ≤ 122) := h
    simp [h']

theorem toUpper_eq_self {c : Char} (h : c.isLower = false) : c.toUpper = c := by
  rw [← Char.toNat_inj, toNat_toUpper]
  have : ¬ (97 ≤ c.toNat ∧ c.toNat ≤ 122) := by
    intro h'; have := isLower_iff.mpr h'; simp [h] at this
  simp [this]

theorem toUpper_of_isDigit {c : Char} (h : c.isDigit = true) : c.toUpper = c := by
  apply toUpper_eq_self
  have := isDigit_iff.mp h
  cases hl : c.isLower with
  | false => rfl
  | true => have := isLower_iff.mp hl; omega

theorem toUpper_of_isUpper {c : Char} (h : c.isUpper = true) : c.toUpper = c := by
  apply toUpper_eq_self
  have := isUpper_iff.mp h
  cases hl : c.isLower with
  | false => rfl
  | true => have := isLower_iff.mp hl; omega

theorem isUpper_toUpper_of_isAlpha {c : Char} (h : c.isAlpha = true) : c.toUpper.isUpper = true := by
  rw [isUpper_iff, toNat_toUpper]
  have := isAlpha_iff.mp h
  split <;> omega

theorem isAlpha_of_isUpper {c : Char} (h : c.isUpper = true) : c.isAlpha = true := by
  simp [Char.isAlpha, h]

theorem isIdentChar_of_isAlpha {c : Char} (h : c.isAlpha = true) : isIdentChar c = true := by
  simp [isIdentChar, h]
theorem isIdentChar_of_isDigit {c : Char} (h : c.isDigit = true) : isIdentChar c = true := by
  simp [isIdentChar, h]

/-- an identifier character that is neither a digit nor `_` is a letter -/
theorem isAlpha_of_isIdentChar {c : Char} (h : isIdentChar c = true) (hd : c.isDigit = false)
    (hu : c ≠ '_') : c.isAlpha = true := by
  simp [isIdentChar, hd, hu] at h; exact h

theorem not_isDigit_of_isAlpha {c : Char} (h : c.isAlpha = true) : c.isDigit = false := by
  have := isAlpha_iff.mp h
  cases hd : c.isDigit with
  | false => rfl
  | true => have := isDigit_iff.mp hd; omega

theorem ne_underscore_of_isAlpha {c : Char} (h : c.isAlpha = true) : c ≠ '_' := by
  have := isAlpha_iff.mp h
  intro e; have := eq_underscore_iff.mp e; omega

theorem not_isUpper_of_isDigit {c : Char} (h : c.isDigit = true) : c.isUpper = false := by
  have := isDigit_iff.mp h
  cases hd : c.isUpper with
  | false => rfl
  | true => have := isUpper_iff.mp hd; omega


/-! ### sanitising -/

theorem subInvalid_all : ∀ (s : Str) (b : Bool), (subInvalid b s).all isIdentChar = true := by
  intro s
  induction s with
  | nil => intro b; simp [subInvalid]
  | cons c cs ih =>
    intro b
    simp only [subInvalid]
    split
    · next h => simp [h, ih]
    · split
      · exact ih _
      · simp [isIdentChar, ih]

theorem subInvalid_id : ∀ (s : Str) (b : Bool), s.all isIdentChar = true → subInvalid b s = s := by
  intro s
  induction s with
  | nil => intro b _; simp [subInvalid]
  | cons c cs ih =>
    intro b h
    simp only [List.all_cons, Bool.and_eq_true] at h
    simp [subInvalid, h.1, ih false h.2]

theorem lstrip_all {s : Str} (h : s.all isIdentChar = true) :
    (lstripUnderscore s).all isIdentChar = true := by
  simp only [List.all_eq_true] at h ⊢
  intro x hx
  exact h x ((List.dropWhile_sublist _).subset hx)

theorem lstrip_head {s : Str} {c : Char} {cs : Str} (h : lstripUnderscore s = c :: cs) : c ≠ '_' := by
  have := List.head?_dropWhile_not (fun x : Char => x == '_') s
  unfold lstripUnderscore at h
  simp only [h, List.head?_cons] at this
  simpa using this

theorem identShape_append {a b : Str} (ha : identShape a = true) (hb : b.all isIdentChar = true) :
    identShape (a ++ b) = true := by
  cases a with
  | nil => simp [identShape] at ha
  | cons c cs =>
    simp only [identShape, Bool.and_eq_true, List.cons_append, List.all_append] at ha ⊢
    exact ⟨ha.1, ha.2, hb⟩

theorem identShape_all {a : Str} (ha : identShape a = true) : a.all isIdentChar = true := by
  cases a with
  | nil => simp [identShape] at ha
  | cons c cs =>
    simp only [identShape, Bool.and_eq_true, List.all_cons] at ha ⊢
    exact ⟨isIdentChar_of_isAlpha ha.1, ha.2⟩

theorem startsUpper_append {a : Str} (b : Str) (ha : startsUpper a = true) :
    startsUpper (a ++ b) = true := by
  cases a with
  | nil => simp [startsUpper] at ha
  | cons c cs => simpa [startsUpper] using ha

/-- after `fixStart` the string is empty or has the identifier shape -/
theorem fixStart_shape {pre s : Str} (hpre : identShape pre = true)
    (hall : s.all isIdentChar = true) (hhead : ∀ c cs, s = c :: cs → c ≠ '_') :
    fixStart pre s = [] ∨ identShape (fixStart pre s) = true := by
  cases s with
  | nil => left; rfl
  | cons c cs =>
    right
    simp only [fixStart]
    split
    · exact identShape_append hpre hall
    · next h =>
      simp only [Bool.or_eq_true, beq_iff_eq, not_or] at h
      simp only [List.all_cons, Bool.and_eq_true] at hall
      simp only [identShape, Bool.and_eq_true]
      exact ⟨isAlpha_of_isIdentChar hall.1 (by simpa using h.1) h.2, hall.2⟩

theorem fixStart_id {pre s : Str} (h : identShape s = true) : fixStart pre s = s := by
  cases s with
  | nil => rfl
  | cons c cs =>
    simp only [identShape, Bool.and_eq_true] at h
    simp [fixStart, not_isDigit_of_isAlpha h.1, ne_underscore_of_isAlpha h.1]

theorem lstrip_id {s : Str} (h : identShape s = true) : lstripUnderscore s = s := by
  cases s with
  | nil => rfl
  | cons c cs =>
    simp only [identShape, Bool.and_eq_true] at h
    simp [lstripUnderscore, ne_underscore_of_isAlpha h.1]

theorem capitalizeFirst_shape {s : Str} (h : identShape s = true) :
    identShape (capitalizeFirst s) = true ∧ startsUpper (capitalizeFirst s) = true := by
  cases s with
  | nil => simp [identShape] at h
  | cons c cs =>
    simp only [identShape, Bool.and_eq_true] at h
    have hu := isUpper_toUpper_of_isAlpha h.1
    simp only [capitalizeFirst, identShape, startsUpper, Bool.and_eq_true]
    exact ⟨⟨isAlpha_of_isUpper hu, h.2⟩, hu⟩

theorem capitalizeFirst_id {s : Str} (h : startsUpper s = true) : capitalizeFirst s = s := by
  cases s with
  | nil => rfl
  | cons c cs => simp only [startsUpper] at h; simp [capitalizeFirst, toUpper_of_isUpper h]

theorem prependN_shape {pre s : Str} (hpre : identShape pre = true) (hs : identShape s = true) :
    ∀ k, identShape (prependN pre k s) = true := by
  intro k
  induction k with
  | zero => exact hs
  | succ k ih => exact identShape_append hpre (identShape_all ih)

theorem prependN_upper {pre s : Str} (hpre : startsUpper pre = true) (hs : startsUpper s = true) :
    ∀ k, startsUpper (prependN pre k s) = true := by
  intro k
  cases k with
  | zero => exact hs
  | succ k => exact startsUpper_append _ hpre

theorem prependN_length (pre s : Str) : ∀ k, (prependN pre k s).length = k * pre.length + s.length := by
  intro k
  induction k with
  | zero => simp [prependN]
  | succ k ih => simp [prependN, ih, Nat.succ_mul]; omega

theorem prependN_inj {pre s : Str} (hpre : pre ≠ []) (a b : Nat)
    (h : prependN pre a s = prependN pre b s) : a = b := by
  have h1 := congrArg List.length h
  rw [prependN_length, prependN_length] at h1
  have hp : 0 < pre.length := List.length_pos_iff.mpr hpre
  have h2 : a * pre.length = b * pre.length := by omega
  exact Nat.eq_of_mul_eq_mul_right hp h2


/-- The strings that can come out of the first four lines of `_sanitize_ident`. -/
theorem sanitize_pre_shape (pre s : Str) (hpre : identShape pre = true) :
    fixStart pre (lstripUnderscore (subInvalid false s)) = [] ∨
    identShape (fixStart pre (lstripUnderscore (subInvalid false s))) = true :=
  fixStart_shape hpre (lstrip_all (subInvalid_all s false)) (fun _ _ h => lstrip_head h)

/-- the part of `_sanitize_ident` after the regular-expression steps -/
def sanitizeTail (kws : List Str) (pre : Str) (cap : Bool) (s2 : Str) : Option Str :=
  if s2.isEmpty then some []
  else
    (firstIdx (fun k => !(kws.contains (prependN pre k (if cap then capitalizeFirst s2 else s2))))
      (kws.length + 1) 0).map (fun k => prependN pre k (if cap then capitalizeFirst s2 else s2))

theorem sanitizeIdent_eq (kws : List Str) (s pre : Str) (cap : Bool) :
    sanitizeIdent kws s pre cap
      = sanitizeTail kws pre cap (fixStart pre (lstripUnderscore (subInvalid false s))) := rfl

/-- `_sanitize_ident` terminates (non-empty prefix) and yields "" or a non-keyword of identifier
    shape; with `capitalize` (and an upper-case prefix) the result starts with an upper-case letter. -/
theorem sanitize_spec (kws : List Str) (s pre : Str) (cap : Bool) (hpre : identShape pre = true) :
    ∃ r, sanitizeIdent kws s pre cap = some r ∧
      (r = [] ∨ (identShape r = true ∧ r ∉ kws ∧
        (cap = true → startsUpper pre = true → startsUpper r = true))) := by
  have hne : pre ≠ [] := by intro e; simp [e, identShape] at hpre
  rw [sanitizeIdent_eq]
  rcases sanitize_pre_shape pre s hpre with h0 | hsh
  · exact ⟨[], by simp [h0, sanitizeTail], Or.inl rfl⟩
  · generalize fixStart pre (lstripUnderscore (subInvalid false s)) = s2 at hsh
    have hs2 : s2.isEmpty = false := by cases s2 <;> simp_all [identShape]
    unfold sanitizeTail
    simp only [hs2, Bool.false_eq_true, if_false]
    generalize hs3 : (if cap = true then capitalizeFirst s2 else s2) = s3
    have hs3sh : identShape s3 = true := by
      subst hs3; split
      · exact (capitalizeFirst_shape hsh).1
      · exact hsh
    have hs3up : cap = true → startsUpper s3 = true := by
      intro hc; subst hs3; simp [hc, (capitalizeFirst_shape hsh).2]
    obtain ⟨k, hk⟩ := firstIdx_total (fun k => prependN pre k s3) (prependN_inj hne) kws 0
    refine ⟨prependN pre k s3, by rw [hk]; rfl, Or.inr ⟨prependN_shape hpre hs3sh k, ?_, ?_⟩⟩
    · have := (firstIdx_some hk).1
      simpa using this
    · intro hc hu
      exact prependN_upper hu (hs3up hc) k

/-- An already valid identifier (shape, not a keyword, and — when capitalising — already starting
    upper-case) passes through `_sanitize_ident` unchanged. -/
theorem sanitize_id (kws : List Str) (s pre : Str) (cap : Bool) (hs : identShape s = true)
    (hk : s ∉ kws) (hc : cap = true → startsUpper s = true) :
    sanitizeIdent kws s pre cap = some s := by
  rw [sanitizeIdent_eq, subInvalid_id s false (identShape_all hs), lstrip_id hs, fixStart_id hs]
  have hs2 : s.isEmpty = false := by cases s <;> simp_all [identShape]
  unfold sanitizeTail
  simp only [hs2, Bool.false_eq_true, if_false]
  have hs3 : (if cap = true then capitalizeFirst s else s) = s := by
    split
    · next h => exact capitalizeFirst_id (hc h)
    · rfl
  rw [hs3]
  have : firstIdx (fun k => !(kws.contains (prependN pre k s))) (kws.length + 1) 0 = some 0 := by
    simp [firstIdx, prependN, hk]
  rw [this]; rfl

/-! ### suffixes -/

theorem toDigits_inj {a b : Nat} (h : Nat.toDigits 10 a = Nat.toDigits 10 b) : a = b := by
  apply Nat.repr_injective
  rw [Nat.repr_eq_ofList_toDigits, Nat.repr_eq_ofList_toDigits, h]

theorem toDigits_all_digit (n : Nat) : ∀ c ∈ Nat.toDigits 10 n, c.isDigit = true :=
  fun _ hc => Nat.isDigit_of_mem_toDigits (by omega) (by omega) hc

theorem upperStr_append (a b : Str) : upperStr (a ++ b) = upperStr a ++ upperStr b := by
  simp [upperStr]

theorem upperStr_digits (n : Nat) : upperStr (Nat.toDigits 10 n) = Nat.toDigits 10 n := by
  unfold upperStr
  rw (occs := [2]) [← List.map_id (Nat.toDigits 10 n)]
  apply List.map_congr_left
  intro c hc
  simpa using toUpper_of_isDigit (toDigits_all_digit n c hc)

theorem upper_withSuffix_inj (b : Str) (x y : Nat)
    (h : upperStr (withSuffix b x) = upperStr (withSuffix b y)) : x = y := by
  simp only [withSuffix, upperStr_append, upperStr_digits] at h
  exact toDigits_inj (List.append_cancel_left h)

theorem endsInDigit_withSuffix (b : Str) (n : Nat) : endsInDigit (withSuffix b n) = true := by
  unfold endsInDigit withSuffix
  have hpos : 0 < (Nat.toDigits 10 n).length := Nat.length_toDigits_pos
  cases hl : (Nat.toDigits 10 n).getLast? with
  | none => simp [List.getLast?_eq_none_iff] at hl
  | some c =>
    simp only [List.getLast?_append, hl, Option.some_or]
    exact toDigits_all_digit n c (List.mem_of_getLast? hl)

theorem suffixBase_shape {b : Str} (h : identShape b = true) : identShape (suffixBase b) = true := by
  unfold suffixBase
  split
  · exact identShape_append h (by simp [isIdentChar])
  · exact h

theorem suffixBase_upper {b : Str} (h : startsUpper b = true) : startsUpper (suffixBase b) = true := by
  unfold suffixBase
  split
  · exact startsUpper_append _ h
  · exact h

theorem withSuffix_shape {b : Str} (h : identShape b = true) (n : Nat) :
    identShape (withSuffix b n) = true := by
  apply identShape_append h
  simp only [List.all_eq_true]
  exact fun c hc => isIdentChar_of_isDigit (toDigits_all_digit n c hc)

theorem not_mem_kws_of_endsInDigit {kws : List Str} (hk : kwOK kws = true) {r : Str}
    (h : endsInDigit r = true) : r ∉ kws := by
  intro hm
  simp only [kwOK, List.all_eq_true, Bool.and_eq_true, Bool.not_eq_true'] at hk
  have := (hk r hm).1
  simp [h] at this

/-- `_add_suffix`: terminates, and returns the FIRST `base' ++ str(m)`, `m ≥ next`, whose upper-case
    form is not in `avoid` (`base'` = base, plus `_` if base ends in a digit). -/
theorem addSuffix_spec (base : Str) (avoid : List Str) (next : Nat) :
    ∃ m, addSuffix base avoid next = some (withSuffix (suffixBase base) m) ∧ next ≤ m ∧
      m ≤ next + avoid.length ∧
      upperStr (withSuffix (suffixBase base) m) ∉ avoid ∧
      ∀ j, next ≤ j → j < m → upperStr (withSuffix (suffixBase base) j) ∈ avoid := by
  show ∃ m, Option.map (withSuffix (suffixBase base)) (firstIdx
    (fun n => !(avoid.contains (upperStr (withSuffix (suffixBase base) n)))) (avoid.length + 1) next)
      = _ ∧ _
  obtain ⟨m, hm⟩ := firstIdx_total (fun n => upperStr (withSuffix (suffixBase base) n))
    (upper_withSuffix_inj _) avoid next
  obtain ⟨h1, h2, h3, h4⟩ := firstIdx_some hm
  refine ⟨m, by rw [hm]; rfl, h2, by omega, by simpa using h1, ?_⟩
  intro j hj1 hj2
  simpa using h4 j hj1 hj2


/-! ### the A, B, …, Z, AA, … sequence -/

theorem upperLetter_isUpper (k : Nat) : (upperLetter k).isUpper = true := by
  by_cases h : k < 26
  · have : ∀ i : Fin 26, (upperLetter i.val).isUpper = true := by decide
    exact this ⟨k, h⟩
  · simp only [upperLetter]
    rw [List.getD_eq_getElem?_getD, List.getElem?_eq_none (by simp; omega)]
    decide

theorem upperLetter_inj {a b : Nat} (ha : a < 26) (hb : b < 26)
    (h : upperLetter a = upperLetter b) : a = b := by
  have : ∀ i j : Fin 26, upperLetter i.val = upperLetter j.val → i = j := by decide
  exact congrArg Fin.val (this ⟨a, ha⟩ ⟨b, hb⟩ h)

theorem lettersRev_ne_nil (n : Nat) : lettersRev n ≠ [] := by
  rw [lettersRev]; simp

theorem lettersRev_inj : ∀ (a b : Nat), lettersRev a = lettersRev b → a = b := by
  intro a
  induction a using Nat.strongRecOn with
  | ind a ih =>
    intro b h
    rw [lettersRev, lettersRev.eq_1 b] at h
    simp only [List.cons.injEq] at h
    obtain ⟨h1, h2⟩ := h
    have hm := upperLetter_inj (Nat.mod_lt _ (by omega)) (Nat.mod_lt _ (by omega)) h1
    by_cases ha : a < 26 <;> by_cases hb : b < 26
    · omega
    · simp only [ha, hb, if_true, if_false] at h2
      exact absurd h2.symm (lettersRev_ne_nil _)
    · simp only [ha, hb, if_true, if_false] at h2
      exact absurd h2 (lettersRev_ne_nil _)
    · simp only [ha, hb, if_false] at h2
      have := ih (a / 26 - 1) (by omega) _ h2
      omega

theorem letters_inj (a b : Nat) (h : letters a = letters b) : a = b :=
  lettersRev_inj a b (List.reverse_inj.mp h)

theorem lettersRev_all_upper : ∀ (n : Nat), (lettersRev n).all Char.isUpper = true := by
  intro n
  induction n using Nat.strongRecOn with
  | ind n ih =>
    rw [lettersRev]
    simp only [List.all_cons, upperLetter_isUpper, Bool.true_and]
    split
    · rfl
    · exact ih _ (by omega)

theorem letters_all_upper (n : Nat) : (letters n).all Char.isUpper = true := by
  simp only [letters, List.all_reverse]; exact lettersRev_all_upper n

theorem letters_ne_nil (n : Nat) : letters n ≠ [] := by
  simp [letters, lettersRev_ne_nil]

theorem shape_of_all_upper {s : Str} (hne : s ≠ []) (h : s.all Char.isUpper = true) :
    identShape s = true ∧ startsUpper s = true := by
  cases s with
  | nil => exact absurd rfl hne
  | cons c cs =>
    simp only [List.all_cons, Bool.and_eq_true] at h
    simp only [identShape, startsUpper, Bool.and_eq_true, List.all_eq_true]
    refine ⟨⟨isAlpha_of_isUpper h.1, fun d hd => ?_⟩, h.1⟩
    exact isIdentChar_of_isAlpha (isAlpha_of_isUpper (List.all_eq_true.mp h.2 d hd))

theorem upperStr_of_all_upper {s : Str} (h : s.all Char.isUpper = true) : upperStr s = s := by
  unfold upperStr
  rw (occs := [2]) [← List.map_id s]
  apply List.map_congr_left
  intro c hc
  simpa using toUpper_of_isUpper (List.all_eq_true.mp h c hc)

theorem not_mem_kws_of_all_upper {kws : List Str} (hk : kwOK kws = true) {r : Str}
    (h : r.all Char.isUpper = true) : r ∉ kws := by
  intro hm
  simp only [kwOK, List.all_eq_true, Bool.and_eq_true, Bool.not_eq_true'] at hk
  have := (hk r hm).2
  rw [h] at this; cases this

/-- `_gen_ident`: terminates and returns the FIRST of A, B, …, Z, AA, … that is not in `avoid`. -/
theorem genIdent_spec (avoid : List Str) :
    ∃ i, genIdent avoid = some (letters i) ∧ i ≤ avoid.length ∧ letters i ∉ avoid ∧
      ∀ j, j < i → letters j ∈ avoid := by
  unfold genIdent
  obtain ⟨i, hi⟩ := firstIdx_total letters letters_inj avoid 0
  obtain ⟨h1, _, h3, h4⟩ := firstIdx_some hi
  refine ⟨i, by rw [hi]; rfl, by omega, by simpa using h1, ?_⟩
  intro j hj
  simpa using h4 j (Nat.zero_le _) hj


/-! ### the pick_* functions, for an arbitrary keyword list satisfying `kwOK` -/

/-- The bundle of facts the property asks of one chosen identifier. -/
def GoodIdent (kws : List Str) (avoid : List Str) (r : Str) : Prop :=
  identShape r = true ∧ r ∉ kws ∧ upperStr r ∉ avoid

theorem addSuffix_good {kws : List Str} (hk : kwOK kws = true) (base : Str) (avoid : List Str)
    (next : Nat) (hb : identShape base = true) :
    ∃ r, addSuffix base avoid next = some r ∧ GoodIdent kws avoid r ∧
      (startsUpper base = true → startsUpper r = true) := by
  obtain ⟨m, h1, _, _, h4, _⟩ := addSuffix_spec base avoid next
  refine ⟨_, h1, ⟨withSuffix_shape (suffixBase_shape hb) m,
    not_mem_kws_of_endsInDigit hk (endsInDigit_withSuffix _ _), h4⟩, ?_⟩
  intro hu
  exact startsUpper_append _ (suffixBase_upper hu)

theorem maybeAddSuffix_good {kws : List Str} (hk : kwOK kws = true) (ident : Str)
    (avoid : List Str) (hb : identShape ident = true) (hnk : ident ∉ kws) :
    ∃ r, maybeAddSuffix ident avoid = some r ∧ GoodIdent kws avoid r ∧
      (startsUpper ident = true → startsUpper r = true) := by
  unfold maybeAddSuffix
  by_cases h : upperStr ident ∈ avoid
  · have : (!avoid.contains (upperStr ident)) = false := by simpa using h
    simp only [this, Bool.false_eq_true, if_false]
    exact addSuffix_good hk ident avoid 2 hb
  · have : (!avoid.contains (upperStr ident)) = true := by simpa using h
    simp only [this, if_true]
    exact ⟨ident, rfl, ⟨hb, hnk, h⟩, id⟩

theorem maybeAddSuffix_id (ident : Str) (avoid : List Str) (h : upperStr ident ∉ avoid) :
    maybeAddSuffix ident avoid = some ident := by
  unfold maybeAddSuffix
  have : (!avoid.contains (upperStr ident)) = true := by simpa using h
  simp only [this, if_true]

theorem genIdent_good {kws : List Str} (hk : kwOK kws = true) (avoid : List Str) :
    ∃ r, genIdent avoid = some r ∧ GoodIdent kws avoid r ∧ startsUpper r = true := by
  obtain ⟨i, h1, _, h3, _⟩ := genIdent_spec avoid
  have hu := letters_all_upper i
  have hs := shape_of_all_upper (letters_ne_nil i) hu
  refine ⟨_, h1, ⟨hs.1, not_mem_kws_of_all_upper hk hu, ?_⟩, hs.2⟩
  rw [upperStr_of_all_upper hu]; exact h3

theorem pickColIdent_good {kws : List Str} (hk : kwOK kws = true) (s : Str) (avoid : List Str) :
    ∃ r, pickColIdent kws s avoid = some r ∧ GoodIdent kws avoid r := by
  obtain ⟨r0, h0, hr0⟩ := sanitize_spec kws s ['c'] false (by decide)
  unfold pickColIdent
  rw [h0]
  cases r0 with
  | nil =>
    obtain ⟨r, h1, h2, _⟩ := genIdent_good hk avoid
    exact ⟨r, h1, h2⟩
  | cons c cs =>
    rcases hr0 with h | ⟨h1, h2, _⟩
    · cases h
    · obtain ⟨r, h3, h4, _⟩ := maybeAddSuffix_good hk (c :: cs) avoid h1 h2
      exact ⟨r, h3, h4⟩

theorem pickTableIdent_good {kws : List Str} (hk : kwOK kws = true) (s : Str) (avoid : List Str) :
    ∃ r, pickTableIdent kws s avoid = some r ∧ GoodIdent kws avoid r ∧ startsUpper r = true := by
  obtain ⟨r0, h0, hr0⟩ := sanitize_spec kws s ['T'] true (by decide)
  unfold pickTableIdent
  rw [h0]
  cases r0 with
  | nil =>
    obtain ⟨r, h1, h2, h3⟩ := addSuffix_good hk ['T','a','b','l','e'] avoid 1 (by decide)
    exact ⟨r, h1, h2, h3 (by decide)⟩
  | cons c cs =>
    rcases hr0 with h | ⟨h1, h2, h3⟩
    · cases h
    · obtain ⟨r, h4, h5, h6⟩ := maybeAddSuffix_good hk (c :: cs) avoid h1 h2
      exact ⟨r, h4, h5, h6 (h3 rfl (by decide))⟩

theorem pickColIdent_id (kws : List Str) (s : Str) (avoid : List Str) (hs : identShape s = true)
    (hnk : s ∉ kws) (ha : upperStr s ∉ avoid) : pickColIdent kws s avoid = some s := by
  unfold pickColIdent
  rw [sanitize_id kws s ['c'] false hs hnk (by simp)]
  cases s with
  | nil => simp [identShape] at hs
  | cons c cs => exact maybeAddSuffix_id _ _ ha

theorem pickTableIdent_id (kws : List Str) (s : Str) (avoid : List Str) (hs : identShape s = true)
    (hu : startsUpper s = true) (hnk : s ∉ kws) (ha : upperStr s ∉ avoid) :
    pickTableIdent kws s avoid = some s := by
  unfold pickTableIdent
  rw [sanitize_id kws s ['T'] true hs hnk (fun _ => hu)]
  cases s with
  | nil => simp [identShape] at hs
  | cons c cs => exact maybeAddSuffix_id _ _ ha

/-- distinct "case-insensitively" (as the code compares: by upper-cased form) -/
def DistinctUpper (rs : List Str) : Prop := rs.Pairwise (fun a b => upperStr a ≠ upperStr b)

theorem pickColIdentList_good {kws : List Str} (hk : kwOK kws = true) :
    ∀ (idents : List Str) (avoid : List Str),
    ∃ rs, pickColIdentList kws idents avoid = some rs ∧ rs.length = idents.length ∧
      (∀ r ∈ rs, GoodIdent kws avoid r) ∧ DistinctUpper rs := by
  intro idents
  induction idents with
  | nil => intro avoid; exact ⟨[], rfl, rfl, by simp, List.Pairwise.nil⟩
  | cons s rest ih =>
    intro avoid
    obtain ⟨r, h1, h2⟩ := pickColIdent_good hk s avoid
    obtain ⟨rs, h3, h4, h5, h6⟩ := ih (upperStr r :: avoid)
    refine ⟨r :: rs, by simp [pickColIdentList, h1, h3], by simp [h4], ?_, ?_⟩
    · intro x hx
      rcases List.mem_cons.mp hx with rfl | hx
      · exact h2
      · obtain ⟨a, b, c⟩ := h5 x hx
        exact ⟨a, b, fun hm => c (List.mem_cons_of_mem _ hm)⟩
    · refine List.Pairwise.cons ?_ h6
      intro x hx heq
      exact (h5 x hx).2.2 (by rw [heq]; exact List.mem_cons_self)

theorem pickColIdentList_id (kws : List Str) : ∀ (idents : List Str) (avoid : List Str),
    (∀ s ∈ idents, identShape s = true ∧ s ∉ kws ∧ upperStr s ∉ avoid) → DistinctUpper idents →
    pickColIdentList kws idents avoid = some idents := by
  intro idents
  induction idents with
  | nil => intro _ _ _; rfl
  | cons s rest ih =>
    intro avoid hall hd
    obtain ⟨h1, h2, h3⟩ := hall s (by simp)
    have hd' := List.pairwise_cons.mp hd
    have hrest := ih (upperStr s :: avoid) (fun x hx => by
      obtain ⟨a, b, c⟩ := hall x (by simp [hx])
      refine ⟨a, b, ?_⟩
      intro hm
      rcases List.mem_cons.mp hm with e | e
      · exact hd'.1 x hx e.symm
      · exact c e) hd'.2
    simp [pickColIdentList, pickColIdent_id kws s avoid h1 h2 h3, hrest]

end Grist.Identifiers
