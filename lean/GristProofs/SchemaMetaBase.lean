/-
C08 helpers: `lookupLast`, dependence of `SchemaConsistent` on the observable schema fields only,
invariance under `Same`, neutrality of record actions.
-/
import GristModel.SchemaMeta
import GristProofs.DocUndoCongr
namespace Grist.Doc

/-! ### `lookupLast` -/

theorem lookupLast_eq_none {β : Type} {l : List (String × β)} {k : String} :
    lookupLast l k = none ↔ ∀ p ∈ l, p.1 ≠ k := by
  induction l with
  | nil => simp [lookupLast]
  | cons p rest ih =>
    obtain ⟨k', v⟩ := p
    simp only [lookupLast, List.mem_cons, forall_eq_or_imp]
    cases h : lookupLast rest k with
    | some x =>
      simp only [reduceCtorEq, false_iff, not_and]
      intro _ hall
      rw [ih.2 hall] at h
      cases h
    | none =>
      rw [← ih, h]
      by_cases hk : k' = k <;> simp [hk]

theorem lookupLast_mem {β : Type} {l : List (String × β)} {k : String} {v : β}
    (h : lookupLast l k = some v) : (k, v) ∈ l := by
  induction l with
  | nil => simp [lookupLast] at h
  | cons p rest ih =>
    obtain ⟨k', v'⟩ := p
    simp only [lookupLast] at h
    cases h' : lookupLast rest k with
    | some x =>
      rw [h'] at h
      simp only [Option.some.injEq] at h
      subst h
      exact List.mem_cons_of_mem _ (ih h')
    | none =>
      rw [h'] at h
      by_cases hk : k' = k
      · simp only [hk, beq_self_eq_true, ↓reduceIte, Option.some.injEq] at h
        subst h; subst hk; simp
      · simp [hk] at h

theorem lookupLast_of_mem_nodup {β : Type} {l : List (String × β)} {k : String} {v : β}
    (hnd : (l.map (·.1)).Nodup) (h : (k, v) ∈ l) : lookupLast l k = some v := by
  induction l with
  | nil => simp at h
  | cons p rest ih =>
    obtain ⟨k', v'⟩ := p
    simp only [List.map_cons, List.nodup_cons] at hnd
    simp only [lookupLast]
    rcases List.mem_cons.1 h with h | h
    · simp only [Prod.mk.injEq] at h
      obtain ⟨rfl, rfl⟩ := h
      have : lookupLast rest k = none := by
        rw [lookupLast_eq_none]
        intro p hp hpk
        exact hnd.1 (by rw [← hpk]; exact List.mem_map_of_mem hp)
      simp [this]
    · rw [ih hnd.2 h]

/-! ### what `SchemaConsistent` depends on -/

/-- same rows and same cells (at the rows) in the listed columns -/
def FieldsAgree (fields : List String) (a b : Table) : Prop :=
  a.rows = b.rows ∧ ∀ c ∈ fields, ∀ r ∈ a.rows, a.cell c r = b.cell c r

theorem FieldsAgree.refl (fields : List String) (a : Table) : FieldsAgree fields a a :=
  ⟨rfl, fun _ _ _ _ => rfl⟩

theorem colRecInfo_congr {mc mc' : Table} (h : FieldsAgree columnFields mc mc') {r : Nat}
    (hr : r ∈ mc.rows) : colRecInfo mc r = colRecInfo mc' r := by
  have e1 := h.2 "colId" (by simp [columnFields]) r hr
  have e2 := h.2 "type" (by simp [columnFields]) r hr
  have e3 := h.2 "isFormula" (by simp [columnFields]) r hr
  have e4 := h.2 "formula" (by simp [columnFields]) r hr
  have e5 := h.2 "reverseCol" (by simp [columnFields]) r hr
  simp only [colRecInfo, e1, e2, e3, e4, e5, ← h.1]
  by_cases hc : mc.rows.contains (valNat (mc'.cell "reverseCol" r)) = true
  · have := h.2 "colId" (by simp [columnFields]) _ (by simpa using hc)
    simp only [hc, ↓reduceIte, this]
  · have hc' : ¬ valNat (mc'.cell "reverseCol" r) ∈ mc.rows := by simpa using hc
    simp [hc']

theorem colRecsOf_congr {mc mc' : Table} (h : FieldsAgree columnFields mc mc') (tr : Nat) :
    colRecsOf mc tr = colRecsOf mc' tr := by
  unfold colRecsOf
  rw [← h.1]
  have : mc.rows.filter (fun cr => valNat (mc.cell "parentId" cr) == tr) =
      mc.rows.filter (fun cr => valNat (mc'.cell "parentId" cr) == tr) := by
    apply List.filter_congr
    intro r hr
    rw [h.2 "parentId" (by simp [columnFields]) r hr]
  rw [← this]
  apply List.map_congr_left
  intro r hr
  exact colRecInfo_congr h (List.mem_filter.1 hr).1

theorem metaSchemaOf_congr {mt mt' mc mc' : Table} (ht : FieldsAgree tableFields mt mt')
    (hc : FieldsAgree columnFields mc mc') : metaSchemaOf mt mc = metaSchemaOf mt' mc' := by
  unfold metaSchemaOf
  rw [← ht.1]
  apply List.map_congr_left
  intro tr htr
  rw [ht.2 "tableId" (by simp [tableFields]) tr htr, colRecsOf_congr hc]

/-- the documents agree on the schema-bearing fields of the two metadata tables -/
def MetaAgree (d d' : Doc) : Prop :=
  ORel (FieldsAgree tableFields) (findTable? d "_grist_Tables") (findTable? d' "_grist_Tables") ∧
  ORel (FieldsAgree columnFields) (findTable? d "_grist_Tables_column")
    (findTable? d' "_grist_Tables_column")

theorem metaSchema_congr {d d' : Doc} (h : MetaAgree d d') : metaSchema d = metaSchema d' := by
  obtain ⟨h1, h2⟩ := h
  unfold metaSchema
  cases e1 : findTable? d "_grist_Tables" <;> cases e1' : findTable? d' "_grist_Tables" <;>
    rw [e1, e1'] at h1 <;> simp only [ORel_none_none, ORel_some_some, ORel_none_some,
      ORel_some_none] at h1 <;> try rfl
  cases e2 : findTable? d "_grist_Tables_column" <;>
    cases e2' : findTable? d' "_grist_Tables_column" <;>
    rw [e2, e2'] at h2 <;> simp only [ORel_none_none, ORel_some_some, ORel_none_some,
      ORel_some_none] at h2 <;> try rfl
  exact metaSchemaOf_congr h1 h2

theorem noStrayB_congr {d d' : Doc} (h : MetaAgree d d') : noStrayB d = noStrayB d' := by
  obtain ⟨h1, h2⟩ := h
  unfold noStrayB
  cases e1 : findTable? d "_grist_Tables" <;> cases e1' : findTable? d' "_grist_Tables" <;>
    rw [e1, e1'] at h1 <;> simp only [ORel_none_none, ORel_some_some, ORel_none_some,
      ORel_some_none] at h1 <;> try rfl
  cases e2 : findTable? d "_grist_Tables_column" <;>
    cases e2' : findTable? d' "_grist_Tables_column" <;>
    rw [e2, e2'] at h2 <;> simp only [ORel_none_none, ORel_some_some, ORel_none_some,
      ORel_some_none] at h2 <;> try rfl
  rename_i mt mt' mc mc'
  simp only
  rw [← h2.1, ← h1.1]
  rw [Bool.eq_iff_iff]
  simp only [List.all_eq_true]
  constructor
  · intro h r hr
    rw [← h2.2 "parentId" (by simp [columnFields]) r hr]; exact h r hr
  · intro h r hr
    rw [h2.2 "parentId" (by simp [columnFields]) r hr]; exact h r hr

/-- the documents have the same tables, each with the same column ↦ info map -/
def UserAgree (d d' : Doc) : Prop :=
  ∀ t, ORel (fun a b : Table => ∀ c, a.infoOf? c = b.infoOf? c) (findTable? d t) (findTable? d' t)

theorem schemaConsistent_congr {d d' : Doc} (hu : UserAgree d d') (hm : MetaAgree d d')
    (h : SchemaConsistent d) : SchemaConsistent d' := by
  obtain ⟨h1, h2⟩ := h
  refine ⟨fun t => ?_, by rw [← noStrayB_congr hm]; exact h2⟩
  have := h1 t
  unfold TableAgrees userTable? at *
  rw [← metaSchema_congr hm]
  have hut := hu t
  by_cases hmeta : isMetaId t = true
  · simp only [hmeta, ↓reduceIte] at this ⊢
    exact this
  · simp only [hmeta] at this ⊢
    cases e : findTable? d t <;> cases e' : findTable? d' t <;> rw [e, e'] at hut <;>
      simp only [ORel_none_none, ORel_some_some, ORel_none_some, ORel_some_none] at hut
    · rw [e] at this; exact this
    · rw [e] at this
      simp only [Bool.false_eq_true, ↓reduceIte] at this ⊢
      cases e3 : lookupLast (metaSchema d) t <;> rw [e3] at this
      · exact this
      · intro c; rw [← hut c]; exact this c

/-! ### invariance under `Same` -/

theorem Table.Same.cell_eq {a b : Table} (h : Table.Same a b) (c : String) {r : Nat}
    (hr : r ∈ a.rows) : a.cell c r = b.cell c r := by
  have := ((tableSame_iff _ _).1 h).2 c
  unfold Table.cell
  cases e : a.findCol? c <;> cases e' : b.findCol? c <;> rw [e, e'] at this <;>
    simp only [ORel_none_none, ORel_some_some, ORel_none_some, ORel_some_none] at this <;>
    try rfl
  exact this.2 r hr

theorem Table.Same.fieldsAgree {a b : Table} (h : Table.Same a b) (fields : List String) :
    FieldsAgree fields a b := ⟨h.1, fun c _ _ hr => h.cell_eq c hr⟩

theorem Table.Same.infoOf_eq {a b : Table} (h : Table.Same a b) (c : String) :
    a.infoOf? c = b.infoOf? c := by
  have := ((tableSame_iff _ _).1 h).2 c
  unfold Table.infoOf?
  cases e : a.findCol? c <;> cases e' : b.findCol? c <;> rw [e, e'] at this <;>
    simp only [ORel_none_none, ORel_some_some, ORel_none_some, ORel_some_none] at this <;>
    try rfl
  simp [this.1]

theorem Same.metaAgree {d d' : Doc} (h : Same d d') : MetaAgree d d' := by
  rw [same_iff] at h
  exact ⟨(h _).mono (fun _ _ hs => hs.fieldsAgree _), (h _).mono (fun _ _ hs => hs.fieldsAgree _)⟩

theorem Same.userAgree {d d' : Doc} (h : Same d d') : UserAgree d d' := by
  rw [same_iff] at h
  exact fun t => (h t).mono (fun _ _ hs => hs.infoOf_eq)

theorem schemaConsistent_of_same {d d' : Doc} (h : Same d d') (hc : SchemaConsistent d) :
    SchemaConsistent d' :=
  schemaConsistent_congr h.userAgree h.metaAgree hc

/-! ### one table replaced -/

theorem schemaConsistent_replaceTable {d : Doc} {t : String} {tb tb' : Table}
    (hf : findTable? d t = some tb) (hid : tb'.id = t) (hinfo : ∀ c, tb.infoOf? c = tb'.infoOf? c)
    (hmt : t = "_grist_Tables" → FieldsAgree tableFields tb tb')
    (hmc : t = "_grist_Tables_column" → FieldsAgree columnFields tb tb')
    (h : SchemaConsistent d) : SchemaConsistent (replaceTable d t tb') := by
  apply schemaConsistent_congr _ _ h
  · intro t'
    by_cases ht : t' = t
    · subst ht
      rw [findTable?_replaceTable_self hid hf, hf]
      exact hinfo
    · rw [findTable?_replaceTable_ne hid ht]
      exact ORel.refl' _ (fun _ _ _ => rfl)
  · constructor
    · by_cases ht : "_grist_Tables" = t
      · subst ht
        rw [findTable?_replaceTable_self hid hf, hf]
        exact hmt rfl
      · rw [findTable?_replaceTable_ne hid ht]
        exact ORel.refl' _ (fun x _ => FieldsAgree.refl _ x)
    · by_cases ht : "_grist_Tables_column" = t
      · subst ht
        rw [findTable?_replaceTable_self hid hf, hf]
        exact hmc rfl
      · rw [findTable?_replaceTable_ne hid ht]
        exact ORel.refl' _ (fun x _ => FieldsAgree.refl _ x)

end Grist.Doc
