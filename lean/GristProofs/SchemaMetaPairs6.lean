/-
C08 pairs, part 6: RemoveRecord of the column record, then RemoveColumn.
-/
import GristProofs.SchemaMetaPairs5
namespace Grist.Doc

abbrev dropColT (tb : Table) (c : String) : Table :=
  { tb with cols := tb.cols.filter (fun x => x.id != c) }

theorem pair_removeColumn_core {d d' : Doc} {u : List DocAction} {T c : String} {tr0 r : Nat}
    (hc : SchemaConsistent d) (hu : MetaUnique d) (hT : isMetaId T = false)
    (htr : TableRec d tr0 T) (hrec : ColRec d r tr0 c) (hnr : NoReverseRefTo d r)
    (h : runActs d [.bulkRemove "_grist_Tables_column" [r], .removeColumn T c] = .ok (d', u)) :
    SchemaConsistent d' ∧ MetaUnique d' := by
  obtain ⟨mt, mc, hmt, hmc, htu, hcu⟩ := hu
  obtain ⟨mt', hmt', htr0, htid⟩ := htr
  rw [hmt] at hmt'; cases hmt'
  obtain ⟨mc0, hmc0, hr, hpar, hcid⟩ := hrec
  rw [hmc] at hmc0; cases hmc0
  obtain ⟨D1, U1, U2, hp1, hp2⟩ := runActs_two h
  obtain ⟨mcx, hfx, hcase⟩ := hp1
  rw [hmc] at hfx; cases hfx
  have hfl : [r].filter (fun x => mc.rows.contains x) = [r] := by simp [hr]
  rw [hfl] at hcase
  rcases hcase with ⟨he, _, _⟩ | ⟨_, hD1, _⟩
  · cases he
  subst hD1
  obtain ⟨tbx, col, hfTx, hcol, rfl, _⟩ := hp2
  have hne := ne_MC_of_user hT
  have hidC := (findTable?_some hmc).1
  rw [findTable?_replaceTable_ne (tb := mc.removeRows [r]) (by exact hidC) hne] at hfTx
  have hidT := (findTable?_some hfTx).1
  obtain ⟨h2T, h2C, h2o⟩ := find_after_MC_T (tb1 := dropColT tbx c) (mc' := mc.removeRows [r])
    hfTx hmc hne hidT hidC
  have hnr' := hnr mc hmc
  have hmem : ∀ x, x ∈ (mc.removeRows [r]).rows ↔ x ∈ mc.rows ∧ x ≠ r := by
    intro x
    show x ∈ mc.rows.filter (fun y => !([r].contains y)) ↔ _
    simp
  have hrows : ∀ x, x ≠ r → (x ∈ (mc.removeRows [r]).rows ↔ x ∈ mc.rows) := by
    intro x hx; rw [hmem]; simp [hx]
  have hcells : ∀ f x, x ≠ r → x ∈ mc.rows → (mc.removeRows [r]).cell f x = mc.cell f x :=
    fun f x hx _ => cell_removeRows mc [r] f (by simpa using hx)
  have hrnot : r ∉ (mc.removeRows [r]).rows := by rw [hmem]; simp
  refine pair_core hc hmt hmc htu hcu hT hfTx h2T h2C h2o htr0 htid
    (P_of_cells hrows hcells hnr') (fun _ => hpar) (fun h => absurd h hrnot) ?_
    (fun h => absurd h hrnot)
  intro k i
  simp only [dropColT, Table.infoOf?, findCol?_filter_ne, hrnot, false_and, false_or, hr, hcid,
    forall_const]
  by_cases hk : k = c
  · subst hk; simp
  · have hk' : ¬ c = k := fun h => hk h.symm
    simp [hk, hk']

end Grist.Doc
