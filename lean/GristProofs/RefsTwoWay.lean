/-
Helper lemmas for GristProps/C11.lean: get_reverse_adjustments (`collect`, `adjustOne`), `toValues`,
writes of association lists to a column.
-/
import GristProofs.Refs
namespace Grist.Refs

/-! ### association lists with distinct keys -/

def keys {β : Type} (m : List (Nat × β)) : List Nat := m.map Prod.fst

theorem aHas_iff_mem_keys {β : Type} (m : List (Nat × β)) (t : Nat) :
    aHas m t = true ↔ t ∈ keys m := by
  induction m with
  | nil => simp [aHas, keys]
  | cons e rest ih =>
    obtain ⟨k, v⟩ := e
    simp only [aHas, keys, List.map_cons, List.mem_cons]
    by_cases h : k = t
    · simp [h]
    · have : ¬ t = k := fun hh => h hh.symm
      simp only [h, if_false, this, false_or]; exact ih

theorem keys_aUpd {β : Type} (d : β) (m : List (Nat × β)) (t : Nat) (f : β → β) :
    keys (aUpd d m t f) = if aHas m t then keys m else keys m ++ [t] := by
  induction m with
  | nil => simp [aUpd, aHas, keys]
  | cons e rest ih =>
    obtain ⟨k, v⟩ := e
    simp only [aUpd, aHas]
    by_cases h : k = t
    · simp [h, keys]
    · simp only [h, if_false]
      have : keys ((k, v) :: aUpd d rest t f) = k :: keys (aUpd d rest t f) := rfl
      rw [this, ih]
      split <;> simp [keys]

theorem nodup_keys_aUpd {β : Type} (d : β) (m : List (Nat × β)) (t : Nat) (f : β → β)
    (h : (keys m).Nodup) : (keys (aUpd d m t f)).Nodup := by
  rw [keys_aUpd]
  split
  · exact h
  · rename_i hh
    have : t ∉ keys m := by rw [← aHas_iff_mem_keys]; simpa using hh
    rw [List.nodup_append]
    refine ⟨h, by simp, ?_⟩
    intro a ha b hb
    simp at hb
    subst hb
    intro hab; subst hab; exact this ha

theorem aGet_of_mem {β : Type} (d : β) : ∀ (m : List (Nat × β)), (keys m).Nodup →
    ∀ e ∈ m, aGet d m e.1 = e.2 := by
  intro m
  induction m with
  | nil => simp
  | cons e0 rest ih =>
    obtain ⟨k, v⟩ := e0
    intro hn e he
    have hn' : k ∉ keys rest ∧ (keys rest).Nodup := by
      simpa [keys] using hn
    rcases List.mem_cons.mp he with h | h
    · subst h; simp [aGet]
    · have hk : k ≠ e.1 := by
        intro hh
        apply hn'.1
        rw [hh]
        exact List.mem_map_of_mem (f := Prod.fst) h
      simp only [aGet, hk, if_false]
      exact ih hn'.2 e h

theorem mem_of_aHas {β : Type} (d : β) : ∀ (m : List (Nat × β)) (t : Nat), aHas m t = true →
    (t, aGet d m t) ∈ m := by
  intro m
  induction m with
  | nil => simp [aHas]
  | cons e0 rest ih =>
    obtain ⟨k, v⟩ := e0
    intro t h
    simp only [aHas] at h
    by_cases hk : k = t
    · subst hk; simp [aGet]
    · simp only [hk, if_false] at h
      simp only [aGet, hk, if_false, List.mem_cons]
      exact Or.inr (ih t h)

theorem aGet_of_not_has {β : Type} (d : β) : ∀ (m : List (Nat × β)) (t : Nat), aHas m t = false →
    aGet d m t = d := by
  intro m
  induction m with
  | nil => simp [aGet]
  | cons e0 rest ih =>
    obtain ⟨k, v⟩ := e0
    intro t h
    simp only [aHas] at h
    by_cases hk : k = t
    · simp [hk] at h
    · simp only [hk, if_false] at h
      simp only [aGet, hk, if_false]
      exact ih t h

/-! ### writes -/

theorem lastVal_none_iff : ∀ (l : List (Nat × Cell)) (a : Nat), lastVal l a = none ↔ a ∉ keys l := by
  intro l
  induction l with
  | nil => simp [lastVal, keys]
  | cons e rest ih =>
    obtain ⟨k, v⟩ := e
    intro a
    simp only [lastVal, keys, List.map_cons, List.mem_cons, not_or]
    cases h : lastVal rest a with
    | some w =>
      have hin : a ∈ keys rest := by
        apply Classical.byContradiction
        intro hc
        have := (ih a).mpr hc
        rw [h] at this; cases this
      simp only [keys] at hin
      simp only [reduceCtorEq, false_iff, not_and, Classical.not_not]
      intro _; exact hin
    | none =>
      have := (ih a).mp h
      simp only [keys] at this
      by_cases hk : k = a
      · simp [hk]
      · have h2 : ¬ a = k := fun hh => hk hh.symm
        simp only [hk, if_false, h2, not_false_eq_true, true_and, true_iff]
        exact this

theorem lastVal_some_iff : ∀ (l : List (Nat × Cell)), (keys l).Nodup → ∀ (a : Nat) (v : Cell),
    lastVal l a = some v ↔ (a, v) ∈ l := by
  intro l
  induction l with
  | nil => simp [lastVal]
  | cons e rest ih =>
    obtain ⟨k, w⟩ := e
    intro hn a v
    have hn' : k ∉ keys rest ∧ (keys rest).Nodup := by simpa [keys] using hn
    simp only [lastVal, List.mem_cons, Prod.mk.injEq]
    cases h : lastVal rest a with
    | some u =>
      have hu := (ih hn'.2 a u).mp h
      have hak : a ≠ k := by
        intro hh; subst hh
        exact hn'.1 (List.mem_map_of_mem (f := Prod.fst) hu)
      simp only [Option.some.injEq]
      constructor
      · intro hh; subst hh; exact Or.inr hu
      · rintro (⟨h1, _⟩ | h2)
        · exact absurd h1 hak
        · have := (ih hn'.2 a v).mpr h2
          rw [h] at this; injection this
    | none =>
      have hnk := (lastVal_none_iff rest a).mp h
      by_cases hk : k = a
      · subst hk
        simp only [if_true, Option.some.injEq, true_and]
        constructor
        · intro hh; exact Or.inl hh.symm
        · rintro (hh | hh)
          · exact hh.symm
          · exact absurd (List.mem_map_of_mem (f := Prod.fst) hh) hnk
      · have h2 : ¬ a = k := fun hh => hk hh.symm
        simp only [hk, if_false, h2, false_and, false_or]
        constructor
        · intro hh; cases hh
        · intro hh; exact absurd (List.mem_map_of_mem (f := Prod.fst) hh) hnk

/-- writing `g` of every entry of an association list with distinct keys -/
theorem lastVal_map_assoc {β : Type} (d : β) (g : Nat × β → Cell) : ∀ (m : List (Nat × β)),
    (keys m).Nodup → ∀ b, lastVal (m.map (fun e => (e.1, g e))) b =
      if aHas m b then some (g (b, aGet d m b)) else none := by
  intro m
  induction m with
  | nil => simp [lastVal, aHas]
  | cons e rest ih =>
    obtain ⟨k, v⟩ := e
    intro hn b
    have hn' : k ∉ keys rest ∧ (keys rest).Nodup := by simpa [keys] using hn
    simp only [List.map_cons, lastVal, ih hn'.2 b, aHas, aGet]
    by_cases hr : aHas rest b = true
    · have hkb : k ≠ b := by
        intro hh; subst hh
        exact hn'.1 ((aHas_iff_mem_keys rest k).mp hr)
      simp [hkb, hr]
    · simp only [hr]
      by_cases hk : k = b
      · subst hk; simp
      · simp [hk]

/-! ### get_reverse_adjustments -/

theorem addRemovals_spec (src : Nat) : ∀ (ts : List Nat) (a : Affected) (t : Nat),
    (∀ x, x ∈ (aGet ([], []) (addRemovals a src ts) t).1 ↔
        x ∈ (aGet ([], []) a t).1 ∨ (x = src ∧ t ∈ ts)) ∧
    (aGet ([], []) (addRemovals a src ts) t).2 = (aGet ([], []) a t).2 ∧
    (aHas (addRemovals a src ts) t = (aHas a t || decide (t ∈ ts))) ∧
    ((keys a).Nodup → (keys (addRemovals a src ts)).Nodup) := by
  intro ts
  induction ts with
  | nil => intro a t; simp [addRemovals]
  | cons t0 rest ih =>
    intro a t
    have hstep : addRemovals a src (t0 :: rest) =
        addRemovals (aUpd ([], []) a t0 (fun p => (setAdd p.1 src, p.2))) src rest := rfl
    rw [hstep]
    obtain ⟨h1, h2, h3, h4⟩ := ih (aUpd ([], []) a t0 (fun p => (setAdd p.1 src, p.2))) t
    refine ⟨?_, ?_, ?_, ?_⟩
    · intro x
      rw [h1, aGet_aUpd]
      by_cases ht : t = t0
      · subst ht
        simp only [if_true, mem_setAdd, List.mem_cons, true_or, and_true]
        constructor
        · rintro ((h | h) | ⟨h, _⟩) <;> simp [h]
        · rintro (h | h) <;> simp [h]
      · simp [ht]
    · rw [h2, aGet_aUpd]; split <;> simp_all
    · rw [h3, aHas_aUpd]
      by_cases ht : t = t0 <;> simp [ht]
    · intro hn; exact h4 (nodup_keys_aUpd _ _ _ _ hn)

theorem addAdditions_spec (src : Nat) : ∀ (ts : List Nat) (a : Affected) (t : Nat),
    (∀ x, x ∈ (aGet ([], []) (addAdditions a src ts) t).2 ↔
        x ∈ (aGet ([], []) a t).2 ∨ (x = src ∧ t ∈ ts)) ∧
    (aGet ([], []) (addAdditions a src ts) t).1 = (aGet ([], []) a t).1 ∧
    (aHas (addAdditions a src ts) t = (aHas a t || decide (t ∈ ts))) ∧
    ((keys a).Nodup → (keys (addAdditions a src ts)).Nodup) := by
  intro ts
  induction ts with
  | nil => intro a t; simp [addAdditions]
  | cons t0 rest ih =>
    intro a t
    have hstep : addAdditions a src (t0 :: rest) =
        addAdditions (aUpd ([], []) a t0 (fun p => (p.1, setAdd p.2 src))) src rest := rfl
    rw [hstep]
    obtain ⟨h1, h2, h3, h4⟩ := ih (aUpd ([], []) a t0 (fun p => (p.1, setAdd p.2 src))) t
    refine ⟨?_, ?_, ?_, ?_⟩
    · intro x
      rw [h1, aGet_aUpd]
      by_cases ht : t = t0
      · subst ht
        simp only [if_true, mem_setAdd, List.mem_cons, true_or, and_true]
        constructor
        · rintro ((h | h) | ⟨h, _⟩) <;> simp [h]
        · rintro (h | h) <;> simp [h]
      · simp [ht]
    · rw [h2, aGet_aUpd]; split <;> simp_all
    · rw [h3, aHas_aUpd]
      by_cases ht : t = t0 <;> simp [ht]
    · intro hn; exact h4 (nodup_keys_aUpd _ _ _ _ hn)

/-- What `affected_target_rows` holds after the loop over the changed rows. -/
theorem collect_spec (k : Kind) : ∀ (tr : List (Nat × Cell × Cell)) (a : Affected) (t : Nat),
    (∀ x, x ∈ (aGet ([], []) (collect k tr a) t).1 ↔ x ∈ (aGet ([], []) a t).1 ∨
        ∃ e ∈ tr, e.2.2 ≠ e.2.1 ∧ e.1 = x ∧ t ∈ refs k e.2.1) ∧
    (∀ x, x ∈ (aGet ([], []) (collect k tr a) t).2 ↔ x ∈ (aGet ([], []) a t).2 ∨
        ∃ e ∈ tr, e.2.2 ≠ e.2.1 ∧ e.1 = x ∧ t ∈ refs k e.2.2) ∧
    (aHas (collect k tr a) t = true ↔ aHas a t = true ∨
        ∃ e ∈ tr, e.2.2 ≠ e.2.1 ∧ (t ∈ refs k e.2.1 ∨ t ∈ refs k e.2.2)) ∧
    ((keys a).Nodup → (keys (collect k tr a)).Nodup) := by
  intro tr
  induction tr with
  | nil => intro a t; simp [collect]
  | cons e0 rest ih =>
    obtain ⟨r, o, n⟩ := e0
    intro a t
    simp only [collect]
    by_cases hch : n ≠ o
    · rw [if_pos hch]
      obtain ⟨i1, i2, i3, i4⟩ := ih (addAdditions (addRemovals a r (refs k o)) r (refs k n)) t
      obtain ⟨a1, a2, a3, a4⟩ := addAdditions_spec r (refs k n) (addRemovals a r (refs k o)) t
      obtain ⟨r1, r2, r3, r4⟩ := addRemovals_spec r (refs k o) a t
      refine ⟨?_, ?_, ?_, ?_⟩
      · intro x
        rw [i1, a2, r1]
        simp only [List.mem_cons, exists_eq_or_imp]
        constructor
        · rintro ((h | ⟨h1, h2⟩) | h)
          · exact Or.inl h
          · exact Or.inr (Or.inl ⟨hch, h1.symm, h2⟩)
          · exact Or.inr (Or.inr h)
        · rintro (h | ⟨_, h1, h2⟩ | h)
          · exact Or.inl (Or.inl h)
          · exact Or.inl (Or.inr ⟨h1.symm, h2⟩)
          · exact Or.inr h
      · intro x
        rw [i2, a1, r2]
        simp only [List.mem_cons, exists_eq_or_imp]
        constructor
        · rintro ((h | ⟨h1, h2⟩) | h)
          · exact Or.inl h
          · exact Or.inr (Or.inl ⟨hch, h1.symm, h2⟩)
          · exact Or.inr (Or.inr h)
        · rintro (h | ⟨_, h1, h2⟩ | h)
          · exact Or.inl (Or.inl h)
          · exact Or.inl (Or.inr ⟨h1.symm, h2⟩)
          · exact Or.inr h
      · rw [i3, a3, r3]
        simp only [Bool.or_eq_true, decide_eq_true_eq, List.mem_cons, exists_eq_or_imp]
        constructor
        · rintro (((h | h) | h) | h)
          · exact Or.inl h
          · exact Or.inr (Or.inl ⟨hch, Or.inl h⟩)
          · exact Or.inr (Or.inl ⟨hch, Or.inr h⟩)
          · exact Or.inr (Or.inr h)
        · rintro (h | ⟨_, h | h⟩ | h)
          · exact Or.inl (Or.inl (Or.inl h))
          · exact Or.inl (Or.inl (Or.inr h))
          · exact Or.inl (Or.inr h)
          · exact Or.inr h
      · intro hn; exact i4 (a4 (r4 hn))
    · rw [if_neg hch]
      obtain ⟨i1, i2, i3, i4⟩ := ih a t
      have hch' : n = o := by simpa using hch
      refine ⟨?_, ?_, ?_, i4⟩
      · intro x; rw [i1]; simp [hch']
      · intro x; rw [i2]; simp [hch']
      · rw [i3]; simp [hch']

/-! ### _list_to_value -/

/-- total version of `listToValue` (the error case is never looked at) -/
def listToValueD (k : Kind) (l : List Nat) : Cell :=
  match listToValue k l with
  | .ok v => v
  | .error _ => .alt

theorem listToValue_err {k : Kind} {l : List Nat} {e : Err} (h : listToValue k l = .error e) :
    e = .uniqueReference ∧ k = .ref ∧ l.length > 1 := by
  cases k with
  | ref =>
    simp only [listToValue] at h
    split at h
    · injection h with h; exact ⟨h.symm, rfl, by assumption⟩
    · cases h
  | refList => simp [listToValue] at h

theorem listToValue_ok_iff (k : Kind) (l : List Nat) :
    (∃ v, listToValue k l = .ok v) ↔ ¬ (k = .ref ∧ l.length > 1) := by
  cases k with
  | ref =>
    simp only [listToValue]
    by_cases h : l.length > 1 <;> simp [h]
  | refList => simp [listToValue]

theorem toValues_ok {k : Kind} : ∀ {adj : List (Nat × List Nat)} {vals : List (Nat × Cell)},
    toValues k adj = .ok vals →
    vals = adj.map (fun e => (e.1, listToValueD k e.2)) ∧ ∀ e ∈ adj, ¬ (k = .ref ∧ e.2.length > 1) := by
  intro adj
  induction adj with
  | nil => intro vals h; simp only [toValues] at h; injection h with h; subst h; simp
  | cons e rest ih =>
    obtain ⟨t, l⟩ := e
    intro vals h
    simp only [toValues] at h
    split at h
    · rename_i v hv
      split at h
      · rename_i vs hvs
        injection h with h
        subst h
        obtain ⟨i1, i2⟩ := ih hvs
        refine ⟨?_, ?_⟩
        · rw [i1]
          simp only [List.map_cons, listToValueD, hv]
        · intro e he
          rcases List.mem_cons.mp he with h | h
          · subst h; exact (listToValue_ok_iff k l).mp ⟨v, hv⟩
          · exact i2 e h
      · cases h
    · cases h

theorem toValues_err {k : Kind} : ∀ {adj : List (Nat × List Nat)} {e : Err},
    toValues k adj = .error e → e = .uniqueReference ∧ k = .ref ∧ ∃ en ∈ adj, en.2.length > 1 := by
  intro adj
  induction adj with
  | nil => intro e h; simp [toValues] at h
  | cons e0 rest ih =>
    obtain ⟨t, l⟩ := e0
    intro e h
    simp only [toValues] at h
    split at h
    · split at h
      · cases h
      · rename_i e' he'
        injection h with h; subst h
        obtain ⟨i1, i2, en, hen, hl⟩ := ih he'
        exact ⟨i1, i2, en, by simp [hen], hl⟩
    · rename_i e' he'
      injection h with h; subst h
      obtain ⟨j1, j2, j3⟩ := listToValue_err he'
      exact ⟨j1, j2, (t, l), by simp, j3⟩

theorem toValues_total {k : Kind} : ∀ (adj : List (Nat × List Nat)),
    (∀ e ∈ adj, ¬ (k = .ref ∧ e.2.length > 1)) → ∃ vals, toValues k adj = .ok vals := by
  intro adj
  induction adj with
  | nil => intro _; exact ⟨[], rfl⟩
  | cons e0 rest ih =>
    obtain ⟨t, l⟩ := e0
    intro h
    obtain ⟨v, hv⟩ := (listToValue_ok_iff k l).mpr (h (t, l) (by simp))
    obtain ⟨vs, hvs⟩ := ih (fun e he => h e (by simp [he]))
    exact ⟨(t, v) :: vs, by simp only [toValues, hv, hvs]⟩

/-- For a real row id `a` (≠ 0): the written cell refers to `a` iff `a` is in the list. -/
theorem mem_refs_listToValueD {k : Kind} {l : List Nat} (hok : ¬ (k = .ref ∧ l.length > 1))
    {a : Nat} (ha : a ≠ 0) : a ∈ refs k (listToValueD k l) ↔ a ∈ l := by
  cases k with
  | ref =>
    have hl : ¬ l.length > 1 := fun h => hok ⟨rfl, h⟩
    simp only [listToValueD, listToValue, hl, if_false, refs]
    match l, hl with
    | [], _ => simp
    | [c], _ =>
      simp only [List.headD_cons, List.mem_singleton]
      by_cases hc : c = 0
      · subst hc; simp [ha]
      · simp [hc]
    | _ :: _ :: _, hl => simp at hl
  | refList =>
    simp only [listToValueD, listToValue]
    cases l with
    | nil => simp [refs]
    | cons c rest => simp [refs]

/-! ### zip(row_ids, old_values, new_values) -/

theorem zip3_map (f : Nat → Cell) : ∀ (rows : List Nat) (vals : List Cell),
    zip3 rows (rows.map f) vals = (rows.zip vals).map (fun e => (e.1, f e.1, e.2)) := by
  intro rows
  induction rows with
  | nil => intro vals; simp [zip3]
  | cons r rest ih =>
    intro vals
    cases vals with
    | nil => simp [zip3]
    | cons v vs => simp [zip3, ih]

theorem keys_zip_sublist : ∀ (rows : List Nat) (vals : List Cell),
    (keys (rows.zip vals)).Sublist rows := by
  intro rows
  induction rows with
  | nil => intro vals; simp [keys]
  | cons r rest ih =>
    intro vals
    cases vals with
    | nil => simp [keys]
    | cons v vs => simp only [List.zip_cons_cons, keys, List.map_cons]; exact (ih vs).cons_cons r

theorem nodup_keys_trim (c : Col) (rows : List Nat) (vals : List Cell) (h : rows.Nodup) :
    (keys (trimUpdate c rows vals)).Nodup := by
  have h1 : (keys (rows.zip vals)).Nodup := (keys_zip_sublist rows vals).nodup h
  have h2 : (keys (trimUpdate c rows vals)).Sublist (keys (rows.zip vals)) := by
    unfold trimUpdate keys
    exact (List.filter_sublist).map _
  exact h2.nodup h1

/-! ### the update of one side -/

/-- `affected_target_rows` of an update of column `c`. -/
def affOf (c : Col) (rows : List Nat) (vals : List Cell) : Affected :=
  collect c.kind (zip3 rows (rows.map (rawGet c)) vals) []

/-- the value of row `a` after the (trimmed) main action. -/
def newVal (c : Col) (rows : List Nat) (vals : List Cell) (a : Nat) : Cell :=
  (lastVal (trimUpdate c rows vals) a).getD (rawGet c a)

/-- the reverse value computed for target `b` (before sorting). -/
def revVal (c : Col) (rows : List Nat) (vals : List Cell) (b : Nat) : List Nat :=
  (aGet ([], []) (affOf c rows vals) b).2.foldl setAdd
    ((aGet ([], []) (affOf c rows vals) b).1.foldl setDiscard (invGet c.inv b))

theorem affOf_spec (c : Col) (rows : List Nat) (vals : List Cell) (b : Nat) :
    (∀ a, a ∈ (aGet ([], []) (affOf c rows vals) b).1 ↔
        ∃ v, (a, v) ∈ trimUpdate c rows vals ∧ b ∈ refs c.kind (rawGet c a)) ∧
    (∀ a, a ∈ (aGet ([], []) (affOf c rows vals) b).2 ↔
        ∃ v, (a, v) ∈ trimUpdate c rows vals ∧ b ∈ refs c.kind v) ∧
    (aHas (affOf c rows vals) b = true ↔
        ∃ e ∈ trimUpdate c rows vals, b ∈ refs c.kind (rawGet c e.1) ∨ b ∈ refs c.kind e.2) ∧
    (keys (affOf c rows vals)).Nodup := by
  obtain ⟨h1, h2, h3, h4⟩ := collect_spec c.kind (zip3 rows (rows.map (rawGet c)) vals) [] b
  unfold affOf
  rw [zip3_map] at h1 h2 h3 h4 ⊢
  refine ⟨?_, ?_, ?_, h4 (by simp [keys])⟩
  · intro a
    rw [h1]
    simp only [aGet, List.not_mem_nil, false_or, List.mem_map, trimUpdate, List.mem_filter,
      decide_eq_true_eq]
    constructor
    · rintro ⟨_, ⟨e, he, rfl⟩, hch, rfl, hb⟩
      exact ⟨e.2, ⟨he, hch⟩, hb⟩
    · rintro ⟨v, ⟨he, hch⟩, hb⟩
      exact ⟨_, ⟨(a, v), he, rfl⟩, hch, rfl, hb⟩
  · intro a
    rw [h2]
    simp only [aGet, List.not_mem_nil, false_or, List.mem_map, trimUpdate, List.mem_filter,
      decide_eq_true_eq]
    constructor
    · rintro ⟨_, ⟨e, he, rfl⟩, hch, rfl, hb⟩
      exact ⟨e.2, ⟨he, hch⟩, hb⟩
    · rintro ⟨v, ⟨he, hch⟩, hb⟩
      exact ⟨_, ⟨(a, v), he, rfl⟩, hch, rfl, hb⟩
  · rw [h3]
    simp only [aHas, Bool.false_eq_true, false_or, List.mem_map, trimUpdate, List.mem_filter,
      decide_eq_true_eq]
    constructor
    · rintro ⟨_, ⟨e, he, rfl⟩, hch, hb⟩
      exact ⟨e, ⟨he, hch⟩, hb⟩
    · rintro ⟨e, ⟨he, hch⟩, hb⟩
      exact ⟨_, ⟨e, he, rfl⟩, hch, hb⟩

/-- Core of C11: on an exact index and an update naming every row at most once, the reverse value
    computed for ANY target `b` is exactly the set of rows referring to `b` after the update. -/
theorem mem_revVal {c : Col} (hc : Exact c) {rows : List Nat} (hnd : rows.Nodup) (vals : List Cell)
    (a b : Nat) : a ∈ revVal c rows vals b ↔ b ∈ refs c.kind (newVal c rows vals a) := by
  obtain ⟨h1, h2, _, _⟩ := affOf_spec c rows vals b
  have hk := nodup_keys_trim c rows vals hnd
  unfold revVal newVal
  rw [mem_foldl_setAdd, mem_foldl_setDiscard, h1, h2, hc]
  cases hl : lastVal (trimUpdate c rows vals) a with
  | some v =>
    have hv := (lastVal_some_iff _ hk a v).mp hl
    simp only [Option.getD_some]
    constructor
    · rintro (⟨h, hn⟩ | ⟨v', hv', hb⟩)
      · exact absurd ⟨v, hv, h⟩ hn
      · have := (lastVal_some_iff _ hk a v').mpr hv'
        rw [hl] at this; injection this with this; subst this; exact hb
    · intro hb; exact Or.inr ⟨v, hv, hb⟩
  | none =>
    have hn := (lastVal_none_iff _ a).mp hl
    have hno : ∀ v, (a, v) ∉ trimUpdate c rows vals := fun v hv =>
      hn (List.mem_map_of_mem (f := Prod.fst) hv)
    simp only [Option.getD_none]
    constructor
    · rintro (⟨h, _⟩ | ⟨v', hv', _⟩)
      · exact h
      · exact absurd hv' (hno v')
    · intro hb
      exact Or.inl ⟨hb, fun ⟨v, hv, _⟩ => hno v hv⟩

end Grist.Refs
