/-
C08: record actions that do not touch the schema-bearing metadata fields keep `SchemaConsistent`.
-/
import GristProofs.SchemaMetaBase
namespace Grist.Doc

theorem infoOf?_of_map {tb tb' : Table} (F : Col → Col) (hid : ∀ x, (F x).id = x.id)
    (hinfo : ∀ x, (F x).info = x.info) (hc : tb'.cols = tb.cols.map F) (c : String) :
    tb.infoOf? c = tb'.infoOf? c := by
  have : tb'.findCol? c = (tb.findCol? c).map F := by
    unfold Table.findCol?; rw [hc]; exact find_key_map Col.id F hid
  unfold Table.infoOf?
  rw [this]
  cases tb.findCol? c <;> simp [hinfo]

theorem infoOf?_written (tb : Table) (rows : List Nat) (cols : List (String × List Val))
    (c : String) : tb.infoOf? c = (tb.written rows cols).infoOf? c :=
  infoOf?_of_map (Col.written rows cols) (fun _ => rfl) (fun _ => rfl) rfl c

theorem fieldsAgree_written {fields : List String} (tb : Table) (rows : List Nat)
    {cols : List (String × List Val)} (h : ∀ cv ∈ cols, cv.1 ∉ fields) :
    FieldsAgree fields tb (tb.written rows cols) := by
  refine ⟨rfl, fun c hc r _ => ?_⟩
  unfold Table.cell
  rw [Table.findCol?_written]
  cases e : tb.findCol? c with
  | none => rfl
  | some x =>
    simp only [Option.map_some, Col.written]
    rw [writeCells_no_key]
    intro cv hcv hk
    rw [(findCol?_some e).1] at hk
    exact h cv hcv (hk ▸ hc)

/-- record actions that cannot change the schema or its description in the metadata -/
def DocAction.neutral : DocAction → Prop
  | .bulkAdd t _ _ => t ≠ "_grist_Tables" ∧ t ≠ "_grist_Tables_column"
  | .bulkRemove t _ => t ≠ "_grist_Tables" ∧ t ≠ "_grist_Tables_column"
  | .replaceData t _ _ => t ≠ "_grist_Tables" ∧ t ≠ "_grist_Tables_column"
  | .bulkUpdate t _ cols =>
    (t = "_grist_Tables" → ∀ cv ∈ cols, cv.1 ∉ tableFields) ∧
    (t = "_grist_Tables_column" → ∀ cv ∈ cols, cv.1 ∉ columnFields)
  | _ => False

theorem post_neutral {d : Doc} {a : DocAction} {D : Doc} {U : List DocAction} (hwf : WF d)
    (hne : a.neutral) (hc : SchemaConsistent d) (h : Post d a D U) : SchemaConsistent D := by
  cases a with
  | bulkAdd t rows cols =>
    obtain ⟨tb, tb2, hf, _, hw, rfl, rfl⟩ := h
    have htb := hwf.table hf
    have hid := (findTable?_some hf).1
    rw [writeCols_ok_iff (tb := { tb with rows := insertRows (rows.filter (· != 0)) tb.rows })
      htb.1] at hw
    obtain ⟨_, rfl⟩ := hw
    exact schemaConsistent_replaceTable hf hid
      (infoOf?_written { tb with rows := insertRows (rows.filter (· != 0)) tb.rows } rows cols)
      (fun h => absurd h hne.1) (fun h => absurd h hne.2) hc
  | bulkRemove t rows =>
    obtain ⟨tb, hf, ⟨_, rfl, rfl⟩ | ⟨_, rfl, rfl⟩⟩ := h
    · exact hc
    · have hid := (findTable?_some hf).1
      exact schemaConsistent_replaceTable hf hid
        (infoOf?_of_map (Col.unsetRows _) (fun _ => rfl) (fun _ => rfl) rfl)
        (fun h => absurd h hne.1) (fun h => absurd h hne.2) hc
  | bulkUpdate t rows cols =>
    obtain ⟨tb, tb', hf, _, _, hw, rfl, rfl⟩ := h
    have htb := hwf.table hf
    have hid := (findTable?_some hf).1
    rw [writeCols_ok_iff htb.1] at hw
    obtain ⟨_, rfl⟩ := hw
    exact schemaConsistent_replaceTable hf hid (infoOf?_written tb rows cols)
      (fun h => fieldsAgree_written tb rows (hne.1 h))
      (fun h => fieldsAgree_written tb rows (hne.2 h)) hc
  | replaceData t rows cols =>
    obtain ⟨tb, tb2, hf, hw, rfl, rfl⟩ := h
    have htb := hwf.table hf
    have hid := (findTable?_some hf).1
    have hnd : ((tb.cleared (insertRows (rows.filter (· != 0)) [])).cols.map (·.id)).Nodup := by
      simp only [Table.cleared, List.map_map]
      exact htb.1
    rw [writeCols_ok_iff hnd] at hw
    obtain ⟨_, rfl⟩ := hw
    refine schemaConsistent_replaceTable hf hid ?_
      (fun h => absurd h hne.1) (fun h => absurd h hne.2) hc
    intro c
    rw [← infoOf?_written]
    exact infoOf?_of_map Col.clear (fun _ => rfl) (fun _ => rfl) rfl c
  | addColumn t c info => exact hne.elim
  | removeColumn t c => exact hne.elim
  | renameColumn t old new => exact hne.elim
  | modifyColumn t c p => exact hne.elim
  | addTable t cols => exact hne.elim
  | removeTable t => exact hne.elim
  | renameTable old new => exact hne.elim

end Grist.Doc
