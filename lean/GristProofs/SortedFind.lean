/-
Helper development for C14 (GristProps/C14.lean): binary search over a prefix-closed predicate,
the component order behind `cmp1`, lexicographic lemmas about `keyLtLoop`, insertion sort.
-/
import GristModel.SortedFind
set_option linter.unusedSimpArgs false
set_option linter.unusedVariables false
namespace Grist.SortedFind

/-! ### A. the two bisect loops compute the boundary of a prefix-closed predicate -/

theorem bisectLeft_eq {α β : Type} (lt : β → β → Bool) (key : α → β) (a : List α) (x : β) (k : Nat)
    (hp : ∀ i (h : i < a.length), lt (key a[i]) x = decide (i < k))
    (lo hi : Nat) (h1 : lo ≤ k) (h2 : k ≤ hi) (h3 : hi ≤ a.length) :
    bisectLeft lt key a x lo hi = k := by
  fun_induction bisectLeft lt key a x lo hi with
  | case1 lo hi hlt mid hnone =>
    have : mid < a.length := by omega
    simp at hnone; omega
  | case2 lo hi hlt mid e he hc ih =>
    have hm : mid < a.length := by omega
    have hk := hp mid hm
    rw [List.getElem?_eq_getElem hm] at he
    rw [Option.some.inj he, hc] at hk
    have : mid < k := by simpa using hk.symm
    exact ih (by omega) h2 h3
  | case3 lo hi hlt mid e he hc ih =>
    have hm : mid < a.length := by omega
    have hk := hp mid hm
    rw [List.getElem?_eq_getElem hm] at he
    rw [Option.some.inj he] at hk
    have : ¬ mid < k := by
      intro hlt'; rw [decide_eq_true hlt'] at hk; exact hc hk
    exact ih h1 (by omega) (by omega)
  | case4 lo hi hnot => omega

theorem bisectRight_eq {α β : Type} (lt : β → β → Bool) (key : α → β) (a : List α) (x : β) (k : Nat)
    (hp : ∀ i (h : i < a.length), (!lt x (key a[i])) = decide (i < k))
    (lo hi : Nat) (h1 : lo ≤ k) (h2 : k ≤ hi) (h3 : hi ≤ a.length) :
    bisectRight lt key a x lo hi = k := by
  fun_induction bisectRight lt key a x lo hi with
  | case1 lo hi hlt mid hnone =>
    have : mid < a.length := by omega
    simp at hnone; omega
  | case2 lo hi hlt mid e he hc ih =>
    have hm : mid < a.length := by omega
    have hk := hp mid hm
    rw [List.getElem?_eq_getElem hm] at he
    rw [Option.some.inj he, hc] at hk
    have : ¬ mid < k := by
      intro hlt'; rw [decide_eq_true hlt'] at hk; simp at hk
    exact ih h1 (by omega) (by omega)
  | case3 lo hi hlt mid e he hc ih =>
    have hm : mid < a.length := by omega
    have hk := hp mid hm
    rw [List.getElem?_eq_getElem hm] at he
    rw [Option.some.inj he] at hk
    have hf : lt x (key e) = false := by simpa using hc
    rw [hf] at hk
    have : mid < k := by simpa using hk.symm
    exact ih (by omega) h2 h3
  | case4 lo hi hnot => omega

/-! ### B. a predicate that is downward closed along a list holds exactly on a prefix -/

section prefixPred
variable {α : Type} (p : α → Bool)

theorem countP_zero_of_head_false {a : α} {t : List α}
    (h : ∀ b ∈ t, p b = true → p a = true) (ha : p a = false) : t.countP p = 0 := by
  rw [List.countP_eq_zero]
  intro b hb hpb
  have := h b hb hpb
  rw [ha] at this; exact absurd this (by simp)

theorem prefix_getElem {l : List α} (h : l.Pairwise (fun a b => p b = true → p a = true)) :
    ∀ i (hi : i < l.length), p l[i] = decide (i < l.countP p) := by
  induction l with
  | nil => intro i hi; simp at hi
  | cons a t ih =>
    rw [List.pairwise_cons] at h
    intro i hi
    cases hpa : p a with
    | false =>
      have h0 := countP_zero_of_head_false p h.1 hpa
      have hall : ∀ b ∈ t, p b = false := by
        intro b hb
        cases hpb : p b with
        | false => rfl
        | true => have := h.1 b hb hpb; rw [hpa] at this; exact absurd this (by simp)
      have hc : (a :: t).countP p = 0 := by simp [List.countP_cons, hpa, h0]
      rw [hc]
      cases i with
      | zero => simp [hpa]
      | succ j =>
        simp only [List.getElem_cons_succ]
        rw [hall _ (List.getElem_mem _)]; simp
    | true =>
      have hc : (a :: t).countP p = t.countP p + 1 := by simp [List.countP_cons, hpa]
      rw [hc]
      cases i with
      | zero => simp [hpa]
      | succ j =>
        simp only [List.getElem_cons_succ]
        rw [ih h.2 j (by simpa using hi)]
        simp

theorem prefix_filter {l : List α} (h : l.Pairwise (fun a b => p b = true → p a = true)) :
    l.filter p = l.take (l.countP p) := by
  induction l with
  | nil => simp
  | cons a t ih =>
    rw [List.pairwise_cons] at h
    cases hpa : p a with
    | false =>
      have h0 := countP_zero_of_head_false p h.1 hpa
      have hf : t.filter p = [] := by
        rw [List.filter_eq_nil_iff]
        intro b hb hpb
        have := h.1 b hb hpb; rw [hpa] at this; exact absurd this (by simp)
      simp [List.filter_cons, List.countP_cons, hpa, h0, hf]
    | true =>
      simp [List.filter_cons, List.countP_cons, hpa, ih h.2]

theorem prefix_find_not {l : List α} (h : l.Pairwise (fun a b => p b = true → p a = true)) :
    l.find? (fun e => !p e) = l[l.countP p]? := by
  induction l with
  | nil => simp
  | cons a t ih =>
    rw [List.pairwise_cons] at h
    cases hpa : p a with
    | false =>
      have h0 := countP_zero_of_head_false p h.1 hpa
      simp [List.find?_cons, List.countP_cons, hpa, h0]
    | true =>
      simp [List.find?_cons, List.countP_cons, hpa, ih h.2]

theorem prefix_last {l : List α} (h : l.Pairwise (fun a b => p b = true → p a = true)) :
    (l.filter p).getLast? = if l.countP p = 0 then none else l[l.countP p - 1]? := by
  rw [prefix_filter p h]
  have hle : l.countP p ≤ l.length := List.countP_le_length
  generalize l.countP p = k at hle
  cases k with
  | zero => simp
  | succ k =>
    simp only [Nat.add_one_ne_zero, if_false, Nat.add_sub_cancel]
    rw [List.getLast?_eq_getElem?]
    simp [List.length_take, Nat.min_eq_left hle, List.getElem?_take]

end prefixPred

/-! ### C. the order behind one loop iteration (`cmp1`) -/

/-- type class of a value under the SortKey order: None, number (numeric value), str -/
inductive NV where
  | none
  | num (i : Int)
  | str (s : String)

def norm : Val → NV
  | .none => .none
  | .bool b => .num (if b then 1 else 0)
  | .int i => .num i
  | .str s => .str s

/-- ascending strict order: None < numbers (numerically) < str (code points) -/
def nlt : NV → NV → Bool
  | .none, .none => false
  | .none, _ => true
  | .num _, .none => false
  | .num x, .num y => decide (x < y)
  | .num _, .str _ => true
  | .str _, .none => false
  | .str _, .num _ => false
  | .str s, .str t => decide (s < t)

theorem nlt_irrefl (a : NV) : nlt a a = false := by
  cases a <;> simp [nlt]

theorem nlt_asymm {a b : NV} (h : nlt a b = true) : nlt b a = false := by
  cases a <;> cases b <;> simp_all [nlt]
  · omega
  · exact String.not_lt.mp (String.lt_asymm h)

theorem nlt_negtrans {a b c : NV} (h1 : nlt a b = false) (h2 : nlt b c = false) : nlt a c = false := by
  cases a <;> cases b <;> cases c <;> simp_all [nlt]
  · omega
  · exact String.le_trans h2 h1

/-- the component order with the '-' flag applied -/
def clt (desc : Bool) (a b : Val) : Bool :=
  if desc then nlt (norm b) (norm a) else nlt (norm a) (norm b)

theorem clt_irrefl (d : Bool) (a : Val) : clt d a a = false := by
  cases d <;> simp [clt, nlt_irrefl]

theorem clt_asymm {d : Bool} {a b : Val} (h : clt d a b = true) : clt d b a = false := by
  cases d <;> simp_all [clt] <;> exact nlt_asymm h

theorem clt_negtrans {d : Bool} {a b c : Val} (h1 : clt d a b = false) (h2 : clt d b c = false) :
    clt d a c = false := by
  cases d <;> simp_all [clt]
  · exact nlt_negtrans h1 h2
  · exact nlt_negtrans h2 h1

/-- `a < x` and `x ≤ b`... the usual consequences of a strict weak order -/
theorem clt_of_clt_of_not {d : Bool} {a b c : Val} (h1 : clt d a b = true) (h2 : clt d c b = false) :
    clt d a c = true := by
  cases h : clt d a c with
  | true => rfl
  | false => have := clt_negtrans h h2; rw [h1] at this; exact absurd this (by simp)

theorem clt_of_not_of_clt {d : Bool} {a b c : Val} (h1 : clt d b a = false) (h2 : clt d b c = true) :
    clt d a c = true := by
  cases h : clt d a c with
  | true => rfl
  | false => have := clt_negtrans h1 h; rw [h2] at this; exact absurd this (by simp)

/-- `cmp1` decides by the component order. -/
theorem cmp1_eq (d : Bool) (a b : Val) :
    cmp1 d a b = if clt d a b then some true else if clt d b a then some false else none := by
  rcases a with _ | ⟨_ | _⟩ | i | s <;> rcases b with _ | ⟨_ | _⟩ | j | t <;> cases d <;>
    simp [cmp1, pyLt, Val.num?, fallback, tupLt, typeName, clt, norm, nlt]
  all_goals ((repeat' split) <;> simp_all <;> try omega)
  all_goals exact String.lt_asymm ‹s < t› ‹t < s›

theorem clt_congr {d : Bool} {a b : Val} (h1 : clt d a b = false) (h2 : clt d b a = false) (x : Val) :
    clt d a x = clt d b x ∧ clt d x a = clt d x b := by
  constructor
  · cases hax : clt d a x <;> cases hbx : clt d b x <;> try rfl
    · have := clt_of_not_of_clt h2 hbx; rw [hax] at this; exact absurd this (by simp)
    · have := clt_of_not_of_clt h1 hax; rw [hbx] at this; exact absurd this (by simp)
  · cases hxa : clt d x a <;> cases hxb : clt d x b <;> try rfl
    · have := clt_of_clt_of_not hxb h1; rw [hxa] at this; exact absurd this (by simp)
    · have := clt_of_clt_of_not hxa h2; rw [hxb] at this; exact absurd this (by simp)

/-! ### D. the loop of `SortKey.__lt__` -/

theorem loop_cons (d : Bool) (spec : List Bool) (a b : Val) (as bs : List Val) :
    keyLtLoop (a :: as) (b :: bs) (d :: spec) =
      if clt d a b then some true else if clt d b a then some false else keyLtLoop as bs spec := by
  rw [keyLtLoop, cmp1_eq]
  cases clt d a b <;> cases clt d b a <;> simp

theorem loop_nil_left (bs : List Val) (spec : List Bool) : keyLtLoop [] bs spec = none := by
  simp [keyLtLoop]

theorem loop_nil_right (as : List Val) (spec : List Bool) : keyLtLoop as [] spec = none := by
  cases as <;> simp [keyLtLoop]

theorem loop_nil_spec (as bs : List Val) : keyLtLoop as bs [] = none := by
  cases as <;> cases bs <;> simp [keyLtLoop]

theorem loop_self (spec : List Bool) : ∀ a : List Val, keyLtLoop a a spec = none := by
  induction spec with
  | nil => intro a; exact loop_nil_spec a a
  | cons d spec ih =>
    intro a
    cases a with
    | nil => exact loop_nil_left _ _
    | cons a0 as => rw [loop_cons]; simp [clt_irrefl, ih]

theorem loop_swap (spec : List Bool) : ∀ a b : List Val,
    keyLtLoop b a spec = (keyLtLoop a b spec).map (fun r => !r) := by
  induction spec with
  | nil => intro a b; simp [loop_nil_spec]
  | cons d spec ih =>
    intro a b
    cases a with
    | nil => simp [loop_nil_left, loop_nil_right]
    | cons a0 as =>
      cases b with
      | nil => simp [loop_nil_left, loop_nil_right]
      | cons b0 bs =>
        rw [loop_cons, loop_cons]
        cases hab : clt d a0 b0 with
        | true => simp [clt_asymm hab]
        | false =>
          cases hba : clt d b0 a0 with
          | true => simp
          | false => simpa using ih as bs

/-- Monotonicity of a comparison against a third value list `x` of ANY length: if `a ≤ b`
    component-wise-lexicographically and `a`, `b` have the same length, then `b ≤ x → a ≤ x` and
    `b < x → a < x` (all on the zipped prefix). -/
theorem loop_mono (spec : List Bool) : ∀ a b x : List Val, a.length = b.length →
    keyLtLoop a b spec ≠ some false →
    (keyLtLoop b x spec ≠ some false → keyLtLoop a x spec ≠ some false) ∧
    (keyLtLoop b x spec = some true → keyLtLoop a x spec = some true) := by
  induction spec with
  | nil => intro a b x _ _; simp [loop_nil_spec]
  | cons d spec ih =>
    intro a b x hlen hab
    cases a with
    | nil => simp [loop_nil_left]
             cases b with
             | nil => simp [loop_nil_left]
             | cons _ _ => simp at hlen
    | cons a0 as =>
      cases b with
      | nil => simp at hlen
      | cons b0 bs =>
        cases x with
        | nil => simp [loop_nil_right]
        | cons x0 xs =>
          rw [loop_cons] at hab
          rw [loop_cons, loop_cons]
          cases h1 : clt d a0 b0 with
          | true =>
            -- a0 < b0: as soon as ¬ x0 < b0 we get a0 < x0
            have key : clt d x0 b0 = false → clt d a0 x0 = true := fun h => clt_of_clt_of_not h1 h
            constructor
            · intro hbx
              cases h3 : clt d x0 b0 with
              | false => simp [key h3]
              | true => simp [clt_asymm h3, h3] at hbx
            · intro hbx
              cases h3 : clt d x0 b0 with
              | false => simp [key h3]
              | true => simp [clt_asymm h3, h3] at hbx
          | false =>
            cases h2 : clt d b0 a0 with
            | true => simp [h1, h2] at hab
            | false =>
              simp only [h1, h2, Bool.false_eq_true, if_false] at hab
              obtain ⟨e1, e2⟩ := clt_congr h1 h2 x0
              rw [e1, e2]
              have hlen' : as.length = bs.length := by simpa using hlen
              obtain ⟨i1, i2⟩ := ih as bs xs hlen' hab
              cases clt d b0 x0 with
              | true => simp
              | false =>
                cases clt d x0 b0 with
                | true => simp
                | false => simpa using ⟨i1, i2⟩

/-! ### E. `SortKey.__lt__` on keys -/

theorem RowId.lt_irrefl (a : RowId) : a.lt a = false := by
  cases a <;> simp [RowId.lt]

theorem RowId.lt_asymm {a b : RowId} (h : a.lt b = true) : b.lt a = false := by
  cases a <;> cases b <;> simp_all [RowId.lt]; omega

theorem RowId.lt_trans {a b c : RowId} (h1 : a.lt b = true) (h2 : b.lt c = true) : a.lt c = true := by
  cases a <;> cases b <;> cases c <;> simp_all [RowId.lt]; omega

theorem RowId.lt_negtrans {a b c : RowId} (h1 : a.lt b = false) (h2 : b.lt c = false) :
    a.lt c = false := by
  cases a <;> cases b <;> cases c <;> simp_all [RowId.lt]; omega

theorem RowId.lt_total {m n : Nat} (h : m ≠ n) : (RowId.id m).lt (.id n) = true ∨ (RowId.id n).lt (.id m) = true := by
  simp [RowId.lt]; omega

theorem keyLt_true_iff (spec : List Bool) (x y : Key) :
    keyLt spec x y = true ↔ keyLtLoop x.values y.values spec = some true ∨
      (keyLtLoop x.values y.values spec = none ∧ x.rowId.lt y.rowId = true) := by
  unfold keyLt
  rcases keyLtLoop x.values y.values spec with _ | _ | _ <;> simp

theorem keyLt_false_iff (spec : List Bool) (x y : Key) :
    keyLt spec x y = false ↔ keyLtLoop x.values y.values spec = some false ∨
      (keyLtLoop x.values y.values spec = none ∧ x.rowId.lt y.rowId = false) := by
  unfold keyLt
  rcases keyLtLoop x.values y.values spec with _ | _ | _ <;> simp

theorem loop_swap_true {spec : List Bool} {a b : List Val} (h : keyLtLoop a b spec = some true) :
    keyLtLoop b a spec = some false := by rw [loop_swap, h]; rfl

theorem loop_swap_false {spec : List Bool} {a b : List Val} (h : keyLtLoop a b spec = some false) :
    keyLtLoop b a spec = some true := by rw [loop_swap, h]; rfl

theorem loop_swap_none {spec : List Bool} {a b : List Val} (h : keyLtLoop a b spec = none) :
    keyLtLoop b a spec = none := by rw [loop_swap, h]; rfl

/-- `a ≤ b` and `b < c` give `a < c` (a, b of equal length, c of any length) -/
theorem loop_le_lt {spec : List Bool} {a b c : List Val} (hl : a.length = b.length)
    (h1 : keyLtLoop a b spec ≠ some false) (h2 : keyLtLoop b c spec = some true) :
    keyLtLoop a c spec = some true := (loop_mono spec a b c hl h1).2 h2

/-- `a < b` and `b ≤ c` give `a < c` (equal lengths) -/
theorem loop_lt_le {spec : List Bool} {a b c : List Val} (hl : a.length = b.length)
    (hl' : b.length = c.length)
    (h1 : keyLtLoop a b spec = some true) (h2 : keyLtLoop b c spec ≠ some false) :
    keyLtLoop a c spec = some true := by
  rcases hac : keyLtLoop a c spec with _ | _ | _
  · have hca := loop_swap_none hac
    have := loop_le_lt (spec := spec) (a := c) (b := a) (c := b) (by omega) (by rw [hca]; simp) h1
    exact absurd (loop_swap_true this) h2
  · have hca := loop_swap_false hac
    have := loop_le_lt (spec := spec) (a := c) (b := a) (c := b) (by omega) (by rw [hca]; simp) h1
    exact absurd (loop_swap_true this) h2
  · rfl

theorem loop_eq_eq {spec : List Bool} {a b c : List Val} (hl : a.length = b.length)
    (hl' : b.length = c.length)
    (h1 : keyLtLoop a b spec = none) (h2 : keyLtLoop b c spec = none) :
    keyLtLoop a c spec = none := by
  have p1 := (loop_mono spec a b c hl (by rw [h1]; simp)).1 (by rw [h2]; simp)
  have p2 := (loop_mono spec c b a (by omega) (by rw [loop_swap_none h2]; simp)).1
    (by rw [loop_swap_none h1]; simp)
  rcases hac : keyLtLoop a c spec with _ | _ | _
  · rfl
  · exact absurd hac p1
  · exact absurd (loop_swap_true hac) p2

theorem keyLt_irrefl (spec : List Bool) (x : Key) : keyLt spec x x = false := by
  rw [keyLt_false_iff]; right; exact ⟨loop_self spec _, RowId.lt_irrefl _⟩

theorem keyLt_asymm {spec : List Bool} {x y : Key} (h : keyLt spec x y = true) :
    keyLt spec y x = false := by
  rw [keyLt_true_iff] at h
  rw [keyLt_false_iff]
  rcases h with h | ⟨h, hr⟩
  · left; exact loop_swap_true h
  · right; exact ⟨loop_swap_none h, RowId.lt_asymm hr⟩

theorem keyLt_trans {spec : List Bool} {x y z : Key} (hl : x.values.length = y.values.length)
    (hl' : y.values.length = z.values.length)
    (h1 : keyLt spec x y = true) (h2 : keyLt spec y z = true) : keyLt spec x z = true := by
  rw [keyLt_true_iff] at h1 h2 ⊢
  rcases h1 with h1 | ⟨h1, r1⟩ <;> rcases h2 with h2 | ⟨h2, r2⟩
  · left; exact loop_lt_le hl hl' h1 (by rw [h2]; simp)
  · left; exact loop_lt_le hl hl' h1 (by rw [h2]; simp)
  · left; exact loop_le_lt hl (by rw [h1]; simp) h2
  · right; exact ⟨loop_eq_eq hl hl' h1 h2, RowId.lt_trans r1 r2⟩

theorem keyLt_negtrans {spec : List Bool} {x y z : Key} (hl : x.values.length = y.values.length)
    (hl' : y.values.length = z.values.length)
    (h1 : keyLt spec x y = false) (h2 : keyLt spec y z = false) : keyLt spec x z = false := by
  rw [keyLt_false_iff] at h1 h2 ⊢
  rcases h1 with h1 | ⟨h1, r1⟩ <;> rcases h2 with h2 | ⟨h2, r2⟩
  · left
    exact loop_swap_true (loop_lt_le (by omega) (by omega) (loop_swap_false h2)
      (by rw [loop_swap_false h1]; simp))
  · left
    exact loop_swap_true (loop_le_lt (by omega) (by rw [loop_swap_none h2]; simp) (loop_swap_false h1))
  · left
    exact loop_swap_true (loop_lt_le (by omega) (by omega) (loop_swap_false h2)
      (by rw [loop_swap_none h1]; simp))
  · right; exact ⟨loop_eq_eq hl hl' h1 h2, RowId.lt_negtrans r1 r2⟩

/-- two keys with different real row ids are always ordered one way or the other -/
theorem keyLt_total {spec : List Bool} {m n : Nat} (h : m ≠ n) (a b : List Val) :
    keyLt spec ⟨.id m, a⟩ ⟨.id n, b⟩ = true ∨ keyLt spec ⟨.id n, b⟩ ⟨.id m, a⟩ = true := by
  rcases hab : keyLtLoop a b spec with _ | _ | _
  · rcases RowId.lt_total h with r | r
    · left; rw [keyLt_true_iff]; right; exact ⟨hab, r⟩
    · right; rw [keyLt_true_iff]; right; exact ⟨loop_swap_none hab, r⟩
  · right; rw [keyLt_true_iff]; left; exact loop_swap_false hab
  · left; rw [keyLt_true_iff]; left; exact hab

/-- A strict weak order on the part `S` of a type: irreflexive, transitive, and incomparability
    ("neither before the other") is transitive. -/
structure StrictWeakOrderOn {β : Type} (S : β → Prop) (lt : β → β → Bool) : Prop where
  irrefl : ∀ a, S a → lt a a = false
  trans : ∀ a b c, S a → S b → S c → lt a b = true → lt b c = true → lt a c = true
  incomp_trans : ∀ a b c, S a → S b → S c → lt a b = false → lt b a = false →
    lt b c = false → lt c b = false → lt a c = false ∧ lt c a = false

/-- the form used by the searches: "not before" is transitive -/
theorem StrictWeakOrderOn.negtrans {β : Type} {S : β → Prop} {lt : β → β → Bool}
    (h : StrictWeakOrderOn S lt) {a b c : β} (ha : S a) (hb : S b) (hc : S c)
    (h1 : lt a b = false) (h2 : lt b c = false) : lt a c = false := by
  cases hac : lt a c with
  | false => rfl
  | true =>
    -- b is not below a (else b < a < c), and c is not below b (else a < c < b)
    have hba : lt b a = false := by
      cases hba : lt b a with
      | false => rfl
      | true => have := h.trans b a c hb ha hc hba hac; rw [h2] at this; exact absurd this (by simp)
    have hcb : lt c b = false := by
      cases hcb : lt c b with
      | false => rfl
      | true => have := h.trans a c b ha hc hb hac hcb; rw [h1] at this; exact absurd this (by simp)
    have := (h.incomp_trans a b c ha hb hc h1 hba h2 hcb).1
    rw [hac] at this; exact absurd this (by simp)

/-! ### F. `sorted()` (insertion sort) -/

theorem insertSorted_perm {α : Type} (lt : α → α → Bool) (x : α) :
    ∀ l : List α, (insertSorted lt x l).Perm (x :: l) := by
  intro l
  induction l with
  | nil => simp [insertSorted]
  | cons y ys ih =>
    simp only [insertSorted]
    split
    · exact List.Perm.refl _
    · exact (List.Perm.cons y ih).trans (List.Perm.swap x y ys)

theorem pySorted_perm {α : Type} (lt : α → α → Bool) : ∀ l : List α, (pySorted lt l).Perm l := by
  intro l
  induction l with
  | nil => simp [pySorted]
  | cons x l ih =>
    have : pySorted lt (x :: l) = insertSorted lt x (pySorted lt l) := by simp [pySorted]
    rw [this]
    exact (insertSorted_perm lt x _).trans (List.Perm.cons x ih)

theorem insertSorted_pairwise {α : Type} (lt : α → α → Bool) (x : α) : ∀ l : List α,
    (∀ a b c, a ∈ x :: l → b ∈ x :: l → c ∈ x :: l → lt a b = true → lt b c = true → lt a c = true) →
    (∀ a b, a ∈ x :: l → b ∈ x :: l → lt a b = true → lt b a = false) →
    l.Pairwise (fun a b => lt b a = false) →
    (insertSorted lt x l).Pairwise (fun a b => lt b a = false) := by
  intro l
  induction l with
  | nil => intro _ _ _; simp [insertSorted]
  | cons y ys ih =>
    intro htr has hs
    rw [List.pairwise_cons] at hs
    simp only [insertSorted]
    split
    · rename_i hxy
      rw [List.pairwise_cons]
      refine ⟨?_, List.pairwise_cons.mpr hs⟩
      intro b hb
      rcases List.mem_cons.mp hb with rfl | hb'
      · exact has x b (by simp) (by simp) hxy
      · cases hbx : lt b x with
        | false => rfl
        | true =>
          have := htr b x y (by simp [hb']) (by simp) (by simp) hbx hxy
          rw [hs.1 b hb'] at this; exact absurd this (by simp)
    · rename_i hxy
      rw [List.pairwise_cons]
      constructor
      · intro b hb
        have hb' : b ∈ x :: ys := (insertSorted_perm lt x ys).mem_iff.mp hb
        rcases List.mem_cons.mp hb' with rfl | hb''
        · simpa using hxy
        · exact hs.1 b hb''
      · apply ih
        · intro a b c ha hb hc
          exact htr a b c (by rcases List.mem_cons.mp ha with h | h <;> simp [h])
            (by rcases List.mem_cons.mp hb with h | h <;> simp [h])
            (by rcases List.mem_cons.mp hc with h | h <;> simp [h])
        · intro a b ha hb
          exact has a b (by rcases List.mem_cons.mp ha with h | h <;> simp [h])
            (by rcases List.mem_cons.mp hb with h | h <;> simp [h])
        · exact hs.2

theorem pySorted_pairwise {α : Type} (lt : α → α → Bool) : ∀ l : List α,
    (∀ a b c, a ∈ l → b ∈ l → c ∈ l → lt a b = true → lt b c = true → lt a c = true) →
    (∀ a b, a ∈ l → b ∈ l → lt a b = true → lt b a = false) →
    (pySorted lt l).Pairwise (fun a b => lt b a = false) := by
  intro l
  induction l with
  | nil => intro _ _; simp [pySorted]
  | cons x l ih =>
    intro htr has
    have e : pySorted lt (x :: l) = insertSorted lt x (pySorted lt l) := by simp [pySorted]
    rw [e]
    have hm : ∀ a, a ∈ x :: pySorted lt l → a ∈ x :: l := by
      intro a ha
      rcases List.mem_cons.mp ha with h | h
      · simp [h]
      · exact List.mem_cons_of_mem _ ((pySorted_perm lt l).mem_iff.mp h)
    apply insertSorted_pairwise
    · intro a b c ha hb hc; exact htr a b c (hm a ha) (hm b hb) (hm c hc)
    · intro a b ha hb; exact has a b (hm a ha) (hm b hb)
    · apply ih
      · intro a b c ha hb hc
        exact htr a b c (List.mem_cons_of_mem _ ha) (List.mem_cons_of_mem _ hb) (List.mem_cons_of_mem _ hc)
      · intro a b ha hb; exact has a b (List.mem_cons_of_mem _ ha) (List.mem_cons_of_mem _ hb)

/-! ### G. bisecting with an element's own key in a strictly sorted list finds its index -/

theorem own_index {α β : Type} (lt : β → β → Bool) (key : α → β) (l : List α)
    (hirr : ∀ a ∈ l, lt (key a) (key a) = false)
    (hasym : ∀ a ∈ l, ∀ b ∈ l, lt (key a) (key b) = true → lt (key b) (key a) = false)
    (hs : l.Pairwise (fun a b => lt (key a) (key b) = true)) (i : Nat) (hi : i < l.length) :
    bisectLeft lt key l (key l[i]) 0 l.length = i ∧
    bisectRight lt key l (key l[i]) 0 l.length = i + 1 := by
  rw [List.pairwise_iff_getElem] at hs
  constructor
  · apply bisectLeft_eq lt key l (key l[i]) i _ 0 l.length (by omega) (by omega) (by omega)
    intro j hj
    by_cases hji : j < i
    · simp [hji, hs j i hj hi hji]
    · by_cases hij : i < j
      · have := hasym _ (List.getElem_mem hi) _ (List.getElem_mem hj) (hs i j hi hj hij)
        simp [hji, this]
      · have : j = i := by omega
        subst this
        simp [hirr _ (List.getElem_mem hj)]
  · apply bisectRight_eq lt key l (key l[i]) (i + 1) _ 0 l.length (by omega) (by omega) (by omega)
    intro j hj
    by_cases hji : j < i
    · have := hasym _ (List.getElem_mem hj) _ (List.getElem_mem hi) (hs j i hj hi hji)
      simp [this]; omega
    · by_cases hij : i < j
      · simp [hs i j hi hj hij]; omega
      · have : j = i := by omega
        subst this
        simp [hirr _ (List.getElem_mem hj)]

/-! ### H. glue between the record-set operations and the lemmas above -/

section find
variable (spec : List Bool) (rs : List Row) (vs : List Val) (n : Nat)

theorem valuesBefore_iff (a b : List Val) :
    valuesBefore spec a b = true ↔ keyLtLoop a b spec = some true := by
  unfold valuesBefore
  rw [keyLt_true_iff]
  simp [RowId.lt]

theorem keyLt_probe_min (r : Row) :
    keyLt spec (key r) ⟨.negMax, vs⟩ = valuesBefore spec r.cells vs := by
  unfold valuesBefore keyLt key
  rcases keyLtLoop r.cells vs spec with _ | _ | _ <;> simp [RowId.lt]

theorem keyLt_probe_max (r : Row) :
    keyLt spec ⟨.posMax, vs⟩ (key r) = valuesBefore spec vs r.cells := by
  unfold valuesBefore keyLt key
  rcases keyLtLoop vs r.cells spec with _ | _ | _ <;> simp [RowId.lt]

theorem keyLt_same_id (i : Nat) (a b : List Val) :
    keyLt spec ⟨.id i, a⟩ ⟨.id i, b⟩ = valuesBefore spec a b := by
  unfold valuesBefore keyLt
  rcases keyLtLoop a b spec with _ | _ | _ <;> simp [RowId.lt]

/-- along a sorted record set, "strictly before the search values" is downward closed -/
theorem mono_before (hlen : ∀ r ∈ rs, r.cells.length = n)
    (hs : rs.Pairwise (fun a b => keyLt spec (key b) (key a) = false)) :
    rs.Pairwise (fun a b => valuesBefore spec b.cells vs = true → valuesBefore spec a.cells vs = true) := by
  refine List.Pairwise.imp_of_mem ?_ hs
  intro a b ha hb hba hb'
  rw [valuesBefore_iff] at hb' ⊢
  have hab : keyLtLoop a.cells b.cells spec ≠ some false := by
    intro h
    have := loop_swap_false h
    rw [keyLt_false_iff] at hba
    simp [key, this] at hba
  exact loop_le_lt (by rw [hlen a ha, hlen b hb]) hab hb'

/-- ... and so is "not after the search values" -/
theorem mono_not_after (hlen : ∀ r ∈ rs, r.cells.length = n)
    (hs : rs.Pairwise (fun a b => keyLt spec (key b) (key a) = false)) :
    rs.Pairwise (fun a b => (!valuesBefore spec vs b.cells) = true →
      (!valuesBefore spec vs a.cells) = true) := by
  refine List.Pairwise.imp_of_mem ?_ hs
  intro a b ha hb hba hb'
  have hab : keyLtLoop a.cells b.cells spec ≠ some false := by
    intro h
    have := loop_swap_false h
    rw [keyLt_false_iff] at hba
    simp [key, this] at hba
  have hb'' : keyLtLoop b.cells vs spec ≠ some false := by
    intro h
    have := (valuesBefore_iff spec vs b.cells).mpr (loop_swap_false h)
    simp [this] at hb'
  have := (loop_mono spec a.cells b.cells vs (by rw [hlen a ha, hlen b hb]) hab).1 hb''
  cases hva : valuesBefore spec vs a.cells with
  | false => rfl
  | true =>
    exact absurd (loop_swap_true ((valuesBefore_iff spec vs a.cells).mp hva)) this

theorem atIndex_pred (k : Nat) (hk : k ≤ rs.length) :
    atIndex rs ((k : Int) + (-1)) = if k = 0 then none else rs[k - 1]? := by
  unfold atIndex
  cases k with
  | zero => simp
  | succ k =>
    have h1 : ((k + 1 : Nat) : Int) + (-1) = (k : Int) := by omega
    rw [h1]
    have : (0 : Int) ≤ k ∧ (k : Int) < rs.length := by omega
    simp [this]

theorem atIndex_nat (k : Nat) : atIndex rs ((k : Int) + 0) = rs[k]? := by
  unfold atIndex
  by_cases h : k < rs.length
  · have : (0 : Int) ≤ k ∧ (k : Int) < rs.length := by omega
    simp [this]
  · have : ¬ ((0 : Int) ≤ k ∧ (k : Int) < rs.length) := by omega
    have h' : rs.length ≤ k := by omega
    simp [this, List.getElem?_eq_none h']

theorem getSortKey_ok (h : spec ≠ []) : getSortKey spec = .ok () := by
  unfold getSortKey; cases spec with
  | nil => exact absurd rfl h
  | cons _ _ => rfl

theorem probeKey_ok (rid : RowId) (h : vs ≠ []) : probeKey rid vs = .ok ⟨rid, vs⟩ := by
  unfold probeKey; cases vs with
  | nil => exact absurd rfl h
  | cons _ _ => rfl

theorem bisectLeft_probe (hlen : ∀ r ∈ rs, r.cells.length = n)
    (hs : rs.Pairwise (fun a b => keyLt spec (key b) (key a) = false)) :
    bisectLeft (keyLt spec) key rs ⟨.negMax, vs⟩ 0 rs.length =
      rs.countP (fun r => valuesBefore spec r.cells vs) := by
  apply bisectLeft_eq _ _ _ _ _ _ 0 rs.length (by omega) List.countP_le_length (by omega)
  intro i h
  rw [keyLt_probe_min]
  exact prefix_getElem (fun r => valuesBefore spec r.cells vs) (mono_before spec rs vs n hlen hs) i h

theorem bisectRight_probe (hlen : ∀ r ∈ rs, r.cells.length = n)
    (hs : rs.Pairwise (fun a b => keyLt spec (key b) (key a) = false)) :
    bisectRight (keyLt spec) key rs ⟨.posMax, vs⟩ 0 rs.length =
      rs.countP (fun r => !valuesBefore spec vs r.cells) := by
  apply bisectRight_eq _ _ _ _ _ _ 0 rs.length (by omega) List.countP_le_length (by omega)
  intro i h
  rw [keyLt_probe_max]
  exact prefix_getElem (fun r => !valuesBefore spec vs r.cells)
    (mono_not_after spec rs vs n hlen hs) i h

theorem find?_and {α : Type} {p q : α → Bool} {l : List α} {f : α}
    (h : l.find? p = some f) (hq : q f = true) : l.find? (fun x => p x && q x) = some f := by
  induction l with
  | nil => simp at h
  | cons a t ih =>
    rw [List.find?_cons] at h ⊢
    cases hpa : p a with
    | true => rw [hpa] at h; simp at h; subst h; simp [hpa, hq]
    | false => rw [hpa] at h; simp at h; simp [hpa, ih h]

end find

section pnr
variable (spec : List Bool) (tbl : List Row) (n : Nat)

theorem pyEq_refl (a : Val) : pyEq a a = true := by
  cases a <;> simp [pyEq, Val.num?]

theorem groupEq_refl : ∀ g : List Val, groupEq g g = true := by
  intro g; induction g with
  | nil => rfl
  | cons a t ih => simp [groupEq, pyEq_refl, ih]

theorem eq_of_id_eq : ∀ (l : List Row), (l.map (·.id)).Nodup →
    ∀ a ∈ l, ∀ b ∈ l, a.id = b.id → a = b := by
  intro l
  induction l with
  | nil => intro _ a ha; simp at ha
  | cons x t ih =>
    intro hnd a ha b hb hab
    simp only [List.map_cons, List.nodup_cons, List.mem_map, not_exists, not_and] at hnd
    rcases List.mem_cons.mp ha with rfl | ha' <;> rcases List.mem_cons.mp hb with rfl | hb'
    · rfl
    · exact absurd hab.symm (hnd.1 b hb')
    · exact absurd hab (hnd.1 a ha')
    · exact ih hnd.2 a ha' b hb' hab

end pnr

end Grist.SortedFind
