/-
C08 pairs, part 2: one column record `r` (of the table record `tr0` of user table `T`) is added,
changed or removed together with the matching change of `T`'s columns.
-/
import GristProofs.SchemaMetaPairs
namespace Grist.Doc

theorem spec_record_change {d d2 : Doc} {mt mc mc' : Table} {T : String} {tb tb' : Table}
    {tr0 r : Nat}
    (hs : Spec d mt mc) (htu : TUniq mt) (hcu : CUniq mc)
    (htr0 : tr0 ∈ mt.rows) (htid : tid mt tr0 = T)
    (hU : ∀ t, userTable? d2 t = if t = T then some tb' else userTable? d t)
    (hT : userTable? d T = some tb)
    (hP : ∀ x, x ≠ r → ((x ∈ mc'.rows ↔ x ∈ mc.rows) ∧
      (x ∈ mc.rows → par mc' x = par mc x ∧ colRecInfo mc' x = colRecInfo mc x)))
    (hRp : r ∈ mc.rows → par mc r = tr0) (hRp' : r ∈ mc'.rows → par mc' r = tr0)
    (hI : ∀ c i, tb'.infoOf? c = some i ↔
      (r ∈ mc'.rows ∧ colRecInfo mc' r = (c, i)) ∨
      (tb.infoOf? c = some i ∧ (r ∈ mc.rows → cid mc r ≠ c)))
    (hN : r ∈ mc'.rows → tb.infoOf? (colRecInfo mc' r).1 = none ∨
      (r ∈ mc.rows ∧ cid mc r = (colRecInfo mc' r).1)) :
    Spec d2 mt mc' ∧ CUniq mc' := by
  have hold := hs.cols tr0 htr0 tb (by rw [htid]; exact hT)
  refine ⟨⟨fun t => ?_, fun tr htr tb2 htb2 c i => ?_, fun x hx => ?_⟩, ?_⟩
  · rw [hU]
    by_cases ht : t = T
    · subst ht
      simp only [↓reduceIte, Option.isSome_some, true_iff]
      exact ⟨tr0, htr0, htid⟩
    · simp only [ht, ↓reduceIte]
      exact hs.tables t
  · rw [hU] at htb2
    by_cases ht : tid mt tr = T
    · have htr' : tr = tr0 := htu tr htr tr0 htr0 (ht.trans htid.symm)
      subst htr'
      simp only [ht, ↓reduceIte, Option.some.injEq] at htb2
      subst htb2
      rw [hI]
      constructor
      · rintro (⟨hr, hci⟩ | ⟨hinfo, hne⟩)
        · exact ⟨r, hr, hRp' hr, hci⟩
        · obtain ⟨x, hx, hpx, hcx⟩ := (hold c i).1 hinfo
          have hxr : x ≠ r := by
            intro h; subst h
            exact hne hx (by show (colRecInfo mc x).1 = c; rw [hcx])
          have := hP x hxr
          exact ⟨x, this.1.2 hx, by rw [(this.2 hx).1]; exact hpx, by rw [(this.2 hx).2]; exact hcx⟩
      · rintro ⟨x, hx, hpx, hcx⟩
        by_cases hxr : x = r
        · subst hxr; exact .inl ⟨hx, hcx⟩
        · have := hP x hxr
          have hxR := this.1.1 hx
          have hpx' : par mc x = tr := by rw [← (this.2 hxR).1]; exact hpx
          have hcx' : colRecInfo mc x = (c, i) := by rw [← (this.2 hxR).2]; exact hcx
          refine .inr ⟨(hold c i).2 ⟨x, hxR, hpx', hcx'⟩, fun hr hcid => hxr ?_⟩
          apply hcu x hxR r hr (hpx'.trans (hRp hr).symm)
          show (colRecInfo mc x).1 = cid mc r
          rw [hcx', hcid]
    · simp only [ht, ↓reduceIte] at htb2
      rw [hs.cols tr htr tb2 htb2 c i]
      have htr' : tr ≠ tr0 := fun h => ht (by rw [h]; exact htid)
      constructor
      · rintro ⟨x, hx, hpx, hcx⟩
        have hxr : x ≠ r := by
          intro h; subst h; exact htr' ((hRp hx).symm.trans hpx).symm
        have := hP x hxr
        exact ⟨x, this.1.2 hx, by rw [(this.2 hx).1]; exact hpx, by rw [(this.2 hx).2]; exact hcx⟩
      · rintro ⟨x, hx, hpx, hcx⟩
        have hxr : x ≠ r := by
          intro h; subst h; exact htr' ((hRp' hx).symm.trans hpx).symm
        have := hP x hxr
        have hxR := this.1.1 hx
        exact ⟨x, hxR, by rw [← (this.2 hxR).1]; exact hpx, by rw [← (this.2 hxR).2]; exact hcx⟩
  · by_cases hxr : x = r
    · subst hxr; rw [hRp' hx]; exact htr0
    · have := hP x hxr
      rw [(this.2 (this.1.1 hx)).1]
      exact hs.stray x (this.1.1 hx)
  · -- uniqueness of column keys
    have key : ∀ b, b ≠ r → b ∈ mc'.rows → r ∈ mc'.rows → par mc' r = par mc' b →
        cid mc' r = cid mc' b → False := by
      intro b hbr hb hr hpar hcid
      have hb' := hP b hbr
      have hbR := hb'.1.1 hb
      have hpb : par mc b = tr0 := by rw [← (hb'.2 hbR).1, ← hpar]; exact hRp' hr
      have hcb : cid mc b = (colRecInfo mc' r).1 := by
        show (colRecInfo mc b).1 = _
        rw [← (hb'.2 hbR).2]; exact hcid.symm
      have hinfo : tb.infoOf? (colRecInfo mc' r).1 = some (colRecInfo mc b).2 :=
        (hold _ _).2 ⟨b, hbR, hpb, by rw [← hcb]; rfl⟩
      rcases hN hr with h | ⟨hrR, hcr⟩
      · rw [h] at hinfo; cases hinfo
      · exact hbr (hcu b hbR r hrR (hpb.trans (hRp hrR).symm) (hcb.trans hcr.symm))
    intro a ha b hb hpar hcid
    by_cases har : a = r
    · by_cases hbr : b = r
      · rw [har, hbr]
      · subst har; exact (key b hbr hb ha hpar hcid).elim
    · by_cases hbr : b = r
      · subst hbr; exact (key a har ha hb hpar.symm hcid.symm).elim
      · have ha' := hP a har
        have hb' := hP b hbr
        have haR := ha'.1.1 ha
        have hbR := hb'.1.1 hb
        apply hcu a haR b hbR
        · rw [← (ha'.2 haR).1, ← (hb'.2 hbR).1]; exact hpar
        · show (colRecInfo mc a).1 = (colRecInfo mc b).1
          rw [← (ha'.2 haR).2, ← (hb'.2 hbR).2]; exact hcid

end Grist.Doc
