/-
C08: the paired steps of the user-action layer (schema doc action + metadata record action).
Part 1: `MetaUnique`, a membership form of `SchemaConsistent`, and the three ways a column record /
column entry pair can change (add, update, remove).
-/
import GristProofs.SchemaMetaNeutral
namespace Grist.Doc

def tid (mt : Table) (a : Nat) : String := valStr (mt.cell "tableId" a)
def par (mc : Table) (a : Nat) : Nat := valNat (mc.cell "parentId" a)
def cid (mc : Table) (a : Nat) : String := valStr (mc.cell "colId" a)

/-- one table record per `tableId` -/
def TUniq (mt : Table) : Prop := ∀ a ∈ mt.rows, ∀ b ∈ mt.rows, tid mt a = tid mt b → a = b
/-- one column record per `(parentId, colId)` -/
def CUniq (mc : Table) : Prop :=
  ∀ a ∈ mc.rows, ∀ b ∈ mc.rows, par mc a = par mc b → cid mc a = cid mc b → a = b

/-- the two metadata tables are present and their records have unique keys -/
def MetaUnique (d : Doc) : Prop :=
  ∃ mt mc, findTable? d "_grist_Tables" = some mt ∧ findTable? d "_grist_Tables_column" = some mc ∧
    TUniq mt ∧ CUniq mc

/-- no column record points to the column record `r` through `reverseCol` -/
def NoReverseRefTo (d : Doc) (r : Nat) : Prop :=
  ∀ mc, findTable? d "_grist_Tables_column" = some mc →
    ∀ x ∈ mc.rows, valNat (mc.cell "reverseCol" x) ≠ r

theorem lookupLast_map_iff {α β : Type} {l : List α} {key : α → String} {val : α → β}
    (hu : ∀ a ∈ l, ∀ b ∈ l, key a = key b → val a = val b) {k : String} {v : β} :
    lookupLast (l.map (fun x => (key x, val x))) k = some v ↔ ∃ x ∈ l, key x = k ∧ val x = v := by
  constructor
  · intro h
    obtain ⟨x, hx, he⟩ := List.mem_map.1 (lookupLast_mem h)
    simp only [Prod.mk.injEq] at he
    exact ⟨x, hx, he.1, he.2⟩
  · rintro ⟨x, hx, hk, hv⟩
    cases h : lookupLast (l.map (fun x => (key x, val x))) k with
    | none =>
      have := lookupLast_eq_none.1 h (key x, val x) (List.mem_map.2 ⟨x, hx, rfl⟩)
      exact absurd hk this
    | some v' =>
      obtain ⟨x', hx', he⟩ := List.mem_map.1 (lookupLast_mem h)
      simp only [Prod.mk.injEq] at he
      have := hu x hx x' hx' (hk.trans he.1.symm)
      rw [← he.2, ← this, hv]

theorem lookup_colRecs_iff {mc : Table} (hcu : CUniq mc) {tr : Nat} {c : String} {i : ColInfo} :
    lookupLast (colRecsOf mc tr) c = some i ↔
      ∃ x ∈ mc.rows, par mc x = tr ∧ colRecInfo mc x = (c, i) := by
  have := lookupLast_map_iff (l := mc.rows.filter (fun cr => valNat (mc.cell "parentId" cr) == tr))
    (key := fun x => (colRecInfo mc x).1) (val := fun x => (colRecInfo mc x).2) (k := c) (v := i)
    (by
      intro a ha b hb hk
      have ha' := List.mem_filter.1 ha
      have hb' := List.mem_filter.1 hb
      have : a = b := hcu a ha'.1 b hb'.1
        ((by simpa [par] using ha'.2 : par mc a = tr).trans (by simpa [par] using hb'.2 : par mc b = tr).symm) hk
      rw [this])
  unfold colRecsOf
  rw [this]
  constructor
  · rintro ⟨x, hx, h1, h2⟩
    have hx' := List.mem_filter.1 hx
    exact ⟨x, hx'.1, by simpa [par] using hx'.2, Prod.ext h1 h2⟩
  · rintro ⟨x, hx, h1, h2⟩
    exact ⟨x, List.mem_filter.2 ⟨hx, by simpa [par] using h1⟩, by rw [h2], by rw [h2]⟩

theorem lookup_metaSchema_iff {mt mc : Table} (htu : TUniq mt) {t : String}
    {recs : List (String × ColInfo)} :
    lookupLast (metaSchemaOf mt mc) t = some recs ↔
      ∃ tr ∈ mt.rows, tid mt tr = t ∧ colRecsOf mc tr = recs :=
  lookupLast_map_iff (l := mt.rows) (key := fun tr => valStr (mt.cell "tableId" tr))
    (val := fun tr => colRecsOf mc tr)
    (by intro a ha b hb hk; rw [htu a ha b hb hk])

/-- `SchemaConsistent`, by membership (valid when the metadata keys are unique) -/
structure Spec (d : Doc) (mt mc : Table) : Prop where
  tables : ∀ t, (userTable? d t).isSome ↔ ∃ tr ∈ mt.rows, tid mt tr = t
  cols : ∀ tr ∈ mt.rows, ∀ tb, userTable? d (tid mt tr) = some tb → ∀ c i,
    tb.infoOf? c = some i ↔ ∃ x ∈ mc.rows, par mc x = tr ∧ colRecInfo mc x = (c, i)
  stray : ∀ x ∈ mc.rows, par mc x ∈ mt.rows

theorem metaSchema_eq {d : Doc} {mt mc : Table} (hmt : findTable? d "_grist_Tables" = some mt)
    (hmc : findTable? d "_grist_Tables_column" = some mc) : metaSchema d = metaSchemaOf mt mc := by
  unfold metaSchema; rw [hmt, hmc]

theorem noStrayB_eq {d : Doc} {mt mc : Table} (hmt : findTable? d "_grist_Tables" = some mt)
    (hmc : findTable? d "_grist_Tables_column" = some mc) :
    noStrayB d = true ↔ ∀ x ∈ mc.rows, par mc x ∈ mt.rows := by
  unfold noStrayB; rw [hmt, hmc]
  simp [par]

theorem option_ext' {α : Type} {a b : Option α} (h : ∀ x, a = some x ↔ b = some x) : a = b := by
  cases a with
  | none =>
    cases b with
    | none => rfl
    | some y => exact ((h y).2 rfl)
  | some x => exact ((h x).1 rfl).symm

theorem spec_of_consistent {d : Doc} {mt mc : Table} (hmt : findTable? d "_grist_Tables" = some mt)
    (hmc : findTable? d "_grist_Tables_column" = some mc) (htu : TUniq mt) (hcu : CUniq mc)
    (hc : SchemaConsistent d) : Spec d mt mc := by
  obtain ⟨h1, h2⟩ := hc
  have hag : ∀ t, match userTable? d t, lookupLast (metaSchemaOf mt mc) t with
      | none, none => True
      | some tb, some recs => ∀ c, tb.infoOf? c = lookupLast recs c
      | _, _ => False := by
    intro t; have := h1 t; unfold TableAgrees at this; rw [metaSchema_eq hmt hmc] at this; exact this
  refine ⟨fun t => ?_, fun tr htr tb htb c i => ?_, (noStrayB_eq hmt hmc).1 h2⟩
  · have := hag t
    cases hu : userTable? d t with
    | none =>
      rw [hu] at this
      cases hl : lookupLast (metaSchemaOf mt mc) t with
      | none =>
        simp only [Option.isSome_none, Bool.false_eq_true, false_iff, not_exists, not_and]
        intro tr htr ht
        have := lookupLast_eq_none.1 hl (tid mt tr, colRecsOf mc tr)
          (List.mem_map.2 ⟨tr, htr, rfl⟩)
        exact this ht
      | some recs => rw [hl] at this; exact this.elim
    | some tb =>
      rw [hu] at this
      cases hl : lookupLast (metaSchemaOf mt mc) t with
      | none => rw [hl] at this; exact this.elim
      | some recs =>
        obtain ⟨tr, htr, ht, _⟩ := (lookup_metaSchema_iff htu).1 hl
        simp only [Option.isSome_some, true_iff]
        exact ⟨tr, htr, ht⟩
  · have := hag (tid mt tr)
    rw [htb, (lookup_metaSchema_iff htu).2 ⟨tr, htr, rfl, rfl⟩] at this
    rw [this c]
    exact lookup_colRecs_iff hcu

theorem consistent_of_spec {d : Doc} {mt mc : Table} (hmt : findTable? d "_grist_Tables" = some mt)
    (hmc : findTable? d "_grist_Tables_column" = some mc) (htu : TUniq mt) (hcu : CUniq mc)
    (hs : Spec d mt mc) : SchemaConsistent d := by
  refine ⟨fun t => ?_, (noStrayB_eq hmt hmc).2 hs.stray⟩
  unfold TableAgrees
  rw [metaSchema_eq hmt hmc]
  cases hu : userTable? d t with
  | none =>
    have : lookupLast (metaSchemaOf mt mc) t = none := by
      rw [lookupLast_eq_none]
      intro p hp hpt
      obtain ⟨tr, htr, rfl⟩ := List.mem_map.1 hp
      have := (hs.tables t).2 ⟨tr, htr, hpt⟩
      rw [hu] at this
      simp at this
    rw [this]; trivial
  | some tb =>
    obtain ⟨tr, htr, ht⟩ := (hs.tables t).1 (by rw [hu]; rfl)
    rw [(lookup_metaSchema_iff htu).2 ⟨tr, htr, ht, rfl⟩]
    intro c
    apply option_ext'
    intro i
    rw [hs.cols tr htr tb (by rw [ht]; exact hu) c i]
    exact (lookup_colRecs_iff hcu).symm

end Grist.Doc
