/-
Tools to establish `Same` / `Table.Same` for the shapes of documents the doc actions produce.
-/
import GristProofs.DocUndoWF
namespace Grist.Doc

theorem same_replaceTable {d : Doc} {t : String} {tb tb' : Table} (hf : findTable? d t = some tb)
    (hid : tb'.id = t) (hs : Table.Same tb' tb) : Same (replaceTable d t tb') d := by
  rw [same_iff]
  intro t'
  by_cases h : t' = t
  · subst h
    rw [findTable?_replaceTable_self hid hf, hf]
    exact hs
  · rw [findTable?_replaceTable_ne hid h]
    exact ORel.refl' _ (fun x _ => Table.Same.refl x)

theorem same_replaceTable_congr {d1 d2 : Doc} {t : String} {tb1 tb2 tb1' tb2' : Table}
    (h : Same d1 d2) (hf1 : findTable? d1 t = some tb1) (hf2 : findTable? d2 t = some tb2)
    (hid1 : tb1'.id = t) (hid2 : tb2'.id = t) (hs : Table.Same tb1' tb2') :
    Same (replaceTable d1 t tb1') (replaceTable d2 t tb2') := by
  rw [same_iff] at h ⊢
  intro t'
  by_cases ht : t' = t
  · subst ht
    rw [findTable?_replaceTable_self hid1 hf1, findTable?_replaceTable_self hid2 hf2]
    exact hs
  · rw [findTable?_replaceTable_ne hid1 ht, findTable?_replaceTable_ne hid2 ht]
    exact h t'

theorem filter_ne_eq_self {α : Type} (key : α → String) {l : List α} {k : String}
    (h : ∀ x ∈ l, key x ≠ k) : l.filter (fun x => key x != k) = l := by
  rw [List.filter_eq_self]
  intro x hx
  simpa using h x hx

theorem filter_ne_append_single {α : Type} (key : α → String) {l : List α} {y : α} {k : String}
    (hy : key y = k) : (l ++ [y]).filter (fun x => key x != k) = l.filter (fun x => key x != k) := by
  simp [List.filter_append, hy]

theorem filter_ne_filter_ne {α : Type} (key : α → String) {l : List α} {k k' : String}
    (h : ∀ x ∈ l, key x ≠ k → key x ≠ k') :
    (l.filter (fun x => key x != k)).filter (fun x => key x != k') = l.filter (fun x => key x != k) :=
  filter_ne_eq_self key (fun x hx => h x (List.mem_filter.1 hx).1
    (by simpa using (List.mem_filter.1 hx).2))

/-- a table dropped and re-appended under the same id, showing the same -/
theorem same_filter_append {d : Doc} {t : String} {tb tb' : Table} (hf : findTable? d t = some tb)
    (hid : tb'.id = t) (hs : Table.Same tb' tb) :
    Same (d.filter (fun x => x.id != t) ++ [tb']) d := by
  rw [same_iff]
  intro t'
  rw [findTable?_append_single, findTable?_filter_ne]
  by_cases h : t' = t
  · subst h
    simp only [↓reduceIte, hid, Option.none_or, hf]
    exact hs
  · have : ¬ tb'.id = t' := by rw [hid]; exact fun h' => h h'.symm
    simp only [h, ↓reduceIte, this, Option.or_none]
    exact ORel.refl' _ (fun x _ => Table.Same.refl x)

theorem eq_of_mem_of_id_eq {tb : Table} (hnd : (tb.cols.map (·.id)).Nodup) {x y : Col}
    (hx : x ∈ tb.cols) (hy : y ∈ tb.cols) (h : x.id = y.id) : x = y := by
  have h1 := findCol?_of_mem hnd hx
  have h2 := findCol?_of_mem hnd hy
  rw [h, h2] at h1
  exact (Option.some.inj h1).symm

/-- same rows, columns mapped by an id-preserving `F` that shows the same at the rows -/
theorem tableSame_map {tb tb' : Table} (F : Col → Col) (hid : ∀ x, (F x).id = x.id)
    (hcols : tb'.cols = tb.cols.map F) (hrows : tb'.rows = tb.rows)
    (h : ∀ x ∈ tb.cols, Col.SameOn tb.rows (F x) x) : Table.Same tb' tb := by
  rw [tableSame_iff]
  refine ⟨hrows, fun c => ?_⟩
  have : tb'.findCol? c = (tb.findCol? c).map F := by
    unfold Table.findCol?
    rw [hcols]
    exact find_key_map Col.id F hid
  rw [this, hrows]
  cases hc : tb.findCol? c with
  | none => simp
  | some x => simpa using h x (findCol?_some hc).2

theorem findCol?_swap (tb : Table) (c : String) (col' : Col) (k : String) :
    Table.findCol? { tb with cols := tb.cols.filter (fun x => x.id != c) ++ [col'] } k =
      (if k = c then none else tb.findCol? k).or (if col'.id = k then some col' else none) := by
  rw [findCol?_append_single]
  have := findCol?_filter_ne (tb := tb) (c := c) (c' := k) tb.id tb.rows
  simp only [Table.findCol?] at this
  rw [this]
  rfl

/-- column `c` dropped and a column with the same id, showing the same, appended at the end -/
theorem tableSame_swap {tb : Table} {c : String} {col col' : Col} (hc : tb.findCol? c = some col)
    (hid : col'.id = c) (hs : Col.SameOn tb.rows col' col) :
    Table.Same { tb with cols := tb.cols.filter (fun x => x.id != c) ++ [col'] } tb := by
  rw [tableSame_iff]
  refine ⟨rfl, fun c' => ?_⟩
  rw [findCol?_append_single]
  have := findCol?_filter_ne (tb := tb) (c := c) (c' := c') tb.id tb.rows
  simp only [Table.findCol?] at this
  rw [this]
  by_cases h : c' = c
  · subst h
    simp only [↓reduceIte, hid, Option.none_or, hc]
    exact hs
  · have h' : ¬ col'.id = c' := by rw [hid]; exact fun h' => h h'.symm
    simp only [h, ↓reduceIte, h', Option.or_none]
    exact ORel.refl' _ (fun x _ => Col.SameOn.refl _ x)

theorem table_eta_cols {tb : Table} {l : List Col} (h : l = tb.cols) :
    ({ tb with cols := l } : Table) = tb := by
  subst h; rfl

theorem colInfoOfPatch_undoPatch (old : ColInfo) (p : ColPatch) :
    colInfoOfPatch (colInfoOfPatch old p) (undoPatch old p) = old := by
  cases old with
  | mk ty isF f rc =>
    cases p with
    | mk pty pisF pf prc =>
      cases pty <;> cases pisF <;> cases pf <;> cases prc <;> rfl

theorem applyAll_cons_of_post {D D1 : Doc} {u : DocAction} {U1 : List DocAction}
    (rest : List DocAction) (h : Post D u D1 U1) : applyAll D (u :: rest) = applyAll D1 rest := by
  obtain ⟨r, hr, rfl, _⟩ := ok_of_post {} h
  simp [applyAll, hr]

end Grist.Doc
