/-
Lookup lemmas: find-by-id in lists of tables / columns, `replaceTable`, `replaceCol`,
`insertRows`, sorted lists.
-/
import GristProofs.DocUndoBase
namespace Grist.Doc

/-! ### generic find-by-key -/
section FindKey
variable {α : Type} (key : α → String)

theorem find_key_some {l : List α} {k : String} {x : α}
    (h : l.find? (fun x => key x == k) = some x) : key x = k ∧ x ∈ l := by
  have h1 := List.find?_some h
  have h2 := List.mem_of_find?_eq_some h
  exact ⟨by simpa using h1, h2⟩

theorem find_key_none {l : List α} {k : String} :
    l.find? (fun x => key x == k) = none ↔ ∀ x ∈ l, key x ≠ k := by
  simp [List.find?_eq_none]

theorem find_key_of_mem_nodup {l : List α} {x : α} (hnd : (l.map key).Nodup) (hx : x ∈ l) :
    l.find? (fun y => key y == key x) = some x := by
  induction l with
  | nil => simp at hx
  | cons y ys ih =>
    simp only [List.map_cons, List.nodup_cons] at hnd
    rcases List.mem_cons.1 hx with rfl | hx'
    · simp
    · have hne : key y ≠ key x := by
        intro h; apply hnd.1; rw [h]; exact List.mem_map_of_mem hx'
      simp [hne, ih hnd.2 hx']

theorem find_key_map {l : List α} {k : String} (f : α → α) (hf : ∀ x, key (f x) = key x) :
    (l.map f).find? (fun x => key x == k) = (l.find? (fun x => key x == k)).map f := by
  rw [List.find?_map]
  congr 1
  congr 1
  funext x; simp [hf]

theorem find_key_filter_ne {l : List α} {k k' : String} :
    (l.filter (fun x => key x != k')).find? (fun x => key x == k) =
      if k = k' then none else l.find? (fun x => key x == k) := by
  rw [List.find?_filter]
  by_cases h : k = k'
  · subst h
    simp only [↓reduceIte]
    rw [List.find?_eq_none]
    intro x _
    by_cases hx : key x = k <;> simp [hx]
  · simp only [h, ↓reduceIte]
    congr 1
    funext x
    by_cases hx : key x = k
    · have : ¬ k = k' := h
      simp [hx, this]
    · simp [hx]

theorem find_key_append_single {l : List α} {k : String} {y : α} :
    (l ++ [y]).find? (fun x => key x == k) =
      (l.find? (fun x => key x == k)).or (if key y = k then some y else none) := by
  rw [List.find?_append]
  congr 1
  by_cases h : key y = k <;> simp [h]

theorem map_key_filter_nodup {l : List α} (p : α → Bool) (h : (l.map key).Nodup) :
    ((l.filter p).map key).Nodup :=
  List.Nodup.sublist (List.Sublist.map key List.filter_sublist) h

end FindKey

/-! ### tables -/

theorem findTable?_some {d : Doc} {t : String} {tb : Table} (h : findTable? d t = some tb) :
    tb.id = t ∧ tb ∈ d := find_key_some Table.id h

theorem findTable?_none {d : Doc} {t : String} :
    findTable? d t = none ↔ ∀ tb ∈ d, tb.id ≠ t := find_key_none Table.id

theorem findTable?_of_mem {d : Doc} {tb : Table} (hnd : (d.map (·.id)).Nodup) (h : tb ∈ d) :
    findTable? d tb.id = some tb := find_key_of_mem_nodup Table.id hnd h

theorem hasTable_eq_false {d : Doc} {t : String} : hasTable d t = false ↔ findTable? d t = none := by
  simp [hasTable]

theorem findTable?_replaceTable {d : Doc} {t t' : String} {tb : Table} (hid : tb.id = t) :
    findTable? (replaceTable d t tb) t' =
      (findTable? d t').map (fun x => if x.id == t then tb else x) := by
  unfold findTable? replaceTable
  apply find_key_map Table.id
  intro x
  by_cases h : x.id = t <;> simp [h, hid]

theorem findTable?_replaceTable_self {d : Doc} {t : String} {tb0 tb : Table} (hid : tb.id = t)
    (hf : findTable? d t = some tb0) : findTable? (replaceTable d t tb) t = some tb := by
  rw [findTable?_replaceTable hid, hf]
  simp [(findTable?_some hf).1]

theorem findTable?_replaceTable_ne {d : Doc} {t t' : String} {tb : Table} (hid : tb.id = t)
    (hne : t' ≠ t) : findTable? (replaceTable d t tb) t' = findTable? d t' := by
  rw [findTable?_replaceTable hid]
  cases h : findTable? d t' with
  | none => rfl
  | some x =>
    have := (findTable?_some h).1
    simp [this, hne]

theorem replaceTable_replaceTable {d : Doc} {t : String} {tb1 tb2 : Table} (hid : tb1.id = t) :
    replaceTable (replaceTable d t tb1) t tb2 = replaceTable d t tb2 := by
  unfold replaceTable
  rw [List.map_map]
  apply List.map_congr_left
  intro x _
  by_cases h : x.id = t <;> simp [h, hid]

theorem replaceTable_self {d : Doc} {t : String} {tb : Table} (hnd : (d.map (·.id)).Nodup)
    (hf : findTable? d t = some tb) : replaceTable d t tb = d := by
  unfold replaceTable
  conv => rhs; rw [← List.map_id d]
  apply List.map_congr_left
  intro x hx
  by_cases h : x.id = t
  · have := findTable?_of_mem hnd hx
    rw [h, hf] at this
    simp [h]; exact (Option.some.inj this)
  · simp [h]

theorem map_id_replaceTable {d : Doc} {t : String} {tb : Table} (hid : tb.id = t) :
    (replaceTable d t tb).map (·.id) = d.map (·.id) := by
  unfold replaceTable
  rw [List.map_map]
  apply List.map_congr_left
  intro x _
  by_cases h : x.id = t <;> simp [h, hid]

theorem mem_replaceTable {d : Doc} {t : String} {tb x : Table} (h : x ∈ replaceTable d t tb) :
    x = tb ∨ x ∈ d := by
  unfold replaceTable at h
  obtain ⟨y, hy, rfl⟩ := List.mem_map.1 h
  by_cases h : y.id = t <;> simp [h, hy]

theorem findTable?_filter_ne {d : Doc} {t t' : String} :
    findTable? (d.filter (fun x => x.id != t)) t' = if t' = t then none else findTable? d t' :=
  find_key_filter_ne Table.id

theorem findTable?_append_single {d : Doc} {t' : String} {tb : Table} :
    findTable? (d ++ [tb]) t' = (findTable? d t').or (if tb.id = t' then some tb else none) :=
  find_key_append_single Table.id

/-! ### columns -/

theorem findCol?_some {tb : Table} {c : String} {col : Col} (h : tb.findCol? c = some col) :
    col.id = c ∧ col ∈ tb.cols := find_key_some Col.id h

theorem findCol?_none {tb : Table} {c : String} :
    tb.findCol? c = none ↔ ∀ col ∈ tb.cols, col.id ≠ c := find_key_none Col.id

theorem findCol?_of_mem {tb : Table} {col : Col} (hnd : (tb.cols.map (·.id)).Nodup)
    (h : col ∈ tb.cols) : tb.findCol? col.id = some col := find_key_of_mem_nodup Col.id hnd h

theorem hasCol_eq_false {tb : Table} {c : String} : tb.hasCol c = false ↔ tb.findCol? c = none := by
  simp [Table.hasCol]

theorem hasCol_eq_true {tb : Table} {c : String} :
    tb.hasCol c = true ↔ ∃ col, tb.findCol? c = some col := by
  simp [Table.hasCol, Option.isSome_iff_exists]

/-- lookup in a table whose columns are `tb.cols.map F` for an id-preserving `F` -/
theorem findCol?_map {tb : Table} {c : String} (F : Col → Col) (hF : ∀ x, (F x).id = x.id)
    (tid : String) (rows : List Nat) :
    Table.findCol? { id := tid, cols := tb.cols.map F, rows := rows } c = (tb.findCol? c).map F :=
  find_key_map Col.id F hF

theorem findCol?_filter_ne {tb : Table} {c c' : String} (tid : String) (rows : List Nat) :
    Table.findCol? { id := tid, cols := tb.cols.filter (fun x => x.id != c), rows := rows } c' =
      if c' = c then none else tb.findCol? c' :=
  find_key_filter_ne Col.id

theorem findCol?_append_single {l : List Col} {c' : String} {col : Col} (tid : String)
    (rows : List Nat) :
    Table.findCol? { id := tid, cols := l ++ [col], rows := rows } c' =
      (l.find? (fun x => x.id == c')).or (if col.id = c' then some col else none) :=
  find_key_append_single Col.id

/-! ### sorted row lists -/

theorem mem_insertRow {a r : Nat} {l : List Nat} : a ∈ insertRow r l ↔ a = r ∨ a ∈ l := by
  induction l with
  | nil => simp [insertRow]
  | cons x xs ih =>
    simp only [insertRow]
    split
    · simp
    · split
      · rename_i h; simp at h; subst h; simp
      · simp only [List.mem_cons, ih]
        constructor
        · rintro (h | h | h) <;> simp [h]
        · rintro (h | h | h) <;> simp [h]

theorem pairwise_insertRow {r : Nat} {l : List Nat} (h : l.Pairwise (· < ·)) :
    (insertRow r l).Pairwise (· < ·) := by
  induction l with
  | nil => simp [insertRow]
  | cons x xs ih =>
    rw [List.pairwise_cons] at h
    simp only [insertRow]
    split
    · rename_i hlt
      rw [List.pairwise_cons]
      refine ⟨?_, List.pairwise_cons.2 h⟩
      intro a ha
      rcases List.mem_cons.1 ha with rfl | ha
      · exact hlt
      · exact Nat.lt_trans hlt (h.1 a ha)
    · split
      · exact List.pairwise_cons.2 h
      · rename_i h1 h2
        simp at h2
        rw [List.pairwise_cons]
        refine ⟨?_, ih h.2⟩
        intro a ha
        rcases mem_insertRow.1 ha with rfl | ha
        · omega
        · exact h.1 a ha

theorem mem_insertRows {a : Nat} {rs l : List Nat} : a ∈ insertRows rs l ↔ a ∈ rs ∨ a ∈ l := by
  unfold insertRows
  induction rs generalizing l with
  | nil => simp
  | cons r rs ih =>
    simp only [List.foldl_cons, ih, mem_insertRow, List.mem_cons]
    constructor
    · rintro (h | h | h) <;> simp [h]
    · rintro ((h | h) | h) <;> simp [h]

theorem pairwise_insertRows {rs l : List Nat} (h : l.Pairwise (· < ·)) :
    (insertRows rs l).Pairwise (· < ·) := by
  unfold insertRows
  induction rs generalizing l with
  | nil => simpa
  | cons r rs ih => exact ih (pairwise_insertRow h)

theorem sorted_ext {l1 l2 : List Nat} (h1 : l1.Pairwise (· < ·)) (h2 : l2.Pairwise (· < ·))
    (h : ∀ a, a ∈ l1 ↔ a ∈ l2) : l1 = l2 := by
  induction l1 generalizing l2 with
  | nil =>
    cases l2 with
    | nil => rfl
    | cons b bs => have := (h b).2 (by simp); simp at this
  | cons a as ih =>
    cases l2 with
    | nil => have := (h a).1 (by simp); simp at this
    | cons b bs =>
      rw [List.pairwise_cons] at h1 h2
      have hab : a = b := by
        have ha := (h a).1 (by simp)
        have hb := (h b).2 (by simp)
        rcases List.mem_cons.1 ha with ha | ha
        · exact ha
        · rcases List.mem_cons.1 hb with hb | hb
          · exact hb.symm
          · have := h1.1 b hb; have := h2.1 a ha; omega
      subst hab
      congr 1
      apply ih h1.2 h2.2
      intro x
      constructor
      · intro hx
        have := (h x).1 (List.mem_cons_of_mem _ hx)
        rcases List.mem_cons.1 this with rfl | h'
        · have := h1.1 x hx; omega
        · exact h'
      · intro hx
        have := (h x).2 (List.mem_cons_of_mem _ hx)
        rcases List.mem_cons.1 this with rfl | h'
        · have := h2.1 x hx; omega
        · exact h'

theorem insertRows_nil_of_sorted {l : List Nat} (h : l.Pairwise (· < ·)) : insertRows l [] = l :=
  sorted_ext (pairwise_insertRows List.Pairwise.nil) h (fun a => by simp [mem_insertRows])

theorem filter_ne_zero_of_pos {l : List Nat} (h : ∀ r ∈ l, 0 < r) : l.filter (· != 0) = l := by
  rw [List.filter_eq_self]
  intro a ha
  have := h a ha
  simp; omega

end Grist.Doc
