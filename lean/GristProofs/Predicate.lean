/-
Helper development for C40 (GristProps/C40.lean): the structural inductions over the nested
`PExpr` / `PTree` types.
-/
import GristModel.Predicate
namespace Grist.Predicate

theorem bind_ok {ε α β} {x : Except ε α} {f : α → Except ε β} {b : β} :
    (x >>= f) = .ok b ↔ ∃ a, x = .ok a ∧ f a = .ok b := by
  cases x <;> simp [bind, Except.bind]

theorem pure_ok {ε α} {a b : α} : (pure a : Except ε α) = .ok b ↔ a = b := by
  simp [pure, Except.pure]

theorem throw_ok {ε α} {e : ε} {a : α} : (throw e : Except ε α) = .ok a ↔ False := by
  simp [throw, throwThe, MonadExceptOf.throw]

/-- the node types `convert` can put at the head of a tree. -/
def nodeTags : List String :=
  ["And", "Or", "Add", "Sub", "Mult", "Div", "Mod", "Not", "Eq", "NotEq", "Lt", "LtE", "Gt", "GtE",
   "Is", "IsNot", "In", "NotIn", "List", "Const", "Name", "Attr", "Call"]

theorem cmpName_mem (op : CmpOp) : op.name ∈ nodeTags := by
  cases op <;> simp [CmpOp.name, nodeTags]

/-- Every converted tree is `[tag, ...]` with `tag` one of the node types. -/
theorem convert_tag {e : PExpr} {t : PTree} (h : convert e = .ok t) :
    ∃ tag args, t = node tag args ∧ tag ∈ nodeTags := by
  cases e with
  | boolOp op vs =>
    simp only [convert, bind_ok, pure_ok] at h
    obtain ⟨ts, _, rfl⟩ := h
    exact ⟨op.name, ts, rfl, by cases op <;> simp [BoolOp.name, nodeTags]⟩
  | binOp op l r =>
    cases op <;> simp only [convert, BinOp.name?, bind_ok, pure_ok] at h
    all_goals first
      | (obtain ⟨a, _, b, _, rfl⟩ := h; exact ⟨_, _, rfl, by simp [nodeTags]⟩)
      | simp only [throw_ok] at h
  | unaryOp op e =>
    cases op <;> simp only [convert, bind_ok, pure_ok] at h
    · obtain ⟨a, _, rfl⟩ := h; exact ⟨_, _, rfl, by simp [nodeTags]⟩
    · simp only [throw_ok] at h
  | compare l ops cs =>
    unfold convert at h
    split at h
    · simp only [bind_ok, pure_ok] at h
      obtain ⟨a, _, b, _, rfl⟩ := h
      exact ⟨_, _, rfl, cmpName_mem _⟩
    · simp only [throw_ok] at h
  | name id =>
    simp only [convert] at h
    split at h <;> simp only [pure_ok] at h <;> subst h <;> exact ⟨_, _, rfl, by simp [nodeTags]⟩
  | dollar x => simp only [convert, pure_ok] at h; subst h; exact ⟨_, _, rfl, by simp [nodeTags]⟩
  | const c => simp only [convert, pure_ok] at h; subst h; exact ⟨_, _, rfl, by simp [nodeTags]⟩
  | attr e a =>
    simp only [convert, bind_ok, pure_ok] at h
    obtain ⟨a, _, rfl⟩ := h; exact ⟨_, _, rfl, by simp [nodeTags]⟩
  | list es =>
    simp only [convert, bind_ok, pure_ok] at h
    obtain ⟨a, _, rfl⟩ := h; exact ⟨_, _, rfl, by simp [nodeTags]⟩
  | tuple es =>
    simp only [convert, bind_ok, pure_ok] at h
    obtain ⟨a, _, rfl⟩ := h; exact ⟨_, _, rfl, by simp [nodeTags]⟩
  | call f args kws =>
    simp only [convert, bind_ok, pure_ok] at h
    obtain ⟨a, _, b, _, c, _, rfl⟩ := h; exact ⟨_, _, rfl, by simp [nodeTags]⟩
  | unsupported k cs => simp only [convert, throw_ok] at h

/-- unfolding of `evalTree` on a `[tag, ...args]` list. -/
theorem evalTree_node (ρ : Env) (tag : String) (args : List PTree) :
    evalTree ρ (.list (.str tag :: args)) =
    if tag = "And" then evalAndT ρ args
    else if tag = "Or" then evalOrT ρ args
    else if tag = "Const" then constNode args
    else if tag = "Name" then
      (match args with
      | [.str id] => ρ.lookup id
      | _ => throw eMalformed)
    else if tag = "Attr" then
      (match args with
      | [t, .str a] => do
        let v ← evalTree ρ t
        getAttr v a
      | _ => throw eMalformed)
    else if tag = "Comment" then
      (match args with
      | [t, .str _] => evalTree ρ t
      | _ => throw eMalformed)
    else if tag = "Call" then
      (match args with
      | f :: rest => do
        let fv ← evalTree ρ f
        let (vs, ks) ← evalCallArgs ρ rest
        applyCall fv vs ks
      | [] => throw eMalformed)
    else (do
      let vs ← evalTrees ρ args
      applyOp tag vs) := by
  conv => lhs; rw [evalTree.eq_def]
  rfl

theorem kw_not_tag : "keywords" ∉ nodeTags := by decide

/-- Positional arguments of a `Call` node are read back unambiguously: no converted tree has the
    head "keywords". -/
theorem evalCallArgs_append (ρ : Env) : ∀ (ts tail : List PTree),
    (∀ t ∈ ts, ∃ tag args, t = node tag args ∧ tag ∈ nodeTags) →
    evalCallArgs ρ (ts ++ tail) = (do
      let vs ← evalTrees ρ ts
      let (ws, ks) ← evalCallArgs ρ tail
      pure (vs ++ ws, ks)) := by
  intro ts
  induction ts with
  | nil =>
    intro tail _
    simp only [List.nil_append, evalTrees, pure_bind]
    cases evalCallArgs ρ tail with
    | error e => rfl
    | ok p => cases p; rfl
  | cons t ts ih =>
    intro tail hts
    obtain ⟨tag, args, rfl, hm⟩ := hts t (by simp)
    have ih' := ih tail (fun t ht => hts t (by simp [ht]))
    rw [List.cons_append]
    generalize evalCallArgs ρ tail = R at ih' ⊢
    unfold evalCallArgs
    split
    · rename_i heq; cases heq
    · rename_i kws heq
      simp only [node, List.cons.injEq, PTree.list.injEq, PTree.str.injEq] at heq
      exact absurd (heq.1.1 ▸ hm) kw_not_tag
    · rename_i t' ts' _ heq
      simp only [List.cons.injEq] at heq
      obtain ⟨rfl, rfl⟩ := heq
      rw [ih']
      simp only [evalTrees, bind_assoc, pure_bind]
      cases evalTree ρ (node tag args) with
      | error e => rfl
      | ok v =>
        simp only [bind, Except.bind]
        cases evalTrees ρ ts with
        | error e => rfl
        | ok vs =>
          simp only []
          cases R with
          | error e => rfl
          | ok p => cases p; rfl

theorem convertList_tags : ∀ {es : List PExpr} {ts : List PTree}, convertList es = .ok ts →
    ∀ t ∈ ts, ∃ tag args, t = node tag args ∧ tag ∈ nodeTags
  | [], ts, h => by
    simp only [convertList, pure_ok] at h; subst h; intro t ht; cases ht
  | e :: es, ts, h => by
    simp only [convertList, bind_ok, pure_ok] at h
    obtain ⟨t, ht, ts', hts, rfl⟩ := h
    intro x hx
    rcases List.mem_cons.mp hx with rfl | hx
    · exact convert_tag ht
    · exact convertList_tags hts x hx

mutual
theorem faithful (ρ : Env) : ∀ (e : PExpr) (t : PTree), convert e = .ok t →
    evalTree ρ t = evalExpr ρ e
  | .boolOp op vs, t, h => by
    simp only [convert, bind_ok, pure_ok] at h
    obtain ⟨ts, hts, rfl⟩ := h
    have := faithfulList ρ vs ts hts
    cases op
    · simp [node, BoolOp.name, evalTree_node, evalExpr, this.2.1]
    · simp [node, BoolOp.name, evalTree_node, evalExpr, this.2.2]
  | .binOp op l r, t, h => by
    cases op <;> simp only [convert, BinOp.name?, bind_ok, pure_ok, throw_ok] at h
    all_goals
      obtain ⟨a, ha, b, hb, rfl⟩ := h
      simp [node, evalTree_node, evalTrees, evalExpr, applyOp, faithful ρ l a ha, faithful ρ r b hb]
  | .unaryOp op e, t, h => by
    cases op <;> simp only [convert, bind_ok, pure_ok, throw_ok] at h
    obtain ⟨a, ha, rfl⟩ := h
    simp [node, evalTree_node, evalTrees, evalExpr, applyOp, faithful ρ e a ha]
  | .compare l [op] [c], t, h => by
    simp only [convert, bind_ok, pure_ok] at h
    obtain ⟨a, ha, b, hb, rfl⟩ := h
    cases op <;>
      simp [node, CmpOp.name, evalTree_node, evalTrees, evalExpr, applyOp, faithful ρ l a ha,
        faithful ρ c b hb]
  | .compare l [] cs, t, h => by simp [convert, throw_ok] at h
  | .compare l (_ :: _ :: _) cs, t, h => by simp [convert, throw_ok] at h
  | .compare l [_] [], t, h => by simp [convert, throw_ok] at h
  | .compare l [_] (_ :: _ :: _), t, h => by simp [convert, throw_ok] at h
  | .name id, t, h => by
    simp only [convert] at h
    split at h <;> simp only [pure_ok] at h <;> subst h
    · rename_i c hc
      cases c <;> simp [node, evalTree_node, evalExpr, hc, constTree, constNode, constValue]
    · rename_i hc
      simp [node, evalTree_node, evalExpr, hc]
  | .dollar x, t, h => by
    simp only [convert, pure_ok] at h; subst h
    simp [node, evalTree_node, evalExpr]
  | .const c, t, h => by
    simp only [convert, pure_ok] at h; subst h
    cases c <;> simp [node, evalTree_node, evalExpr, constTree, constNode, constValue]
  | .attr e a, t, h => by
    simp only [convert, bind_ok, pure_ok] at h
    obtain ⟨t', ht', rfl⟩ := h
    simp [node, evalTree_node, evalExpr, faithful ρ e t' ht']
  | .list es, t, h => by
    simp only [convert, bind_ok, pure_ok] at h
    obtain ⟨ts, hts, rfl⟩ := h
    simp [node, evalTree_node, evalExpr, applyOp, (faithfulList ρ es ts hts).1]
  | .tuple es, t, h => by
    simp only [convert, bind_ok, pure_ok] at h
    obtain ⟨ts, hts, rfl⟩ := h
    simp [node, evalTree_node, evalExpr, applyOp, (faithfulList ρ es ts hts).1]
  | .call f args kws, t, h => by
    simp only [convert, bind_ok, pure_ok] at h
    obtain ⟨as, has, ks, hks, fn, hfn, rfl⟩ := h
    have h1 := faithful ρ f fn hfn
    have h2 := (faithfulList ρ args as has).1
    have h3 := faithfulKws ρ kws ks hks
    have h4 := evalCallArgs_append ρ as (if kws.isEmpty then [] else [node "keywords" ks])
      (convertList_tags has)
    simp only [node, evalTree_node, evalExpr] at h4 ⊢
    simp only [show ("Call" = "And") = False by decide, show ("Call" = "Or") = False by decide,
      show ("Call" = "Const") = False by decide, show ("Call" = "Name") = False by decide,
      show ("Call" = "Attr") = False by decide, show ("Call" = "Comment") = False by decide,
      if_false, if_true, h1, h4, h2]
    cases kws with
    | nil =>
      simp only [convertKws, pure_ok] at hks; subst hks
      simp [evalCallArgs, evalKwsE]
    | cons k kws' =>
      simp [evalCallArgs, h3]
  | .unsupported k cs, t, h => by simp only [convert, throw_ok] at h
theorem faithfulList (ρ : Env) : ∀ (es : List PExpr) (ts : List PTree), convertList es = .ok ts →
    evalTrees ρ ts = evalExprs ρ es ∧ evalAndT ρ ts = evalAndE ρ es ∧ evalOrT ρ ts = evalOrE ρ es
  | [], ts, h => by
    simp only [convertList, pure_ok] at h; subst h
    simp [evalTrees, evalExprs, evalAndT, evalAndE, evalOrT, evalOrE]
  | [e], ts, h => by
    simp only [convertList, bind_ok, pure_ok] at h
    obtain ⟨t, ht, ts', hts, rfl⟩ := h
    subst hts
    simp [evalTrees, evalExprs, evalAndT, evalAndE, evalOrT, evalOrE, faithful ρ e t ht]
  | e :: e2 :: es, ts, h => by
    simp only [convertList, bind_ok, pure_ok] at h
    obtain ⟨t, ht, ts', ⟨t2, ht2, ts2, hts2, rfl⟩, rfl⟩ := h
    have ih := faithfulList ρ (e2 :: es) (t2 :: ts2) (by
      simp only [convertList, bind_ok, pure_ok]; exact ⟨t2, ht2, ts2, hts2, rfl⟩)
    have he := faithful ρ e t ht
    refine ⟨?_, ?_, ?_⟩
    · simp only [evalTrees, evalExprs] at ih ⊢; rw [he, ih.1]
    · simp only [evalAndT, evalAndE]; rw [he, ih.2.1]
    · simp only [evalOrT, evalOrE]; rw [he, ih.2.2]
theorem faithfulKws (ρ : Env) : ∀ (ks : List Keyword) (ts : List PTree), convertKws ks = .ok ts →
    evalKwsT ρ ts = evalKwsE ρ ks
  | [], ts, h => by
    simp only [convertKws, pure_ok] at h; subst h
    simp [evalKwsT, evalKwsE]
  | .mk arg v :: ks, ts, h => by
    simp only [convertKws, bind_ok, pure_ok] at h
    obtain ⟨t, ht, ts', hts, rfl⟩ := h
    have h1 := faithful ρ v t ht
    have h2 := faithfulKws ρ ks ts' hts
    cases arg <;> simp [evalKwsT, evalKwsE, h1, h2]
end

/-! ### acceptance = the supported subset -/

theorem isOk_bind {ε α β} (x : Except ε α) (f : α → Except ε β) :
    (∃ b, (x >>= f) = .ok b) ↔ ∃ a, x = .ok a ∧ ∃ b, f a = .ok b := by
  cases x <;> simp [bind, Except.bind]

mutual
theorem accepts_iff : ∀ (e : PExpr), (∃ t, convert e = .ok t) ↔ supported e = true
  | .boolOp op vs => by
    have := acceptsList_iff vs
    simp only [convert, supported, bind_ok, pure_ok, ← this]
    constructor
    · rintro ⟨t, ts, h, _⟩; exact ⟨ts, h⟩
    · rintro ⟨ts, h⟩; exact ⟨_, ts, h, rfl⟩
  | .binOp op l r => by
    have hl := accepts_iff l
    have hr := accepts_iff r
    cases op <;>
      simp only [convert, supported, BinOp.name?, bind_ok, pure_ok, throw_ok, Option.isSome,
        Bool.true_and, Bool.false_and, Bool.and_eq_true, ← hl, ← hr, exists_false,
        Bool.false_eq_true]
    all_goals
      constructor
      · rintro ⟨t, a, ha, b, hb, _⟩; exact ⟨⟨a, ha⟩, ⟨b, hb⟩⟩
      · rintro ⟨⟨a, ha⟩, ⟨b, hb⟩⟩; exact ⟨_, a, ha, b, hb, rfl⟩
  | .unaryOp op e => by
    have he := accepts_iff e
    cases op <;>
      simp only [convert, supported, bind_ok, pure_ok, throw_ok, Bool.true_and, Bool.false_and,
        ← he, exists_false, Bool.false_eq_true]
    constructor
    · rintro ⟨t, a, ha, _⟩; exact ⟨a, ha⟩
    · rintro ⟨a, ha⟩; exact ⟨_, a, ha, rfl⟩
  | .compare l [op] [c] => by
    have hl := accepts_iff l
    have hc := accepts_iff c
    simp only [convert, supported, bind_ok, pure_ok, Bool.and_eq_true, ← hl, ← hc]
    constructor
    · rintro ⟨t, a, ha, b, hb, _⟩; exact ⟨⟨a, ha⟩, ⟨b, hb⟩⟩
    · rintro ⟨⟨a, ha⟩, ⟨b, hb⟩⟩; exact ⟨_, a, ha, b, hb, rfl⟩
  | .compare l [] cs => by simp [convert, supported, throw_ok]
  | .compare l (_ :: _ :: _) cs => by simp [convert, supported, throw_ok]
  | .compare l [_] [] => by simp [convert, supported, throw_ok]
  | .compare l [_] (_ :: _ :: _) => by simp [convert, supported, throw_ok]
  | .name id => by
    simp only [convert, supported, iff_true]
    split <;> exact ⟨_, rfl⟩
  | .dollar x => by simp only [convert, supported, iff_true]; exact ⟨_, rfl⟩
  | .const c => by simp only [convert, supported, iff_true]; exact ⟨_, rfl⟩
  | .attr e a => by
    have he := accepts_iff e
    simp only [convert, supported, bind_ok, pure_ok, ← he]
    constructor
    · rintro ⟨t, a, ha, _⟩; exact ⟨a, ha⟩
    · rintro ⟨a, ha⟩; exact ⟨_, a, ha, rfl⟩
  | .list es => by
    have := acceptsList_iff es
    simp only [convert, supported, bind_ok, pure_ok, ← this]
    constructor
    · rintro ⟨t, ts, h, _⟩; exact ⟨ts, h⟩
    · rintro ⟨ts, h⟩; exact ⟨_, ts, h, rfl⟩
  | .tuple es => by
    have := acceptsList_iff es
    simp only [convert, supported, bind_ok, pure_ok, ← this]
    constructor
    · rintro ⟨t, ts, h, _⟩; exact ⟨ts, h⟩
    · rintro ⟨ts, h⟩; exact ⟨_, ts, h, rfl⟩
  | .call f args kws => by
    have hf := accepts_iff f
    have ha := acceptsList_iff args
    have hk := acceptsKws_iff kws
    simp only [convert, supported, bind_ok, pure_ok, Bool.and_eq_true, ← hf, ← ha, ← hk]
    constructor
    · rintro ⟨t, as, h1, ks, h2, fn, h3, _⟩; exact ⟨⟨⟨fn, h3⟩, ⟨as, h1⟩⟩, ⟨ks, h2⟩⟩
    · rintro ⟨⟨⟨fn, h3⟩, ⟨as, h1⟩⟩, ⟨ks, h2⟩⟩; exact ⟨_, as, h1, ks, h2, fn, h3, rfl⟩
  | .unsupported k cs => by simp [convert, supported, throw_ok]
theorem acceptsList_iff : ∀ (es : List PExpr),
    (∃ ts, convertList es = .ok ts) ↔ supportedList es = true
  | [] => by simp only [convertList, supportedList, iff_true]; exact ⟨_, rfl⟩
  | e :: es => by
    have he := accepts_iff e
    have hes := acceptsList_iff es
    simp only [convertList, supportedList, bind_ok, pure_ok, Bool.and_eq_true, ← he, ← hes]
    constructor
    · rintro ⟨ts, t, ht, ts', hts, _⟩; exact ⟨⟨t, ht⟩, ⟨ts', hts⟩⟩
    · rintro ⟨⟨t, ht⟩, ⟨ts', hts⟩⟩; exact ⟨_, t, ht, ts', hts, rfl⟩
theorem acceptsKws_iff : ∀ (ks : List Keyword),
    (∃ ts, convertKws ks = .ok ts) ↔ supportedKws ks = true
  | [] => by simp only [convertKws, supportedKws, iff_true]; exact ⟨_, rfl⟩
  | .mk arg e :: ks => by
    have he := accepts_iff e
    have hks := acceptsKws_iff ks
    simp only [convertKws, supportedKws, bind_ok, pure_ok, Bool.and_eq_true, ← he, ← hks]
    constructor
    · rintro ⟨ts, t, ht, ts', hts, _⟩; exact ⟨⟨t, ht⟩, ⟨ts', hts⟩⟩
    · rintro ⟨⟨t, ht⟩, ⟨ts', hts⟩⟩; exact ⟨_, t, ht, ts', hts, rfl⟩
end

/-! ### JSON-safety of the tree = JSON-safety of the constants -/

theorem jsonSafe_node (tag : String) (args : List PTree) :
    jsonSafe (node tag args) = jsonSafeList args := by
  simp [node, jsonSafe, jsonSafeList]

theorem jsonSafeList_append : ∀ (xs ys : List PTree),
    jsonSafeList (xs ++ ys) = (jsonSafeList xs && jsonSafeList ys)
  | [], ys => by simp [jsonSafeList]
  | x :: xs, ys => by simp [jsonSafeList, jsonSafeList_append xs ys, Bool.and_assoc]

theorem jsonSafe_constTree (c : Const) : jsonSafe (constTree c) = c.jsonOk := by
  cases c <;> simp [constTree, jsonSafe, Const.jsonOk]

mutual
theorem jsonSafe_convert : ∀ (e : PExpr) (t : PTree), convert e = .ok t →
    jsonSafe t = constsOk e
  | .boolOp op vs, t, h => by
    simp only [convert, bind_ok, pure_ok] at h
    obtain ⟨ts, hts, rfl⟩ := h
    simp [jsonSafe_node, constsOk, jsonSafeList_convert vs ts hts]
  | .binOp op l r, t, h => by
    cases op <;> simp only [convert, BinOp.name?, bind_ok, pure_ok, throw_ok] at h
    all_goals
      obtain ⟨a, ha, b, hb, rfl⟩ := h
      simp [jsonSafe_node, jsonSafeList, constsOk, jsonSafe_convert l a ha, jsonSafe_convert r b hb]
  | .unaryOp op e, t, h => by
    cases op <;> simp only [convert, bind_ok, pure_ok, throw_ok] at h
    obtain ⟨a, ha, rfl⟩ := h
    simp [jsonSafe_node, jsonSafeList, constsOk, jsonSafe_convert e a ha]
  | .compare l [op] [c], t, h => by
    simp only [convert, bind_ok, pure_ok] at h
    obtain ⟨a, ha, b, hb, rfl⟩ := h
    simp [jsonSafe_node, jsonSafeList, constsOk, constsOkList, jsonSafe_convert l a ha,
      jsonSafe_convert c b hb]
  | .compare l [] cs, t, h => by simp [convert, throw_ok] at h
  | .compare l (_ :: _ :: _) cs, t, h => by simp [convert, throw_ok] at h
  | .compare l [_] [], t, h => by simp [convert, throw_ok] at h
  | .compare l [_] (_ :: _ :: _), t, h => by simp [convert, throw_ok] at h
  | .name id, t, h => by
    simp only [convert] at h
    split at h <;> simp only [pure_ok] at h <;> subst h
    · rename_i c hc
      have : c.jsonOk = true := by
        unfold namedConstant at hc
        split at hc <;> simp at hc <;> subst hc <;> rfl
      simp [jsonSafe_node, jsonSafeList, jsonSafe_constTree, constsOk, this]
    · simp [jsonSafe_node, jsonSafeList, jsonSafe, constsOk]
  | .dollar x, t, h => by
    simp only [convert, pure_ok] at h; subst h
    simp [jsonSafe_node, jsonSafeList, jsonSafe, constsOk]
  | .const c, t, h => by
    simp only [convert, pure_ok] at h; subst h
    simp [jsonSafe_node, jsonSafeList, jsonSafe_constTree, constsOk]
  | .attr e a, t, h => by
    simp only [convert, bind_ok, pure_ok] at h
    obtain ⟨t', ht', rfl⟩ := h
    simp [jsonSafe_node, jsonSafeList, jsonSafe, constsOk, jsonSafe_convert e t' ht']
  | .list es, t, h => by
    simp only [convert, bind_ok, pure_ok] at h
    obtain ⟨ts, hts, rfl⟩ := h
    simp [jsonSafe_node, constsOk, jsonSafeList_convert es ts hts]
  | .tuple es, t, h => by
    simp only [convert, bind_ok, pure_ok] at h
    obtain ⟨ts, hts, rfl⟩ := h
    simp [jsonSafe_node, constsOk, jsonSafeList_convert es ts hts]
  | .call f args kws, t, h => by
    simp only [convert, bind_ok, pure_ok] at h
    obtain ⟨as, has, ks, hks, fn, hfn, rfl⟩ := h
    have h1 := jsonSafe_convert f fn hfn
    have h2 := jsonSafeList_convert args as has
    have h3 := jsonSafeKws_convert kws ks hks
    cases kws with
    | nil =>
      simp [jsonSafe_node, jsonSafeList, constsOk, constsOkKws, h1, h2]
    | cons k kws' =>
      simp [jsonSafe_node, jsonSafeList, jsonSafeList_append, constsOk, h1, h2, h3, Bool.and_assoc]
  | .unsupported k cs, t, h => by simp only [convert, throw_ok] at h
theorem jsonSafeList_convert : ∀ (es : List PExpr) (ts : List PTree), convertList es = .ok ts →
    jsonSafeList ts = constsOkList es
  | [], ts, h => by
    simp only [convertList, pure_ok] at h; subst h; simp [jsonSafeList, constsOkList]
  | e :: es, ts, h => by
    simp only [convertList, bind_ok, pure_ok] at h
    obtain ⟨t, ht, ts', hts, rfl⟩ := h
    simp [jsonSafeList, constsOkList, jsonSafe_convert e t ht, jsonSafeList_convert es ts' hts]
theorem jsonSafeKws_convert : ∀ (ks : List Keyword) (ts : List PTree), convertKws ks = .ok ts →
    jsonSafeList ts = constsOkKws ks
  | [], ts, h => by
    simp only [convertKws, pure_ok] at h; subst h; simp [jsonSafeList, constsOkKws]
  | .mk arg e :: ks, ts, h => by
    simp only [convertKws, bind_ok, pure_ok] at h
    obtain ⟨t, ht, ts', hts, rfl⟩ := h
    cases arg <;>
      simp [jsonSafeList, jsonSafe, constsOkKws, jsonSafe_convert e t ht,
        jsonSafeKws_convert ks ts' hts]
end

/-! ### `str.strip()` -/

theorem dropWhile_head_not {α} (p : α → Bool) : ∀ (l : List α) (x : α) (xs : List α),
    l.dropWhile p = x :: xs → p x = false
  | [], x, xs, h => by simp at h
  | y :: ys, x, xs, h => by
    simp only [List.dropWhile_cons] at h
    split at h
    · exact dropWhile_head_not p ys x xs h
    · rename_i hy
      simp only [List.cons.injEq] at h
      rw [← h.1]; simpa using hy

end Grist.Predicate
