/-
Helper development for C34 (GristProps/C34.lean): binary search specification, the boolean
well-formedness check, and the index facts behind the round trip.
-/
import GristModel.Zone
namespace Grist.Zone

/-! ### list access -/

theorem getE_ok {l : List Int} {i : Nat} (h : i < l.length) : getE l i = .ok (l.getD i 0) := by
  unfold getE
  simp [List.getD, h]

theorem getE_err {l : List Int} {i : Nat} (h : l.length ≤ i) : getE l i = .error .indexError := by
  unfold getE
  simp [h]

theorem getD_zipWith (f : Int → Int → Int) : ∀ (a b : List Int) (j : Nat),
    j < a.length → j < b.length → (List.zipWith f a b).getD j 0 = f (a.getD j 0) (b.getD j 0) := by
  intro a
  induction a with
  | nil => intro b j h; simp at h
  | cons x xs ih =>
    intro b j ha hb
    cases b with
    | nil => simp at hb
    | cons y ys =>
      cases j with
      | zero => simp
      | succ j =>
        simp only [List.zipWith_cons_cons, List.getD_cons_succ]
        exact ih ys j (by simpa using ha) (by simpa using hb)

/-! ### bisect_right -/

/-- Non-strictly sorted, index form. -/
def SortedLe (a : List Int) : Prop := ∀ i j, i ≤ j → j < a.length → a.getD i 0 ≤ a.getD j 0

theorem bisectGo_spec (a : List Int) (x : Int) (hs : SortedLe a) :
    ∀ fuel lo hi, lo ≤ hi → hi ≤ a.length → hi - lo < fuel →
      (∀ j, j < lo → a.getD j 0 ≤ x) → (∀ j, hi ≤ j → j < a.length → x < a.getD j 0) →
      lo ≤ bisectGo a x fuel lo hi ∧ bisectGo a x fuel lo hi ≤ hi ∧
      (∀ j, j < bisectGo a x fuel lo hi → a.getD j 0 ≤ x) ∧
      (∀ j, bisectGo a x fuel lo hi ≤ j → j < a.length → x < a.getD j 0) := by
  intro fuel
  induction fuel with
  | zero => intro lo hi _ _ h; omega
  | succ fuel ih =>
    intro lo hi hlh hhl hf hlo hhi
    unfold bisectGo
    by_cases hlt : lo < hi
    · simp only [hlt, if_true]
      have hmid1 : lo ≤ (lo + hi) / 2 := by omega
      have hmid2 : (lo + hi) / 2 < hi := by omega
      by_cases hx : x < a.getD ((lo + hi) / 2) 0
      · simp only [hx, if_true]
        have := ih lo ((lo + hi) / 2) hmid1 (by omega) (by omega) hlo
          (fun j hj hja => Int.lt_of_lt_of_le hx (hs _ j hj hja))
        exact ⟨this.1, by omega, this.2.2.1, this.2.2.2⟩
      · simp only [hx, if_false]
        have := ih ((lo + hi) / 2 + 1) hi (by omega) hhl (by omega)
          (fun j hj => by
            have h1 : a.getD j 0 ≤ a.getD ((lo + hi) / 2) 0 := hs j _ (by omega) (by omega)
            omega)
          hhi
        exact ⟨by omega, this.2.1, this.2.2.1, this.2.2.2⟩
    · simp only [hlt, if_false]
      have : lo = hi := by omega
      subst this
      exact ⟨Nat.le_refl _, Nat.le_refl _, hlo, hhi⟩

/-- `bisect_right` on a sorted list: the number of elements `≤ x`. -/
theorem bisectRight_spec (a : List Int) (x : Int) (hs : SortedLe a) :
    bisectRight a x ≤ a.length ∧
    (∀ j, j < bisectRight a x → a.getD j 0 ≤ x) ∧
    (∀ j, bisectRight a x ≤ j → j < a.length → x < a.getD j 0) := by
  have := bisectGo_spec a x hs (a.length + 1) 0 a.length (Nat.zero_le _) (Nat.le_refl _) (by omega)
    (fun j hj => by omega) (fun j hj hja => by omega)
  exact ⟨this.2.1, this.2.2.1, this.2.2.2⟩

/-- The specification determines the result. -/
theorem bisectRight_unique (a : List Int) (x : Int) (hs : SortedLe a) (k : Nat) (hk : k ≤ a.length)
    (h1 : ∀ j, j < k → a.getD j 0 ≤ x) (h2 : ∀ j, k ≤ j → j < a.length → x < a.getD j 0) :
    bisectRight a x = k := by
  obtain ⟨hl, g1, g2⟩ := bisectRight_spec a x hs
  rcases Nat.lt_trichotomy (bisectRight a x) k with h | h | h
  · have := h1 _ h
    have := g2 _ (Nat.le_refl _) (by omega)
    omega
  · exact h
  · have := g1 _ h
    have := h2 _ (Nat.le_refl _) (by omega)
    omega

/-! ### monotone sequences given step-wise -/

theorem lt_of_step (f : Nat → Int) (n : Nat) (h : ∀ j, j + 1 < n → f j < f (j + 1)) :
    ∀ i j, i < j → j < n → f i < f j := by
  intro i j
  induction j with
  | zero => intro h0; omega
  | succ j ih =>
    intro hij hjn
    by_cases e : i = j
    · subst e; exact h i hjn
    · have := ih (by omega) (by omega)
      have := h j hjn
      omega

theorem le_of_step (f : Nat → Int) (n : Nat) (h : ∀ j, j + 1 < n → f j < f (j + 1)) :
    ∀ i j, i ≤ j → j < n → f i ≤ f j := by
  intro i j hij hjn
  by_cases e : i = j
  · subst e; exact Int.le_refl _
  · exact Int.le_of_lt (lt_of_step f n h i j (by omega) hjn)

/-! ### the boolean check -/

theorem wfGo_sound : ∀ (us os : List Int), wfGo us os = true →
    os.length = us.length + 1 ∧
    ∀ j, j + 1 < us.length →
      us.getD j 0 < us.getD (j + 1) 0 ∧
      us.getD j 0 - os.getD j 0 * 1000 < us.getD (j + 1) 0 - os.getD (j + 1) 0 * 1000 ∧
      us.getD j 0 - os.getD j 0 * 1000 ≤ us.getD (j + 1) 0 - os.getD (j + 2) 0 * 1000 ∧
      us.getD j 0 - os.getD (j + 2) 0 * 1000 ≤ us.getD (j + 1) 0 - os.getD (j + 1) 0 * 1000 := by
  intro us os
  fun_induction wfGo us os with
  | case1 u0 u1 us o0 o1 o2 os ih =>
    intro h
    simp only [Bool.and_eq_true, decide_eq_true_eq] at h
    obtain ⟨⟨⟨⟨h1, h2⟩, h3⟩, h4⟩, h5⟩ := h
    obtain ⟨il, ih⟩ := ih h5
    refine ⟨by simp only [List.length_cons] at il ⊢; omega, ?_⟩
    intro j hj
    cases j with
    | zero => simp only [List.getD_cons_zero, List.getD_cons_succ]; exact ⟨h1, h2, h3, h4⟩
    | succ j =>
      simp only [List.getD_cons_succ]
      exact ih j (by simp only [List.length_cons] at hj ⊢; omega)
  | case2 => intro _; exact ⟨rfl, fun j hj => by simp at hj⟩
  | case3 => intro _; exact ⟨rfl, fun j hj => by simp at hj⟩
  | case4 => intro h; simp at h

theorem wfGo_complete : ∀ (us os : List Int),
    os.length = us.length + 1 →
    (∀ j, j + 1 < us.length →
      us.getD j 0 < us.getD (j + 1) 0 ∧
      us.getD j 0 - os.getD j 0 * 1000 < us.getD (j + 1) 0 - os.getD (j + 1) 0 * 1000 ∧
      us.getD j 0 - os.getD j 0 * 1000 ≤ us.getD (j + 1) 0 - os.getD (j + 2) 0 * 1000 ∧
      us.getD j 0 - os.getD (j + 2) 0 * 1000 ≤ us.getD (j + 1) 0 - os.getD (j + 1) 0 * 1000) →
    wfGo us os = true := by
  intro us os
  fun_induction wfGo us os with
  | case1 u0 u1 us o0 o1 o2 os ih =>
    intro hl h
    have h0 := h 0 (by simp)
    simp only [List.getD_cons_zero, List.getD_cons_succ] at h0
    simp only [Bool.and_eq_true, decide_eq_true_eq]
    refine ⟨⟨⟨⟨h0.1, h0.2.1⟩, h0.2.2.1⟩, h0.2.2.2⟩, ih (by simp only [List.length_cons] at hl ⊢; omega) ?_⟩
    intro j hj
    have := h (j + 1) (by simp only [List.length_cons] at hj ⊢; omega)
    simpa only [List.getD_cons_succ] using this
  | case2 => intros; rfl
  | case3 => intros; rfl
  | case4 us os h1 h2 h3 =>
    intro hl _
    exfalso
    match us, os, hl with
    | [], [o], _ => exact h3 o rfl rfl
    | [u], [o0, o1], _ => exact h2 u o0 o1 rfl rfl
    | u0 :: u1 :: us, o0 :: o1 :: o2 :: os, _ => exact h1 u0 u1 us o0 o1 o2 os rfl rfl
    | [], [], hl => simp at hl
    | [], _ :: _ :: _, hl => simp at hl
    | [_], [], hl => simp at hl
    | [_], [_], hl => simp at hl
    | [_], _ :: _ :: _ :: _, hl => simp at hl
    | _ :: _ :: _, [], hl => simp at hl
    | _ :: _ :: _, [_], hl => simp at hl
    | _ :: _ :: _, [_, _], hl => simp at hl

theorem zoneWF_iff (z : Zone) : ZoneWF z ↔ zoneWFb z = true := by
  constructor
  · intro h
    apply wfGo_complete _ _ h.len
    intro j hj
    have a := h.untils_lt j hj
    have b := h.ou_lt j hj
    have c := h.end_le_start j hj
    have d := h.gap_le_period j hj
    simp only [U, E] at a b c d
    refine ⟨a, ?_, ?_, ?_⟩ <;> omega
  · intro h
    obtain ⟨hl, hj⟩ := wfGo_sound _ _ h
    constructor
    · exact hl
    all_goals
      intro j hlt
      have := hj j hlt
      simp only [U, E]
      omega

/-! ### index facts under `ZoneWF` -/

theorem untils_sorted {z : Zone} (h : ZoneWF z) : SortedLe z.untils :=
  fun i j hij hj => le_of_step (U z) z.untils.length h.untils_lt i j hij hj

theorem offsetUntils_length {z : Zone} (h : ZoneWF z) : (offsetUntils z).length = z.untils.length := by
  simp only [offsetUntils, List.length_zipWith, h.len]
  omega

theorem offsetUntils_getD {z : Zone} (h : ZoneWF z) (j : Nat) (hj : j < z.untils.length) :
    (offsetUntils z).getD j 0 = U z j + E z j := by
  unfold offsetUntils
  rw [getD_zipWith _ _ _ _ hj (by rw [h.len]; omega)]
  simp only [U, E]
  omega

theorem offsetUntils_sorted {z : Zone} (h : ZoneWF z) : SortedLe (offsetUntils z) := by
  intro i j hij hj
  rw [offsetUntils_length h] at hj
  rw [offsetUntils_getD h i (by omega), offsetUntils_getD h j hj]
  exact le_of_step (fun j => U z j + E z j) z.untils.length h.ou_lt i j hij hj

/-- `_index`: the period containing the instant. -/
theorem index_spec {z : Zone} (h : ZoneWF z) (ts : Int) :
    index z ts ≤ z.untils.length ∧
    (∀ j, j < index z ts → U z j ≤ ts) ∧
    (∀ j, index z ts ≤ j → j < z.untils.length → ts < U z j) :=
  bisectRight_spec z.untils ts (untils_sorted h)

theorem index_eq {z : Zone} (h : ZoneWF z) (ts : Int) (k : Nat) (hk : k ≤ z.untils.length)
    (h1 : ∀ j, j < k → U z j ≤ ts) (h2 : ∀ j, k ≤ j → j < z.untils.length → ts < U z j) :
    index z ts = k :=
  bisectRight_unique z.untils ts (untils_sorted h) k hk h1 h2

/-- It is enough to compare with the two neighbouring transitions. -/
theorem index_eq_of_neighbours {z : Zone} (h : ZoneWF z) (ts : Int) (k : Nat) (hk : k ≤ z.untils.length)
    (h1 : 0 < k → U z (k - 1) ≤ ts) (h2 : k < z.untils.length → ts < U z k) :
    index z ts = k := by
  apply index_eq h ts k hk
  · intro j hj
    have := le_of_step (U z) z.untils.length h.untils_lt j (k - 1) (by omega) (by omega)
    have := h1 (by omega)
    omega
  · intro j hkj hj
    have := le_of_step (U z) z.untils.length h.untils_lt k j hkj hj
    have := h2 (by omega)
    omega

theorem eastAt_ok {z : Zone} (h : ZoneWF z) (i : Nat) (hi : i ≤ z.untils.length) :
    eastAt z i = .ok (E z i) := by
  unfold eastAt
  rw [getE_ok (by rw [h.len]; omega)]
  rfl

/-- The bisect over `offset_untils`. -/
theorem ouIndex_spec {z : Zone} (h : ZoneWF z) (wall : Int) :
    bisectRight (offsetUntils z) wall ≤ z.untils.length ∧
    (∀ j, j < bisectRight (offsetUntils z) wall → U z j + E z j ≤ wall) ∧
    (∀ j, bisectRight (offsetUntils z) wall ≤ j → j < z.untils.length → wall < U z j + E z j) := by
  obtain ⟨a, b, c⟩ := bisectRight_spec (offsetUntils z) wall (offsetUntils_sorted h)
  rw [offsetUntils_length h] at a c
  refine ⟨a, ?_, ?_⟩
  · intro j hj
    rw [← offsetUntils_getD h j (by omega)]
    exact b j hj
  · intro j hj hjn
    rw [← offsetUntils_getD h j hjn]
    exact c j hj hjn

/-- `_index_dt` unfolded under `ZoneWF`: no `IndexError`, and the result in terms of `U`/`E`. -/
theorem indexDt_eq {z : Zone} (h : ZoneWF z) (wall : Int) (favor : Option Int) :
    indexDt z wall favor = .ok
      (let i := bisectRight (offsetUntils z) wall
       if i < z.untils.length ∧ wall ≥ U z i + E z (i + 1) ∧ some (E z (i + 1)) = favor
       then i + 1 else i) := by
  obtain ⟨hle, _, _⟩ := ouIndex_spec h wall
  unfold indexDt
  simp only [offsetUntils_length h]
  by_cases hi : bisectRight (offsetUntils z) wall < z.untils.length
  · simp only [hi, if_true, true_and]
    rw [getE_ok hi, getE_ok (by rw [h.len]; omega)]
    simp only [U, E, bind, Except.bind, pure, Except.pure]
    have e : ∀ a b : Int, a - b * 1000 = a + -(b * 1000) := by intro a b; omega
    simp only [e]
    generalize bisectRight (offsetUntils z) wall = i
    by_cases c1 : wall ≥ z.untils.getD i 0 + -(z.offsets.getD (i + 1) 0 * 1000)
    · by_cases c2 : some (-(z.offsets.getD (i + 1) 0 * 1000)) = favor
      · simp only [c1, c2, if_true, and_self]
      · simp only [c1, c2, if_true, if_false, and_false]
    · simp only [c1, if_false, false_and]
  · simp only [hi, if_false, false_and]
    rfl

end Grist.Zone
