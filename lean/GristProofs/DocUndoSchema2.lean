/-
S2 continued: rename / modify column, table actions; the combined single-action theorem.
-/
import GristProofs.DocUndoSchema
namespace Grist.Doc

theorem col_eta_id {col : Col} {k : String} (h : col.id = k) : ({ col with id := k } : Col) = col := by
  subst h; rfl

theorem undo_renameColumn {d : Doc} {t old new : String}
    {D : Doc} {U : List DocAction} (h : Post d (.renameColumn t old new) D U) :
    ∃ d'', applyAll D U.reverse = .ok d'' ∧ Same d'' d := by
  obtain ⟨tb, col, hf, hc, h1, rfl, rfl⟩ := h
  have hid := (findTable?_some hf).1
  have hcol := findCol?_some hc
  have hnone := hasCol_eq_false.1 h1
  have hne : new ≠ old := by
    intro h'; subst h'; rw [hc] at hnone; simp at hnone
  have hid1 : ({ tb with cols := tb.cols.filter (fun x => x.id != old) ++ [{ col with id := new }] } :
      Table).id = t := hid
  have hfD := findTable?_replaceTable_self (d := d) hid1 hf
  have hc1 : Table.findCol?
      { tb with cols := tb.cols.filter (fun x => x.id != old) ++ [{ col with id := new }] } new =
      some { col with id := new } := by
    rw [findCol?_swap]
    simp [hne, hnone]
  have hc2 : Table.hasCol
      { tb with cols := tb.cols.filter (fun x => x.id != old) ++ [{ col with id := new }] } old =
      false := by
    apply hasCol_eq_false.2
    rw [findCol?_swap]
    simp [hne]
  have hpost : Post (replaceTable d t
      { tb with cols := tb.cols.filter (fun x => x.id != old) ++ [{ col with id := new }] })
      (.renameColumn t new old) _ _ := ⟨_, _, hfD, hc1, hc2, rfl, rfl⟩
  refine ⟨_, applyAll_single_of_post hpost, ?_⟩
  rw [replaceTable_replaceTable hid1]
  refine same_replaceTable hf hid ?_
  have hfl : (tb.cols.filter (fun x => x.id != old) ++ [({ col with id := new } : Col)]).filter
      (fun x => x.id != new) = tb.cols.filter (fun x => x.id != old) := by
    rw [filter_ne_append_single Col.id (y := ({ col with id := new } : Col)) (k := new) rfl,
      filter_ne_filter_ne Col.id (fun x hx _ => findCol?_none.1 hnone x hx)]
  dsimp only
  rw [hfl]
  exact tableSame_swap hc rfl ⟨rfl, fun _ _ => rfl⟩

theorem undo_modifyColumn {d : Doc} {t c : String} {p : ColPatch}
    {D : Doc} {U : List DocAction} (hex : (DocAction.modifyColumn t c p).undoExact d)
    (h : Post d (.modifyColumn t c p) D U) :
    ∃ d'', applyAll D U.reverse = .ok d'' ∧ Same d'' d := by
  obtain ⟨tb, col, hf, hc, ⟨_, rfl, rfl⟩ | ⟨hne, rfl, rfl⟩⟩ := h
  · exact ⟨_, rfl, Same.refl _⟩
  · have hid := (findTable?_some hf).1
    have hcol := findCol?_some hc
    have hid1 : ({ tb with cols := tb.cols.filter (fun x => x.id != c) ++ [modCol tb col c p] } :
        Table).id = t := hid
    have hfD := findTable?_replaceTable_self (d := d) hid1 hf
    have hc1 : Table.findCol?
        { tb with cols := tb.cols.filter (fun x => x.id != c) ++ [modCol tb col c p] } c =
        some (modCol tb col c p) := by
      rw [findCol?_swap]
      simp [modCol]
    have hinfo : colInfoOfPatch (modCol tb col c p).info (undoPatch col.info p) = col.info :=
      colInfoOfPatch_undoPatch col.info p
    have hne' : colInfoOfPatch (modCol tb col c p).info (undoPatch col.info p) ≠
        (modCol tb col c p).info := by
      rw [hinfo]; exact fun h' => hne h'.symm
    have hpost : Post (replaceTable d t
        { tb with cols := tb.cols.filter (fun x => x.id != c) ++ [modCol tb col c p] })
        (.modifyColumn t c (undoPatch col.info p)) _ _ :=
      ⟨_, _, hfD, hc1, .inr ⟨hne', rfl, rfl⟩⟩
    refine ⟨_, applyAll_single_of_post hpost, ?_⟩
    rw [replaceTable_replaceTable hid1]
    refine same_replaceTable hf hid ?_
    have hfl : (tb.cols.filter (fun x => x.id != c) ++ [modCol tb col c p]).filter
        (fun x => x.id != c) = tb.cols.filter (fun x => x.id != c) := by
      rw [filter_ne_append_single Col.id (y := modCol tb col c p) (k := c) rfl,
        filter_ne_filter_ne Col.id (fun x _ hx => hx)]
    dsimp only
    rw [hfl]
    apply tableSame_swap hc rfl
    refine ⟨hinfo, fun r hr => ?_⟩
    have hr' : tb.rows.contains r = true := by simpa using hr
    simp only [modCol, hr', ↓reduceIte]
    have := hex tb col hf hc r hr
    rw [show (colInfoOfPatch (colInfoOfPatch col.info p) (undoPatch col.info p)) = col.info from
      colInfoOfPatch_undoPatch col.info p]
    exact this

theorem undo_addTable {d : Doc} {t : String} {cols : List (String × ColInfo)}
    {D : Doc} {U : List DocAction} (h : Post d (.addTable t cols) D U) :
    ∃ d'', applyAll D U.reverse = .ok d'' ∧ Same d'' d := by
  obtain ⟨hf, rfl, rfl⟩ := h
  have hfD : findTable? (d ++ [newTable t cols]) t = some (newTable t cols) := by
    rw [findTable?_append_single, hf]
    simp [newTable]
  have hpost : Post (d ++ [newTable t cols]) (.removeTable t) _ _ := ⟨_, hfD, rfl, rfl⟩
  refine ⟨_, applyAll_single_of_post hpost, ?_⟩
  rw [filter_ne_append_single Table.id (y := newTable t cols) (k := t) rfl,
    filter_ne_eq_self Table.id (findTable?_none.1 hf)]
  exact Same.refl d

theorem undo_renameTable {d : Doc} {old new : String}
    {D : Doc} {U : List DocAction} (h : Post d (.renameTable old new) D U) :
    ∃ d'', applyAll D U.reverse = .ok d'' ∧ Same d'' d := by
  obtain ⟨tb, hf, hn, rfl, rfl⟩ := h
  have hid := (findTable?_some hf).1
  have hne : new ≠ old := by
    intro h'; subst h'; rw [hf] at hn; simp at hn
  have hf1 : findTable? (d.filter (fun x => x.id != old) ++ [{ tb with id := new }]) new =
      some { tb with id := new } := by
    rw [findTable?_append_single, findTable?_filter_ne]
    simp [hne, hn]
  have hf2 : findTable? (d.filter (fun x => x.id != old) ++ [{ tb with id := new }]) old = none := by
    rw [findTable?_append_single, findTable?_filter_ne]
    simp [hne]
  have hpost : Post (d.filter (fun x => x.id != old) ++ [{ tb with id := new }])
      (.renameTable new old) _ _ := ⟨_, hf1, hf2, rfl, rfl⟩
  refine ⟨_, applyAll_single_of_post hpost, ?_⟩
  rw [filter_ne_append_single Table.id (y := ({ tb with id := new } : Table)) (k := new) rfl,
    filter_ne_filter_ne Table.id (fun x hx _ => findTable?_none.1 hn x hx)]
  exact same_filter_append hf rfl (by
    show Table.Same { ({ tb with id := new } : Table) with id := old } tb
    subst hid
    exact Table.Same.refl _)

theorem replaceTable_filter_append {D : Doc} {t : String} {nt W : Table}
    (hD : ∀ x ∈ D, x.id ≠ t) (hnt : nt.id = t) :
    replaceTable (D ++ [nt]) t W = D ++ [W] := by
  unfold replaceTable
  rw [List.map_append]
  congr 1
  · conv => rhs; rw [← List.map_id D]
    apply List.map_congr_left
    intro x hx
    simp [hD x hx]
  · simp [hnt]

theorem undo_removeTable {d : Doc} {t : String}
    {D : Doc} {U : List DocAction} (hwf : WF d) (hn : Normal d)
    (h : Post d (.removeTable t) D U) :
    ∃ d'', applyAll D U.reverse = .ok d'' ∧ Same d'' d := by
  obtain ⟨tb, hf, rfl, rfl⟩ := h
  have htb := hwf.table hf
  have hntb := hn.table hf
  have hid := (findTable?_some hf).1
  generalize hinfos : tb.cols.map (fun col => (col.id, col.info)) = infos
  have hfD : findTable? (d.filter (fun x => x.id != t)) t = none := by
    rw [findTable?_filter_ne]; simp
  have hpost1 : Post (d.filter (fun x => x.id != t)) (.addTable t infos) _ _ := ⟨hfD, rfl, rfl⟩
  have hrev : (removeTableDataUndo t tb ++ [DocAction.addTable t infos]).reverse =
      DocAction.addTable t infos :: removeTableDataUndo t tb := by
    rw [List.reverse_append]
    simp only [List.reverse_cons, List.reverse_nil, List.nil_append, List.singleton_append,
      List.cons.injEq, true_and]
    simp only [removeTableDataUndo]
    by_cases h1 : tb.rows.isEmpty = true <;> simp [h1]
  rw [hrev, applyAll_cons_of_post _ hpost1]
  have hcolsnt : (newTable t infos).cols = tb.cols.map (fun x => newCol x.id x.info) := by
    rw [← hinfos]
    simp [newTable, List.map_map, Function.comp_def]
  simp only [removeTableDataUndo]
  by_cases he : tb.rows = []
  · simp only [he, List.isEmpty_nil, ↓reduceIte]
    refine ⟨_, rfl, same_filter_append hf rfl ?_⟩
    apply tableSame_map (fun x => newCol x.id x.info) (fun _ => rfl) hcolsnt (by rw [he]; rfl)
    intro x _
    refine ⟨rfl, fun r hr => ?_⟩
    rw [he] at hr; simp at hr
  · have he' : tb.rows.isEmpty = false := by simpa using he
    simp only [he', Bool.false_eq_true, ↓reduceIte]
    generalize hvals : tb.cols.map (fun col => (col.id, tb.rows.map col.cells)) = vals
    have hfD1 : findTable? (d.filter (fun x => x.id != t) ++ [newTable t infos]) t =
        some (newTable t infos) := by
      rw [findTable?_append_single, hfD]
      simp [newTable]
    have hposr : ∀ r ∈ tb.rows, 0 < r := htb.2.2.1
    have hntwf : (newTable t infos).WF := newTable_WF t (by
      rw [← hinfos]; simp only [List.map_map]; exact htb.1)
    have hwf1 := hntwf.addRows hposr
    have hkeys : ∀ cv ∈ vals, Table.hasCol
        { newTable t infos with rows := insertRows tb.rows (newTable t infos).rows } cv.1 = true := by
      intro cv hcv
      rw [← hvals] at hcv
      obtain ⟨y, hy, rfl⟩ := List.mem_map.1 hcv
      rw [hasCol_of_map_id_eq (tb := tb) (by
        show (newTable t infos).cols.map (·.id) = _
        rw [hcolsnt]; simp [List.map_map, Function.comp_def, newCol])]
      exact hasCol_of_mem hy
    have hw := writeCols_eq_written vals _ tb.rows hwf1.1 hkeys
    have hpost2 : Post (d.filter (fun x => x.id != t) ++ [newTable t infos])
        (.bulkAdd t tb.rows vals) _ _ :=
      ⟨_, _, hfD1, by simp [newTable], by rw [filter_ne_zero_of_pos hposr]; exact hw, rfl, rfl⟩
    refine ⟨_, applyAll_single_of_post hpost2, ?_⟩
    rw [replaceTable_filter_append (D := d.filter (fun x => x.id != t)) (t := t)
      (nt := newTable t infos) (fun x hx => by simpa using (List.mem_filter.1 hx).2) rfl]
    refine same_filter_append hf rfl ?_
    apply tableSame_map (fun x => Col.written tb.rows vals (newCol x.id x.info)) (fun _ => rfl)
    · simp only [Table.written, hcolsnt, List.map_map, Function.comp_def]
    · exact insertRows_nil_of_sorted htb.2.1
    · intro x hx
      refine ⟨rfl, fun r hr => ?_⟩
      simp only [Col.written, newCol]
      rw [writeCells_const _ _ _ x.cells hr]
      · exact hntb x hx r
      · intro cv hcv hk
        rw [← hvals] at hcv
        obtain ⟨y, hy, rfl⟩ := List.mem_map.1 hcv
        have : y = x := eq_of_mem_of_id_eq htb.1 hy hx hk
        subst this; rfl
      · left
        refine ⟨(x.id, tb.rows.map x.cells), ?_, rfl⟩
        rw [← hvals]
        exact List.mem_map.2 ⟨x, hx, rfl⟩

/-! ### S2, all constructors -/

theorem post_undo {d : Doc} {a : DocAction} {D : Doc} {U : List DocAction} (hwf : WF d)
    (hn : Normal d) (hpos : a.rowsPositive) (hex : a.undoExact d) (h : Post d a D U) :
    ∃ d'', applyAll D U.reverse = .ok d'' ∧ Same d'' d := by
  cases a with
  | bulkAdd t rows cols => exact undo_bulkAdd hwf hpos h
  | bulkRemove t rows => exact undo_bulkRemove hwf hn h
  | bulkUpdate t rows cols => exact undo_bulkUpdate hwf hn h
  | replaceData t rows cols => exact undo_replaceData hwf hn hpos hex h
  | addColumn t c info => exact undo_addColumn h
  | removeColumn t c => exact undo_removeColumn hwf hn hex h
  | renameColumn t old new => exact undo_renameColumn h
  | modifyColumn t c p => exact undo_modifyColumn hex h
  | addTable t cols => exact undo_addTable h
  | removeTable t => exact undo_removeTable hwf hn h
  | renameTable old new => exact undo_renameTable h

end Grist.Doc
