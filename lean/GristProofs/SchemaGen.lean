/-
Helper lemmas for GristProps/C38.lean (model: GristModel/SchemaGen.lean).  No generated data here.
-/
import GristModel.SchemaGen
namespace Grist.SchemaGen

/-! ### lists -/

/-- `l.map f = l'` says: same length, and position by position `l'` holds the image. -/
theorem map_eq_iff_index {α β : Type} (f : α → β) (l : List α) (l' : List β) :
    l.map f = l' ↔ l'.length = l.length ∧ ∀ (i : Nat) (h : i < l.length), l'[i]? = some (f l[i]) := by
  constructor
  · intro h
    subst h
    exact ⟨by simp, fun i hi => by simp [hi]⟩
  · intro ⟨hlen, hidx⟩
    apply List.ext_getElem?
    intro i
    by_cases hi : i < l.length
    · rw [hidx i hi]; simp [hi]
    · have h1 : l.length ≤ i := Nat.le_of_not_lt hi
      have h2 : l'.length ≤ i := by omega
      simp [h1, h2]

theorem lookup_isSome_of_mem_keys {β : Type} (k : String) :
    ∀ (tbl : List (String × β)), k ∈ tbl.map (·.1) → ∃ v, tbl.lookup k = some v := by
  intro tbl
  induction tbl with
  | nil => intro h; simp at h
  | cons e rest ih =>
    intro h
    obtain ⟨k', v'⟩ := e
    by_cases hk : k = k'
    · subst hk; exact ⟨v', by simp [List.lookup]⟩
    · have hne : (k == k') = false := by simpa using hk
      simp only [List.map_cons, List.mem_cons] at h
      rcases h with h | h
      · exact absurd h hk
      · obtain ⟨v, hv⟩ := ih h
        exact ⟨v, by simp [List.lookup, hne, hv]⟩

theorem lookup_none_of_not_mem_keys {β : Type} (k : String) :
    ∀ (tbl : List (String × β)), k ∉ tbl.map (·.1) → tbl.lookup k = none := by
  intro tbl
  induction tbl with
  | nil => intro _; rfl
  | cons e rest ih =>
    intro h
    obtain ⟨k', v'⟩ := e
    simp only [List.map_cons, List.mem_cons, not_or] at h
    have hne : (k == k') = false := by simpa using h.1
    simp [List.lookup, hne, ih h.2]

/-! ### `pureType` -/

theorem takeWhile_idem {α : Type} (p : α → Bool) : ∀ l : List α, (l.takeWhile p).takeWhile p = l.takeWhile p := by
  intro l
  induction l with
  | nil => rfl
  | cons a l ih =>
    by_cases h : p a
    · simp [List.takeWhile, h, ih]
    · simp [List.takeWhile, h]

theorem pureType_idem (s : String) : pureType (pureType s) = pureType s := by
  simp [pureType, takeWhile_idem]

theorem takeWhile_append_stop {α : Type} (p : α → Bool) (c : α) (hc : p c = false) :
    ∀ (l r : List α), (∀ x ∈ l, p x = true) → (l ++ c :: r).takeWhile p = l := by
  intro l r
  induction l with
  | nil => intro _; simp [hc]
  | cons a l ih =>
    intro h
    have ha : p a = true := h a (by simp)
    simp only [List.cons_append, List.takeWhile, ha]
    rw [ih (fun x hx => h x (by simp [hx]))]

/-- `'Ref:_grist_Tables'.split(':', 1)[0] == 'Ref'` in general: a colon-free base followed by a
colon and ANY suffix (which may itself contain colons) has that base as its pure type. -/
theorem pureType_suffix (b s : String) (hb : ':' ∉ b.toList) : pureType (b ++ ":" ++ s) = b := by
  have h : (b ++ ":" ++ s).toList = b.toList ++ ':' :: s.toList := by simp
  rw [pureType, h, takeWhile_append_stop (· != ':') ':' (by decide)]
  · simp
  · intro x hx
    have : x ≠ ':' := fun e => hb (e ▸ hx)
    simpa using this

theorem takeWhile_all {α : Type} (p : α → Bool) :
    ∀ l : List α, (∀ x ∈ l, p x = true) → l.takeWhile p = l := by
  intro l
  induction l with
  | nil => intro _; rfl
  | cons a l ih =>
    intro h
    have ha : p a = true := h a (by simp)
    simp only [List.takeWhile, ha]
    rw [ih (fun x hx => h x (by simp [hx]))]

theorem pureType_of_no_colon (b : String) (hb : ':' ∉ b.toList) : pureType b = b := by
  have : b.toList.takeWhile (· != ':') = b.toList := by
    apply takeWhile_all
    intro x hx
    have : x ≠ ':' := fun e => hb (e ▸ hx)
    simpa using this
  simp [pureType, this]

/-! ### tables, lookups, defaults -/

theorem tsTable_eq_iff (name : String) (cols : List ColSchema) (f : ColSchema → TsEntry) (tt : TsTable) :
    tt = ⟨name, cols.map f⟩ ↔
      tt.tableId = name ∧ tt.entries.length = cols.length ∧
        ∀ (j : Nat) (h : j < cols.length), tt.entries[j]? = some (f cols[j]) := by
  obtain ⟨n, es⟩ := tt
  simp only [TsTable.mk.injEq]
  constructor
  · rintro ⟨h1, h2⟩
    exact ⟨h1, (map_eq_iff_index f cols es).mp h2.symm⟩
  · rintro ⟨h1, h2⟩
    exact ⟨h1, ((map_eq_iff_index f cols es).mpr h2).symm⟩

theorem find_entries (f : ColSchema → TsEntry) (hf : ∀ c, (f c).id = c.id) (col : String) :
    ∀ cols : List ColSchema, ((cols.map f).find? (·.id == col)).map (·.ty) =
      (cols.find? (·.id == col)).map (fun c => (f c).ty)
  | [] => rfl
  | c :: cs => by
    simp only [List.map_cons, List.find?_cons, hf]
    cases (c.id == col)
    · exact find_entries f hf col cs
    · rfl

theorem tsColType_map (f : ColSchema → TsEntry) (hf : ∀ c, (f c).id = c.id) (tbl col : String) :
    ∀ tables : List TableSchema,
      tsColType (tables.map fun t => ⟨t.tableId, t.columns.map f⟩) tbl col =
        (tables.find? (·.tableId == tbl)).bind fun t =>
          (t.columns.find? (·.id == col)).map (fun c => (f c).ty)
  | [] => rfl
  | t :: ts => by
    have ih := tsColType_map f hf tbl col ts
    unfold tsColType at ih ⊢
    simp only [List.map_cons, List.find?_cons]
    cases (t.tableId == tbl)
    · exact ih
    · exact find_entries f hf col t.columns

theorem tsDefault_pure (ts : DefaultTable) (ty : String) : tsDefault ts (pureType ty) = tsDefault ts ty := by
  unfold tsDefault; rw [pureType_idem]

theorem pyDefault_pure (py : DefaultTable) (ty : String) : pyDefault py (pureType ty) = pyDefault py ty := by
  unfold pyDefault; rw [pureType_idem]

end Grist.SchemaGen
