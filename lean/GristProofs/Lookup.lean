/-
Helper lemmas for GristProps/C13.lean about GristModel/Lookup.lean:
  A. Python dict (association list) laws
  B. the bin types of twowaymap.py satisfy one common contract (`Lawful`)
  C. TwoWayMap: `_fwd` / `_bwd` stay mutually inverse under every public operation
-/
import GristModel.Lookup
import GristProofs.SortedFind
set_option linter.unusedSimpArgs false
set_option linter.unusedVariables false
set_option linter.unusedSectionVars false
namespace Grist.Lookup

/-- closes `a = b ↔ b = a` / `a = b → b = a` left over by `simp` -/
macro "symm_close" : tactic =>
  `(tactic| first | done | exact eq_comm | exact fun h => h.symm | exact ⟨fun h => h.symm, fun h => h.symm⟩)

/-! ### A. dict -/
section dict
variable {κ ν : Type} [DecidableEq κ]

theorem dget_ddel (k k' : κ) (d : Dict κ ν) :
    dget k' (ddel k d) = if k' = k then none else dget k' d := by
  induction d with
  | nil => simp [ddel, dget]
  | cons p t ih =>
    obtain ⟨a, v⟩ := p
    by_cases h : a = k
    · subst h
      simp only [ddel, if_true, ih, dget]
      by_cases h2 : k' = a
      · simp [h2]
      · have : ¬ a = k' := fun e => h2 e.symm
        simp [h2, this]
    · simp only [ddel, h, if_false, dget, ih]
      by_cases h2 : a = k'
      · have : ¬ k' = k := fun e => h (h2.trans e)
        simp [h2, this]
      · simp [h2]

theorem dget_dset (k k' : κ) (v : ν) (d : Dict κ ν) :
    dget k' (dset k v d) = if k' = k then some v else dget k' d := by
  simp only [dset, dget, dget_ddel]
  by_cases h : k = k'
  · simp [h]
  · have : ¬ k' = k := fun e => h e.symm
    simp [h, this]

theorem dget_nil (k : κ) : dget k ([] : Dict κ ν) = none := rfl

theorem dget_of_isEmpty {d : Dict κ ν} (h : d.isEmpty = true) (k : κ) : dget k d = none := by
  cases d with
  | nil => rfl
  | cons _ _ => simp at h

end dict

/-! ### B. the contract of a bin type -/

/-- `x` is among the values stored under `k` -/
def Rel {κ γ σ : Type} [DecidableEq κ] (B : BinOps κ γ σ) (d : Dict κ σ) (k : κ) (x : γ) : Prop :=
  ∃ s, dget k d = some s ∧ x ∈ B.items s

/-- What `TwoWayMap` needs from a bin type.  `wf` is the bin's own invariant on a mapping,
    `hk` / `hv` say which keys / values are hashable. -/
structure Lawful {κ γ σ : Type} [DecidableEq κ] (B : BinOps κ γ σ) (hk : κ → Bool) (hv : γ → Bool)
    (wf : Dict κ σ → Prop) : Prop where
  wf_nil : wf []
  key_hashable : ∀ {d k x}, wf d → Rel B d k x → hk k = true
  add_spec : ∀ {d k v rem add d'}, wf d → B.addItem d k v = .ok (rem, add, d') →
    wf d' ∧ hk k = true ∧
    (∀ k' x, Rel B d' k' x ↔ ((k' = k ∧ x = v) ∨ (Rel B d k' x ∧ ¬ (k' = k ∧ rem = some x)))) ∧
    (∀ x, rem = some x → Rel B d k x ∧ x ≠ v)
  add_undo : ∀ {d k v rem add d'}, wf d → B.addItem d k v = .ok (rem, add, d') →
    ∃ d'', B.undoAdd d' k rem add = .ok d'' ∧ wf d'' ∧ ∀ k' x, Rel B d'' k' x ↔ Rel B d k' x
  rem_spec : ∀ {d k v d'}, wf d → B.removeItem d k v = .ok d' →
    wf d' ∧ hk k = true ∧ ∀ k' x, Rel B d' k' x ↔ (Rel B d k' x ∧ ¬ (k' = k ∧ x = v))
  rem_total : ∀ {d k v}, hk k = true → hv v = true → ∃ d', B.removeItem d k v = .ok d'
  remKey_spec : ∀ {d k xs d'}, wf d → B.removeKey d k = .ok (xs, d') →
    wf d' ∧ (∀ x, x ∈ xs ↔ Rel B d k x) ∧ ∀ k' x, Rel B d' k' x ↔ (Rel B d k' x ∧ k' ≠ k)

section single
variable {κ γ : Type} [DecidableEq κ] [DecidableEq γ] (hk : κ → Bool)

/-- invariant of the single-value bins: stored keys are hashable -/
def wfSingle (d : Dict κ γ) : Prop := ∀ k s, dget k d = some s → hk k = true

theorem rel_single (d : Dict κ γ) (k : κ) (x : γ) :
    Rel (singleOps (γ := γ) hk) d k x ↔ dget k d = some x := by
  simp [Rel, singleOps]

theorem rel_strict (d : Dict κ γ) (k : κ) (x : γ) :
    Rel (strictOps (γ := γ) hk) d k x ↔ dget k d = some x := by
  simp [Rel, strictOps]

theorem wfSingle_dset {d : Dict κ γ} {k : κ} (v : γ) (h : wfSingle hk d) (hkk : hk k = true) :
    wfSingle hk (dset k v d) := by
  intro k' s hs
  rw [dget_dset] at hs
  by_cases e : k' = k
  · rw [e]; exact hkk
  · simp [e] at hs; exact h k' s hs

theorem wfSingle_ddel {d : Dict κ γ} (k : κ) (h : wfSingle hk d) : wfSingle hk (ddel k d) := by
  intro k' s hs
  rw [dget_ddel] at hs
  by_cases e : k' = k
  · simp [e] at hs
  · simp [e] at hs; exact h k' s hs

theorem lawful_single (hv : γ → Bool) :
    Lawful (singleOps (γ := γ) hk) hk hv (wfSingle hk) where
  wf_nil := by intro k s h; simp [dget] at h
  key_hashable := by
    intro d k x hw hr
    obtain ⟨s, hs, _⟩ := hr
    exact hw k s hs
  add_spec := by
    intro d k v rem add d' hw h
    simp only [singleOps] at h
    by_cases hkk : hk k = true
    · simp only [hkk, if_true] at h
      cases hg : dget k d with
      | none =>
        simp only [hg] at h
        injection h with h; injection h with h1 h; injection h with h2 h3
        subst h1 h2 h3
        refine ⟨wfSingle_dset hk v hw hkk, hkk, ?_, by simp⟩
        intro k' x
        rw [rel_single, rel_single, dget_dset]
        by_cases e : k' = k
        · subst e; simp [hg]; symm_close
        · simp [e]
      | some stored =>
        simp only [hg] at h
        by_cases es : stored = v
        · simp only [es, if_true] at h
          injection h with h; injection h with h1 h; injection h with h2 h3
          subst h1 h2 h3
          refine ⟨wfSingle_dset hk v hw hkk, hkk, ?_, by simp⟩
          intro k' x
          rw [rel_single, rel_single, dget_dset]
          by_cases e : k' = k
          · subst e; simp [hg, es]; symm_close
          · simp [e]
        · simp only [es, if_false] at h
          injection h with h; injection h with h1 h; injection h with h2 h3
          subst h1 h2 h3
          refine ⟨wfSingle_dset hk v hw hkk, hkk, ?_, ?_⟩
          · intro k' x
            rw [rel_single, rel_single, dget_dset]
            by_cases e : k' = k
            · subst e
              simp only [if_true, true_and, hg, Option.some.injEq]
              constructor
              · intro h; exact Or.inl h.symm
              · rintro (h | ⟨h1, h2⟩)
                · exact h.symm
                · exact absurd h1 h2
            · simp [e]
          · intro x hx
            injection hx with hx
            subst hx
            exact ⟨(rel_single hk d k stored).mpr hg, es⟩
    · simp [hkk] at h
  add_undo := by
    intro d k v rem add d' hw h
    simp only [singleOps] at h
    by_cases hkk : hk k = true
    · simp only [hkk, if_true] at h
      cases hg : dget k d with
      | none =>
        simp only [hg] at h
        injection h with h; injection h with h1 h; injection h with h2 h3
        subst h1 h2 h3
        refine ⟨ddel k (dset k v d), ?_, wfSingle_ddel hk k (wfSingle_dset hk v hw hkk), ?_⟩
        · simp [BinOps.undoAdd, singleOps, hkk, dget_dset, bind, Except.bind, pure, Except.pure]
        · intro k' x
          rw [rel_single, rel_single, dget_ddel, dget_dset]
          by_cases e : k' = k
          · subst e; simp [hg]
          · simp [e]
      | some stored =>
        simp only [hg] at h
        by_cases es : stored = v
        · simp only [es, if_true] at h
          injection h with h; injection h with h1 h; injection h with h2 h3
          subst h1 h2 h3
          refine ⟨dset k v d, ?_, wfSingle_dset hk v hw hkk, ?_⟩
          · simp [BinOps.undoAdd, bind, Except.bind, pure, Except.pure]
          · intro k' x
            rw [rel_single, rel_single, dget_dset]
            by_cases e : k' = k
            · subst e; simp [hg, es]; symm_close
            · simp [e]
        · simp only [es, if_false] at h
          injection h with h; injection h with h1 h; injection h with h2 h3
          subst h1 h2 h3
          refine ⟨dset k stored (ddel k (dset k v d)), ?_, ?_, ?_⟩
          · simp [BinOps.undoAdd, singleOps, hkk, dget_dset, dget_ddel, bind, Except.bind, pure,
              Except.pure, Except.map]
          · exact wfSingle_dset hk _ (wfSingle_ddel hk k (wfSingle_dset hk v hw hkk)) hkk
          · intro k' x
            rw [rel_single, rel_single, dget_dset, dget_ddel, dget_dset]
            by_cases e : k' = k
            · subst e; simp [hg]
            · simp [e]
    · simp [hkk] at h
  rem_spec := by
    intro d k v d' hw h
    simp only [singleOps] at h
    by_cases hkk : hk k = true
    · simp only [hkk, if_true] at h
      cases hg : dget k d with
      | none =>
        simp only [hg] at h
        injection h with h; subst h
        refine ⟨hw, hkk, ?_⟩
        intro k' x
        rw [rel_single]
        constructor
        · intro h; refine ⟨h, ?_⟩; rintro ⟨rfl, rfl⟩; simp [hg] at h
        · exact fun h => h.1
      | some stored =>
        simp only [hg] at h
        by_cases es : stored = v
        · simp only [es, if_true] at h
          injection h with h; subst h
          refine ⟨wfSingle_ddel hk k hw, hkk, ?_⟩
          intro k' x
          rw [rel_single, rel_single, dget_ddel]
          by_cases e : k' = k
          · subst e; simp [hg, es]; symm_close
          · simp [e]
        · simp only [es, if_false] at h
          injection h with h; subst h
          refine ⟨hw, hkk, ?_⟩
          intro k' x
          rw [rel_single]
          constructor
          · intro h; refine ⟨h, ?_⟩; rintro ⟨rfl, rfl⟩
            rw [hg] at h; injection h with h; exact es h
          · exact fun h => h.1
    · simp [hkk] at h
  rem_total := by
    intro d k v hkk _
    simp only [singleOps, hkk, if_true]
    cases dget k d with
    | none => exact ⟨_, rfl⟩
    | some stored => by_cases es : stored = v <;> simp [es]
  remKey_spec := by
    intro d k xs d' hw h
    simp only [singleOps] at h
    by_cases he : d.isEmpty = true
    · simp only [he, if_true] at h
      injection h with h; injection h with h1 h2; subst h1 h2
      refine ⟨hw, ?_, ?_⟩
      · intro x; simp [rel_single, dget_of_isEmpty he]
      · intro k' x; simp [rel_single, dget_of_isEmpty he]
    · simp only [he, if_false] at h
      by_cases hkk : hk k = true
      · simp only [hkk, if_true] at h
        cases hg : dget k d with
        | none =>
          simp only [hg] at h
          injection h with h; injection h with h1 h2; subst h1 h2
          refine ⟨hw, ?_, ?_⟩
          · intro x; simp [rel_single, hg]
          · intro k' x; rw [rel_single]
            constructor
            · intro h; refine ⟨h, ?_⟩; rintro rfl; simp [hg] at h
            · exact fun h => h.1
        | some stored =>
          simp only [hg] at h
          injection h with h; injection h with h1 h2; subst h1 h2
          refine ⟨wfSingle_ddel hk k hw, ?_, ?_⟩
          · intro x; simp [rel_single, hg]; symm_close
          · intro k' x; rw [rel_single, rel_single, dget_ddel]
            by_cases e : k' = k
            · simp [e]
            · simp [e]
      · simp [hkk] at h

theorem lawful_strict (hv : γ → Bool) :
    Lawful (strictOps (γ := γ) hk) hk hv (wfSingle hk) where
  wf_nil := (lawful_single hk hv).wf_nil
  key_hashable := fun hw hr => (lawful_single hk hv).key_hashable hw hr
  rem_spec := fun hw h => (lawful_single hk hv).rem_spec hw h
  rem_total := fun h1 h2 => (lawful_single hk hv).rem_total h1 h2
  remKey_spec := fun hw h => (lawful_single hk hv).remKey_spec hw h
  add_spec := by
    intro d k v rem add d' hw h
    simp only [strictOps] at h
    by_cases hkk : hk k = true
    · simp only [hkk, if_true] at h
      cases hg : dget k d with
      | none =>
        simp only [hg] at h
        injection h with h; injection h with h1 h; injection h with h2 h3
        subst h1 h2 h3
        refine ⟨wfSingle_dset hk v hw hkk, hkk, ?_, by simp⟩
        intro k' x
        rw [rel_strict, rel_strict, dget_dset]
        by_cases e : k' = k
        · subst e; simp [hg]; symm_close
        · simp [e]
      | some stored =>
        simp only [hg] at h
        by_cases es : stored = v
        · simp only [es, if_true] at h
          injection h with h; injection h with h1 h; injection h with h2 h3
          subst h1 h2 h3
          refine ⟨hw, hkk, ?_, by simp⟩
          intro k' x
          rw [rel_strict]
          by_cases e : k' = k
          · subst e; simp [hg, es]; symm_close
          · simp [e]
        · simp [es] at h
    · simp [hkk] at h
  add_undo := by
    intro d k v rem add d' hw h
    simp only [strictOps] at h
    by_cases hkk : hk k = true
    · simp only [hkk, if_true] at h
      cases hg : dget k d with
      | none =>
        simp only [hg] at h
        injection h with h; injection h with h1 h; injection h with h2 h3
        subst h1 h2 h3
        refine ⟨ddel k (dset k v d), ?_, wfSingle_ddel hk k (wfSingle_dset hk v hw hkk), ?_⟩
        · simp [BinOps.undoAdd, strictOps, singleOps, hkk, dget_dset, bind, Except.bind, pure, Except.pure]
        · intro k' x
          rw [rel_strict, rel_strict, dget_ddel, dget_dset]
          by_cases e : k' = k
          · subst e; simp [hg]
          · simp [e]
      | some stored =>
        simp only [hg] at h
        by_cases es : stored = v
        · simp only [es, if_true] at h
          injection h with h; injection h with h1 h; injection h with h2 h3
          subst h1 h2 h3
          exact ⟨d, by simp [BinOps.undoAdd, bind, Except.bind, pure, Except.pure], hw, fun _ _ => Iff.rfl⟩
        · simp [es] at h
    · simp [hkk] at h

end single

section container
variable {κ γ σ : Type} [DecidableEq κ] [DecidableEq γ]

/-- what `register_container` demands of the three functions -/
structure LawfulC (C : Container γ σ) : Prop where
  items_make : ∀ v, C.items (C.make v) = [v]
  add_none : ∀ s v, C.add s v = none ↔ v ∈ C.items s
  add_some : ∀ s v c, C.add s v = some c → C.items c = C.items s ++ [v]
  items_remove : ∀ s v, C.items (C.remove s v) = (C.items s).erase v

/-- invariant of a container bin: hashable keys, containers without duplicates and never empty
    (`if not stored: del mapping[key]`) -/
def wfC (C : Container γ σ) (hk : κ → Bool) (d : Dict κ σ) : Prop :=
  ∀ k s, dget k d = some s → hk k = true ∧ (C.items s).Nodup ∧ C.items s ≠ []

variable (C : Container γ σ) (hk : κ → Bool) (hv : γ → Bool)

theorem rel_container (d : Dict κ σ) (k : κ) (x : γ) :
    Rel (containerOps C hk hv) d k x ↔ ∃ s, dget k d = some s ∧ x ∈ C.items s := Iff.rfl

theorem wfC_dset {d : Dict κ σ} {k : κ} (c : σ) (h : wfC C hk d) (hkk : hk k = true)
    (hn : (C.items c).Nodup) (he : C.items c ≠ []) : wfC C hk (dset k c d) := by
  intro k' s hs
  rw [dget_dset] at hs
  by_cases e : k' = k
  · simp [e] at hs; subst hs; rw [e]; exact ⟨hkk, hn, he⟩
  · simp [e] at hs; exact h k' s hs

theorem wfC_ddel {d : Dict κ σ} (k : κ) (h : wfC C hk d) : wfC C hk (ddel k d) := by
  intro k' s hs
  rw [dget_ddel] at hs
  by_cases e : k' = k
  · simp [e] at hs
  · simp [e] at hs; exact h k' s hs

theorem erase_append_self {l : List γ} {v : γ} (h : v ∉ l) : (l ++ [v]).erase v = l := by
  rw [List.erase_append_right _ h]; simp

theorem nodup_snoc {l : List γ} {v : γ} (hnd : l.Nodup) (h : v ∉ l) : (l ++ [v]).Nodup := by
  refine List.nodup_append.mpr ⟨hnd, by simp, ?_⟩
  intro a ham b hb
  simp at hb; subst hb
  intro e; subst e; exact h ham

theorem lawful_container (LC : LawfulC C) :
    Lawful (containerOps C hk hv) hk hv (wfC C hk) where
  wf_nil := by intro k s h; simp [dget] at h
  key_hashable := by
    intro d k x hw hr
    obtain ⟨s, hs, _⟩ := hr
    exact (hw k s hs).1
  add_spec := by
    intro d k v rem add d' hw h
    simp only [containerOps] at h
    by_cases hkk : hk k = true
    · simp only [hkk, if_true] at h
      by_cases hh : (C.hashesValue && !hv v) = true
      · cases hg : dget k d <;> simp [hg, hh] at h
      · cases hg : dget k d with
        | none =>
          simp only [hg, hh, if_false] at h
          injection h with h; injection h with h1 h; injection h with h2 h3
          subst h1 h2 h3
          refine ⟨wfC_dset C hk _ hw hkk (by simp [LC.items_make]) (by simp [LC.items_make]), hkk, ?_, by simp⟩
          intro k' x
          rw [rel_container, rel_container]
          by_cases e : k' = k
          · subst e; simp [dget_dset, hg, LC.items_make]
          · simp [dget_dset, e]
        | some stored =>
          simp only [hg, hh, if_false] at h
          cases ha : C.add stored v with
          | none =>
            simp only [ha] at h
            injection h with h; injection h with h1 h; injection h with h2 h3
            subst h1 h2 h3
            refine ⟨hw, hkk, ?_, by simp⟩
            intro k' x
            rw [rel_container]
            constructor
            · intro h; exact Or.inr ⟨h, by simp⟩
            · rintro (⟨rfl, rfl⟩ | ⟨h, _⟩)
              · exact ⟨stored, hg, (LC.add_none stored x).mp ha⟩
              · exact h
          | some c =>
            simp only [ha] at h
            injection h with h; injection h with h1 h; injection h with h2 h3
            subst h1 h2 h3
            have hnot : v ∉ C.items stored := by
              intro hm; rw [(LC.add_none stored v).mpr hm] at ha; simp at ha
            have hi := LC.add_some stored v c ha
            obtain ⟨_, hnd, hne⟩ := hw k stored hg
            refine ⟨wfC_dset C hk _ hw hkk ?_ ?_, hkk, ?_, by simp⟩
            · rw [hi]; exact nodup_snoc hnd hnot
            · rw [hi]; simp
            · intro k' x
              rw [rel_container, rel_container]
              by_cases e : k' = k
              · subst e; simp [dget_dset, hg, hi]; exact or_comm
              · simp [dget_dset, e]
    · simp [hkk] at h
  add_undo := by
    intro d k v rem add d' hw h
    simp only [containerOps] at h
    by_cases hkk : hk k = true
    · simp only [hkk, if_true] at h
      by_cases hh : (C.hashesValue && !hv v) = true
      · cases hg : dget k d <;> simp [hg, hh] at h
      · have hh' : ¬ (C.hashesValue = true ∧ hv v = false) := by simpa using hh
        cases hg : dget k d with
        | none =>
          simp only [hg, hh, if_false] at h
          injection h with h; injection h with h1 h; injection h with h2 h3
          subst h1 h2 h3
          refine ⟨ddel k (dset k (C.make v) d), ?_, wfC_ddel C hk k (wfC_dset C hk _ hw hkk
            (by simp [LC.items_make]) (by simp [LC.items_make])), ?_⟩
          · simp [BinOps.undoAdd, containerOps, hkk, dget_dset, hh', LC.items_remove, LC.items_make,
              bind, Except.bind, pure, Except.pure]
          · intro k' x
            rw [rel_container, rel_container, dget_ddel, dget_dset]
            by_cases e : k' = k
            · subst e; simp [hg]
            · simp [e]
        | some stored =>
          simp only [hg, hh, if_false] at h
          cases ha : C.add stored v with
          | none =>
            simp only [ha] at h
            injection h with h; injection h with h1 h; injection h with h2 h3
            subst h1 h2 h3
            exact ⟨d, by simp [BinOps.undoAdd, bind, Except.bind, pure, Except.pure], hw, fun _ _ => Iff.rfl⟩
          | some c =>
            simp only [ha] at h
            injection h with h; injection h with h1 h; injection h with h2 h3
            subst h1 h2 h3
            have hnot : v ∉ C.items stored := by
              intro hm; rw [(LC.add_none stored v).mpr hm] at ha; simp at ha
            have hi := LC.add_some stored v c ha
            obtain ⟨_, hnd, hne⟩ := hw k stored hg
            have hrem : C.items (C.remove c v) = C.items stored := by
              rw [LC.items_remove, hi, erase_append_self hnot]
            have hne' : (C.items (C.remove c v)).isEmpty = false := by
              rw [hrem]; cases hc : C.items stored with
              | nil => exact absurd hc hne
              | cons _ _ => rfl
            refine ⟨dset k (C.remove c v) (dset k c d), ?_, ?_, ?_⟩
            · have hne'' : C.items (C.remove c v) ≠ [] := by
                intro hn; rw [hn] at hne'; simp at hne'
              simp [BinOps.undoAdd, containerOps, hkk, dget_dset, hh', hne'', bind, Except.bind, pure,
                Except.pure]
            · apply wfC_dset C hk _ _ hkk (by rw [hrem]; exact hnd) (by rw [hrem]; exact hne)
              have hnc : (C.items c).Nodup := by
                rw [hi]; exact nodup_snoc hnd hnot
              exact wfC_dset C hk _ hw hkk hnc (by rw [hi]; simp)
            · intro k' x
              rw [rel_container, rel_container, dget_dset, dget_dset]
              by_cases e : k' = k
              · subst e; simp [hg, hrem]
              · simp [e]
    · simp [hkk] at h
  rem_spec := by
    intro d k v d' hw h
    simp only [containerOps] at h
    by_cases hkk : hk k = true
    · simp only [hkk, if_true] at h
      cases hg : dget k d with
      | none =>
        simp only [hg] at h
        injection h with h; subst h
        refine ⟨hw, hkk, ?_⟩
        intro k' x
        rw [rel_container]
        constructor
        · intro h; refine ⟨h, ?_⟩; rintro ⟨rfl, rfl⟩
          obtain ⟨s, hs, _⟩ := h; rw [hg] at hs; simp at hs
        · exact fun h => h.1
      | some stored =>
        simp only [hg] at h
        by_cases hh : (C.hashesValue && !hv v) = true
        · simp [hh] at h
        · simp only [hh, if_false] at h
          obtain ⟨_, hnd, hne⟩ := hw k stored hg
          have hmem : ∀ x, x ∈ C.items (C.remove stored v) ↔ (x ∈ C.items stored ∧ x ≠ v) := by
            intro x; rw [LC.items_remove, hnd.mem_erase_iff]; exact and_comm
          by_cases he : (C.items (C.remove stored v)).isEmpty = true
          · simp only [he, if_true] at h
            injection h with h; subst h
            refine ⟨wfC_ddel C hk k hw, hkk, ?_⟩
            intro k' x
            rw [rel_container, rel_container, dget_ddel]
            by_cases e : k' = k
            · subst e
              have hnil : C.items (C.remove stored v) = [] := List.isEmpty_iff.mp he
              have : ∀ x, ¬ (x ∈ C.items stored ∧ x ≠ v) := by
                intro x hx; have := (hmem x).mpr hx; rw [hnil] at this; simp at this
              constructor
              · rintro ⟨s, hs, _⟩; simp at hs
              · rintro ⟨⟨s, hs, hx⟩, hn⟩
                rw [hg] at hs; injection hs with hs; subst hs
                exact absurd ⟨hx, fun e => hn ⟨rfl, e⟩⟩ (this x)
            · simp [e]
          · simp only [he, if_false] at h
            injection h with h; subst h
            have hne2 : C.items (C.remove stored v) ≠ [] := by
              intro hn; rw [hn] at he; simp at he
            refine ⟨wfC_dset C hk _ hw hkk (by rw [LC.items_remove]; exact hnd.erase v) hne2, hkk, ?_⟩
            intro k' x
            rw [rel_container, rel_container, dget_dset]
            by_cases e : k' = k
            · subst e; simp [hg, hmem]
            · simp [e]
    · simp [hkk] at h
  rem_total := by
    intro d k v hkk hvv
    simp only [containerOps, hkk, if_true]
    cases dget k d with
    | none => exact ⟨_, rfl⟩
    | some stored =>
      simp only [hvv, Bool.not_true, Bool.and_false, Bool.false_eq_true, if_false]
      by_cases he : (C.items (C.remove stored v)).isEmpty = true <;> simp [he]
  remKey_spec := by
    intro d k xs d' hw h
    simp only [containerOps] at h
    by_cases he : d.isEmpty = true
    · simp only [he, if_true] at h
      injection h with h; injection h with h1 h2; subst h1 h2
      refine ⟨hw, ?_, ?_⟩
      · intro x; simp [rel_container, dget_of_isEmpty he]
      · intro k' x; simp [rel_container, dget_of_isEmpty he]
    · simp only [he, if_false] at h
      by_cases hkk : hk k = true
      · simp only [hkk, if_true] at h
        cases hg : dget k d with
        | none =>
          simp only [hg] at h
          injection h with h; injection h with h1 h2; subst h1 h2
          refine ⟨hw, ?_, ?_⟩
          · intro x; simp [rel_container, hg]
          · intro k' x; rw [rel_container]
            constructor
            · intro h; refine ⟨h, ?_⟩; rintro rfl
              obtain ⟨s, hs, _⟩ := h; rw [hg] at hs; simp at hs
            · exact fun h => h.1
        | some stored =>
          simp only [hg] at h
          injection h with h; injection h with h1 h2; subst h1 h2
          refine ⟨wfC_ddel C hk k hw, ?_, ?_⟩
          · intro x; simp [rel_container, hg]
          · intro k' x; rw [rel_container, rel_container, dget_ddel]
            by_cases e : k' = k
            · simp [e]
            · simp [e]
      · simp [hkk] at h

theorem lawfulC_set : LawfulC (setC (γ := γ)) where
  items_make := fun _ => rfl
  add_none := by intro s v; simp [setC]
  add_some := by
    intro s v c h
    simp only [setC] at h
    by_cases hm : v ∈ s <;> simp [hm] at h
    subst h; rfl
  items_remove := fun _ _ => rfl

theorem lawfulC_list : LawfulC (listC (γ := γ)) where
  items_make := fun _ => rfl
  add_none := by intro s v; simp [listC]
  add_some := by
    intro s v c h
    simp only [listC] at h
    by_cases hm : v ∈ s <;> simp [hm] at h
    subst h; rfl
  items_remove := fun _ _ => rfl

theorem lawfulC_lookupSet : LawfulC (lookupSetC (γ := γ)) where
  items_make := fun _ => rfl
  add_none := by intro s v; simp [lookupSetC]
  add_some := by
    intro s v c h
    simp only [lookupSetC] at h
    by_cases hm : v ∈ s.elems <;> simp [hm] at h
    subst h; rfl
  items_remove := by
    intro s v
    simp only [lookupSetC]
    by_cases hm : v ∈ s.elems
    · simp [hm]
    · simp [hm, List.erase_of_not_mem hm]

end container

/-! ### C. TwoWayMap -/
section twm
variable {α β σL σR : Type} [DecidableEq α] [DecidableEq β]
variable {L : BinOps β α σL} {R : BinOps α β σR} {hα : α → Bool} {hβ : β → Bool}
variable {wfL : Dict β σL → Prop} {wfR : Dict α σR → Prop}

/-- the invariant: both bins well-formed, `_fwd` and `_bwd` mutually inverse -/
structure TwoWayMap.WF (L : BinOps β α σL) (R : BinOps α β σR) (wfL : Dict β σL → Prop)
    (wfR : Dict α σR → Prop) (m : TwoWayMap α β σL σR) : Prop where
  wfF : wfR m.fwd
  wfB : wfL m.bwd
  inv : ∀ l r, Rel R m.fwd l r ↔ Rel L m.bwd r l

theorem TwoWayMap.wf_empty (LL : Lawful L hβ hα wfL) (LR : Lawful R hα hβ wfR) :
    TwoWayMap.WF L R wfL wfR ({} : TwoWayMap α β σL σR) :=
  ⟨LR.wf_nil, LL.wf_nil, by intro l r; simp [Rel, dget]⟩

theorem TwoWayMap.insert_err (LL : Lawful L hβ hα wfL) (LR : Lawful R hα hβ wfR)
    {m : TwoWayMap α β σL σR} (hm : m.WF L R wfL wfR) {left : α} {right : β}
    {rr ra : Option β} {fwd1 : Dict α σR} {e : Err}
    (h1 : R.addItem m.fwd left right = .ok (rr, ra, fwd1))
    (h2 : L.addItem m.bwd right left = .error e) :
    ∃ fwd2, m.insert L R left right = ({ m with fwd := fwd2 }, some e) ∧
      TwoWayMap.WF L R wfL wfR { m with fwd := fwd2 } ∧ ∀ l r, Rel R fwd2 l r ↔ Rel R m.fwd l r := by
  obtain ⟨fwd2, hu, wf2, rel2⟩ := LR.add_undo hm.wfF h1
  refine ⟨fwd2, ?_, ⟨wf2, hm.wfB, fun l r => (rel2 l r).trans (hm.inv l r)⟩, rel2⟩
  unfold TwoWayMap.insert
  simp only [h1, h2, hu]

theorem TwoWayMap.insert_ok (LL : Lawful L hβ hα wfL) (LR : Lawful R hα hβ wfR)
    {m : TwoWayMap α β σL σR} (hm : m.WF L R wfL wfR) {left : α} {right : β}
    {rr ra : Option β} {fwd1 : Dict α σR} {lr la : Option α} {bwd1 : Dict β σL}
    (h1 : R.addItem m.fwd left right = .ok (rr, ra, fwd1))
    (h2 : L.addItem m.bwd right left = .ok (lr, la, bwd1)) :
    ∃ fwd2 bwd2, m.insert L R left right = ({ fwd := fwd2, bwd := bwd2 }, none) ∧
      TwoWayMap.WF L R wfL wfR { fwd := fwd2, bwd := bwd2 } ∧
      L.removeIfSome bwd1 rr left = .ok bwd2 ∧
      ∀ l r, Rel R fwd2 l r ↔
        (((l = left ∧ r = right) ∨ (Rel R m.fwd l r ∧ ¬ (l = left ∧ rr = some r))) ∧
          ¬ (lr = some l ∧ r = right)) := by
  obtain ⟨wf1, hl, rel1, rem1⟩ := LR.add_spec hm.wfF h1
  obtain ⟨wfb1, hr, relb1, remb1⟩ := LL.add_spec hm.wfB h2
  have step1 : ∃ bwd2, L.removeIfSome bwd1 rr left = Except.ok bwd2 ∧ wfL bwd2 ∧
      ∀ r l, Rel L bwd2 r l ↔ (Rel L bwd1 r l ∧ ¬ (rr = some r ∧ l = left)) := by
    cases rr with
    | none => exact ⟨bwd1, rfl, wfb1, by intro r l; simp⟩
    | some x =>
      have hx : hβ x = true := LL.key_hashable hm.wfB ((hm.inv left x).mp (rem1 x rfl).1)
      obtain ⟨bwd2, hb2⟩ := LL.rem_total (d := bwd1) (k := x) (v := left) hx hl
      obtain ⟨w, _, rl⟩ := LL.rem_spec wfb1 hb2
      refine ⟨bwd2, hb2, w, ?_⟩
      intro r l
      rw [rl r l]
      constructor
      · rintro ⟨h, hn⟩; exact ⟨h, fun ⟨e1, e2⟩ => hn ⟨by injection e1 with e1; exact e1.symm, e2⟩⟩
      · rintro ⟨h, hn⟩; exact ⟨h, fun ⟨e1, e2⟩ => hn ⟨by rw [e1], e2⟩⟩
  obtain ⟨bwd2, e1, wfb2, relb2⟩ := step1
  have step2 : ∃ fwd2, R.removeIfSome fwd1 lr right = Except.ok fwd2 ∧ wfR fwd2 ∧
      ∀ l r, Rel R fwd2 l r ↔ (Rel R fwd1 l r ∧ ¬ (lr = some l ∧ r = right)) := by
    cases lr with
    | none => exact ⟨fwd1, rfl, wf1, by intro l r; simp⟩
    | some y =>
      have hy : hα y = true := LR.key_hashable hm.wfF ((hm.inv y right).mpr (remb1 y rfl).1)
      obtain ⟨fwd2, hf2⟩ := LR.rem_total (d := fwd1) (k := y) (v := right) hy hr
      obtain ⟨w, _, rl⟩ := LR.rem_spec wf1 hf2
      refine ⟨fwd2, hf2, w, ?_⟩
      intro l r
      rw [rl l r]
      constructor
      · rintro ⟨h, hn⟩; exact ⟨h, fun ⟨e1, e2⟩ => hn ⟨by injection e1 with e1; exact e1.symm, e2⟩⟩
      · rintro ⟨h, hn⟩; exact ⟨h, fun ⟨e1, e2⟩ => hn ⟨by rw [e1], e2⟩⟩
  obtain ⟨fwd2, e2, wff2, relf2⟩ := step2
  have hrel : ∀ l r, Rel R fwd2 l r ↔
      (((l = left ∧ r = right) ∨ (Rel R m.fwd l r ∧ ¬ (l = left ∧ rr = some r))) ∧
        ¬ (lr = some l ∧ r = right)) := by
    intro l r; rw [relf2 l r, rel1 l r]
  refine ⟨fwd2, bwd2, ?_, ⟨wff2, wfb2, ?_⟩, e1, hrel⟩
  · unfold TwoWayMap.insert
    simp only [h1, h2, e1, e2]
  · intro l r
    rw [hrel l r, relb2 r l, relb1 r l]
    have hi := hm.inv l r
    have hrr : ∀ x, rr = some x → x ≠ right := fun x hx => (rem1 x hx).2
    have hlr : ∀ y, lr = some y → y ≠ left := fun y hy => (remb1 y hy).2
    constructor
    · rintro ⟨h | ⟨h, hn⟩, hn2⟩
      · refine ⟨Or.inl ⟨h.2, h.1⟩, ?_⟩
        rintro ⟨e1, _⟩; exact hrr r e1 h.2
      · refine ⟨Or.inr ⟨hi.mp h, fun ⟨e1, e2⟩ => hn2 ⟨e2, e1⟩⟩, fun ⟨e1, e2⟩ => hn ⟨e2, e1⟩⟩
    · rintro ⟨h | ⟨h, hn⟩, hn2⟩
      · refine ⟨Or.inl ⟨h.2, h.1⟩, ?_⟩
        rintro ⟨e1, _⟩; exact hlr l e1 h.2
      · refine ⟨Or.inr ⟨hi.mpr h, fun ⟨e1, e2⟩ => hn2 ⟨e2, e1⟩⟩, fun ⟨e1, e2⟩ => hn ⟨e2, e1⟩⟩

theorem TwoWayMap.insert_wf (LL : Lawful L hβ hα wfL) (LR : Lawful R hα hβ wfR)
    {m : TwoWayMap α β σL σR} (hm : m.WF L R wfL wfR) (left : α) (right : β) :
    (m.insert L R left right).1.WF L R wfL wfR := by
  cases h1 : R.addItem m.fwd left right with
  | error e => unfold TwoWayMap.insert; simp only [h1]; exact hm
  | ok r1 =>
    obtain ⟨rr, ra, fwd1⟩ := r1
    cases h2 : L.addItem m.bwd right left with
    | error e =>
      obtain ⟨fwd2, he, hw, _⟩ := TwoWayMap.insert_err LL LR hm h1 h2
      rw [he]; exact hw
    | ok r2 =>
      obtain ⟨lr, la, bwd1⟩ := r2
      obtain ⟨fwd2, bwd2, he, hw, _⟩ := TwoWayMap.insert_ok LL LR hm h1 h2
      rw [he]; exact hw

theorem TwoWayMap.remove_wf (LL : Lawful L hβ hα wfL) (LR : Lawful R hα hβ wfR)
    {m : TwoWayMap α β σL σR} (hm : m.WF L R wfL wfR) (left : α) (right : β) :
    (m.remove L R left right).1.WF L R wfL wfR := by
  unfold TwoWayMap.remove
  cases h1 : R.removeItem m.fwd left right with
  | error e => exact hm
  | ok fwd1 =>
    obtain ⟨wf1, hl, rel1⟩ := LR.rem_spec hm.wfF h1
    simp only
    cases h2 : L.removeItem m.bwd right left with
    | error e =>
      simp only
      -- the left bin raised: `right` is unhashable, so it was never stored and the pair was not
      -- in `_fwd` either: the first removal changed nothing
      have hnr : ¬ Rel R m.fwd left right := by
        intro hr
        have hb := LL.key_hashable hm.wfB ((hm.inv left right).mp hr)
        obtain ⟨d', hd'⟩ := LL.rem_total (d := m.bwd) (k := right) (v := left) hb hl
        rw [hd'] at h2; injection h2
      refine ⟨wf1, hm.wfB, ?_⟩
      intro l r
      rw [rel1 l r, ← hm.inv l r]
      constructor
      · exact fun h => h.1
      · intro h; refine ⟨h, ?_⟩; rintro ⟨rfl, rfl⟩; exact hnr h
    | ok bwd1 =>
      obtain ⟨wfb1, hr, relb1⟩ := LL.rem_spec hm.wfB h2
      simp only
      refine ⟨wf1, wfb1, ?_⟩
      intro l r
      rw [rel1 l r, relb1 r l, hm.inv l r]
      constructor
      · rintro ⟨h, hn⟩; exact ⟨h, fun ⟨e1, e2⟩ => hn ⟨e2, e1⟩⟩
      · rintro ⟨h, hn⟩; exact ⟨h, fun ⟨e1, e2⟩ => hn ⟨e2, e1⟩⟩

/-- the loop `for x in removed: bin.remove_item(mapping, x, other)` -/
theorem removeItems_spec {κ γ σ : Type} [DecidableEq κ] {B : BinOps κ γ σ} {hk : κ → Bool}
    {hv : γ → Bool} {wf : Dict κ σ → Prop} (LB : Lawful B hk hv wf) (other : γ)
    (hvo : hv other = true) :
    ∀ (xs : List κ) (d : Dict κ σ), wf d → (∀ x ∈ xs, hk x = true) →
      ∃ d', removeItems B other xs d = (d', none) ∧ wf d' ∧
        ∀ k y, Rel B d' k y ↔ (Rel B d k y ∧ ¬ (k ∈ xs ∧ y = other)) := by
  intro xs
  induction xs with
  | nil => intro d hw _; exact ⟨d, rfl, hw, by intro k y; simp⟩
  | cons x xs ih =>
    intro d hw hh
    obtain ⟨d1, hd1⟩ := LB.rem_total (d := d) (k := x) (v := other) (hh x (by simp)) hvo
    obtain ⟨w1, _, rl1⟩ := LB.rem_spec hw hd1
    obtain ⟨d', hd', w', rl'⟩ := ih d1 w1 (fun y hy => hh y (by simp [hy]))
    refine ⟨d', by simp [removeItems, hd1, hd'], w', ?_⟩
    intro k y
    rw [rl' k y, rl1 k y]
    constructor
    · rintro ⟨⟨h, hn1⟩, hn2⟩
      refine ⟨h, ?_⟩
      rintro ⟨hk', rfl⟩
      rcases List.mem_cons.mp hk' with e | e
      · exact hn1 ⟨e, rfl⟩
      · exact hn2 ⟨e, rfl⟩
    · rintro ⟨h, hn⟩
      exact ⟨⟨h, fun ⟨e1, e2⟩ => hn ⟨by simp [e1], e2⟩⟩, fun ⟨e1, e2⟩ => hn ⟨by simp [e1], e2⟩⟩

theorem TwoWayMap.removeLeft_wf (LL : Lawful L hβ hα wfL) (LR : Lawful R hα hβ wfR)
    {m : TwoWayMap α β σL σR} (hm : m.WF L R wfL wfR) (left : α) :
    (m.removeLeft L R left).1.WF L R wfL wfR := by
  unfold TwoWayMap.removeLeft
  cases h1 : R.removeKey m.fwd left with
  | error e => exact hm
  | ok r1 =>
    obtain ⟨xs, fwd1⟩ := r1
    obtain ⟨wf1, hxs, rel1⟩ := LR.remKey_spec hm.wfF h1
    simp only
    by_cases hnil : xs = []
    · subst hnil
      simp only [removeItems]
      refine ⟨wf1, hm.wfB, ?_⟩
      intro l r
      rw [rel1 l r, ← hm.inv l r]
      constructor
      · exact fun h => h.1
      · intro h; refine ⟨h, ?_⟩; rintro rfl
        have := (hxs r).mpr h; simp at this
    · obtain ⟨x0, hx0⟩ := List.exists_mem_of_ne_nil xs hnil
      have hl : hα left = true := LR.key_hashable hm.wfF ((hxs x0).mp hx0)
      have hh : ∀ x ∈ xs, hβ x = true := fun x hx =>
        LL.key_hashable hm.wfB ((hm.inv left x).mp ((hxs x).mp hx))
      obtain ⟨bwd1, hb1, wb1, relb1⟩ := removeItems_spec LL left hl xs m.bwd hm.wfB hh
      rw [hb1]
      refine ⟨wf1, wb1, ?_⟩
      intro l r
      rw [rel1 l r, relb1 r l, ← hm.inv l r]
      constructor
      · rintro ⟨h, hn⟩; exact ⟨h, fun ⟨_, e⟩ => hn e⟩
      · rintro ⟨h, hn⟩; refine ⟨h, ?_⟩; rintro rfl; exact hn ⟨(hxs r).mpr h, rfl⟩

theorem TwoWayMap.removeRight_wf (LL : Lawful L hβ hα wfL) (LR : Lawful R hα hβ wfR)
    {m : TwoWayMap α β σL σR} (hm : m.WF L R wfL wfR) (right : β) :
    (m.removeRight L R right).1.WF L R wfL wfR := by
  unfold TwoWayMap.removeRight
  cases h1 : L.removeKey m.bwd right with
  | error e => exact hm
  | ok r1 =>
    obtain ⟨xs, bwd1⟩ := r1
    obtain ⟨wb1, hxs, rel1⟩ := LL.remKey_spec hm.wfB h1
    simp only
    by_cases hnil : xs = []
    · subst hnil
      simp only [removeItems]
      refine ⟨hm.wfF, wb1, ?_⟩
      intro l r
      rw [rel1 r l, hm.inv l r]
      constructor
      · intro h; refine ⟨h, ?_⟩; rintro rfl
        have := (hxs l).mpr h; simp at this
      · exact fun h => h.1
    · obtain ⟨x0, hx0⟩ := List.exists_mem_of_ne_nil xs hnil
      have hr : hβ right = true := LL.key_hashable hm.wfB ((hxs x0).mp hx0)
      have hh : ∀ x ∈ xs, hα x = true := fun x hx =>
        LR.key_hashable hm.wfF ((hm.inv x right).mpr ((hxs x).mp hx))
      obtain ⟨fwd1, hf1, wf1, relf1⟩ := removeItems_spec LR right hr xs m.fwd hm.wfF hh
      rw [hf1]
      refine ⟨wf1, wb1, ?_⟩
      intro l r
      rw [rel1 r l, relf1 l r, hm.inv l r]
      constructor
      · rintro ⟨h, hn⟩; refine ⟨h, ?_⟩; rintro rfl; exact hn ⟨(hxs l).mpr h, rfl⟩
      · rintro ⟨h, hn⟩; exact ⟨h, fun ⟨_, e⟩ => hn e⟩

theorem TwoWayMap.apply_wf (LL : Lawful L hβ hα wfL) (LR : Lawful R hα hβ wfR)
    {m : TwoWayMap α β σL σR} (hm : m.WF L R wfL wfR) (op : Op α β) :
    (m.apply L R op).1.WF L R wfL wfR := by
  cases op with
  | insert l r => exact TwoWayMap.insert_wf LL LR hm l r
  | remove l r => exact TwoWayMap.remove_wf LL LR hm l r
  | removeLeft l => exact TwoWayMap.removeLeft_wf LL LR hm l
  | removeRight r => exact TwoWayMap.removeRight_wf LL LR hm r
  | clear => exact TwoWayMap.wf_empty LL LR

theorem TwoWayMap.run_wf (LL : Lawful L hβ hα wfL) (LR : Lawful R hα hβ wfR) :
    ∀ (ops : List (Op α β)) {m : TwoWayMap α β σL σR}, m.WF L R wfL wfR →
      (m.run L R ops).WF L R wfL wfR := by
  intro ops
  induction ops with
  | nil => intro m hm; exact hm
  | cons op ops ih => intro m hm; exact ih (TwoWayMap.apply_wf LL LR hm op)

theorem TwoWayMap.remove_ok (LL : Lawful L hβ hα wfL) (LR : Lawful R hα hβ wfR)
    {m : TwoWayMap α β σL σR} (hm : m.WF L R wfL wfR) {left : α} {right : β}
    {fwd1 : Dict α σR} {bwd1 : Dict β σL}
    (h1 : R.removeItem m.fwd left right = .ok fwd1) (h2 : L.removeItem m.bwd right left = .ok bwd1) :
    m.remove L R left right = ({ fwd := fwd1, bwd := bwd1 }, none) ∧
      TwoWayMap.WF L R wfL wfR { fwd := fwd1, bwd := bwd1 } ∧
      ∀ l r, Rel R fwd1 l r ↔ (Rel R m.fwd l r ∧ ¬ (l = left ∧ r = right)) := by
  obtain ⟨wf1, hl, rel1⟩ := LR.rem_spec hm.wfF h1
  obtain ⟨wfb1, hr, relb1⟩ := LL.rem_spec hm.wfB h2
  refine ⟨by unfold TwoWayMap.remove; simp only [h1, h2], ⟨wf1, wfb1, ?_⟩, rel1⟩
  intro l r
  rw [rel1 l r, relb1 r l, hm.inv l r]
  constructor
  · rintro ⟨h, hn⟩; exact ⟨h, fun ⟨e1, e2⟩ => hn ⟨e2, e1⟩⟩
  · rintro ⟨h, hn⟩; exact ⟨h, fun ⟨e1, e2⟩ => hn ⟨e2, e1⟩⟩

end twm

/-! ### D. the lookup index: `TwoWayMap(left=LookupSet, right=...)` -/
section index

def wfLeft : Dict LKey (LSet Nat) → Prop := wfC lookupSetC LKey.hashable

theorem lawful_left : Lawful leftOps LKey.hashable rowHashable wfLeft :=
  lawful_container lookupSetC LKey.hashable rowHashable lawfulC_lookupSet

theorem lawful_simpleRight : Lawful simpleRight rowHashable LKey.hashable (wfSingle rowHashable) :=
  lawful_single rowHashable LKey.hashable

theorem lawful_containsRight :
    Lawful containsRight rowHashable LKey.hashable (wfC setC rowHashable) :=
  lawful_container setC rowHashable LKey.hashable lawfulC_set

/-- How an operation may change the LookupSets: every key's set is either untouched (same elements,
    same cache) or has an empty `sorted_versions` afterwards. -/
def CacheRel (d d' : Dict LKey (LSet Nat)) : Prop :=
  ∀ K, dget K d' = dget K d ∨ ∀ S, dget K d' = some S → S.sorted = []

theorem CacheRel.refl (d : Dict LKey (LSet Nat)) : CacheRel d d := fun _ => Or.inl rfl

theorem CacheRel.trans {a b c : Dict LKey (LSet Nat)} (h1 : CacheRel a b) (h2 : CacheRel b c) :
    CacheRel a c := by
  intro K
  rcases h2 K with e | e
  · rcases h1 K with f | f
    · exact Or.inl (e.trans f)
    · right; intro S hS; rw [e] at hS; exact f S hS
  · exact Or.inr e

theorem left_add_cache {d d' : Dict LKey (LSet Nat)} {key : LKey} {row : Nat} {rem la : Option Nat}
    (h : leftOps.addItem d key row = .ok (rem, la, d')) : rem = none ∧ CacheRel d d' := by
  simp only [leftOps, containerOps, lookupSetC, rowHashable] at h
  by_cases hk : key.hashable = true
  · simp only [hk, if_true] at h
    cases hg : dget key d with
    | none =>
      simp [hg] at h
      obtain ⟨h1, _, h3⟩ := h
      refine ⟨h1.symm, ?_⟩
      subst h3
      intro K
      by_cases e : K = key
      · right; intro S hS; rw [dget_dset] at hS; simp [e] at hS; subst hS; rfl
      · left; rw [dget_dset]; simp [e]
    | some stored =>
      simp only [hg] at h
      by_cases hm : row ∈ stored.elems
      · simp [hm] at h
        obtain ⟨h1, _, h3⟩ := h
        subst h3
        exact ⟨h1.symm, CacheRel.refl d⟩
      · simp [hm] at h
        obtain ⟨h1, _, h3⟩ := h
        refine ⟨h1.symm, ?_⟩
        subst h3
        intro K
        by_cases e : K = key
        · right; intro S hS; rw [dget_dset] at hS; simp [e] at hS; subst hS; rfl
        · left; rw [dget_dset]; simp [e]
  · simp [hk] at h

theorem left_add_total (d : Dict LKey (LSet Nat)) {key : LKey} (row : Nat) (hk : key.hashable = true) :
    ∃ la d', leftOps.addItem d key row = .ok (none, la, d') := by
  simp only [leftOps, containerOps, lookupSetC, rowHashable, hk, if_true]
  cases hg : dget key d with
  | none => simp
  | some stored =>
    by_cases hm : row ∈ stored.elems <;> simp [hm]

theorem left_add_unhashable (d : Dict LKey (LSet Nat)) {key : LKey} (row : Nat)
    (hk : key.hashable = false) : leftOps.addItem d key row = .error .typeError := by
  simp [leftOps, containerOps, hk]

theorem left_remove_cache {d d' : Dict LKey (LSet Nat)} {key : LKey} {row : Nat}
    (h : leftOps.removeItem d key row = .ok d') : CacheRel d d' := by
  simp only [leftOps, containerOps, lookupSetC, rowHashable] at h
  by_cases hk : key.hashable = true
  · simp only [hk, if_true] at h
    cases hg : dget key d with
    | none => simp [hg] at h; subst h; exact CacheRel.refl d
    | some stored =>
      simp only [hg] at h
      by_cases hm : row ∈ stored.elems
      · simp only [hm, if_true, Bool.not_true, Bool.and_false, Bool.false_eq_true, if_false] at h
        by_cases he : (stored.elems.erase row).isEmpty = true
        · simp only [he, if_true] at h
          injection h with h; subst h
          intro K
          by_cases e : K = key
          · right; intro S hS; rw [dget_ddel] at hS; simp [e] at hS
          · left; rw [dget_ddel]; simp [e]
        · simp only [he, if_false] at h
          injection h with h; subst h
          intro K
          by_cases e : K = key
          · right; intro S hS; rw [dget_dset] at hS; simp [e] at hS; subst hS; rfl
          · left; rw [dget_dset]; simp [e]
      · simp only [hm, if_false, Bool.not_true, Bool.and_false, Bool.false_eq_true] at h
        by_cases he : stored.elems.isEmpty = true
        · simp only [he, if_true] at h
          injection h with h; subst h
          intro K
          by_cases e : K = key
          · right; intro S hS; rw [dget_ddel] at hS; simp [e] at hS
          · left; rw [dget_ddel]; simp [e]
        · simp only [he, if_false] at h
          injection h with h; subst h
          intro K
          by_cases e : K = key
          · left; rw [dget_dset]; simp [e, hg]
          · left; rw [dget_dset]; simp [e]
  · simp [hk] at h

theorem left_removeIfSome_cache {d d' : Dict LKey (LSet Nat)} {rr : Option LKey} {row : Nat}
    (h : leftOps.removeIfSome d rr row = .ok d') : CacheRel d d' := by
  cases rr with
  | none => simp [BinOps.removeIfSome] at h; subst h; exact CacheRel.refl d
  | some x => exact left_remove_cache h

variable {σR : Type} {R : BinOps Nat LKey σR} {wfR : Dict Nat σR → Prop}

/-- the invariant of an index -/
abbrev Good (R : BinOps Nat LKey σR) (wfR : Dict Nat σR → Prop) (m : Index σR) : Prop :=
  TwoWayMap.WF leftOps R wfLeft wfR m

theorem good_empty (LR : Lawful R rowHashable LKey.hashable wfR) : Good R wfR ({} : Index σR) :=
  TwoWayMap.wf_empty lawful_left LR

/-- keys stored in the index are hashable -/
theorem Good.key_hashable (LR : Lawful R rowHashable LKey.hashable wfR) {m : Index σR}
    (hm : Good R wfR m) {row : Nat} {key : LKey} (h : Rel R m.fwd row key) : key.hashable = true :=
  lawful_left.key_hashable hm.wfB ((hm.inv row key).mp h)

theorem ix_insert_ok (LR : Lawful R rowHashable LKey.hashable wfR) {m : Index σR}
    (hm : Good R wfR m) {row : Nat} {key : LKey} (hk : key.hashable = true)
    {rr ra : Option LKey} {fwd1 : Dict Nat σR}
    (h1 : R.addItem m.fwd row key = .ok (rr, ra, fwd1)) :
    ∃ m', m.insert leftOps R row key = (m', none) ∧ Good R wfR m' ∧ CacheRel m.bwd m'.bwd ∧
      ∀ l r, Rel R m'.fwd l r ↔
        ((l = row ∧ r = key) ∨ (Rel R m.fwd l r ∧ ¬ (l = row ∧ rr = some r))) := by
  obtain ⟨la, bwd1, h2⟩ := left_add_total m.bwd row hk
  obtain ⟨fwd2, bwd2, he, hw, hrem, hrel⟩ := TwoWayMap.insert_ok lawful_left LR hm h1 h2
  refine ⟨_, he, hw, (left_add_cache h2).2.trans (left_removeIfSome_cache hrem), ?_⟩
  intro l r
  rw [hrel l r]
  simp

theorem ix_insert_err (LR : Lawful R rowHashable LKey.hashable wfR) {m : Index σR}
    (hm : Good R wfR m) {row : Nat} {key : LKey} (hk : key.hashable = false)
    {rr ra : Option LKey} {fwd1 : Dict Nat σR}
    (h1 : R.addItem m.fwd row key = .ok (rr, ra, fwd1)) :
    ∃ m', m.insert leftOps R row key = (m', some .typeError) ∧ Good R wfR m' ∧ m'.bwd = m.bwd ∧
      ∀ l r, Rel R m'.fwd l r ↔ Rel R m.fwd l r := by
  obtain ⟨fwd2, he, hw, hrel⟩ :=
    TwoWayMap.insert_err lawful_left LR hm h1 (left_add_unhashable m.bwd row hk)
  exact ⟨_, he, hw, rfl, hrel⟩

theorem ix_remove (LR : Lawful R rowHashable LKey.hashable wfR) {m : Index σR}
    (hm : Good R wfR m) (row : Nat) {key : LKey} (hk : key.hashable = true) :
    ∃ m', m.remove leftOps R row key = (m', none) ∧ Good R wfR m' ∧ CacheRel m.bwd m'.bwd ∧
      ∀ l r, Rel R m'.fwd l r ↔ (Rel R m.fwd l r ∧ ¬ (l = row ∧ r = key)) := by
  obtain ⟨fwd1, h1⟩ := LR.rem_total (d := m.fwd) (k := row) (v := key) rfl hk
  obtain ⟨bwd1, h2⟩ := lawful_left.rem_total (d := m.bwd) (k := key) (v := row) hk rfl
  obtain ⟨he, hw, hrel⟩ := TwoWayMap.remove_ok lawful_left LR hm h1 h2
  exact ⟨_, he, hw, left_remove_cache h2, hrel⟩

/-- `for old_key in keys: self._row_key_map.remove(row_id, old_key)` -/
theorem removeAll_spec (LR : Lawful R rowHashable LKey.hashable wfR) (row : Nat) :
    ∀ (ks : List LKey) {m : Index σR}, Good R wfR m → (∀ k ∈ ks, k.hashable = true) →
      Good R wfR (removeAll R m row ks) ∧ CacheRel m.bwd (removeAll R m row ks).bwd ∧
      ∀ l r, Rel R (removeAll R m row ks).fwd l r ↔ (Rel R m.fwd l r ∧ ¬ (l = row ∧ r ∈ ks)) := by
  intro ks
  induction ks with
  | nil => intro m hm _; exact ⟨hm, CacheRel.refl _, by intro l r; simp [removeAll]⟩
  | cons k ks ih =>
    intro m hm hh
    obtain ⟨m1, he, hw, hc, hrel⟩ := ix_remove LR hm row (hh k (by simp))
    obtain ⟨g, c, rl⟩ := ih hw (fun x hx => hh x (by simp [hx]))
    simp only [removeAll, he]
    refine ⟨g, hc.trans c, ?_⟩
    intro l r
    rw [rl l r, hrel l r]
    constructor
    · rintro ⟨⟨h, n1⟩, n2⟩
      refine ⟨h, ?_⟩
      rintro ⟨e1, e2⟩
      rcases List.mem_cons.mp e2 with e | e
      · exact n1 ⟨e1, e⟩
      · exact n2 ⟨e1, e⟩
    · rintro ⟨h, n⟩
      exact ⟨⟨h, fun ⟨e1, e2⟩ => n ⟨e1, by simp [e2]⟩⟩, fun ⟨e1, e2⟩ => n ⟨e1, by simp [e2]⟩⟩

end index

/-! ### E. SimpleLookupMapping -/
section simple

abbrev GoodS (m : Index LKey) : Prop := Good simpleRight (wfSingle rowHashable) m

theorem rel_simpleRight (d : Dict Nat LKey) (k : Nat) (x : LKey) :
    Rel simpleRight d k x ↔ dget k d = some x := rel_single rowHashable d k x

theorem simple_add_total (d : Dict Nat LKey) (row : Nat) (key : LKey) :
    ∃ rr ra d', simpleRight.addItem d row key = .ok (rr, ra, d') := by
  simp only [simpleRight, singleOps, rowHashable, if_true]
  cases dget row d with
  | none => exact ⟨_, _, _, rfl⟩
  | some stored => by_cases e : stored = key <;> simp [e]

theorem option_ext {τ : Type} {a b : Option τ} (h : ∀ x, a = some x ↔ b = some x) : a = b := by
  cases a with
  | none =>
    cases b with
    | none => rfl
    | some y => exact absurd ((h y).mpr rfl) (by simp)
  | some x => exact ((h x).mp rfl).symm

/-- the key a row is to be stored under: its key tuple when that is hashable -/
def simpleTarget (cells : List Cell) : Option LKey :=
  if (simpleNewKey cells).hashable then some (simpleNewKey cells) else none

theorem simpleUpdate_spec {m : Index LKey} (hm : GoodS m) (row : Nat) (cells : List Cell) :
    GoodS (simpleUpdate m row cells).1 ∧ CacheRel m.bwd (simpleUpdate m row cells).1.bwd ∧
    ∀ r', dget r' (simpleUpdate m row cells).1.fwd =
      if r' = row then simpleTarget cells else dget r' m.fwd := by
  unfold simpleUpdate
  by_cases hsame : dget row m.fwd = some (simpleNewKey cells)
  · simp only [hsame, if_true]
    refine ⟨hm, CacheRel.refl _, ?_⟩
    intro r'
    by_cases e : r' = row
    · subst e
      have hh := Good.key_hashable lawful_simpleRight hm ((rel_simpleRight _ _ _).mpr hsame)
      simp [simpleTarget, hh, hsame]
    · simp [e]
  · simp only [hsame, if_false]
    obtain ⟨rr, ra, fwd1, h1⟩ := simple_add_total m.fwd row (simpleNewKey cells)
    by_cases hk : (simpleNewKey cells).hashable = true
    · obtain ⟨m1, he, hw, hc, hrel⟩ := ix_insert_ok lawful_simpleRight hm hk h1
      rw [he]
      refine ⟨hw, hc, ?_⟩
      intro r'
      by_cases e : r' = row
      · subst e
        simp only [if_true, simpleTarget, hk]
        exact (rel_simpleRight _ _ _).mp ((hrel r' _).mpr (Or.inl ⟨rfl, rfl⟩))
      · simp only [e, if_false]
        apply option_ext
        intro x
        rw [← rel_simpleRight, ← rel_simpleRight, hrel r' x]
        simp [e]
    · have hk' : (simpleNewKey cells).hashable = false := by simpa using hk
      obtain ⟨m1, he, hw, hb, hrel⟩ := ix_insert_err lawful_simpleRight hm hk' h1
      rw [he]
      have hfwd : ∀ r', dget r' m1.fwd = dget r' m.fwd := by
        intro r'; apply option_ext; intro x
        rw [← rel_simpleRight, ← rel_simpleRight, hrel r' x]
      cases hold : dget row m.fwd with
      | none =>
        simp only
        refine ⟨hw, by rw [hb]; exact CacheRel.refl _, ?_⟩
        intro r'
        by_cases e : r' = row
        · subst e; simp [simpleTarget, hk', hfwd, hold]
        · simp [e, hfwd]
      | some ok =>
        simp only
        have hok : ok.hashable = true :=
          Good.key_hashable lawful_simpleRight hm ((rel_simpleRight _ _ _).mpr hold)
        obtain ⟨m2, he2, hw2, hc2, hrel2⟩ := ix_remove lawful_simpleRight hw row hok
        rw [he2]
        refine ⟨hw2, by rw [← hb]; exact hc2, ?_⟩
        intro r'
        by_cases e : r' = row
        · subst e
          simp only [if_true, simpleTarget, hk', Bool.false_eq_true, if_false]
          cases hg : dget r' m2.fwd with
          | none => rfl
          | some x =>
            have := (hrel2 r' x).mp ((rel_simpleRight _ _ _).mpr hg)
            have hx : dget r' m1.fwd = some x := (rel_simpleRight _ _ _).mp this.1
            rw [hfwd, hold] at hx
            injection hx with hx
            exact absurd ⟨rfl, hx.symm⟩ this.2
        · simp only [e, if_false]
          rw [← hfwd r']
          apply option_ext
          intro x
          rw [← rel_simpleRight, ← rel_simpleRight, hrel2 r' x]
          simp [e]

end simple

/-! ### F. the contract of a lookup mapping -/

/-- `rows K` of an index: the row ids stored under key `K` -/
def inSet {σR : Type} (m : Index σR) (K : LKey) (r : Nat) : Prop := Rel leftOps m.bwd K r

theorem inSet_iff {σR : Type} (m : Index σR) (K : LKey) (r : Nat) :
    inSet m K r ↔ ∃ S, dget K m.bwd = some S ∧ r ∈ S.elems := Iff.rfl

/-- What LookupMapColumn needs from its mapping.  `keyOf cells K` = "a row with these key cells
    belongs under key K". -/
structure LawfulMapping {σR : Type} (M : Mapping σR) (wfR : Dict Nat σR → Prop)
    (keyOf : List Cell → LKey → Prop) : Prop where
  right_lawful : Lawful M.right rowHashable LKey.hashable wfR
  update_spec : ∀ {m : Index σR} (row : Nat) (cells : List Cell), Good M.right wfR m →
    Good M.right wfR (M.update m row cells).1 ∧ CacheRel m.bwd (M.update m row cells).1.bwd ∧
    ∀ K r, inSet (M.update m row cells).1 K r ↔ (if r = row then keyOf cells K else inSet m K r)
  remove_spec : ∀ {m : Index σR} (row : Nat), Good M.right wfR m →
    Good M.right wfR (M.removeRowId m row).1 ∧ CacheRel m.bwd (M.removeRowId m row).1.bwd ∧
    ∀ K r, inSet (M.removeRowId m row).1 K r ↔ (r ≠ row ∧ inSet m K r)
  newKeys_spec : ∀ {cells : List Cell} {ks : List LKey}, M.newKeys cells = .ok ks →
    ∀ K, K ∈ ks ↔ keyOf cells K
  newKeys_err : ∀ {cells : List Cell} {e : Err}, M.newKeys cells = .error e → ∀ K, ¬ keyOf cells K

/-- SimpleLookupMapping: the row is under its (normalised) key tuple, if that is hashable -/
def simpleKeyOf (cells : List Cell) (K : LKey) : Prop := simpleTarget cells = some K

theorem lawful_simpleMapping : LawfulMapping simpleMapping (wfSingle rowHashable) simpleKeyOf where
  right_lawful := lawful_simpleRight
  update_spec := by
    intro m row cells hm
    obtain ⟨g, c, f⟩ := simpleUpdate_spec hm row cells
    refine ⟨g, c, ?_⟩
    intro K r
    have hi := (g.inv r K).symm
    unfold inSet
    simp only [simpleMapping] at hi ⊢
    rw [hi, rel_simpleRight, f r]
    by_cases e : r = row
    · simp [e, simpleKeyOf]
    · simp only [e, if_false]
      rw [← rel_simpleRight]; exact hm.inv r K
  remove_spec := by
    intro m row hm
    simp only [Mapping.removeRowId, simpleMapping, simpleMappedKeys]
    have hh : ∀ k ∈ (dget row m.fwd).toList, k.hashable = true := by
      intro k hk
      simp only [Option.mem_toList] at hk
      exact Good.key_hashable lawful_simpleRight hm ((rel_simpleRight _ _ _).mpr hk)
    obtain ⟨g, c, rl⟩ := removeAll_spec lawful_simpleRight row _ hm hh
    refine ⟨g, c, ?_⟩
    intro K r
    unfold inSet
    have hmi : Rel simpleRight m.fwd r K ↔ Rel leftOps m.bwd K r := hm.inv r K
    rw [← g.inv r K, rl r K, hmi]
    constructor
    · rintro ⟨h, n⟩
      refine ⟨?_, h⟩
      rintro rfl
      apply n
      refine ⟨rfl, ?_⟩
      simp only [Option.mem_toList]
      exact (rel_simpleRight _ _ _).mp (hmi.mpr h)
    · rintro ⟨n, h⟩; exact ⟨h, fun ⟨e, _⟩ => n e⟩
  newKeys_spec := by
    intro cells ks h K
    simp only [simpleMapping] at h
    by_cases hk : (simpleNewKey cells).hashable = true
    · simp only [hk, if_true] at h
      injection h with h; subst h
      simp [simpleKeyOf, simpleTarget, hk]; exact eq_comm
    · simp [hk] at h
  newKeys_err := by
    intro cells e h K
    simp only [simpleMapping] at h
    by_cases hk : (simpleNewKey cells).hashable = true
    · simp [hk] at h
    · simp [simpleKeyOf, simpleTarget, hk]

end Grist.Lookup
