/-
Helper lemmas about the list components (`stored`, `direct`) of the engine model and about the
association-list algebra of `ActionSummary` (GristModel/Doc.lean, GristModel/Engine.lean).
Used by GristProps/C31.lean and GristProps/C02.lean.
-/
import GristModel.Engine
import GristModel.DocSpec
namespace Grist.Doc

/-! ## Part 1: `stored` / `direct` bookkeeping (C31) -/

/-- A fold whose step only ever appends to the first component only appends to it. -/
theorem foldl_fst_prefix {α β γ : Type} (f : List α × β → γ → List α × β)
    (hf : ∀ acc x, ∃ ext, (f acc x).1 = acc.1 ++ ext) :
    ∀ (l : List γ) (acc : List α × β), ∃ ext, (l.foldl f acc).1 = acc.1 ++ ext := by
  intro l
  induction l with
  | nil => intro acc; exact ⟨[], by simp⟩
  | cons x xs ih =>
    intro acc
    obtain ⟨e1, h1⟩ := hf acc x
    obtain ⟨e2, h2⟩ := ih (f acc x)
    exact ⟨e1 ++ e2, by simp [List.foldl_cons, h2, h1]⟩

/-- `convert_deltas_to_actions` only appends to `stored`. -/
theorem flushAll_stored_prefix (s : Summary) (stored undo : List DocAction) :
    ∃ ext, (flushAll s stored undo).1 = stored ++ ext := by
  unfold flushAll
  exact foldl_fst_prefix _ (fun acc tk =>
    foldl_fst_prefix _ (fun acc ck => ⟨_, rfl⟩) _ acc) _ (stored, undo)

theorem stepFinish_stored (st : EState) :
    (stepFinish st).stored = (flushAll st.summary st.stored st.undo).1 := rfl

theorem stepFinish_direct (st : EState) :
    (stepFinish st).direct =
      st.direct ++ List.replicate ((stepFinish st).stored.length - st.stored.length) false := rfl

theorem stepFinish_doc (st : EState) : (stepFinish st).doc = st.doc := rfl

theorem stepFinish_stored_prefix (st : EState) :
    ∃ ext, (stepFinish st).stored = st.stored ++ ext := by
  rw [stepFinish_stored]; exact flushAll_stored_prefix _ _ _

/-- `stepFinish` in "append" form: it appends `ext` to `stored` and as many `false` to `direct`. -/
theorem stepFinish_append (st : EState) :
    ∃ ext, (stepFinish st).stored = st.stored ++ ext ∧
           (stepFinish st).direct = st.direct ++ List.replicate ext.length false := by
  obtain ⟨ext, h⟩ := stepFinish_stored_prefix st
  refine ⟨ext, h, ?_⟩
  rw [stepFinish_direct, h]; simp

/-- `stepDoc` appends exactly the action and the flag it was given. -/
theorem stepDoc_append {st st' : EState} {a : DocAction} {b : Bool}
    (h : stepDoc st a b = .ok st') :
    st'.stored = st.stored ++ [a] ∧ st'.direct = st.direct ++ [b] := by
  unfold stepDoc at h
  split at h
  · cases h
  · cases h; exact ⟨rfl, rfl⟩

theorem stepDoc_ok_iff {st st' : EState} {a : DocAction} {b : Bool} :
    stepDoc st a b = .ok st' ↔
      ∃ r, docAction st.doc st.summary a = .ok r ∧
        st' = { st with doc := r.doc, stored := st.stored ++ [a], direct := st.direct ++ [b],
                        undo := st.undo ++ r.undo, summary := r.summary } := by
  unfold stepDoc
  cases hd : docAction st.doc st.summary a with
  | error e => simp
  | ok r =>
    simp only [Except.ok.injEq]
    constructor
    · intro h; exact ⟨r, rfl, h.symm⟩
    · rintro ⟨r', h1, h2⟩; cases h1; exact h2.symm

/-- `stepFlushCol` appends `ext` to `stored` and as many `false` to `direct`. -/
theorem stepFlushCol_append {st st' : EState} {t c : String}
    (h : stepFlushCol st t c = .ok st') :
    ∃ ext, st'.stored = st.stored ++ ext ∧
           st'.direct = st.direct ++ List.replicate ext.length false ∧
           st'.doc = st.doc := by
  unfold stepFlushCol at h
  split at h
  · simp only [] at h
    cases h
    refine ⟨_, rfl, ?_, rfl⟩
    simp [List.map_const']
  · cases h

theorem stepCalc_stored (st : EState) (t c : String) (chs) :
    (stepCalc st t c chs).stored = st.stored := rfl
theorem stepCalc_direct (st : EState) (t c : String) (chs) :
    (stepCalc st t c chs).direct = st.direct := rfl

/-- What a step contributes to the (stored action, direct flag) stream. -/
inductive StepTags : Step → List DocAction → List Bool → Prop where
  | doc (a b) : StepTags (.doc a b) [a] [b]
  | calcStep (t c chs) : StepTags (.calc t c chs) [] []
  | flushcol (t c ext) : StepTags (.flushcol t c) ext (List.replicate ext.length false)
  | finish (ext) : StepTags .finish ext (List.replicate ext.length false)

theorem StepTags.length_eq {s : Step} {ext : List DocAction} {fl : List Bool}
    (h : StepTags s ext fl) : ext.length = fl.length := by
  cases h <;> simp

/-- Every step appends a block to `stored` and a parallel block to `direct`; only a `doc` step can
    contribute a `true`, and it contributes exactly its own flag. -/
theorem step_append {st st' : EState} {s : Step} (h : step st s = .ok st') :
    ∃ ext fl, StepTags s ext fl ∧ st'.stored = st.stored ++ ext ∧ st'.direct = st.direct ++ fl := by
  cases s with
  | doc a b =>
    obtain ⟨h1, h2⟩ := stepDoc_append (show stepDoc st a b = .ok st' from h)
    exact ⟨[a], [b], .doc a b, h1, h2⟩
  | «calc» t c chs =>
    simp only [step] at h; cases h
    exact ⟨[], [], .calcStep t c chs, by simp [stepCalc_stored], by simp [stepCalc_direct]⟩
  | flushcol t c =>
    obtain ⟨ext, h1, h2, _⟩ := stepFlushCol_append (show stepFlushCol st t c = .ok st' from h)
    exact ⟨ext, _, .flushcol t c ext, h1, h2⟩
  | finish =>
    simp only [step] at h; cases h
    obtain ⟨ext, h1, h2⟩ := stepFinish_append st
    exact ⟨ext, _, .finish ext, h1, h2⟩

theorem step_parallel {st st' : EState} {s : Step}
    (hl : st.stored.length = st.direct.length) (h : step st s = .ok st') :
    st'.stored.length = st'.direct.length := by
  obtain ⟨ext, fl, ht, h1, h2⟩ := step_append h
  rw [h1, h2, List.length_append, List.length_append, hl, ht.length_eq]

theorem run_cons_ok {st st' : EState} {s : Step} {w : List Step}
    (h : run st (s :: w) = .ok st') : ∃ st1, step st s = .ok st1 ∧ run st1 w = .ok st' := by
  simp only [run] at h
  split at h
  · cases h
  · exact ⟨_, by assumption, h⟩

theorem run_parallel : ∀ (w : List Step) {st st' : EState},
    st.stored.length = st.direct.length → run st w = .ok st' →
    st'.stored.length = st'.direct.length := by
  intro w
  induction w with
  | nil => intro st st' hl h; simp only [run] at h; cases h; exact hl
  | cons s w ih =>
    intro st st' hl h
    obtain ⟨st1, h1, h2⟩ := run_cons_ok h
    exact ih (step_parallel hl h1) h2

theorem run_stored_prefix : ∀ (w : List Step) {st st' : EState},
    run st w = .ok st' → ∃ ext, st'.stored = st.stored ++ ext := by
  intro w
  induction w with
  | nil => intro st st' h; simp only [run] at h; cases h; exact ⟨[], by simp⟩
  | cons s w ih =>
    intro st st' h
    obtain ⟨st1, h1, h2⟩ := run_cons_ok h
    obtain ⟨e1, _, _, he1, _⟩ := step_append h1
    obtain ⟨e2, he2⟩ := ih h2
    exact ⟨e1 ++ e2, by rw [he2, he1, List.append_assoc]⟩

/-- the `foldlM` of `stepDoc … true` used by `rollback` keeps the lists parallel -/
theorem foldlM_stepDoc_parallel : ∀ (l : List DocAction) {st st' : EState},
    st.stored.length = st.direct.length →
    l.foldlM (fun s a => stepDoc s a true) st = .ok st' →
    st'.stored.length = st'.direct.length := by
  intro l
  induction l with
  | nil => intro st st' hl h; simp [List.foldlM, pure, Except.pure] at h; cases h; exact hl
  | cons a l ih =>
    intro st st' hl h
    rw [List.foldlM_cons] at h
    cases h1 : stepDoc st a true with
    | error e => rw [h1] at h; cases h
    | ok st1 =>
      rw [h1] at h
      obtain ⟨e1, e2⟩ := stepDoc_append h1
      exact ih (by rw [e1, e2]; simp [hl]) h

theorem rollback_parallel {st st' : EState} {ls lu : Nat}
    (hl : st.stored.length = st.direct.length) (h : rollback st ls lu = .ok st') :
    st'.stored.length = st'.direct.length := by
  unfold rollback at h
  simp only [] at h
  split at h
  · cases h
  · rename_i st1 h1
    cases h
    have := foldlM_stepDoc_parallel _ hl h1
    simp [List.length_take, this]

/-! ### the direct-flagged sub-stream -/

/-- the stored actions flagged direct, in order -/
def directActions (stored : List DocAction) (direct : List Bool) : List DocAction :=
  ((stored.zip direct).filter (·.2)).map (·.1)

/-- the actions of the `doc _ true` steps of a word, in order -/
def directDocSteps (w : List Step) : List DocAction :=
  w.filterMap (fun s => match s with | .doc a true => some a | _ => none)

theorem directActions_length : ∀ (s : List DocAction) (d : List Bool), s.length = d.length →
    (directActions s d).length = d.count true := by
  intro s
  induction s with
  | nil => intro d h; cases d <;> simp_all [directActions]
  | cons a s ih =>
    intro d h
    cases d with
    | nil => simp at h
    | cons b d =>
      have := ih d (by simpa using h)
      cases b <;> simp_all [directActions]

theorem directActions_append {s1 s2 : List DocAction} {d1 d2 : List Bool}
    (h : s1.length = d1.length) :
    directActions (s1 ++ s2) (d1 ++ d2) = directActions s1 d1 ++ directActions s2 d2 := by
  simp [directActions, List.zip_append h]

theorem directActions_replicate_false (ext : List DocAction) :
    directActions ext (List.replicate ext.length false) = [] := by
  simp only [directActions, List.map_eq_nil_iff, List.filter_eq_nil_iff]
  intro p hp
  have := (List.of_mem_zip hp).2
  simp at this
  simp [this.2]

theorem StepTags.directActions {s : Step} {ext : List DocAction} {fl : List Bool}
    (h : StepTags s ext fl) : Grist.Doc.directActions ext fl = directDocSteps [s] := by
  cases h with
  | doc a b => cases b <;> simp [Grist.Doc.directActions, directDocSteps]
  | calcStep t c chs => simp [Grist.Doc.directActions, directDocSteps]
  | flushcol t c ext => simp [directActions_replicate_false, directDocSteps]
  | finish ext => simp [directActions_replicate_false, directDocSteps]

/-- What a word of steps contributes to the (stored, direct) stream: the concatenation of the blocks
    of its steps.  (A relational description: the blocks of flush steps are arbitrary, but their
    flags are all `false`.) -/
inductive WordTags : List Step → List DocAction → List Bool → Prop where
  | nil : WordTags [] [] []
  | cons {s w e1 f1 e2 f2} : StepTags s e1 f1 → WordTags w e2 f2 →
      WordTags (s :: w) (e1 ++ e2) (f1 ++ f2)

theorem WordTags.length_eq {w : List Step} {ext : List DocAction} {fl : List Bool}
    (h : WordTags w ext fl) : ext.length = fl.length := by
  induction h with
  | nil => rfl
  | cons hs _ ih => simp [hs.length_eq, ih]

theorem run_append : ∀ (w : List Step) {st st' : EState}, run st w = .ok st' →
    ∃ ext fl, WordTags w ext fl ∧ st'.stored = st.stored ++ ext ∧ st'.direct = st.direct ++ fl := by
  intro w
  induction w with
  | nil => intro st st' h; simp only [run] at h; cases h; exact ⟨[], [], .nil, by simp, by simp⟩
  | cons s w ih =>
    intro st st' h
    obtain ⟨st1, h1, h2⟩ := run_cons_ok h
    obtain ⟨e1, f1, ht, a1, a2⟩ := step_append h1
    obtain ⟨e2, f2, hw, b1, b2⟩ := ih h2
    exact ⟨e1 ++ e2, f1 ++ f2, .cons ht hw, by rw [b1, a1, List.append_assoc],
      by rw [b2, a2, List.append_assoc]⟩

theorem directDocSteps_cons (s : Step) (w : List Step) :
    directDocSteps (s :: w) = directDocSteps [s] ++ directDocSteps w := by
  show directDocSteps ([s] ++ w) = _
  unfold directDocSteps; rw [List.filterMap_append]

/-- the stored actions flagged direct are exactly the actions of the `doc _ true` steps, in order -/
theorem WordTags.directActions {w : List Step} {ext : List DocAction} {fl : List Bool}
    (h : WordTags w ext fl) : Grist.Doc.directActions ext fl = directDocSteps w := by
  induction h with
  | nil => rfl
  | @cons s w e1 f1 e2 f2 hs _ ih =>
    rw [directActions_append hs.length_eq, hs.directActions, ih, ← directDocSteps_cons]

theorem run_directActions {w : List Step} {st st' : EState}
    (hl : st.stored.length = st.direct.length) (h : run st w = .ok st') :
    directActions st'.stored st'.direct = directActions st.stored st.direct ++ directDocSteps w := by
  obtain ⟨ext, fl, hw, e1, e2⟩ := run_append w h
  rw [e1, e2, directActions_append hl, hw.directActions]

/-- positional form: a `true` flag at index `i` of the flags contributed by a word sits on a stored
    action that is the action of a `doc _ true` step of the word. -/
theorem WordTags.true_flag_from_doc_step {w : List Step} {ext : List DocAction} {fl : List Bool}
    (h : WordTags w ext fl) :
    ∀ i : Nat, fl[i]? = some true → ∃ a, ext[i]? = some a ∧ Step.doc a true ∈ w := by
  induction h with
  | nil => intro i hi; simp at hi
  | @cons s w e1 f1 e2 f2 hs _ ih =>
    intro i hi
    have hlen := hs.length_eq
    rcases Nat.lt_or_ge i f1.length with hlt | hge
    · rw [List.getElem?_append_left hlt] at hi
      rw [List.getElem?_append_left (by omega)]
      cases hs with
      | doc a b =>
        have : i = 0 := by simp at hlt; exact hlt
        subst this
        simp at hi; subst hi
        exact ⟨a, by simp, by simp⟩
      | calcStep t c chs => simp at hlt
      | flushcol t c ext =>
        rw [List.getElem?_replicate] at hi; split at hi <;> cases hi
      | finish ext =>
        rw [List.getElem?_replicate] at hi; split at hi <;> cases hi
    · rw [List.getElem?_append_right hge] at hi
      rw [List.getElem?_append_right (by omega)]
      obtain ⟨a, ha, hm⟩ := ih _ hi
      exact ⟨a, by rw [hlen]; exact ha, List.mem_cons_of_mem _ hm⟩

/-- converse: the `k`-th `doc` step of the word puts its action and its flag at the same index. -/
theorem WordTags.doc_step_flag {w1 w2 : List Step} {a : DocAction} {b : Bool}
    {ext : List DocAction} {fl : List Bool} (h : WordTags (w1 ++ Step.doc a b :: w2) ext fl) :
    ∃ i : Nat, ext[i]? = some a ∧ fl[i]? = some b := by
  induction w1 generalizing ext fl with
  | nil =>
    cases h with
    | cons hs hw => cases hs; exact ⟨0, by simp, by simp⟩
  | cons s w1 ih =>
    cases h with
    | @cons _ _ e1 f1 e2 f2 hs hw =>
      obtain ⟨i, h1, h2⟩ := ih hw
      refine ⟨e1.length + i, ?_, ?_⟩
      · rw [List.getElem?_append_right (by omega)]; simpa using h1
      · rw [List.getElem?_append_right (by rw [hs.length_eq]; omega), hs.length_eq]; simpa using h2

/-! ## Part 2: replaying stored actions (C02) -/

/-- (B0) the document a `DocActions` method produces does not depend on the summary -/
theorem docAction_doc_indep (d : Doc) (s s' : Summary) (a : DocAction) :
    (docAction d s a).map (·.doc) = (docAction d s' a).map (·.doc) := by
  cases a <;> simp only [docAction] <;> (repeat' split) <;> simp_all [Except.map]

theorem docAction_ok_indep {d : Doc} {s : Summary} {a : DocAction} {r : DAResult} (s' : Summary)
    (h : docAction d s a = .ok r) : ∃ r', docAction d s' a = .ok r' ∧ r'.doc = r.doc := by
  have := docAction_doc_indep d s s' a
  rw [h] at this
  cases h' : docAction d s' a with
  | error e => rw [h'] at this; simp [Except.map] at this
  | ok r' => rw [h'] at this; simp [Except.map] at this; exact ⟨r', rfl, this.symm⟩

theorem applyAll_cons_ok {d : Doc} {s : Summary} {a : DocAction} {r : DAResult}
    (h : docAction d s a = .ok r) (rest : List DocAction) :
    applyAll d (a :: rest) = applyAll r.doc rest := by
  obtain ⟨r', h1, h2⟩ := docAction_ok_indep {} h
  simp only [applyAll, h1, h2]

/-- (B1) a word of `doc` steps: the stored actions it appended, replayed on the start document,
    give exactly the final document. -/
theorem run_docwords_faithful : ∀ (w : List Step) {st st' : EState},
    (∀ s ∈ w, ∃ a b, s = Step.doc a b) → run st w = .ok st' →
    applyAll st.doc (st'.stored.drop st.stored.length) = .ok st'.doc := by
  intro w
  induction w with
  | nil => intro st st' _ h; simp only [run] at h; cases h; simp [applyAll]
  | cons s w ih =>
    intro st st' hw h
    obtain ⟨st1, h1, h2⟩ := run_cons_ok h
    obtain ⟨a, b, rfl⟩ := hw s (by simp)
    obtain ⟨r, hr, rfl⟩ := stepDoc_ok_iff.mp (show stepDoc st a b = .ok st1 from h1)
    have ih' := ih (fun s hs => hw s (List.mem_cons_of_mem _ hs)) h2
    obtain ⟨e2, he2⟩ := run_stored_prefix w h2
    simp only at he2 ih'
    rw [he2] at ih' ⊢
    simp only [List.append_assoc, List.drop_left, List.length_append, List.length_cons,
      List.length_nil] at ih' ⊢
    rw [show st.stored.length + (0 + 1) = (st.stored ++ [a]).length by simp,
      ← List.append_assoc, List.drop_left] at ih'
    rw [List.singleton_append, applyAll_cons_ok hr]
    exact ih'

/-! ### association-list lookups -/

theorem lookup_cons_ne {α β : Type} [DecidableEq α] (m : List (α × β)) (a j : α) (b : β)
    (h : ¬ j = a) : ((a, b) :: m).lookup j = m.lookup j := by
  have : (j == a) = false := by simpa using h
  rw [List.lookup_cons, this]

theorem lookup_cons_self' {α β : Type} [DecidableEq α] (m : List (α × β)) (a : α) (b : β) :
    ((a, b) :: m).lookup a = some b := by
  rw [List.lookup_cons]; simp

theorem lookup_filter_ne {α β : Type} [DecidableEq α] (m : List (α × β)) (k j : α) :
    (m.filter (·.1 != k)).lookup j = if j = k then none else m.lookup j := by
  induction m with
  | nil => simp
  | cons p m ih =>
    obtain ⟨a, b⟩ := p
    rw [List.filter_cons]
    by_cases hak : a = k
    · subst hak
      simp only [bne_self_eq_false, Bool.false_eq_true, ↓reduceIte, ih]
      by_cases hj : j = a
      · simp [hj]
      · simp [hj, lookup_cons_ne]
    · have : (a != k) = true := by simpa using hak
      simp only [this, ↓reduceIte]
      by_cases hj : j = a
      · subst hj; simp [hak]
      · simp [hj, lookup_cons_ne, ih]

theorem lookup_filter_ne_append {α β : Type} [DecidableEq α] (m : List (α × β)) (k j : α)
    (v : β) :
    ((m.filter (·.1 != k)) ++ [(k, v)]).lookup j = if j = k then some v else m.lookup j := by
  rw [List.lookup_append, lookup_filter_ne]
  by_cases h : j = k
  · subst h; simp
  · simp [h, lookup_cons_ne]

theorem lookup_append_singleton_of_none {α β : Type} [DecidableEq α] (m : List (α × β))
    (k j : α) (v : β) (h : m.lookup k = none) :
    (m ++ [(k, v)]).lookup j = if j = k then some v else m.lookup j := by
  rw [List.lookup_append]
  by_cases hj : j = k
  · subst hj; simp [h]
  · simp [hj, lookup_cons_ne]

theorem keys_filter_ne_append_nodup {α β : Type} [DecidableEq α] (m : List (α × β)) (k : α)
    (v : β) (h : (m.map (·.1)).Nodup) :
    (((m.filter (·.1 != k)) ++ [(k, v)]).map (·.1)).Nodup := by
  rw [List.map_append, List.nodup_append]
  refine ⟨List.Nodup.sublist (List.Sublist.map _ List.filter_sublist) h, by simp, ?_⟩
  intro a ha b hb
  simp only [List.map_cons, List.map_nil, List.mem_singleton] at hb
  subst hb
  simp only [List.mem_map, List.mem_filter] at ha
  obtain ⟨p, ⟨_, hp⟩, rfl⟩ := ha
  simpa using hp

/-! ### `ActionSummary.add_changes`: first `before`, last `after` (B2 i) -/

/-- one `addChange`: row `r` keeps an earlier recorded `before` (else takes `b`) and takes `a` as
    its `after`; the other rows are untouched. -/
theorem addChange_lookup (m : List (Nat × Val × Val)) (r : Nat) (b a : Val) (k : Nat) :
    (addChange m r b a).lookup k =
      if k = r then some (((m.lookup r).map (·.1)).getD b, a) else m.lookup k := by
  unfold addChange
  cases h : m.lookup r with
  | none =>
    simp only [lookup_append_singleton_of_none m r k _ h]
    by_cases hk : k = r <;> simp [hk]
  | some p =>
    obtain ⟨b0, a0⟩ := p
    simp only [lookup_filter_ne_append]
    by_cases hk : k = r <;> simp [hk]

theorem addChange_keys_nodup (m : List (Nat × Val × Val)) (r : Nat) (b a : Val)
    (h : (m.map (·.1)).Nodup) : ((addChange m r b a).map (·.1)).Nodup := by
  unfold addChange
  cases hl : m.lookup r with
  | none =>
    simp only [List.map_append, List.nodup_append]
    refine ⟨h, by simp, ?_⟩
    intro x hx y hy
    simp only [List.map_cons, List.map_nil, List.mem_singleton] at hy
    subst hy
    rw [List.lookup_eq_none_iff] at hl
    simp only [List.mem_map] at hx
    obtain ⟨p, hp, rfl⟩ := hx
    have := hl p hp
    intro heq; simp [heq] at this
  | some p => exact keys_filter_ne_append_nodup m r _ h

/-- the fold `add_changes` performs over the `(row, before, after)` triples -/
def addChangesFold (m : List (Nat × Val × Val)) (chs : List (Nat × Val × Val)) :
    List (Nat × Val × Val) :=
  chs.foldl (fun m ch => addChange m ch.1 ch.2.1 ch.2.2) m

theorem addChangesFold_keys_nodup (chs m) (h : (m.map (·.1)).Nodup) :
    ((addChangesFold m chs).map (·.1)).Nodup := by
  unfold addChangesFold
  induction chs generalizing m with
  | nil => exact h
  | cons ch chs ih => exact ih _ (addChange_keys_nodup m _ _ _ h)

/-- (B2 i) After folding the changes `chs` into `m`, the entry of row `r` is: if no change names
    `r`, what `m` had; otherwise `(before, after)` with `before` the one `m` already had, else the
    `before` of the FIRST change for `r`, and `after` the `after` of the LAST change for `r`. -/
theorem addChangesFold_lookup (chs : List (Nat × Val × Val)) (m : List (Nat × Val × Val))
    (r : Nat) :
    (addChangesFold m chs).lookup r =
      match (chs.filter (·.1 == r)).getLast? with
      | none => m.lookup r
      | some last =>
        some (match m.lookup r with
              | some p => p.1
              | none => (((chs.filter (·.1 == r)).head?).map (·.2.1)).getD last.2.1,
              last.2.2) := by
  unfold addChangesFold
  induction chs generalizing m with
  | nil => simp
  | cons ch chs ih =>
    rw [List.foldl_cons, ih, addChange_lookup, List.filter_cons]
    by_cases hr : ch.1 = r
    · subst hr
      simp only [BEq.rfl, ↓reduceIte, List.getLast?_cons, List.head?_cons, Option.map_some,
        Option.getD_some]
      cases hl : (chs.filter (fun x => x.1 == ch.1)).getLast? with
      | none => cases hm : m.lookup ch.1 <;> simp
      | some last => cases hm : m.lookup ch.1 <;> simp
    · have h1 : (ch.1 == r) = false := by simpa using hr
      have h2 : ¬ r = ch.1 := fun h => hr h.symm
      simp only [h1, Bool.false_eq_true, ↓reduceIte, h2]

/-! ### row presence: `add_records` / `remove_records` (B2 ii) -/

theorem amSet_lookup (m : List (Nat × Bool)) (k : Nat) (v : Bool) (j : Nat) :
    (amSet m k v).lookup j = if j = k then some v else m.lookup j :=
  lookup_filter_ne_append m k j v

theorem amSetDefault_lookup (m : List (Nat × Bool)) (k : Nat) (v : Bool) (j : Nat) :
    (amSetDefault m k v).lookup j = if j = k then some ((m.lookup k).getD v) else m.lookup j := by
  unfold amSetDefault
  cases h : m.lookup k with
  | none => simp [lookup_append_singleton_of_none m k j v h]
  | some x =>
    by_cases hj : j = k
    · subst hj; simp [h]
    · simp [hj]

theorem Summary.get_put (s : Summary) (t : String) (td : TableDelta) : (s.put t td).get t = td := by
  simp [Summary.get, Summary.put, lookup_filter_ne_append]

theorem Summary.get_put_ne (s : Summary) (t t' : String) (td : TableDelta) (h : t' ≠ t) :
    (s.put t td).get t' = s.get t' := by
  simp [Summary.get, Summary.put, lookup_filter_ne_append, h]

/-- the per-row fold of `add_records` (`v = false` for before, `true` for after) and of
    `remove_records` (`v = true` for before, `false` for after) -/
def presenceFold (bv av : Bool) (td : TableDelta) (rows : List Nat) : TableDelta :=
  rows.foldl (fun td r =>
    { td with presentBefore := amSetDefault td.presentBefore r bv,
              presentAfter := amSet td.presentAfter r av }) td

theorem Summary.addRecords_eq (s : Summary) (t : String) (rows : List Nat) :
    s.addRecords t rows = s.put t (presenceFold false true (s.get t) rows) := rfl

theorem Summary.removeRecords_eq (s : Summary) (t : String) (rows : List Nat) :
    s.removeRecords t rows = s.put t (presenceFold true false (s.get t) rows) := rfl

theorem presenceFold_after (bv av : Bool) (rows : List Nat) (td : TableDelta) (r : Nat) :
    (presenceFold bv av td rows).presentAfter.lookup r =
      if r ∈ rows then some av else td.presentAfter.lookup r := by
  unfold presenceFold
  induction rows generalizing td with
  | nil => simp
  | cons x rows ih =>
    rw [List.foldl_cons, ih]
    simp only [amSet_lookup, List.mem_cons]
    by_cases h1 : r ∈ rows <;> by_cases h2 : r = x <;> simp [h1, h2]

theorem presenceFold_before (bv av : Bool) (rows : List Nat) (td : TableDelta) (r : Nat) :
    (presenceFold bv av td rows).presentBefore.lookup r =
      if r ∈ rows then some ((td.presentBefore.lookup r).getD bv)
      else td.presentBefore.lookup r := by
  unfold presenceFold
  induction rows generalizing td with
  | nil => simp
  | cons x rows ih =>
    rw [List.foldl_cons, ih]
    simp only [amSetDefault_lookup, List.mem_cons]
    by_cases h1 : r ∈ rows <;> by_cases h2 : r = x <;> simp [h1, h2]

theorem presenceFold_colDeltas (bv av : Bool) (rows : List Nat) (td : TableDelta) :
    (presenceFold bv av td rows).colDeltas = td.colDeltas ∧
    (presenceFold bv av td rows).colRenames = td.colRenames := by
  unfold presenceFold
  induction rows generalizing td with
  | nil => simp
  | cons x rows ih => rw [List.foldl_cons]; exact ih _

/-- `add_records`: the rows are present after; `before` keeps an earlier verdict, else "absent". -/
theorem addRecords_presentAfter (s : Summary) (t : String) (rows : List Nat) (r : Nat) :
    ((s.addRecords t rows).get t).presentAfter.lookup r =
      if r ∈ rows then some true else (s.get t).presentAfter.lookup r := by
  rw [Summary.addRecords_eq, Summary.get_put, presenceFold_after]

theorem addRecords_presentBefore (s : Summary) (t : String) (rows : List Nat) (r : Nat) :
    ((s.addRecords t rows).get t).presentBefore.lookup r =
      if r ∈ rows then some (((s.get t).presentBefore.lookup r).getD false)
      else (s.get t).presentBefore.lookup r := by
  rw [Summary.addRecords_eq, Summary.get_put, presenceFold_before]

/-- `remove_records`: the rows are absent after; `before` keeps an earlier verdict, else "present". -/
theorem removeRecords_presentAfter (s : Summary) (t : String) (rows : List Nat) (r : Nat) :
    ((s.removeRecords t rows).get t).presentAfter.lookup r =
      if r ∈ rows then some false else (s.get t).presentAfter.lookup r := by
  rw [Summary.removeRecords_eq, Summary.get_put, presenceFold_after]

theorem removeRecords_presentBefore (s : Summary) (t : String) (rows : List Nat) (r : Nat) :
    ((s.removeRecords t rows).get t).presentBefore.lookup r =
      if r ∈ rows then some (((s.get t).presentBefore.lookup r).getD true)
      else (s.get t).presentBefore.lookup r := by
  rw [Summary.removeRecords_eq, Summary.get_put, presenceFold_before]

/-- other tables are not touched -/
theorem addRecords_get_ne (s : Summary) (t t' : String) (rows : List Nat) (h : t' ≠ t) :
    (s.addRecords t rows).get t' = s.get t' := by
  rw [Summary.addRecords_eq, Summary.get_put_ne _ _ _ _ h]

theorem removeRecords_get_ne (s : Summary) (t t' : String) (rows : List Nat) (h : t' ≠ t) :
    (s.removeRecords t rows).get t' = s.get t' := by
  rw [Summary.removeRecords_eq, Summary.get_put_ne _ _ _ _ h]

end Grist.Doc
