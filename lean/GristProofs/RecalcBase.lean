/-
Recalc (GristModel/Recalc.lean): standing hypotheses, unfolding lemmas for `step`, termination
measure (C18 T1), `circ` fires only on dependency cycles (C18 T3), the instance `sumProg`.
-/
import GristModel.Recalc
namespace Grist.Recalc

deriving instance DecidableEq for Ev

/-- eval / circ events (the recalculation proper); `write` is a doc action -/
def Ev.isCalc : Ev → Bool
  | .write _ _ => false
  | _ => true

/-- `c` depends on itself through `deps` of formula cells (the model's `onCycle`, unrestricted) -/
def DependsOnSelf (p : Prog) (n c : Nat) : Prop := onCycle p n (fun _ => true) c = true

/-- well-formed state: dirty cells are formula cells `< n`, listed once; `deps` of cells `< n`
    stay `< n` (for `reads` this follows under `Respects`, see `WFState.reads_lt`). -/
structure WFState (p : Prog) (n : Nat) (st : State) : Prop where
  dirty_formula : ∀ c ∈ st.dirty, p.formula c = true ∧ c < n
  dirty_nodup : st.dirty.Nodup
  deps_lt : ∀ c, c < n → ∀ d ∈ p.deps c, d < n

/-- a clean cell is *good*: its evaluation reads no dirty cell and its value is up to date -/
def Good (p : Prog) (st : State) (c : Nat) : Prop :=
  (∀ d ∈ p.reads c st.σ, d ∉ st.dirty) ∧ st.σ c = p.f c st.σ

/-- The invariant: every clean formula cell `< n` is good, or it holds `circ` and depends on
    itself.  (A cell that got `circ` from the cycle branch is clean while cells it reads are still
    dirty, so "no clean cell has read a dirty cell" cannot be required of it.) -/
def Inv (p : Prog) (n : Nat) (st : State) : Prop :=
  ∀ c, c < n → p.formula c = true → c ∉ st.dirty →
    Good p st c ∨ (st.σ c = V.circ ∧ DependsOnSelf p n c)

theorem WFState.reads_lt {p : Prog} {n : Nat} {st : State} (h : WFState p n st)
    (hr : p.Respects) {c : Nat} (hc : c < n) (σ : Nat → V) : ∀ d ∈ p.reads c σ, d < n :=
  fun d hd => h.deps_lt c hc d (hr.1 c σ d hd)

/-! ### unfolding `blocker` and `step` -/

theorem blocker_eq_none {p : Prog} {st : State} {c : Nat} :
    blocker p st c = none ↔ ∀ d ∈ p.reads c st.σ, d ∉ st.dirty := by
  simp [blocker]

theorem blocker_eq_some {p : Prog} {st : State} {c d : Nat} (h : blocker p st c = some d) :
    d ∈ p.reads c st.σ ∧ d ∈ st.dirty := by
  unfold blocker at h
  exact ⟨List.mem_of_find?_eq_some h, by simpa using List.find?_some h⟩

theorem step_eval_iff {p : Prog} {n : Nat} {st st' : State} {c : Nat} :
    step p n st (.eval c) = some st' ↔
      (c < n ∧ p.formula c = true ∧ c ∈ st.dirty ∧ blocker p st c = none) ∧
      st' = { σ := upd st.σ c (p.f c st.σ), dirty := st.dirty.filter (· != c) } := by
  simp only [step]
  split
  · rename_i h
    simp only [Bool.and_eq_true, decide_eq_true_eq, List.contains_iff_mem,
      Option.isNone_iff_eq_none] at h
    simp only [Option.some.injEq]
    constructor
    · intro e; exact ⟨⟨h.1.1.1, h.1.1.2, h.1.2, h.2⟩, e.symm⟩
    · intro e; exact e.2.symm
  · rename_i h
    simp only [Bool.and_eq_true, decide_eq_true_eq, List.contains_iff_mem,
      Option.isNone_iff_eq_none] at h
    constructor
    · intro e; cases e
    · intro e; exact absurd ⟨⟨⟨e.1.1, e.1.2.1⟩, e.1.2.2.1⟩, e.1.2.2.2⟩ h

theorem step_circ_iff {p : Prog} {n : Nat} {st st' : State} {c : Nat} :
    step p n st (.circ c) = some st' ↔
      (c < n ∧ p.formula c = true ∧ c ∈ st.dirty ∧ blockCycle p st c n c = true) ∧
      st' = { σ := upd st.σ c V.circ, dirty := st.dirty.filter (· != c) } := by
  simp only [step]
  split
  · rename_i h
    simp only [Bool.and_eq_true, decide_eq_true_eq, List.contains_iff_mem] at h
    simp only [Option.some.injEq]
    constructor
    · intro e; exact ⟨⟨h.1.1.1, h.1.1.2, h.1.2, h.2⟩, e.symm⟩
    · intro e; exact e.2.symm
  · rename_i h
    simp only [Bool.and_eq_true, decide_eq_true_eq, List.contains_iff_mem] at h
    constructor
    · intro e; cases e
    · intro e; exact absurd ⟨⟨⟨e.1.1, e.1.2.1⟩, e.1.2.2.1⟩, e.1.2.2.2⟩ h

theorem step_write_iff {p : Prog} {n : Nat} {st st' : State} {c : Nat} {v : V} :
    step p n st (.write c v) = some st' ↔
      (p.formula c = false ∧ c < n) ∧
      st' = { σ := upd st.σ c v,
              dirty := (List.range n).filter (fun k => st.dirty.contains k ||
                         (k != c && (closure p n [c]).contains k)) } := by
  simp only [step]
  split
  · rename_i h
    simp only [Bool.or_eq_true, Bool.not_eq_true', decide_eq_false_iff_not] at h
    constructor
    · intro e; cases e
    · intro e
      rcases h with h | h
      · rw [e.1.1] at h; cases h
      · exact absurd e.1.2 h
  · rename_i h
    simp only [Bool.or_eq_true, Bool.not_eq_true', decide_eq_false_iff_not, not_or,
      Bool.not_eq_true, Decidable.not_not] at h
    simp only [Option.some.injEq]
    constructor
    · intro e; exact ⟨h, e.symm⟩
    · intro e; exact e.2.symm

theorem run_cons_some {p : Prog} {n : Nat} {st st' : State} {e : Ev} {es : List Ev}
    (h : run p n st (e :: es) = some st') :
    ∃ st1, step p n st e = some st1 ∧ run p n st1 es = some st' := by
  simp only [run] at h
  split at h
  · cases h
  · exact ⟨_, by assumption, h⟩

/-! ### C18 (T1): the number of dirty cells is a termination measure -/

theorem length_filter_ne_lt {l : List Nat} {c : Nat} (h : c ∈ l) :
    (l.filter (· != c)).length < l.length := by
  induction l with
  | nil => cases h
  | cons x xs ih =>
    rw [List.filter_cons]
    by_cases hx : x = c
    · subst hx
      simp only [bne_self_eq_false, Bool.false_eq_true, ↓reduceIte, List.length_cons]
      exact Nat.lt_succ_of_le (List.length_filter_le _ _)
    · have : (x != c) = true := by simpa using hx
      simp only [this, ↓reduceIte, List.length_cons]
      have := ih (by rcases List.mem_cons.mp h with h | h; exact absurd h.symm hx; exact h)
      omega

theorem calc_step_dirty {p : Prog} {n : Nat} {st st' : State} {e : Ev} (he : e.isCalc = true)
    (h : step p n st e = some st') :
    ∃ c, c ∈ st.dirty ∧ st'.dirty = st.dirty.filter (· != c) := by
  cases e with
  | write c v => cases he
  | eval c => obtain ⟨h1, rfl⟩ := step_eval_iff.mp h; exact ⟨c, h1.2.2.1, rfl⟩
  | circ c => obtain ⟨h1, rfl⟩ := step_circ_iff.mp h; exact ⟨c, h1.2.2.1, rfl⟩

theorem calc_step_dirty_decreases {p : Prog} {n : Nat} {st st' : State} {e : Ev}
    (he : e.isCalc = true) (h : step p n st e = some st') :
    st'.dirty.length < st.dirty.length := by
  obtain ⟨c, hc, e'⟩ := calc_step_dirty he h
  rw [e']; exact length_filter_ne_lt hc

theorem calc_run_length : ∀ (es : List Ev) {p : Prog} {n : Nat} {st st' : State},
    (∀ e ∈ es, e.isCalc = true) → run p n st es = some st' →
    es.length + st'.dirty.length ≤ st.dirty.length := by
  intro es
  induction es with
  | nil => intro p n st st' _ h; simp only [run, Option.some.injEq] at h; subst h; simp
  | cons e es ih =>
    intro p n st st' hc h
    obtain ⟨st1, h1, h2⟩ := run_cons_some h
    have := ih (fun e he => hc e (List.mem_cons_of_mem _ he)) h2
    have := calc_step_dirty_decreases (hc e (by simp)) h1
    simp only [List.length_cons]; omega

/-! ### C18 (T3): the cycle branch fires only on a dependency cycle -/

theorem reaches_of_blockCycle {p : Prog} (hr : p.Respects) {st : State} {c : Nat} :
    ∀ (fuel cur : Nat), p.formula cur = true → blockCycle p st c fuel cur = true →
      reaches p (fun _ => true) fuel cur c = true := by
  intro fuel
  induction fuel with
  | zero => intro cur _ h; simp [blockCycle] at h
  | succ fuel ih =>
    intro cur hf h
    simp only [blockCycle] at h
    split at h
    · cases h
    · rename_i d hd
      obtain ⟨hd1, _⟩ := blocker_eq_some hd
      have hdep : d ∈ p.deps cur := hr.1 _ _ _ hd1
      simp only [reaches, hf, Bool.and_true, Bool.true_and, List.any_eq_true]
      refine ⟨d, hdep, ?_⟩
      simp only [Bool.or_eq_true, Bool.and_eq_true] at h ⊢
      rcases h with h | ⟨h1, h2⟩
      · exact .inl h
      · exact .inr (ih d h1 h2)

/-! ### the instance `sumProg` -/

theorem sumReads_go_subset (σ : Nat → V) : ∀ (l : List Nat), ∀ d ∈ sumReads.go σ l, d ∈ l := by
  intro l
  induction l with
  | nil => intro d h; simp [sumReads.go] at h
  | cons x xs ih =>
    intro d h
    simp only [sumReads.go] at h
    split at h
    · simp only [List.mem_singleton] at h; simp [h]
    · rcases List.mem_cons.mp h with h | h
      · simp [h]
      · exact List.mem_cons_of_mem _ (ih d h)

def sumStep (σ : Nat → V) (acc : V) (d : Nat) : V :=
  match acc, σ d with
  | .num a, .num b => .num (a + b)
  | _, _ => .circ

theorem sumF_eq (deps : Nat → List Nat) (konst : Nat → Int) (c : Nat) (σ : Nat → V) :
    sumF deps konst c σ = (deps c).foldl (sumStep σ) (.num (konst c)) := rfl

theorem foldl_sumStep_circ (σ : Nat → V) : ∀ (l : List Nat), l.foldl (sumStep σ) .circ = .circ := by
  intro l
  induction l with
  | nil => rfl
  | cons x xs ih => simpa [List.foldl_cons, sumStep] using ih

theorem foldl_sumStep_of_circ (σ : Nat → V) : ∀ (l : List Nat) (acc : V),
    (∃ d ∈ l, σ d = V.circ) → l.foldl (sumStep σ) acc = .circ := by
  intro l
  induction l with
  | nil => intro acc h; simp at h
  | cons x xs ih =>
    intro acc h
    rw [List.foldl_cons]
    by_cases hx : σ x = V.circ
    · have : sumStep σ acc x = .circ := by
        unfold sumStep; rw [hx]; cases acc <;> rfl
      rw [this]; exact foldl_sumStep_circ σ xs
    · obtain ⟨d, hd, hc⟩ := h
      rcases List.mem_cons.mp hd with rfl | hd
      · exact absurd hc hx
      · exact ih _ ⟨d, hd, hc⟩

theorem sumProg_go_congr (σ σ' : Nat → V) : ∀ (l : List Nat) (acc : V),
    (∀ d ∈ sumReads.go σ l, σ d = σ' d) →
    sumReads.go σ' l = sumReads.go σ l ∧ l.foldl (sumStep σ') acc = l.foldl (sumStep σ) acc := by
  intro l
  induction l with
  | nil => intro acc _; exact ⟨rfl, rfl⟩
  | cons x xs ih =>
    intro acc h
    have hx : σ x = σ' x := h x (by simp only [sumReads.go]; split <;> simp)
    simp only [sumReads.go, List.foldl_cons]
    by_cases hc : σ x = V.circ
    · have hc' : σ' x = V.circ := hx ▸ hc
      have s1 : sumStep σ acc x = .circ := by unfold sumStep; rw [hc]; cases acc <;> rfl
      have s2 : sumStep σ' acc x = .circ := by unfold sumStep; rw [hc']; cases acc <;> rfl
      simp [hc, hc', s1, s2, foldl_sumStep_circ]
    · have hc' : ¬ σ' x = V.circ := hx ▸ hc
      have hb : (σ x == V.circ) = false := by simpa using hc
      have hb' : (σ' x == V.circ) = false := by simpa using hc'
      have hrest : ∀ d ∈ sumReads.go σ xs, σ d = σ' d := by
        intro d hd; apply h; simp only [sumReads.go, hb]; simp [hd]
      have s : sumStep σ' acc x = sumStep σ acc x := by unfold sumStep; rw [hx]
      obtain ⟨i1, i2⟩ := ih (sumStep σ acc x) hrest
      simp only [hb, hb', Bool.false_eq_true, ↓reduceIte, i1, s, i2, and_self]

theorem sumProg_respects (formula : Nat → Bool) (deps : Nat → List Nat) (konst : Nat → Int) :
    (sumProg formula deps konst).Respects := by
  constructor
  · intro c σ d hd; exact sumReads_go_subset σ _ d hd
  · intro c σ σ' h
    exact sumProg_go_congr σ σ' (deps c) (.num (konst c)) h

theorem sumProg_strict (formula : Nat → Bool) (deps : Nat → List Nat) (konst : Nat → Int) :
    (sumProg formula deps konst).Strict := by
  intro c σ h
  obtain ⟨d, hd, hc⟩ := h
  exact foldl_sumStep_of_circ σ _ _ ⟨d, sumReads_go_subset σ _ d hd, hc⟩

end Grist.Recalc
