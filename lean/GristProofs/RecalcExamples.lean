/-
Recalc: two small `sumProg` documents used for the non-vacuity examples of C18 / C05 / C06.
-/
import GristProofs.RecalcAcyclic
namespace Grist.Recalc

theorem Inv.of_all_dirty {p : Prog} {n : Nat} {st : State}
    (h : ∀ c, c < n → p.formula c = true → c ∈ st.dirty) : Inv p n st :=
  fun c hc hf hnd => absurd (h c hc hf) hnd

/-- 4 cells: `0 = $1`, `1 = $0` (a 2-cycle), `2 = $3 + 1`, `3` data -/
def cycDeps : Nat → List Nat
  | 0 => [1]
  | 1 => [0]
  | 2 => [3]
  | _ => []
def cycProg : Prog := sumProg (fun c => decide (c < 3)) cycDeps (fun c => if c = 2 then 1 else 0)
def cycSt : State := { σ := fun c => if c = 3 then .num 5 else .num 0, dirty := [0, 1, 2] }

theorem cycProg_respects : cycProg.Respects := sumProg_respects _ _ _
theorem cycProg_strict : cycProg.Strict := sumProg_strict _ _ _
theorem cycSt_wf : WFState cycProg 4 cycSt :=
  ⟨by decide, by decide, by decide⟩
theorem cycSt_inv : Inv cycProg 4 cycSt := Inv.of_all_dirty (by decide)

/-- 4 cells, a diamond: `0` data, `1 = $0 + 1`, `2 = $0 + 2`, `3 = $1 + $2` -/
def diaDeps : Nat → List Nat
  | 1 => [0]
  | 2 => [0]
  | 3 => [1, 2]
  | _ => []
def diaProg : Prog := sumProg (fun c => decide (0 < c ∧ c < 4)) diaDeps (fun c => if c = 3 then 0 else c)
def diaSt : State := { σ := fun c => if c = 0 then .num 10 else .num 0, dirty := [1, 2, 3] }

theorem diaProg_respects : diaProg.Respects := sumProg_respects _ _ _
theorem diaSt_wf : WFState diaProg 4 diaSt := ⟨by decide, by decide, by decide⟩
theorem diaSt_inv : Inv diaProg 4 diaSt := Inv.of_all_dirty (by decide)
theorem diaProg_ranked : Ranked diaProg 4 id := by
  intro c hc hf d hd
  have : ∀ c, c < 4 → ∀ d ∈ diaDeps c, d < c := by decide
  exact this c hc d hd

end Grist.Recalc
