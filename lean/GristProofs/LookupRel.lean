/-
Helper lemmas for GristModel/LookupRel.lean (theorems of GristProps/C05.lean, part "LookupRel").
-/
import GristModel.LookupRel
namespace Grist.LookupRel

/-! ### sets as lists -/

section sets
variable {α : Type} [BEq α] [LawfulBEq α]

theorem mem_sadd {x y : α} {l : List α} : y ∈ sadd x l ↔ y = x ∨ y ∈ l := by
  unfold sadd
  by_cases h : l.contains x = true
  · simp only [h, if_true]
    constructor
    · exact Or.inr
    · rintro (rfl | h')
      · simpa using h
      · exact h'
  · simp only [h]
    simp [or_comm]

theorem mem_sunion {y : α} {a b : List α} : y ∈ sunion a b ↔ y ∈ a ∨ y ∈ b := by
  unfold sunion
  induction b generalizing a with
  | nil => simp
  | cons x t ih =>
    simp only [List.foldl_cons, ih, mem_sadd, List.mem_cons]
    constructor
    · rintro ((rfl | h) | h)
      · exact Or.inr (Or.inl rfl)
      · exact Or.inl h
      · exact Or.inr (Or.inr h)
    · rintro (h | rfl | h)
      · exact Or.inl (Or.inr h)
      · exact Or.inl (Or.inl rfl)
      · exact Or.inr h

theorem mem_sdiff {y : α} {a b : List α} : y ∈ sdiff a b ↔ y ∈ a ∧ y ∉ b := by
  simp [sdiff]

theorem nodup_sadd {x : α} {l : List α} (h : l.Nodup) : (sadd x l).Nodup := by
  unfold sadd
  by_cases hc : l.contains x = true
  · rw [if_pos hc]; exact h
  · rw [if_neg hc]
    have hx : x ∉ l := by simpa using hc
    rw [List.nodup_append]
    refine ⟨h, by simp, ?_⟩
    intro a ha b hb
    simp at hb
    subst hb
    intro hab
    exact hx (hab ▸ ha)

end sets

/-! ### the map primitives -/

theorem mem_lookupRight {m : List (Row × Key)} {k : Key} {r : Row} :
    r ∈ lookupRight m k ↔ (r, k) ∈ m := by
  unfold lookupRight
  simp only [List.mem_map, List.mem_filter, beq_iff_eq]
  constructor
  · rintro ⟨⟨r', k'⟩, ⟨hm, hk⟩, hr⟩
    simp at hk hr
    subst hk hr
    exact hm
  · intro h
    exact ⟨(r, k), ⟨h, rfl⟩, rfl⟩

theorem mem_removeLeft {m : List (Row × Key)} {r : Row} {p : Row × Key} :
    p ∈ removeLeft m r ↔ p ∈ m ∧ p.1 ≠ r := by
  simp [removeLeft]

theorem mem_foldl_removeLeft {rows : List Row} {m : List (Row × Key)} {p : Row × Key} :
    p ∈ rows.foldl removeLeft m ↔ p ∈ m ∧ p.1 ∉ rows := by
  induction rows generalizing m with
  | nil => simp
  | cons x t ih =>
    simp only [List.foldl_cons, ih, mem_removeLeft, List.mem_cons, not_or]
    constructor
    · rintro ⟨⟨h1, h2⟩, h3⟩; exact ⟨h1, h2, h3⟩
    · rintro ⟨h1, h2, h3⟩; exact ⟨⟨h1, h2⟩, h3⟩

theorem nodup_foldl_removeLeft {rows : List Row} {m : List (Row × Key)} (h : m.Nodup) :
    (rows.foldl removeLeft m).Nodup := by
  induction rows generalizing m with
  | nil => simpa using h
  | cons x t ih => exact ih (List.Nodup.sublist List.filter_sublist h)

theorem mem_affectedRowsByKeys_aux {m : List (Row × Key)} {keys : List Key} {acc : List Row} {r : Row} :
    r ∈ keys.foldl (fun acc k => if k != noneKey then sunion acc (lookupRight m k) else acc) acc ↔
      r ∈ acc ∨ ∃ k ∈ keys, k ≠ noneKey ∧ (r, k) ∈ m := by
  induction keys generalizing acc with
  | nil => simp
  | cons x t ih =>
    simp only [List.foldl_cons, ih, List.mem_cons]
    by_cases hx : x = noneKey
    · subst hx
      simp only [bne_self_eq_false, Bool.false_eq_true, if_false]
      constructor
      · rintro (h | ⟨k, hk, hn, hm⟩)
        · exact Or.inl h
        · exact Or.inr ⟨k, Or.inr hk, hn, hm⟩
      · rintro (h | ⟨k, hk | hk, hn, hm⟩)
        · exact Or.inl h
        · exact absurd hk hn
        · exact Or.inr ⟨k, hk, hn, hm⟩
    · have hb : (x != noneKey) = true := by simpa using hx
      simp only [hb, if_true, mem_sunion, mem_lookupRight]
      constructor
      · rintro ((h | h) | ⟨k, hk, hn, hm⟩)
        · exact Or.inl h
        · exact Or.inr ⟨x, Or.inl rfl, hx, h⟩
        · exact Or.inr ⟨k, Or.inr hk, hn, hm⟩
      · rintro (h | ⟨k, hk | hk, hn, hm⟩)
        · exact Or.inl (Or.inl h)
        · subst hk; exact Or.inl (Or.inr hm)
        · exact Or.inr ⟨k, hk, hn, hm⟩

/-- `get_affected_rows_by_keys`: exactly the rows mapped to one of the keys (None excepted) -/
theorem mem_affectedRowsByKeys {m : List (Row × Key)} {keys : List Key} {r : Row} :
    r ∈ affectedRowsByKeys m keys ↔ ∃ k ∈ keys, k ≠ noneKey ∧ (r, k) ∈ m := by
  unfold affectedRowsByKeys
  rw [mem_affectedRowsByKeys_aux]
  simp

theorem mem_handedPairs {s : Rel} {ks : List Key} {p : Row × Key} :
    p ∈ handedPairs s ks ↔ p ∈ s.map ∧ p.2 ∈ ks ∧ p.2 ∉ s.cache ∧ p.2 ≠ noneKey := by
  simp [handedPairs, and_assoc]

/-! ### `invalidate_affected_keys` -/

theorem invalidate_map (s : Rel) (ks : List Key) : (invalidateAffectedKeys s ks).1.map = s.map := by
  unfold invalidateAffectedKeys
  simp only
  split <;> rfl

/-- the rows handed over: those mapped to a key of `ks` that is not None and not cached -/
theorem mem_handedBy {s : Rel} {ks : List Key} {r : Row} :
    r ∈ handedBy s ks ↔ ∃ k ∈ ks, k ∉ s.cache ∧ k ≠ noneKey ∧ (r, k) ∈ s.map := by
  unfold handedBy invalidateAffectedKeys
  simp only
  by_cases h : (affectedRowsByKeys s.map (sdiff ks s.cache)).isEmpty = true
  · rw [if_pos h]
    have h' : affectedRowsByKeys s.map (sdiff ks s.cache) = [] := by simpa using h
    simp only [Option.getD_none, List.not_mem_nil, false_iff]
    rintro ⟨k, hk, hc, hn, hm⟩
    have : r ∈ affectedRowsByKeys s.map (sdiff ks s.cache) :=
      mem_affectedRowsByKeys.2 ⟨k, mem_sdiff.2 ⟨hk, hc⟩, hn, hm⟩
    rw [h'] at this
    exact absurd this (by simp)
  · rw [if_neg h]
    simp only [Option.getD_some, mem_affectedRowsByKeys, mem_sdiff]
    constructor
    · rintro ⟨k, ⟨hk, hc⟩, hn, hm⟩; exact ⟨k, hk, hc, hn, hm⟩
    · rintro ⟨k, hk, hc, hn, hm⟩; exact ⟨k, ⟨hk, hc⟩, hn, hm⟩

/-- the cache after `invalidate_affected_keys`: grows by `ks` exactly when rows were handed over -/
theorem mem_invalidate_cache {s : Rel} {ks : List Key} {k : Key} :
    k ∈ (invalidateAffectedKeys s ks).1.cache ↔ k ∈ s.cache ∨ (k ∈ ks ∧ handedBy s ks ≠ []) := by
  unfold handedBy invalidateAffectedKeys
  simp only
  by_cases h : (affectedRowsByKeys s.map (sdiff ks s.cache)).isEmpty = true
  · rw [if_pos h]; simp
  · rw [if_neg h]
    have h' : affectedRowsByKeys s.map (sdiff ks s.cache) ≠ [] := by simpa using h
    simp [mem_sunion, h']

theorem invalidate_snd_eq (s : Rel) (ks : List Key) :
    (invalidateAffectedKeys s ks).2 = none ∧ handedBy s ks = [] ∧ (invalidateAffectedKeys s ks).1 = s ∨
    ∃ rows, (invalidateAffectedKeys s ks).2 = some rows ∧ handedBy s ks = rows ∧ rows ≠ [] := by
  unfold handedBy invalidateAffectedKeys
  simp only
  by_cases h : (affectedRowsByKeys s.map (sdiff ks s.cache)).isEmpty = true
  · rw [if_pos h]; exact Or.inl ⟨rfl, rfl, rfl⟩
  · rw [if_neg h]
    have h' : affectedRowsByKeys s.map (sdiff ks s.cache) ≠ [] := by simpa using h
    exact Or.inr ⟨_, rfl, rfl, h'⟩

/-! ### one step, runs -/

/-- state after one operation -/
abbrev next (clear : Bool) (st : St) (o : Op) : St := (step clear st o).1

theorem run_nil (clear : Bool) (st : St) : run clear st [] = st := rfl

theorem run_cons (clear : Bool) (st : St) (o : Op) (os : List Op) :
    run clear st (o :: os) = run clear (next clear st o) os := rfl

theorem run_append (clear : Bool) (st : St) (a b : List Op) :
    run clear st (a ++ b) = run clear (run clear st a) b := by
  simp [run, List.foldl_append]

theorem next_invalidate_rel (clear : Bool) (st : St) (ks : List Key) :
    (next clear st (.invalidate ks)).rel = (invalidateAffectedKeys st.rel ks).1 := by
  simp only [next, step]
  split <;> next heq => simp [heq]

theorem next_invalidate_g_nil (clear : Bool) (st : St) (ks : List Key) (h : handedBy st.rel ks = []) :
    (next clear st (.invalidate ks)).g = st.g := by
  simp only [next, step]
  split
  · rfl
  · next rel' rows heq =>
    rcases invalidate_snd_eq st.rel ks with ⟨h1, _, _⟩ | ⟨rows2, _, h2, h3⟩
    · rw [heq] at h1; simp at h1
    · rw [h] at h2; exact absurd h2.symm h3

theorem next_invalidate_g_cons (clear : Bool) (st : St) (ks : List Key) (h : handedBy st.rel ks ≠ []) :
    (next clear st (.invalidate ks)).g =
      { st.g with handed := sunion st.g.handed (handedPairs st.rel ks),
                  clean := sdiff st.g.clean (handedBy st.rel ks) } := by
  simp only [next, step]
  split
  · next rel' heq =>
    rcases invalidate_snd_eq st.rel ks with ⟨_, h2, _⟩ | ⟨rows, h1, _, _⟩
    · exact absurd h2 h
    · rw [heq] at h1; simp at h1
  · next rel' rows heq =>
    have : handedBy st.rel ks = rows := by simp [handedBy, heq]
    simp [this]

/-! ### "last writer" principle

A fact `P` about the state that some operations establish (`sets`), some destroy (`unset`) and all
others leave alone holds after a run exactly if it held at the start and was never destroyed, or
was established at some point and not destroyed afterwards. -/

/-- along the run from `st`, no operation of `ops` destroys the fact -/
def NoUnset (clear : Bool) (unset : St → Op → Prop) : St → List Op → Prop
  | _, [] => True
  | st, o :: os => ¬ unset st o ∧ NoUnset clear unset (next clear st o) os

theorem noUnset_const (clear : Bool) (u : Op → Prop) (st : St) (ops : List Op) :
    NoUnset clear (fun _ o => u o) st ops ↔ ∀ o ∈ ops, ¬ u o := by
  induction ops generalizing st with
  | nil => simp [NoUnset]
  | cons o os ih => simp [NoUnset, ih]

theorem lastWriter (clear : Bool) (P : St → Prop) (sets unset : St → Op → Prop)
    (hs : ∀ s o, sets s o → P (next clear s o))
    (hu : ∀ s o, unset s o → ¬ sets s o → ¬ P (next clear s o))
    (hk : ∀ s o, ¬ sets s o → ¬ unset s o → (P (next clear s o) ↔ P s))
    (s0 : St) (ops : List Op) :
    P (run clear s0 ops) ↔
      (P s0 ∧ NoUnset clear unset s0 ops) ∨
      ∃ pre o post, ops = pre ++ o :: post ∧ sets (run clear s0 pre) o ∧
        NoUnset clear unset (next clear (run clear s0 pre) o) post := by
  induction ops generalizing s0 with
  | nil =>
    simp [run_nil, NoUnset]
  | cons o os ih =>
    rw [run_cons, ih (next clear s0 o)]
    have hP : P (next clear s0 o) ↔ (P s0 ∧ ¬ unset s0 o) ∨ sets s0 o := by
      by_cases h1 : sets s0 o
      · exact ⟨fun _ => Or.inr h1, fun _ => hs s0 o h1⟩
      · by_cases h2 : unset s0 o
        · constructor
          · intro h; exact absurd h (hu s0 o h2 h1)
          · rintro (⟨_, h⟩ | h)
            · exact absurd h2 h
            · exact absurd h h1
        · rw [hk s0 o h1 h2]
          constructor
          · intro h; exact Or.inl ⟨h, h2⟩
          · rintro (⟨h, _⟩ | h)
            · exact h
            · exact absurd h h1
    constructor
    · rintro (⟨hp, hn⟩ | ⟨pre, o', post, heq, hset, hn⟩)
      · rcases hP.1 hp with ⟨hp0, hnu⟩ | hset
        · exact Or.inl ⟨hp0, hnu, hn⟩
        · exact Or.inr ⟨[], o, os, rfl, by simpa [run_nil] using hset, by simpa [run_nil] using hn⟩
      · refine Or.inr ⟨o :: pre, o', post, by simp [heq], ?_, ?_⟩
        · simpa [run_cons] using hset
        · simpa [run_cons] using hn
    · rintro (⟨hp0, hnu, hn⟩ | ⟨pre, o', post, heq, hset, hn⟩)
      · exact Or.inl ⟨hP.2 (Or.inl ⟨hp0, hnu⟩), hn⟩
      · cases pre with
        | nil =>
          simp at heq
          obtain ⟨rfl, rfl⟩ := heq
          exact Or.inl ⟨hP.2 (Or.inr (by simpa [run_nil] using hset)), by simpa [run_nil] using hn⟩
        | cons a pre' =>
          simp at heq
          obtain ⟨rfl, rfl⟩ := heq
          exact Or.inr ⟨pre', o', post, rfl, by simpa [run_cons] using hset, by simpa [run_cons] using hn⟩

/-! ### the map holds exactly the lookups recorded since each row's last reset -/

theorem addLookupWith_map (clear : Bool) (s : Rel) (r : Row) (k : Key) :
    (addLookupWith clear s r k).map = sadd (r, k) s.map := by
  cases clear <;> rfl

theorem map_lastWriter (clear : Bool) (r : Row) (k : Key) (s0 : St) (ops : List Op) :
    (r, k) ∈ (run clear s0 ops).rel.map ↔
      ((r, k) ∈ s0.rel.map ∧ ∀ o ∈ ops, o.resets r = false) ∨
      ∃ pre post, ops = pre ++ Op.add r k :: post ∧ ∀ o ∈ post, o.resets r = false := by
  have h := lastWriter clear (fun st => (r, k) ∈ st.rel.map) (fun _ o => o = Op.add r k)
    (fun _ o => o.resets r = true) ?_ ?_ ?_ s0 ops
  · rw [h, noUnset_const]
    simp only [Bool.not_eq_true]
    constructor
    · rintro (h1 | ⟨pre, o, post, h1, rfl, h3⟩)
      · exact Or.inl h1
      · rw [noUnset_const] at h3
        exact Or.inr ⟨pre, post, h1, by simpa using h3⟩
    · rintro (h1 | ⟨pre, post, h1, h3⟩)
      · exact Or.inl h1
      · refine Or.inr ⟨pre, _, post, h1, rfl, ?_⟩
        rw [noUnset_const]
        simpa using h3
  · rintro s o rfl
    simp [next, step, addLookupWith_map, mem_sadd]
  · intro s o hu _
    cases o <;> simp [Op.resets] at hu
    · simp [next, step, resetRows, resetCache, mem_foldl_removeLeft, hu]
    · simp [next, step, resetRows, resetCache]
    · simp [next, step, resetAll, resetCache]
  · intro s o h1 h2
    cases o with
    | add r' k' =>
      simp only [next, step, addLookupWith_map, mem_sadd]
      constructor
      · rintro (h | h)
        · exact absurd (by cases h; rfl) h1
        · exact h
      · exact Or.inr
    | addRaise _ => simp [next, step]
    | resetRows rows =>
      have : r ∉ rows := by simpa [Op.resets] using h2
      simp [next, step, resetRows, resetCache, mem_foldl_removeLeft, this]
    | resetAllRows => simp [Op.resets] at h2
    | resetAll => simp [Op.resets] at h2
    | invalidate ks => simp only [next_invalidate_rel, invalidate_map]
    | query _ => simp [next, step]
    | beginEval _ => simp [next, step]
    | settled _ => simp [next, step]

theorem map_nodup (clear : Bool) (s0 : St) (h0 : s0.rel.map.Nodup) (ops : List Op) :
    (run clear s0 ops).rel.map.Nodup := by
  induction ops generalizing s0 with
  | nil => exact h0
  | cons o os ih =>
    rw [run_cons]
    apply ih
    cases o with
    | add r k => simpa [next, step, addLookupWith_map] using nodup_sadd h0
    | addRaise _ => simpa [next, step] using h0
    | resetRows rows => simpa [next, step, resetRows, resetCache] using nodup_foldl_removeLeft h0
    | resetAllRows => simp [next, step, resetRows, resetCache]
    | resetAll => simp [next, step, resetAll, resetCache]
    | invalidate ks => simpa only [next_invalidate_rel, invalidate_map] using h0
    | query _ => simpa [next, step] using h0
    | beginEval _ => simpa [next, step] using h0
    | settled _ => simpa [next, step] using h0

/-! ### the ghost fields, characterised by the operation sequence alone -/

/-- `live`: recorded by an `add r k` after which there was neither a `beginEval r` nor a `reset_all` -/
theorem live_lastWriter (clear : Bool) (r : Row) (k : Key) (s0 : St) (ops : List Op) :
    (r, k) ∈ (run clear s0 ops).g.live ↔
      ((r, k) ∈ s0.g.live ∧ ∀ o ∈ ops, o ≠ Op.beginEval r ∧ o ≠ Op.resetAll) ∨
      ∃ pre post, ops = pre ++ Op.add r k :: post ∧ ∀ o ∈ post, o ≠ Op.beginEval r ∧ o ≠ Op.resetAll := by
  have h := lastWriter clear (fun st => (r, k) ∈ st.g.live) (fun _ o => o = Op.add r k)
    (fun _ o => o = Op.beginEval r ∨ o = Op.resetAll) ?_ ?_ ?_ s0 ops
  · rw [h, noUnset_const]
    simp only [not_or]
    constructor
    · rintro (h1 | ⟨pre, o, post, h1, rfl, h3⟩)
      · exact Or.inl h1
      · rw [noUnset_const] at h3
        exact Or.inr ⟨pre, post, h1, by simpa using h3⟩
    · rintro (h1 | ⟨pre, post, h1, h3⟩)
      · exact Or.inl h1
      · refine Or.inr ⟨pre, _, post, h1, rfl, ?_⟩
        rw [noUnset_const]
        simpa using h3
  · rintro s o rfl
    simp [next, step, mem_sadd]
  · rintro s o (rfl | rfl) _
    · simp [next, step]
    · simp [next, step]
  · intro s o h1 h2
    cases o with
    | add r' k' =>
      simp only [next, step, mem_sadd]
      constructor
      · rintro (h | h)
        · exact absurd (by cases h; rfl) h1
        · exact h
      · exact Or.inr
    | addRaise _ => simp [next, step]
    | resetRows rows => simp [next, step]
    | resetAllRows => simp [next, step]
    | resetAll => simp at h2
    | invalidate ks =>
      by_cases hh : handedBy s.rel ks = []
      · rw [next_invalidate_g_nil clear s ks hh]
      · rw [next_invalidate_g_cons clear s ks hh]
    | query _ => simp [next, step]
    | beginEval r' =>
      have : r' ≠ r := by
        intro h; subst h; simp at h2
      simp only [next, step, List.mem_filter]
      constructor
      · exact fun h => h.1
      · intro h; exact ⟨h, by simpa using fun h' => this h'.symm⟩
    | settled _ => simp [next, step]

/-- `handed` (code, `clear = true`): put there by an `invalidate ks` that handed the row over for
    that key, and the cache has not been cleared since -/
theorem handed_lastWriter (r : Row) (k : Key) (s0 : St) (ops : List Op) :
    (r, k) ∈ (run true s0 ops).g.handed ↔
      ((r, k) ∈ s0.g.handed ∧ ∀ o ∈ ops, o.clearsCache = false) ∨
      ∃ pre ks post, ops = pre ++ Op.invalidate ks :: post ∧
        (r, k) ∈ handedPairs (run true s0 pre).rel ks ∧ ∀ o ∈ post, o.clearsCache = false := by
  have h := lastWriter true (fun st => (r, k) ∈ st.g.handed)
    (fun st o => ∃ ks, o = Op.invalidate ks ∧ (r, k) ∈ handedPairs st.rel ks)
    (fun _ o => o.clearsCache = true) ?_ ?_ ?_ s0 ops
  · rw [h, noUnset_const]
    simp only [Bool.not_eq_true]
    constructor
    · rintro (h1 | ⟨pre, o, post, h1, ⟨ks, rfl, h2⟩, h3⟩)
      · exact Or.inl h1
      · rw [noUnset_const] at h3
        exact Or.inr ⟨pre, ks, post, h1, h2, by simpa using h3⟩
    · rintro (h1 | ⟨pre, ks, post, h1, h2, h3⟩)
      · exact Or.inl h1
      · refine Or.inr ⟨pre, _, post, h1, ⟨ks, rfl, h2⟩, ?_⟩
        rw [noUnset_const]
        simpa using h3
  · rintro s o ⟨ks, rfl, hp⟩
    have hne : handedBy s.rel ks ≠ [] := by
      have hm := mem_handedPairs.1 hp
      have : r ∈ handedBy s.rel ks := mem_handedBy.2 ⟨k, hm.2.1, hm.2.2.1, hm.2.2.2, hm.1⟩
      intro h0; rw [h0] at this; exact absurd this (by simp)
    rw [next_invalidate_g_cons true s ks hne]
    exact mem_sunion.2 (Or.inr hp)
  · intro s o hu _
    cases o <;> simp [Op.clearsCache] at hu <;> simp [next, step]
  · intro s o h1 h2
    cases o with
    | add r' k' => simp [Op.clearsCache] at h2
    | addRaise _ => simp [next, step]
    | resetRows rows => simp [Op.clearsCache] at h2
    | resetAllRows => simp [Op.clearsCache] at h2
    | resetAll => simp [Op.clearsCache] at h2
    | invalidate ks =>
      by_cases hh : handedBy s.rel ks = []
      · rw [next_invalidate_g_nil true s ks hh]
      · rw [next_invalidate_g_cons true s ks hh]
        simp only [mem_sunion]
        constructor
        · rintro (h | h)
          · exact h
          · exact absurd ⟨ks, rfl, h⟩ h1
        · exact Or.inl
    | query _ => simp [next, step]
    | beginEval _ => simp [next, step]
    | settled _ => simp [next, step]

/-- the cache (code): a key is cached iff some `invalidate ks` with `k ∈ ks` handed rows over and the
    cache has not been cleared since -/
theorem cache_lastWriter (k : Key) (s0 : St) (ops : List Op) :
    k ∈ (run true s0 ops).rel.cache ↔
      (k ∈ s0.rel.cache ∧ ∀ o ∈ ops, o.clearsCache = false) ∨
      ∃ pre ks post, ops = pre ++ Op.invalidate ks :: post ∧ k ∈ ks ∧
        handedBy (run true s0 pre).rel ks ≠ [] ∧ ∀ o ∈ post, o.clearsCache = false := by
  have h := lastWriter true (fun st => k ∈ st.rel.cache)
    (fun st o => ∃ ks, o = Op.invalidate ks ∧ k ∈ ks ∧ handedBy st.rel ks ≠ [])
    (fun _ o => o.clearsCache = true) ?_ ?_ ?_ s0 ops
  · rw [h, noUnset_const]
    simp only [Bool.not_eq_true]
    constructor
    · rintro (h1 | ⟨pre, o, post, h1, ⟨ks, rfl, h2, h2'⟩, h3⟩)
      · exact Or.inl h1
      · rw [noUnset_const] at h3
        exact Or.inr ⟨pre, ks, post, h1, h2, h2', by simpa using h3⟩
    · rintro (h1 | ⟨pre, ks, post, h1, h2, h2', h3⟩)
      · exact Or.inl h1
      · refine Or.inr ⟨pre, _, post, h1, ⟨ks, rfl, h2, h2'⟩, ?_⟩
        rw [noUnset_const]
        simpa using h3
  · rintro s o ⟨ks, rfl, hk, hne⟩
    rw [next_invalidate_rel, mem_invalidate_cache]
    exact Or.inr ⟨hk, hne⟩
  · intro s o hu _
    cases o <;> simp [Op.clearsCache] at hu <;>
      simp [next, step, addLookupWith, resetRows, resetAll, resetCache]
  · intro s o h1 h2
    cases o with
    | add r' k' => simp [Op.clearsCache] at h2
    | addRaise _ => simp [next, step]
    | resetRows rows => simp [Op.clearsCache] at h2
    | resetAllRows => simp [Op.clearsCache] at h2
    | resetAll => simp [Op.clearsCache] at h2
    | invalidate ks =>
      rw [next_invalidate_rel, mem_invalidate_cache]
      constructor
      · rintro (h | ⟨h, h'⟩)
        · exact h
        · exact absurd ⟨ks, rfl, h, h'⟩ h1
      · exact Or.inl
    | query _ => simp [next, step]
    | beginEval _ => simp [next, step]
    | settled _ => simp [next, step]

/-- what takes a row out of `clean`: being reset, or being handed to `invalidate_records` -/
def Unclean (r : Row) (st : St) (o : Op) : Prop :=
  o.resets r = true ∨ ∃ ks, o = Op.invalidate ks ∧ r ∈ handedBy st.rel ks

/-- `clean`: there was a `beginEval r` after which (along the run) the row was neither reset nor
    handed over -/
theorem clean_lastWriter (clear : Bool) (r : Row) (s0 : St) (ops : List Op) :
    r ∈ (run clear s0 ops).g.clean ↔
      (r ∈ s0.g.clean ∧ NoUnset clear (Unclean r) s0 ops) ∨
      ∃ pre post, ops = pre ++ Op.beginEval r :: post ∧
        NoUnset clear (Unclean r) (next clear (run clear s0 pre) (Op.beginEval r)) post := by
  have h := lastWriter clear (fun st => r ∈ st.g.clean) (fun _ o => o = Op.beginEval r)
    (Unclean r) ?_ ?_ ?_ s0 ops
  · rw [h]
    constructor
    · rintro (h1 | ⟨pre, o, post, h1, rfl, h3⟩)
      · exact Or.inl h1
      · exact Or.inr ⟨pre, post, h1, h3⟩
    · rintro (h1 | ⟨pre, post, h1, h3⟩)
      · exact Or.inl h1
      · exact Or.inr ⟨pre, _, post, h1, rfl, h3⟩
  · rintro s o rfl
    simp [next, step, mem_sadd]
  · rintro s o (hu | ⟨ks, rfl, hr⟩) _
    · cases o <;> simp [Op.resets] at hu
      · simp [next, step, mem_sdiff, hu]
      · simp [next, step]
      · simp [next, step]
    · have hne : handedBy s.rel ks ≠ [] := by
        intro h0; rw [h0] at hr; exact absurd hr (by simp)
      rw [next_invalidate_g_cons clear s ks hne]
      simp [mem_sdiff, hr]
  · intro s o h1 h2
    cases o with
    | add r' k' => simp [next, step]
    | addRaise _ => simp [next, step]
    | resetRows rows =>
      have : r ∉ rows := by
        intro hr; exact h2 (Or.inl (by simpa [Op.resets] using hr))
      simp [next, step, mem_sdiff, this]
    | resetAllRows => exact absurd (Or.inl (by simp [Op.resets])) h2
    | resetAll => exact absurd (Or.inl (by simp [Op.resets])) h2
    | invalidate ks =>
      by_cases hh : handedBy s.rel ks = []
      · rw [next_invalidate_g_nil clear s ks hh]
      · rw [next_invalidate_g_cons clear s ks hh]
        have : r ∉ handedBy s.rel ks := fun hr => h2 (Or.inr ⟨ks, rfl, hr⟩)
        simp [mem_sdiff, this]
    | query _ => simp [next, step]
    | beginEval r' =>
      have : r ≠ r' := by
        intro h; subst h; exact h1 rfl
      simp [next, step, mem_sadd, this]
    | settled _ => simp [next, step]

/-! ### the two invariants -/

/-- a cached key suppresses only rows that were handed over for it since the cache was last cleared -/
def InvA (st : St) : Prop :=
  ∀ r k, k ∈ st.rel.cache → k ≠ noneKey → (r, k) ∈ st.rel.map → (r, k) ∈ st.g.handed

/-- a lookup made by the latest evaluation of a clean row is in the map, under a key that is not cached -/
def InvB (st : St) : Prop :=
  ∀ r k, (r, k) ∈ st.g.live → r ∈ st.g.clean → k ≠ noneKey → (r, k) ∈ st.rel.map ∧ k ∉ st.rel.cache

theorem invA_empty : InvA {} := by
  intro r k h; simp at h

theorem invB_empty : InvB {} := by
  intro r k h; simp at h

theorem invA_next {st : St} (h : InvA st) (o : Op) : InvA (next true st o) := by
  cases o with
  | add r' k' => intro r k hc; simp [next, step, addLookupWith, resetCache] at hc
  | addRaise _ => simpa [next, step] using h
  | resetRows rows => intro r k hc; simp [next, step, resetRows, resetCache] at hc
  | resetAllRows => intro r k hc; simp [next, step, resetRows, resetCache] at hc
  | resetAll => intro r k hc; simp [next, step, resetAll, resetCache] at hc
  | invalidate ks =>
    intro r k hc hn hm
    rw [next_invalidate_rel] at hc hm
    rw [invalidate_map] at hm
    rw [mem_invalidate_cache] at hc
    by_cases hh : handedBy st.rel ks = []
    · rw [next_invalidate_g_nil true st ks hh]
      rcases hc with hc | ⟨_, hne⟩
      · exact h r k hc hn hm
      · exact absurd hh hne
    · rw [next_invalidate_g_cons true st ks hh]
      by_cases hk : k ∈ st.rel.cache
      · exact mem_sunion.2 (Or.inl (h r k hk hn hm))
      · rcases hc with hc | ⟨hks, _⟩
        · exact absurd hc hk
        · exact mem_sunion.2 (Or.inr (mem_handedPairs.2 ⟨hm, hks, hk, hn⟩))
  | query _ => simpa [next, step] using h
  | beginEval _ => simpa [next, step, InvA] using h
  | settled _ => simpa [next, step] using h

theorem invB_next {st : St} (h : InvB st) (o : Op) : InvB (next true st o) := by
  cases o with
  | add r' k' =>
    intro r k hl hc hn
    simp only [next, step, mem_sadd] at hl hc
    refine ⟨?_, by simp [next, step, addLookupWith, resetCache]⟩
    simp only [next, step, addLookupWith_map, mem_sadd]
    rcases hl with hl | hl
    · exact Or.inl hl
    · exact Or.inr (h r k hl hc hn).1
  | addRaise _ => simpa [next, step] using h
  | resetRows rows =>
    intro r k hl hc hn
    simp only [next, step, mem_sdiff] at hl hc
    refine ⟨?_, by simp [next, step, resetRows, resetCache]⟩
    simp only [next, step, resetRows, resetCache, mem_foldl_removeLeft]
    exact ⟨(h r k hl hc.1 hn).1, hc.2⟩
  | resetAllRows => intro r k _ hc; simp [next, step] at hc
  | resetAll => intro r k hl; simp [next, step] at hl
  | invalidate ks =>
    intro r k hl hc hn
    rw [next_invalidate_rel, invalidate_map, mem_invalidate_cache]
    by_cases hh : handedBy st.rel ks = []
    · rw [next_invalidate_g_nil true st ks hh] at hl hc
      have := h r k hl hc hn
      exact ⟨this.1, by simp [this.2, hh]⟩
    · rw [next_invalidate_g_cons true st ks hh] at hl hc
      simp only [mem_sdiff] at hc
      have := h r k hl hc.1 hn
      refine ⟨this.1, ?_⟩
      rintro (h1 | ⟨h1, _⟩)
      · exact this.2 h1
      · exact hc.2 (mem_handedBy.2 ⟨k, h1, this.2, hn, this.1⟩)
  | query _ => simpa [next, step] using h
  | beginEval r' =>
    intro r k hl hc hn
    simp only [next, step, List.mem_filter, mem_sadd] at hl hc
    have hne : r ≠ r' := by
      intro he; subst he; simp at hl
    rcases hc with hc | hc
    · exact absurd hc hne
    · simpa [next, step] using h r k hl.1 hc hn
  | settled _ => simpa [next, step] using h

theorem invA_run {st : St} (h : InvA st) (ops : List Op) : InvA (run true st ops) := by
  induction ops generalizing st with
  | nil => exact h
  | cons o os ih => rw [run_cons]; exact ih (invA_next h o)

theorem invB_run {st : St} (h : InvB st) (ops : List Op) : InvB (run true st ops) := by
  induction ops generalizing st with
  | nil => exact h
  | cons o os ih => rw [run_cons]; exact ih (invB_next h o)

/-- the start state the driver uses for a relation first observed in mid-life satisfies both -/
theorem inv_ofSnapshot (m : List (Row × Key)) (cache : List Key) :
    InvA (St.ofSnapshot m cache) ∧ InvB (St.ofSnapshot m cache) := by
  constructor
  · intro r k hc hn hm
    simp only [St.ofSnapshot] at hc hm ⊢
    simp [List.mem_filter, hm, hc, hn]
  · intro r k hl _ _
    simp only [St.ofSnapshot, List.mem_filter] at hl ⊢
    exact ⟨hl.1, by simpa using hl.2⟩

/-! ### the explicit hypothesis -/

theorem settledOk_iff {st : St} {rows : List Row} :
    settledOk st rows = true ↔ ∀ r ∈ rows, (∃ k, (r, k) ∈ st.g.live) → r ∈ st.g.clean := by
  simp only [settledOk, List.all_eq_true, Bool.or_eq_true, Bool.not_eq_true', List.any_eq_false,
    List.contains_iff_mem]
  constructor
  · intro h r hr ⟨k, hk⟩
    rcases h r hr with h1 | h1
    · have := h1 (r, k) hk
      simp at this
    · exact h1
  · intro h r hr
    by_cases hl : ∃ k, (r, k) ∈ st.g.live
    · exact Or.inr (h r hr hl)
    · refine Or.inl ?_
      rintro ⟨r', k⟩ hp
      simp only [beq_iff_eq]
      intro he
      subst he
      exact hl ⟨k, hp⟩

theorem engineSettled_at {clear : Bool} {s0 : St} {pre post : List Op} {rows : List Row}
    (h : engineSettled clear s0 (pre ++ Op.settled rows :: post) = true) :
    settledOk (run clear s0 pre) rows = true := by
  induction pre generalizing s0 with
  | nil =>
    simp only [List.nil_append, engineSettled, Bool.and_eq_true] at h
    exact h.1
  | cons o os ih =>
    simp only [List.cons_append, engineSettled, Bool.and_eq_true] at h
    rw [run_cons]
    exact ih h.2

/-! ### the variant differs from the code only when a lookup is recorded on a non-empty cache -/

theorem step_congr_rel {s1 s2 : St} (h : s1.rel = s2.rel) (o : Op)
    (hc : ∀ r k, o = Op.add r k → s1.rel.cache = []) :
    (next false s1 o).rel = (next true s2 o).rel ∧ (step false s1 o).2 = (step true s2 o).2 := by
  cases o with
  | add r k =>
    have := hc r k rfl
    simp only [next, step, addLookupWith, resetCache, Bool.false_eq_true, if_false, if_true, and_true]
    rw [← h]
    cases hs : s1.rel with
    | mk m c => rw [hs] at this; simp at this; subst this; rfl
  | addRaise _ => simp [next, step, h]
  | resetRows rows => simp [next, step, h]
  | resetAllRows => simp [next, step, h]
  | resetAll => simp [next, step, h]
  | invalidate ks =>
    refine ⟨by rw [next_invalidate_rel, next_invalidate_rel, h], ?_⟩
    simp only [step, h]
    split <;> rfl
  | query _ => simp [next, step, h]
  | beginEval _ => simp [next, step, h]
  | settled _ => simp [next, step, h]

theorem variant_agrees_aux (ops : List Op) : ∀ (s1 s2 : St), s1.rel = s2.rel →
    addsOnEmptyCache false s1 ops = true →
    (run false s1 ops).rel = (run true s2 ops).rel ∧ outputs false s1 ops = outputs true s2 ops := by
  induction ops with
  | nil => intro s1 s2 h _; exact ⟨h, rfl⟩
  | cons o os ih =>
    intro s1 s2 h ha
    simp only [addsOnEmptyCache, Bool.and_eq_true] at ha
    have hc : ∀ r k, o = Op.add r k → s1.rel.cache = [] := by
      rintro r k rfl
      simpa using ha.1
    have hstep := step_congr_rel h o hc
    have := ih (next false s1 o) (next true s2 o) hstep.1 ha.2
    rw [run_cons, run_cons]
    refine ⟨this.1, ?_⟩
    simp only [outputs]
    rw [hstep.2]
    exact congrArg _ this.2

end Grist.LookupRel
