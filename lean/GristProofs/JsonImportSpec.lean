/-
Vocabulary and helper development for the C33 theorems (GristProps/C33.lean): the specification
functions the statements are written in (`elemsSpec`, `StoredRow`, `keptElems`, `allScalars`, ...)
and the inductions over `addRow` / `addItems` / `addElems` that establish them.
-/
import GristModel.JsonImport
import GristProofs.JsonImport
namespace Grist.JsonImport

/-! ## Vocabulary of the statements -/

/-- the scalar cells of a row, in column order -/
def rowScalars (r : Row) : List (String × Scalar) :=
  r.values.filterMap (fun p => match p.2 with
    | .val s => some (p.1, s)
    | .ref _ => none)

/-- the scalar members of an object that the options keep, as (key, value), in key order -/
def ownScalars (o : Opts) (table : String) : List (String × J) → List (String × Scalar)
  | [] => []
  | (k, .sc s) :: rest => (if isIncluded o (sub table k) then [(k, s)] else []) ++ ownScalars o table rest
  | (_, .arr _) :: rest => ownScalars o table rest
  | (_, .obj _) :: rest => ownScalars o table rest

/-- a value at path `table` contributes a row to table `T` iff the path is kept and is `T` -/
def ownRow (o : Opts) (T table : String) (cells : List (String × Scalar)) :
    List (List (String × Scalar)) :=
  if isIncluded o table = true ∧ T = table then [cells] else []

/- **The place of every scalar**, read off the input alone: for a table name `T`, the list (in
   document order) of the values whose path is `T`, each with the kept scalars it directly
   contains.  A non-object value is the object `{'': value}` (module docstring). -/
mutual
def rowsSpec (o : Opts) (T table : String) : J → List (List (String × Scalar))
  | .sc s => ownRow o T table (ownScalars o table [("", .sc s)])
  | .arr xs => ownRow o T table [] ++ elemsSpec o T (sub table "") xs
  | .obj kvs => ownRow o T table (ownScalars o table kvs) ++ itemsSpec o T table kvs
def elemsSpec (o : Opts) (T table : String) : List J → List (List (String × Scalar))
  | [] => []
  | x :: xs => rowsSpec o T table x ++ elemsSpec o T table xs
def itemsSpec (o : Opts) (T table : String) : List (String × J) → List (List (String × Scalar))
  | [] => []
  | (_, .sc _) :: rest => itemsSpec o T table rest
  | (k, .arr xs) :: rest => elemsSpec o T (sub table k) xs ++ itemsSpec o T table rest
  | (k, .obj kvs) :: rest => rowsSpec o T (sub table k) (.obj kvs) ++ itemsSpec o T table rest
end

/-- the row a `Ref` points to -/
def getRow (st : St) (r : Ref) : Option Row := (rowsOf st r.table)[r.rowid - 1]?

/-- `me` is a legal row handle for a value at path `table`: absent iff the path is filtered out,
    otherwise a reference into table `table` -/
def MeOk (o : Opts) (table : String) (me : Option Ref) : Prop :=
  match me with
  | none => isIncluded o table = false
  | some r => isIncluded o table = true ∧ r.table = table ∧ 1 ≤ r.rowid

/-- the row `me` (if the value has one) exists, points back to `parent`, and holds exactly `vals` -/
def RowIs (st : St) (me parent : Option Ref) (vals : List (String × Cell)) : Prop :=
  match me with
  | none => True
  | some r => getRow st r = some ⟨vals, parent, r⟩

def Above (lo : Nat) (child : Option Ref) : Prop := ∀ r, child = some r → lo < r.rowid
def nextLo (lo : Nat) : Option Ref → Nat
  | some r => r.rowid
  | none => lo

/- **The tables hold the input**: `StoredRow o st table parent me v` says that the value `v`, met
   at path `table`, is held by row `me` of the tables `st`:
   * its row exists, carries `parent` as back-reference and has exactly the cells listed below;
   * a kept scalar member `k: s` is the cell `(k, s)`;
   * a nested object member `k: {..}` has its own row `child` in table `table_k` (present iff that
     path is kept) which holds the nested object, and -- if both rows exist -- the cell
     `(k, Ref child)`;
   * the elements of an array member `k: [..]` have rows in table `table_k`, in increasing row
     order, each with back-reference `me`, each holding its element;
   * a non-object value is the object `{'': value}`. -/
mutual
def StoredRow (o : Opts) (st : St) (table : String) (parent me : Option Ref) : J → Prop
  | .sc s => RowIs st me parent (scalarCell o table me "" s)
  | .arr xs => RowIs st me parent [] ∧ StoredElems o st (sub table "") me 0 xs
  | .obj kvs => ∃ vals, RowIs st me parent vals ∧ StoredItems o st table me vals kvs
def StoredElems (o : Opts) (st : St) (table : String) (parent : Option Ref) (lo : Nat) : List J → Prop
  | [] => True
  | x :: xs => ∃ child, MeOk o table child ∧ Above lo child ∧
      StoredRow o st table parent child x ∧ StoredElems o st table parent (nextLo lo child) xs
def StoredItems (o : Opts) (st : St) (table : String) (me : Option Ref)
    (vals : List (String × Cell)) : List (String × J) → Prop
  | [] => vals = []
  | (k, .sc s) :: rest => ∃ vals', vals = scalarCell o table me k s ++ vals' ∧
      StoredItems o st table me vals' rest
  | (k, .arr xs) :: rest => StoredElems o st (sub table k) me 0 xs ∧ StoredItems o st table me vals rest
  | (k, v@(.obj _)) :: rest => ∃ child vals', MeOk o (sub table k) child ∧
      StoredRow o st (sub table k) none child v ∧
      vals = refCell me child k ++ vals' ∧ StoredItems o st table me vals' rest
end

/-- all back-references of the rows of one table point into one and the same table -/
def sameParentTable (rows : List Row) : Bool :=
  rows.all (fun r1 => rows.all (fun r2 =>
    match r1.parent, r2.parent with
    | some p1, some p2 => p1.table == p2.table
    | _, _ => true))

/-! ## helper lemmas -/

theorem rowScalars_append (a b : List (String × Cell)) :
    rowScalars ⟨a ++ b, p, r⟩ = rowScalars ⟨a, p, r⟩ ++ rowScalars ⟨b, p, r⟩ := by
  simp [rowScalars, List.filterMap_append]

theorem self_append_eq {α} {l x : List α} (h : l = l ++ x) : x = [] := by
  have := congrArg List.length h
  simpa using this

/-- the scalar cells that `addItems` returns are the kept scalar members -/
theorem addItems_scalars (o : Opts) (table : String) (p : Option Ref) (r : Ref) :
    ∀ (kvs : List (String × J)) (st : St) (me : Option Ref),
      rowScalars ⟨(addItems o st table me kvs).2, p, r⟩ =
        if me.isSome then ownScalars o table kvs else []
  | [], st, me => by simp [addItems, rowScalars, ownScalars]
  | (k, .sc s) :: rest, st, me => by
    simp only [addItems, ownScalars]
    rw [rowScalars_append, addItems_scalars o table p r rest st me]
    cases me <;> simp [scalarCell, rowScalars] <;> split <;> simp
  | (k, .arr xs) :: rest, st, me => by
    simp only [addItems, ownScalars]
    exact addItems_scalars o table p r rest _ me
  | (k, .obj kvs) :: rest, st, me => by
    simp only [addItems, ownScalars]
    rw [rowScalars_append, addItems_scalars o table p r rest _ me]
    have : rowScalars ⟨refCell me (addRow o st (sub table k) none (.obj kvs)).2 k, p, r⟩ = [] := by
      unfold refCell; split <;> simp [rowScalars]
    rw [this]; simp

theorem ownRow_map (o : Opts) (T table : String) (st : St) (parent : Option Ref)
    (vals : List (String × Cell)) (cells : List (String × Scalar))
    (h : isIncluded o table = true → rowScalars (mkRow st table parent vals) = cells) :
    (if isIncluded o table = true ∧ T = table then [mkRow st table parent vals] else []).map rowScalars
      = ownRow o T table cells := by
  unfold ownRow
  by_cases hc : isIncluded o table = true ∧ T = table
  · simp only [if_pos hc, List.map_cons, List.map_nil, h hc.1]
  · simp only [if_neg hc, List.map_nil]

/-- the three loops put exactly the specified scalar rows into every table -/
theorem add_placed :
    (∀ v, ∀ o st table parent T,
      (rowsOf (addRow o st table parent v).1 T).map rowScalars
        = (rowsOf st T).map rowScalars ++ rowsSpec o T table v) ∧
    (∀ xs, ∀ o st table parent T,
      (rowsOf (addElems o st table parent xs) T).map rowScalars
        = (rowsOf st T).map rowScalars ++ elemsSpec o T table xs) ∧
    (∀ kvs, ∀ o st table me T,
      (rowsOf (addItems o st table me kvs).1 T).map rowScalars
        = (rowsOf st T).map rowScalars ++ itemsSpec o T table kvs) := by
  apply J.induct3
  · -- scalar
    intro s o st table parent T
    simp only [addRow, rowsSpec]
    rw [rowsOf_close_open, List.map_append, rowsOf_open]
    congr 1
    apply ownRow_map
    intro hinc
    simp [mkRow, open_snd, hinc, scalarCell, rowScalars, ownScalars]
    split <;> simp
  · -- array
    intro xs ih o st table parent T
    simp only [addRow, rowsSpec]
    rw [rowsOf_close_open, List.map_append, ih, rowsOf_open, ownRow_map o T table st parent [] [] (fun _ => rfl)]
    by_cases hc : isIncluded o table = true ∧ T = table
    · -- the children cannot touch `table`, so their contribution to it is empty
      have hext := (add_ext.2.1 xs o (open_ o st table).1 (sub table "") (open_ o st table).2) T
      have hlen : T.length < (sub table "").length := by rw [sub_length, hc.2]; omega
      have h0 := ih o (open_ o st table).1 (sub table "") (open_ o st table).2 T
      rw [hext.2 hlen] at h0
      rw [self_append_eq h0]; simp
    · simp [ownRow, hc]
  · -- object
    intro kvs ih o st table parent T
    simp only [addRow, rowsSpec]
    rw [rowsOf_close_open, List.map_append, ih, rowsOf_open]
    rw [ownRow_map o T table st parent _ (ownScalars o table kvs)
      (fun hinc => by
        have := addItems_scalars o table parent ⟨table, (rowsOf st table).length + 1⟩ kvs
          (open_ o st table).1 (open_ o st table).2
        simpa [mkRow, open_snd, hinc] using this)]
    by_cases hc : isIncluded o table = true ∧ T = table
    · have hext := (add_ext.2.2 kvs o (open_ o st table).1 table (open_ o st table).2) T
      have hlen : T.length < table.length + 1 := by rw [hc.2]; omega
      have h0 := ih o (open_ o st table).1 table (open_ o st table).2 T
      rw [hext.2 hlen] at h0
      rw [self_append_eq h0]; simp
    · simp [ownRow, hc]
  · intro o st table parent T; simp [addElems, elemsSpec]
  · intro x xs ihx ihxs o st table parent T
    simp only [addElems, elemsSpec]
    rw [ihxs, ihx, List.append_assoc]
  · intro o st table me T; simp [addItems, itemsSpec]
  · intro k s rest ih o st table me T
    simp only [addItems, itemsSpec]; exact ih o st table me T
  · intro k xs rest ihxs ih o st table me T
    simp only [addItems, itemsSpec]
    rw [ih, ihxs, List.append_assoc]
  · intro k kvs rest ihv ih o st table me T
    simp only [addItems, itemsSpec]
    rw [ih, ihv, List.append_assoc]

/-! ### rows are never modified once appended -/

def Grows (st st' : St) : Prop := ∀ T, rowsOf st T <+: rowsOf st' T

theorem Ext.grows {n : Nat} {st st' : St} (h : Ext n st st') : Grows st st' := fun T => (h T).1

theorem getRow_mono {st st' : St} (h : Grows st st') (r : Ref) (row : Row)
    (hr : getRow st r = some row) : getRow st' r = some row := by
  unfold getRow at hr ⊢
  obtain ⟨t, ht⟩ := h r.table
  rw [← ht]
  have hlt : r.rowid - 1 < (rowsOf st r.table).length := by
    rcases List.getElem?_eq_some_iff.mp hr with ⟨hl, _⟩; exact hl
  rw [List.getElem?_append_left hlt]; exact hr

theorem RowIs_mono {st st' : St} (h : Grows st st') (me parent : Option Ref)
    (vals : List (String × Cell)) (hr : RowIs st me parent vals) : RowIs st' me parent vals := by
  cases me with
  | none => trivial
  | some r => exact getRow_mono h r _ hr

theorem stored_mono :
    (∀ v, ∀ o st st' table parent me, Grows st st' →
      StoredRow o st table parent me v → StoredRow o st' table parent me v) ∧
    (∀ xs, ∀ o st st' table parent lo, Grows st st' →
      StoredElems o st table parent lo xs → StoredElems o st' table parent lo xs) ∧
    (∀ kvs, ∀ o st st' table me vals, Grows st st' →
      StoredItems o st table me vals kvs → StoredItems o st' table me vals kvs) := by
  apply J.induct3
  · intro s o st st' table parent me hg h
    simp only [StoredRow] at h ⊢; exact RowIs_mono hg _ _ _ h
  · intro xs ih o st st' table parent me hg h
    simp only [StoredRow] at h ⊢
    exact ⟨RowIs_mono hg _ _ _ h.1, ih o st st' _ _ _ hg h.2⟩
  · intro kvs ih o st st' table parent me hg h
    simp only [StoredRow] at h ⊢
    obtain ⟨vals, h1, h2⟩ := h
    exact ⟨vals, RowIs_mono hg _ _ _ h1, ih o st st' _ _ _ hg h2⟩
  · intro o st st' table parent lo _ _; simp only [StoredElems]
  · intro x xs ihx ihxs o st st' table parent lo hg h
    simp only [StoredElems] at h ⊢
    obtain ⟨child, h1, h2, h3, h4⟩ := h
    exact ⟨child, h1, h2, ihx o st st' _ _ _ hg h3, ihxs o st st' _ _ _ hg h4⟩
  · intro o st st' table me vals _ h; simpa only [StoredItems] using h
  · intro k s rest ih o st st' table me vals hg h
    simp only [StoredItems] at h ⊢
    obtain ⟨vals', h1, h2⟩ := h
    exact ⟨vals', h1, ih o st st' _ _ _ hg h2⟩
  · intro k xs rest ihxs ih o st st' table me vals hg h
    simp only [StoredItems] at h ⊢
    exact ⟨ihxs o st st' _ _ _ hg h.1, ih o st st' _ _ _ hg h.2⟩
  · intro k kvs rest ihv ih o st st' table me vals hg h
    simp only [StoredItems] at h ⊢
    obtain ⟨child, vals', h1, h2, h3, h4⟩ := h
    exact ⟨child, vals', h1, ihv o st st' _ _ _ hg h2, h3, ih o st st' _ _ _ hg h4⟩

/-! ### `add_row` stores its value -/

theorem addRow_snd (o : Opts) (st : St) (table : String) (parent : Option Ref) (v : J) :
    (addRow o st table parent v).2 = (open_ o st table).2 := by
  cases v <;> simp only [addRow]

theorem open_meOk (o : Opts) (st : St) (table : String) : MeOk o table (open_ o st table).2 := by
  rw [open_snd]
  by_cases h : isIncluded o table = true
  · rw [if_pos h]; exact ⟨h, rfl, Nat.le_add_left 1 _⟩
  · rw [if_neg h]; simpa [MeOk] using h

/-- the freshly closed row is where its handle points -/
theorem rowIs_close_open (o : Opts) (st : St) (table : String) (parent : Option Ref)
    (vals : List (String × Cell)) (st2 : St)
    (hext : Ext (table.length + 1) (open_ o st table).1 st2) :
    RowIs (close st2 (open_ o st table).2 parent vals) (open_ o st table).2 parent vals := by
  have hrows := rowsOf_close_open o st table parent vals st2 table
  have hsame : rowsOf st2 table = rowsOf st table := by
    rw [(hext table).2 (Nat.lt_succ_self _), rowsOf_open]
  rw [open_snd] at hrows ⊢
  by_cases h : isIncluded o table = true
  · simp only [h, if_true, RowIs, getRow] at hrows ⊢
    rw [hrows, hsame]
    simp [mkRow]
  · rw [if_neg h]; trivial

theorem close_open_ext (o : Opts) (st : St) (table : String) (parent : Option Ref)
    (vals : List (String × Cell)) (st2 : St) :
    Ext table.length st2 (close st2 (open_ o st table).2 parent vals) := by
  apply close_ext
  intro r hr; rw [open_snd_table o st table r hr]; exact Nat.le_refl _

theorem add_stored :
    (∀ v, ∀ o st table parent,
      StoredRow o (addRow o st table parent v).1 table parent (addRow o st table parent v).2 v) ∧
    (∀ xs, ∀ o st table parent lo, lo ≤ (rowsOf st table).length →
      StoredElems o (addElems o st table parent xs) table parent lo xs) ∧
    (∀ kvs, ∀ o st table me,
      StoredItems o (addItems o st table me kvs).1 table me (addItems o st table me kvs).2 kvs) := by
  apply J.induct3
  · intro s o st table parent
    simp only [addRow, StoredRow]
    exact rowIs_close_open o st table parent _ _ (Ext.refl _ _)
  · intro xs ih o st table parent
    simp only [addRow, StoredRow]
    have hext : Ext (table.length + 1) (open_ o st table).1
        (addElems o (open_ o st table).1 (sub table "") (open_ o st table).2 xs) :=
      (add_ext.2.1 xs o _ (sub table "") _).mono (by rw [sub_length]; omega)
    refine ⟨rowIs_close_open o st table parent _ _ hext, ?_⟩
    exact stored_mono.2.1 xs o _ _ _ _ _ (close_open_ext o st table parent _ _).grows
      (ih o _ _ _ 0 (Nat.zero_le _))
  · intro kvs ih o st table parent
    simp only [addRow, StoredRow]
    refine ⟨_, rowIs_close_open o st table parent _ _ (add_ext.2.2 kvs o _ table _), ?_⟩
    exact stored_mono.2.2 kvs o _ _ _ _ _ (close_open_ext o st table parent _ _).grows (ih o _ _ _)
  · intro o st table parent lo _; simp only [StoredElems]
  · intro x xs ihx ihxs o st table parent lo hlo
    simp only [addElems, StoredElems]
    have hchild : (addRow o st table parent x).2 = (open_ o st table).2 := addRow_snd o st table parent x
    have hext1 := add_ext.1 x o st table parent
    have hstored := ihx o st table parent
    refine ⟨(addRow o st table parent x).2, ?_, ?_, ?_, ?_⟩
    · rw [hchild]; exact open_meOk o st table
    · intro r hr
      rw [hchild, open_snd] at hr
      split at hr
      · simp at hr; rw [← hr]; simp only; omega
      · simp at hr
    · exact stored_mono.1 x o _ _ _ _ _ (add_ext.2.1 xs o _ table parent).grows hstored
    · apply ihxs
      -- the next lower bound is still within the table
      cases hme : (addRow o st table parent x).2 with
      | none =>
        simp only [nextLo]
        have := (hext1 table).1.length_le
        omega
      | some r =>
        simp only [nextLo]
        -- row r exists in the new state, so its id is within the table
        have hrow : ∃ row, getRow (addRow o st table parent x).1 r = some row := by
          rw [hme] at hstored
          cases x with
          | sc s => simp only [StoredRow, RowIs] at hstored; exact ⟨_, hstored⟩
          | arr ys => simp only [StoredRow, RowIs] at hstored; exact ⟨_, hstored.1⟩
          | obj kvs => simp only [StoredRow, RowIs] at hstored; obtain ⟨vals, h1, _⟩ := hstored; exact ⟨_, h1⟩
        obtain ⟨row, hrow⟩ := hrow
        have hmeok : MeOk o table (some r) := by rw [← hme, hchild]; exact open_meOk o st table
        simp only [MeOk] at hmeok
        unfold getRow at hrow
        rw [hmeok.2.1] at hrow
        have := (List.getElem?_eq_some_iff.mp hrow).1
        omega
  · intro o st table me; simp only [addItems, StoredItems]
  · intro k s rest ih o st table me
    simp only [addItems, StoredItems]
    exact ⟨_, rfl, ih o st table me⟩
  · intro k xs rest ihxs ih o st table me
    simp only [addItems, StoredItems]
    refine ⟨?_, ih o _ table me⟩
    exact stored_mono.2.1 xs o _ _ _ _ _ (add_ext.2.2 rest o _ table me).grows
      (ihxs o st (sub table k) me 0 (Nat.zero_le _))
  · intro k kvs rest ihv ih o st table me
    simp only [addItems, StoredItems]
    refine ⟨(addRow o st (sub table k) none (.obj kvs)).2, _, ?_, ?_, rfl, ih o _ table me⟩
    · rw [addRow_snd]; exact open_meOk o st (sub table k)
    · exact stored_mono.1 (.obj kvs) o _ _ _ _ _ (add_ext.2.2 rest o _ table me).grows
        (ihv o st (sub table k) none)

/-! ### the dump -/

theorem transpose_lengths (rows : List Row) : ∀ c ∈ transpose rows, c.data.length = rows.length := by
  intro c hc
  simp only [transpose, List.mem_map] at hc
  obtain ⟨k, _, rfl⟩ := hc
  simp

theorem dumpAll_tables : ∀ (st : St) (ts : List DTable), dumpAll st = .ok ts →
    ∀ t ∈ ts, ∃ n rows, (n, rows) ∈ st ∧ dumpTable n rows = .ok t
  | [], ts, h => by simp [dumpAll] at h; subst h; simp
  | (n, rows) :: rest, ts, h => by
    simp only [dumpAll] at h
    split at h
    · simp at h
    · rename_i t ht
      split at h
      · simp at h
      · rename_i ts' hts'
        simp at h; subst h
        intro t' ht'
        rcases List.mem_cons.mp ht' with e | hm
        · subst e; exact ⟨n, rows, by simp, ht⟩
        · obtain ⟨n', rows', hmem, hd⟩ := dumpAll_tables rest ts' hts' t' hm
          exact ⟨n', rows', List.mem_cons_of_mem _ hmem, hd⟩

theorem dumpAll_names : ∀ (st : St) (ts : List DTable), dumpAll st = .ok ts →
    ts.map (·.name) = st.map (·.1)
  | [], ts, h => by simp [dumpAll] at h; subst h; rfl
  | (n, rows) :: rest, ts, h => by
    simp only [dumpAll] at h
    split at h
    · simp at h
    · rename_i t ht
      split at h
      · simp at h
      · rename_i ts' hts'
        simp at h; subst h
        have hn : t.name = n := by
          unfold dumpTable at ht
          split at ht
          · simp at ht; subst ht; rfl
          · dsimp only at ht
            split at ht
            · simp at ht
            · simp at ht; subst ht; rfl
        simp [hn, dumpAll_names rest ts' hts']

theorem build_uniq (o : Opts) (name : String) (data : J) : Uniq (build o name data) :=
  add_uniq.2.1 _ o [] name none Uniq.nil

/-- a row handle that stores a value points to an existing row with the right back-reference -/
theorem storedRow_row (o : Opts) (st : St) (table : String) (parent : Option Ref) (r : Ref) (v : J)
    (h : StoredRow o st table parent (some r) v) :
    ∃ row, getRow st r = some row ∧ row.parent = parent ∧ row.ref = r := by
  cases v with
  | sc s => simp only [StoredRow, RowIs] at h; exact ⟨_, h, rfl, rfl⟩
  | arr xs => simp only [StoredRow, RowIs] at h; exact ⟨_, h.1, rfl, rfl⟩
  | obj kvs => simp only [StoredRow, RowIs] at h; obtain ⟨vals, h1, _⟩ := h; exact ⟨_, h1, rfl, rfl⟩

/-! ### how many rows a list of values adds to its own table -/

theorem addRow_rows_self (o : Opts) (st : St) (table : String) (parent : Option Ref) (v : J) :
    ∃ vals, rowsOf (addRow o st table parent v).1 table =
      rowsOf st table ++ (if isIncluded o table = true then [mkRow st table parent vals] else []) := by
  cases v with
  | sc s =>
    refine ⟨scalarCell o table (open_ o st table).2 "" s, ?_⟩
    simp only [addRow]
    rw [rowsOf_close_open, rowsOf_open]; simp
  | arr xs =>
    refine ⟨[], ?_⟩
    simp only [addRow]
    rw [rowsOf_close_open]
    have hext := (add_ext.2.1 xs o (open_ o st table).1 (sub table "") (open_ o st table).2) table
    rw [hext.2 (by rw [sub_length]; omega), rowsOf_open]; simp
  | obj kvs =>
    refine ⟨(addItems o (open_ o st table).1 table (open_ o st table).2 kvs).2, ?_⟩
    simp only [addRow]
    rw [rowsOf_close_open]
    have hext := (add_ext.2.2 kvs o (open_ o st table).1 table (open_ o st table).2) table
    rw [hext.2 (Nat.lt_succ_self _), rowsOf_open]; simp

/-- with the default (empty) options nothing is filtered -/
theorem default_keeps_everything (path : String) : isIncluded defaultOpts path = true := by
  simp [isIncluded, defaultOpts]

/-! ### from rows to dumped columns -/

theorem mem_addKey (acc : List String) (k x : String) : x ∈ addKey acc k ↔ x ∈ acc ∨ x = k := by
  unfold addKey
  split
  · rename_i h
    have hk : k ∈ acc := by simpa using h
    constructor
    · exact Or.inl
    · rintro (h' | rfl)
      · exact h'
      · exact hk
  · simp

theorem mem_foldl_addKey (ks : List String) : ∀ (acc : List String) (x : String),
    x ∈ ks.foldl addKey acc ↔ x ∈ acc ∨ x ∈ ks := by
  induction ks with
  | nil => intro acc x; simp
  | cons k ks ih =>
    intro acc x
    simp only [List.foldl_cons, ih, mem_addKey, List.mem_cons]
    constructor
    · rintro ((h | h) | h)
      · exact Or.inl h
      · exact Or.inr (Or.inl h)
      · exact Or.inr (Or.inr h)
    · rintro (h | h | h)
      · exact Or.inl (Or.inl h)
      · exact Or.inl (Or.inr h)
      · exact Or.inr h

theorem mem_foldl_rows (rs : List Row) : ∀ (acc : List String) (x : String),
    x ∈ rs.foldl (fun acc row => (row.values.map (·.1)).foldl addKey acc) acc ↔
      x ∈ acc ∨ ∃ r ∈ rs, x ∈ r.values.map (·.1) := by
  induction rs with
  | nil => intro acc x; simp
  | cons r rs ih =>
    intro acc x
    simp only [List.foldl_cons, ih, mem_foldl_addKey, List.mem_cons]
    constructor
    · rintro ((h | h) | ⟨r', hr', h⟩)
      · exact Or.inl h
      · exact Or.inr ⟨r, Or.inl rfl, h⟩
      · exact Or.inr ⟨r', Or.inr hr', h⟩
    · rintro (h | ⟨r', (rfl | hr'), h⟩)
      · exact Or.inl (Or.inl h)
      · exact Or.inl (Or.inr h)
      · exact Or.inr ⟨r', hr', h⟩

theorem mem_keyOrder (rows : List Row) (x : String) :
    x ∈ keyOrder rows ↔ ∃ r ∈ rows, x ∈ r.values.map (·.1) := by
  unfold keyOrder
  rw [mem_foldl_rows]
  simp

/-! ### the whole import at once: the multiset of scalar cells -/

/-- all scalar cells of all rows of all tables -/
def cellsOf (st : St) : List (String × Scalar) := st.flatMap (fun p => p.2.flatMap rowScalars)

/- all scalars of a value that the options keep, with their keys (a scalar is kept iff its row's
   path and its own path are kept) -/
mutual
def keptRow (o : Opts) (table : String) : J → List (String × Scalar)
  | .sc s => if isIncluded o table = true then ownScalars o table [("", .sc s)] else []
  | .arr xs => keptElems o (sub table "") xs
  | .obj kvs => (if isIncluded o table = true then ownScalars o table kvs else []) ++ keptItems o table kvs
def keptElems (o : Opts) (table : String) : List J → List (String × Scalar)
  | [] => []
  | x :: xs => keptRow o table x ++ keptElems o table xs
def keptItems (o : Opts) (table : String) : List (String × J) → List (String × Scalar)
  | [] => []
  | (_, .sc _) :: rest => keptItems o table rest
  | (k, .arr xs) :: rest => keptElems o (sub table k) xs ++ keptItems o table rest
  | (k, .obj kvs) :: rest => keptRow o (sub table k) (.obj kvs) ++ keptItems o table rest
end

/- every scalar of a value, in document order -/
mutual
def allScalars : J → List Scalar
  | .sc s => [s]
  | .arr xs => allScalarsL xs
  | .obj kvs => allScalarsO kvs
def allScalarsL : List J → List Scalar
  | [] => []
  | x :: xs => allScalars x ++ allScalarsL xs
def allScalarsO : List (String × J) → List Scalar
  | [] => []
  | (_, .sc s) :: rest => s :: allScalarsO rest
  | (_, .arr xs) :: rest => allScalarsL xs ++ allScalarsO rest
  | (_, .obj kvs) :: rest => allScalars (.obj kvs) ++ allScalarsO rest
end

theorem cellsOf_ensure (st : St) (t : String) : cellsOf (ensure st t) = cellsOf st := by
  unfold JsonImport.ensure; split
  · rfl
  · simp [cellsOf]

theorem push_cons_ne (a : String) (xs : List Row) (st : St) (t : String) (r : Row) (h : a ≠ t) :
    push ((a, xs) :: st) t r = (a, xs) :: push st t r := by
  have hb : (a == t) = false := by simpa using h
  unfold JsonImport.push
  simp only [List.any_cons, hb, Bool.false_or, List.map_cons, Bool.false_eq_true, if_false]
  split <;> simp

theorem map_push_id (st : St) (t : String) (r : Row) (h : t ∉ st.map (·.1)) :
    st.map (fun p => if p.1 == t then (p.1, p.2 ++ [r]) else p) = st := by
  induction st with
  | nil => rfl
  | cons p st ih =>
    simp only [List.map_cons, List.mem_cons, not_or] at h
    have hb : (p.1 == t) = false := by simpa using fun e => h.1 e.symm
    simp only [List.map_cons, hb, Bool.false_eq_true, if_false, ih h.2]

theorem cellsOf_push {st : St} (hu : Uniq st) (t : String) (r : Row) :
    (cellsOf (push st t r)).Perm (cellsOf st ++ rowScalars r) := by
  induction st with
  | nil => simp [JsonImport.push, cellsOf]
  | cons p st ih =>
    obtain ⟨a, xs⟩ := p
    unfold Uniq at hu
    simp only [List.map_cons, List.nodup_cons] at hu
    by_cases hat : a = t
    · subst hat
      have : push ((a, xs) :: st) a r = (a, xs ++ [r]) :: st := by
        unfold JsonImport.push
        simp only [List.any_cons, beq_self_eq_true, Bool.true_or, if_true, List.map_cons]
        rw [map_push_id st a r hu.1]
      rw [this]
      simp only [cellsOf, List.flatMap_cons, List.flatMap_append, List.flatMap_nil, List.append_nil]
      rw [List.append_assoc, List.append_assoc]
      exact List.Perm.append_left _ List.perm_append_comm
    · rw [push_cons_ne a xs st t r hat]
      simp only [cellsOf, List.flatMap_cons]
      rw [List.append_assoc]
      exact List.Perm.append_left _ (ih hu.2)

theorem cellsOf_close_open (o : Opts) (st : St) (table : String) (parent : Option Ref)
    (vals : List (String × Cell)) (st2 : St) (hu : Uniq st2) :
    (cellsOf (close st2 (open_ o st table).2 parent vals)).Perm
      (cellsOf st2 ++ (if isIncluded o table = true then rowScalars ⟨vals, parent, default⟩ else [])) := by
  rw [open_snd]
  by_cases h : isIncluded o table = true
  · simp only [h, if_true, close]
    exact cellsOf_push hu _ _
  · simp [h, close]

theorem cellsOf_open (o : Opts) (st : St) (table : String) : cellsOf (open_ o st table).1 = cellsOf st := by
  unfold open_; split
  · exact cellsOf_ensure st table
  · rfl

theorem open_isSome (o : Opts) (st : St) (table : String) :
    (open_ o st table).2.isSome = isIncluded o table := by
  rw [open_snd]; cases isIncluded o table <;> simp

theorem add_cells :
    (∀ v, ∀ o st table parent, Uniq st →
      (cellsOf (addRow o st table parent v).1).Perm (cellsOf st ++ keptRow o table v)) ∧
    (∀ xs, ∀ o st table parent, Uniq st →
      (cellsOf (addElems o st table parent xs)).Perm (cellsOf st ++ keptElems o table xs)) ∧
    (∀ kvs, ∀ o st table me, Uniq st →
      (cellsOf (addItems o st table me kvs).1).Perm (cellsOf st ++ keptItems o table kvs)) := by
  apply J.induct3
  · intro s o st table parent hu
    simp only [addRow, keptRow]
    refine (cellsOf_close_open o st table parent _ _ (open_uniq hu table)).trans ?_
    rw [cellsOf_open]
    apply List.Perm.append_left
    by_cases h : isIncluded o table = true
    · simp only [h, if_true, open_snd, scalarCell, Option.isSome_some, Bool.true_and, ownScalars]
      split <;> simp [rowScalars]
    · simp [h]
  · intro xs ih o st table parent hu
    simp only [addRow, keptRow]
    refine (cellsOf_close_open o st table parent _ _ (add_uniq.2.1 xs o _ _ _ (open_uniq hu table))).trans ?_
    have := ih o (open_ o st table).1 (sub table "") (open_ o st table).2 (open_uniq hu table)
    rw [cellsOf_open] at this
    simpa [rowScalars] using this
  · intro kvs ih o st table parent hu
    simp only [addRow, keptRow]
    refine (cellsOf_close_open o st table parent _ _ (add_uniq.2.2 kvs o _ _ _ (open_uniq hu table))).trans ?_
    have h1 := ih o (open_ o st table).1 table (open_ o st table).2 (open_uniq hu table)
    rw [cellsOf_open] at h1
    have h2 := addItems_scalars o table parent default kvs (open_ o st table).1 (open_ o st table).2
    rw [h2, open_isSome]
    by_cases h : isIncluded o table = true
    · simp only [h, if_true]
      refine (List.Perm.append_right _ h1).trans ?_
      rw [List.append_assoc]
      exact List.Perm.append_left _ List.perm_append_comm
    · simpa [h] using h1
  · intro o st table parent _; simp [addElems, keptElems]
  · intro x xs ihx ihxs o st table parent hu
    simp only [addElems, keptElems]
    refine (ihxs o _ table parent (add_uniq.1 x o st table parent hu)).trans ?_
    rw [← List.append_assoc]
    exact List.Perm.append_right _ (ihx o st table parent hu)
  · intro o st table me _; simp [addItems, keptItems]
  · intro k s rest ih o st table me hu
    simp only [addItems, keptItems]; exact ih o st table me hu
  · intro k xs rest ihxs ih o st table me hu
    simp only [addItems, keptItems]
    refine (ih o _ table me (add_uniq.2.1 xs o st _ me hu)).trans ?_
    rw [← List.append_assoc]
    exact List.Perm.append_right _ (ihxs o st _ me hu)
  · intro k kvs rest ihv ih o st table me hu
    simp only [addItems, keptItems]
    refine (ih o _ table me (add_uniq.1 (.obj kvs) o st _ none hu)).trans ?_
    rw [← List.append_assoc]
    exact List.Perm.append_right _ (ihv o st _ none hu)

theorem ownScalars_default (table : String) : ∀ kvs : List (String × J),
    ownScalars defaultOpts table kvs = kvs.filterMap (fun p => match p.2 with
      | .sc s => some (p.1, s)
      | _ => none)
  | [] => rfl
  | (k, .sc s) :: rest => by
    simp only [ownScalars, default_keeps_everything, if_true, List.filterMap_cons, ownScalars_default table rest]
    rfl
  | (k, .arr _) :: rest => by simp only [ownScalars, List.filterMap_cons, ownScalars_default table rest]
  | (k, .obj _) :: rest => by simp only [ownScalars, List.filterMap_cons, ownScalars_default table rest]

theorem kept_default :
    (∀ v, ∀ table, ((keptRow defaultOpts table v).map (·.2)).Perm (allScalars v)) ∧
    (∀ xs, ∀ table, ((keptElems defaultOpts table xs).map (·.2)).Perm (allScalarsL xs)) ∧
    (∀ kvs, ∀ table, ((ownScalars defaultOpts table kvs ++ keptItems defaultOpts table kvs).map (·.2)).Perm
        (allScalarsO kvs)) := by
  apply J.induct3
  · intro s table
    simp [keptRow, default_keeps_everything, ownScalars, allScalars]
  · intro xs ih table
    simp only [keptRow, allScalars]; exact ih _
  · intro kvs ih table
    simp only [keptRow, allScalars, default_keeps_everything, if_true]; exact ih table
  · intro table; simp [keptElems, allScalarsL]
  · intro x xs ihx ihxs table
    simp only [keptElems, allScalarsL, List.map_append]
    exact List.Perm.append (ihx table) (ihxs table)
  · intro table; simp [ownScalars, keptItems, allScalarsO]
  · intro k s rest ih table
    simp only [ownScalars, keptItems, allScalarsO, default_keeps_everything, if_true,
      List.cons_append, List.nil_append, List.map_cons]
    exact List.Perm.cons _ (ih table)
  · intro k xs rest ihxs ih table
    simp only [ownScalars, keptItems, allScalarsO, List.map_append]
    have h1 := ihxs (sub table k)
    have h2 := ih table
    simp only [List.map_append] at h2
    -- own ++ (elems ++ items)  ~  elems ++ (own ++ items)
    refine List.Perm.trans ?_ (List.Perm.append h1 h2)
    rw [← List.append_assoc, ← List.append_assoc]
    exact List.Perm.append_right _ List.perm_append_comm
  · intro k kvs rest ihv ih table
    simp only [ownScalars, keptItems, allScalarsO, List.map_append]
    have h1 := ihv (sub table k)
    have h2 := ih table
    simp only [List.map_append] at h2
    refine List.Perm.trans ?_ (List.Perm.append h1 h2)
    rw [← List.append_assoc, ← List.append_assoc]
    exact List.Perm.append_right _ List.perm_append_comm

end Grist.JsonImport
